CONSTANTS
  MaxTracks = 2
  MaxEvents = 3
  MaxAliens = 1
INIT Init
NEXT Next
INVARIANTS DecodesAsIntended IncompleteRejected
CHECK_DEADLOCK FALSE
