CONSTANTS
  MaxTracks = 2
  MaxEvents = 2
  MaxAliens = 2
INIT Init
NEXT Next
INVARIANTS DecodesAsIntended IncompleteRejected
CHECK_DEADLOCK FALSE
