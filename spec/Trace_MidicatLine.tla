-------------------------- MODULE Trace_MidicatLine --------------------------
(* Trace validation (binding T, and the judge of the G walk) for C19.  One trace line = one stream experiment on the
   REAL midicat.ReadAndConvert:
     recs   the original records [ts, b]
     segs   how the text was made: one segment per record, [kind, orig, at, ch] (MidicatLine!Mutate); the harness
            wrote every line with the driver's own format verbs "%d %X\n"
     raw    TRUE: the text comes from TLC's own state graph (MC_MidicatLine, Size = "g"); recs/segs are empty
     text   the characters the reader actually handed out
     mode   one | whole | rand | dataeof (last fragment delivered together with io.EOF), sizes = fragment sizes
     res    the results of successive calls until EOF: [kind rec|err|panic, ts, b, pos = characters consumed so far]
   Step 1 (generator sanity, a failure here is a machinery failure, never a violation): the text is exactly
   SegsText(recs, segs), every mutation is one of the property's kinds, and the specification's own reader promises
   for it what the property says (Promised).  Step 2 (the verdict): every call is judged against the specification's
   reader started at the offset where the call started:
     * a call that starts at a line start on a well-formed line returns exactly that record and stops after its LF;
     * a call that meets a malformed line (or starts inside one) returns an error -- how much of the malformed line it
       consumes is left open, but it must make progress and must not read past the line feed that ends that line (a
       malformed line costs only itself); a record is only ever accepted at a line start, so a record made from the
       rest of a malformed line or from two lines is rejected;
     * no panic; the last call reports an error at the end of the text.
   Lower-case hex digits may be accepted or rejected (one choice per experiment).                                    *)
EXTENDS MidicatLine, TLC, Json, IOUtils
VARIABLES l, bad

Trace == ndJsonDeserialize(IOEnv.VERIF_TRACE)
Head8(s) == SubSeq(s, 1, IF Len(s) < 8 THEN Len(s) ELSE 8)

GenOk(e) ==
  /\ e.mode \in {"one", "whole", "rand", "dataeof"}
  /\ e.mode \in {"rand", "dataeof"} =>
        /\ \A i \in 1..Len(e.sizes) : e.sizes[i] >= 1
        /\ FoldLeft(LAMBDA a, x : a + x, 0, e.sizes) = Len(e.text)
  /\ \A i \in 1..Len(e.text) : e.text[i] \in 0..255
  /\ e.raw \/ /\ SegsOk(e.recs, e.segs)
              /\ SegsText(e.recs, e.segs) = e.text
              /\ \A lc \in BOOLEAN : ReadAll(e.text, lc) = Promised(e.recs, e.segs, lc)

JudgeLc(e, lfs, lc) ==
  LET t == e.text
      n == Len(t)
      step(a, r) ==
        IF ~a.ok THEN a
        ELSE LET start == a.pos = 0 \/ t[a.pos] = LF
                 x == CallAt(t, lfs, a.pos, lc)
                 good == IF r.kind = "rec"
                           THEN start /\ x.kind = "rec" /\ r.ts = x.ts /\ r.b = x.b /\ r.pos = x.end
                         ELSE IF r.kind = "err"
                           THEN /\ ~(start /\ x.kind = "rec")
                                \* it makes progress and stays inside the malformed line: at most up to and including the
                                \* line feed that ends it (x.end) -- a neighbouring line is never consumed with it
                                /\ IF a.pos >= n THEN r.pos = a.pos ELSE r.pos > a.pos /\ r.pos <= x.end
                         ELSE FALSE
             IN [pos |-> r.pos, ok |-> good, call |-> a.call + 1, from |-> a.pos, start |-> start,
                 want |-> [kind |-> x.kind, ts |-> x.ts, nb |-> Len(x.b), first |-> Head8(x.b), end |-> x.end]]
      f == FoldLeft(step, [pos |-> 0, ok |-> TRUE, call |-> 0, from |-> 0, start |-> TRUE,
                           want |-> [kind |-> "", ts |-> 0, nb |-> 0, first |-> <<>>, end |-> 0]], e.res)
      ended == /\ Len(e.res) >= 1 /\ ~e.stuck
               /\ e.res[Len(e.res)].kind = "err" /\ e.res[Len(e.res)].pos = n
  IN [ok |-> f.ok /\ ended, calls |-> f.ok, ended |-> ended, call |-> f.call, from |-> f.from, start |-> f.start, want |-> f.want]

Judge(e) ==
  IF ~GenOk(e) THEN [ok |-> FALSE, info |-> [id |-> e.id, genbug |-> TRUE]]
  ELSE LET lfs == LFPositions(e.text)
           j1  == JudgeLc(e, lfs, TRUE)
           j   == IF j1.ok THEN j1 ELSE LET j0 == JudgeLc(e, lfs, FALSE) IN IF j0.ok THEN j0 ELSE j1
           g   == IF j.call >= 1 /\ j.call <= Len(e.res) THEN e.res[j.call] ELSE [kind |-> "", ts |-> 0, b |-> <<>>, pos |-> 0, msg |-> ""]
       IN [ok |-> j.ok,
           info |-> [id |-> e.id, genbug |-> FALSE, mode |-> e.mode, callsOk |-> j.calls, ended |-> j.ended, stuck |-> e.stuck,
                     call |-> j.call, from |-> j.from, atLineStart |-> j.start, want |-> j.want,
                     got |-> [kind |-> g.kind, ts |-> g.ts, nb |-> Len(g.b), first |-> Head8(g.b), pos |-> g.pos, msg |-> g.msg],
                     line |-> SubSeq(e.text, j.from + 1, IF j.from + 60 < Len(e.text) THEN j.from + 60 ELSE Len(e.text))]]

Init == l = 1 /\ bad = <<>>
Next == \/ /\ l <= Len(Trace)
           /\ LET j == Judge(Trace[l])
              IN bad' = IF j.ok THEN bad ELSE Append(bad, [line |-> l, info |-> j.info])
           /\ l' = l + 1
        \/ /\ l = Len(Trace) + 1
           /\ ndJsonSerialize(IOEnv.VERIF_OUT, <<[consumed |-> Len(Trace)]>> \o bad)
           /\ l' = l + 1 /\ UNCHANGED bad
=============================================================================
