----------------------------- MODULE MidicatLine -----------------------------
(* The midicat text line protocol (property C19, DESIGN Appendix C.8), written from the grammar:

       line  ::=  '-'? digit+  SP  (HEX HEX)+  LF          number in the int32 range, HEX = 0-9 A-F

   A record is [ts |-> Int (int32), b |-> non-empty sequence of 0..255].  Characters are ASCII codes,
   texts are sequences of characters.  The module has three independent parts that the model check
   (MC_MidicatLine) ties together:
     * the ENCODER    Line(ts, b)            -- what the driver writes ("%d %X\n")
     * the GRAMMAR    InGrammar / Denote     -- declarative: which lines are well formed and what they mean
     * the READER     Ph / Finish / Feed     -- a character-level automaton, one result per line
   Lower-case hex digits are accepted or rejected (parameter lc) -- both are allowed by C.8.
   No arithmetic leaves the 32-bit range: -2^31 is never negated, digit strings are compared as strings. *)
EXTENDS Integers, Sequences, SequencesExt, FiniteSets

SP    == 32
LF    == 10
MINUS == 45
IntMin == -2147483647 - 1
IntMax == 2147483647

IsDigit(c) == c \in 48..57
IsUpHex(c) == c \in 65..70
IsLoHex(c) == c \in 97..102
IsHexCh(c, lc) == IsDigit(c) \/ IsUpHex(c) \/ (lc /\ IsLoHex(c))

\* ------------------------------------------------------------------ encoder
RECURSIVE DecNat(_)      \* n >= 0, at most 10 digits deep
DecNat(n) == IF n < 10 THEN <<48 + n>> ELSE Append(DecNat(n \div 10), 48 + (n % 10))

RECURSIVE DecNeg(_)      \* n <= 0: the digits of |n| without computing |n|
DecNeg(n) == LET q == (n + 9) \div 10        \* ceil(n / 10) = -(|n| div 10)
                 d == q * 10 - n             \* |n| mod 10
             IN IF q = 0 THEN <<48 + d>> ELSE Append(DecNeg(q), 48 + d)

Dec(n) == IF n < 0 THEN <<MINUS>> \o DecNeg(n) ELSE DecNat(n)

HexChar(v) == IF v < 10 THEN 48 + v ELSE 55 + v          \* upper case
HexOf(b) == [i \in 1..2 * Len(b) |-> LET x == b[(i + 1) \div 2]
                                     IN HexChar(IF i % 2 = 1 THEN x \div 16 ELSE x % 16)]

Line(ts, b) == Dec(ts) \o <<SP>> \o HexOf(b) \o <<LF>>
LineOf(r)   == Line(r.ts, r.b)
Concat(ss)  == FoldLeft(LAMBDA a, s : a \o s, <<>>, ss)
IsRecord(r) == r.ts \in IntMin..IntMax /\ Len(r.b) >= 1 /\ \A i \in 1..Len(r.b) : r.b[i] \in 0..255

\* ------------------------------------------------------------------ values of the two fields
HexVal(c) == IF IsDigit(c) THEN c - 48 ELSE IF IsUpHex(c) THEN c - 55 ELSE c - 87

\* u = '-'? digit+ ; value without overflow: leading zeros dropped, at most 10 significant digits,
\* a 10-digit string is compared digit by digit with the limit
NumParts(u) == LET neg == Len(u) > 0 /\ u[1] = MINUS
                   d   == IF neg THEN Tail(u) ELSE u
                   nz  == {i \in 1..Len(d) : d[i] # 48}
                   z   == IF nz = {} THEN <<>> ELSE SubSeq(d, CHOOSE i \in nz : \A j \in nz : i <= j, Len(d))
               IN [neg |-> neg, d |-> d, z |-> z]
LimitDigits(neg) == IF neg THEN <<50,49,52,55,52,56,51,54,52,56>> ELSE <<50,49,52,55,52,56,51,54,52,55>>
IsNumber(u) == LET p == NumParts(u) IN Len(p.d) >= 1 /\ \A i \in 1..Len(p.d) : IsDigit(p.d[i])
InInt32(u)  == LET p == NumParts(u)
                   lim == LimitDigits(p.neg)
                   df  == {i \in 1..10 : p.z[i] # lim[i]}
               IN \/ Len(p.z) < 10
                  \/ Len(p.z) = 10 /\ (df = {} \/ LET m == CHOOSE i \in df : \A j \in df : i <= j IN p.z[m] < lim[m])
NumVal(u)   == LET p == NumParts(u)
               IN FoldLeft(LAMBDA v, c : IF p.neg THEN v * 10 - (c - 48) ELSE v * 10 + (c - 48), 0, p.z)

\* w = the characters of one line without its LF, k = index of the separator
HexBytesAfter(w, k) == [i \in 1..(Len(w) - k) \div 2 |-> HexVal(w[k + 2 * i - 1]) * 16 + HexVal(w[k + 2 * i])]

Err == [kind |-> "err", ts |-> 0, b |-> <<>>]
Rec(ts, b) == [kind |-> "rec", ts |-> ts, b |-> b]

\* ------------------------------------------------------------------ the grammar, declaratively
InGrammar(w, lc) ==
  \E k \in 1..Len(w) :
     /\ w[k] = SP
     /\ IsNumber(SubSeq(w, 1, k - 1)) /\ InInt32(SubSeq(w, 1, k - 1))
     /\ Len(w) - k >= 2 /\ (Len(w) - k) % 2 = 0
     /\ \A i \in k + 1..Len(w) : IsHexCh(w[i], lc)
Denote(w, lc) == IF InGrammar(w, lc)
                 THEN LET k == CHOOSE i \in 1..Len(w) : w[i] = SP IN Rec(NumVal(SubSeq(w, 1, k - 1)), HexBytesAfter(w, k))
                 ELSE Err

\* what a text denotes: one result per LF-terminated line; a non-empty unterminated tail is a malformed line
LFPositions(t) == {i \in 1..Len(t) : t[i] = LF}
SortedLFs(t)   == SetToSortSeq(LFPositions(t), <)
DenoteText(t, lc) ==
  LET lfs  == SortedLFs(t)
      n    == Len(lfs)
      from(i) == IF i = 1 THEN 1 ELSE lfs[i - 1] + 1
      body == [i \in 1..n |-> Denote(SubSeq(t, from(i), lfs[i] - 1), lc)]
      last == IF n = 0 THEN 0 ELSE lfs[n]
  IN IF last < Len(t) THEN Append(body, Err) ELSE body

\* ------------------------------------------------------------------ the reader: character-class automaton
(* phases: start (nothing read), sign ('-' read), num (>= 1 digit), sep (separator read), odd (a lone nibble),
   even (>= 1 complete byte), bad (outside the grammar; everything up to the LF belongs to the malformed line) *)
Phases == {"start", "sign", "num", "sep", "odd", "even", "bad"}
Ph(ph, c, lc) ==
  CASE ph = "start" -> IF c = MINUS THEN "sign" ELSE IF IsDigit(c) THEN "num" ELSE "bad"
    [] ph = "sign"  -> IF IsDigit(c) THEN "num" ELSE "bad"
    [] ph = "num"   -> IF IsDigit(c) THEN "num" ELSE IF c = SP THEN "sep" ELSE "bad"
    [] ph = "sep"   -> IF IsHexCh(c, lc) THEN "odd" ELSE "bad"
    [] ph = "odd"   -> IF IsHexCh(c, lc) THEN "even" ELSE "bad"
    [] ph = "even"  -> IF IsHexCh(c, lc) THEN "odd" ELSE "bad"
    [] OTHER        -> "bad"

\* the LF arrived: w = the characters of the line, ph = the phase they led to
Finish(ph, w, lc) ==
  IF ph # "even" THEN Err
  ELSE LET k == CHOOSE i \in 1..Len(w) : w[i] = SP
           u == SubSeq(w, 1, k - 1)
       IN IF InInt32(u) THEN Rec(NumVal(u), HexBytesAfter(w, k)) ELSE Err
ReadLine(w, lc) == Finish(FoldLeft(LAMBDA p, c : Ph(p, c, lc), "start", w), w, lc)

\* incremental form: state [ph, buf]; one character at a time; `out` = <<>> or the one result of a finished line
Reader0 == [ph |-> "start", buf |-> <<>>]
Feed(s, c, lc) == IF c = LF THEN [s |-> Reader0, out |-> <<Finish(s.ph, s.buf, lc)>>]
                  ELSE [s |-> [ph |-> Ph(s.ph, c, lc), buf |-> Append(s.buf, c)], out |-> <<>>]
FeedAll(s, out, cs, lc) == FoldLeft(LAMBDA a, c : LET r == Feed(a.s, c, lc) IN [s |-> r.s, out |-> a.out \o r.out],
                                    [s |-> s, out |-> out], cs)
AtEof(s) == IF s = Reader0 THEN <<>> ELSE <<Err>>     \* missing terminator

\* one call on a text from offset pos (0-based count of characters already consumed): the result and the new offset
CallAt(t, lfs, pos, lc) ==
  IF pos >= Len(t) THEN [kind |-> "eof", ts |-> 0, b |-> <<>>, end |-> Len(t)]
  ELSE LET after == {j \in lfs : j > pos} IN
       IF after = {} THEN [kind |-> "err", ts |-> 0, b |-> <<>>, end |-> Len(t)]
       ELSE LET j == CHOOSE x \in after : \A y \in after : x <= y
                r == ReadLine(SubSeq(t, pos + 1, j - 1), lc)
            IN [kind |-> r.kind, ts |-> r.ts, b |-> r.b, end |-> j]
RECURSIVE ReadFrom(_, _, _, _)        \* depth = number of lines
ReadFrom(t, lfs, pos, lc) == LET r == CallAt(t, lfs, pos, lc)
                             IN IF r.kind = "eof" THEN <<>>
                                ELSE <<[kind |-> r.kind, ts |-> r.ts, b |-> r.b]>> \o ReadFrom(t, lfs, r.end, lc)
ReadAll(t, lc) == ReadFrom(t, LFPositions(t), 0, lc)

\* ------------------------------------------------------------------ the four mutation kinds of the property
(* A segment is one original line, possibly mutated:  [kind, orig (index of the record), at (1-based position in
   Line(rec)), ch (replacement character)].  kinds: ok | oddhex (one hex digit removed) | nonhex (one hex digit
   replaced by a character that is no hex digit in either case and no white space) | nosep (separator removed) |
   noterm (LF removed: the line runs into the next one or into EOF) | lower (an A-F digit replaced by its lower-case
   form: accepted or rejected).                                                                                   *)
\* (RemoveAt, ReplaceAt: SequencesExt)
SepIndex(ln)        == CHOOSE i \in 1..Len(ln) : ln[i] = SP
InHexPart(ln, i)    == i > SepIndex(ln) /\ i < Len(ln)
IsJunkCh(c)         == c \in 33..126 /\ ~IsHexCh(c, TRUE)
\* "nonhex2": one whole byte (an aligned PAIR of hex digits) is replaced by two copies of a character that is no hex
\* digit -- any character but LF and the separator, control characters such as CR or TAB included: the remaining digits
\* still pair up, so only a reader that really looks at every character notices
IsJunk2Ch(c)        == c \in 1..255 /\ c # LF /\ c # SP /\ ~IsHexCh(c, TRUE)
PairStart(ln, i)    == InHexPart(ln, i) /\ InHexPart(ln, i + 1) /\ (i - SepIndex(ln)) % 2 = 1
MutationOk(ln, g) ==
  CASE g.kind = "ok"     -> TRUE
    [] g.kind = "oddhex" -> InHexPart(ln, g.at)
    [] g.kind = "nonhex" -> InHexPart(ln, g.at) /\ IsJunkCh(g.ch)
    [] g.kind = "nonhex2" -> PairStart(ln, g.at) /\ IsJunk2Ch(g.ch)
    [] g.kind = "lower"  -> InHexPart(ln, g.at) /\ IsUpHex(ln[g.at]) /\ g.ch = ln[g.at] + 32
    [] g.kind = "nosep"  -> g.at = SepIndex(ln)
    [] g.kind = "noterm" -> g.at = Len(ln)
    [] OTHER             -> FALSE
Mutate(ln, g) ==
  CASE g.kind = "ok" -> ln
    [] g.kind \in {"oddhex", "nosep", "noterm"} -> RemoveAt(ln, g.at)
    [] g.kind = "nonhex2" -> ReplaceAt(ReplaceAt(ln, g.at, g.ch), g.at + 1, g.ch)
    [] OTHER -> ReplaceAt(ln, g.at, g.ch)

\* what the property promises for a text made of such segments (a segment following a noterm is an "ok" one)
SegsOk(recs, segs) ==
  \A i \in 1..Len(segs) :
     /\ segs[i].orig \in 1..Len(recs) /\ IsRecord(recs[segs[i].orig])
     /\ MutationOk(LineOf(recs[segs[i].orig]), segs[i])
     /\ (i > 1 /\ segs[i - 1].kind = "noterm") => segs[i].kind \in {"ok", "noterm"}
SegsText(recs, segs) == Concat([i \in 1..Len(segs) |-> Mutate(LineOf(recs[segs[i].orig]), segs[i])])
Promised(recs, segs, lc) ==
  LET r == FoldLeft(LAMBDA a, g :
                      IF g.kind = "noterm" THEN [out |-> a.out, pend |-> TRUE]
                      ELSE [out |-> Append(a.out, IF a.pend THEN Err
                                                  ELSE IF g.kind = "ok" \/ (g.kind = "lower" /\ lc)
                                                       THEN Rec(recs[g.orig].ts, recs[g.orig].b) ELSE Err),
                            pend |-> FALSE],
                    [out |-> <<>>, pend |-> FALSE], segs)
  IN IF r.pend THEN Append(r.out, Err) ELSE r.out
=============================================================================
