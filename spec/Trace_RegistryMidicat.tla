------------------------ MODULE Trace_RegistryMidicat ------------------------
(* Trace validation for X05 part M (spec/RegistryMidicat.tla).  One line = one experiment on the REAL drivers/midicatdrv
   (harness/cmd/vh_registry_mcat) against the stand-in helper cmd/midicat_x05:
     ver      what `midicat version -s` printed;  newok / newpan: midicatdrv.New() handed out a driver / panic text
     ins, outs  what `midicat ins --json` / `outs --json` printed: entries [key, name] in that order (or garbage) and
                the exit code;  insret / inslist, outsret / outslist: what drivers.Ins() / Outs() returned through the
                registry (error kind; Number and String of every port, in order)
     openin, openout  positions of the returned listings that were opened;  openrets: the results of Open
     before / after / reopen  IsOpen of every listed port (ins, then outs) after the opens, after Driver.Close()
                (via = driver) resp. midi.CloseDriver() (via = registry), and after opening the same ports again
     first    drivers.Get().String()                                                                              *)
EXTENDS RegistryMidicat, SequencesExt, TLC, Json, IOUtils
VARIABLES l, bad

Trace == ndJsonDeserialize(IOEnv.VERIF_TRACE)

TmBytes(q) == \A i \in 1..Len(q) : q[i] \in 0..255
TmListWf(x) == /\ x.rc \in 0..255 /\ x.garbage \in BOOLEAN /\ Len(x.entries) <= 16
               /\ \A i \in 1..Len(x.entries) : TmBytes(x.entries[i].key) /\ TmBytes(x.entries[i].name) /\ Len(x.entries[i].key) <= 8
Wf(e) == /\ TmBytes(e.ver) /\ Len(e.ver) <= 24 /\ TmListWf(e.ins) /\ TmListWf(e.outs) /\ e.via \in {"driver", "registry"}
         /\ \A i \in 1..Len(e.openin) : e.openin[i] \in 1..Len(e.ins.entries)
         /\ \A i \in 1..Len(e.openout) : e.openout[i] \in 1..Len(e.outs.entries)
DriverName == <<109, 105, 100, 105, 99, 97, 116, 100, 114, 118>>      \* "midicatdrv"

ListOk(x, ret, list) == LET r == RmListing(x.rc, x.garbage, x.entries)
                        IN r.ret = "free" \/ (ret = r.ret /\ (r.ret = "nil" => list = r.list))
Fail(e, what, x) == [ok |-> FALSE, info |-> [id |-> e.id, genbug |-> FALSE, what |-> what, x |-> x]]

Judge(e) ==
  IF ~Wf(e) THEN [ok |-> FALSE, info |-> [id |-> e.id, genbug |-> TRUE, what |-> "malformed", x |-> <<>>]]
  ELSE IF e.timeout THEN Fail(e, "timeout", <<>>)
  ELSE IF e.pan # "" THEN Fail(e, "panic", <<>>)
  ELSE LET g == RmGate(e.ver) IN
  IF (g = "accept" /\ ~(e.newok /\ e.newpan = "")) \/ (g = "reject" /\ e.newok)
    THEN Fail(e, "gate", [gate |-> g, parsed |-> RmParse(e.ver)])
  ELSE IF e.first # DriverName THEN Fail(e, "registered", <<>>)
  ELSE IF ~ListOk(e.ins, e.insret, e.inslist) THEN Fail(e, "ins", [expected |-> RmListing(e.ins.rc, e.ins.garbage, e.ins.entries)])
  ELSE IF ~ListOk(e.outs, e.outsret, e.outslist) THEN Fail(e, "outs", [expected |-> RmListing(e.outs.rc, e.outs.garbage, e.outs.entries)])
  ELSE LET nI == Len(e.inslist)
           nO == Len(e.outslist)
           opened == {i \in 1..nI : \E j \in 1..Len(e.openin) : e.openin[j] = i} \cup {nI + i : i \in {x \in 1..nO : \E j \in 1..Len(e.openout) : e.openout[j] = x}}
           want == [i \in 1..(nI + nO) |-> i \in opened]
       IN IF \E i \in 1..Len(e.openrets) : e.openrets[i] # "nil" THEN [ok |-> FALSE, info |-> [id |-> e.id, genbug |-> TRUE, what |-> "stand-in did not start", x |-> <<>>]]
          ELSE IF e.before # want THEN Fail(e, "open", [want |-> want])
          ELSE IF e.closeret # "nil" \/ e.after # [i \in 1..(nI + nO) |-> FALSE] THEN Fail(e, "close", [want |-> [i \in 1..(nI + nO) |-> FALSE]])
          ELSE IF e.reopen # want \/ \E i \in 1..Len(e.reopenrets) : e.reopenrets[i] # "nil" THEN Fail(e, "reopen", [want |-> want])
          ELSE [ok |-> TRUE, info |-> [id |-> e.id, genbug |-> FALSE, what |-> "", x |-> <<>>]]

Init == l = 1 /\ bad = <<>>
Next == \/ /\ l <= Len(Trace)
           /\ LET j == Judge(Trace[l])
              IN bad' = IF j.ok THEN bad ELSE Append(bad, [line |-> l, info |-> j.info])
           /\ l' = l + 1
        \/ /\ l = Len(Trace) + 1
           /\ ndJsonSerialize(IOEnv.VERIF_OUT, <<[consumed |-> Len(Trace)]>> \o bad)
           /\ l' = l + 1 /\ UNCHANGED bad
=============================================================================
