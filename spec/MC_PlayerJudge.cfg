\* quick: <= 3 tracks x <= 2 events, three tick patterns, identical channel messages in all tracks
\* the trace acceptor (Player!Via) as next-state relation: accepts only stable merges
CONSTANTS
  NT = 3
  NE = 2
  MaxNow = 1
  Kinds <- KindsNoB
  TimePats <- Pats3
  Sels <- SelAll
  PortMaps <- PMmixed
INIT Init
NEXT NextJ
INVARIANTS AllWellFormed SentOk Complete
CHECK_DEADLOCK FALSE
