\* quick: <= 3 tracks x <= 2 events, ticks <<0,0>> / <<1,1>> per track, the same channel message everywhere, meta
\* the trace acceptor (Player!Via) as next-state relation: accepts only stable merges
CONSTANTS
  NT = 3
  NE = 2
  MaxNow = 1
  Kinds <- KindsAM
  TimePats <- Pats3q
  Sels <- SelAll
  PortMaps <- PMmixed
INIT Init
NEXT NextJ
INVARIANTS AllWellFormed SentOk Complete AttrAgrees
CHECK_DEADLOCK FALSE
