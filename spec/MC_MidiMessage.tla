---------------------------- MODULE MC_MidiMessage ----------------------------
(* C07/C08 on the model: over boundary arguments every constructor yields a well-formed message of the type its
   matching accessor belongs to, data bytes never exceed 127, distinct constructors for the same argument classes
   differ; the classification by first byte is total and yields exactly one allowed category.
   Also exports the decision tables for the exhaustive Go sweeps (binding X).                                   *)
EXTENDS MidiMessage, TLC, Json, IOUtils
VARIABLES fn, a
ChanArgs == {0, 1, 15, 16, 255}
DataArgs == {0, 1, 64, 127, 128, 255}
Calls == [fn : {"NoteOn", "NoteOffVelocity", "PolyAfterTouch", "ControlChange"}, a : ChanArgs \X DataArgs \X DataArgs]
   \cup [fn : {"NoteOff", "ProgramChange", "AfterTouch"}, a : ChanArgs \X DataArgs]
   \cup [fn : {"Pitchbend"}, a : ChanArgs \X {-32768, -8193, -8192, -1, 0, 1, 8191, 8192, 32767}]
   \cup [fn : {"SPP"}, a : {<<x>> : x \in {0, 1, 127, 128, 16383, 16384, 65535}}]
   \cup [fn : {"MTC", "SongSelect"}, a : {<<x>> : x \in {0, 1, 127, 128, 255}}]
   \cup [fn : {"Tune"}, a : {<<>>}]
Init == \E c \in Calls : fn = c.fn /\ a = c.a
Next == UNCHANGED <<fn, a>>

TypeOfStatus(s) == IF s \in 128..239 THEN ChanTypes[s \div 16]
                   ELSE CASE s = 241 -> "MTC" [] s = 242 -> "SPP" [] s = 243 -> "SongSelect" [] s = 246 -> "Tune" [] OTHER -> "?"
WellFormed == WellFormedShort(Ctor(fn, a))
TypeMatches == fn # "Tune" => AccType[MatchAcc(fn)] = TypeOfStatus(Ctor(fn, a)[1])
\* the accessor's answer re-encodes to the same message (decoding the constructed bytes by the MIDI layout)
DecodeBack ==
  LET b == Ctor(fn, a)  o == ExpOut(fn, a) IN
  ExactDomain(fn, a) =>
    CASE fn = "Pitchbend" -> b[2] + 128 * b[3] = o[3] /\ o[2] = o[3] - 8192 /\ b[1] % 16 = o[1]
      [] fn = "SPP" -> b[2] + 128 * b[3] = o[1]
      [] fn \in {"MTC", "SongSelect"} -> b[2] = o[1]
      [] fn = "Tune" -> TRUE
      [] OTHER -> b[1] % 16 = o[1] /\ b[2] = o[2] /\ (Len(b) = 3 => b[3] = o[3])
OneCategory == \A lvl \in {"midi", "smf"}, b \in 0..255 : AllowedCats(lvl, b) # {} /\ AllowedCats(lvl, b) \subseteq Cats
=============================================================================
