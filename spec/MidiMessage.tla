----------------------------- MODULE MidiMessage -----------------------------
(* MIDI 1.0 message layer (C07, C08), written from the MIDI 1.0 status table:
     constructors  (wire encoding; channel-voice arguments clamped to the nearest legal value)
     TypeOf / categories (classification by status byte; for file-level messages FF = meta)
     accessors     (which type each accessor belongs to; what it returns for a constructed message)   *)
EXTENDS Integers, Sequences

Min(a, b) == IF a < b THEN a ELSE b
C7(x) == Min(x, 127)
Ch(c) == Min(c, 15)

\* ---- constructors ---------------------------------------------------------------------------------
PBClamp(v) == IF v > 8191 THEN 8191 ELSE IF v < -8192 THEN -8192 ELSE v
Ctor(fn, a) ==
  CASE fn = "NoteOn"          -> <<144 + Ch(a[1]), C7(a[2]), C7(a[3])>>
    [] fn = "NoteOffVelocity" -> <<128 + Ch(a[1]), C7(a[2]), C7(a[3])>>
    [] fn = "NoteOff"         -> <<128 + Ch(a[1]), C7(a[2]), 0>>
    [] fn = "PolyAfterTouch"  -> <<160 + Ch(a[1]), C7(a[2]), C7(a[3])>>
    [] fn = "ControlChange"   -> <<176 + Ch(a[1]), C7(a[2]), C7(a[3])>>
    [] fn = "ProgramChange"   -> <<192 + Ch(a[1]), C7(a[2])>>
    [] fn = "AfterTouch"      -> <<208 + Ch(a[1]), C7(a[2])>>
    [] fn = "Pitchbend"       -> LET w == PBClamp(a[2]) + 8192 IN <<224 + Ch(a[1]), w % 128, w \div 128>>   \* LSB first
    [] fn = "SPP"             -> <<242, a[1] % 128, (a[1] \div 128) % 128>>                                  \* LSB first
    [] fn = "MTC"             -> <<241, a[1] % 128>>
    [] fn = "SongSelect"      -> <<243, a[1] % 128>>
    [] fn = "Tune"            -> <<246>>
\* the encoding is prescribed exactly for channel voice always (clamping) and for system common in range;
\* out-of-range system-common arguments are undocumented: only well-formedness is required there
ExactDomain(fn, a) ==
  CASE fn = "SPP" -> a[1] < 16384
    [] fn \in {"MTC", "SongSelect"} -> a[1] < 128
    [] OTHER -> TRUE

NDataOf(s) == IF s \in 192..223 THEN 1 ELSE IF s \in 128..239 THEN 2
              ELSE IF s = 241 \/ s = 243 THEN 1 ELSE IF s = 242 THEN 2 ELSE 0
WellFormedShort(b) == /\ Len(b) >= 1 /\ b[1] >= 128 /\ b[1] # 240 /\ b[1] # 247
                      /\ Len(b) = 1 + NDataOf(b[1]) /\ \A i \in 2..Len(b) : b[i] < 128

\* which accessor matches a constructor and what it returns (clamped arguments)
MatchAcc(fn) == CASE fn \in {"NoteOffVelocity", "NoteOff"} -> "NoteOff"
                  [] fn = "Pitchbend" -> "PitchBend"
                  [] OTHER -> fn
ExpOut(fn, a) ==
  CASE fn \in {"NoteOn", "NoteOffVelocity", "PolyAfterTouch", "ControlChange"} -> <<Ch(a[1]), C7(a[2]), C7(a[3])>>
    [] fn = "NoteOff" -> <<Ch(a[1]), C7(a[2]), 0>>
    [] fn \in {"ProgramChange", "AfterTouch"} -> <<Ch(a[1]), C7(a[2])>>
    [] fn = "Pitchbend" -> <<Ch(a[1]), PBClamp(a[2]), PBClamp(a[2]) + 8192>>      \* channel, relative, absolute
    [] fn \in {"SPP", "MTC", "SongSelect"} -> <<a[1]>>
    [] fn = "Tune" -> <<>>

\* ---- classification ---------------------------------------------------------------------------------
ChanTypes == [x \in 8..14 |-> CASE x = 8 -> "NoteOff" [] x = 9 -> "NoteOn" [] x = 10 -> "PolyAfterTouch" [] x = 11 -> "ControlChange"
                                [] x = 12 -> "ProgramChange" [] x = 13 -> "AfterTouch" [] x = 14 -> "PitchBend"]
\* type-specific accessors and the type (as the library names it) each belongs to
AccType == [NoteOn |-> "NoteOn", NoteOff |-> "NoteOff", PolyAfterTouch |-> "PolyAfterTouch", AfterTouch |-> "AfterTouch",
            ProgramChange |-> "ProgramChange", PitchBend |-> "PitchBend", ControlChange |-> "ControlChange",
            MTC |-> "MTC", SongSelect |-> "SongSelect", SPP |-> "SPP", SysEx |-> "SysExType",
            MetaChannel |-> "MetaChannel", MetaPort |-> "MetaPort", MetaSeqNumber |-> "MetaSeqNumber", MetaSeqData |-> "MetaSeqData",
            MetaKeySig |-> "MetaKeySig", MetaSMPTEOffset |-> "MetaSMPTEOffset", MetaTimeSig |-> "MetaTimeSig", MetaTempo |-> "MetaTempo",
            MetaLyric |-> "MetaLyric", MetaCopyright |-> "MetaCopyright", MetaCuepoint |-> "MetaCuepoint", MetaDevice |-> "MetaDevice",
            MetaInstrument |-> "MetaInstrument", MetaMarker |-> "MetaMarker", MetaProgramName |-> "MetaProgramName", MetaText |-> "MetaText",
            MetaTrackName |-> "MetaTrackName"]
Accessors == DOMAIN AccType
Cats == {"channel", "syscommon", "realtime", "sysex", "unknown", "meta"}

\* categories MIDI 1.0 allows for a message by its first byte (undefined status bytes F4 F5 FD may be reported
\* as unknown or under their range's category); lvl = "smf": FF starts a meta event, system common / real-time do not exist
AllowedCats(lvl, b1) ==
  IF b1 < 128 THEN {"unknown"}
  ELSE IF b1 <= 239 THEN {"channel"}
  ELSE IF b1 = 240 \/ b1 = 247 THEN {"sysex"}
  ELSE IF b1 = 255 /\ lvl = "smf" THEN {"meta", "unknown"}
  ELSE IF b1 \in {244, 245} THEN {"unknown", "syscommon"}
  ELSE IF b1 = 253 THEN {"unknown", "realtime"}
  ELSE IF b1 < 247 THEN {"syscommon"}
  ELSE {"realtime"}

\* C08 on one observation: cats = set of categories the library says the message belongs to,
\* accs = set of type-specific accessors that accepted, ty = reported type name
ClassOk(lvl, bytes, cats, accs, ty) ==
  /\ \E c \in Cats : cats = {c}                                            \* exactly one category
  /\ (Len(bytes) > 0 => cats \subseteq AllowedCats(lvl, bytes[1]))
  /\ (Len(bytes) = 0 => cats = {"unknown"})
  /\ \A x, y \in accs : AccType[x] = AccType[y]                            \* at most one (type of) accessor
  /\ \A x \in accs : AccType[x] = ty                                       \* accepts only its own type
=============================================================================
