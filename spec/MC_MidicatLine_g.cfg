CONSTANTS
  Size = "g"
  MaxFrag = 3
INIT Init
NEXT Next
INVARIANTS OnePerLine Lossless CallLevel Grammar MutHasError
CHECK_DEADLOCK FALSE
