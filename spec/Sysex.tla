------------------------------- MODULE Sysex -------------------------------
(* Checksummed and fixed-layout system-exclusive helpers (C18), written from the conventions, not from the code.

   Roland-style manufacturer message (address-mapped data transfer):
       F0 <manufacturer> <device> <model> <command> <a1 a2 a3> <body...> <checksum> F7
     command 12h = data set  (DT1): body = the payload (here 1..512 data bytes)
     command 11h = data request (RQ1): body = the three size bytes
     all bytes between F0 and F7 are 7-bit data bytes
     checksum: the 7-bit value that makes  a1 + a2 + a3 + body + checksum  a multiple of 128,
               i.e. (128 - (sum mod 128)) mod 128  -- "if the remainder is 0 the checksum is 0".
   A value is [man, dev, model, req, addr, data, size]; the field a command does not use is empty/zero
   (data = <<>> for a request, size = <<0,0,0>> for a data set).

   MIDI Machine Control (universal real-time sysex, sub-id 06 = MMC command):
       plain command   F0 7F <device> 06 <command> F7                       command below 40h carries no data
       locate / go to  F0 7F <device> 06 44 06 01 <hr mn sc fr ff> F7      44h LOCATE, 06 = byte count, 01 = TARGET
   Parsing is the inverse of building and fails on everything that is not built.                               *)
EXTENDS Integers, Sequences, SequencesExt

SxB7 == 0..127
SxAll7(s) == \A i \in 1..Len(s) : s[i] \in SxB7
SxSum(s) == FoldLeft(LAMBDA a, x : a + x, 0, s)          \* at most 516 * 127, far below 2^31
SxChecksum(s) == (128 - (SxSum(s) % 128)) % 128

SxZero3 == <<0, 0, 0>>
SxIsValue(v) ==
  /\ v.man \in SxB7 /\ v.dev \in SxB7 /\ v.model \in SxB7 /\ v.req \in BOOLEAN
  /\ Len(v.addr) = 3 /\ SxAll7(v.addr)
  /\ IF v.req THEN Len(v.size) = 3 /\ SxAll7(v.size) /\ v.data = <<>>
              ELSE Len(v.data) \in 1..512 /\ SxAll7(v.data) /\ v.size = SxZero3

SxBody(v) == IF v.req THEN v.size ELSE v.data
SxBuild(v) == <<240, v.man, v.dev, v.model, IF v.req THEN 17 ELSE 18>> \o v.addr \o SxBody(v)
              \o <<SxChecksum(v.addr \o SxBody(v)), 247>>

\* positions (1-based) of the address, body and checksum bytes of a built message b: the bytes the checksum protects
SxGuarded(b) == 6..(Len(b) - 1)
\* the checksum property of a message: address + body + checksum is 0 modulo 128
SxSumZero(b) == Len(b) >= 11 /\ SxSum(SubSeq(b, 6, Len(b) - 1)) % 128 = 0

SxNoValue == [man |-> 0, dev |-> 0, model |-> 0, req |-> FALSE, addr |-> <<>>, data |-> <<>>, size |-> <<>>]
SxFail == [ok |-> FALSE, v |-> SxNoValue]
SxParse(b) ==
  LET n == Len(b) IN
  IF n < 11 THEN SxFail                                            \* shortest message: data set with one data byte
  ELSE IF b[1] # 240 \/ b[n] # 247 \/ b[5] \notin {17, 18} THEN SxFail
  ELSE IF ~SxAll7(SubSeq(b, 2, 4)) \/ ~SxAll7(SubSeq(b, 6, n - 1)) THEN SxFail
  ELSE IF b[5] = 17 /\ n # 13 THEN SxFail                          \* a request carries exactly three size bytes
  ELSE IF ~SxSumZero(b) THEN SxFail
  ELSE [ok |-> TRUE,
        v |-> [man |-> b[2], dev |-> b[3], model |-> b[4], req |-> b[5] = 17, addr |-> SubSeq(b, 6, 8),
               data |-> IF b[5] = 17 THEN <<>> ELSE SubSeq(b, 9, n - 2),
               size |-> IF b[5] = 17 THEN SubSeq(b, 9, 11) ELSE SxZero3]]

\* ---- MIDI Machine Control -------------------------------------------------------------------------------
MmcDevs  == 1..127            \* device ids of the property (7F = all devices)
MmcPlain == 1..63             \* single-byte commands below 40h (00 is reserved)
MmcBuild(dev, cmd) == <<240, 127, dev, 6, cmd, 247>>
MmcParse(b) ==
  IF Len(b) = 6 /\ b[1] = 240 /\ b[2] = 127 /\ b[3] \in SxB7 /\ b[4] = 6 /\ b[5] \in 0..63 /\ b[6] = 247
  THEN [ok |-> TRUE, dev |-> b[3], cmd |-> b[5]] ELSE [ok |-> FALSE, dev |-> 0, cmd |-> 0]

\* tc = <<hours(+type bits), minutes, seconds, frames, subframes>>, each a 7-bit data byte
LocIsTc(tc) == Len(tc) = 5 /\ SxAll7(tc)
LocBuild(dev, tc) == <<240, 127, dev, 6, 68, 6, 1>> \o tc \o <<247>>
LocParse(b) ==
  IF Len(b) = 13 /\ SubSeq(b, 1, 2) = <<240, 127>> /\ b[3] \in SxB7 /\ SubSeq(b, 4, 7) = <<6, 68, 6, 1>>
     /\ SxAll7(SubSeq(b, 8, 12)) /\ b[13] = 247
  THEN [ok |-> TRUE, dev |-> b[3], tc |-> SubSeq(b, 8, 12)] ELSE [ok |-> FALSE, dev |-> 0, tc |-> <<>>]
=============================================================================
