CONSTANTS
  NInst = 3
  MaxFaults = 1
  Depth = 4
  Slow = TRUE
  Lean = FALSE
  HandleInst <- HandleOne
INIT Init
NEXT Next
INVARIANTS TypeOK NamesOnce GetIsFirst ListingIsFirstDrivers FoundIsFirstMatch FoundOpenOrClosed NoPortWithError
  ListeningIsOpen OneHandlePerPort FaultyNeverOpen FaultyNeverListens StartedMeansOpenAndListening FailedMeansNoListener
  SendToMeansOpen SentMeansOpen DeliveredMeansListening Total FindAgreesWithByName NegativeOrEmptyNeverFinds
PROPERTIES A_FirstNameStays A_RegisterReplaces A_OnlyRegisterChangesRegistry A_ErrorChangesNothing A_ListenErrorAtMostOpens
  A_LookupFailsIff A_LookupTouchesOnlyFound A_ListenFailsIff A_SendToFailsIff A_SendFailsIff A_CloseDriverOnlyFirst
  A_StopReportsAll A_CountsDeliveries
CHECK_DEADLOCK FALSE
