CONSTANTS
  Alphabet <- TokensQuick
  Dts = {0, 7}
  MaxChunks = 3
  Settings <- SettingsOne
INIT Init
NEXT Next
INVARIANTS Valid OnlyChannel KeepIsNeeded TicksExact
CHECK_DEADLOCK FALSE
