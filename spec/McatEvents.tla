------------------------------ MODULE McatEvents ------------------------------
(* Abstract monitor of the lock-protected steps of the process-backed in port (drivers/midicatdrv/in.go), at the grain of
   the verif hook: every event is emitted while the port mutex is held, so their order is the lock order.
     started           the helper process runs, reader and control goroutines are spawned     (fireCmd)
     listener-set      Listen stored a listener                                                (Listen)
     listener-cleared  the control goroutine cleared the listener                              (stop / Close)
     killed            the control goroutine killed the helper and marked the port closed      (Close)
     line-delivered    the reader goroutine handed a line to the listener (after the callback returned)
     line-dropped      the reader goroutine read a line while no listener was set
   Both the PlusCal model MC_MidicatIn (invariant RefinesMonitor) and the hook traces of the real driver
   (Trace_McatEvents) must be behaviours of this monitor: that binds the model's labels to the code's critical sections. *)
EXTENDS Integers, Sequences

M0 == [alive |-> FALSE, lst |-> FALSE]

MEnabled(m, e) ==
  CASE e = "started"          -> ~m.alive
    [] e = "listener-set"     -> m.alive /\ ~m.lst
    [] e = "listener-cleared" -> m.alive
    [] e = "killed"           -> m.alive
    [] e = "line-delivered"   -> m.alive /\ m.lst          \* never a callback for a cleared listener, never after the kill
    [] e = "line-dropped"     -> m.alive /\ ~m.lst
    [] OTHER -> FALSE

MStep(m, e) ==
  CASE e = "started"          -> [m EXCEPT !.alive = TRUE]
    [] e = "listener-set"     -> [m EXCEPT !.lst = TRUE]
    [] e = "listener-cleared" -> [m EXCEPT !.lst = FALSE]
    [] e = "killed"           -> [m EXCEPT !.alive = FALSE]
    [] OTHER -> m
=============================================================================
