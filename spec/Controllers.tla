----------------------------- MODULE Controllers -----------------------------
(* X02 -- "Controller protocols and combined helpers emit the MIDI 1.0 sequences".

   Extension property, stated from the MIDI 1.0 Detailed Specification (controller table, Registered / Non-Registered
   Parameter Numbers, channel mode messages) and the package documentation of gomidi/midi v2 (rpn, nrpn, cc.go,
   combined.go, note.go + their tests).  Not transcribed from the code.

   P1 (parameter protocol; packages rpn, nrpn).  MIDI 1.0: CC 101 / 100 select the Registered Parameter MSB / LSB,
      CC 99 / 98 the Non-Registered Parameter MSB / LSB; the kind selected last is the active one; CC 6 (data entry
      MSB), CC 38 (data entry LSB), CC 96 (increment), CC 97 (decrement) act on the ACTIVE parameter of the channel;
      RPN 127/127 is the null function: while it is selected data entry / increment / decrement are ignored.
      The receiver of one channel is the state machine RxStep below.  For every helper call
         RPN / NRPN (ch, pMSB, pLSB, vMSB, vLSB), Increment / Decrement (ch, pMSB, pLSB), the five named RPNs
         (PitchBendSensitivity = 0,0  FineTuning = 0,1  CoarseTuning = 0,2  TuningProgramSelect = 0,3
          TuningBankSelect = 0,4), Reset (ch)
      with every argument clamped the way the channel-voice constructors clamp (C07: channel -> min 15, data -> min 127):
        a. every returned message is a well-formed Control Change on the (clamped) channel -- no other channel is touched;
        b. only controllers of the protocol appear (101 100 99 98 6 38 96 97);
        c. fed to a receiver that knows NOTHING (no parameter selected, registers unknown) the sequence performs exactly
           the writes asked for, in this order, on exactly the parameter asked for: data-entry MSB = vMSB then data-entry
           LSB = vLSB (an MSB resets the receiver's LSB, so the order matters), or one increment, or one decrement; a
           data byte reaching an unknown / half-selected parameter is a wrong write.  (The order of the two select
           messages is free; the value byte of increment / decrement is free.)
        d. afterwards the channel is left either with that same parameter selected or -- what the helpers do, "Reset aka
           Null" -- with the null function selected; never with another or a half-selected parameter.  Reset alone must
           select the null function and write nothing.  For package rpn the null function is RPN 127/127; for package
           nrpn NRPN 127/127 is accepted as well (permissive, see observations).
      If the parameter asked for is itself 127/127 nothing can be written: only a, b, d are demanded.

   P2 (combined helpers).  SilenceChannel(ch), documented: one channel 0..15, -1 = every channel, > 15 panics.
      Every message is well formed and is a silencing message (All Sound Off = CC 120 value 0, All Notes Off = CC 123
      value 0, a Note Off / Note On with velocity 0), only on the channel(s) asked for, and every channel asked for
      receives CC 120 or CC 123 (or a note off for each of the 128 keys).  ch > 15: the call panics (documented).
      ch < -1 is undocumented: only the per-message clauses.
      ResetChannel(ch, bank, prog), documented list: bank select -> bank, program change -> prog, all controllers off
      (CC 121 value 0), volume 100, expression 127, hold pedal off, pan 64, "RPN pitch bend sensitivity -> 2": exactly
      these messages, each once, each well formed on the clamped channel, bank select before the program change (MIDI:
      a bank select takes effect with the next program change).  The RPN part is documented but commented out in the
      code and absent from the package's own test: it is OPTIONAL here (if present it must be a correct P1 sequence
      writing MSB 2 to RPN 0,0) -- see observations.  gm.Reset(ch, prog) documents the same list with bank 0;
      gm.GMProgram(ch, prog) is exactly bank select 0 followed by the program change.

   P3 (controller constants of cc.go): every named constant has the controller number of the MIDI 1.0 controller table;
      LSB = MSB + 32; channel mode messages are 120..127.

   P4 (note.go).  Keys are numbered 12 * octave + pitch class with octave 0 the lowest (key 0 = C0), the convention the
      package's tests document (C(5) prints "C5"): MIDI key 60, middle C, is C5 and key 69 is A5.  Over all 128 keys:
      Name / Base / Octave / Value / String invert the key functions C Db D Eb E F Gb G Ab A Bb B; a key function with
      12*oct+pc <= 127 returns exactly that key, otherwise (documented by TestNote: Ab(10) prints "Ab9") some valid key
      of the same pitch class.  n.Interval(o) = o - n; n.Is(o) iff same pitch class; n.Transpose(i) = n + i whenever
      that is a key 0..127, otherwise a valid key that is not on the opposite side of n (transposing up never lands
      below n, transposing down never above).  Interval constants carry their number of semitones and print as
      "<name> up|down" for 0 < |i| < 24 (other intervals: any text, no panic).                                      *)
EXTENDS MidiMessage, FiniteSets, TLC

\* ---- P1: the receiver of one channel --------------------------------------------------------------------
Unk == -1
RxInit == [act |-> "none", rM |-> Unk, rL |-> Unk, nM |-> Unk, nL |-> Unk]
Target(rx) == IF rx.act = "rpn" THEN <<"rpn", rx.rM, rx.rL>>
              ELSE IF rx.act = "nrpn" THEN <<"nrpn", rx.nM, rx.nL>> ELSE <<"none", Unk, Unk>>
IsNullT(t) == t[1] # "none" /\ t[2] = 127 /\ t[3] = 127
DataOp(c) == CASE c = 6 -> "msb" [] c = 38 -> "lsb" [] c = 96 -> "inc" [] c = 97 -> "dec"
\* one Control Change (controller c, value v) on this channel: new receiver state and the write it causes (<<>> = none)
RxStep(rx, c, v) ==
  CASE c = 101 -> [rx |-> [rx EXCEPT !.act = "rpn",  !.rM = v], w |-> <<>>]
    [] c = 100 -> [rx |-> [rx EXCEPT !.act = "rpn",  !.rL = v], w |-> <<>>]
    [] c = 99  -> [rx |-> [rx EXCEPT !.act = "nrpn", !.nM = v], w |-> <<>>]
    [] c = 98  -> [rx |-> [rx EXCEPT !.act = "nrpn", !.nL = v], w |-> <<>>]
    [] c \in {6, 38, 96, 97} ->
         [rx |-> rx, w |-> IF IsNullT(Target(rx)) THEN <<>>
                           ELSE <<[t |-> Target(rx), op |-> DataOp(c), v |-> IF c \in {6, 38} THEN v ELSE 0]>>]
    [] OTHER -> [rx |-> rx, w |-> <<>>]

RECURSIVE RxRun(_, _, _)
RxRun(rx, s, i) == IF i > Len(s) THEN [rx |-> rx, w |-> <<>>]
                   ELSE LET r == RxStep(rx, s[i][2], s[i][3])
                            n == RxRun(r.rx, s, i + 1)
                        IN [rx |-> n.rx, w |-> r.w \o n.w]

ProtoCtl == {101, 100, 99, 98, 6, 38, 96, 97}
CCMsg(c, ctl, v) == <<176 + c, ctl, v>>
AllCCOn(s, c) == \A i \in 1..Len(s) : WellFormedShort(s[i]) /\ s[i][1] = 176 + c

\* op \in {"entry", "inc", "dec", "none"} ; arguments already clamped
ExpWrites(kind, pm, pl, op, msb, lsb) ==
  LET t == <<kind, pm, pl>> IN
  IF (pm = 127 /\ pl = 127) \/ op = "none" THEN <<>>
  ELSE IF op = "entry" THEN <<[t |-> t, op |-> "msb", v |-> msb], [t |-> t, op |-> "lsb", v |-> lsb]>>
  ELSE <<[t |-> t, op |-> op, v |-> 0]>>
NullFor(kind, t) == IsNullT(t) /\ (t[1] = "rpn" \/ kind = "nrpn")
FinalOk(kind, pm, pl, op, rx) ==
  LET t == Target(rx) IN IF op = "none" THEN NullFor(kind, t) ELSE t = <<kind, pm, pl>> \/ NullFor(kind, t)
ParamOk(kind, c, pm, pl, op, msb, lsb, s) ==
  /\ AllCCOn(s, c)
  /\ \A i \in 1..Len(s) : s[i][2] \in ProtoCtl
  /\ LET r == RxRun(RxInit, s, 1)
     IN r.w = ExpWrites(kind, pm, pl, op, msb, lsb) /\ FinalOk(kind, pm, pl, op, r.rx)

\* the helpers: fn -> [kind, op, arity]; parameter number of the named RPNs (MIDI 1.0 registered parameter list)
StdRpn == [PitchBendSensitivity |-> <<0, 0>>, FineTuning |-> <<0, 1>>, CoarseTuning |-> <<0, 2>>,
           TuningProgramSelect |-> <<0, 3>>, TuningBankSelect |-> <<0, 4>>]
StdRpnFn == {"rpn." \o n : n \in DOMAIN StdRpn}
ParamFns == {"rpn.RPN", "nrpn.NRPN", "rpn.Increment", "rpn.Decrement", "nrpn.Increment", "nrpn.Decrement",
             "rpn.Reset", "nrpn.Reset"} \cup StdRpnFn
StdName(fn) == CHOOSE n \in DOMAIN StdRpn : fn = "rpn." \o n
KindOf(fn) == IF fn \in {"nrpn.NRPN", "nrpn.Increment", "nrpn.Decrement", "nrpn.Reset"} THEN "nrpn" ELSE "rpn"
OpOf(fn) == CASE fn \in {"rpn.Increment", "nrpn.Increment"} -> "inc"
              [] fn \in {"rpn.Decrement", "nrpn.Decrement"} -> "dec"
              [] fn \in {"rpn.Reset", "nrpn.Reset"} -> "none"
              [] OTHER -> "entry"
ParamArity(fn) == CASE fn \in {"rpn.RPN", "nrpn.NRPN"} -> 5 [] OpOf(fn) \in {"inc", "dec"} -> 3
                    [] OpOf(fn) = "none" -> 1 [] OTHER -> 3
\* a helper call with its raw arguments a and the sequence s it returned
ParamCallOk(fn, a, s) ==
  LET c == Ch(a[1]) IN
  CASE fn \in {"rpn.RPN", "nrpn.NRPN"} -> ParamOk(KindOf(fn), c, C7(a[2]), C7(a[3]), "entry", C7(a[4]), C7(a[5]), s)
    [] OpOf(fn) \in {"inc", "dec"}     -> ParamOk(KindOf(fn), c, C7(a[2]), C7(a[3]), OpOf(fn), 0, 0, s)
    [] OpOf(fn) = "none"               -> ParamOk(KindOf(fn), c, 0, 0, "none", 0, 0, s)
    [] OTHER -> LET p == StdRpn[StdName(fn)] IN ParamOk("rpn", c, p[1], p[2], "entry", C7(a[2]), C7(a[3]), s)

\* ---- P2: combined helpers -------------------------------------------------------------------------------
SilMsg(m) == /\ WellFormedShort(m)
             /\ \/ m[1] \in 176..191 /\ m[2] \in {120, 123} /\ m[3] = 0
                \/ m[1] \in 128..143
                \/ m[1] \in 144..159 /\ m[3] = 0
SilencedCh(s, c) ==
  \/ \E i \in 1..Len(s) : s[i] = CCMsg(c, 120, 0) \/ s[i] = CCMsg(c, 123, 0)
  \/ \A k \in 0..127 : \E i \in 1..Len(s) : (s[i][1] = 128 + c \/ s[i][1] = 144 + c) /\ s[i][2] = k
SilenceOk(ch, s, panicked) ==
  IF ch > 15 THEN panicked /\ s = <<>>
  ELSE /\ ~panicked
       /\ \A i \in 1..Len(s) : SilMsg(s[i]) /\ (ch >= 0 => s[i][1] % 16 = ch)
       /\ \A c \in (IF ch >= 0 THEN {ch} ELSE IF ch = -1 THEN 0..15 ELSE {}) : SilencedCh(s, c)

ResetReq(c, bank, prog) == {CCMsg(c, 0, bank), <<192 + c, prog>>, CCMsg(c, 121, 0), CCMsg(c, 7, 100),
                            CCMsg(c, 11, 127), CCMsg(c, 64, 0), CCMsg(c, 10, 64)}
IsProto(m) == Len(m) = 3 /\ m[1] \in 176..191 /\ m[2] \in ProtoCtl
ResetChannelOk(ch, bank, prog, s) ==
  LET c == Ch(ch)
      core == SelectSeq(s, LAMBDA m : ~IsProto(m))
      pbs  == SelectSeq(s, LAMBDA m : IsProto(m))
      t00  == <<"rpn", 0, 0>>
  IN /\ \A i \in 1..Len(s) : WellFormedShort(s[i]) /\ s[i][1] \in {176 + c, 192 + c}
     /\ Len(core) = 7 /\ {core[i] : i \in 1..7} = ResetReq(c, C7(bank), C7(prog))
     /\ \A i, j \in 1..7 : (core[i] = CCMsg(c, 0, C7(bank)) /\ core[j] = <<192 + c, C7(prog)>>) => i < j
     /\ \/ pbs = <<>>
        \/ LET r == RxRun(RxInit, pbs, 1)
           IN /\ Len(r.w) \in {1, 2} /\ r.w[1] = [t |-> t00, op |-> "msb", v |-> 2]
              /\ (Len(r.w) = 2 => r.w[2].t = t00 /\ r.w[2].op = "lsb")
              /\ FinalOk("rpn", 0, 0, "entry", r.rx)

\* gm.GMProgram(ch, prog), documented "GM bank select control change message followed by a program change";
\* gm.Reset(ch, prog) documents the ResetChannel list with bank 0
GMProgramOk(ch, prog, s) == s = <<CCMsg(Ch(ch), 0, 0), <<192 + Ch(ch), C7(prog)>>>>

\* ---- P3: MIDI 1.0 controller numbers under the names cc.go gives them --------------------------------------
CCTable == [
  BankSelectMSB |-> 0, ModulationWheelMSB |-> 1, BreathControllerMSB |-> 2, FootPedalMSB |-> 4, PortamentoTimeMSB |-> 5,
  DataEntryMSB |-> 6, VolumeMSB |-> 7, BalanceMSB |-> 8, PanPositionMSB |-> 10, ExpressionMSB |-> 11,
  EffectControl1MSB |-> 12, EffectControl2MSB |-> 13,
  GeneralPurposeSlider1 |-> 16, GeneralPurposeSlider2 |-> 17, GeneralPurposeSlider3 |-> 18, GeneralPurposeSlider4 |-> 19,
  BankSelectLSB |-> 32, ModulationWheelLSB |-> 33, BreathControllerLSB |-> 34, FootPedalLSB |-> 36, PortamentoTimeLSB |-> 37,
  DataEntryLSB |-> 38, VolumeLSB |-> 39, BalanceLSB |-> 40, PanPositionLSB |-> 42, ExpressionLSB |-> 43,
  EffectControl1LSB |-> 44, EffectControl2LSB |-> 45,
  HoldPedalSwitch |-> 64, PortamentoSwitch |-> 65, SustenutoPedalSwitch |-> 66, SoftPedalSwitch |-> 67,
  LegatoPedalSwitch |-> 68, Hold2PedalSwitch |-> 69,
  SoundVariation |-> 70, SoundTimbre |-> 71, SoundReleaseTime |-> 72, SoundAttackTime |-> 73, SoundBrightness |-> 74,
  SoundControl6 |-> 75, SoundControl7 |-> 76, SoundControl8 |-> 77, SoundControl9 |-> 78, SoundControl10 |-> 79,
  GeneralPurposeButton1Switch |-> 80, GeneralPurposeButton2Switch |-> 81, GeneralPurposeButton3Switch |-> 82,
  GeneralPurposeButton4Switch |-> 83,
  EffectsLevel |-> 91, TremuloLevel |-> 92, ChorusLevel |-> 93, CelesteLevel |-> 94, PhaserLevel |-> 95,
  DataButtonIncrement |-> 96, DataButtonDecrement |-> 97,
  NonRegisteredParameterLSB |-> 98, NonRegisteredParameterMSB |-> 99, RegisteredParameterLSB |-> 100, RegisteredParameterMSB |-> 101,
  AllSoundOff |-> 120, AllControllersOff |-> 121, LocalKeyboardSwitch |-> 122, AllNotesOff |-> 123,
  OmniModeOff |-> 124, OmniModeOn |-> 125, MonoOperation |-> 126, PolyOperation |-> 127,
  Off |-> 0, On |-> 127]
MsbLsbPairs == {<<"BankSelectMSB", "BankSelectLSB">>, <<"ModulationWheelMSB", "ModulationWheelLSB">>,
  <<"BreathControllerMSB", "BreathControllerLSB">>, <<"FootPedalMSB", "FootPedalLSB">>, <<"PortamentoTimeMSB", "PortamentoTimeLSB">>,
  <<"DataEntryMSB", "DataEntryLSB">>, <<"VolumeMSB", "VolumeLSB">>, <<"BalanceMSB", "BalanceLSB">>, <<"PanPositionMSB", "PanPositionLSB">>,
  <<"ExpressionMSB", "ExpressionLSB">>, <<"EffectControl1MSB", "EffectControl1LSB">>, <<"EffectControl2MSB", "EffectControl2LSB">>}
ModeNames == {"AllSoundOff", "AllControllersOff", "LocalKeyboardSwitch", "AllNotesOff", "OmniModeOff", "OmniModeOn",
              "MonoOperation", "PolyOperation"}
IntervalTable == [
  Unison |-> 0, MinorSecond |-> 1, MajorSecond |-> 2, MinorThird |-> 3, MajorThird |-> 4, Fourth |-> 5, Tritone |-> 6,
  Fifth |-> 7, MinorSixth |-> 8, MajorSixth |-> 9, MinorSeventh |-> 10, MajorSeventh |-> 11, Octave |-> 12,
  MinorNinth |-> 13, MajorNinth |-> 14, MinorTenth |-> 15, MajorTenth |-> 16, Eleventh |-> 17, DiminishedTwelfth |-> 18,
  Twelfth |-> 19, MinorThirteenth |-> 20, MajorThirteenth |-> 21, MinorFourteenth |-> 22, MajorFourteenth |-> 23,
  DoubleOctave |-> 24]
\* name is "cc.<Name>" or "interval.<Name>"
ConstKnown(name) == (\E n \in DOMAIN CCTable : name = "cc." \o n) \/ (\E n \in DOMAIN IntervalTable : name = "interval." \o n)
ConstWant(name) == IF \E n \in DOMAIN CCTable : name = "cc." \o n
                   THEN CCTable[CHOOSE n \in DOMAIN CCTable : name = "cc." \o n]
                   ELSE IntervalTable[CHOOSE n \in DOMAIN IntervalTable : name = "interval." \o n]

\* ---- P4: notes ---------------------------------------------------------------------------------------------
PcNames == <<"C", "Db", "D", "Eb", "E", "F", "Gb", "G", "Ab", "A", "Bb", "B">>
PcIndex(name) == CHOOSE p \in 0..11 : PcNames[p + 1] = name
KeyNum(pc, oct) == 12 * oct + pc
PcOf(k) == k % 12
OctaveOf(k) == k \div 12
NoteStr(k) == PcNames[PcOf(k) + 1] \o ToString(OctaveOf(k))
KeyFnOk(pc, oct, out) == IF KeyNum(pc, oct) <= 127 THEN out = KeyNum(pc, oct) ELSE out \in 0..127 /\ PcOf(out) = pc
TransposeOk(n, i, out) ==
  IF n + i \in 0..127 THEN out = n + i
  ELSE out \in 0..127 /\ (i > 0 => out >= n) /\ (i < 0 => out <= n)
IntervalName(k) == CHOOSE n \in DOMAIN IntervalTable : IntervalTable[n] = k
IntervalStrOk(i, str) ==
  LET k == IF i < 0 THEN 0 - i ELSE i IN
  IF k = 0 \/ k > 23 THEN TRUE
  ELSE str = IntervalName(k) \o (IF i < 0 THEN " down" ELSE " up")
=============================================================================
