--------------------------- MODULE Trace_PlayerBig ---------------------------
(* Trace validation for C12 on LARGE plays (10^5 events and more), where the search of Trace_Player is out of reach.
   One NDJSON line = one play of the REAL library, as in Trace_Player: the file as the library read it (every track,
   every event with its scheduled microseconds), the selection, the port map, the observed sends -- plus, for every
   send, the event the harness says it is (track k, index i; 0 = no such event).  The files of these plays carry a
   different message in every event (the generator encodes the position into the bytes and the harness refuses a file
   in which two events share bytes), so the attribution is determined by the observation and the claim is checked, not
   trusted: Player!AttrValid compares bytes, port and time of the claimed event with the send.  The play is judged by
   Player!AttrLin -- the clauses of the property in one pass; MC_Player shows AttrLin = the text of the property
   (AttrQuad) on every behaviour of the player and on corrupted copies.  Pure and total: every line is consumed.   *)
EXTENDS Player, TLC, Json, IOUtils
VARIABLES l, bad

Trace == ndJsonDeserialize(IOEnv.VERIF_TRACE)

PlayOf(e) == [tracks |-> e.tracks, sel |-> {e.sel[i] : i \in DOMAIN e.sel}, ports |-> e.ports]
Sends(e)  == [k \in 1..Len(e.sends) |-> [i |-> e.claims[k][1], p |-> e.claims[k][2], port |-> e.sends[k].port, m |-> e.sends[k].m, at |-> e.sends[k].at]]

Judge(e) ==
  LET P == PlayOf(e) IN
  IF ~(e.rerr = "" /\ WellFormed(P) /\ Len(e.claims) = Len(e.sends))
    THEN [ok |-> FALSE, info |-> [id |-> e.id, genbug |-> TRUE, rerr |-> e.rerr, what |-> "reader error / scheduled times not monotone / malformed record"]]
  ELSE IF e.panic # "" \/ e.timeout
    THEN [ok |-> FALSE, info |-> [id |-> e.id, genbug |-> FALSE, what |-> "panic or timeout", panic |-> e.panic, timeout |-> e.timeout]]
  ELSE
    LET r == AttrRun(P, Sends(e))
        short == {i \in Active(P) : r.nchan[i] # NChan(P, i)}
    IN [ok |-> r.ok /\ short = {},
        info |-> [id |-> e.id, genbug |-> FALSE, what |-> IF ~r.ok THEN "send breaks a clause" ELSE "channel messages never left",
                  nsends |-> Len(e.sends), at |-> IF r.ok THEN 0 ELSE r.n,
                  send |-> IF r.ok THEN <<>> ELSE <<e.sends[r.n]>>, claim |-> IF r.ok THEN <<>> ELSE e.claims[r.n],
                  lastOfTrack |-> r.last, lastUs |-> r.us, tracksShort |-> short, err |-> e.err]]

Init == l = 1 /\ bad = <<>>
Next == \/ /\ l <= Len(Trace)
           /\ LET j == Judge(Trace[l])
              IN bad' = IF j.ok THEN bad ELSE Append(bad, [line |-> l, info |-> j.info])
           /\ l' = l + 1
        \/ /\ l = Len(Trace) + 1
           /\ ndJsonSerialize(IOEnv.VERIF_OUT, <<[consumed |-> Len(Trace)]>> \o bad)
           /\ l' = l + 1 /\ UNCHANGED bad
=============================================================================
