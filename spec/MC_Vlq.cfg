INIT Init
NEXT Next
INVARIANTS Inverse Unique Padded
CHECK_DEADLOCK FALSE
