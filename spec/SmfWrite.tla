------------------------------ MODULE SmfWrite ------------------------------
(* The writing side of the SMF specification:
     Build(hist)   what file VALUE a history of public API calls denotes (DESIGN Appendix C.1)
     Canon(f)      the value WriteTo must put on disk (format promotion, unclosed tracks get (0, EOT))
     Encode(f)     the model writer: header, events (optional running status), chunk framing
   A file value is [fmt, div, tracks, nrs]; a track is a sequence of [d |-> digits, m |-> bytes].       *)
EXTENDS Integers, Sequences, SequencesExt, Vlq

EOT == <<255, 47, 0>>
Closed(tr) == Len(tr) > 0 /\ tr[Len(tr)].m = EOT
Zero == <<0>>

\* ---- API histories ------------------------------------------------------------------------------
\* ops (uniform records): [op, fmt, kind, a, b, v, d, msgs]
B0 == [fmt |-> 0, div |-> <<3, 192>>, nrs |-> FALSE, tracks |-> <<>>, tr |-> <<>>]     \* 960 ticks

DivOf(kind, a, b) == IF kind = "metric" THEN BE16(a) ELSE <<256 - a, b>>

AddMsgs(tr, d, msgs) ==
  IF Closed(tr) THEN tr
  ELSE tr \o [i \in 1..Len(msgs) |-> [d |-> IF i = 1 THEN d ELSE Zero, m |-> msgs[i]]]

BuildStep(s, o) ==
  CASE o.op = "new"    -> [s EXCEPT !.fmt = o.fmt]
    [] o.op = "tf"     -> [s EXCEPT !.div = DivOf(o.kind, o.a, o.b)]
    [] o.op = "nrs"    -> [s EXCEPT !.nrs = o.v]
    [] o.op = "track"  -> [s EXCEPT !.tr = <<>>]
    [] o.op = "add"    -> [s EXCEPT !.tr = AddMsgs(s.tr, o.d, o.msgs)]
    [] o.op = "close"  -> [s EXCEPT !.tr = IF Closed(s.tr) THEN s.tr ELSE Append(s.tr, [d |-> o.d, m |-> EOT])]
    [] o.op = "smfadd" -> [s EXCEPT !.tracks = Append(s.tracks, s.tr),
                                    !.fmt = IF Len(s.tracks) + 1 > 1 /\ s.fmt = 0 THEN 1 ELSE s.fmt]
Canon(f) == [fmt |-> IF Len(f.tracks) > 1 /\ f.fmt = 0 THEN 1 ELSE f.fmt,
             div |-> f.div,
             tracks |-> [i \in 1..Len(f.tracks) |->
                           IF Closed(f.tracks[i]) THEN f.tracks[i] ELSE Append(f.tracks[i], [d |-> Zero, m |-> EOT])]]

\* an intermediate WriteTo (op "write") leaves the value WriteTo put on disk: tracks closed, format promoted
BuildStepW(s, o) ==
  IF o.op = "write"
    THEN IF s.tracks = <<>> THEN s ELSE [s EXCEPT !.tracks = Canon(s).tracks, !.fmt = Canon(s).fmt]
    ELSE BuildStep(s, o)
Build(hist) == FoldLeft(BuildStepW, B0, hist)

\* ---- the model writer ---------------------------------------------------------------------------
IsChan(m) == m[1] \in 128..239
EncodeEvent(ev, rs, rsOn) ==
  LET dt == VlqBytes(ev.d)  m == ev.m IN
  IF m[1] = 240 \/ m[1] = 247
    THEN [b |-> dt \o <<m[1]>> \o VlqOfInt(Len(m) - 1) \o Tail(m), rs |-> 0]
  ELSE IF IsChan(m)
    THEN IF rsOn /\ m[1] = rs THEN [b |-> dt \o Tail(m), rs |-> rs]
         ELSE [b |-> dt \o m, rs |-> IF rsOn THEN m[1] ELSE 0]
  ELSE [b |-> dt \o m, rs |-> 0]

EncodeTrack(tr, rsOn) ==
  LET r == FoldLeft(LAMBDA acc, ev : LET e == EncodeEvent(ev, acc.rs, rsOn)
                                     IN [parts |-> Append(acc.parts, e.b), rs |-> e.rs],
                    [parts |-> <<>>, rs |-> 0], tr)
      body == FlattenSeq(r.parts)
  IN <<77, 84, 114, 107>> \o BE32(Len(body)) \o body

Encode(f, nrs) ==
  <<77, 84, 104, 100, 0, 0, 0, 6>> \o BE16(f.fmt) \o BE16(Len(f.tracks)) \o f.div
    \o FlattenSeq([i \in 1..Len(f.tracks) |-> EncodeTrack(f.tracks[i], ~nrs)])
=============================================================================
