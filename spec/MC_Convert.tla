----------------------------- MODULE MC_Convert -----------------------------
(* Model-level check behind C16.  Every state is a single-track source under construction (<= MaxEvents
   messages from an alphabet of 3 channels -- one of them with two distinguishable messages --, two metas and
   a sysex; deltas {0, 1}); the invariants close it with every terminator delta and state

     Satisfiable   every stable partition by channel (any order of the channel tracks, any terminator deltas on
                   the resulting tracks) satisfies ConvertOk          -- the clauses do not demand too much;
     Sensitive     realistic wrong conversions are rejected whenever they differ from the right one:
                   equal-tick messages in reversed order (a non-stable sort), last absolute tick not reset
                   between channel tracks, a message dropped, a track left unterminated, an early terminator,
                   the channel taken from the wrong nibble, the division not copied
                                                                       -- the clauses do not demand too little.
   NonVacuous (ASSUME) pins one concrete source on which every mutant differs.
   Configurations: MC_Convert.cfg (quick) 3 messages, full alphabet; MC_Convert_thorough.cfg 5 messages, full
   alphabet; MC_Convert_six.cfg 6 messages over AlphaTiny (2 channels, a meta, a sysex).                  *)
EXTENDS Convert, TLC
CONSTANTS MaxEvents, Alphabet
VARIABLES tr

AlphaFull == { <<144, 60, 100>>, <<128, 60, 0>>, <<145, 61, 1>>, <<178, 7, 100>>,
               <<255, 1, 1, 65>>, <<255, 81, 3, 7, 161, 32>>, <<240, 1, 247>> }
AlphaTiny == { <<144, 60, 100>>, <<145, 61, 1>>, <<255, 1, 1, 65>>, <<240, 1, 247>> }
Deltas == {0, 1}
Div == [kind |-> "metric", a |-> 96, b |-> 0]

Init == tr = <<>>
Next == \E d \in Deltas, m \in Alphabet : Len(tr) < MaxEvents /\ tr' = Append(tr, [d |-> d, m |-> m])

Src(t, cd) == [div |-> Div, track |-> CvClose(t, cd)]
SrcOpen(t) == [div |-> Div, track |-> t]          \* the same track never closed
Orders(src) == SetToSeqs(CvChannels(CvItems(src.track)))

\* ---- mutants: wrong conversions -------------------------------------------------------------------------
\* items sorted by tick, but equal ticks in reversed order
Unstable(items) ==
  LET idx == SetToSortSeq(DOMAIN items, LAMBDA i, j : items[i].t < items[j].t \/ (items[i].t = items[j].t /\ i > j))
  IN [k \in 1..Len(items) |-> items[idx[k]]]
MutUnstable(src, order) ==
  LET items == CvItems(src.track) IN
  [fmt |-> 1, div |-> src.div,
   tracks |-> <<CvClose(CvRedelta(Unstable(CvOthers(items))), 0)>>
              \o [k \in 1..Len(order) |-> CvClose(CvRedelta(Unstable(CvOfChan(items, order[k]))), 0)]]
\* deltas of a channel track computed against the last tick of the previous track
RedeltaFrom(items, t0) ==
  [i \in 1..Len(items) |-> [d |-> IF i = 1 THEN (IF items[1].t >= t0 THEN items[1].t - t0 ELSE CvBig) ELSE items[i].t - items[i - 1].t,
                            m |-> items[i].m]]
LastTick(items) == IF items = <<>> THEN 0 ELSE items[Len(items)].t
MutNoReset(src, order) ==
  LET items == CvItems(src.track)
      seqs == <<CvOthers(items)>> \o [k \in 1..Len(order) |-> CvOfChan(items, order[k])]
  IN [fmt |-> 1, div |-> src.div,
      tracks |-> [k \in 1..Len(seqs) |-> CvClose(RedeltaFrom(seqs[k], IF k = 1 THEN 0 ELSE LastTick(seqs[k - 1])), 0)]]
\* the last message of the last track dropped / its terminator dropped / a terminator in front of its last message
OnLast(dest, f(_)) == [dest EXCEPT !.tracks[Len(dest.tracks)] = f(dest.tracks[Len(dest.tracks)])]
MutDrop(dest) == OnLast(dest, LAMBDA t : IF Len(t) >= 2 THEN SubSeq(t, 1, Len(t) - 2) \o <<t[Len(t)]>> ELSE t)
MutUnclosed(dest) == OnLast(dest, LAMBDA t : SubSeq(t, 1, Len(t) - 1))
MutEarlyEot(dest) == OnLast(dest, LAMBDA t : IF Len(t) >= 2 THEN InsertAt(t, Len(t) - 1, [d |-> 0, m |-> CvEOT]) ELSE t)
\* tracks chosen by the high nibble of the status byte instead of the low one
MutNibble(src) ==
  LET items == CvItems(src.track)
      nib == {items[i].m[1] \div 16 : i \in {k \in DOMAIN items : CvIsChan(items[k].m)}}
      ord == SetToSortSeq(nib, <)
  IN [fmt |-> 1, div |-> src.div,
      tracks |-> <<CvClose(CvRedelta(CvOthers(items)), 0)>>
                 \o [k \in 1..Len(ord) |-> CvClose(CvRedelta(SelectSeq(items, LAMBDA x : CvIsChan(x.m) /\ x.m[1] \div 16 = ord[k])), 0)]]
MutDiv(dest) == [dest EXCEPT !.div = [kind |-> "metric", a |-> 960, b |-> 0]]

\* ---- invariants -------------------------------------------------------------------------------------------
Sorted(src) == SetToSortSeq(CvChannels(CvItems(src.track)), <)
Satisfiable ==
  \A cd \in Deltas :
    LET src == Src(tr, cd)
        d0 == CvConvert(src, Sorted(src), 0, 0) IN
    /\ CvInDomain(src)
    \* any order of the channel tracks
    /\ \A order \in Orders(src) : ConvertOk(src, CvConvert(src, order, 0, 0))
    \* any terminator deltas
    /\ \A e \in {<<1, 0>>, <<cd + 3, 2>>} : ConvertOk(src, CvConvert(src, Sorted(src), e[1], e[2]))
    \* an empty first track may be left out when there is nothing for it
    /\ (CvOthers(CvItems(src.track)) = <<>> /\ tr # <<>>) => ConvertOk(src, [d0 EXCEPT !.tracks = Tail(d0.tracks)])

\* a source that was never closed converts like the closed one (whose terminator is not a message), and a result
\* whose first track stays unterminated -- nothing was there to put on it -- is rejected
SatisfiableOpen ==
  LET src == SrcOpen(tr)
      d0 == CvConvert(src, Sorted(Src(tr, 0)), 0, 0) IN
  /\ CvInDomain(src)
  /\ d0 = CvConvert(Src(tr, 0), Sorted(Src(tr, 0)), 0, 0)
  /\ ConvertOk(src, d0)
  /\ ~ConvertOk(src, [d0 EXCEPT !.tracks[1] = SubSeq(d0.tracks[1], 1, Len(d0.tracks[1]) - 1)])

Rejects(src, good, mutant) == mutant # good => ~ConvertOk(src, mutant)
Sensitive ==
  LET src == Src(tr, 1)
      order == Sorted(src)
      good == CvConvert(src, order, 0, 0) IN
  /\ Rejects(src, good, MutUnstable(src, order))
  /\ Rejects(src, good, MutNoReset(src, order))
  /\ Rejects(src, good, MutDrop(good))
  /\ ~ConvertOk(src, MutUnclosed(good))
  /\ Rejects(src, good, MutEarlyEot(good))
  /\ ~ConvertOk(src, MutDiv(good))
  \* (the wrong nibble may by chance give a right partition, in some track order)
  /\ (\A o \in Orders(src) : MutNibble(src) # CvConvert(src, o, 0, 0)) => ~ConvertOk(src, MutNibble(src))

\* one concrete source on which every mutant really differs (so Sensitive is not vacuous)
Ex == Src(<<[d |-> 1, m |-> <<144, 60, 100>>], [d |-> 0, m |-> <<255, 1, 1, 65>>], [d |-> 0, m |-> <<128, 60, 0>>],
            [d |-> 0, m |-> <<240, 1, 247>>], [d |-> 1, m |-> <<145, 61, 1>>]>>, 1)
ExGood == CvConvert(Ex, <<0, 1>>, 0, 0)
ASSUME NonVacuous ==
  /\ ConvertOk(Ex, ExGood)
  /\ \A mu \in {MutUnstable(Ex, <<0, 1>>), MutNoReset(Ex, <<0, 1>>), MutDrop(ExGood), MutEarlyEot(ExGood), MutNibble(Ex)} :
       mu # ExGood /\ ~ConvertOk(Ex, mu)
  /\ CvClauses(Ex, MutUnstable(Ex, <<0, 1>>)).order = FALSE
  /\ CvClauses(Ex, MutNoReset(Ex, <<0, 1>>)).nothingLost = FALSE
  /\ CvClauses(Ex, MutNibble(Ex)).placement = FALSE
=============================================================================
