CONSTANTS
  MaxLen = 6
INIT Init
NEXT Next
INVARIANTS ParseTotal GateIsWindow
CHECK_DEADLOCK FALSE
