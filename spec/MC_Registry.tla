----------------------------- MODULE MC_Registry -----------------------------
(* X05 on the model: every call sequence up to Depth over NInst driver instances (instance 3 carries the NAME of
   instance 1: re-registration) with two in and two out ports each, under every set of at most MaxFaults faults.
   `call` and `res` are history variables (the call that led here and what it returned), so that the properties of
   spec/Registry.tla can be stated as invariants / action properties, independently of the operators that compute
   the outcomes, and so that the dumped state graph can be walked through the real package-level API (binding G):
   each node carries the call, the expected result and the expected observable state.                          *)
EXTENDS Registry, TLC
CONSTANTS NInst, MaxFaults, Depth, Slow, HandleInst, Lean     \* Lean: fewer query values, no alias functions (InPort = InByNumber ...)
VARIABLES s, res, call, flt, obs, nc  \* obs = RgObs(s): what the environment can see (for the walk); nc = calls made so far
vars == <<s, res, call, flt, obs, nc>>

cA == 97  cB == 98  cC == 99  cX == 120
FullLay == <<
  [name |-> "A", ins |-> <<[num |-> 1, name |-> <<cA, cB>>], [num |-> 0, name |-> <<cB>>]>>,
                 outs |-> <<[num |-> 0, name |-> <<cB, cC>>], [num |-> 2, name |-> <<cA, cB, cC>>]>>],
  [name |-> "B", ins |-> <<[num |-> 0, name |-> <<cA>>], [num |-> 1, name |-> <<cC, cA>>]>>,
                 outs |-> <<[num |-> 0, name |-> <<cB>>], [num |-> 1, name |-> <<cA, cB>>]>>],
  [name |-> "A", ins |-> <<[num |-> 0, name |-> <<cC>>], [num |-> 2, name |-> <<cB, cC>>]>>,
                 outs |-> <<[num |-> 1, name |-> <<cA>>], [num |-> 0, name |-> <<cA, cB>>]>>] >>
Lay == SubSeq(FullLay, 1, NInst)
HandleOne == {1}  HandleTwo == {1, 2}  HandleAll == {1, 2, 3}
ASSUME PrintT(<<"X05LAYOUT", Lay>>)      \* the walk configures the fake drivers from this line of TLC's output
C == [lay |-> Lay, flt |-> flt]
C0 == [lay |-> Lay, flt |-> {}]

Numbers == IF Lean THEN {-1, 0, 2} ELSE {-1, 0, 1, 2}
Names   == IF Lean THEN {<<>>, <<cA>>, <<cB>>} ELSE {<<>>, <<cA>>, <<cB>>, <<cC>>, <<cB, cC>>, <<cX>>}
Ports   == RgAllPorts(C0)
HPorts  == {p \in Ports : p.d \in HandleInst}       \* ports the user also holds directly (from the driver object)
Flags   == {[f |-> "list", p |-> RgPort(k, d, 0)] : k \in {"in", "out"}, d \in 1..NInst}
           \cup {[f |-> "open", p |-> p] : p \in HPorts \cup {q \in Ports : q.d = 1}}
           \cup {[f |-> "listen", p |-> p] : p \in {q \in HPorts : q.k = "in"}}
           \cup {[f |-> "send", p |-> p] : p \in {q \in HPorts : q.k = "out"}}
FaultSets == {F \in SUBSET Flags : Cardinality(F) <= MaxFaults}

Msg == <<144, 60, 100>>
Mk(fn, d, p, n, q) == [fn |-> fn, d |-> d, p |-> p, n |-> n, q |-> q, msg |-> IF fn = "Send" THEN Msg ELSE <<>>]
Calls ==
  {Mk("Register", d, RgNoPort, 0, <<>>) : d \in 1..NInst}
  \cup {Mk(fn, 0, RgNoPort, 0, <<>>) : fn \in {"Get", "CloseDriver", "Ins", "Outs", "GetInPorts", "GetOutPorts"} \cup (IF Lean THEN {} ELSE {"DriversClose"})}
  \cup {Mk(fn, 0, RgNoPort, n, <<>>) : fn \in {"InByNumber", "OutByNumber"} \cup (IF Lean THEN {} ELSE {"InPort", "OutPort"}), n \in Numbers}
  \cup {Mk(fn, 0, RgNoPort, 0, q) : fn \in {"InByName", "OutByName", "FindInPort", "FindOutPort"}, q \in Names}
  \cup {Mk(fn, 0, p, 0, <<>>) : fn \in {"SendTo", "Send"}, p \in {q \in HPorts : q.k = "out"}}
  \cup {Mk(fn, 0, p, 0, <<>>) : fn \in {"ListenTo", "TrackRecordFrom", "Stop", "Inject"} \cup (IF Slow THEN {"SmfRecordFrom", "RecordTo"} ELSE {}),
                                p \in {q \in HPorts : q.k = "in"}}
  \cup {Mk("PortClose", 0, p, 0, <<>>) : p \in HPorts}

NoCall == Mk("none", 0, RgNoPort, 0, <<>>)
Init == s = Rg0 /\ res = RgR0 /\ call = NoCall /\ flt \in FaultSets /\ obs = RgObs(Rg0) /\ nc = 0
Next == \E cl \in Calls :
          /\ nc < Depth /\ nc' = nc + 1          \* sequences of at most Depth calls
          /\ RgEnabled(C, s, cl)
          /\ \E o \in RgOutcomes(C, s, cl) : s' = o.s /\ res' = o.res /\ obs' = RgObs(o.s)
          /\ call' = cl /\ UNCHANGED flt
Spec == Init /\ [][Next]_vars

\* ---------------------------------------------------------------- invariants (state: the call that led here, its result)
Drv(d) == Lay[d]
PCfg(p) == RgPorts(C, p.k, p.d)[p.i]
FirstD == IF s.reg = <<>> THEN 0 ELSE s.reg[1].d

TypeOK == /\ obs = RgObs(s)
          /\ s.open \subseteq Ports /\ s.snd \subseteq Ports
          /\ \A h \in s.hs : h.p \in Ports /\ h.p.k = "in" /\ h.id \in 1..s.nl /\ h.cnt >= 0
          /\ \A i \in 1..Len(s.reg) : s.reg[i].d \in 1..NInst /\ Drv(s.reg[i].d).name = s.reg[i].name
          /\ res.ret \in {"nil", "err"}

\* R1
NamesOnce     == \A i, j \in 1..Len(s.reg) : s.reg[i].name = s.reg[j].name => i = j
GetIsFirst    == call.fn = "Get" => res.drv = FirstD /\ (s.reg # <<>> => res.drv # 0) /\ (s.reg = <<>> => res.drv = 0)
\* R2
ListingIsFirstDrivers ==
  call.fn \in {"Ins", "Outs", "GetInPorts", "GetOutPorts"} =>
    LET k == IF call.fn \in {"Ins", "GetInPorts"} THEN "in" ELSE "out"
        bad == FirstD = 0 \/ [f |-> "list", p |-> RgPort(k, FirstD, 0)] \in flt
    IN /\ (call.fn \in {"Ins", "Outs"} => (res.ret = "err") = bad)
       /\ (call.fn \in {"GetInPorts", "GetOutPorts"} => res.ret = "nil")
       /\ (bad => res.list = <<>>)
       /\ (~bad => Len(res.list) = 2 /\ \A i \in 1..2 : res.list[i] = RgPort(k, FirstD, i))
\* R3: stated with quantifiers over the listing, not with the operator RgFind
IsLookup == call.fn \in RgLookupFns
LKind == IF call.fn \in {"InByNumber", "InByName", "InPort", "FindInPort"} THEN "in" ELSE "out"
ByNum == call.fn \in {"InByNumber", "OutByNumber", "InPort", "OutPort"}
Hit(pc) == IF ByNum THEN pc.num = call.n ELSE RgContains(pc.name, call.q)
FoundIsFirstMatch ==
  IsLookup /\ res.ret = "nil" =>
    /\ FirstD # 0 /\ res.port.k = LKind /\ res.port.d = FirstD /\ res.port.i \in 1..2
    /\ (ByNum => call.n >= 0) /\ (~ByNum => call.q # <<>>)
    /\ Hit(PCfg(res.port))
    /\ \A j \in 1..(res.port.i - 1) : ~Hit(PCfg(RgPort(LKind, FirstD, j)))
    /\ [f |-> "list", p |-> RgPort(LKind, FirstD, 0)] \notin flt
FoundOpenOrClosed ==
  IsLookup /\ res.ret = "nil" =>
    IF call.fn \in {"FindInPort", "FindOutPort"} THEN res.port \notin s.open ELSE res.port \in s.open
NoPortWithError == res.ret = "err" => res.port = RgNoPort /\ res.list = <<>>
\* R4
ListeningIsOpen  == \A h \in s.hs : h.act => h.p \in s.open
OneHandlePerPort == \A h1, h2 \in s.hs : h1.p = h2.p => h1 = h2
FaultyNeverOpen  == \A p \in s.open : [f |-> "open", p |-> p] \notin flt
FaultyNeverListens == \A h \in s.hs : [f |-> "listen", p |-> h.p] \notin flt
StartedMeansOpenAndListening ==
  call.fn \in RgListenFns /\ res.ret = "nil" => call.p \in s.open /\ \E h \in s.hs : h.p = call.p /\ h.act /\ h.cnt = 0 /\ h.id = s.nl
FailedMeansNoListener ==
  call.fn \in RgListenFns /\ res.ret = "err" => ~\E h \in s.hs : h.p = call.p
SendToMeansOpen == call.fn = "SendTo" => (res.ret = "nil") = (call.p \in s.open) /\ (res.ret = "nil" => call.p \in s.snd)
SentMeansOpen   == res.sent # <<>> => call.fn = "Send" /\ call.p \in s.open /\ res.sent = <<call.msg>> /\ res.ret = "nil"
DeliveredMeansListening == res.dlv # 0 => call.fn = "Inject" /\ \E h \in s.hs : h.p = call.p /\ h.act /\ h.id = res.dlv /\ h.kind = "listen" /\ h.cnt >= 1
\* R5: in every reachable state every call a user may make has an outcome
Total == \A cl \in Calls : RgEnabled(C, s, cl) => RgOutcomes(C, s, cl) # {}
\* R3: FindInPort / FindOutPort find the port InByName / OutByName find (and differ only in leaving it closed)
FindAgreesWithByName ==
  \A q \in Names : \A k \in {"in", "out"} :
    LET o1 == RgLookup(C, s, k, "name", -1, q, FALSE)
        o2 == RgLookup(C, s, k, "name", -1, q, TRUE)
    IN /\ o1.res = o2.res
       /\ (o1.res.ret = "nil" => o2.s.open = o1.s.open \ {o1.res.port})
       /\ (o1.res.ret = "err" => o1.s = s /\ o2.s = s)
NegativeOrEmptyNeverFinds ==
  IsLookup /\ ((ByNum /\ call.n < 0) \/ (~ByNum /\ call.q = <<>>)) => res.ret = "err"

\* ---------------------------------------------------------------- action properties (relate the state before and after a call)
A_FirstNameStays  == [][ s.reg # <<>> => s'.reg # <<>> /\ s'.reg[1].name = s.reg[1].name ]_vars
A_RegisterReplaces == [][ call'.fn = "Register" =>
                            /\ \E i \in 1..Len(s'.reg) : s'.reg[i].d = call'.d
                            /\ Len(s'.reg) = Len(s.reg) + (IF \E i \in 1..Len(s.reg) : s.reg[i].name = Drv(call'.d).name THEN 0 ELSE 1)
                            /\ \A i \in 1..Len(s.reg) : s'.reg[i].name = s.reg[i].name
                            /\ \A i \in 1..Len(s.reg) : s.reg[i].name # Drv(call'.d).name => s'.reg[i] = s.reg[i]
                            /\ s'.open = s.open /\ s'.hs = s.hs ]_vars
A_OnlyRegisterChangesRegistry == [][ call'.fn # "Register" => s'.reg = s.reg ]_vars
A_ErrorChangesNothing == [][ res'.ret = "err" /\ call'.fn \notin RgListenFns => s' = s ]_vars
A_ListenErrorAtMostOpens == [][ res'.ret = "err" /\ call'.fn \in RgListenFns =>
                                  /\ s'.reg = s.reg /\ s'.hs = s.hs /\ s'.snd = s.snd /\ s.open \subseteq s'.open /\ s'.open \subseteq s.open \cup {call'.p} ]_vars
\* a lookup fails exactly if the first driver has no openable matching port
A_LookupFailsIff ==
  [][ call'.fn \in RgLookupFns =>
        LET k == IF call'.fn \in {"InByNumber", "InByName", "InPort", "FindInPort"} THEN "in" ELSE "out"
            num == call'.fn \in {"InByNumber", "OutByNumber", "InPort", "OutPort"}
            d == IF s.reg = <<>> THEN 0 ELSE s.reg[1].d
            hit(i) == IF num THEN call'.n >= 0 /\ RgPorts(C, k, d)[i].num = call'.n
                      ELSE call'.q # <<>> /\ RgContains(RgPorts(C, k, d)[i].name, call'.q)
            firsthit(i) == hit(i) /\ \A j \in 1..(i - 1) : ~hit(j)
        IN (res'.ret = "nil") <=> /\ d # 0 /\ [f |-> "list", p |-> RgPort(k, d, 0)] \notin flt
                                  /\ \E i \in 1..2 : firsthit(i) /\ (RgPort(k, d, i) \in s.open \/ [f |-> "open", p |-> RgPort(k, d, i)] \notin flt) ]_vars
A_LookupTouchesOnlyFound ==
  [][ call'.fn \in RgLookupFns /\ res'.ret = "nil" =>
        /\ s'.open \ {res'.port} = s.open \ {res'.port} /\ s'.snd = s.snd /\ s'.nl = s.nl
        /\ \A h \in s.hs : h.p # res'.port => h \in s'.hs ]_vars
A_ListenFailsIff ==
  [][ call'.fn \in RgListenFns =>
        ((res'.ret = "err") <=> \/ (call'.p \notin s.open /\ [f |-> "open", p |-> call'.p] \in flt)
                                \/ [f |-> "listen", p |-> call'.p] \in flt) ]_vars
A_SendToFailsIff ==
  [][ call'.fn = "SendTo" => ((res'.ret = "err") <=> (call'.p \notin s.open /\ [f |-> "open", p |-> call'.p] \in flt)) ]_vars
A_SendFailsIff ==
  [][ call'.fn = "Send" => ((res'.ret = "err") <=> (call'.p \notin s.open \/ [f |-> "send", p |-> call'.p] \in flt)) ]_vars
A_CloseDriverOnlyFirst ==
  [][ call'.fn \in {"DriversClose", "CloseDriver"} =>
        LET d == IF s.reg = <<>> THEN 0 ELSE s.reg[1].d IN
        /\ res'.closed = (IF d = 0 THEN <<>> ELSE <<d>>)
        /\ {p \in s'.open : p.d # d} = {p \in s.open : p.d # d}
        /\ {h \in s'.hs : h.p.d # d} = {h \in s.hs : h.p.d # d}
        /\ ~\E p \in s'.open : p.d = d ]_vars
A_StopReportsAll ==
  [][ call'.fn = "Stop" => /\ \E h \in s.hs : h.p = call'.p /\ res'.nrec = h.cnt
                           /\ ~\E h \in s'.hs : h.p = call'.p
                           /\ s'.open = s.open ]_vars
A_CountsDeliveries ==
  [][ call'.fn = "Inject" =>
        \A h \in s.hs : h.p = call'.p =>
          \E h2 \in s'.hs : h2.p = h.p /\ h2.id = h.id /\ h2.cnt = h.cnt + (IF h.act THEN 1 ELSE 0) ]_vars
=============================================================================
