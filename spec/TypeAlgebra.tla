----------------------------- MODULE TypeAlgebra -----------------------------
(* X07 (extension): the algebra of message types (midi.Type, smf meta types) and the system real-time constructors.

   Stated from the package documentation ("Is returns true, if the type correspond to the given type", the
   category constants RealTimeMsg / SysCommonMsg / ChannelMsg / SysExMsg / smf.MetaMsg "to check if a message
   belongs to that category") and the MIDI 1.0 status table:

   T1  every concrete type t (NoteOnMsg, StartMsg, MetaTempoMsg, ...) satisfies  t.Is(c)  exactly for c = t and for
       c = the one category t belongs to; UnknownMsg and SysExMsg correspond to themselves only;
       what a CATEGORY constant used as receiver answers is not documented and not judged.
   T2  Message.IsOneOf(c1, .., cn) is the disjunction of Is(ci)  (observed through a message of that type).
   T3  Type.String() names are non-empty and pairwise distinct over all exported type constants.
   T4  the real-time constructors return the one-byte messages of the MIDI 1.0 status table
         TimingClock F8, Tick F9, Start FA, Continue FB, Stop FC, Activesense FE, Reset FF
       whose Type() is the matching concrete type, and a loopback port listening with all options delivers them unchanged.
   T5  a message built by a constructor has the constructor's type (NoteOffVelocity -> NoteOff, Pitchbend -> PitchBend,
       smf.MetaTempo -> MetaTempo, smf.EOT -> MetaEndOfTrack, ...).                                                       *)
EXTENDS Integers, Sequences, FiniteSets

RealTimeT  == {"Tick", "TimingClock", "Start", "Continue", "Stop", "ActiveSense", "Reset"}
ChannelT   == {"NoteOn", "NoteOff", "ControlChange", "PitchBend", "AfterTouch", "PolyAfterTouch", "ProgramChange"}
SysCommonT == {"MTC", "SongSelect", "SPP", "Tune"}
MetaT      == {"MetaChannel", "MetaCopyright", "MetaCuepoint", "MetaDevice", "MetaEndOfTrack", "MetaInstrument", "MetaKeySig",
               "MetaLyric", "MetaText", "MetaMarker", "MetaPort", "MetaSeqNumber", "MetaSeqData", "MetaTempo", "MetaTimeSig",
               "MetaTrackName", "MetaSMPTEOffset", "MetaUndefined", "MetaProgramName"}
Concrete   == RealTimeT \cup ChannelT \cup SysCommonT \cup MetaT
Categories == {"RealTimeCat", "ChannelCat", "SysCommonCat", "MetaCat"}
Special    == {"Unknown", "SysEx"}          \* types that are their own category
AllTypes   == Concrete \cup Categories \cup Special

CatOf(t) == IF t \in RealTimeT THEN "RealTimeCat" ELSE IF t \in ChannelT THEN "ChannelCat"
            ELSE IF t \in SysCommonT THEN "SysCommonCat" ELSE "MetaCat"

\* T1 (defined for t \in Concrete \cup Special)
Is(t, c) == IF t \in Concrete THEN c = t \/ c = CatOf(t) ELSE c = t
Judged(t) == t \in Concrete \cup Special
\* T2
IsOneOf(t, cs) == \E i \in 1..Len(cs) : Is(t, cs[i])

\* T4
RtByte == [TimingClock |-> 248, Tick |-> 249, Start |-> 250, Continue |-> 251, Stop |-> 252, Activesense |-> 254, Reset |-> 255]
RtType == [TimingClock |-> "TimingClock", Tick |-> "Tick", Start |-> "Start", Continue |-> "Continue", Stop |-> "Stop",
           Activesense |-> "ActiveSense", Reset |-> "Reset"]
RtCtors == DOMAIN RtByte

\* T5: the type of a message built by a constructor (the constructors of the midi and the smf package)
CtorType == [NoteOn |-> "NoteOn", NoteOff |-> "NoteOff", NoteOffVelocity |-> "NoteOff", PolyAfterTouch |-> "PolyAfterTouch",
             ControlChange |-> "ControlChange", ProgramChange |-> "ProgramChange", AfterTouch |-> "AfterTouch", Pitchbend |-> "PitchBend",
             SPP |-> "SPP", MTC |-> "MTC", SongSelect |-> "SongSelect", Tune |-> "Tune",
             TimingClock |-> "TimingClock", Tick |-> "Tick", Start |-> "Start", Continue |-> "Continue", Stop |-> "Stop",
             Activesense |-> "ActiveSense", Reset |-> "Reset", SysEx |-> "SysEx",
             MetaChannel |-> "MetaChannel", MetaCopyright |-> "MetaCopyright", MetaCuepoint |-> "MetaCuepoint", MetaDevice |-> "MetaDevice",
             EOT |-> "MetaEndOfTrack", MetaInstrument |-> "MetaInstrument", MetaKey |-> "MetaKeySig", MetaLyric |-> "MetaLyric",
             MetaText |-> "MetaText", MetaMarker |-> "MetaMarker", MetaPort |-> "MetaPort", MetaSequenceNo |-> "MetaSeqNumber",
             MetaSequencerData |-> "MetaSeqData", MetaTempo |-> "MetaTempo", MetaMeter |-> "MetaTimeSig", MetaTimeSig |-> "MetaTimeSig",
             MetaTrackSequenceName |-> "MetaTrackName", MetaSMPTE |-> "MetaSMPTEOffset", MetaProgram |-> "MetaProgramName"]
=============================================================================
