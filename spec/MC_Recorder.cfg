CONSTANTS
  Alphabet <- TokensFull
  Dts = {0, 7, 60000}
  MaxChunks = 3
  Settings <- SettingsCorner
INIT Init
NEXT Next
INVARIANTS Valid OnlyChannel KeepIsNeeded TicksExact
CHECK_DEADLOCK FALSE
