CONSTANTS
  XMaxBars = 2
  XSigs <- XSigSet
  XResolutions <- XResSet
INIT Init
NEXT Next
CHECK_DEADLOCK FALSE
INVARIANT RefOkInv
INVARIANT MutTrailInv
INVARIANT MutLineInv
INVARIANT MutTrkInv
INVARIANT MutDurInv
INVARIANT FreedomUsedInv
