\* thorough: 2 tracks x <= 3 events x selections x port maps
\* atomic Player actions + ghost acceptor: stable merge, exactly once, no meta, no deadlock, acceptor complete
CONSTANTS
  NT = 2
  NE = 3
  MaxNow = 1
  Kinds <- KindsAll
  TimePats <- Pats3
  Sels <- SelsAll
  PortMaps <- PMall
INIT Init
NEXT Next
INVARIANTS AllWellFormed SentOk Complete AcceptorComplete
CHECK_DEADLOCK TRUE
