CONSTANTS
  MaxLen = 5
INIT Init
NEXT Next
INVARIANTS ParseTotal GateIsWindow
CHECK_DEADLOCK FALSE
