INIT Init
NEXT Next
POSTCONDITION Post
CHECK_DEADLOCK FALSE
