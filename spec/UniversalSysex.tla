--------------------------- MODULE UniversalSysex ---------------------------
(* Extension X04: "Universal system exclusive messages have the layout the MIDI specification prescribes".
   Written from the MIDI 1.0 Detailed Specification (Universal System Exclusive tables VII / VIIa, MMC RP-013,
   General MIDI Level 1) and the documentation of the packages, NOT from the Go code.

   THE PROPERTIES (what a user of v2/sysex, v2/mmc, v2/gm and midi.SysEx may rightly rely on)

   P0  Framing, for EVERY argument value (byte parameters 0..255, 14-bit parameters 0..65535): what a helper returns
       starts with F0, ends with F7 and has only data bytes (0..127) in between.  An argument outside its range may be
       clamped, masked or replaced -- WHICH 7-bit byte then appears is left open -- but it must not put a status byte
       into the message, and it must not disturb the bytes that do not depend on it.
   P1  Layout, for arguments inside their range (device / channel id 0..7F with 7F = all devices, data 0..7F,
       14-bit values 0..3FFF sent LSB first):
         universal real time      F0 7F <device> <sub-id1> <sub-id2> ... F7
         universal non real time  F0 7E <device> <sub-id1> <sub-id2> ... F7
         helper                                   sub-ids   data
         sysex.Realtime{ch,s1,s2}.SysEx()         s1 s2     -
         sysex.MasterVolume(ch, vol)              04 01     <vol bits 0-6> <vol bits 7-13>      (device control)
         sysex.NonRealtime{ch,s1,s2}.SysEx()      s1 s2     -
         sysex.GMSystem(ch, on)                   09 01     -    General MIDI 1 system on
         sysex.GMSystem(ch, off)                  09 02     -    General MIDI system off  (table VIIa: 09 01 on, 09 02 off)
         sysex.IdentityRequest(ch)                06 01     -
         sysex.IdentityReply(ch,id,f,p,v)         06 02     <id> <f1 f2> <p1 p2> <v1 v2 v3 v4>   (one byte manufacturer id 01..7F)
         mmc.Message{dev,cmd}.SysEx()             06 <cmd>  -    cmd 01..3F carry no data
         mmc.GoTo{dev,tc}.SysEx()                 06 44     06 01 <hr mn sc fr ff>               (LOCATE TARGET)
         mmc.Identity{ch}.SysEx()                 06 01     -    (non real time: identity request)
       Deliberately left open (see "observations" in the report of X04): the manufacturer id 00 of IdentityReply (the
       standard then wants a three byte id, which the signature cannot express); MMC device id 0 (the package documents
       nothing; 0 or 7F accepted); mmc.Message with IsResponse, Data or a command of 40h and above (only F0 7F <dev> 06|07
       .. F7 is demanded); a raw payload with 8-bit bytes handed to midi.SysEx (only F0 .. F7 is demanded).
   P2  midi.SysEx(data) is F0 <data> F7 and GetSysEx of it (midi.Message and smf.Message) yields exactly data
       (data = 1.. data bytes; the empty payload is left open).
   P3  mmc.Identity.Parse reads back the channel of the message mmc.Identity.SysEx built.
   P4  gm.Reset(ch, prog) is the documented sequence on channel ch (0..15), prog 0..127:
         Bn 00 00 (bank select 0)   Cn prog   Bn 79 00 (reset all controllers)   Bn 07 64 (volume 100)
         Bn 0B 7F (expression 127)  Bn 40 00 (hold off)   Bn 0A 40 (pan centre)
       and gm.GMProgram(ch, prog) is  Bn 00 00, Cn prog.  For arguments outside their range every message is still a
       well formed channel message of the same kind (status B0..BF / C0..CF, data bytes 0..127), all on one channel.
       A receiver that was in any other state is afterwards in the General MIDI default state (GmRecv below): bank 0
       ACTIVE (bank select precedes the program change), the program, volume 100, expression 127, hold off, pan 64.
   P5  gm.DrumKey(..).Key() is the key of the General MIDI percussion map (35 Acoustic Bass Drum .. 81 Open Triangle).

   The judgement is phrased as a PATTERN: for (helper, arguments) the sequence of the SETS of bytes allowed at each
   position.  Inside the domain every set is a singleton, i.e. the pattern is the message.                          *)
EXTENDS Integers, Sequences, FiniteSets, SequencesExt

UxB7 == 0..127
UxAll7(s) == \A i \in 1..Len(s) : s[i] \in UxB7
UxWellFormed(b) == Len(b) >= 2 /\ b[1] = 240 /\ b[Len(b)] = 247 /\ \A i \in 2..(Len(b) - 1) : b[i] \in UxB7

\* what a byte parameter / a 14-bit parameter may put on the wire
UxArg(x)  == IF x \in UxB7 THEN {x} ELSE UxB7
UxArgs(s) == [i \in 1..Len(s) |-> UxArg(s[i])]
UxU14(v)  == IF v \in 0..16383 THEN <<{v % 128}, {v \div 128}>> ELSE <<UxB7, UxB7>>
UxMmcDev(d) == IF d = 0 THEN {0, 127} ELSE UxArg(d)
UxS(s) == [i \in 1..Len(s) |-> {s[i]}]                      \* a fixed byte string as a pattern

UxHelpers == {"rt.generic", "rt.mastervolume", "nrt.generic", "nrt.gmsystem", "nrt.identityrequest", "nrt.identityreply",
              "mmc.message", "mmc.goto", "mmc.identity", "midi.sysex"}
GmHelpers == {"gm.reset", "gm.gmprogram"}
UxArity(h) == CASE h \in {"rt.generic", "nrt.generic", "mmc.message"} -> 3
                [] h \in {"rt.mastervolume", "nrt.gmsystem", "gm.reset", "gm.gmprogram"} -> 2
                [] h \in {"nrt.identityrequest", "mmc.identity"} -> 1
                [] h = "nrt.identityreply" -> 10
                [] h = "mmc.goto" -> 6
                [] OTHER -> 0
\* the values the Go signature can carry (anything else in a record is a fault of the harness, not of the library)
UxArgTypeOk(h, a, data) ==
  /\ Len(a) = UxArity(h)
  /\ \A i \in 1..Len(data) : data[i] \in 0..255
  /\ CASE h = "rt.mastervolume" -> a[1] \in 0..255 /\ a[2] \in 0..65535
       [] h = "nrt.gmsystem"    -> a[1] \in 0..255 /\ a[2] \in {0, 1}
       [] h = "mmc.message"     -> a[1] \in 0..255 /\ a[2] \in 0..255 /\ a[3] \in {0, 1}
       [] OTHER -> \A i \in 1..Len(a) : a[i] \in 0..255
\* the domain of P1 / P2 (everything a byte may legally be)
UxInDomain(h, a, data) ==
  CASE h = "rt.mastervolume"   -> a[1] \in UxB7 /\ a[2] \in 0..16383
    [] h = "nrt.gmsystem"      -> a[1] \in UxB7
    [] h = "nrt.identityreply" -> UxAll7(a) /\ a[2] # 0
    [] h = "mmc.message"       -> a[1] \in 1..127 /\ a[2] \in 1..63 /\ a[3] = 0 /\ data = <<>>
    [] h = "mmc.goto"          -> a[1] \in 1..127 /\ UxAll7(a)
    [] h = "midi.sysex"        -> data # <<>> /\ UxAll7(data)
    [] OTHER -> UxAll7(a)

\* [pre |-> sets of bytes allowed at the positions 1..Len(pre), tail |-> more data bytes and the F7 follow freely,
\*  raw |-> only the framing bytes are demanded]
UxPattern(h, a, data) ==
  LET Fix(p) == [pre |-> p, tail |-> FALSE, raw |-> FALSE] IN
  CASE h = "rt.generic"  -> Fix(<<{240}, {127}>> \o UxArgs(a) \o <<{247}>>)
    [] h = "nrt.generic" -> Fix(<<{240}, {126}>> \o UxArgs(a) \o <<{247}>>)
    [] h = "rt.mastervolume"     -> Fix(<<{240}, {127}, UxArg(a[1]), {4}, {1}>> \o UxU14(a[2]) \o <<{247}>>)
    [] h = "nrt.gmsystem"        -> Fix(<<{240}, {126}, UxArg(a[1]), {9}, IF a[2] = 1 THEN {1} ELSE {2}, {247}>>)
    [] h = "nrt.identityrequest" -> Fix(<<{240}, {126}, UxArg(a[1]), {6}, {1}, {247}>>)
    [] h = "mmc.identity"        -> Fix(<<{240}, {126}, UxArg(a[1]), {6}, {1}, {247}>>)
    [] h = "nrt.identityreply"   -> Fix(<<{240}, {126}, UxArg(a[1]), {6}, {2}>> \o UxArgs(SubSeq(a, 2, 10)) \o <<{247}>>)
    [] h = "mmc.goto" -> Fix(<<{240}, {127}, UxMmcDev(a[1]), {6}, {68}, {6}, {1}>> \o UxArgs(SubSeq(a, 2, 6)) \o <<{247}>>)
    [] h = "mmc.message" ->
         IF a[3] = 0 /\ data = <<>> /\ a[2] \in 1..63
         THEN Fix(<<{240}, {127}, UxMmcDev(a[1]), {6}, {a[2]}, {247}>>)
         ELSE IF a[3] = 0 THEN [pre |-> <<{240}, {127}, UxMmcDev(a[1]), {6}, UxArg(a[2])>>, tail |-> TRUE, raw |-> FALSE]
         ELSE [pre |-> <<{240}, {127}, UxMmcDev(a[1]), {6, 7}>>, tail |-> TRUE, raw |-> FALSE]
    [] h = "midi.sysex" -> IF UxAll7(data) THEN Fix(<<{240}>> \o UxS(data) \o <<{247}>>)
                           ELSE [pre |-> <<{240}>>, tail |-> TRUE, raw |-> TRUE]
    [] OTHER -> Fix(<<{}>>)                                              \* matches nothing

UxMatch(b, pat) == Len(b) = Len(pat) /\ \A i \in 1..Len(b) : b[i] \in pat[i]
UxAccept(h, a, data, b) ==
  LET p == UxPattern(h, a, data)
      n == Len(p.pre)
  IN IF ~p.tail THEN UxMatch(b, p.pre)
     ELSE /\ Len(b) >= n + 1
          /\ UxMatch(SubSeq(b, 1, n), p.pre)
          /\ b[Len(b)] = 247
          /\ (p.raw \/ UxAll7(SubSeq(b, n + 1, Len(b) - 1)))
\* first position (1-based) at which b leaves the pattern; 0 = none / only the length differs (diagnostics)
UxFirstOff(h, a, data, b) ==
  LET p == UxPattern(h, a, data).pre
      offs == {i \in 1..Len(b) : i <= Len(p) /\ b[i] \notin p[i]}
  IN IF offs = {} THEN 0 ELSE CHOOSE i \in offs : \A j \in offs : i <= j
\* the message itself, where the pattern determines it
UxBuild(h, a, data) == LET p == UxPattern(h, a, data).pre IN [i \in 1..Len(p) |-> CHOOSE x \in p[i] : \A y \in p[i] : x <= y]
UxExact(h, a, data) == LET p == UxPattern(h, a, data) IN ~p.tail /\ \A i \in 1..Len(p.pre) : Cardinality(p.pre[i]) = 1

\* ---- the receiver's view: the header of a universal message and the table of the standard --------------------
UxClass(b) ==
  IF UxWellFormed(b) /\ Len(b) >= 6 /\ b[2] \in {126, 127}
  THEN [ok |-> TRUE, rt |-> b[2] = 127, dev |-> b[3], s1 |-> b[4], s2 |-> b[5], data |-> SubSeq(b, 6, Len(b) - 1)]
  ELSE [ok |-> FALSE, rt |-> FALSE, dev |-> 0, s1 |-> 0, s2 |-> 0, data |-> <<>>]
\* <<real time?, sub-id1, sub-id2, number of data bytes>> of the named messages (tables VII, VIIa; RP-013 for 06 44)
UxStd == [mastervolume |-> <<TRUE, 4, 1, 2>>, gmon |-> <<FALSE, 9, 1, 0>>, gmoff |-> <<FALSE, 9, 2, 0>>,
          identityrequest |-> <<FALSE, 6, 1, 0>>, identityreply |-> <<FALSE, 6, 2, 9>>, locate |-> <<TRUE, 6, 68, 7>>]
UxStdName(h, a) == CASE h = "rt.mastervolume" -> "mastervolume"
                     [] h = "nrt.gmsystem" -> IF a[2] = 1 THEN "gmon" ELSE "gmoff"
                     [] h \in {"nrt.identityrequest", "mmc.identity"} -> "identityrequest"
                     [] h = "nrt.identityreply" -> "identityreply"
                     [] h = "mmc.goto" -> "locate"
                     [] OTHER -> ""
\* the arguments as a receiver reads them out of the message (inverse of the layout)
UxArgsOf(h, c) == CASE h \in {"rt.generic", "nrt.generic"} -> <<c.dev, c.s1, c.s2>>
                    [] h = "rt.mastervolume" -> <<c.dev, c.data[1] + 128 * c.data[2]>>
                    [] h = "nrt.gmsystem" -> <<c.dev, IF c.s2 = 1 THEN 1 ELSE 0>>
                    [] h \in {"nrt.identityrequest", "mmc.identity"} -> <<c.dev>>
                    [] h = "nrt.identityreply" -> <<c.dev>> \o c.data
                    [] h = "mmc.message" -> <<c.dev, c.s2, 0>>
                    [] h = "mmc.goto" -> <<c.dev>> \o SubSeq(c.data, 3, 7)
                    [] OTHER -> <<>>

\* ---- General MIDI reset ------------------------------------------------------------------------------------------
GmStatus(kind, ch) == IF ch \in 0..15 THEN {kind * 16 + ch} ELSE (kind * 16)..(kind * 16 + 15)
GmCC(ch, c, v) == <<GmStatus(11, ch), {c}, {v}>>
GmPC(ch, p)    == <<GmStatus(12, ch), UxArg(p)>>
GmPattern(h, a) ==
  IF h = "gm.reset" THEN <<GmCC(a[1], 0, 0), GmPC(a[1], a[2]), GmCC(a[1], 121, 0), GmCC(a[1], 7, 100),
                           GmCC(a[1], 11, 127), GmCC(a[1], 64, 0), GmCC(a[1], 10, 64)>>
  ELSE <<GmCC(a[1], 0, 0), GmPC(a[1], a[2])>>
GmBuild(h, a) == LET p == GmPattern(h, a) IN [k \in 1..Len(p) |-> [i \in 1..Len(p[k]) |-> CHOOSE x \in p[k][i] : \A y \in p[k][i] : x <= y]]
GmWellMsg(m) == \/ Len(m) = 3 /\ m[1] \in 176..191 /\ m[2] \in UxB7 /\ m[3] \in UxB7
                \/ Len(m) = 2 /\ m[1] \in 192..207 /\ m[2] \in UxB7
GmOneChannel(ms) == \A i, j \in 1..Len(ms) : ms[i] # <<>> /\ ms[j] # <<>> => ms[i][1] % 16 = ms[j][1] % 16
GmAccept(h, a, ms) ==
  LET p == GmPattern(h, a) IN
  /\ Len(ms) = Len(p)
  /\ \A k \in 1..Len(ms) : UxMatch(ms[k], p[k])
  /\ GmOneChannel(ms)
\* a General MIDI receiver, one channel: bank select only becomes active with the next program change; reset all
\* controllers (RP-015) puts expression to 127 and hold to 0 and leaves volume, pan, bank and program alone
GmRecv(st, m, ch) ==
  IF m = <<>> \/ m[1] % 16 # ch THEN st
  ELSE IF Len(m) = 2 /\ m[1] \div 16 = 12 THEN [st EXCEPT !.prog = m[2], !.bank = st.bankSel]
  ELSE IF Len(m) = 3 /\ m[1] \div 16 = 11 THEN
       CASE m[2] = 0   -> [st EXCEPT !.bankSel = m[3]]
         [] m[2] = 7   -> [st EXCEPT !.vol = m[3]]
         [] m[2] = 10  -> [st EXCEPT !.pan = m[3]]
         [] m[2] = 11  -> [st EXCEPT !.expr = m[3]]
         [] m[2] = 64  -> [st EXCEPT !.hold = m[3]]
         [] m[2] = 121 -> [st EXCEPT !.expr = 127, !.hold = 0]
         [] OTHER -> st
  ELSE st
GmRun(st, ms, ch) == FoldLeft(LAMBDA s, m : GmRecv(s, m, ch), st, ms)
GmDirty(x) == [bankSel |-> x, bank |-> x, prog |-> x, vol |-> x, expr |-> x, hold |-> x, pan |-> x]
GmDefault(prog) == [bankSel |-> 0, bank |-> 0, prog |-> prog, vol |-> 100, expr |-> 127, hold |-> 0, pan |-> 64]

\* ---- General MIDI percussion key map (GM level 1, keys 35..81) ---------------------------------------------------
GmPercussion == <<"AcousticBassDrum", "BassDrum1", "SideStick", "AcousticSnare", "HandClap", "ElectricSnare", "LowFloorTom",
  "ClosedHiHat", "HighFloorTom", "PedalHiHat", "LowTom", "OpenHiHat", "LowMidTom", "HiMidTom", "CrashCymbal1", "HighTom",
  "RideCymbal1", "ChineseCymbal", "RideBell", "Tambourine", "SplashCymbal", "Cowbell", "CrashCymbal2", "Vibraslap",
  "RideCymbal2", "HiBongo", "LowBongo", "MuteHiConga", "OpenHiConga", "LowConga", "HighTimbale", "LowTimbale", "HighAgogo",
  "LowAgogo", "Cabasa", "Maracas", "ShortWhistle", "LongWhistle", "ShortGuiro", "LongGuiro", "Claves", "HiWoodBlock",
  "LowWoodBlock", "MuteCuica", "OpenCuica", "MuteTriangle", "OpenTriangle">>
GmPercKey(name) == LET I == {i \in 1..Len(GmPercussion) : GmPercussion[i] = name} IN IF I = {} THEN -1 ELSE 34 + CHOOSE i \in I : TRUE
\* every recorded (name, key) is an entry of the map and every entry of the map was recorded
GmPercAccept(names, vals) ==
  /\ Len(names) = Len(vals)
  /\ \A i \in 1..Len(names) : GmPercKey(names[i]) = vals[i]
  /\ \A k \in 1..Len(GmPercussion) : \E i \in 1..Len(names) : names[i] = GmPercussion[k]
=============================================================================
