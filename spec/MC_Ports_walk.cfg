CONSTANTS
  Kind = "testdrv"
  MaxL = 3
  WithOpts = FALSE
  MaxMsgs = 5
INIT Init
NEXT Next
INVARIANTS FilteredNeverDelivered OnlyWhileListening ClosedReported NeverTwoListeners ActiveImpliesOpen
CHECK_DEADLOCK FALSE
