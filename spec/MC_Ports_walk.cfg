CONSTANTS
  Kind = "testdrv"
  MaxL = 3
  MaxMsgs = 5
INIT Init
NEXT Next
INVARIANTS OnlyWhileListening ClosedReported NeverTwoListeners ActiveImpliesOpen
CHECK_DEADLOCK FALSE
