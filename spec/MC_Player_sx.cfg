\* quick: 2 tracks x <= 3 events, ticks <<0,0,1>>, channel message / meta / sysex (optional sends)
\* atomic Player actions + ghost acceptor: stable merge, exactly once, no meta, no deadlock, acceptor complete
CONSTANTS
  NT = 2
  NE = 3
  MaxNow = 1
  Kinds <- KindsNoB
  TimePats <- Pats3one
  Sels <- SelAll
  PortMaps <- PMmixed
INIT Init
NEXT Next
INVARIANTS AllWellFormed SentOk Complete AcceptorComplete AttrAgrees AttrAccepts
CHECK_DEADLOCK TRUE
