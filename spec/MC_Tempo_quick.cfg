CONSTANT MaxLen = 3
INIT Init
NEXT Next
INVARIANTS IsMap EqDef Mono Split EqualTick BigAgree Tolerance NatAgree
CHECK_DEADLOCK FALSE
