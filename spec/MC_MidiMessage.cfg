INIT Init
NEXT Next
INVARIANTS WellFormed TypeMatches DecodeBack OneCategory
CHECK_DEADLOCK FALSE
