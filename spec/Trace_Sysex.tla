----------------------------- MODULE Trace_Sysex -----------------------------
(* Trace validation for C18.  One line = one experiment on the REAL library:
     ev = "sx"   a Roland-style value built with Manufacturer.SysEx(), parsed back with sysex.Parse, and ALL
                 (3+n+1) x 127 single-byte corruptions of the guarded bytes parsed by the real code: `ntried` of them,
                 every one that was NOT rejected with an error is in `noterr` (in full), a seeded sample of them
                 (position, value, outcome kind) is in `sample`
     ev = "mmc"  mmc.Message{dev, cmd}.SysEx() parsed back with the Parse method of mmc.Message
     ev = "loc"  mmc.GoTo{dev, tc}.SysEx() parsed back with the Parse method of mmc.GoTo
   Judged with the operators of Sysex: the real bytes are what Build makes (so the specification's own parser reads
   the value back and the guarded bytes sum to 0 mod 128), the real parser returned the value, no corruption was
   accepted, and on the sample the specification itself rejects the corrupted bytes (binding of the harness'
   position/value bookkeeping).  Positions are 1-based.  Total: every line is consumed.                        *)
EXTENDS Sysex, TLC, Json, IOUtils
VARIABLES l, bad

Trace == ndJsonDeserialize(IOEnv.VERIF_TRACE)

SxOf(r) == [man |-> r.man, dev |-> r.dev, model |-> r.model, req |-> r.req, addr |-> r.addr, data |-> r.data, size |-> r.size]

JudgeSx(e) ==
  LET v == SxOf(e)
      inDom == SxIsValue(v)
      n == Len(e.bytes)
      bytesOk == inDom /\ e.bytes = SxBuild(v)
      sumOk == SxSumZero(e.bytes)
      sp == SxParse(e.bytes)
      specReads == sp.ok /\ sp.v = v
      realReads == e.pkind = "ok" /\ SxOf(e.pv) = v
      \* the caller's own slice: untouched by parsing it and by using the parsed value (Checksum, SysEx), and parsing it once
      \* more returns the value again
      ownIntact == e.after = e.bytes
      reReads == e.p2kind = "ok" /\ SxOf(e.p2v) = v
      ValidC(c) == c.pos \in 6..(n - 1) /\ c.val \in SxB7 /\ c.val # e.bytes[c.pos]
      Corr(c) == [e.bytes EXCEPT ![c.pos] = c.val]
      nInvalid == Len(SelectSeq(e.sample, LAMBDA c : ~ValidC(c))) + Len(SelectSeq(e.noterr, LAMBDA c : ~ValidC(c)))
      specAccepts == SelectSeq(e.sample, LAMBDA c : ValidC(c) /\ SxParse(Corr(c)).ok)
      realAccepts == SelectSeq(e.sample, LAMBDA c : c.kind # "error")
      triedOk == e.ntried = (n - 6) * 127 /\ e.sample # <<>>
      \* bookkeeping of the harness is only meaningful (and only checked) when the built bytes are the expected ones;
      \* wrong bytes are a violation by themselves (bytesOk), never a generator problem
      genbug == ~inDom \/ (bytesOk /\ (nInvalid > 0 \/ ~triedOk \/ specAccepts # <<>>))
  IN [ok |-> ~genbug /\ bytesOk /\ sumOk /\ specReads /\ realReads /\ ownIntact /\ reReads /\ e.noterr = <<>> /\ realAccepts = <<>>,
      info |-> [id |-> e.id, ev |-> "sx", genbug |-> genbug, inDom |-> inDom, invalidCorruptions |-> nInvalid, triedOk |-> triedOk,
                specAcceptsSample |-> Len(specAccepts), bytesOk |-> bytesOk, sumOk |-> sumOk, specReads |-> specReads,
                pkind |-> e.pkind, pmsg |-> e.pmsg, valueOk |-> realReads, callersBytesIntact |-> ownIntact, secondParseOk |-> reReads, notRejected |-> Len(e.noterr),
                first |-> IF e.noterr = <<>> THEN <<>> ELSE <<[pos |-> e.noterr[1].pos, val |-> e.noterr[1].val,
                                                             kind |-> e.noterr[1].kind, msg |-> e.noterr[1].msg]>>,
                sampleNotRejected |-> Len(realAccepts), nsample |-> Len(e.sample), ntried |-> e.ntried]]

JudgeMmc(e) ==
  LET inDom == e.dev \in MmcDevs /\ e.cmd \in MmcPlain
      bytesOk == inDom /\ e.bytes = MmcBuild(e.dev, e.cmd)
      sp == MmcParse(e.bytes)
      specReads == sp.ok /\ sp.dev = e.dev /\ sp.cmd = e.cmd
      realReads == e.pkind = "ok" /\ e.pv.dev = e.dev /\ e.pv.cmd = e.cmd /\ ~e.pv.resp /\ e.pv.data = <<>>
  IN [ok |-> inDom /\ bytesOk /\ specReads /\ realReads,
      info |-> [id |-> e.id, ev |-> "mmc", genbug |-> ~inDom, bytesOk |-> bytesOk, specReads |-> specReads,
                pkind |-> e.pkind, pmsg |-> e.pmsg, valueOk |-> realReads]]

JudgeLoc(e) ==
  LET inDom == e.dev \in MmcDevs /\ LocIsTc(e.tc)
      bytesOk == inDom /\ e.bytes = LocBuild(e.dev, e.tc)
      sp == LocParse(e.bytes)
      specReads == sp.ok /\ sp.dev = e.dev /\ sp.tc = e.tc
      realReads == e.pkind = "ok" /\ e.pv.dev = e.dev /\ e.pv.tc = e.tc
  IN [ok |-> inDom /\ bytesOk /\ specReads /\ realReads,
      info |-> [id |-> e.id, ev |-> "loc", genbug |-> ~inDom, bytesOk |-> bytesOk, specReads |-> specReads,
                pkind |-> e.pkind, pmsg |-> e.pmsg, valueOk |-> realReads]]

Judge(e) == CASE e.ev = "sx" -> JudgeSx(e)
              [] e.ev = "mmc" -> JudgeMmc(e)
              [] e.ev = "loc" -> JudgeLoc(e)
              [] OTHER -> [ok |-> FALSE, info |-> [id |-> e.id, ev |-> e.ev, genbug |-> TRUE]]

Init == l = 1 /\ bad = <<>>
Next == \/ /\ l <= Len(Trace)
           /\ LET j == Judge(Trace[l])
              IN bad' = IF j.ok THEN bad ELSE Append(bad, [line |-> l, info |-> j.info])
           /\ l' = l + 1
        \/ /\ l = Len(Trace) + 1
           /\ ndJsonSerialize(IOEnv.VERIF_OUT, <<[consumed |-> Len(Trace)]>> \o bad)
           /\ l' = l + 1 /\ UNCHANGED bad
=============================================================================
