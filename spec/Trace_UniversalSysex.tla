------------------------ MODULE Trace_UniversalSysex ------------------------
(* Trace validation for X04.  One line = one call of a helper of the REAL library:
     h      helper name (UxHelpers, GmHelpers, "gm.drumkeys")
     a      its integer arguments in the order of UniversalSysex!UxArity  (flags as 0 / 1)
     data   its byte string argument (midi.sysex: the payload; mmc.message: the Data field)
     kind   "ok" | "panic" (msg = panic text)
     bytes  what the helper returned (sysex helpers)          msgs   the messages returned (gm helpers)
     gok, gdata / sgok, sgdata   midi.Message.GetSysEx / smf.Message.GetSysEx on the result of midi.SysEx (midi.sysex only)
     pkind, pchan   a fresh mmc.Identity parsing the built bytes: "ok" | "error" | "panic", the channel it then holds
                    (mmc.goto: a fresh mmc.GoTo parsing the built bytes; vals = device and time code it then holds)
     bytes / msgs are read from what the helper returned only after ALL calls of the run have been made
     names, vals    gm.drumkeys: every DrumKey constant of the package and what its Key() method returns
   Judged with the operators of UniversalSysex: framing (F0, data bytes, F7) for every argument value, the pattern of
   the message (exact inside the domain), payload read back, channel read back, GM sequence and what a GM receiver
   makes of it, percussion map.  Total: every line is consumed.                                                     *)
EXTENDS UniversalSysex, TLC, Json, IOUtils
VARIABLES l, bad

Trace == ndJsonDeserialize(IOEnv.VERIF_TRACE)

JudgeUx(e) ==
  LET h == e.h
      b == e.bytes
      typeOk == UxArgTypeOk(h, e.a, e.data)
      inDom == typeOk /\ UxInDomain(h, e.a, e.data)
      ran == e.kind = "ok"
      f0 == Len(b) >= 1 /\ b[1] = 240
      f7 == Len(b) >= 2 /\ b[Len(b)] = 247
      raw == typeOk /\ UxPattern(h, e.a, e.data).raw
      all7 == raw \/ (Len(b) >= 2 /\ UxAll7(SubSeq(b, 2, Len(b) - 1)))
      accepted == typeOk /\ UxAccept(h, e.a, e.data, b)
      getOk == (h = "midi.sysex" /\ inDom) => (e.gok /\ e.gdata = e.data /\ e.sgok /\ e.sgdata = e.data)
      parseOk == /\ (h = "mmc.identity" /\ inDom) => (e.pkind = "ok" /\ e.pchan = e.a[1])
                 \* a fresh mmc.GoTo parsing the built bytes holds the device and the five time code bytes the message was built from
                 /\ (h = "mmc.goto" /\ inDom /\ accepted) => (e.pkind = "ok" /\ e.vals = e.a)
      \* a receiver's reading of the real bytes (second, independent route to the same verdict inside the domain)
      c == UxClass(b)
      readBack == (inDom /\ h # "midi.sysex" /\ accepted) => (c.ok /\ UxArgsOf(h, c) = e.a)
  IN [ok |-> typeOk /\ ran /\ f0 /\ f7 /\ all7 /\ accepted /\ getOk /\ parseOk /\ readBack,
      info |-> [id |-> e.id, h |-> h, genbug |-> ~typeOk, inDom |-> inDom, ran |-> ran, msg |-> e.msg, f0 |-> f0, f7 |-> f7, all7 |-> all7,
                accepted |-> accepted, firstOff |-> IF typeOk THEN UxFirstOff(h, e.a, e.data, b) ELSE 0,
                expLen |-> IF typeOk THEN Len(UxPattern(h, e.a, e.data).pre) ELSE 0, len |-> Len(b),
                getOk |-> getOk, parseOk |-> parseOk, readBack |-> readBack]]

JudgeGm(e) ==
  LET typeOk == UxArgTypeOk(e.h, e.a, e.data)
      inDom == typeOk /\ e.a[1] \in 0..15 /\ e.a[2] \in UxB7
      ran == e.kind = "ok"
      well == \A i \in 1..Len(e.msgs) : GmWellMsg(e.msgs[i])
      accepted == typeOk /\ GmAccept(e.h, e.a, e.msgs)
      end == GmRun(GmDirty(5), e.msgs, e.a[1])
      reaches == (inDom /\ well) => /\ end.bank = 0 /\ end.prog = e.a[2]
                                    /\ (e.h = "gm.reset" => end = GmDefault(e.a[2]))
  IN [ok |-> typeOk /\ ran /\ well /\ accepted /\ reaches,
      info |-> [id |-> e.id, h |-> e.h, genbug |-> ~typeOk, inDom |-> inDom, ran |-> ran, msg |-> e.msg, well |-> well,
                accepted |-> accepted, reaches |-> reaches, n |-> Len(e.msgs)]]

JudgePerc(e) ==
  LET acc == GmPercAccept(e.names, e.vals)
  IN [ok |-> e.kind = "ok" /\ acc,
      info |-> [id |-> e.id, h |-> e.h, genbug |-> e.names = <<>>, ran |-> e.kind = "ok", msg |-> e.msg, accepted |-> acc,
                wrong |-> IF Len(e.names) # Len(e.vals) THEN <<>>
                          ELSE SelectSeq([i \in 1..Len(e.names) |-> <<e.names[i], e.vals[i]>>], LAMBDA p : GmPercKey(p[1]) # p[2])]]

Judge(e) == CASE e.h \in UxHelpers -> JudgeUx(e)
              [] e.h \in GmHelpers -> JudgeGm(e)
              [] e.h = "gm.drumkeys" -> JudgePerc(e)
              [] OTHER -> [ok |-> FALSE, info |-> [id |-> e.id, h |-> e.h, genbug |-> TRUE]]

Init == l = 1 /\ bad = <<>>
Next == \/ /\ l <= Len(Trace)
           /\ LET j == Judge(Trace[l])
              IN bad' = IF j.ok THEN bad ELSE Append(bad, [line |-> l, info |-> j.info])
           /\ l' = l + 1
        \/ /\ l = Len(Trace) + 1
           /\ ndJsonSerialize(IOEnv.VERIF_OUT, <<[consumed |-> Len(Trace)]>> \o bad)
           /\ l' = l + 1 /\ UNCHANGED bad
=============================================================================
