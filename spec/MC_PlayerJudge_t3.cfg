\* thorough: 2 tracks x <= 3 events x selections x port maps
\* the trace acceptor (Player!Via) as next-state relation: accepts only stable merges
CONSTANTS
  NT = 2
  NE = 3
  MaxNow = 1
  Kinds <- KindsAll
  TimePats <- Pats3
  Sels <- SelsAll
  PortMaps <- PMall
INIT Init
NEXT NextJ
INVARIANTS AllWellFormed SentOk Complete
CHECK_DEADLOCK FALSE
