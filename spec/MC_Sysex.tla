------------------------------ MODULE MC_Sysex ------------------------------
(* C18 on the model.  Every Roland-style value over boundary ids / address bytes / data bytes (payloads 1..MaxPay,
   requests with every boundary size), every plain MMC command (all 127 x 63) and locate messages over boundary
   time codes is one state; the invariants are the property:
     RoundTrip        SxParse(SxBuild(v)) = v                 (and MMC / locate likewise)
     ChecksumZero     address + body + checksum = 0 (mod 128), checksum is a 7-bit value
     CorruptRejected  every guarded byte changed to each of the 127 other 7-bit values is rejected
     OnlyBuilt        whatever single byte is overwritten (framing and header too, 8-bit values too): if the parser
                      still accepts, the message is exactly what Build makes of the parsed value (partial inverse). *)
EXTENDS Sysex, TLC
VARIABLES k, v

IdTriples == {<<0, 1, 127>>, <<127, 0, 1>>, <<1, 127, 0>>}                 \* <<manufacturer, device, model>>
AB  == {0, 1, 127}
MaxPay == 3
TcB == {0, 1, 59, 127}
ABThorough == {0, 1, 64, 127}           \* MC_Sysex_thorough.cfg: AB <- ABThorough, MaxPay <- MaxPayThorough
MaxPayThorough == 4
Strings(S, n) == UNION { [1..m -> S] : m \in 1..n }

SxSets(a) == {[man |-> i[1], dev |-> i[2], model |-> i[3], req |-> FALSE, addr |-> a, data |-> p, size |-> SxZero3] :
                i \in IdTriples, p \in Strings(AB, MaxPay)}
SxReqs(a) == {[man |-> i[1], dev |-> i[2], model |-> i[3], req |-> TRUE, addr |-> a, data |-> <<>>, size |-> z] :
                i \in IdTriples, z \in [1..3 -> AB]}
MmcVals(d) == {[dev |-> d, cmd |-> c] : c \in MmcPlain}
LocVals(d) == IF d \in {1, 16, 127} THEN {[dev |-> d, tc |-> t] : t \in [1..5 -> TcB]} ELSE {}

\* two levels only so that TLC's workers share the evaluation: a seed state (an address / a device id) expands
\* into every value with that address / device
Init == \/ k = "seedA" /\ v \in [1..3 -> AB]
        \/ k = "seedD" /\ v \in MmcDevs
Next == \/ k = "seedA" /\ k' = "sx"  /\ v' \in SxSets(v) \cup SxReqs(v)
        \/ k = "seedD" /\ k' = "mmc" /\ v' \in MmcVals(v)
        \/ k = "seedD" /\ k' = "loc" /\ v' \in LocVals(v)

RoundTrip ==
  CASE k = "sx"  -> SxIsValue(v) /\ SxParse(SxBuild(v)) = [ok |-> TRUE, v |-> v]
    [] k = "mmc" -> MmcParse(MmcBuild(v.dev, v.cmd)) = [ok |-> TRUE, dev |-> v.dev, cmd |-> v.cmd]
    [] k = "loc" -> LocIsTc(v.tc) /\ LocParse(LocBuild(v.dev, v.tc)) = [ok |-> TRUE, dev |-> v.dev, tc |-> v.tc]
    [] OTHER -> TRUE

ChecksumZero == k = "sx" =>
  LET b == SxBuild(v) IN
  /\ SxSumZero(b)
  /\ b[Len(b) - 1] \in SxB7
  /\ Len(b) = 10 + Len(SxBody(v))
  /\ (SxSum(v.addr) + SxSum(SxBody(v)) + b[Len(b) - 1]) % 128 = 0

CorruptRejected == k = "sx" =>
  LET b == SxBuild(v) IN
  \A p \in SxGuarded(b) : \A x \in SxB7 \ {b[p]} : ~SxParse([b EXCEPT ![p] = x]).ok

OnlyBuilt == k = "sx" =>
  LET b == SxBuild(v) IN
  \A p \in 1..Len(b) : \A x \in {0, 17, 18, 64, 127, 128, 240, 247, 255} :
     LET c == [b EXCEPT ![p] = x]
         r == SxParse(c)
     IN r.ok => SxIsValue(r.v) /\ SxBuild(r.v) = c

\* the plain-command and locate layouts are distinct: neither parser accepts the other's messages
Disjoint ==
  CASE k = "mmc" -> ~LocParse(MmcBuild(v.dev, v.cmd)).ok
    [] k = "loc" -> ~MmcParse(LocBuild(v.dev, v.tc)).ok
    [] OTHER -> TRUE
=============================================================================
