---------------------------- MODULE Trace_MidicatDrv ----------------------------
(* C19 bound to the real process-backed ports: each trace line holds messages the REAL out port (drivers/midicatdrv/out.go)
   wrote as text lines into the stand-in helper -- the lines verbatim -- and what the REAL in port (in.go, through
   midicat.ReadAndConvert) handed to its listener after the helper pair echoed them.  TLC checks that every line is a line of the
   specification's grammar denoting (0, bytes) and the received records against the messages sent (lossless, one per line). *)
EXTENDS MidicatLine, FiniteSets, TLC, Json, IOUtils
VARIABLES l, bad
Trace == ndJsonDeserialize(IOEnv.VERIF_TRACE)

Judge(e) ==
  \* each line the out port wrote is one LF-terminated line of the grammar denoting (0, message); the case of the hex digits
  \* is left free (C.8): what matters is that it is lossless and self-framing
  LET LineOk(ln, m) == /\ Len(ln) >= 2 /\ ln[Len(ln)] = LF /\ \A i \in 1..(Len(ln) - 1) : ln[i] # LF
                       /\ Denote(SubSeq(ln, 1, Len(ln) - 1), TRUE) = Rec(0, m)
      \* concurrent senders (e.par > 1): the order of the lines is free, but every line is still ONE whole line of the grammar
      \* (no interleaving of two sends) and lines / received records are, as multisets, the messages sent
      Bag(q) == [x \in {q[i] : i \in 1..Len(q)} |-> Cardinality({i \in 1..Len(q) : q[i] = x})]
      Whole(ln) == Len(ln) >= 2 /\ ln[Len(ln)] = LF /\ \A i \in 1..(Len(ln) - 1) : ln[i] # LF
      DenOf(ln) == IF Whole(ln) THEN Denote(SubSeq(ln, 1, Len(ln) - 1), TRUE) ELSE Err
      linesOk == IF e.par > 1
                 THEN /\ Len(e.lines) = Len(e.msgs)
                      /\ Bag([i \in 1..Len(e.lines) |-> DenOf(e.lines[i])]) = Bag([i \in 1..Len(e.msgs) |-> Rec(0, e.msgs[i])])
                 ELSE /\ Len(e.lines) = Len(e.msgs)
                      /\ \A i \in 1..Len(e.msgs) : LineOk(e.lines[i], e.msgs[i])
      backOk  == /\ (IF e.par > 1 THEN Bag(e.got) = Bag(e.msgs) ELSE e.got = e.msgs)
                 /\ \A i \in 1..Len(e.gotts) : e.gotts[i] = 0
  IN [ok |-> e.pan = "" /\ linesOk /\ backOk,
      info |-> [id |-> e.id, linesOk |-> linesOk, backOk |-> backOk, pan |-> e.pan,
                firstBadLine |-> IF e.par > 1 THEN {} ELSE IF Len(e.lines) = Len(e.msgs) THEN {i \in 1..Len(e.msgs) : ~LineOk(e.lines[i], e.msgs[i])} ELSE {0}]]

Init == l = 1 /\ bad = <<>>
Next == \/ /\ l <= Len(Trace)
           /\ LET j == Judge(Trace[l])
              IN bad' = IF j.ok THEN bad ELSE Append(bad, [line |-> l, info |-> j.info])
           /\ l' = l + 1
        \/ /\ l = Len(Trace) + 1
           /\ ndJsonSerialize(IOEnv.VERIF_OUT, <<[consumed |-> Len(Trace)]>> \o bad)
           /\ l' = l + 1 /\ UNCHANGED bad
=============================================================================
