\* quick: 2 tracks x <= 3 events, ticks <<0,0,1>>, channel message / meta / sysex (optional sends)
\* the trace acceptor (Player!Via) as next-state relation: accepts only stable merges
CONSTANTS
  NT = 2
  NE = 3
  MaxNow = 1
  Kinds <- KindsNoB
  TimePats <- Pats3one
  Sels <- SelAll
  PortMaps <- PMmixed
INIT Init
NEXT NextJ
INVARIANTS AllWellFormed SentOk Complete AttrAgrees
CHECK_DEADLOCK FALSE
