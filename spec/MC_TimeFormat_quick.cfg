CONSTANT Thorough = FALSE
INIT Init
NEXT Next
INVARIANTS Word NoteLen Inv Inv2 Keys
CHECK_DEADLOCK FALSE
