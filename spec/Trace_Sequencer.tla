--------------------------- MODULE Trace_Sequencer ---------------------------
(* Trace validation for C20.  One line = one song built through the public API of v2/sequencer on the REAL
   library, exported with ToSMF0 and ToSMF1; the harness only turned the deltas of the returned tracks into
   absolute ticks (running sum; a sum that leaves the 31-bit range is logged as t = -1).  The line is judged
   with Sequencer!ExportOk.  Total: every line is consumed, rejected lines go to VERIF_OUT.

   record: [id, res, bars (Sequencer song), smf0, smf1 : [fmt, div, tracks : <<<<[t, m]>>>>], panic]         *)
EXTENDS Sequencer, TLC, Json, IOUtils
VARIABLES l, bad

Trace == ndJsonDeserialize(IOEnv.VERIF_TRACE)

NoHuge(tracks) == \A i \in 1..Len(tracks) : \A j \in 1..Len(tracks[i]) : tracks[i][j].t >= 0

Judge(e) ==
  IF ~SongInDomain(e.bars, e.res)
    THEN [ok |-> FALSE, info |-> [id |-> e.id, genbug |-> TRUE]]
  ELSE IF e.panic # "" \/ ~NoHuge(e.smf0.tracks) \/ ~NoHuge(e.smf1.tracks)
    THEN [ok |-> FALSE, info |-> [id |-> e.id, genbug |-> FALSE, panic |-> e.panic,
                                  huge0 |-> ~NoHuge(e.smf0.tracks), huge1 |-> ~NoHuge(e.smf1.tracks),
                                  endTick |-> EndTick(e.bars, e.res)]]
  ELSE LET c == Clauses(e.bars, e.res, e.smf0.tracks, e.smf1.tracks)
           div == e.smf0.div = e.res /\ e.smf1.div = e.res       \* a 32nd is resolution/8 ticks OF THE FILE
           ok == div /\ c.single /\ c.multi /\ c.end0 /\ c.end1 /\ c.place0 /\ c.place1 /\ c.same
       IN IF ok THEN [ok |-> TRUE, info |-> [id |-> e.id, genbug |-> FALSE]]
          ELSE LET exp == Expected(e.bars, e.res)
                   a0 == AllItems(e.smf0.tracks)
                   a1 == AllItems(e.smf1.tracks)
                   lastT(tr) == IF Len(tr) = 0 THEN -1 ELSE tr[Len(tr)].t
               IN [ok |-> FALSE,
                   info |-> [id |-> e.id, genbug |-> FALSE, panic |-> "", clauses |-> c, div |-> div,
                             endTick |-> EndTick(e.bars, e.res),
                             ends0 |-> [i \in 1..Len(e.smf0.tracks) |-> lastT(e.smf0.tracks[i])],
                             ends1 |-> [i \in 1..Len(e.smf1.tracks) |-> lastT(e.smf1.tracks[i])],
                             missing0 |-> Missing(exp, a0), surplus0 |-> Missing(a0, exp),
                             missing1 |-> Missing(exp, a1), surplus1 |-> Missing(a1, exp),
                             fmt0 |-> e.smf0.fmt, fmt1 |-> e.smf1.fmt]]

Init == l = 1 /\ bad = <<>>
Next == \/ /\ l <= Len(Trace)
           /\ LET j == Judge(Trace[l])
              IN bad' = IF j.ok THEN bad ELSE Append(bad, [line |-> l, info |-> j.info])
           /\ l' = l + 1
        \/ /\ l = Len(Trace) + 1
           /\ ndJsonSerialize(IOEnv.VERIF_OUT, <<[consumed |-> Len(Trace)]>> \o bad)
           /\ l' = l + 1 /\ UNCHANGED bad
=============================================================================
