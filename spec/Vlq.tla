-------------------------------- MODULE Vlq --------------------------------
(* Variable-length quantities of SMF 1.0.  Numbers that may exceed TLC's 32-bit integers (uint32 delta
   times) are carried as base-128 digit sequences, most significant first, canonical = no leading zero
   digit (<<0>> is zero).                                                                             *)
EXTENDS Integers, Sequences

Huge == -1     \* "a count no finite input can satisfy"

RECURSIVE Strip(_)
Strip(d) == IF Len(d) > 1 /\ d[1] = 0 THEN Strip(Tail(d)) ELSE d

RECURSIVE DigitsOf(_)
DigitsOf(n) == IF n < 128 THEN <<n>> ELSE Append(DigitsOf(n \div 128), n % 128)

\* value of canonical digits when it fits in 28 bits (at most four digits), else Huge
DigitsVal(d) ==
  IF Len(d) > 4 THEN Huge
  ELSE IF Len(d) = 1 THEN d[1]
  ELSE IF Len(d) = 2 THEN d[1] * 128 + d[2]
  ELSE IF Len(d) = 3 THEN (d[1] * 128 + d[2]) * 128 + d[3]
  ELSE ((d[1] * 128 + d[2]) * 128 + d[3]) * 128 + d[4]

\* the encoding: every byte but the last has bit 7 set
VlqBytes(d) == [i \in 1..Len(d) |-> IF i < Len(d) THEN d[i] + 128 ELSE d[i]]
VlqOfInt(n) == VlqBytes(DigitsOf(n))

\* a byte string is a VLQ (one complete quantity, nothing after it)
IsVlq(b) == /\ Len(b) >= 1 /\ b[Len(b)] < 128 /\ \A i \in 1..(Len(b) - 1) : b[i] >= 128
DigitsOfVlq(b) == [i \in 1..Len(b) |-> b[i] % 128]
\* canonical: shortest encoding, at most four bytes (SMF 1.0 maximum 0FFFFFFF)
IsCanonicalVlq(b) == IsVlq(b) /\ Len(b) <= 4 /\ (Len(b) > 1 => b[1] # 128)

\* big-endian fixed-width fields
U16(b) == b[1] * 256 + b[2]
U28(b) == IF b[1] >= 16 THEN Huge ELSE ((b[1] * 256 + b[2]) * 256 + b[3]) * 256 + b[4]
BE32(n) == << n \div 16777216, (n \div 65536) % 256, (n \div 256) % 256, n % 256 >>
BE16(n) == << n \div 256, n % 256 >>
=============================================================================
