------------------------------ MODULE Trace_Smf ------------------------------
(* Trace validation for the SMF file layer (C01 C02 C03 C05 C09 C10).  Each trace line is one complete
   experiment on the REAL library (inputs and everything it returned); it is judged with the
   specification's own operators: Build/Canon (what an API history denotes), Decode (the independent
   SMF 1.0 decoder, also the strict parser through its `canon` flag), Encode (the model writer, advisory).
   Total trace spec: every line is consumed; rejected lines go to VERIF_OUT.                            *)
EXTENDS SmfParse, SmfWrite, TLC, Json, IOUtils
VARIABLES l, bad

Trace == ndJsonDeserialize(IOEnv.VERIF_TRACE)

\* the library's value (record R of the harness) equals a decoded / canonical value
SameValue(r, fmt, div, tracks) ==
  /\ r.kind = "value" /\ r.fmt = fmt /\ r.tf = TimeFormat(div) /\ r.tracks = tracks

\* C05/C09: r is "the original, cut short": same header, every track an event-for-event prefix
PrefixOf(r, p) ==
  /\ r.kind = "value" /\ r.fmt = p.fmt /\ r.tf = TimeFormat(p.div)
  /\ Len(r.tracks) = Len(p.tracks)
  /\ \A i \in 1..Len(r.tracks) : IsPrefix(r.tracks[i], p.tracks[i])

\* memory: proportional to the input (KiB); generous constants, see DESIGN C05
AllocOk(allocKiB, len) == allocKiB <= len + 8192

JudgeWr(e) ==
  LET b == Build(e.hist)
      c == Canon(b)
      p == Decode(e.bytes)
      modelBytes == Encode(c, b.nrs)
      c01 == e.werr = "" /\ SameValue(e.read, c.fmt, c.div, c.tracks)
      c03 == /\ e.werr = "" /\ e.size = Len(e.bytes) /\ e.again
             /\ e.file = "same"        \* WriteFile onto an existing longer file leaves exactly these bytes (no trailing bytes)
             /\ p.kind = "value" /\ p.canon
             /\ p.fmt = c.fmt /\ p.div = c.div /\ p.tracks = c.tracks
  IN [ok |-> IF e.judge = "c01" THEN c01 ELSE c03,
      info |-> [id |-> e.id, ev |-> "wr", judge |-> e.judge, werr |-> e.werr, read |-> e.read.kind, readmsg |-> e.read.msg,
                parse |-> IF p.kind = "value" THEN "value" ELSE p.err,
                canon |-> IF p.kind = "value" THEN p.canon ELSE FALSE,
                bytesAsModel |-> e.bytes = modelBytes, file |-> e.file, sizeOk |-> e.size = Len(e.bytes), again |-> e.again,
                expectFmt |-> c.fmt, expectDiv |-> c.div, expectTracks |-> Len(c.tracks)]]

JudgeRd(e) ==
  LET p == Decode(e.bytes) IN
  IF p.kind # "value"
    THEN [ok |-> FALSE, info |-> [id |-> e.id, ev |-> "rd", genbug |-> TRUE, parse |-> p.err]]
    ELSE [ok |-> SameValue(e.read, p.fmt, p.div, p.tracks),
          info |-> [id |-> e.id, ev |-> "rd", genbug |-> FALSE, read |-> e.read.kind, readmsg |-> e.read.msg,
                    fmt |-> p.fmt, div |-> p.div, ntracks |-> Len(p.tracks),
                    firstBadTrack |-> IF e.read.kind = "value" /\ Len(e.read.tracks) = Len(p.tracks)
                                      THEN {i \in 1..Len(p.tracks) : e.read.tracks[i] # p.tracks[i]} ELSE {0}]]

CutOk(c, p, baseOk) ==
  /\ c.kind \in {"error", "value"}
  /\ AllocOk(c.alloc, c.k)
  /\ c.kind = "value" =>
       IF c.val.kind = "value" THEN PrefixOf(c.val, p) ELSE baseOk /\ c.hdr /\ c.pre

\* the track-level entry points (ReadTracksFrom / ReadTracks + Do) on the same bytes: they may succeed or report an error,
\* they may not panic or hang ("n/a": no temporary file could be made)
TrClean(x) == x \in {"ok", "error", "n/a"}
JudgeCut(e) ==
  LET p == Decode(e.bytes) IN
  IF p.kind # "value"
    THEN [ok |-> FALSE, info |-> [id |-> e.id, ev |-> "cut", genbug |-> TRUE, parse |-> p.err]]
    ELSE LET baseOk == SameValue(e.base, p.fmt, p.div, p.tracks)
             badc == SelectSeq(e.cuts, LAMBDA c : ~CutOk(c, p, baseOk))
         IN [ok |-> badc = <<>> /\ TrClean(e.tr) /\ TrClean(e.trfile),
             info |-> [id |-> e.id, ev |-> "cut", genbug |-> FALSE, baseOk |-> baseOk, nbad |-> Len(badc), tr |-> e.tr, trfile |-> e.trfile,
                       first |-> IF badc = <<>> THEN <<>> ELSE
                                 <<[k |-> badc[1].k, kind |-> badc[1].kind, msg |-> badc[1].msg, alloc |-> badc[1].alloc,
                                    hdr |-> badc[1].hdr, pre |-> badc[1].pre, counts |-> badc[1].counts]>>]]

JudgeAny(e) ==
  [ok |-> e.kind \in {"error", "value"} /\ AllocOk(e.alloc, e.len) /\ TrClean(e.tr) /\ TrClean(e.trfile),
   info |-> [id |-> e.id, ev |-> "any", kind |-> e.kind, msg |-> e.msg, alloc |-> e.alloc, len |-> e.len, src |-> e.src,
             tr |-> e.tr, trfile |-> e.trfile]]

JudgeSched(e) ==
  LET badr == SelectSeq(e.runs, LAMBDA r : ~r.same) IN
  [ok |-> badr = <<>>,
   info |-> [id |-> e.id, ev |-> "sched", cut |-> e.cut, base |-> e.base.kind, basemsg |-> e.base.msg,
             bad |-> [i \in 1..Len(badr) |-> [sched |-> badr[i].sched, kind |-> badr[i].val.kind, msg |-> badr[i].val.msg]]]]

\* fault modes: "short" / "next" fail for good at offset k; "once" fails exactly one write and then recovers -- still an error
JudgeWFault(e) ==
  \* f.retry: the same SMF value written once more, to a healthy destination, right after the failed write: if that
  \* returns nil the size is the number of bytes written and the bytes are those of the unfaulted write ("err": not judged)
  LET badf == SelectSeq(e.faults, LAMBDA f : ~(f.pan = "" /\ (f.k < e.total => f.err) /\ (~f.err => f.size = f.got)
                                               /\ f.retry \in {"ok", "err"}))
      \* judge "c03": only C03's size clause -- the reported size is the number of bytes emitted, whether or not the write fails
      bads == SelectSeq(e.faults, LAMBDA f : ~(f.pan = "" /\ f.size = f.got)) IN
  IF e.judge = "c03"
  THEN [ok |-> bads = <<>> /\ e.oksize = e.total,
        info |-> [id |-> e.id, ev |-> "wfault", total |-> e.total, okerr |-> e.okerr, oksize |-> e.oksize, nbad |-> Len(bads), devfull |-> e.devfull,
                  first |-> IF bads = <<>> THEN <<>> ELSE <<bads[1]>>]]
  ELSE
  [ok |-> ~e.okerr /\ e.oksize = e.total /\ badf = <<>> /\ e.devfull \in {"err", "n/a"},
   info |-> [id |-> e.id, ev |-> "wfault", total |-> e.total, okerr |-> e.okerr, oksize |-> e.oksize, nbad |-> Len(badf), devfull |-> e.devfull,
             first |-> IF badf = <<>> THEN <<>> ELSE <<badf[1]>>]]

JudgeRFault(e) ==
  LET s == Run(e.bytes)
      p == Result(s) IN
  IF p.kind # "value"
    THEN [ok |-> FALSE, info |-> [id |-> e.id, ev |-> "rfault", genbug |-> TRUE, parse |-> p.err]]
    ELSE LET need == s.tend       \* the reader cannot know the content without every byte up to the end of the last track
             badf == SelectSeq(e.faults, LAMBDA f : ~(f.kind \in {"error", "value"} /\ (f.k < need => f.kind = "error")))
         IN [ok |-> badf = <<>>,
             info |-> [id |-> e.id, ev |-> "rfault", genbug |-> FALSE, need |-> need, nbad |-> Len(badf),
                       first |-> IF badf = <<>> THEN <<>> ELSE <<badf[1]>>]]

Judge(e) == CASE e.ev = "wr" -> JudgeWr(e)
              [] e.ev = "rd" -> JudgeRd(e)
              [] e.ev = "cut" -> JudgeCut(e)
              [] e.ev = "any" -> JudgeAny(e)
              [] e.ev = "sched" -> JudgeSched(e)
              [] e.ev = "wfault" -> JudgeWFault(e)
              [] e.ev = "rfault" -> JudgeRFault(e)

Init == l = 1 /\ bad = <<>>
Next == \/ /\ l <= Len(Trace)
           /\ LET j == Judge(Trace[l])
              IN bad' = IF j.ok THEN bad ELSE Append(bad, [line |-> l, info |-> j.info])
           /\ l' = l + 1
        \/ /\ l = Len(Trace) + 1
           /\ ndJsonSerialize(IOEnv.VERIF_OUT, <<[consumed |-> Len(Trace)]>> \o bad)
           /\ l' = l + 1 /\ UNCHANGED bad
=============================================================================
