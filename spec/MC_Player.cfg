\* quick: <= 3 tracks x <= 2 events, ticks <<0,0>> / <<1,1>> per track, the same channel message everywhere, meta
\* atomic Player actions + ghost acceptor: stable merge, exactly once, no meta, no deadlock, acceptor complete
CONSTANTS
  NT = 3
  NE = 2
  MaxNow = 1
  Kinds <- KindsAM
  TimePats <- Pats3q
  Sels <- SelAll
  PortMaps <- PMmixed
INIT Init
NEXT Next
INVARIANTS AllWellFormed SentOk Complete AcceptorComplete AttrAgrees AttrAccepts
CHECK_DEADLOCK TRUE
