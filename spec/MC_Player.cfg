\* quick: <= 3 tracks x <= 2 events, three tick patterns, identical channel messages in all tracks
\* atomic Player actions + ghost acceptor: stable merge, exactly once, no meta, no deadlock, acceptor complete
CONSTANTS
  NT = 3
  NE = 2
  MaxNow = 1
  Kinds <- KindsNoB
  TimePats <- Pats3
  Sels <- SelAll
  PortMaps <- PMmixed
INIT Init
NEXT Next
INVARIANTS AllWellFormed SentOk Complete AcceptorComplete
CHECK_DEADLOCK TRUE
