-------------------------------- MODULE KeySig --------------------------------
(* X06 (extension), part 2: key signatures of package smf (smf/key.go: type Key, Key.String, the constructor
   functions CMaj() ... EbMin(); smf/meta.go: MetaKey; smf/message.go: GetMetaKeySig, GetMetaKey).
   Written from SMF 1.0 (meta event FF 59 02 sf mi: sf = -7..7 = number of flats (negative) / sharps, two's
   complement; mi = 0 major, 1 minor) and from music theory -- not from the Go tables.

   Music theory.  The LINE OF FIFTHS orders the note names so that each is a perfect fifth (7 semitones) above its
   left neighbour:
        ... Fb Cb Gb Db Ab Eb Bb  F  C  G  D  A  E  B  F# C# G# D# A# E# B# ...
   position                   -2 -1  0  1  2  3  4  5  6  7 ...
   Seven steps to the right add a sharp to the same letter, seven to the left a flat.  The major key with sf
   accidentals in its signature has its tonic at position sf (G major: one sharp; F major: one flat); its relative
   minor, which shares the signature, lies a minor third below = three fifths to the right (A minor for C major).
   The pitch class of a name is that of its letter (C D E F G A B = 0 2 4 5 7 9 11) plus one per sharp, minus one
   per flat; stacking fifths gives the same number, 7 * position mod 12 (MC_TimeFormat checks that the two agree).

   THE PROPERTY
   K1 every constructor function named after a key (letter, "sharp" / "b", "Maj" / "Min": the library's spelling)
      returns exactly FF 59 02 sf mi with the (sf, mi) of that key; GetMetaKey of it gives Key{tonic pitch class,
      |sf|, mi = 0, sf < 0} and Key.String() gives the constructor's name back.
   K2 MetaKey(key, isMajor, num, isFlat) with num in 0..7 emits FF 59 02 (+-num) (0|1); GetMetaKeySig / GetMetaKey
      of that message return the tonic of the circle of fifths, num, isMajor, and isFlat (FALSE when num = 0: minus
      zero does not exist).  So the two are mutually inverse on the valid domain key = tonic(num, isFlat, isMajor).
      Both accessors also answer TRUE when called with nil pointers (documented: only non-nil arguments are filled).
   K3 GetMetaKeySig of any FF 59 02 sf mi with sf in -7..7, mi in 0..1 succeeds with these values (7 sharps: C# major /
      A# minor, 7 flats: Cb major (pitch class 11) / Ab minor, none: C major / A minor).  For signatures of up to six
      accidentals Key.String() is the name of the key; for seven the library has no name and nothing is demanded.
   Outside these domains (num > 7, mi > 1) nothing is demanded except that no call panics.                       *)
EXTENDS Integers, Sequences

KsLetters == <<"F", "C", "G", "D", "A", "E", "B">>                 \* the naturals along the line of fifths
KsNatural(l) == CASE l = "C" -> 0 [] l = "D" -> 2 [] l = "E" -> 4 [] l = "F" -> 5 [] l = "G" -> 7 [] l = "A" -> 9 [] l = "B" -> 11
KsMod(a, m) == ((a % m) + m) % m                                   \* result in 0..m-1 whatever the sign of a
KsFloorDiv7(a) == (a - KsMod(a, 7)) \div 7
\* position p on the line of fifths (C = 0)
KsLetterAt(p) == KsLetters[KsMod(p + 1, 7) + 1]
KsAccAt(p) == KsFloorDiv7(p + 1)                                   \* number of sharps (> 0) / flats (< 0) of the NAME
KsPitchAt(p) == KsMod(KsNatural(KsLetterAt(p)) + KsAccAt(p), 12)
KsPitchByFifths(p) == KsMod(7 * p, 12)

KsSfs == -7..7
KsModes == 0..1
KsPos(sf, mi) == sf + 3 * mi                                       \* tonic of the key with signature sf and mode mi
KsTonic(sf, mi) == KsPitchAt(KsPos(sf, mi))
\* the library's spelling of key names
KsAccText(a) == IF a = 0 THEN "" ELSE IF a = 1 THEN "sharp" ELSE IF a = -1 THEN "b" ELSE "?"
KsName(sf, mi) == KsLetterAt(KsPos(sf, mi)) \o KsAccText(KsAccAt(KsPos(sf, mi))) \o (IF mi = 0 THEN "Maj" ELSE "Min")
KsAllNames == {KsName(sf, mi) : sf \in KsSfs, mi \in KsModes}
KsNamed(name) == CHOOSE k \in KsSfs \X KsModes : KsName(k[1], k[2]) = name
KsHasLibName(sf) == sf \in -6..6                                   \* the library names keys of up to six accidentals

\* the meta event
KsByte(sf) == KsMod(sf, 256)                                       \* two's complement
KsMsg(sf, mi) == <<255, 89, 2, KsByte(sf), mi>>
KsSfOf(num, flat) == IF flat THEN -num ELSE num
\* what the accessors have to report for the signature (sf, mi)
KsKey(sf, mi) == [key |-> KsTonic(sf, mi), num |-> IF sf < 0 THEN -sf ELSE sf, major |-> mi = 0, flat |-> sf < 0]
=============================================================================
