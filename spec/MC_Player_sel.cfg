\* quick: every selection x every port map (with/without the -1 default, unmapped tracks, foreign keys, empty map)
\* atomic Player actions + ghost acceptor: stable merge, exactly once, no meta, no deadlock, acceptor complete
CONSTANTS
  NT = 3
  NE = 1
  MaxNow = 1
  Kinds <- KindsNoB
  TimePats <- Pats3
  Sels <- SelsAll
  PortMaps <- PMall
INIT Init
NEXT Next
INVARIANTS AllWellFormed SentOk Complete AcceptorComplete AttrAgrees AttrAccepts
CHECK_DEADLOCK TRUE
