CONSTANTS
  defaultInitValue = 0
  Fixed = FALSE
  MaxCalls = 4
  MaxLines = 2
SPECIFICATION Spec
INVARIANTS RefinesMonitor MutexOk NoCallbackAfterStop NoCallbackRunningAfterStop NoDeadlockWhileCalling
CHECK_DEADLOCK FALSE
