INIT Init
NEXT Next
INVARIANTS RoundTrip ChecksumZero CorruptRejected OnlyBuilt Disjoint
CHECK_DEADLOCK FALSE
