--------------------------- MODULE Export_MidiTables ---------------------------
(* TLC evaluates the specification's operators over the abstract key spaces the answers depend on and writes
   the rows as JSON (binding X): per-argument clamp tables, pitch-bend and SPP encodings, category table,
   accessor -> type table.  The Go sweeps look answers up here; the few lines of composition glue are re-validated
   by TLC on concrete sampled calls in every run (Trace_Msg).                                                   *)
EXTENDS MidiMessage, TLC, Json, IOUtils
VARIABLE x
Tables ==
  [chan  |-> [c \in 0..255 |-> Ch(c)],
   data  |-> [d \in 0..255 |-> C7(d)],
   pitch |-> [i \in 0..65535 |-> Tail(Ctor("Pitchbend", <<0, i - 32768>>))],
   spp   |-> [i \in 0..16383 |-> Tail(Ctor("SPP", <<i>>))],
   status |-> [NoteOn |-> 144, NoteOffVelocity |-> 128, NoteOff |-> 128, PolyAfterTouch |-> 160, ControlChange |-> 176,
               ProgramChange |-> 192, AfterTouch |-> 208, Pitchbend |-> 224, SPP |-> 242, MTC |-> 241, SongSelect |-> 243, Tune |-> 246],
   cats  |-> [lvl \in {"midi", "smf"} |-> [b \in 0..255 |-> AllowedCats(lvl, b)]],
   acctype |-> AccType]
Init == x = 0 /\ JsonSerialize(IOEnv.VERIF_OUT, Tables)
Next == UNCHANGED x
=============================================================================
