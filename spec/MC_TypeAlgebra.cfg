INIT Init
NEXT Next
INVARIANTS Partition Reflexive TwoCheckers Separated OneOfOk RtTable CtorTypes
CHECK_DEADLOCK FALSE
