CONSTANTS
  Alphabet = {0, 64, 127, 128, 144, 145, 160, 176, 192, 208, 224, 240, 241, 242, 243, 244, 245, 246, 247, 248, 250, 254}
  Caps = {3}
INIT Init
NEXT Next
INVARIANTS OutWellFormed
CHECK_DEADLOCK FALSE
