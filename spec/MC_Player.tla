----------------------------- MODULE MC_Player -----------------------------
(* Model checking of spec/Player.tla (C12) over all small plays: up to NT tracks x up to NE events, kinds of
   events {channel message a, channel message b, meta, sysex}, scheduled times from TimePats (prefixes of e.g.
   <<0,0,1>>: several events per tick), selections and port maps with/without the -1 default.
   The SAME channel message may occur in several tracks and several times in one track, so the observer
   (ports only) cannot tell the tracks apart.

   Two behaviour specs over the same state:
   * Next  (MC_Player.cfg): the atomic Player actions Skip / Send with a clock.  Invariants: every behaviour is
     a stable merge (SentOk), no deadlock before everything is consumed.  A ghost variable `acc` runs the
     trace acceptor (Player!Succ, the operator Trace_Player binds the real code with) on the sends of the
     behaviour: AcceptorComplete = the acceptor accepts EVERY behaviour of the Player (no false alarm by
     construction of the inference, incl. identical messages in several tracks).
   * NextJ (MC_PlayerJudge.cfg): the composite step Player!Via itself as next-state relation, any attribution
     (track, index) the acceptor may infer, any observation time.  The same SentOk holds and Finished states
     have sent every channel message: the acceptor accepts ONLY stable merges (no missed violation).       *)
EXTENDS Player, TLC

CONSTANTS NT, NE, MaxNow, Kinds, TimePats, Sels, PortMaps
VARIABLES P, cur, sent, now, acc
vars == <<P, cur, sent, now, acc>>

Bytes(k) == CASE k = "a" -> <<144, 60, 100>>
              [] k = "b" -> <<128, 60, 0>>
              [] k = "meta" -> <<255, 1, 1, 65>>
              [] k = "sysex" -> <<240, 1, 247>>

\* values for the cfg files
KindsAll   == {"a", "b", "meta", "sysex"}
KindsNoB   == {"a", "meta", "sysex"}
KindsAM    == {"a", "meta"}
Pats3      == {<<0, 0, 1>>, <<0, 1, 1>>, <<1, 1, 1>>}
Pats3q     == {<<0, 0, 1>>, <<1, 1, 1>>}
Pats3one   == {<<0, 0, 1>>}
Pats4      == {<<0, 0, 1, 1>>, <<0, 1, 1, 1>>, <<0, 0, 0, 1>>}
Pats4q     == {<<0, 0, 1, 1>>}
SelAll     == {{}}
SelsAll    == {{}, {0}, {0, 2}, {1, 7}}
PMmixed    == {<<[tr |-> 0, port |-> 1], [tr |-> 1, port |-> 2], [tr |-> 2, port |-> 1]>>}
PMall      == {<<[tr |-> -1, port |-> 9]>>,
               <<[tr |-> 0, port |-> 1], [tr |-> 1, port |-> 2], [tr |-> 2, port |-> 1]>>,
               <<[tr |-> 1, port |-> 2], [tr |-> -1, port |-> 9]>>,
               <<[tr |-> 1, port |-> 2], [tr |-> 5, port |-> 3]>>,
               <<>>}

Shapes == UNION {{[k \in 1..n |-> [us |-> pat[k], m |-> Bytes(ks[k])]] : ks \in [1..n -> Kinds], pat \in TimePats} : n \in 0..NE}
Plays  == {[tracks |-> ts, sel |-> s, ports |-> pm] :
             ts \in UNION {[1..n -> Shapes] : n \in 1..NT}, s \in Sels, pm \in PortMaps}

Ev(x) == P.tracks[x.i][x.p]

Init == /\ P \in Plays
        /\ cur = Start(P) /\ sent = <<>> /\ now = 0 /\ acc = {Start(P)}

Tick    == now < MaxNow /\ now' = now + 1 /\ UNCHANGED <<P, cur, sent, acc>>
Skip(i) == CanSkip(P, cur, i) /\ cur' = Advance(cur, i) /\ UNCHANGED <<P, sent, now, acc>>
Send(i) == /\ CanSend(P, cur, i)
           /\ now >= HeadEv(P, cur, i).us                     \* never before the scheduled time
           /\ LET o == [port |-> PortOf(P, i), m |-> HeadEv(P, cur, i).m, at |-> now]
              IN /\ sent' = Append(sent, [i |-> i, p |-> cur[i], port |-> o.port, at |-> now])
                 /\ acc'  = UNION {Succ(P, Active(P), c, o) : c \in acc}
           /\ cur' = Advance(cur, i)
           /\ UNCHANGED <<P, now>>
Rest    == AllDone(P, cur) /\ now = MaxNow /\ UNCHANGED vars
Next    == Tick \/ Rest \/ \E i \in 1..NTracks(P) : Skip(i) \/ Send(i)

\* the acceptor as a behaviour spec: any attribution it can infer
NextJ == \/ \E i \in 1..NTracks(P) : \E p \in 1..Len(P.tracks[i]) : \E t \in now..MaxNow :
              LET o == [port |-> PortOf(P, i), m |-> P.tracks[i][p].m, at |-> t]
                  v == Via(P, Active(P), cur, i, p, o)
              IN /\ v # <<>>
                 /\ cur' = v[1] /\ now' = t
                 /\ sent' = Append(sent, [i |-> i, p |-> p, port |-> o.port, at |-> t])
                 /\ UNCHANGED <<P, acc>>
         \/ UNCHANGED vars

\* ---- the property, on the sequence of sends with their (ghost) attribution ----
SentOk ==
  /\ \A k \in 1..Len(sent) :
       /\ sent[k].i \in Active(P)                                   \* only selected tracks that have a port
       /\ Class(Ev(sent[k]).m) # "meta"                             \* no meta event ever
       /\ sent[k].port = PortOf(P, sent[k].i)                       \* on the port mapped to the track
       /\ sent[k].at >= Ev(sent[k]).us                              \* never early
  /\ \A k, l \in 1..Len(sent) : k < l =>
       /\ Ev(sent[k]).us <= Ev(sent[l]).us                          \* merged by non-decreasing time
       /\ sent[k].i = sent[l].i => sent[k].p < sent[l].p            \* file order inside a track; at most once
  /\ \A i \in Active(P) : \A p \in 1..(cur[i] - 1) :               \* nothing playable is passed over
       Class(P.tracks[i][p].m) = "chan" => \E k \in 1..Len(sent) : sent[k].i = i /\ sent[k].p = p

\* terminal states: every channel message of every active track has left exactly once
Complete == (AllDone(P, cur) \/ Finished(P, cur)) =>
              \A i \in Active(P) : \A p \in 1..Len(P.tracks[i]) :
                 Class(P.tracks[i][p].m) = "chan" => Cardinality({k \in 1..Len(sent) : sent[k].i = i /\ sent[k].p = p}) = 1

AcceptorComplete == acc # {} /\ (AllDone(P, cur) => \E c \in acc : Finished(P, c))

\* ---- the attributed judgement (Player!AttrLin, used by Trace_PlayerBig on plays with distinguishable messages) agrees
\* with the text of the property (Player!AttrQuad) on the sends of every behaviour, complete or not, and on corrupted
\* copies: two neighbours swapped, one send dropped, one doubled, one attributed to the event after it, one made early
Obs(k) == [i |-> sent[k].i, p |-> sent[k].p, port |-> sent[k].port, m |-> Ev(sent[k]).m, at |-> sent[k].at]
ObsSeq == [k \in 1..Len(sent) |-> Obs(k)]
Corrupted(s) ==
  {s} \cup {[s EXCEPT ![k] = s[k + 1], ![k + 1] = s[k]] : k \in 1..(Len(s) - 1)}
      \cup {SubSeq(s, 1, k - 1) \o SubSeq(s, k + 1, Len(s)) : k \in 1..Len(s)}
      \cup {SubSeq(s, 1, k) \o SubSeq(s, k, Len(s)) : k \in 1..Len(s)}
      \cup {[s EXCEPT ![k].p = @ + 1] : k \in 1..Len(s)}
      \cup {[s EXCEPT ![k].at = @ - 1] : k \in 1..Len(s)}
      \cup {[s EXCEPT ![k].port = @ + 1] : k \in 1..Len(s)}
AttrAgrees == \A s \in Corrupted(ObsSeq) : AttrLin(P, s) = AttrQuad(P, s)
\* ... and a finished behaviour of the player satisfies it (so the binding raises no alarm on a correct play)
AttrAccepts == AllDone(P, cur) => AttrLin(P, ObsSeq)

AllWellFormed == WellFormed(P)
=============================================================================
