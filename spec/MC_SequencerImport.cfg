CONSTANTS
  XMaxBars = 3
  XSigs <- XSigSet
  XResolutions <- XResOne
INIT Init
NEXT Next
CHECK_DEADLOCK FALSE
INVARIANT RefOkInv
INVARIANT MutTrailInv
INVARIANT MutLineInv
INVARIANT MutTrkInv
INVARIANT MutDurInv
INVARIANT FreedomUsedInv
