----------------------------- MODULE Sequencer -----------------------------
(* C20 -- what exporting a bar sequencer song to a MIDI file must produce.  Written from the property text:

     * every bar starts where the previous one ends; a bar of signature num/den is num*32/den thirty-second
       notes long (for every signature whose bar fits in 255 thirty-second notes);
     * a thirty-second note is resolution/8 ticks (resolution divisible by 8);
     * every event sits at  bar start + position;  every note is ended  duration  later;
     * a time-signature event is emitted at the start of every bar whose signature differs from the running
       one, the running one being 4/4 before the first bar;
     * every track is terminated at the end of the last bar;
     * the single-track and the multi-track export contain the same channel messages and time-signature
       events at the same absolute ticks.

   A song is  [bars |-> <<[num, den, evs |-> <<[trk, pos, dur, msg]>>]>>]   (pos, dur in 32nds; msg = bytes).
   An exported track is a sequence of [t |-> absolute tick, m |-> message bytes].

   Free (the property does not fix it, so the specification does not either): the order of events on one
   tick, which track of the multi-track export carries which event, whether a note is ended by NoteOff (any
   velocity) or by NoteOn velocity 0, the two metronome bytes of a time-signature event, time-signature events
   that merely restate the running signature at a bar start, all other meta events (texts, names), the format
   number in the header.

   Arithmetic: at most 40 bars * 255 thirty-seconds * (32760/8 = 4095 ticks) = 41 769 000 < 2^31, and a note
   may not end after the song, so every tick computed here stays far below TLC's 32-bit limit.            *)
EXTENDS Integers, Sequences, SequencesExt, FiniteSets

\* ---- the grid -----------------------------------------------------------------------------------------
BarLen32(num, den) == (num * 32) \div den          \* exact for den in {1,2,4,8,16,32}
Ticks32(res) == res \div 8

Denoms == {1, 2, 4, 8, 16, 32}
SigInDomain(num, den) == num \in 1..24 /\ den \in Denoms /\ BarLen32(num, den) \in 1..255
ResInDomain(res) == res \in 8..32767 /\ res % 8 = 0

\* start of every bar in 32nds, plus one more entry: the end of the last bar.   Len = number of bars + 1
BarStarts32(bars) ==
  FoldLeft(LAMBDA acc, b : Append(acc, acc[Len(acc)] + BarLen32(b.num, b.den)), <<0>>, bars)

SongLen32(bars) == LET s == BarStarts32(bars) IN s[Len(s)]
BarStartTick(bars, res, i) == BarStarts32(bars)[i] * Ticks32(res)
EndTick(bars, res) == SongLen32(bars) * Ticks32(res)

EventTick(start32, ev, res) == (start32 + ev.pos) * Ticks32(res)
NoteOffTick(start32, ev, res) == (start32 + ev.pos + ev.dur) * Ticks32(res)

\* ---- messages -----------------------------------------------------------------------------------------
IsChanMsg(m) == Len(m) \in 2..3 /\ m[1] \in 128..239
IsNoteOn(m) == Len(m) = 3 /\ m[1] \in 144..159 /\ m[3] > 0
IsNoteEnd(m) == Len(m) = 3 /\ (m[1] \in 128..143 \/ (m[1] \in 144..159 /\ m[3] = 0))
IsTimeSig(m) == Len(m) = 7 /\ m[1] = 255 /\ m[2] = 88 /\ m[3] = 4
IsEOT(m) == m = <<255, 47, 0>>
Log2(den) == CASE den = 1 -> 0 [] den = 2 -> 1 [] den = 4 -> 2 [] den = 8 -> 3 [] den = 16 -> 4 [] den = 32 -> 5
               [] OTHER -> -1

\* what the property looks at, one uniform record per event
ItemOff(t, ch, key) == [t |-> t, k |-> "off", a |-> ch, b |-> key, m |-> <<>>]
ItemSig(t, num, ld) == [t |-> t, k |-> "sig", a |-> num, b |-> ld, m |-> <<>>]
ItemMsg(t, m)       == [t |-> t, k |-> "msg", a |-> 0, b |-> 0, m |-> m]

Relevant(m) == IsChanMsg(m) \/ IsTimeSig(m)
Item(e) == IF IsNoteEnd(e.m) THEN ItemOff(e.t, e.m[1] % 16, e.m[2])
           ELSE IF IsTimeSig(e.m) THEN ItemSig(e.t, e.m[4], e.m[5])
           ELSE ItemMsg(e.t, e.m)
Items(track) == LET r == SelectSeq(track, LAMBDA e : Relevant(e.m)) IN [i \in 1..Len(r) |-> Item(r[i])]
AllItems(tracks) == FlattenSeq([i \in 1..Len(tracks) |-> Items(tracks[i])])

\* ---- what the song denotes ----------------------------------------------------------------------------
EventItems(start32, ev, res) ==
  <<ItemMsg(EventTick(start32, ev, res), ev.msg)>> \o
  (IF IsNoteOn(ev.msg) THEN <<ItemOff(NoteOffTick(start32, ev, res), ev.msg[1] % 16, ev.msg[2])>> ELSE <<>>)

BarItems(start32, bar, res) == FlattenSeq([j \in 1..Len(bar.evs) |-> EventItems(start32, bar.evs[j], res)])

ExpectedEvents(bars, res) ==
  LET s == BarStarts32(bars) IN FlattenSeq([i \in 1..Len(bars) |-> BarItems(s[i], bars[i], res)])

SigBefore(bars, i) == IF i = 1 THEN <<4, 4>> ELSE <<bars[i - 1].num, bars[i - 1].den>>
SigChanges(bars) == SelectSeq([i \in 1..Len(bars) |-> i], LAMBDA i : <<bars[i].num, bars[i].den>> # SigBefore(bars, i))
ExpectedSigs(bars, res) ==
  LET s == BarStarts32(bars)  c == SigChanges(bars)
  IN [k \in 1..Len(c) |-> ItemSig(s[c[k]] * Ticks32(res), bars[c[k]].num, Log2(bars[c[k]].den))]

Expected(bars, res) == ExpectedSigs(bars, res) \o ExpectedEvents(bars, res)

\* "Emits a time-signature event wherever the signature changes" does not forbid restating, at the start of a
\* bar, the signature that is running there anyway: such an event is left out of the comparison with Expected
\* (it still takes part in the comparison of the two exports with each other).
Essential(bars, res, items) ==
  LET s == BarStarts32(bars)
      restated(it) == /\ it.k = "sig"
                      /\ \E i \in 1..Len(bars) : /\ <<bars[i].num, bars[i].den>> = SigBefore(bars, i)
                                                 /\ it.t = s[i] * Ticks32(res)
                                                 /\ it.a = bars[i].num /\ it.b = Log2(bars[i].den)
  IN SelectSeq(items, LAMBDA it : ~restated(it))

\* ---- the domain of the property -----------------------------------------------------------------------
EventInDomain(ev, barlen, start32, total32) ==
  /\ ev.trk \in 0..7
  /\ ev.pos \in 0..(barlen - 1)
  /\ IsChanMsg(ev.msg) /\ ~IsNoteEnd(ev.msg)
  /\ \A i \in 2..Len(ev.msg) : ev.msg[i] \in 0..127
  /\ (Len(ev.msg) = 2) = (ev.msg[1] \in 192..223)
  /\ IF IsNoteOn(ev.msg) THEN ev.dur \in 1..255 /\ start32 + ev.pos + ev.dur <= total32 ELSE ev.dur = 0

SongInDomain(bars, res) ==
  /\ ResInDomain(res)
  /\ Len(bars) \in 1..40
  /\ \A i \in 1..Len(bars) : SigInDomain(bars[i].num, bars[i].den)
  /\ LET s == BarStarts32(bars) IN
     \A i \in 1..Len(bars) : \A j \in 1..Len(bars[i].evs) :
        EventInDomain(bars[i].evs[j], BarLen32(bars[i].num, bars[i].den), s[i], s[Len(s)])

\* ---- the property, clause by clause -------------------------------------------------------------------
Count(seq, x) == Cardinality({i \in 1..Len(seq) : seq[i] = x})
BagEq(A, B) == Len(A) = Len(B) /\ \A x \in Range(A) : Count(A, x) = Count(B, x)

\* every track is terminated at the end of the last bar
TrackEndsAt(track, end) ==
  /\ Len(track) > 0 /\ IsEOT(track[Len(track)].m) /\ track[Len(track)].t = end
  /\ \A i \in 1..(Len(track) - 1) : ~IsEOT(track[i].m)
AllEndAt(tracks, end) == \A i \in 1..Len(tracks) : TrackEndsAt(tracks[i], end)

Clauses(bars, res, t0, t1) ==
  LET exp == Expected(bars, res)
      end == EndTick(bars, res)
      a0 == AllItems(t0)
      a1 == AllItems(t1)
  IN [single |-> Len(t0) = 1,
      multi  |-> Len(t1) >= 1,
      end0   |-> AllEndAt(t0, end),
      end1   |-> AllEndAt(t1, end),
      place0 |-> BagEq(exp, Essential(bars, res, a0)),           \* bars end to end, bar length, event / note-off / signature ticks
      place1 |-> BagEq(exp, Essential(bars, res, a1)),
      same   |-> BagEq(a0, a1)]            \* SMF0 and SMF1: same channel messages and signatures at the same ticks

ExportOk(bars, res, t0, t1) ==
  LET c == Clauses(bars, res, t0, t1)
  IN c.single /\ c.multi /\ c.end0 /\ c.end1 /\ c.place0 /\ c.place1 /\ c.same

\* diagnostics: what is missing from / surplus in an export (first few)
Missing(A, B) == LET r == SelectSeq(A, LAMBDA x : Count(A, x) > Count(B, x)) IN SubSeq(r, 1, IF Len(r) < 3 THEN Len(r) ELSE 3)
=============================================================================
