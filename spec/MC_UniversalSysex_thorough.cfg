INIT Init
NEXT Next
CONSTANTS
  TcB <- TcBThorough
  CmdB <- CmdBThorough
INVARIANTS TypeOK DomainExact CanonAccepted AcceptSound StdClass Recover Payload GmWell GmReaches
CHECK_DEADLOCK FALSE
