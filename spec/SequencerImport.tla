-------------------------- MODULE SequencerImport --------------------------
(* X01 (extension) -- importing an exported song gives the song back.

   Property (stated for the package v2/sequencer from its API: Song/AddBar/ToSMF0/ToSMF1 build a MIDI file from
   bars, FromSMF builds bars from a MIDI file; smfimport.go: "create the bars and their abspos", "add events to
   the bars"; smfimport_test.go / song_test.go: bars are recovered from the time-signature events and the end of
   the tracks, an event on a bar line belongs to the bar that starts there, a note becomes ONE event whose
   Duration is the distance to its note end in 32nds):

     For every song in the domain of C20 (Sequencer!SongInDomain: 1..40 bars of any signature whose bar fits in
     255 thirty-second notes, channel-message events on the 32nd grid inside their bar, notes with duration >= 1
     that end within the song, tracks 0..7, resolution divisible by 8), exporting it with ToSMF1 or with ToSMF0
     and importing the result with FromSMF (directly or after writing the file and reading it back) yields a
     song with
       * the same resolution (Song.Ticks),
       * the same number of bars, in order, numbered 0,1,2,.. , with the same time signatures,
       * every bar starting (Bar.AbsTicks) where the exported bar started: the bars laid end to end,
       * in every bar the same events: same position, same message, and for notes the same duration,
       * after ToSMF1: events that shared a track still share a track, events of different tracks do not.

   Documented / inherent loss, where the specification is permissive:
       * track NUMBERS are not demanded back (the multi-track export prepends a track for the bar line and
         leaves out unused tracks; the single-track export merges everything and FromSMF re-splits it by
         channel, see smf.ConvertToSMF1): after ToSMF1 only the partition of the events into tracks is
         compared, after ToSMF0 tracks are not compared at all;
       * a MIDI file does not say which note-on a note-off ends.  Notes of the same channel and key (and, after
         ToSMF1, the same track) that overlap OR TOUCH (one ends on the tick the other starts: the order of
         events on one tick is free in the export, C20) are "ambiguous": their events must come back at the
         same position with the same message, their durations are free;
       * the order of the events inside a bar is free (compared as bags);
       * title, composer, track names, key and tempo attributes are not compared.

   A song is  [bars |-> <<[num, den, evs |-> <<[trk, pos, dur, msg]>>]>>]  as in Sequencer.
   An imported song is  [ticks, bars |-> <<[no, num, den, abs, evs |-> <<[trk, pos, dur, msg]>>]>>].
   mode = 1: imported from ToSMF1,  mode = 0: imported from ToSMF0.                                          *)
EXTENDS Sequencer

\* ---- notes and their ambiguity ------------------------------------------------------------------------
NoteOf(ev, start32) == [trk |-> ev.trk, ch |-> ev.msg[1] % 16, key |-> ev.msg[2],
                        on |-> start32 + ev.pos, off |-> start32 + ev.pos + ev.dur]

SongNotes(bars) ==
  LET s == BarStarts32(bars)
      ofBar(i) == LET n == SelectSeq(bars[i].evs, LAMBDA ev : IsNoteOn(ev.msg))
                  IN [j \in 1..Len(n) |-> NoteOf(n[j], s[i])]
  IN FlattenSeq([i \in 1..Len(bars) |-> ofBar(i)])

SamePairing(a, b, mode) == a.ch = b.ch /\ a.key = b.key /\ (mode = 0 \/ a.trk = b.trk)

\* closed intervals: touching counts.   The note itself is one of the notes, hence "> 1".
Ambiguous(n, notes, mode) ==
  Cardinality({k \in 1..Len(notes) : SamePairing(n, notes[k], mode) /\ n.on <= notes[k].off /\ notes[k].on <= n.off}) > 1

\* <<bar, pos, msg>> of the ambiguous notes: an event with such a key has a free duration (on both sides of the
\* comparison, so that the comparison stays symmetric when another track carries the same message at the same place)
AmbKeys(bars, mode) ==
  LET s == BarStarts32(bars)
      notes == SongNotes(bars)
  IN {<<i, bars[i].evs[j].pos, bars[i].evs[j].msg>> :
        <<i, j>> \in {p \in UNION {{<<i, j>> : j \in 1..Len(bars[i].evs)} : i \in 1..Len(bars)} :
                        /\ IsNoteOn(bars[p[1]].evs[p[2]].msg)
                        /\ Ambiguous(NoteOf(bars[p[1]].evs[p[2]], s[p[1]]), notes, mode)}}

\* ---- what is compared ---------------------------------------------------------------------------------
FreeDur == -1
NormItem(ev, i, amb) == [trk |-> ev.trk, bar |-> i, pos |-> ev.pos, msg |-> ev.msg,
                         dur |-> IF <<i, ev.pos, ev.msg>> \in amb THEN FreeDur ELSE ev.dur]
NoTrk(it) == [bar |-> it.bar, pos |-> it.pos, msg |-> it.msg, dur |-> it.dur]

BarNorm(bs, i, amb) == [j \in 1..Len(bs[i].evs) |-> NormItem(bs[i].evs[j], i, amb)]
SongNorm(bs, amb) == FlattenSeq([i \in 1..Len(bs) |-> BarNorm(bs, i, amb)])
Untracked(items) == [k \in 1..Len(items) |-> NoTrk(items[k])]

\* a bag as a set of <<element, multiplicity>>
BagOf(seq) == {<<x, Count(seq, x)>> : x \in Range(seq)}

\* the partition of the events into tracks, without the track numbers: the bag of the tracks' contents
TrackBags(items) ==
  LET T == {items[k].trk : k \in 1..Len(items)}
      C == [t \in T |-> BagOf(Untracked(SelectSeq(items, LAMBDA it : it.trk = t)))]
  IN {<<c, Cardinality({t \in T : C[t] = c})>> : c \in {C[t] : t \in T}}

\* ---- the property, clause by clause -------------------------------------------------------------------
ImportClauses(bars, res, imp, mode) ==
  LET n == Len(bars)
      same == Len(imp.bars) = n
      s == BarStarts32(bars)
      amb == AmbKeys(bars, mode)
  IN [ticks   |-> imp.ticks = res,
      nbars   |-> same,
      numbers |-> \A i \in 1..Len(imp.bars) : imp.bars[i].no = i - 1,
      sigs    |-> same /\ \A i \in 1..n : imp.bars[i].num = bars[i].num /\ imp.bars[i].den = bars[i].den,
      starts  |-> same /\ \A i \in 1..n : imp.bars[i].abs = s[i] * Ticks32(res),
      events  |-> same /\ \A i \in 1..n : BagEq(Untracked(BarNorm(bars, i, amb)), Untracked(BarNorm(imp.bars, i, amb))),
      tracks  |-> mode = 0 \/ (same /\ TrackBags(SongNorm(bars, amb)) = TrackBags(SongNorm(imp.bars, amb)))]

ImportOk(bars, res, imp, mode) ==
  LET c == ImportClauses(bars, res, imp, mode)
  IN c.ticks /\ c.nbars /\ c.numbers /\ c.sigs /\ c.starts /\ c.events /\ c.tracks

\* ---- diagnostics --------------------------------------------------------------------------------------
FirstN(seq, k) == SubSeq(seq, 1, IF Len(seq) < k THEN Len(seq) ELSE k)
ImpSigs(imp) == FirstN([i \in 1..Len(imp.bars) |-> <<imp.bars[i].num, imp.bars[i].den, imp.bars[i].abs>>], 6)
\* first bar whose events differ, with what is missing / surplus there (0 if none or if the bar counts differ)
FirstBadBar(bars, imp, mode) ==
  IF Len(imp.bars) # Len(bars) THEN 0
  ELSE LET amb == AmbKeys(bars, mode)
           badset == {i \in 1..Len(bars) : ~BagEq(Untracked(BarNorm(bars, i, amb)), Untracked(BarNorm(imp.bars, i, amb)))}
       IN IF badset = {} THEN 0 ELSE CHOOSE i \in badset : \A k \in badset : i <= k
BarDiff(bars, imp, mode, i) ==
  IF i = 0 THEN [missing |-> <<>>, surplus |-> <<>>]
  ELSE LET amb == AmbKeys(bars, mode)
           a == Untracked(BarNorm(bars, i, amb))
           b == Untracked(BarNorm(imp.bars, i, amb))
       IN [missing |-> Missing(a, b), surplus |-> Missing(b, a)]
=============================================================================
