CONSTANTS
  PV = {0, 127}
  DV = {2, 127}
INIT Init
NEXT Next
INVARIANTS WritesSafe Done
CHECK_DEADLOCK FALSE
