---------------------------- MODULE MC_MidicatLine ----------------------------
(* Model check of the line protocol (C19).  A behaviour picks a case (a text and what the property promises for it),
   then a reader consumes the text in fragments of arbitrary sizes (action Frag(k)) through the character-level
   automaton of MidicatLine, and finally meets EOF.  Cases:
     rt  : texts Concat(Line(r_i)) of small record sequences         -- promised: the records, one per line
     mut : one line of such a text mutated by one of the property's kinds (src = the kind) -- promised: Err for that line
           (a line without terminator swallows the next one), the other records unchanged, in place
     raw : every string over a small alphabet                        -- promised: what the declarative grammar says
   Invariants: the results so far are a prefix of the promise and appear exactly when the LF is consumed (one record
   per line, independent of fragmentation); at EOF they equal the promise; the call-level reader (CallAt/ReadAll)
   and the declarative grammar (DenoteText) give the same answer.                                                   *)
EXTENDS MidicatLine, TLC
CONSTANTS Size,        \* "g" | "quick" | "thorough"
          MaxFrag
VARIABLES src, text, exp, lc, pos, st, out, done
vars == <<src, text, exp, lc, pos, st, out, done>>

RtTS  == IF Size = "g" THEN {IntMin, 0, 7} ELSE {IntMin, -1, 0, 10, IntMax}
RtB   == IF Size = "g" THEN {<<10>>, <<175, 144>>} ELSE {<<10>>, <<175>>, <<144, 0>>, <<0, 255>>}
RtLen == 2
MuTS  == IF Size = "thorough" THEN {IntMin, 0, 17} ELSE {-17}
MuB   == {<<10>>, <<175, 144>>}
MuLen == IF Size = "g" THEN 2 ELSE 3
RawAlphabet == {MINUS, 48, 57, SP, 65, 97, 71, LF}
RawLen == IF Size = "g" THEN 0 ELSE IF Size = "quick" THEN 4 ELSE 5
JunkChars == {71, 103, 45, 120, 58}          \* G g - x :

RecSet(T, B) == {[ts |-> t, b |-> b] : t \in T, b \in B}
SeqsUpTo(S, lo, hi) == UNION {[1..n -> S] : n \in lo..hi}

RtCases(l) == {[src |-> "rt", text |-> Concat([i \in 1..Len(rs) |-> LineOf(rs[i])]),
                exp |-> [i \in 1..Len(rs) |-> Rec(rs[i].ts, rs[i].b)]] : rs \in SeqsUpTo(RecSet(RtTS, RtB), 0, RtLen)}

Muts(ln) == {g \in [kind : {"oddhex", "nonhex", "lower", "nosep", "noterm"}, at : 1..Len(ln), ch : JunkChars \cup 97..102 \cup {0}] :
               /\ MutationOk(ln, g)
               /\ g.kind \in {"oddhex", "nosep", "noterm"} => g.ch = 0}
SegsWith(n, i, g) == [j \in 1..n |-> IF j = i THEN [kind |-> g.kind, orig |-> j, at |-> g.at, ch |-> g.ch]
                                     ELSE [kind |-> "ok", orig |-> j, at |-> 0, ch |-> 0]]
MutTable == [r \in RecSet(MuTS, MuB) |-> Muts(LineOf(r))]
MutInputs == UNION {UNION {{<<rs, SegsWith(Len(rs), i, g), g.kind>> : g \in MutTable[rs[i]]} : i \in 1..Len(rs)}
                    : rs \in SeqsUpTo(RecSet(MuTS, MuB), 1, MuLen)}
MutCases(l) == {[src |-> x[3], text |-> SegsText(x[1], x[2]), exp |-> Promised(x[1], x[2], l)] : x \in MutInputs}
RawCases(l) == {[src |-> "raw", text |-> t, exp |-> DenoteText(t, l)] : t \in SeqsUpTo(RawAlphabet, 0, RawLen)}

ASSUME \A x \in MutInputs : SegsOk(x[1], x[2])

Init == /\ lc \in BOOLEAN
        /\ \E c \in RtCases(lc) \cup MutCases(lc) \cup RawCases(lc) : src = c.src /\ text = c.text /\ exp = c.exp
        /\ pos = 0 /\ st = Reader0 /\ out = <<>> /\ done = FALSE

Frag(k) == /\ ~done /\ pos < Len(text)
           /\ LET n == IF pos + k > Len(text) THEN Len(text) - pos ELSE k
                  r == FeedAll(st, out, SubSeq(text, pos + 1, pos + n), lc)
              IN st' = r.s /\ out' = r.out /\ pos' = pos + n
           /\ UNCHANGED <<src, text, exp, lc, done>>
Eof == /\ ~done /\ pos = Len(text)
       /\ out' = out \o AtEof(st) /\ st' = Reader0 /\ done' = TRUE
       /\ UNCHANGED <<src, text, exp, lc, pos>>
Next == (\E k \in 1..MaxFrag : Frag(k)) \/ Eof
Spec == Init /\ [][Next]_vars

LFsBefore(p) == Cardinality({i \in 1..p : text[i] = LF})
OnePerLine == /\ Len(out) <= Len(exp) /\ out = SubSeq(exp, 1, Len(out))
              /\ ~done => Len(out) = LFsBefore(pos)
Lossless   == done => out = exp
CallLevel  == pos = 0 => ReadAll(text, lc) = exp                     \* successive calls, each starting at the next line
Grammar    == pos = 0 => DenoteText(text, lc) = exp                  \* encoder and mutation promises agree with the grammar
\* every mut case really contains a malformed line unless it is the lower-case one and lc holds
MutHasError == (src \notin {"rt", "raw"} /\ \A i \in 1..Len(text) : ~IsLoHex(text[i])) => \E i \in 1..Len(exp) : exp[i].kind = "err"
=============================================================================
