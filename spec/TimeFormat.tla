------------------------------ MODULE TimeFormat ------------------------------
(* X06 (extension), part 1: the time formats of a Standard MIDI File as package smf presents them
   (smf/timeformat.go: MetricTicks, TimeCode; the division word written by SMF.WriteTo and read by smf.ReadFrom;
   smf/tempochanges.go: TempoChanges.TempoAt).  Written from SMF 1.0 (header chunk, <division>), from the doc
   comments of the package and from the arithmetic of note values -- not from the Go code.

   THE PROPERTY (what a user of that API rightly relies on)

   R  MetricTicks q is "ticks per quarter note"; the zero value means 960 (documented).  Res(q) = 960 if q = 0 else q.
      Resolution() = Ticks4th() = Res(q) for every q in 0..65535.
   N  Ticks8th .. Ticks1024th: a note of 1/(4*2^k) lasts Res(q) / 2^k ticks, k = 1..8, rounded to a nearest integer
      (on a tie either neighbour).
   S  In64ths(n) = floor(16 * n / Res(q)) (a 64th is a 16th of a quarter) for every tick count an SMF delta can carry,
      n < 2^28.  Beyond (16*n does not fit 32 bits) nothing is promised.
   D  Duration(bpm, n): n ticks last exactly  60e9 * n / (bpm * Res(q))  nanoseconds; the result is that rational
      rounded to a nearest nanosecond.  The library computes in float64: besides the half nanosecond of rounding a
      relative error of 2^-50 (eight units in the last place) is granted:   |dur - D| <= 1/2 + D * 2^-50.
      Domain: bpm in [1, 1000] (any float64, taken as the exact dyadic rational it is), D < 2^63 ns.
   T  Ticks(bpm, d): a duration of d >= 0 nanoseconds holds exactly  d * Res(q) * bpm / 60e9  ticks; same rounding and
      the same float64 allowance.  Domain: the exact value is below 2^32 - 1.
   I  (consequences, model-checked in MC_TimeFormat) Ticks(Duration(n)) = n; Duration(Ticks(d)) is within one tick's
      duration (+ 1 ns) of d; both functions are non-decreasing in their second argument.  The trace spec demands
      monotonicity of the recorded values directly.
   W  division word (SMF 1.0): bit 15 = 0: bits 14..0 = ticks per quarter note; bit 15 = 1: high byte = minus the
      frames per second (two's complement; the standard names -24 -25 -29 -30), low byte = ticks per frame.
      WriteTo with MetricTicks q, 1 <= q <= 32767, writes the word q; q = 0 writes 960.  For q >= 32768 (no 15-bit
      word exists; the writer clamps) only "an error, or some non-zero metric word" is demanded.
      WriteTo with TimeCode{fps, sub}: for the four SMPTE rates the word (256-fps)*256 + sub, no error.  For any other
      fps: an error, or a word that DENOTES TimeCode{fps, sub} -- a nil error with a file that says something else
      (e.g. a metric file) is rejected.  Rates other than 1..128 have no word, so only an error is acceptable.
      ReadFrom gives back what the word denotes (word 0: error or MetricTicks(0) = "960", nothing is promised).
      SMPTE24/25/30DropFrame/30(sub) = TimeCode{24/25/29/30, sub}.
   P  String(): the decimal numbers that occur in MetricTicks.String() are exactly <<Res(q)>>; in TimeCode.String()
      of an SMPTE rate <<24|25|30, sub>>, and the text of 29 fps says "Drop".
   C  TempoChanges (sorted by AbsTicks, as SMF.TempoChanges() delivers them): TempoAt(t) = BPM of the last change
      with AbsTicks <= t, 120 if there is none; TempoChangeAt the change itself / nil.

   Numbers beyond TLC's 32-bit integers are BigNats (module BigNat).  bpm is the fraction bn / bd of BigNats.    *)
EXTENDS BigNat, SequencesExt

TfAbs(x) == IF x < 0 THEN -x ELSE x

\* ------------------------------------------------------------------ R, N: resolution and note lengths
TfDefaultRes == 960
TfRes(q) == IF q = 0 THEN TfDefaultRes ELSE q                    \* q in 0..65535
TfMaxK == 8                                                      \* Ticks1024th = quarter / 2^8
\* v is Res(q) / 2^k rounded to a nearest integer:  |v - r/2^k| <= 1/2
TfNoteLenOk(v, q, k) == /\ v \in 0..65536
                        /\ 2 * TfAbs(v * 2^k - TfRes(q)) <= 2^k
\* the two candidate roundings (equal unless r/2^k lies exactly between two integers)
TfNoteLenDown(q, k) == (2 * TfRes(q) + 2^k - 1) \div (2 * 2^k)     \* ties downwards
TfNoteLenUp(q, k)   == (2 * TfRes(q) + 2^k) \div (2 * 2^k)         \* ties upwards

\* ------------------------------------------------------------------ S: In64ths
TfDeltaLimit == BnPow2(28)                                       \* SMF delta times are below 2^28
\* v = floor(16 n / r)  <=>  v r <= 16 n < (v + 1) r        (v, n BigNats)
TfIn64Ok(v, q, n) ==
  LET r == BnOfNat(TfRes(q))  n16 == BnMulSmall(n, 16)
  IN BnLeq(BnMul(v, r), n16) /\ BnLt(n16, BnMul(BnAdd(v, <<1>>), r))

\* ------------------------------------------------------------------ rounding with the float64 allowance
\* a * 2^k (limbs are base 2^15: whole limbs are shifted in, the rest is one small multiplication)
TfShl(a, k) == IF a = <<>> THEN <<>> ELSE [i \in 1..(k \div 15) |-> 0] \o BnMulSmall(a, 2 ^ (k % 15))
\* v approximates num/den:  |v - num/den| <= 1/2 + (num/den) * 2^-50
\*                     <=>  2^51 * |v*den - num| <= 2^50 * den + 2 * num
TfNearOk(v, num, den) ==
  BnLeq(TfShl(BnAbsDiff(BnMul(v, den), num), 51), BnAdd(TfShl(den, 50), BnMulSmall(num, 2)))
\* the mathematical rounding: |v - num/den| <= 1/2
TfIsNearest(v, num, den) == BnLeq(BnMulSmall(BnAbsDiff(BnMul(v, den), num), 2), den)
\* floor(num / den), den > 0: binary search on the quotient's bits (the quotient is below 2^(15 * (Len(num) - Len(den) + 1)));
\* used by the model check only
TfDivFloor(num, den) ==
  LET nb == IF Len(num) < Len(den) THEN 0 ELSE 15 * (Len(num) - Len(den) + 1)
  IN FoldLeft(LAMBDA acc, b : LET c == BnAdd(acc, TfShl(<<1>>, b)) IN IF BnLeq(BnMul(c, den), num) THEN c ELSE acc,
              <<>>, [i \in 1..nb |-> nb - i])

\* ------------------------------------------------------------------ D, T: ticks <-> time
Tf60e9 == BnMul(BnOfNat(60000), BnOfNat(1000000))                \* nanoseconds per minute
\* D = TfDurNum / TfDurDen [ns]
TfDurNum(n, bd) == BnMul(BnMul(Tf60e9, n), bd)
TfDurDen(bn, q) == BnMul(bn, BnOfNat(TfRes(q)))
TfDurOk(dur, n, bn, bd, q) == TfNearOk(dur, TfDurNum(n, bd), TfDurDen(bn, q))
TfDurDomain(n, bn, bd, q) == BnLt(TfDurNum(n, bd), BnMul(BnPow2(63), TfDurDen(bn, q)))
\* T = TfTickNum / TfTickDen [ticks]
TfTickNum(d, bn, q) == BnMul(BnMul(d, BnOfNat(TfRes(q))), bn)
TfTickDen(bd) == BnMul(Tf60e9, bd)
TfTicksOk(t, d, bn, bd, q) == TfNearOk(t, TfTickNum(d, bn, q), TfTickDen(bd))
TfU32Max == BnSub(BnPow2(32), <<1>>)
TfTicksDomain(d, bn, bd, q) == BnLt(TfTickNum(d, bn, q), BnMul(TfU32Max, TfTickDen(bd)))
\* 1 <= bn/bd <= 1000
TfBpmDomain(bn, bd) == bd # <<>> /\ BnLeq(bd, bn) /\ BnLeq(bn, BnMulSmall(bd, 1000))
\* a float64 mant * 2^ex as a fraction
TfDyNum(mant, ex) == IF ex > 0 THEN BnMul(mant, BnPow2(ex)) ELSE mant
TfDyDen(ex) == IF ex < 0 THEN BnPow2(-ex) ELSE <<1>>

\* ------------------------------------------------------------------ W: the division word of the header chunk
TfStdFps == {24, 25, 29, 30}                                      \* 29 = 30 drop frame
TfMetric(r) == [kind |-> "metric", a |-> r, b |-> 0]
TfSmpte(fps, sub) == [kind |-> "smpte", a |-> fps, b |-> sub]
\* what a word denotes
TfDecodeWord(w) == IF w < 32768 THEN TfMetric(w) ELSE TfSmpte(256 - (w \div 256), w % 256)
\* the word that denotes a time format (partial: metric 0..32767, smpte 1..128 x 0..255)
TfHasWord(tf) == IF tf.kind = "metric" THEN tf.a \in 0..32767 ELSE tf.a \in 1..128 /\ tf.b \in 0..255
TfEncode(tf) == IF tf.kind = "metric" THEN tf.a ELSE (256 - tf.a) * 256 + tf.b

\* the writer: tf = what the user put into SMF.TimeFormat, err = WriteTo returned an error, w = word found in the file
TfWriteOk(tf, err, w) ==
  IF tf.kind = "metric" THEN
    IF tf.a \in 1..32767 THEN ~err /\ w = tf.a
    ELSE IF tf.a = 0 THEN ~err /\ w = TfDefaultRes
    ELSE err \/ w \in 1..32767
  ELSE IF tf.a \in TfStdFps THEN ~err /\ w = TfEncode(tf)
  ELSE err \/ (w \in 0..65535 /\ TfDecodeWord(w) = tf)
\* the reader: got = [kind |-> "metric" | "smpte" | "error" | "other", a, b]
TfReadOk(w, got) ==
  IF w = 0 THEN got.kind = "error" \/ got = TfMetric(0)
  ELSE got = TfDecodeWord(w)

\* ------------------------------------------------------------------ P: numbers in a text
\* s = sequence of character codes; the maximal runs of decimal digits as numbers, in order (runs above 10^8 are cut
\* to -1 so that nothing overflows)
TfIsDigit(c) == c \in 48..57
TfDigitRuns(s) ==
  LET st == FoldLeft(LAMBDA acc, c :
                       IF TfIsDigit(c)
                       THEN [acc EXCEPT !.cur = IF acc.cur = -2 THEN c - 48
                                                ELSE IF acc.cur = -1 \/ acc.cur >= 100000000 THEN -1
                                                ELSE acc.cur * 10 + (c - 48)]
                       ELSE IF acc.cur = -2 THEN acc ELSE [runs |-> Append(acc.runs, acc.cur), cur |-> -2],
                     [runs |-> <<>>, cur |-> -2], s)
  IN IF st.cur = -2 THEN st.runs ELSE Append(st.runs, st.cur)
TfContains(s, w) == \E i \in 1..(Len(s) - Len(w) + 1) : SubSeq(s, i, i + Len(w) - 1) = w
TfDrop == <<68, 114, 111, 112>>                                   \* "Drop"
TfMetricStringOk(s, q) == TfDigitRuns(s) = <<TfRes(q)>>
TfTimeCodeStringOk(s, fps, sub) ==
  /\ TfDigitRuns(s) = <<IF fps = 29 THEN 30 ELSE fps, sub>>
  /\ (fps = 29) = TfContains(s, TfDrop)

\* ------------------------------------------------------------------ C: tempo changes
\* cs = <<[t |-> AbsTicks, bpm |-> BPM]>> with non-decreasing t; index of the change in force at tick x (0: none)
TfChangeAt(cs, x) == LET S == {i \in 1..Len(cs) : cs[i].t <= x}
                     IN IF S = {} THEN 0 ELSE CHOOSE i \in S : \A j \in S : j <= i
TfTempoAt(cs, x) == IF TfChangeAt(cs, x) = 0 THEN 120 ELSE cs[TfChangeAt(cs, x)].bpm
TfSorted(cs) == \A i \in 1..(Len(cs) - 1) : cs[i].t <= cs[i + 1].t
=============================================================================
