--------------------------- MODULE Trace_TrackIter ---------------------------
(* Trace validation for X03 (spec/TrackIter.tla).  One line = one experiment on the REAL library
   (harness/cmd/vh_trackiter): the history of public API calls that built the file (constructor, per track the
   Track.Add / Close calls with IsClosed / IsEmpty / len observed after each, SMF.Add with its error / NumTracks /
   Format), what the file read back with ReadTracksFrom(sel...) reports (NumTracks, Format, IsClosed / IsEmpty per
   track), the filter given to Only, every call TracksReader.Do made (TrackNo, Delta, AbsTicks, bytes), the list
   SMF.TempoChanges returned, TempoChangeAt (as position in that list) / TempoAt for query ticks, and the calls of
   Track.SendTo.  Ticks come as decimal digits and are computed with in BigNat (sums exceed 2^31); BPM values are
   IEEE-754 bit patterns in four 16-bit words.  The file value is computed HERE from the history (TiTrackStep), so
   the expected visit does not depend on anything the library reported.
   A record outside the domain (unknown names, malformed digits, delta above the SMF maximum 0FFFFFFF) is flagged
   genbug: a machinery failure, never a violation.                                                               *)
EXTENDS TrackIter, BigNat, TLC, Json, IOUtils
VARIABLES l, bad

Trace == ndJsonDeserialize(IOEnv.VERIF_TRACE)

Idx(s)   == [i \in 1..Len(s) |-> i]
Bpm120   == <<16478, 0, 0, 0>>                   \* 120.0 = 0x405E000000000000
IsWords(w) == Len(w) = 4 /\ \A i \in 1..4 : w[i] \in 0..65535
MaxDelta == BnOfNat(268435455)                   \* 0FFFFFFF, the largest delta time of SMF 1.0

\* ---- domain / well-formedness (else: generator bug)
OpWf(o) == /\ o.op \in {"add", "close"} /\ BnIsDec(o.d) /\ BnLeq(BnOfDec(o.d), MaxDelta)
           /\ (o.op = "close" => o.msgs = <<>>)
           /\ \A k \in 1..Len(o.msgs) : Len(o.msgs[k].m) >= 1 /\ (o.msgs[k].bpm = <<>> \/ IsWords(o.msgs[k].bpm))
           \* an End Of Track handed to Add must be the last message of the call (else the written file is not SMF)
           /\ \A k \in 1..(Len(o.msgs) - 1) : o.msgs[k].m # TiEOT
RecWf(e) ==
  /\ e.ctor \in {"new", "smf1", "smf2"} /\ e.res \in 1..32767
  /\ Len(e.ops) >= 1 /\ Len(e.ops) <= 64
  /\ \A i \in 1..Len(e.ops) : \A j \in 1..Len(e.ops[i]) : OpWf(e.ops[i][j])
  /\ e.filt \in {"none", "noargs", "types"}
  /\ (e.filt = "types") = (e.only # <<>>)
  /\ \A i \in 1..Len(e.only) : e.only[i] \in TiFilterNames
  /\ \A i \in 1..Len(e.sel) : e.sel[i] \in -1000..1000
  /\ \A i \in 1..Len(e.visits) : BnIsDec(e.visits[i].d) /\ BnIsDec(e.visits[i].abs)
  /\ \A i \in 1..Len(e.list) : BnIsDec(e.list[i].t) /\ IsWords(e.list[i].bpm)
  /\ \A i \in 1..Len(e.queries) : BnIsDec(e.queries[i].t) /\ (e.queries[i].bpm = <<>> \/ IsWords(e.queries[i].bpm))
  /\ e.sendtr \in -1..63

\* ---- P4: the tracks as the history of calls denotes them, with the predicates after every call
OpOf(o) == [op |-> o.op, d |-> BnOfDec(o.d), msgs |-> [k \in 1..Len(o.msgs) |-> o.msgs[k].m]]
\* states of the track value after 0, 1, 2, ... calls
TrackStates(ops) == FoldLeft(LAMBDA acc, o : Append(acc, TiTrackStep(acc[Len(acc)], OpOf(o), <<>>)), << <<>> >>, ops)
BadOps(ops) ==
  LET st == TrackStates(ops)
  IN SelectSeq(Idx(ops), LAMBDA j : ~(/\ ops[j].closed = TiClosed(st[j + 1])
                                      /\ ops[j].empty = TiEmpty(st[j + 1])
                                      /\ ops[j].n = Len(st[j + 1])))
Built(e) == [i \in 1..Len(e.ops) |-> LET st == TrackStates(e.ops[i]) IN st[Len(st)]]
Fmts(e)  == FoldLeft(LAMBDA acc, i : Append(acc, TiFormatAfterAdd(IF i = 1 THEN TiCtorFormat(e.ctor) ELSE acc[i - 1], i)), <<>>, Idx(e.ops))

\* ---- P3 helpers
AllMsgs(e) == FlattenSeq([i \in 1..Len(e.ops) |-> FlattenSeq([j \in 1..Len(e.ops[i]) |-> e.ops[i][j].msgs])])
BpmOf(msgs, m) == LET S == {k \in 1..Len(msgs) : msgs[k].m = m} IN IF S = {} THEN <<>> ELSE msgs[CHOOSE k \in S : TRUE].bpm
Count(s, x) == Cardinality({i \in 1..Len(s) : s[i] = x})
SameBag(a, b) == Len(a) = Len(b) /\ \A i \in 1..Len(a) : Count(a, a[i]) = Count(b, a[i])

Fail(e, what, extra) == [ok |-> FALSE, info |-> [id |-> e.id, genbug |-> FALSE, what |-> what, x |-> extra]]

Judge(e) ==
  IF ~RecWf(e) THEN [ok |-> FALSE, info |-> [id |-> e.id, genbug |-> TRUE, what |-> "record malformed / outside the domain", x |-> <<>>]]
  ELSE
  LET n      == Len(e.ops)
      built  == Built(e)
      fmts   == Fmts(e)
      badops == SelectSeq(Idx(e.ops), LAMBDA i : BadOps(e.ops[i]) # <<>>)
      badadd == IF Len(e.adds) # n THEN <<0>>
                ELSE SelectSeq(Idx(e.ops), LAMBDA i : ~(/\ e.adds[i].err = ~TiClosed(built[i])
                                                        /\ e.adds[i].num = i /\ e.adds[i].fmt = fmts[i]))
      F      == [i \in 1..n |-> TiCanonTrack(built[i], <<>>)]
      msgs   == AllMsgs(e)
      badbpm == SelectSeq(Idx(msgs), LAMBDA k : (msgs[k].bpm # <<>>) # TiIsTempo(msgs[k].m) \/ msgs[k].bpm # BpmOf(msgs, msgs[k].m))
  IN
  IF badops # <<>> THEN
    LET i == badops[1]  j == BadOps(e.ops[i])[1]  st == TrackStates(e.ops[i])[j + 1] IN
    Fail(e, "track-predicates", [track |-> i - 1, call |-> j, op |-> e.ops[i][j].op, closed |-> e.ops[i][j].closed, empty |-> e.ops[i][j].empty,
                                 n |-> e.ops[i][j].n, wantclosed |-> TiClosed(st), wantempty |-> TiEmpty(st), wantn |-> Len(st)])
  ELSE IF badadd # <<>> THEN
    LET i == badadd[1] IN
    Fail(e, "smf-add", IF i = 0 THEN [track |-> -1] ELSE [track |-> i - 1, err |-> e.adds[i].err, num |-> e.adds[i].num, fmt |-> e.adds[i].fmt,
                                                        wanterr |-> ~TiClosed(built[i]), wantfmt |-> fmts[i]])
  ELSE IF e.werr # "" \/ e.rerr # "" \/ e.panic # "" THEN Fail(e, "error", [werr |-> e.werr, rerr |-> e.rerr, panic |-> e.panic])
  ELSE IF badbpm # <<>> THEN Fail(e, "tempo-event-bpm", [m |-> msgs[badbpm[1]].m, bpm |-> msgs[badbpm[1]].bpm])
  ELSE IF ~(/\ e.rb.num = n /\ e.rb.fmt = fmts[n] /\ Len(e.rb.closed) = n /\ Len(e.rb.empty) = n
            /\ \A i \in 1..n : e.rb.closed[i] /\ e.rb.empty[i] = TiEmpty(F[i])) THEN
    Fail(e, "read-back-predicates", [num |-> e.rb.num, fmt |-> e.rb.fmt, closed |-> e.rb.closed, empty |-> e.rb.empty,
                                     wantnum |-> n, wantfmt |-> fmts[n], wantempty |-> [i \in 1..n |-> TiEmpty(F[i])]])
  ELSE
  LET sel   == {e.sel[i] : i \in 1..Len(e.sel)}
      flt   == [mode |-> e.filt, types |-> e.only]
      all   == TiVisits(F, sel, BnAdd, <<>>)
      neg   == SelectSeq(Idx(e.visits), LAMBDA i : e.visits[i].neg)
      got   == [i \in 1..Len(e.visits) |-> [tr |-> e.visits[i].tr, d |-> BnOfDec(e.visits[i].d), abs |-> BnOfDec(e.visits[i].abs), m |-> e.visits[i].m]]
      st    == TiExplain(all, flt, got)
  IN
  IF neg # <<>> THEN Fail(e, "visit", [why |-> "negative AbsTicks", at |-> neg[1]])
  ELSE IF ~st.ok THEN
    Fail(e, "visit", [why |-> IF st.p > 1 /\ st.p <= Len(got) /\ got[st.p] = got[st.p - 1]
                                THEN "the previous visit is repeated: an event is handed out more than once"
                                ELSE "an event that must be visited is missing (or visits are out of order)",
                      repeat |-> (st.p > 1 /\ st.p <= Len(got) /\ got[st.p] = got[st.p - 1]), at |-> st.p, nvisits |-> Len(got),
                      missing |-> [tr |-> st.miss[1].tr, m |-> st.miss[1].m],
                      got |-> IF st.p <= Len(got) THEN <<[tr |-> e.visits[st.p].tr, d |-> e.visits[st.p].d, abs |-> e.visits[st.p].abs, m |-> e.visits[st.p].m]>> ELSE <<>>])
  ELSE IF st.p # Len(got) + 1 THEN
    Fail(e, "visit", [why |-> "a visit that no remaining event of the selected tracks / filter explains (extra, repeated, wrong TrackNo / Delta / AbsTicks)",
                      repeat |-> (st.p > 1 /\ got[st.p] = got[st.p - 1]), at |-> st.p, nvisits |-> Len(got), missing |-> <<>>,
                      got |-> <<[tr |-> e.visits[st.p].tr, d |-> e.visits[st.p].d, abs |-> e.visits[st.p].abs, m |-> e.visits[st.p].m]>>])
  ELSE
  \* ---- P3
  LET tev    == TiTempoEvents(F, BnAdd, <<>>)
      want   == [i \in 1..Len(tev) |-> [t |-> tev[i].abs, bpm |-> BpmOf(msgs, tev[i].m)]]
      lneg   == \E i \in 1..Len(e.list) : e.list[i].neg
      have   == [i \in 1..Len(e.list) |-> [t |-> BnOfDec(e.list[i].t), bpm |-> e.list[i].bpm]]
      ticks  == [i \in 1..Len(have) |-> have[i].t]
      listok == /\ ~lneg /\ TiSortedBy(ticks, BnLeq)
                /\ IF Cardinality(TiTempoTracks(F)) <= 1 THEN have = want ELSE SameBag(have, want)
      qbad   == SelectSeq(Idx(e.queries), LAMBDA i :
                  LET q == e.queries[i]
                      k == IF q.neg THEN 0 ELSE TiLookup(ticks, BnOfDec(q.t), BnLeq)
                  IN ~(q.idx = k /\ q.bpm = IF k = 0 THEN Bpm120 ELSE have[k].bpm))
  IN
  IF ~listok THEN Fail(e, "tempo-list", [nlist |-> Len(e.list), nwant |-> Len(want), sorted |-> TiSortedBy(ticks, BnLeq), neg |-> lneg,
                                        tempotracks |-> Cardinality(TiTempoTracks(F))])
  ELSE IF qbad # <<>> THEN
    LET q == e.queries[qbad[1]]  k == IF q.neg THEN 0 ELSE TiLookup(ticks, BnOfDec(q.t), BnLeq) IN
    Fail(e, "tempo-lookup", [tick |-> q.t, neg |-> q.neg, idx |-> q.idx, bpm |-> q.bpm, wantidx |-> k,
                             wantbpm |-> IF k = 0 THEN Bpm120 ELSE have[k].bpm, nbad |-> Len(qbad)])
  ELSE IF e.sendtr >= 0 /\ e.sendtr < n /\ ~TiSendOk(F[e.sendtr + 1], e.sent) THEN
    Fail(e, "sendto", [track |-> e.sendtr, nsent |-> Len(e.sent)])
  ELSE [ok |-> TRUE, info |-> [id |-> e.id]]

Init == l = 1 /\ bad = <<>>
Next == \/ /\ l <= Len(Trace)
           /\ LET j == Judge(Trace[l])
              IN bad' = IF j.ok THEN bad ELSE Append(bad, [line |-> l, info |-> j.info])
           /\ l' = l + 1
        \/ /\ l = Len(Trace) + 1
           /\ ndJsonSerialize(IOEnv.VERIF_OUT, <<[consumed |-> Len(Trace)]>> \o bad)
           /\ l' = l + 1 /\ UNCHANGED bad
=============================================================================
