------------------------------- MODULE MC_Meta -------------------------------
(* C15 on the model: the encoders of spec/Meta.tla and the decoders (Payload, DecKey, DecTimeSig,
   DecTempoField) are mutually inverse and every encoding is a well-formed meta event -- on the boundary lengths
   of the length field with abstract payloads, on every key tuple, every named key, every denominator, boundary
   sequence numbers / SMPTE bytes / tempo fields; the tempo judgement (BigNat cross-multiplication) agrees with
   plain integer arithmetic where that does not overflow.  One state per case.                              *)
EXTENDS Meta, TLC, FiniteSets
VARIABLE c

Lens == {0, 1, 127, 128, 129, 16383, 16384}
Fills == {0, 1, 2}
\* abstract payloads: constant low byte, constant high byte (looks like a continuation bit), position dependent
Fill(n, k) == [i \in 1..n |-> IF k = 0 THEN 65 ELSE IF k = 1 THEN 255 ELSE (i * 7 + 125) % 256]
Types == {0, 1, 9, 32, 84, 127}
ByteB == {0, 1, 127, 128, 255}
Fields == {1, 2, 3, 255, 256, 65535, 65536, 500000, 16777214, 16777215}
\* small tempi p/q with 6e7 * q below 2^31 (q <= 35) and fields small enough for f * p to stay below 2^31
Ps == {1, 3, 7, 60, 120, 121, 250, 999}
Qs == {1, 2, 3, 7, 32}

Cases ==
  [k : {"len"}, t : Types, n : Lens, f : Fills] \cup
  [k : {"key"}, n : 0..7, flat : BOOLEAN, major : BOOLEAN] \cup
  [k : {"named"}, name : KeyNames] \cup
  [k : {"timesig"}, n : {0, 1, 4, 255}, d : Denoms, cc : {1, 24, 255}, bb : {1, 8, 255}] \cup
  [k : {"seqno"}, n : {0, 1, 127, 128, 255, 256, 32767, 32768, 65535}] \cup
  [k : {"bytes5"}, a : ByteB, b : ByteB, x : {0, 255}] \cup
  [k : {"field"}, f : Fields] \cup
  [k : {"ratio"}, p : Ps, q : Qs, d : {-1, 0, 1, 2}] \cup
  [k : {"bn"}, x : {0, 1, 32767, 32768, 46340}, y : {0, 1, 2, 32767, 32768, 46340}]

Init == c \in Cases
Next == UNCHANGED c

VlqLen(n) == IF n < 128 THEN 1 ELSE IF n < 16384 THEN 2 ELSE 3

LenLaw == c.k = "len" =>
  LET d == Fill(c.n, c.f)
      m == Meta(c.t, d) IN
  /\ IsMeta(m) /\ MetaType(m) = c.t /\ Payload(m) = d
  /\ Len(m) = 2 + VlqLen(c.n) + c.n /\ MetaLenEnd(m) = 2 + VlqLen(c.n)
  /\ m[1] = 255
  /\ (NaivePayload(m) = d) = (c.n < 128)                  \* a fixed offset is right exactly below 128 bytes
  /\ (c.n >= 128 => Len(NaivePayload(m)) > c.n)
  \* truncating or extending a well-formed event makes it ill-formed
  /\ (c.n > 0 => ~IsMeta(SubSeq(m, 1, Len(m) - 1))) /\ ~IsMeta(m \o <<0>>)

KeyLaw == c.k = "key" =>
  LET m == EncKey(c.n, c.flat, c.major)
      k == DecKey(m) IN
  /\ IsMeta(m) /\ Len(m) = 5 /\ MetaType(m) = TyKeySig
  /\ k.n = c.n /\ k.major = c.major /\ (c.n > 0 => k.flat = c.flat)
  /\ k.tonic = Tonic(c.n, c.flat, c.major) /\ k.tonic \in 0..11
  /\ Tonic(c.n, c.flat, FALSE) = (Tonic(c.n, c.flat, TRUE) + 9) % 12            \* relative minor
  /\ (c.n \in 5..7 => Tonic(c.n, FALSE, c.major) = Tonic(12 - c.n, TRUE, c.major))   \* enharmonic pairs
  \* distinct signatures have distinct encodings
  /\ \A n2 \in 0..7, f2 \in BOOLEAN, m2 \in BOOLEAN :
       (EncKey(n2, f2, m2) = m) = (n2 = c.n /\ m2 = c.major /\ (c.n = 0 \/ f2 = c.flat))

NamedLaw == c.k = "named" =>
  LET k == KeyNamed(c.name) IN
  /\ Cardinality(NamedKeys) = 26 /\ Cardinality(KeyNames) = 26
  /\ k.n \in 0..6 /\ Tonic(k.n, k.flat, k.major) = k.tonic     \* the table and the circle of fifths agree
  /\ LET d == DecKey(EncKey(k.n, k.flat, k.major)) IN
       d.tonic = k.tonic /\ d.n = k.n /\ d.major = k.major /\ (k.n > 0 => d.flat = k.flat)

TimeSigLaw == c.k = "timesig" =>
  LET m == EncTimeSig(c.n, c.d, c.cc, c.bb) IN
  /\ IsMeta(m) /\ Len(m) = 7 /\ MetaType(m) = TyTimeSig
  /\ DecTimeSig(m) = <<c.n, c.d, c.cc, c.bb>>
  /\ 2^MLog2(c.d) = c.d /\ Cardinality(Denoms) = 8 /\ \A d \in Denoms : d \in 1..128

SeqNoLaw == c.k = "seqno" =>
  LET m == EncSeqNo(c.n) IN IsMeta(m) /\ Len(m) = 5 /\ U16(Payload(m)) = c.n /\ MetaType(m) = 0

Bytes5Law == c.k = "bytes5" =>
  /\ LET m == EncSmpte(c.a, c.b, c.x, c.b, c.a) IN IsMeta(m) /\ Len(m) = 8 /\ Payload(m) = <<c.a, c.b, c.x, c.b, c.a>>
  /\ LET m == EncChannel(c.a) IN IsMeta(m) /\ m = <<255, 32, 1, c.a>> /\ Payload(m) = <<c.a>>
  /\ LET m == EncPort(c.b) IN IsMeta(m) /\ m = <<255, 33, 1, c.b>> /\ Payload(m) = <<c.b>>
  /\ IsMeta(EncEOT) /\ EncEOT = <<255, 47, 0>>

FieldLaw == c.k = "field" =>
  LET m == EncTempoField(c.f) IN
  /\ IsMeta(m) /\ Len(m) = 6 /\ MetaType(m) = TyTempo /\ DecTempoField(m) = c.f
  \* the tempo a field denotes, 6e7/f, is in the domain, is represented by f and by no other field
  /\ TempoInDomain(Bn6e7, BnOfInt(c.f))
  /\ FieldWithinResolution(c.f, Bn6e7, BnOfInt(c.f)) /\ FieldIsNearest(c.f, Bn6e7, BnOfInt(c.f))
  /\ (c.f > 1 => ~FieldWithinResolution(c.f - 1, Bn6e7, BnOfInt(c.f)))
  /\ (c.f < MaxField => ~FieldWithinResolution(c.f + 1, Bn6e7, BnOfInt(c.f)))

\* bpm = p/q: the BigNat judgement is floor/ceil of 6e7*q/p computed with plain integers
RatioLaw == c.k = "ratio" =>
  LET num == BnOfInt(c.p)  den == BnOfInt(c.q)
      x == UsPerMinute * c.q                 \* < 2^31
      fl == x \div c.p
      exact == x % c.p = 0
      f == fl + c.d IN
  /\ TempoInDomain(num, den) = (c.p <= x /\ (fl < MaxField \/ (fl = MaxField /\ exact)))
  /\ (f \in 1..MaxField => (FieldWithinResolution(f, num, den) = (IF exact THEN c.d = 0 ELSE c.d \in {0, 1})))
  /\ (f \in 1..MaxField /\ exact => (FieldIsNearest(f, num, den) = (c.d = 0)))
  \* the same number written with a power-of-two exponent (as the harness passes float64 values)
  /\ DyNum(num, 3) = BnOfInt(8 * c.p) /\ DyDen(3) = <<1>>
  /\ DyNum(num, -4) = num /\ DyDen(-4) = <<16>> /\ DyDen(-15) = <<0, 1>> /\ DyDen(-31) = <<0, 0, 2>>

BnLaw == c.k = "bn" =>
  LET a == BnOfInt(c.x)  b == BnOfInt(c.y) IN
  /\ BnIsNat(a) /\ BnIsNat(b)
  /\ BnAdd(a, b) = BnOfInt(c.x + c.y)
  /\ BnMul(a, b) = BnOfInt(c.x * c.y)                      \* 46340^2 < 2^31
  /\ BnLt(a, b) = (c.x < c.y) /\ BnLeq(a, b) = (c.x <= c.y)
  /\ BnAbsDiffLt(a, b, BnOfInt(2)) = ((IF c.x > c.y THEN c.x - c.y ELSE c.y - c.x) < 2)
  \* beyond 32 bits: (2^30)^2 = 2^60, 2^60 + 2^60 = 2^61
  /\ BnMul(BnPow2(30), BnPow2(30)) = BnPow2(60) /\ BnAdd(BnPow2(60), BnPow2(60)) = BnPow2(61)
  /\ BnMul(BnOfInt(2147483647), BnOfInt(2147483647)) = <<1, 0, 32764, 32767, 3>>  \* (2^31-1)^2 = 2^62 - 2^32 + 1
=============================================================================
