\* quick: 2 tracks x <= 4 events, ticks <<0,0,1,1>>
\* the trace acceptor (Player!Via) as next-state relation: accepts only stable merges
CONSTANTS
  NT = 2
  NE = 4
  MaxNow = 1
  Kinds <- KindsAM
  TimePats <- Pats4q
  Sels <- SelAll
  PortMaps <- PMmixed
INIT Init
NEXT NextJ
INVARIANTS AllWellFormed SentOk Complete AttrAgrees
CHECK_DEADLOCK FALSE
