INIT Init
NEXT Next
CONSTANTS
  AB <- ABThorough
  MaxPay <- MaxPayThorough
INVARIANTS RoundTrip ChecksumZero CorruptRejected OnlyBuilt Disjoint
CHECK_DEADLOCK FALSE
