--------------------------- MODULE MC_RegistryMidicat ---------------------------
(* Lemmas about spec/RegistryMidicat.tla, checked by TLC over every string of at most MaxLen characters from
   Alphabet (built character by character) and over a grid of versions: the reading of a version string agrees with
   printing, the order is a strict total order that refines the tuple order, the gate opens exactly on the window
   [0.6.8, 0.7.0), and the expected listing is the ascending permutation of the helper's entries.               *)
EXTENDS RegistryMidicat, TLC
CONSTANTS MaxLen
VARIABLE str
Alphabet == {118, 46, 48, 54, 55, 56, 57, 49, 45}       \* v . 0 6 7 8 9 1 -
Init == str = <<>>
Next == Len(str) < MaxLen /\ \E c \in Alphabet : str' = Append(str, c)

Comp == {0, 1, 6, 7, 8, 9, 10, 65535}
Grid == {<<x, y, z>> : x \in {0, 1}, y \in Comp, z \in Comp}
Dec(n) == IF n < 10 THEN <<48 + n>> ELSE IF n < 100 THEN <<48 + (n \div 10), 48 + (n % 10)>>
          ELSE <<48 + (n \div 10000), 48 + ((n \div 1000) % 10), 48 + ((n \div 100) % 10), 48 + ((n \div 10) % 10), 48 + (n % 10)>>
VPrint(v) == Dec(v[1]) \o <<RmDot>> \o Dec(v[2]) \o <<RmDot>> \o Dec(v[3])

ParseTotal == RmParse(str).st \in {"ok", "invalid", "free"} /\ RmGate(str) \in {"accept", "reject", "free"}
\* whatever is accepted is a version inside the window; a version below it is refused
GateIsWindow ==
  LET p == RmParse(str) IN
  /\ (RmGate(str) = "accept" => p.st = "ok" /\ p.v[1] = 0 /\ p.v[2] = 6 /\ p.v[3] >= 8)
  /\ (p.st = "ok" /\ (p.v[1] = 0 /\ (p.v[2] < 6 \/ (p.v[2] = 6 /\ p.v[3] < 8))) => RmGate(str) = "reject")
  /\ (p.st = "ok" /\ p.v[1] = 0 /\ p.v[2] = 6 /\ p.v[3] >= 8 => RmGate(str) = "accept")
\* the documented examples
Examples == /\ RmParse(<<118, 48, 46, 48, 46, 49>>) = [st |-> "ok", v |-> <<0, 0, 1>>]      \* v0.0.1
            /\ RmParse(<<49, 46, 48>>) = [st |-> "ok", v |-> <<1, 0, 0>>]                   \* 1.0
            /\ RmParse(<<49, 50>>) = [st |-> "ok", v |-> <<12, 0, 0>>]                      \* 12
            /\ RmParse(<<46, 49, 46, 48>>).st = "invalid"                                  \* .1.0
            /\ RmParse(<<48, 46, 48>>).st = "invalid"
            /\ RmGate(<<48, 46, 54, 46, 56>>) = "accept" /\ RmGate(<<48, 46, 54, 46, 55>>) = "reject"
            /\ RmGate(<<48, 46, 54, 46, 49, 48>>) = "accept" /\ RmGate(<<48, 46, 55>>) = "free" /\ RmGate(<<48, 46, 54>>) = "reject"
ASSUME Examples
ASSUME \A v \in Grid : v # <<0, 0, 0>> => RmParse(VPrint(v)) = [st |-> "ok", v |-> v] /\ RmParse(<<RmLetterV>> \o VPrint(v)).v = v
ASSUME \A x, y \in Grid : /\ ~RmLess(x, x)
                          /\ (x # y => (RmLess(x, y) # RmLess(y, x)))
                          /\ (RmLess(x, y) <=> \E i \in 1..3 : x[i] < y[i] /\ \A j \in 1..(i - 1) : x[j] = y[j])     \* the first difference decides
ASSUME \A x, y, z \in {v \in Grid : v[2] \in {0, 6, 7} /\ v[3] \in {0, 8, 10}} : RmLess(x, y) /\ RmLess(y, z) => RmLess(x, z)
\* listing: ascending permutation
Keys == {<<48>>, <<49>>, <<50>>, <<49, 48>>, <<51>>}
ASSUME \A k1, k2, k3 \in Keys : (k1 # k2 /\ k2 # k3 /\ k1 # k3) =>
         LET E == <<[key |-> k1, name |-> <<97>>], [key |-> k2, name |-> <<98>>], [key |-> k3, name |-> <<99>>]>>
             r == RmListing(0, FALSE, E)
         IN /\ r.ret = "nil" /\ Len(r.list) = 3
            /\ \A i \in 1..2 : r.list[i].num < r.list[i + 1].num
            /\ \A i \in 1..3 : \E j \in 1..3 : r.list[j] = [num |-> RmVal(E[i].key), name |-> E[i].name]
ASSUME RmListing(1, FALSE, <<>>).ret = "err" /\ RmListing(0, TRUE, <<>>).ret = "err" /\ RmListing(0, FALSE, <<>>) = [ret |-> "nil", list |-> <<>>]
ASSUME RmListing(0, FALSE, <<[key |-> <<120>>, name |-> <<97>>]>>).ret = "err" /\ RmListing(0, FALSE, <<[key |-> <<48, 49>>, name |-> <<97>>]>>).ret = "free"
=============================================================================
