---------------------------- MODULE MC_LiveWire ----------------------------
(* C04 on the model: a conforming SENDER (serialises messages, may elide a repeated channel status,
   may inject real-time bytes anywhere -- also inside a message or a sysex --, cuts the stream into
   delivery chunks with arbitrary time deltas) composed with the LiveDecoder receiver.
   Invariant: whenever the sender has finished a message, the receiver has delivered exactly the
   messages sent, each stamped with the clock of the chunk carrying its last byte (sysex: a time
   between first and last byte).  This shows the receiver model is the right one, so that
   conformance of the code to the receiver model (Trace_Live, MC_LiveG walk) implies C04.          *)
EXTENDS LiveDecoder, TLC
CONSTANTS Msgs,      \* alphabet of messages (complete, with status)
          RT,        \* real-time bytes the sender may inject
          MaxMsgs, MaxRT, MaxClock, Cap
VARIABLES s,        \* receiver state
          sent,     \* messages fully put on the wire: [b, lo, hi]
          recv,     \* messages delivered: [b, lo, hi] as produced by Step
          pending,  \* bytes of the current message still to be put on the wire
          cur,      \* the current message (<<>> if none) and the clock at its first byte
          curT,
          last,     \* sender's running status register (0 = none)
          clock, nrt

vars == <<s, sent, recv, pending, cur, curT, last, clock, nrt>>
cfg == [cap |-> Cap, sysex |-> TRUE, as |-> TRUE, tc |-> TRUE]

Init == /\ s = Init0 /\ sent = <<>> /\ recv = <<>> /\ pending = <<>> /\ cur = <<>> /\ curT = 0
        /\ last = 0 /\ clock = 0 /\ nrt = 0

\* a new chunk starts: time passes (only between bytes, never "inside" a byte)
Tick == /\ clock < MaxClock /\ clock' = clock + 1
        /\ UNCHANGED <<s, sent, recv, pending, cur, curT, last, nrt>>

Feed(b) == LET r == Step(cfg, s, b, clock) IN /\ s' = r.s /\ recv' = recv \o r.out

\* start a message; a channel message whose status equals the running status may drop its status byte
Start(m, elide) ==
  /\ pending = <<>> /\ Len(sent) < MaxMsgs
  /\ elide => (IsChanStatus(m[1]) /\ m[1] = last /\ Len(m) > 1)
  /\ LET body == IF elide THEN Tail(m) ELSE m IN
     /\ Feed(body[1])
     /\ pending' = Tail(body)
     /\ cur' = m /\ curT' = clock
     /\ last' = IF IsChanStatus(m[1]) THEN m[1] ELSE 0
     /\ IF Len(body) = 1
          THEN sent' = Append(sent, Msg(m, clock, clock))
          ELSE UNCHANGED sent
  /\ UNCHANGED <<clock, nrt>>

Put == /\ pending # <<>>
       /\ Feed(pending[1])
       /\ pending' = Tail(pending)
       /\ IF Len(pending) = 1
            THEN sent' = Append(sent, Msg(cur, IF cur[1] = 240 THEN curT ELSE clock, clock))
            ELSE UNCHANGED sent
       /\ UNCHANGED <<cur, curT, last, clock, nrt>>

Inject(b) == /\ nrt < MaxRT /\ nrt' = nrt + 1
             /\ Feed(b)
             /\ sent' = IF pending = <<>> THEN Append(sent, Msg(<<b>>, clock, clock)) ELSE sent
             /\ UNCHANGED <<pending, cur, curT, last, clock>>

Next == \/ Tick \/ Put
        \/ \E m \in Msgs, e \in BOOLEAN : Start(m, e)
        \/ \E b \in RT : Inject(b)
Spec == Init /\ [][Next]_vars

\* real-time bytes injected inside a message are delivered before it; compare modulo that
NonRT(q) == SelectSeq(q, LAMBDA m : ~IsRealTime(m.b[1]))
OnlyRT(q) == SelectSeq(q, LAMBDA m : IsRealTime(m.b[1]))

\* every sent sysex is within the buffer in this configuration, so all of them must arrive
Delivered ==
  pending = <<>> =>
    /\ Len(NonRT(recv)) = Len(NonRT(sent))
    /\ \A i \in 1..Len(NonRT(sent)) :
         LET a == NonRT(sent)[i]  b == NonRT(recv)[i]
         IN /\ a.b = b.b
            /\ IF a.b[1] = 240 THEN a.lo <= b.lo /\ b.hi <= a.hi /\ b.lo <= b.hi
               ELSE a.lo = b.lo /\ a.hi = b.hi
\* real-time bytes come out at once, in order, whatever surrounds them
RealTimeImmediate == Len(OnlyRT(recv)) = nrt /\ \A i \in 1..Len(OnlyRT(recv)) : OnlyRT(recv)[i].lo = OnlyRT(recv)[i].hi
MsgsDef == { <<144, 1, 2>>, <<144, 3, 0>>, <<145, 1, 2>>, <<193, 5>>, <<224, 0, 64>>, <<241, 3>>, <<242, 1, 2>>,
             <<243, 9>>, <<246>>, <<240, 1, 247>>, <<240, 1, 2, 247>> }
NothingInvented == Len(NonRT(recv)) <= Len(NonRT(sent)) + 0
=============================================================================
