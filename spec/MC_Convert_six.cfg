CONSTANTS
  MaxEvents = 6
  Alphabet <- AlphaTiny
INIT Init
NEXT Next
INVARIANTS Satisfiable SatisfiableOpen Sensitive
CHECK_DEADLOCK FALSE
