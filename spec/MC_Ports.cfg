CONSTANTS
  Kind = "testdrv"
  MaxL = 2
  WithOpts = TRUE
  MaxMsgs = 3
INIT Init
NEXT Next
INVARIANTS FilteredNeverDelivered OnlyWhileListening ClosedReported NeverTwoListeners ActiveImpliesOpen
PROPERTY NoCallbackAfterStop
CHECK_DEADLOCK FALSE
