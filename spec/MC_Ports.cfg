CONSTANTS
  Kind = "testdrv"
  MaxL = 2
  MaxMsgs = 3
INIT Init
NEXT Next
INVARIANTS OnlyWhileListening ClosedReported NeverTwoListeners ActiveImpliesOpen
PROPERTY NoCallbackAfterStop
CHECK_DEADLOCK FALSE
