------------------------------- MODULE MC_Ports -------------------------------
(* All protocol-respecting call histories of a port pair as a labelled transition system.  TLC checks the
   lifecycle invariants; the dumped state graph (edges Call(fn, m)) is walked through the real testdrv driver
   (binding G): after every call the return value and the deliveries must equal ret / dlv of the target state. *)
EXTENDS Ports, TLC
VARIABLES s, ret, dlv, n      \* n: number of messages sent so far (message = its number: all distinct)
CONSTANT Kind, MaxL, MaxMsgs, WithOpts
vars == <<s, ret, dlv, n>>
Init == s = P0 /\ ret = "nil" /\ dlv = <<>> /\ n = 0
Do(call) == /\ Enabled(Kind, s, call)
            /\ LET r == PStep(Kind, s, call) IN s' = r.s /\ ret' = r.ret /\ dlv' = r.dlv
Call(fn) == /\ fn \in {"OpenIn", "CloseIn", "OpenOut", "CloseOut", "Listen", "Stop"}
            /\ (fn = "Listen" => s.lastL < MaxL)
            /\ Do([fn |-> fn]) /\ n' = n
Send == n < MaxMsgs /\ Do([fn |-> "Send", m |-> n + 1]) /\ n' = n + 1
\* C14 on the lifecycle level: a listener with options; messages of the three filterable classes
ListenOpts(o) == s.lastL < MaxL /\ Do([fn |-> "ListenOpts", opts |-> o]) /\ n' = n
SendClass(m) == n < MaxMsgs /\ Do([fn |-> "Send", m |-> m]) /\ n' = n + 1
Next == \/ \E fn \in {"OpenIn", "CloseIn", "OpenOut", "CloseOut", "Listen", "Stop"} : Call(fn)
        \/ Send
        \/ (WithOpts /\ \E o \in [sysex : BOOLEAN, as : BOOLEAN, tc : BOOLEAN] : ListenOpts(o))
        \/ (WithOpts /\ \E m \in {240, 248, 254} : SendClass(m))
Spec == Init /\ [][Next]_vars

OnlyWhileListening == dlv # <<>> => s.active # 0 /\ s.outOpen /\ dlv[1].l = s.active
ClosedReported == (ret = "closed") => ~s.outOpen
FilteredNeverDelivered == \A i \in 1..Len(dlv) : PassesOpts(s.opts, dlv[i].m)
NeverTwoListeners == s.active \in {0, s.lastL}
ActiveImpliesOpen == s.active # 0 => s.inOpen
\* after stop the listener is never called again (action property)
NoCallbackAfterStop == [][ \A i \in 1..Len(dlv') : dlv'[i].l = s.active /\ s.active # 0 ]_vars
=============================================================================
