---------------------------- MODULE Trace_Convert ----------------------------
(* Trace validation for C16 (SMF.ConvertToSMF1).  One line = one experiment on the REAL library: a single-track
   file built through the public API (the library's own view of it: format, division, the track event by
   event) and everything ConvertToSMF1 returned (format, division, tracks event by event, panic text).
   Deltas travel as 16-bit halves [hi, lo]; anything >= 2^30 becomes CvBig ("too large", never equal to a
   source tick).  The line is judged by Convert!ConvertOk, clause by clause.  Total: every line is consumed. *)
EXTENDS Convert, TLC, Json, IOUtils
VARIABLES l, bad

Trace == ndJsonDeserialize(IOEnv.VERIF_TRACE)

Ev(x) == [d |-> IF x.hi >= 16384 \/ x.hi < 0 \/ x.lo < 0 \/ x.lo > 65535 THEN CvBig ELSE x.hi * 65536 + x.lo, m |-> x.m]
Evs(t) == [i \in 1..Len(t) |-> Ev(t[i])]

(* Files longer than 2^30 ticks (up to any length: the absolute tick of an event need not fit 32 bits).  The clauses of
   Convert use the absolute ticks only through equality and order, so such a file is judged on an order-isomorphic
   copy: absolute ticks are computed exactly in two limbs [q, r] (tick = q * 2^28 + r), every tick that occurs in the
   source or in the result is replaced by its RANK among them (0 stays 0), and deltas become rank differences.       *)
WLimb == 268435456
W2(x)  == [q |-> x.hi \div 4096, r |-> (x.hi % 4096) * 65536 + x.lo]
HalvesOk(x) == x.hi >= 0 /\ x.hi <= 65535 /\ x.lo >= 0 /\ x.lo <= 65535
WAdd(a, b) == LET r == a.r + b.r IN IF r >= WLimb THEN [q |-> a.q + b.q + 1, r |-> r - WLimb] ELSE [q |-> a.q + b.q, r |-> r]
WLess(a, b) == a.q < b.q \/ (a.q = b.q /\ a.r < b.r)
W0 == [q |-> 0, r |-> 0]
\* absolute ticks of the events of a track given as halves
WAbs(t) == FoldLeft(LAMBDA acc, x : [t |-> WAdd(acc.t, W2(x)), s |-> Append(acc.s, WAdd(acc.t, W2(x)))], [t |-> W0, s |-> <<>>], t).s
WideSrcOk(e) ==
  /\ Len(e.src) <= 1000
  /\ \A i \in 1..Len(e.src) : HalvesOk(e.src[i]) /\ e.src[i].hi < 4096 /\ CvWellFormed(e.src[i].m)
  /\ LET t0 == [i \in 1..Len(e.src) |-> [d |-> 0, m |-> e.src[i].m]] IN CvTerminated(t0) \/ CvUnterminated(t0)
WideOk(e) == WideSrcOk(e) /\ \A k \in 1..Len(e.dtracks) : \A i \in 1..Len(e.dtracks[k]) : HalvesOk(e.dtracks[k][i])
Ranked(e) ==
  LET sa == WAbs(e.src)
      da == [k \in 1..Len(e.dtracks) |-> WAbs(e.dtracks[k])]
      all == {W0} \cup {sa[i] : i \in DOMAIN sa} \cup UNION {{da[k][i] : i \in DOMAIN da[k]} : k \in DOMAIN da}
      rank(t) == Cardinality({u \in all : WLess(u, t)})
      re(t, a) == [i \in 1..Len(t) |-> [d |-> rank(a[i]) - (IF i = 1 THEN 0 ELSE rank(a[i - 1])), m |-> t[i].m]]
  IN [src |-> re(e.src, sa), dtracks |-> [k \in 1..Len(e.dtracks) |-> re(e.dtracks[k], da[k])]]
\* is the source longer than the plain arithmetic of Convert can carry?
IsWide(e) == \/ \E i \in 1..Len(e.src) : ~HalvesOk(e.src[i])
             \/ FoldLeft(LAMBDA t, x : CvPlus(t, Ev(x).d), 0, e.src) >= CvBig

Judge(e) ==
  LET wide == IsWide(e)
      rk  == IF wide /\ WideOk(e) THEN Ranked(e) ELSE [src |-> <<>>, dtracks |-> <<>>]
      src == [div |-> e.div, track |-> IF wide THEN rk.src ELSE Evs(e.src)] IN
  IF ~e.previntact
    THEN [ok |-> FALSE, info |-> [id |-> e.id, genbug |-> FALSE, why |-> "the result of the previous conversion changed when this file was converted"]]
  ELSE IF ~e.again /\ e.pan = ""
    THEN [ok |-> FALSE, info |-> [id |-> e.id, genbug |-> FALSE, why |-> "converting the same value a second time gives another result (the first is judged below the same way)"]]
  ELSE IF wide /\ ~WideSrcOk(e)
    THEN [ok |-> FALSE, info |-> [id |-> e.id, genbug |-> TRUE, why |-> "source outside the domain of the property"]]
  ELSE IF wide /\ ~WideOk(e)
    THEN [ok |-> FALSE, info |-> [id |-> e.id, genbug |-> FALSE, why |-> "malformed delta in the result"]]
  ELSE IF ~(e.sfmt = 0 /\ e.sntracks = 1 /\ CvInDomain(src))
    THEN [ok |-> FALSE, info |-> [id |-> e.id, genbug |-> TRUE, why |-> "source outside the domain of the property"]]
  ELSE IF e.pan # ""
    THEN [ok |-> FALSE, info |-> [id |-> e.id, genbug |-> FALSE, why |-> "panic", pan |-> e.pan]]
  ELSE
    LET dest == [fmt |-> e.dfmt, div |-> e.ddiv,
                 tracks |-> IF wide THEN rk.dtracks ELSE [i \in 1..Len(e.dtracks) |-> Evs(e.dtracks[i])]]
        c == CvClauses(src, dest)
        s == CvSrcItems(src.track)
        okc == c.div /\ c.terminated /\ c.nothingLost /\ c.placement /\ c.order
    IN [ok |-> okc,
        info |-> [id |-> e.id, genbug |-> FALSE, why |-> "clauses", clauses |-> c,
                  nsrc |-> Len(s), ndest |-> IF c.terminated THEN Len(CvAllItems(dest.tracks)) ELSE -1,
                  ntracks |-> Len(dest.tracks),
                  unterminated |-> {i \in 1..Len(dest.tracks) : ~CvTerminated(dest.tracks[i])},
                  disordered |-> IF c.terminated
                                 THEN {i \in 1..Len(dest.tracks) :
                                         LET it == CvItems(dest.tracks[i]) IN it # SelectSeq(s, LAMBDA x : CvBelongs(it, x))}
                                 ELSE {}]]

Init == l = 1 /\ bad = <<>>
Next == \/ /\ l <= Len(Trace)
           /\ LET j == Judge(Trace[l])
              IN bad' = IF j.ok THEN bad ELSE Append(bad, [line |-> l, info |-> j.info])
           /\ l' = l + 1
        \/ /\ l = Len(Trace) + 1
           /\ ndJsonSerialize(IOEnv.VERIF_OUT, <<[consumed |-> Len(Trace)]>> \o bad)
           /\ l' = l + 1 /\ UNCHANGED bad
=============================================================================
