---------------------------- MODULE Trace_Convert ----------------------------
(* Trace validation for C16 (SMF.ConvertToSMF1).  One line = one experiment on the REAL library: a single-track
   file built through the public API (the library's own view of it: format, division, the track event by
   event) and everything ConvertToSMF1 returned (format, division, tracks event by event, panic text).
   Deltas travel as 16-bit halves [hi, lo]; anything >= 2^30 becomes CvBig ("too large", never equal to a
   source tick).  The line is judged by Convert!ConvertOk, clause by clause.  Total: every line is consumed. *)
EXTENDS Convert, TLC, Json, IOUtils
VARIABLES l, bad

Trace == ndJsonDeserialize(IOEnv.VERIF_TRACE)

Ev(x) == [d |-> IF x.hi >= 16384 \/ x.hi < 0 \/ x.lo < 0 \/ x.lo > 65535 THEN CvBig ELSE x.hi * 65536 + x.lo, m |-> x.m]
Evs(t) == [i \in 1..Len(t) |-> Ev(t[i])]

Judge(e) ==
  LET src == [div |-> e.div, track |-> Evs(e.src)] IN
  IF ~(e.sfmt = 0 /\ e.sntracks = 1 /\ CvInDomain(src))
    THEN [ok |-> FALSE, info |-> [id |-> e.id, genbug |-> TRUE, why |-> "source outside the domain of the property"]]
  ELSE IF e.pan # ""
    THEN [ok |-> FALSE, info |-> [id |-> e.id, genbug |-> FALSE, why |-> "panic", pan |-> e.pan]]
  ELSE
    LET dest == [fmt |-> e.dfmt, div |-> e.ddiv, tracks |-> [i \in 1..Len(e.dtracks) |-> Evs(e.dtracks[i])]]
        c == CvClauses(src, dest)
        s == CvItems(src.track)
        okc == c.div /\ c.terminated /\ c.nothingLost /\ c.placement /\ c.order
    IN [ok |-> okc,
        info |-> [id |-> e.id, genbug |-> FALSE, why |-> "clauses", clauses |-> c,
                  nsrc |-> Len(s), ndest |-> IF c.terminated THEN Len(CvAllItems(dest.tracks)) ELSE -1,
                  ntracks |-> Len(dest.tracks),
                  unterminated |-> {i \in 1..Len(dest.tracks) : ~CvTerminated(dest.tracks[i])},
                  disordered |-> IF c.terminated
                                 THEN {i \in 1..Len(dest.tracks) :
                                         LET it == CvItems(dest.tracks[i]) IN it # SelectSeq(s, LAMBDA x : CvBelongs(it, x))}
                                 ELSE {}]]

Init == l = 1 /\ bad = <<>>
Next == \/ /\ l <= Len(Trace)
           /\ LET j == Judge(Trace[l])
              IN bad' = IF j.ok THEN bad ELSE Append(bad, [line |-> l, info |-> j.info])
           /\ l' = l + 1
        \/ /\ l = Len(Trace) + 1
           /\ ndJsonSerialize(IOEnv.VERIF_OUT, <<[consumed |-> Len(Trace)]>> \o bad)
           /\ l' = l + 1 /\ UNCHANGED bad
=============================================================================
