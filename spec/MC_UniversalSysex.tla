------------------------- MODULE MC_UniversalSysex -------------------------
(* X04 on the model.  Every (helper, arguments) over boundary values -- inside the domain and outside it (128, 255 for
   byte parameters, 16384 / 65535 for the 14-bit volume, channels 16, 17, 128, 255 for the GM helpers) -- is one state.
   Invariants:
     TypeOK          the generator of this model only produces what the Go signatures can carry
     DomainExact     inside the domain the pattern IS one message (every position a singleton)
     CanonAccepted   the message(s) the pattern describes (smallest and largest byte of every position) are accepted
                     and are well formed sysex messages (F0, data bytes, F7)
     AcceptSound     of all single-byte overwrites (8-bit and status values too), truncations and extensions of that
                     message the acceptance predicate of the trace specification admits only well formed messages, and
                     inside the domain only the message itself
     StdClass        a receiver reading the header finds universal (non) real time, the device id given and the sub-ids
                     and data length the tables of the standard assign to the message
     Recover         ... and reads the arguments back out of the message (14-bit values LSB first): the layout is injective
     Payload         midi.SysEx: the bytes between F0 and F7 are the payload
     GmWell          every message of gm.Reset / gm.GMProgram is a well formed channel message, one channel, accepted
     GmReaches       a General MIDI receiver in any other state ends in the GM default state (bank 0 ACTIVE, ...), other
                     channels are not touched; and the model does tell the order: program change before bank select
                     leaves the old bank active                                                                    *)
EXTENDS UniversalSysex, TLC
VARIABLES k, v

AB   == {0, 1, 64, 127, 128, 255}
VolB == {0, 1, 127, 128, 129, 255, 256, 8191, 8192, 16383, 16384, 65535}
TcB  == {0, 127, 128}
CmdB == {0, 1, 2, 62, 63, 64, 68, 71, 126, 127, 128, 255}
TcBThorough  == {0, 59, 127, 128}            \* MC_UniversalSysex_thorough.cfg: TcB <- TcBThorough, CmdB <- CmdBThorough
CmdBThorough == 0..255
PX   == {0, 1, 2, 7, 126, 127, 128, 240, 247, 255}
GmCh == 0..17 \cup {128, 255}
Strs(S, n) == UNION { [1..m -> S] : m \in 0..n }
ReplyArgs == {[i \in 1..9 |-> y] : y \in AB} \cup {[i \in 1..9 |-> i]}
             \cup {[i \in 1..9 |-> IF i = j THEN y ELSE i + 10] : j \in 1..9, y \in AB}
V(h, a, d) == [h |-> h, a |-> a, data |-> d]

Vals(h, x) ==
  CASE h \in {"rt.generic", "nrt.generic"} -> {V(h, <<x, s1, s2>>, <<>>) : s1 \in AB, s2 \in AB}
    [] h = "rt.mastervolume" -> {V(h, <<x, vol>>, <<>>) : vol \in VolB}
    [] h = "nrt.gmsystem" -> {V(h, <<x, e>>, <<>>) : e \in {0, 1}}
    [] h \in {"nrt.identityrequest", "mmc.identity"} -> {V(h, <<x>>, <<>>)}
    [] h = "nrt.identityreply" -> {V(h, <<x>> \o r, <<>>) : r \in ReplyArgs}
    [] h = "mmc.message" -> {V(h, <<x, c, r>>, d) : c \in CmdB, r \in {0, 1}, d \in {<<>>, <<1>>, <<6, 1, 0, 0, 0, 0, 0>>}}
    [] h = "mmc.goto" -> {V(h, <<x>> \o tc, <<>>) : tc \in [1..5 -> TcB]}
    [] h = "midi.sysex" -> {V(h, <<>>, <<>>)} \cup {V(h, <<>>, <<x>> \o s) : s \in Strs({0, 127, 128, 247}, 3)}
    [] h \in GmHelpers -> {V(h, <<ch, x>>, <<>>) : ch \in GmCh}
    [] OTHER -> {}

Init == k = "seed" /\ v \in [h : UxHelpers \cup GmHelpers, x : AB]
Next == k = "seed" /\ k' = "val" /\ v' \in Vals(v.h, v.x)

Ux == k = "val" /\ v.h \in UxHelpers
Gm == k = "val" /\ v.h \in GmHelpers
Pat == UxPattern(v.h, v.a, v.data)
Pick(p, hi) == [i \in 1..Len(p) |-> CHOOSE x \in p[i] : \A y \in p[i] : IF hi THEN y <= x ELSE x <= y]
Canon(hi) == IF v.h = "midi.sysex" THEN <<240>> \o v.data \o <<247>>
             ELSE IF Pat.tail THEN Pick(Pat.pre, hi) \o <<247>> ELSE Pick(Pat.pre, hi)
InDom == UxInDomain(v.h, v.a, v.data)
Perturb(b) == {[b EXCEPT ![p] = x] : p \in 1..Len(b), x \in PX}
              \cup {SubSeq(b, 1, Len(b) - 1), SubSeq(b, 2, Len(b)), b \o <<0>>, b \o <<247>>, <<>>}

TypeOK == k = "val" => UxArgTypeOk(v.h, v.a, v.data)
DomainExact == Ux /\ InDom => UxExact(v.h, v.a, v.data) /\ Canon(FALSE) = UxBuild(v.h, v.a, v.data) /\ Canon(TRUE) = Canon(FALSE)
CanonAccepted == Ux => \A hi \in BOOLEAN :
  LET c == Canon(hi) IN
  /\ UxAccept(v.h, v.a, v.data, c)
  /\ (~Pat.raw => UxWellFormed(c))
AcceptSound == Ux =>
  LET c0 == Canon(FALSE)
      c1 == Canon(TRUE)
      raw == Pat.raw
      dom == InDom
  IN \A c \in Perturb(c0) \cup Perturb(c1) :
       UxAccept(v.h, v.a, v.data, c) => /\ (raw \/ UxWellFormed(c))
                                         /\ Len(c) >= 2 /\ c[1] = 240 /\ c[Len(c)] = 247
                                         /\ (dom => c = c0)
StdClass == Ux /\ InDom /\ v.h # "midi.sysex" =>
  LET c == UxClass(Canon(FALSE))
      n == UxStdName(v.h, v.a)
  IN /\ c.ok /\ c.dev = v.a[1]
     /\ (n # "" => <<c.rt, c.s1, c.s2, Len(c.data)>> = UxStd[n])
     /\ (v.h = "rt.generic" => c.rt) /\ (v.h = "nrt.generic" => ~c.rt)
     /\ (v.h = "mmc.message" => c.rt /\ c.s1 = 6 /\ c.s2 = v.a[2] /\ c.data = <<>>)
     /\ (v.h = "mmc.goto" => SubSeq(c.data, 1, 2) = <<6, 1>>)            \* byte count 6, information field 01 = TARGET
Recover == Ux /\ InDom /\ v.h # "midi.sysex" => UxArgsOf(v.h, UxClass(Canon(FALSE))) = v.a
Payload == Ux /\ v.h = "midi.sysex" /\ InDom =>
  LET b == Canon(FALSE) IN Len(b) = Len(v.data) + 2 /\ SubSeq(b, 2, Len(b) - 1) = v.data /\ UxWellFormed(b)

GmWell == Gm => \A ms \in {GmBuild(v.h, v.a)} :
  /\ GmAccept(v.h, v.a, ms)
  /\ \A i \in 1..Len(ms) : GmWellMsg(ms[i])
  /\ Len(ms) = IF v.h = "gm.reset" THEN 7 ELSE 2
Swap12(ms) == <<ms[2], ms[1]>> \o SubSeq(ms, 3, Len(ms))
GmReaches == Gm /\ v.a[1] \in 0..15 /\ v.a[2] \in UxB7 =>
  LET ms == GmBuild(v.h, v.a)
      ch == v.a[1]
  IN \A x \in {1, 5, 99} :
       LET end == GmRun(GmDirty(x), ms, ch) IN
       /\ (v.h = "gm.reset" => end = GmDefault(v.a[2]))
       /\ end.bank = 0 /\ end.prog = v.a[2]
       /\ GmRun(GmDirty(x), ms, (ch + 1) % 16) = GmDirty(x)
       /\ GmRun(GmDirty(x), Swap12(ms), ch).bank = x                      \* the model tells the order

\* static facts about the tables
ASSUME \A n1, n2 \in DOMAIN UxStd : n1 # n2 => SubSeq(UxStd[n1], 1, 3) # SubSeq(UxStd[n2], 1, 3)
ASSUME Len(GmPercussion) = 47 /\ GmPercKey("AcousticBassDrum") = 35 /\ GmPercKey("OpenTriangle") = 81 /\ GmPercKey("x") = -1
ASSUME \A i, j \in 1..Len(GmPercussion) : GmPercussion[i] = GmPercussion[j] => i = j
ASSUME GmPercAccept(GmPercussion, [i \in 1..47 |-> 34 + i]) /\ ~GmPercAccept(GmPercussion, [i \in 1..47 |-> 33 + i])
=============================================================================
