------------------------------- MODULE MC_Vlq -------------------------------
(* The VLQ codec on the model: for every digit string over a boundary alphabet (<= 4 digits)
   encode/decode are inverse, the encoding is canonical, and canonical encodings are UNIQUE: any canonical
   byte string (over a boundary byte alphabet) that denotes the same number is the encoding.            *)
EXTENDS Vlq, TLC, FiniteSets
VARIABLES d, b
DigitAlpha == {0, 1, 64, 127}
ByteAlpha  == {0, 1, 127, 128, 255}
Strings(S, n) == UNION { [1..k -> S] : k \in 1..n }

Init == d \in Strings(DigitAlpha, 4) /\ b \in Strings(ByteAlpha, 4)
Next == UNCHANGED <<d, b>>

Inverse == LET c == Strip(d) IN
  /\ IsCanonicalVlq(VlqBytes(c))
  /\ DigitsOfVlq(VlqBytes(c)) = c
  /\ DigitsOf(DigitsVal(c)) = c
  /\ VlqOfInt(DigitsVal(c)) = VlqBytes(c)
  /\ Len(VlqBytes(c)) = (IF DigitsVal(c) < 128 THEN 1 ELSE IF DigitsVal(c) < 16384 THEN 2 ELSE IF DigitsVal(c) < 2097152 THEN 3 ELSE 4)
Unique == (IsCanonicalVlq(b) /\ Strip(DigitsOfVlq(b)) = Strip(d)) => b = VlqBytes(Strip(d))
\* non-canonical forms denote the same number but are not canonical
Padded == LET c == Strip(d) IN Len(c) < 4 =>
            LET p == <<128>> \o VlqBytes(c) IN IsVlq(p) /\ ~IsCanonicalVlq(p) /\ Strip(DigitsOfVlq(p)) = c
=============================================================================
