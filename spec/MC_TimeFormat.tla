---------------------------- MODULE MC_TimeFormat ----------------------------
(* Model check of the X06 specification (TimeFormat.tla, KeySig.tla) on bounded domains.  Two levels of states so
   that TLC's workers share the work: Init -> (kind, x) -> (kind, x, y).  Invariants (each is a theorem about the
   SPECIFICATION; the library is bound to the same operators by Trace_TimeFormat):
     Word      all 2^16 division words: Encode(Decode(w)) = w, bit 15 <=> SMPTE, decoded rates lie in 1..128, the
               writer rule accepts exactly the word of a time format (neighbouring / bit-15-stripped words rejected),
               writer rule + reader rule give the time format back
     NoteLen   MetricTicks q (Thorough: all 65536; quick: boundaries + a stride): the acceptable note lengths are
               exactly the one or two nearest integers, two only on a genuine tie; In64ths accepts floor(16n/r) only,
               a quarter is 16 and a 64th note is one 64th
     Inv       corner resolutions x tempi (integers, hundredths, thousandths) x tick counts up to 2^32-1:
               every duration the D rule accepts contains the mathematical rounding, is floor or ceiling when D < 2^49,
               converts back (T rule) to exactly the same tick count, and is monotone from n to n + 1
     Inv2      ... x durations: every tick count the T rule accepts converts back to within one tick (+ 1 ns) of the
               duration; monotone from d to d + 1
     Keys      all 15 x 2 signatures: pitch by letter = pitch by stacked fifths, names are pairwise distinct and
               KsNamed inverts KsName, relative minor a minor third below, enharmonic pairs (5#/7b, 6#/6b, 7#/5b) share the
               tonic, the message bytes decode back to (sf, mi)
   Sanity (evaluated in Init): anchors from the standard and from music theory, digit runs, tempo changes.        *)
EXTENDS TimeFormat, KeySig, TLC, FiniteSets
CONSTANT Thorough
VARIABLES kind, x, y

\* ------------------------------------------------------------------ anchors
Chars960 == <<57, 54, 48, 32, 77, 101, 116, 114, 105, 99, 84, 105, 99, 107, 115>>                       \* "960 MetricTicks"
CharsDrop == <<83, 77, 80, 84, 69, 51, 48, 68, 114, 111, 112, 70, 114, 97, 109, 101, 32, 56, 48, 32, 115, 117, 98>>   \* "SMPTE30DropFrame 80 sub"
Chars25 == <<83, 77, 80, 84, 69, 50, 53, 32, 52, 48, 32, 115>>                                          \* "SMPTE25 40 s"
Cs3 == << [t |-> 0, bpm |-> 100], [t |-> 10, bpm |-> 60], [t |-> 10, bpm |-> 90] >>
Sanity ==
  \* SMF 1.0: "thirty-frame time code, bit resolution: E250 hex"; millisecond timing = 25 fps x 40 = E728
  /\ TfDecodeWord(57936) = TfSmpte(30, 80) /\ TfEncode(TfSmpte(30, 80)) = 57936
  /\ TfEncode(TfSmpte(25, 40)) = 59176 /\ TfDecodeWord(59176) = TfSmpte(25, 40)
  /\ {TfEncode(TfSmpte(f, 0)) \div 256 : f \in TfStdFps} = {232, 231, 227, 226}       \* E8 E7 E3 E2
  /\ TfDecodeWord(96) = TfMetric(96) /\ TfDecodeWord(32767) = TfMetric(32767) /\ TfDecodeWord(32768) = TfSmpte(128, 0)
  /\ TfDecodeWord(65535) = TfSmpte(1, 255)
  \* writer rule
  /\ TfWriteOk(TfMetric(0), FALSE, 960) /\ ~TfWriteOk(TfMetric(0), FALSE, 0) /\ ~TfWriteOk(TfMetric(0), TRUE, 0)
  /\ TfWriteOk(TfMetric(40000), TRUE, 0) /\ TfWriteOk(TfMetric(40000), FALSE, 32767) /\ ~TfWriteOk(TfMetric(40000), FALSE, 40000)
  /\ ~TfWriteOk(TfSmpte(24, 4), TRUE, 0) /\ TfWriteOk(TfSmpte(24, 4), FALSE, 59396)
  /\ TfWriteOk(TfSmpte(60, 4), TRUE, 0) /\ TfWriteOk(TfSmpte(60, 4), FALSE, 196 * 256 + 4)
  /\ TfWriteOk(TfSmpte(0, 0), TRUE, 0) /\ ~TfWriteOk(TfSmpte(0, 0), FALSE, 0)               \* a "metric 0" file is not TimeCode{0,0}
  /\ TfWriteOk(TfSmpte(200, 7), TRUE, 0) /\ ~TfWriteOk(TfSmpte(200, 7), FALSE, 56 * 256 + 7)
  /\ \A f \in ((0..255) \ (1..128)) : \A w \in {0, 56 * 256 + 7, (256 - f) * 256, 65535} : ~TfWriteOk(TfSmpte(f, w % 256), FALSE, w)
  \* reader rule
  /\ TfReadOk(0, [kind |-> "error", a |-> 0, b |-> 0]) /\ TfReadOk(0, TfMetric(0)) /\ ~TfReadOk(0, TfMetric(960))
  /\ ~TfReadOk(96, [kind |-> "error", a |-> 0, b |-> 0]) /\ TfReadOk(59396, TfSmpte(24, 4)) /\ ~TfReadOk(59396, TfMetric(59396))
  \* arithmetic anchors: 120 BPM, 96 ticks per quarter: one quarter = 0.5 s; a whole note at 960 = 3840 ticks
  /\ TfDurOk(BnOfDec(<<5,0,0,0,0,0,0,0,0>>), BnOfNat(96), BnOfNat(120), <<1>>, 96)
  /\ ~TfDurOk(BnOfDec(<<5,0,0,0,0,0,0,0,1>>), BnOfNat(96), BnOfNat(120), <<1>>, 96)
  /\ TfTicksOk(BnOfNat(96), BnOfDec(<<5,0,0,0,0,0,0,0,0>>), BnOfNat(120), <<1>>, 96)
  /\ TfTicksOk(BnOfNat(3840), BnOfDec(<<2,0,0,0,0,0,0,0,0,0>>), BnOfNat(120), <<1>>, 0)
  /\ ~TfTicksOk(BnOfNat(3841), BnOfDec(<<2,0,0,0,0,0,0,0,0,0>>), BnOfNat(120), <<1>>, 0)
  /\ TfDivFloor(BnOfNat(1000000), BnOfNat(7)) = BnOfNat(142857) /\ TfDivFloor(<<>>, <<5>>) = <<>>
  /\ TfDivFloor(BnMul(BnPow2(63), BnOfNat(3)), BnOfNat(3)) = BnPow2(63)
  /\ Tf60e9 = BnOfDec(<<6,0,0,0,0,0,0,0,0,0,0>>)
  /\ \A k \in {0, 1, 14, 15, 16, 29, 30, 31, 50, 51, 63} : \A a \in {<<>>, <<1>>, <<32767>>, <<0, 1>>, Tf60e9} : TfShl(a, k) = BnMul(a, BnPow2(k))
  /\ TfBpmDomain(<<1>>, <<1>>) /\ TfBpmDomain(BnOfNat(1000), <<1>>) /\ ~TfBpmDomain(BnOfNat(1001), <<1>>) /\ ~TfBpmDomain(BnOfNat(99), BnOfNat(100))
  /\ TfDyNum(BnOfNat(15), 3) = BnOfNat(120) /\ TfDyDen(3) = <<1>> /\ TfDyDen(-2) = BnOfNat(4) /\ TfDyNum(BnOfNat(481), -2) = BnOfNat(481)
  \* texts
  /\ TfDigitRuns(Chars960) = <<960>> /\ TfMetricStringOk(Chars960, 0) /\ TfMetricStringOk(Chars960, 960) /\ ~TfMetricStringOk(Chars960, 96)
  /\ TfDigitRuns(CharsDrop) = <<30, 80>> /\ TfTimeCodeStringOk(CharsDrop, 29, 80) /\ ~TfTimeCodeStringOk(CharsDrop, 30, 80)
  /\ TfTimeCodeStringOk(Chars25, 25, 40) /\ ~TfTimeCodeStringOk(Chars25, 25, 4) /\ ~TfTimeCodeStringOk(Chars25, 29, 40)
  /\ TfDigitRuns(<<>>) = <<>> /\ TfDigitRuns(<<65, 49, 66, 50, 51>>) = <<1, 23>>
  /\ TfDigitRuns(<<49, 50, 51, 52, 53, 54, 55, 56, 57, 48, 49, 50>>) = <<-1>>
  \* tempo changes: of two changes on one tick the later one is in force
  /\ TfSorted(Cs3) /\ TfTempoAt(<<>>, 5) = 120 /\ TfTempoAt(Cs3, 0) = 100 /\ TfTempoAt(Cs3, 9) = 100 /\ TfTempoAt(Cs3, 10) = 90
  /\ TfChangeAt(Cs3, -1) = 0 /\ TfTempoAt(Cs3, -1) = 120 /\ TfChangeAt(Cs3, 1000) = 3
  \* keys
  /\ \A p \in -8..12 : KsPitchAt(p) = KsPitchByFifths(p)
  /\ <<KsName(0, 0), KsName(0, 1), KsName(1, 0), KsName(-1, 0), KsName(2, 1), KsName(-3, 1)>> = <<"CMaj", "AMin", "GMaj", "FMaj", "BMin", "CMin">>
  /\ <<KsName(6, 0), KsName(-6, 0), KsName(6, 1), KsName(-6, 1)>> = <<"FsharpMaj", "GbMaj", "DsharpMin", "EbMin">>
  /\ <<KsName(7, 0), KsName(-7, 0), KsName(7, 1), KsName(-7, 1)>> = <<"CsharpMaj", "CbMaj", "AsharpMin", "AbMin">>
  /\ <<KsTonic(0, 0), KsTonic(0, 1), KsTonic(7, 0), KsTonic(-7, 0), KsTonic(7, 1), KsTonic(-7, 1)>> = <<0, 9, 1, 11, 10, 8>>
  /\ KsMsg(-1, 1) = <<255, 89, 2, 255, 1>> /\ KsMsg(7, 0) = <<255, 89, 2, 7, 0>> /\ KsMsg(-7, 0) = <<255, 89, 2, 249, 0>>
  /\ Cardinality(KsAllNames) = 30 /\ Cardinality({KsName(sf, mi) : sf \in {s \in KsSfs : KsHasLibName(s)}, mi \in KsModes}) = 26
  /\ KsKey(-2, 1) = [key |-> 7, num |-> 2, major |-> FALSE, flat |-> TRUE]                   \* G minor, two flats

\* ------------------------------------------------------------------ domains
ResCorners == {0, 1, 2, 3, 24, 96, 480, 960, 15360, 32767, 32768, 65535}
QSet == IF Thorough THEN 0..65535
        ELSE ResCorners \cup {4, 5, 15, 16, 17, 255, 256, 257, 511, 512, 513, 959, 961, 32766, 32769, 65534} \cup {q \in 0..65535 : q % 61 = 7}
\* tempi as fractions <<bn, bd>> (integers, hundredths, thousandths)
Bpms == << <<1, 1>>, <<101, 100>>, <<60, 1>>, <<120, 1>>, <<12050, 100>>, <<120001, 1000>>, <<14285, 100>>, <<333333, 1000>>, <<99999, 100>>, <<1000, 1>> >>
ResInv == IF Thorough THEN ResCorners \cup {5, 7, 48, 120, 192, 384, 1920, 3840, 9600, 16383, 16384, 32766, 40000} ELSE ResCorners
BpmIdx == IF Thorough THEN 1..Len(Bpms) ELSE {1, 2, 5, 6, 9, 10}
Big2p28 == BnPow2(28)
TickSamples == {<<>>, <<1>>, <<2>>, <<3>>, <<7>>, <<95>>, <<96>>, <<97>>, <<959>>, <<960>>, <<961>>, BnOfNat(1000000),
                BnSub(Big2p28, <<1>>), Big2p28, BnSub(BnPow2(32), <<3>>), BnSub(BnPow2(32), <<2>>)}
DurSamples == {<<>>, <<1>>, <<2>>, <<999>>, BnOfNat(1000000), BnOfNat(499999999), BnOfNat(500000000), BnOfNat(500000001),
               Tf60e9, BnMulSmall(Tf60e9, 60), BnMulSmall(BnMulSmall(Tf60e9, 60), 24)}

Init == Sanity /\ kind = "init" /\ x = 0 /\ y = 0
Next == \/ /\ kind = "init"
           /\ \/ kind' = "preword" /\ x' \in 0..255 /\ y' = 0
              \/ kind' = "preres" /\ x' \in {q \div 256 : q \in QSet} /\ y' = 0
              \/ kind' = "preinv" /\ x' \in ResInv /\ y' = 0
              \/ kind' = "preinv2" /\ x' \in ResInv /\ y' = 0
              \/ kind' = "prekey" /\ x' \in KsSfs /\ y' = 0
        \/ kind = "preword" /\ kind' = "word" /\ y' \in 0..255 /\ x' = x
        \/ kind = "preres" /\ kind' = "res" /\ y' \in {q \in QSet : q \div 256 = x} /\ x' = x
        \/ kind = "preinv" /\ kind' = "inv" /\ y' \in {<<b, n>> : b \in BpmIdx, n \in TickSamples} /\ x' = x
        \/ kind = "preinv2" /\ kind' = "inv2" /\ y' \in {<<b, d>> : b \in BpmIdx, d \in DurSamples} /\ x' = x
        \/ kind = "prekey" /\ kind' = "key" /\ y' \in KsModes /\ x' = x

\* ------------------------------------------------------------------ Word
Word == kind = "word" =>
  LET w == x * 256 + y   tf == TfDecodeWord(w)
      mutants == {(w + 1) % 65536, (w + 65535) % 65536, (w + 256) % 65536, (w + 65280) % 65536, w % 32768, (w + 32768) % 65536, 0, 960, 32767} \ {w}
  IN /\ TfHasWord(tf) /\ TfEncode(tf) = w
     /\ (tf.kind = "smpte") = (w >= 32768)
     /\ (tf.kind = "smpte" => tf.a \in 1..128 /\ tf.b \in 0..255 /\ (256 - tf.a) = w \div 256 /\ tf.b = w % 256)
     /\ (tf.kind = "metric" => tf.a = w)
     /\ (w # 0 => /\ TfWriteOk(tf, FALSE, w) /\ TfReadOk(w, tf)
                  /\ \A m \in mutants : ~TfWriteOk(tf, FALSE, m)
                  /\ \A m \in mutants : ~TfReadOk(w, TfDecodeWord(m))
                  /\ ~TfReadOk(w, [kind |-> "error", a |-> 0, b |-> 0]))
     \* a nil-error write followed by a read gives the time format back (or 960 for the zero value)
     /\ \A w2 \in {w} \cup mutants : \A g \in {TfDecodeWord(w2), TfDecodeWord(w)} :
          (w # 0 /\ TfWriteOk(tf, FALSE, w2) /\ TfReadOk(w2, g)) => g = tf
     \* the standard rates must not fail
     /\ (tf.kind = "smpte" /\ tf.a \in TfStdFps => ~TfWriteOk(tf, TRUE, 0))
     /\ (tf.kind = "metric" /\ w # 0 => ~TfWriteOk(tf, TRUE, 0))

\* ------------------------------------------------------------------ NoteLen
NoteLen == kind = "res" =>
  LET q == y   r == TfRes(q) IN
  /\ r \in 1..65535 /\ (q # 0 => r = q)
  /\ \A k \in 1..TfMaxK :
       LET dn == TfNoteLenDown(q, k)   up == TfNoteLenUp(q, k)   tie == (r % (2^k)) * 2 = 2^k IN
       /\ TfNoteLenOk(dn, q, k) /\ TfNoteLenOk(up, q, k)
       /\ up - dn = (IF tie THEN 1 ELSE 0)
       /\ ~TfNoteLenOk(dn - 1, q, k) /\ ~TfNoteLenOk(up + 1, q, k)
       /\ (r % (2^k) = 0 => dn = r \div (2^k))                        \* exact when the resolution is divisible
       /\ (r >= 2^k => TfNoteLenUp(q, k) <= TfNoteLenDown(q, k - 1))           \* shorter notes are not longer
  /\ TfNoteLenOk(r, q, 0) /\ ~TfNoteLenOk(r + 1, q, 0) /\ ~TfNoteLenOk(r - 1, q, 0)
  /\ \A n \in {0, 1, r - 1, r, r + 1, 4 * r, 4 * r + 1, 1000 * r - 1, 1999 * r + 1} :
       LET v == (16 * n) \div r IN
       /\ TfIn64Ok(BnOfNat(v), q, BnOfNat(n))
       /\ ~TfIn64Ok(BnOfNat(v + 1), q, BnOfNat(n))
       /\ (v > 0 => ~TfIn64Ok(BnOfNat(v - 1), q, BnOfNat(n)))
  /\ TfIn64Ok(BnOfNat(16), q, BnOfNat(r)) /\ TfIn64Ok(BnOfNat(64), q, BnOfNat(4 * r))
  /\ (r % 16 = 0 => TfIn64Ok(<<1>>, q, BnOfNat(TfNoteLenUp(q, 4))))
  /\ LET n == BnSub(TfDeltaLimit, <<1>>)   v == TfDivFloor(BnMulSmall(n, 16), BnOfNat(r))
     IN TfIn64Ok(v, q, n) /\ ~TfIn64Ok(BnAdd(v, <<1>>), q, n) /\ ~TfIn64Ok(BnSub(v, <<1>>), q, n)

\* ------------------------------------------------------------------ Inv / Inv2
Around(c) == {c, BnAdd(c, <<1>>), BnAdd(c, <<2>>)} \cup (IF c = <<>> THEN {} ELSE {BnSub(c, <<1>>)})
\* durations the D rule accepts for n ticks
OkDur(n, bn, bd, q) == {c \in Around(TfDivFloor(TfDurNum(n, bd), TfDurDen(bn, q))) : TfDurOk(c, n, bn, bd, q)}
\* tick counts the T rule accepts for d nanoseconds
OkTicks(d, bn, bd, q) == {c \in Around(TfDivFloor(TfTickNum(d, bn, q), TfTickDen(bd))) : TfTicksOk(c, d, bn, bd, q)}

Inv == kind = "inv" =>
  LET q == x   bn == BnOfNat(Bpms[y[1]][1])   bd == BnOfNat(Bpms[y[1]][2])   n == y[2]   n1 == BnAdd(n, <<1>>)
      num == TfDurNum(n, bd)   den == TfDurDen(bn, q)   fl == TfDivFloor(num, den)   ok == OkDur(n, bn, bd, q)
  IN /\ TfBpmDomain(bn, bd)
     /\ (TfDurDomain(n1, bn, bd, q) =>
          /\ ok # {}
          /\ \E c \in {fl, BnAdd(fl, <<1>>)} : TfIsNearest(c, num, den)
          /\ \A c \in Around(fl) : TfIsNearest(c, num, den) => c \in ok
          /\ (BnLt(fl, BnPow2(49)) => ok \subseteq {fl, BnAdd(fl, <<1>>)})
          /\ (BnLt(fl, BnPow2(49)) /\ BnMul(fl, den) = num => ok = {fl})                         \* an exact value has one answer
          \* below 2^53 ns (104 days) the float64 allowance is far below one tick:
          /\ (BnLt(fl, BnPow2(53)) =>
                /\ \A d \in ok : TfTicksDomain(d, bn, bd, q) => OkTicks(d, bn, bd, q) = {n}       \* Ticks(Duration(n)) = n
                /\ \A d1 \in ok : \A d2 \in OkDur(n1, bn, bd, q) : BnLeq(d1, d2)))                \* monotone

Inv2 == kind = "inv2" =>
  LET q == x   bn == BnOfNat(Bpms[y[1]][1])   bd == BnOfNat(Bpms[y[1]][2])   d == y[2]   d1 == BnAdd(d, <<1>>)
      num == TfTickNum(d, bn, q)   den == TfTickDen(bd)   fl == TfDivFloor(num, den)   ok == OkTicks(d, bn, bd, q)
      tickNum == TfDurNum(<<1>>, bd)   tickDen == TfDurDen(bn, q)                                \* duration of one tick
  IN TfTicksDomain(d1, bn, bd, q) =>
       /\ ok # {}
       /\ \A c \in Around(fl) : TfIsNearest(c, num, den) => c \in ok
       /\ ok \subseteq {fl, BnAdd(fl, <<1>>)}
       /\ \A t \in ok : \A d2 \in OkDur(t, bn, bd, q) :
            BnLeq(BnMul(BnAbsDiff(d2, d), tickDen), BnAdd(tickNum, tickDen))                      \* |d2 - d| <= one tick + 1 ns
       /\ \A t1 \in ok : \A t2 \in OkTicks(d1, bn, bd, q) : BnLeq(t1, t2)

\* ------------------------------------------------------------------ Keys
Keys == kind = "key" =>
  LET sf == x   mi == y   p == KsPos(sf, mi)   m == KsMsg(sf, mi)   k == KsKey(sf, mi) IN
  /\ KsPitchAt(p) = KsPitchByFifths(p)
  /\ \A s2 \in KsSfs : \A m2 \in KsModes : (<<s2, m2>> # <<sf, mi>>) => KsName(s2, m2) # KsName(sf, mi)
  /\ KsNamed(KsName(sf, mi)) = <<sf, mi>>
  /\ KsAccAt(p) \in -1..1
  /\ KsTonic(sf, 1) = (KsTonic(sf, 0) + 9) % 12
  /\ (sf - 12 \in KsSfs => KsTonic(sf - 12, mi) = KsTonic(sf, mi) /\ KsName(sf - 12, mi) # KsName(sf, mi))
  /\ (sf + 1 \in KsSfs => KsTonic(sf + 1, mi) = (KsTonic(sf, mi) + 7) % 12)                      \* one more sharp: a fifth up
  /\ Len(m) = 5 /\ m[4] \in 0..255
  /\ (IF m[4] >= 128 THEN m[4] - 256 ELSE m[4]) = sf /\ m[5] = mi
  /\ k.key \in 0..11 /\ k.num \in 0..7 /\ KsSfOf(k.num, k.flat) = sf /\ k.major = (mi = 0)
  /\ (sf = 0 => ~k.flat)
=============================================================================
