------------------------------- MODULE Player -------------------------------
(* C12 -- playback (TracksReader.Play / MultiPlay).  Written from the property text and DESIGN C.5, not
   from the Go code.

   A play P is a record
     tracks : every track of the file in file order (index i = track number i-1); a track is a sequence of
              events [us |-> scheduled time in microseconds, m |-> message bytes as stored in the file]
     sel    : SET of track numbers given to ReadTracks/ReadTracksFrom ({} selects every track)
     ports  : sequence of [tr |-> track number or -1, port |-> port id]  (the map handed to MultiPlay; keys unique)

   Scheduled times are INPUT here (that they follow the tempo map is property C11); within one track they
   must be non-decreasing (WellFormed), which is the domain of the property.

   Classes of events (by the status byte, SMF 1.0):
     "chan"   0x80..0xEF  channel voice message  -> MUST be sent exactly once
     "meta"   0xFF                               -> must NEVER be sent
     "other"  0xF0 / 0xF7 sysex and escape       -> the property is silent (the library documents IsPlayable as
                                                    "can be sent to an instrument"): MAY be sent once, in place, or skipped

   State: cur[i] = index of the head (next unconsumed event) of track i.  Two atomic actions per active track:
     Skip(i)  the head is not a "chan" event: it is passed over silently
     Send(i)  the head is not "meta" and its scheduled time is minimal among the heads of all active tracks that
              still have a head (ties: any); it leaves on the port of the track.
   Because times are non-decreasing inside a track, "minimal among heads" makes every behaviour's send sequence
   non-decreasing in scheduled time, and each track's events leave in file order (the cursor only moves forward),
   also inside one tick.  Nothing is demanded about ties between tracks or about lateness.                    *)
EXTENDS Naturals, Integers, Sequences, FiniteSets, SequencesExt

NoPort == -1000

Class(m) == IF Len(m) = 0 THEN "other"
            ELSE IF m[1] = 255 THEN "meta"
            ELSE IF m[1] >= 128 /\ m[1] <= 239 THEN "chan"
            ELSE "other"

NTracks(P) == Len(P.tracks)
Selected(P, i) == P.sel = {} \/ (i - 1) \in P.sel

HasKey(P, n)  == \E j \in DOMAIN P.ports : P.ports[j].tr = n
Lookup(P, n)  == P.ports[CHOOSE j \in DOMAIN P.ports : P.ports[j].tr = n].port
\* map[track], else map[-1] if present, else none (then the track is not played -- documented)
PortOf(P, i)  == IF HasKey(P, i - 1) THEN Lookup(P, i - 1)
                 ELSE IF HasKey(P, -1) THEN Lookup(P, -1) ELSE NoPort
Active(P)     == {i \in 1..NTracks(P) : Selected(P, i) /\ PortOf(P, i) # NoPort}

\* domain of the property
WellFormed(P) ==
  /\ \A i \in 1..NTracks(P) : \A k \in 1..(Len(P.tracks[i]) - 1) : P.tracks[i][k].us <= P.tracks[i][k + 1].us
  /\ \A a, b \in DOMAIN P.ports : P.ports[a].tr = P.ports[b].tr => a = b
  /\ \A a \in DOMAIN P.ports : P.ports[a].port # NoPort

Start(P) == [i \in 1..NTracks(P) |-> 1]

HasHead(P, cur, i) == cur[i] <= Len(P.tracks[i])
HeadEv(P, cur, i)    == P.tracks[i][cur[i]]

CanSkip(P, cur, i) == i \in Active(P) /\ HasHead(P, cur, i) /\ Class(HeadEv(P, cur, i).m) # "chan"
CanSend(P, cur, i) == /\ i \in Active(P) /\ HasHead(P, cur, i) /\ Class(HeadEv(P, cur, i).m) # "meta"
                      /\ \A j \in Active(P) : HasHead(P, cur, j) => HeadEv(P, cur, i).us <= HeadEv(P, cur, j).us
Advance(cur, i)    == [cur EXCEPT ![i] = @ + 1]

\* nothing is left that must be sent (what remains can be skipped)
Finished(P, cur) == \A i \in Active(P) : \A k \in cur[i]..Len(P.tracks[i]) : Class(P.tracks[i][k].m) # "chan"
AllDone(P, cur)  == \A i \in Active(P) : ~HasHead(P, cur, i)

(* ---------------------------------------------------------------------------------------------------------
   What an observer of the ports sees is only the Send steps: o = [port, m, at] (at = microseconds since just
   before the call).  The track is NOT observable (identical messages occur in several tracks).
   Via(P, A, cur, i, p, o) is the state after  Skip(i)^* ; Skip(j)^* for the other tracks ; Send(i) of event p
   explaining o, or <<>> if there is no such run.  The skips are the forced ones: in track i everything
   between the head and p; in every other track j exactly the heads scheduled before event p (a head
   scheduled earlier would disable Send(i); skipping more never enables anything more, it only gives up the
   option of sending an "other" event later).  MC_Player checks this operator against the atomic actions
   in both directions (ghost acceptor / composite next-state relation).                                       *)
SkipTo(P, j, from, t) ==   \* first index >= from of track j whose event is scheduled at or after t
  LET late == {k \in from..Len(P.tracks[j]) : P.tracks[j][k].us >= t}
  IN IF late = {} THEN Len(P.tracks[j]) + 1 ELSE CHOOSE k \in late : \A k2 \in late : k <= k2

Skippable(P, j, a, b) == \A k \in a..(b - 1) : Class(P.tracks[j][k].m) # "chan"

Matches(P, i, p, o) ==
  LET e == P.tracks[i][p] IN
  /\ Class(e.m) # "meta"
  /\ e.m = o.m
  /\ PortOf(P, i) = o.port
  /\ e.us <= o.at                        \* never early; no upper bound (lateness is not constrained)

\* A = Active(P), passed in so that callers evaluate it once
Via(P, A, cur, i, p, o) ==
  IF ~(i \in A /\ p >= cur[i] /\ p <= Len(P.tracks[i])) THEN <<>>
  ELSE IF ~(Matches(P, i, p, o) /\ Skippable(P, i, cur[i], p)) THEN <<>>
  ELSE LET t   == P.tracks[i][p].us
           nxt == [j \in 1..NTracks(P) |->
                     IF j = i THEN p + 1
                     ELSE IF j \in A THEN SkipTo(P, j, cur[j], t) ELSE cur[j]]
       IN IF \A j \in A \ {i} : Skippable(P, j, cur[j], nxt[j]) THEN <<nxt>> ELSE <<>>

\* all states in which the observed send o can leave the player from state cur
(* ---------------------------------------------------------------------------------------------------------
   The property on a sequence of sends WITH attribution: s[k] = [i |-> track, p |-> index of the event in the
   track, port, m, at].  Where every message of a file is distinguishable (no two events that can leave on one
   port carry the same bytes) the attribution is determined by the observation, and no search is needed: the play is
   judged by evaluating the clauses directly.  AttrQuad is the text of the property (the formulation MC_Player's SentOk /
   Complete use, quadratic in the number of sends); AttrLin is the same judgement as one left-to-right pass (linear),
   which is what makes plays of 10^5 events checkable.  MC_Player checks AttrLin = AttrQuad on every behaviour of the
   player and on corrupted copies of it (AttrAgrees).                                                             *)
AttrValid(P, A, x) ==
  /\ x.i \in A /\ x.p \in 1..Len(P.tracks[x.i])
  /\ P.tracks[x.i][x.p].m = x.m                       \* the claimed event carries the observed bytes
  /\ Class(x.m) # "meta"                              \* no meta event ever
  /\ x.port = PortOf(P, x.i)                          \* on the port mapped to the track
  /\ x.at >= P.tracks[x.i][x.p].us                    \* never early
NChan(P, i) == Cardinality({p \in 1..Len(P.tracks[i]) : Class(P.tracks[i][p].m) = "chan"})

AttrQuad(P, s) ==
  LET A == Active(P) IN
  /\ \A k \in 1..Len(s) : AttrValid(P, A, s[k])
  /\ \A k, l \in 1..Len(s) : k < l =>
       /\ P.tracks[s[k].i][s[k].p].us <= P.tracks[s[l].i][s[l].p].us      \* merged by non-decreasing time
       /\ s[k].i = s[l].i => s[k].p < s[l].p                                \* file order inside a track; at most once
  /\ \A i \in A : \A p \in 1..Len(P.tracks[i]) :                            \* every channel message has left
       Class(P.tracks[i][p].m) = "chan" => \E k \in 1..Len(s) : s[k].i = i /\ s[k].p = p

\* one pass (FoldLeft is iterative in TLC): per track the last index sent and the number of channel messages sent, the last
\* scheduled time, and the position of the first send that breaks a clause
AttrStart(P) == [ok |-> TRUE, n |-> 0, us |-> 0, last |-> [i \in 1..NTracks(P) |-> 0], nchan |-> [i \in 1..NTracks(P) |-> 0]]
AttrStep(P, A, st, x) ==
  IF ~st.ok THEN st
  ELSE IF ~AttrValid(P, A, x) THEN [st EXCEPT !.ok = FALSE, !.n = @ + 1]
  ELSE LET us == P.tracks[x.i][x.p].us IN
       IF us < st.us \/ x.p <= st.last[x.i] THEN [st EXCEPT !.ok = FALSE, !.n = @ + 1]
       ELSE [st EXCEPT !.n = @ + 1, !.us = us, !.last[x.i] = x.p,
                       !.nchan[x.i] = @ + (IF Class(x.m) = "chan" THEN 1 ELSE 0)]
AttrRun(P, s) == LET A == Active(P) IN FoldLeft(LAMBDA st, x : AttrStep(P, A, st, x), AttrStart(P), s)
AttrLin(P, s) == LET r == AttrRun(P, s) IN r.ok /\ \A i \in Active(P) : r.nchan[i] = NChan(P, i)

Succ(P, A, cur, o) ==
  LET cand == UNION {{<<i, p>> : p \in {q \in cur[i]..Len(P.tracks[i]) : P.tracks[i][q].m = o.m}} : i \in A}
  IN UNION {LET v == Via(P, A, cur, ip[1], ip[2], o) IN IF v = <<>> THEN {} ELSE {v[1]} : ip \in cand}
=============================================================================
