--------------------------- MODULE Trace_Registry ---------------------------
(* Trace validation for X05 (spec/Registry.tla).  One line = one complete call sequence on the REAL package-level API
   of gitlab.com/gomidi/midi/v2 (harness/cmd/vh_registry) over configurable fake drivers:
     lay    the driver instances [name, ins, outs], ports [num, name] (names as byte sequences)
     flt    the faults [f, p] that were configured (listing / Open / Listen / Send fails)
     steps  per call: the inputs fn, d, p, n, q, msg and everything observed: ret (nil | err), port (identity of the
            returned port, recorded only when no error was returned), list (identities of the returned listing), drv
            (identity of what Get returned), closed (instances whose Close ran), dlv (id of the ListenTo listener that was
            called), nrec (Stop: messages the listener / the recorded track / the written file holds), sent (byte strings the
            fake out port accepted), str (InPorts.String / OutPorts.String), pan (panic text), timeout (30 s watchdog), and
            after the call: open (ports with IsOpen), lis (in ports with a listener installed), first (identity of Get()).
   The sequence is folded through Registry!RgOutcomes: a step is accepted iff it returned (no panic, no hang) and one of
   the outcomes the specification allows explains result and observable state.
   A record outside the domain (malformed configuration, a call the protocol does not allow) is flagged genbug:
   a machinery failure, never a violation.                                                                          *)
EXTENDS Registry, SequencesExt, TLC, Json, IOUtils
VARIABLES l, bad

Trace == ndJsonDeserialize(IOEnv.VERIF_TRACE)

TrIsBytes(q) == \A i \in 1..Len(q) : q[i] \in 0..255
TrPortsWf(ps) == /\ Len(ps) <= 8
                 /\ \A i \in 1..Len(ps) : ps[i].num \in 0..1000 /\ TrIsBytes(ps[i].name) /\ Len(ps[i].name) <= 16
                 /\ \A i, j \in 1..Len(ps) : ps[i].num = ps[j].num => i = j      \* drivers.Port.Number: unique within in / out ports
TrCfg(e) == [lay |-> e.lay, flt |-> {e.flt[i] : i \in 1..Len(e.flt)}]
TrCfgWf(e) ==
  /\ Len(e.lay) \in 1..8
  /\ \A d \in 1..Len(e.lay) : TrPortsWf(e.lay[d].ins) /\ TrPortsWf(e.lay[d].outs)
  /\ \A i \in 1..Len(e.flt) :
       LET f == e.flt[i] IN
       /\ f.f \in {"list", "open", "listen", "send"}
       /\ IF f.f = "list" THEN f.p.k \in {"in", "out"} /\ f.p.d \in 1..Len(e.lay) /\ f.p.i = 0
          ELSE /\ f.p.k \in {"in", "out"} /\ f.p.d \in 1..Len(e.lay)
               /\ f.p.i \in 1..Len(IF f.p.k = "in" THEN e.lay[f.p.d].ins ELSE e.lay[f.p.d].outs)
               /\ (f.f = "listen" => f.p.k = "in") /\ (f.f = "send" => f.p.k = "out")

TrCall(st) == [fn |-> st.fn, d |-> st.d, p |-> st.p, n |-> st.n, q |-> st.q, msg |-> st.msg]
TrRes(st)  == [ret |-> st.ret, port |-> st.port, list |-> st.list, drv |-> st.drv, closed |-> st.closed,
               dlv |-> st.dlv, nrec |-> st.nrec, sent |-> st.sent]
TrObs(st)  == [open |-> {st.open[i] : i \in 1..Len(st.open)}, lis |-> {st.lis[i] : i \in 1..Len(st.lis)}, first |-> st.first]
TrCallWf(st) == /\ st.n \in -1000..1000 /\ TrIsBytes(st.q) /\ TrIsBytes(st.msg) /\ Len(st.q) <= 16 /\ Len(st.msg) <= 16

\* R2: the String of a listing mentions every listed port's name
TrStrOk(c, st) ==
  st.fn \in {"GetInPorts", "GetOutPorts"} =>
    \A i \in 1..Len(st.list) :
      IF RgIsPort(c, st.list[i]) THEN RgContains(st.str, RgPorts(c, st.list[i].k, st.list[i].d)[st.list[i].i].name) ELSE FALSE

Judge(e) ==
  IF ~TrCfgWf(e) THEN [ok |-> FALSE, info |-> [id |-> e.id, genbug |-> TRUE, what |-> "configuration", step |-> 0, fn |-> "", expected |-> <<>>]]
  ELSE
  LET c == TrCfg(e)
      r == FoldLeft(LAMBDA acc, st :
             IF acc.what # "" THEN acc
             ELSE IF ~TrCallWf(st) \/ ~RgCallOk(c, TrCall(st)) THEN [acc EXCEPT !.what = "call", !.genbug = TRUE, !.i = @ + 1]
             ELSE IF ~RgEnabled(c, acc.s, TrCall(st)) THEN [acc EXCEPT !.what = "protocol", !.genbug = TRUE, !.i = @ + 1]
             ELSE LET O == RgOutcomes(c, acc.s, TrCall(st))
                      M == {o \in O : RgExplains(o, TrRes(st), TrObs(st))}
                      exp == SetToSeq({[res |-> o.res, open |-> SetToSeq(o.s.open), lis |-> SetToSeq(RgListening(o.s)), first |-> RgFirst(o.s)] : o \in O})
                  IN IF st.pan # "" THEN [acc EXCEPT !.what = "panic", !.i = @ + 1, !.exp = exp]
                     ELSE IF st.timeout THEN [acc EXCEPT !.what = "timeout", !.i = @ + 1, !.exp = exp]
                     ELSE IF M = {} THEN [acc EXCEPT !.what = "diverge", !.i = @ + 1, !.exp = exp]
                     ELSE IF ~TrStrOk(c, st) THEN [acc EXCEPT !.what = "string", !.i = @ + 1, !.exp = exp]
                     ELSE [acc EXCEPT !.s = (CHOOSE o \in M : TRUE).s, !.i = @ + 1],
             [s |-> Rg0, what |-> "", genbug |-> FALSE, i |-> 0, exp |-> <<>>], e.steps)
  IN [ok |-> r.what = "",
      info |-> [id |-> e.id, genbug |-> r.genbug, what |-> r.what, step |-> r.i,
                fn |-> IF r.i \in 1..Len(e.steps) THEN e.steps[r.i].fn ELSE "", expected |-> r.exp]]

Init == l = 1 /\ bad = <<>>
Next == \/ /\ l <= Len(Trace)
           /\ LET j == Judge(Trace[l])
              IN bad' = IF j.ok THEN bad ELSE Append(bad, [line |-> l, info |-> j.info])
           /\ l' = l + 1
        \/ /\ l = Len(Trace) + 1
           /\ ndJsonSerialize(IOEnv.VERIF_OUT, <<[consumed |-> Len(Trace)]>> \o bad)
           /\ l' = l + 1 /\ UNCHANGED bad
=============================================================================
