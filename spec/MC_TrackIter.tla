---------------------------- MODULE MC_TrackIter ----------------------------
(* Model check of spec/TrackIter.tla (X03).
   kind = "iter":  an ITERATOR walks a small file one event at a time (actions Visit / Skip / NextTrack), for every
                   file of <= MaxTracks tracks with <= MaxEv events from a small alphabet (+ End Of Track), every
                   selection over track numbers 0..3 and a family of filters.  Invariants:
       StepIsClosedForm   at the end the visited sequence is TiExpected(TiVisits(...)) -- the closed form the trace
                          spec evaluates is the step semantics
       AcceptsOwn         the acceptor TiAccepts accepts it (both resolutions of what is left open)
       RejectsMutants     ... and rejects it with the first visit repeated, a demanded visit dropped, two different
                          neighbours swapped, an AbsTicks or a TrackNo changed
       Restriction        a filtered visit is a sub-sequence of the unfiltered one (same TrackNo / Delta / AbsTicks)
       SelectionLaw       only the track numbers the file has matter; no number of the file selected = nothing
                          (unless the selection is empty = all); AbsTicks restart per track and are running sums
       OnceEach           with no filter every (track, position) is visited exactly once
   kind = "map":   every sorted tick list over {0,1,2,5} up to MaxMap entries with uspq, every tick 0..7:
       LookupIsC11        the entry TiLookup finds carries the uspq spec/Tempo.tla (C11) integrates: TpTempoAtI
       LookupLaws         0 iff t is before the first entry; otherwise entry <= t < next entry; last of equal ticks;
                          monotone in t;  BigNat reading = native reading
   kind = "ops":   every history of <= 3 Track.Add / Close calls:  ClosedSticks, EmptyMeans, FormatLaw            *)
EXTENDS TrackIter, Tempo, TLC
CONSTANTS MaxTracks, MaxEv, MaxMap
VARIABLES kind, F, sel, flt, mayV, ti, pos, abs, out, m, t, ops

vars == <<kind, F, sel, flt, mayV, ti, pos, abs, out, m, t, ops>>

NoteOn == <<144, 60, 1>>
CC     == <<176, 1, 2>>
TempoM == <<255, 81, 3, 7, 161, 32>>
OddM   == <<255, 96, 0>>          \* meta type byte 0x60: not defined by SMF 1.0
SysX   == <<240, 1, 247>>
Msgs   == {NoteOn, TempoM, OddM, SysX}
Evs    == [d : {0, 2}, m : Msgs]
Body   == UNION {[1..k -> Evs] : k \in 0..MaxEv}
Tracks == {Append(b, [d |-> dd, m |-> TiEOT]) : b \in Body, dd \in {0}} \cup {Append(b, [d |-> 1, m |-> TiEOT]) : b \in {<<>>}}
Files  == UNION {[1..n -> Tracks] : n \in 1..MaxTracks}
Sels   == {{}, {0}, {1}, {0, 1}, {3}, {1, 3}}
Flts   == {[mode |-> "none", types |-> <<>>], [mode |-> "noargs", types |-> <<>>]} \cup
          {[mode |-> "types", types |-> ts] : ts \in {<<"NoteOn">>, <<"Channel", "NoteOn">>, <<"NoteOn", "NoteOn">>, <<"Meta">>,
                                                      <<"MetaTempo", "SysEx">>, <<"MetaEndOfTrack">>, <<"RealTime">>, <<"MetaUndefined", "Channel">>}}

Plus(a, b) == a + b
Leq(a, b)  == a <= b
All(f, s)  == TiVisits(f, s, Plus, 0)

Ticks == {0, 1, 2, 5}
Uspqs == {1, 500000}
Maps  == {s \in UNION {[1..k -> [t : Ticks, u : Uspqs]] : k \in 0..MaxMap} : \A i \in 1..(Len(s) - 1) : s[i].t <= s[i + 1].t}

Op    == {[op |-> "add", d |-> 1, msgs |-> <<NoteOn>>], [op |-> "add", d |-> 2, msgs |-> <<CC, TempoM>>],
          [op |-> "add", d |-> 0, msgs |-> <<>>], [op |-> "add", d |-> 0, msgs |-> <<TiEOT>>], [op |-> "close", d |-> 3, msgs |-> <<>>]}
Hists == UNION {[1..k -> Op] : k \in 0..3}

Idle == /\ F = <<>> /\ sel = {} /\ flt = [mode |-> "none", types |-> <<>>] /\ mayV = FALSE
        /\ ti = 1 /\ pos = 1 /\ abs = 0 /\ out = <<>> /\ m = <<>> /\ t = 0 /\ ops = <<>>

Init == kind = "init" /\ Idle

Passes(v) == TiMust(flt, v) \/ (mayV /\ TiMay(flt, v))

Next ==
  \/ /\ kind = "init"
     /\ \/ /\ kind' = "iter" /\ F' \in Files /\ sel' \in Sels /\ flt' \in Flts /\ mayV' \in BOOLEAN
           /\ UNCHANGED <<ti, pos, abs, out, m, t, ops>>
        \/ /\ kind' = "map" /\ m' \in Maps /\ t' \in 0..7
           /\ UNCHANGED <<F, sel, flt, mayV, ti, pos, abs, out, ops>>
        \/ /\ kind' = "ops" /\ ops' \in Hists
           /\ UNCHANGED <<F, sel, flt, mayV, ti, pos, abs, out, m, t>>
  \/ /\ kind = "iter" /\ ti <= Len(F)
     /\ IF pos <= Len(F[ti])
          THEN LET e == F[ti][pos]
                   v == [tr |-> ti - 1, d |-> e.d, abs |-> abs + e.d, m |-> e.m]
               IN /\ abs' = abs + e.d /\ pos' = pos + 1 /\ ti' = ti
                  /\ out' = IF TiSelected(Len(F), sel, ti) /\ Passes(v) THEN Append(out, v) ELSE out     \* Visit / Skip
          ELSE ti' = ti + 1 /\ pos' = 1 /\ abs' = 0 /\ out' = out                                         \* NextTrack
     /\ UNCHANGED <<kind, F, sel, flt, mayV, m, t, ops>>

Done == kind = "iter" /\ ti > Len(F)

StepIsClosedForm == Done => out = TiExpected(All(F, sel), flt, mayV)
AcceptsOwn       == Done => TiAccepts(All(F, sel), flt, out)

Swap(s, i) == [k \in 1..Len(s) |-> IF k = i THEN s[i + 1] ELSE IF k = i + 1 THEN s[i] ELSE s[k]]
Drop(s, i) == SubSeq(s, 1, i - 1) \o SubSeq(s, i + 1, Len(s))
RejectsMutants ==
  Done => LET all == All(F, sel) IN
          /\ (out # <<>> => ~TiAccepts(all, flt, <<out[1]>> \o out))
          /\ (out # <<>> => ~TiAccepts(all, flt, Append(out, out[Len(out)])))
          /\ \A i \in 1..Len(out) : TiMust(flt, out[i]) /\ (\A j \in 1..Len(out) : out[j] = out[i] => j = i)
                                      => ~TiAccepts(all, flt, Drop(out, i))
          /\ \A i \in 1..(Len(out) - 1) : out[i] # out[i + 1] /\ TiMust(flt, out[i]) /\ TiMust(flt, out[i + 1])
                                      => ~TiAccepts(all, flt, Swap(out, i))
          /\ \A i \in 1..Len(out) : /\ ~TiAccepts(all, flt, [out EXCEPT ![i].abs = @ + 1])
                                    /\ ~TiAccepts(all, flt, [out EXCEPT ![i].tr = @ + 7])

IsSubSeq(a, b) == TiAccepts(b, [mode |-> "noargs", types |-> <<>>], a)      \* a is a sub-sequence of b
Restriction == Done => IsSubSeq(out, All(F, sel)) /\ IsSubSeq(All(F, sel), All(F, {}))

SelectionLaw ==
  Done => LET n == Len(F)  has == sel \cap (0..(n - 1)) IN
          /\ (sel # {} /\ has = {} => All(F, sel) = <<>>)
          /\ (has # {} => All(F, sel) = All(F, has))
          /\ All(F, {}) = All(F, 0..(n - 1))
          /\ \A i \in 1..n : LET v == All(F, {i - 1}) IN
               /\ Len(v) = Len(F[i])
               /\ \A k \in 1..Len(v) : /\ v[k].tr = i - 1 /\ v[k].d = F[i][k].d /\ v[k].m = F[i][k].m
                                       /\ v[k].abs = (IF k = 1 THEN 0 ELSE v[k - 1].abs) + F[i][k].d

OnceEach == Done /\ flt.mode = "none" /\ sel = {} =>
              /\ Len(out) = FoldLeft(LAMBDA a, tr : a + Len(tr), 0, F)
              /\ out = FlattenSeq([i \in 1..Len(F) |-> All(F, {i - 1})])

\* ---- tempo lookups
TicksOf(s) == [i \in 1..Len(s) |-> s[i].t]
LookupIsC11 == kind = "map" =>
  LET i == TiLookup(TicksOf(m), t, Leq) IN (IF i = 0 THEN TpDefault ELSE m[i].u) = TpTempoAtI(m, t)
LookupLaws == kind = "map" =>
  LET tk == TicksOf(m)  i == TiLookup(tk, t, Leq) IN
  /\ TiSortedBy(tk, Leq)
  /\ (i = 0) = (IF m = <<>> THEN TRUE ELSE t < tk[1])
  /\ (i > 0 => tk[i] <= t /\ (i = Len(tk) \/ tk[i + 1] > t))
  /\ TiLookup(tk, t, Leq) <= TiLookup(tk, t + 1, Leq)
  /\ TiLookup([k \in 1..Len(tk) |-> BnOfNat(tk[k])], BnOfNat(t), BnLeq) = i
  /\ TiCum(tk, Plus, 0) = [k \in 1..Len(tk) |-> FoldLeft(Plus, 0, SubSeq(tk, 1, k))]
  /\ [k \in 1..Len(tk) |-> BnOfNat(TiCum(tk, Plus, 0)[k])] = TiCum([k \in 1..Len(tk) |-> BnOfNat(tk[k])], BnAdd, <<>>)

\* ---- track life cycle
Run(h) == FoldLeft(LAMBDA tr, o : TiTrackStep(tr, o, 0), <<>>, h)
ClosedSticks == kind = "ops" =>
  \A k \in 1..Len(ops) : LET a == Run(SubSeq(ops, 1, k - 1))  b == Run(SubSeq(ops, 1, k)) IN
     /\ (TiClosed(a) => b = a)
     /\ (ops[k].op = "close" => TiClosed(b))
     /\ (~TiClosed(a) /\ ops[k].op = "add" => Len(b) = Len(a) + Len(ops[k].msgs))
EmptyMeans == kind = "ops" =>
  LET tr == Run(ops) IN
  /\ TiEmpty(tr) = (\A k \in 1..Len(tr) : k = Len(tr) /\ tr[k].m = TiEOT)
  /\ TiClosed(TiCanonTrack(tr, 0)) /\ TiEmpty(TiCanonTrack(tr, 0)) = TiEmpty(tr)
ASSUME FormatLaw ==
             /\ TiFormatAfterAdd(TiCtorFormat("new"), 1) = 0 /\ TiFormatAfterAdd(TiCtorFormat("new"), 2) = 1
             /\ TiFormatAfterAdd(1, 3) = 1 /\ TiFormatAfterAdd(TiCtorFormat("smf1"), 1) = 1
             /\ TiFormatAfterAdd(TiCtorFormat("smf2"), 1) = 2 /\ TiFormatAfterAdd(TiCtorFormat("smf2"), 5) = 2
=============================================================================
