\* quick: 2 tracks x <= 4 events, ticks <<0,0,1,1>>
\* atomic Player actions + ghost acceptor: stable merge, exactly once, no meta, no deadlock, acceptor complete
CONSTANTS
  NT = 2
  NE = 4
  MaxNow = 1
  Kinds <- KindsAM
  TimePats <- Pats4q
  Sels <- SelAll
  PortMaps <- PMmixed
INIT Init
NEXT Next
INVARIANTS AllWellFormed SentOk Complete AcceptorComplete AttrAgrees AttrAccepts
CHECK_DEADLOCK TRUE
