--------------------------- MODULE MC_TypeAlgebra ---------------------------
(* X07 on the model: the categories partition the concrete types; Is is reflexive, a concrete type corresponds to
   exactly two checkers (itself and its category), two different concrete types never correspond; IsOneOf is monotone
   and empty lists match nothing; the real-time constructor table is injective into F8..FF without FD (undefined) and
   every constructor's type is a concrete or special type.  The state is a (type, checker) pair so that TLC visits each one. *)
EXTENDS TypeAlgebra, TLC
VARIABLES t, c
Init == t \in Concrete \cup Special /\ c \in AllTypes
Next == UNCHANGED <<t, c>>

Partition == /\ \A x \in Concrete : Cardinality({k \in Categories : k = CatOf(x)}) = 1
             /\ RealTimeT \cap ChannelT = {} /\ RealTimeT \cap SysCommonT = {} /\ RealTimeT \cap MetaT = {}
             /\ ChannelT \cap SysCommonT = {} /\ ChannelT \cap MetaT = {} /\ SysCommonT \cap MetaT = {}
Reflexive == Is(t, t)
TwoCheckers == Cardinality({k \in AllTypes : Is(t, k)}) = (IF t \in Concrete THEN 2 ELSE 1)
Separated == (c \in Concrete \cup Special /\ c # t) => ~Is(t, c)
OneOfOk == /\ ~IsOneOf(t, <<>>)
           /\ IsOneOf(t, <<c>>) = Is(t, c)
           /\ IsOneOf(t, <<c, t>>)
           /\ \A d \in Categories : IsOneOf(t, <<c, d>>) = (Is(t, c) \/ Is(t, d))
RtTable == /\ \A f, g \in RtCtors : RtByte[f] = RtByte[g] => f = g
           /\ \A f \in RtCtors : RtByte[f] \in 248..255 /\ RtByte[f] # 253 /\ RtType[f] \in RealTimeT /\ CtorType[f] = RtType[f]
           /\ {RtType[f] : f \in RtCtors} = RealTimeT
CtorTypes == \A f \in DOMAIN CtorType : CtorType[f] \in Concrete \cup Special
=============================================================================
