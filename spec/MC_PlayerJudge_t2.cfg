\* thorough: <= 3 tracks x <= 4 events, ticks <<0,0,1,1>>, channel message / meta
\* the trace acceptor (Player!Via) as next-state relation: accepts only stable merges
CONSTANTS
  NT = 3
  NE = 4
  MaxNow = 1
  Kinds <- KindsAM
  TimePats <- Pats4q
  Sels <- SelAll
  PortMaps <- PMmixed
INIT Init
NEXT NextJ
INVARIANTS AllWellFormed SentOk Complete
CHECK_DEADLOCK FALSE
