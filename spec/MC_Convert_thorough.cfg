CONSTANTS
  MaxEvents = 5
  Alphabet <- AlphaFull
INIT Init
NEXT Next
INVARIANTS Satisfiable SatisfiableOpen Sensitive
CHECK_DEADLOCK FALSE
