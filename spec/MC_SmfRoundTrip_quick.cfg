CONSTANTS
  MaxTracks = 2
  MaxEvents = 2
  Divs <- DivsQuick
INIT Init
NEXT Next
INVARIANTS RoundTrip Compression
CHECK_DEADLOCK FALSE
