INIT Init
NEXT Next
CHECK_DEADLOCK FALSE
