------------------------------ MODULE Trace_Tempo ------------------------------
(* Trace validation for C11.  One line = one experiment on the REAL library:
     ev = "map": a file built through the public API (tracks of (delta, message); tempo events are FF 51 03 tttttt),
                 written, read back; SMF.TimeAt for a sorted list of query ticks; the (delta, AbsMicroSeconds) of every
                 event TracksReader.Do handed out.  Judged against Tempo!TpNum (exact integral of the tempo map),
                 the per-segment tolerance TpWithin, and monotonicity.
     ev = "inv": triples (res, bpm = mant*2^ex, ticks) with MetricTicks.Duration in ns and Ticks of that duration.
   Every number comes as base-2^15 limbs AND decimal digits; the two must agree (BnOfDec), so the harness'
   limb conversion is not trusted.  A record outside the property's domain (generator's fault) is flagged
   genbug and becomes a machinery failure, never a violation.                                            *)
EXTENDS Tempo, TLC, Json, IOUtils
VARIABLES l, bad

Trace == ndJsonDeserialize(IOEnv.VERIF_TRACE)

NumOk(x) == BnIsCanon(x.l) /\ BnIsDec(x.d) /\ BnOfDec(x.d) = x.l
Idx(s)   == [i \in 1..Len(s) |-> i]
Cum(ds)  == FoldLeft(LAMBDA acc, d : Append(acc, BnAdd(IF acc = <<>> THEN <<>> ELSE acc[Len(acc)], d)), <<>>, ds)
Horizon  == 41       \* queries and events with exact time of 2^41 us (25 days) or more are outside C11

TempoBytes(u) == <<255, 81, 3, u \div 65536, (u \div 256) % 256, u % 256>>
IsTempoMeta(b) == Len(b) >= 2 /\ b[1] = 255 /\ b[2] = 81

Deltas(tr) == [i \in 1..(Len(tr.evs) + 1) |-> IF i <= Len(tr.evs) THEN tr.evs[i].d.l ELSE tr.close.l]

\* ---- inputs inside the domain of the property and numbers well-formed (else: generator bug)
TrackWf(tr, isTempoTrack) ==
  /\ NumOk(tr.close) /\ BnLt(tr.close.l, BnPow2(32))
  /\ \A i \in 1..Len(tr.evs) :
       LET e == tr.evs[i] IN
       /\ NumOk(e.d) /\ BnLt(e.d.l, BnPow2(32))
       /\ e.u \in -1..TpMaxU
       /\ (e.u >= 0 => isTempoTrack /\ e.m = TempoBytes(e.u))
       /\ (e.u = -1 => ~IsTempoMeta(e.m))
MapWf(e) ==
  /\ e.res \in 1..32767
  /\ e.tt \in 1..Len(e.tracks)
  /\ \A k \in 1..Len(e.tracks) : TrackWf(e.tracks[k], k = e.tt)
  /\ \A i \in 1..Len(e.queries) : NumOk(e.queries[i].t) /\ NumOk(e.queries[i].r)
  /\ \A i \in 1..(Len(e.queries) - 1) : BnLeq(e.queries[i].t.l, e.queries[i + 1].t.l)
  /\ \A k \in 1..Len(e.do) : \A i \in 1..Len(e.do[k]) : NumOk(e.do[k][i].d) /\ NumOk(e.do[k][i].us)

TempoMap(tr) ==
  LET abs == Cum(Deltas(tr))
  IN SelectSeq([i \in 1..Len(tr.evs) |-> [t |-> abs[i], u |-> tr.evs[i].u]], LAMBDA x : x.u >= 0)

\* one reported time judged against the map: "far" = beyond the horizon (not judged)
JudgeTime(m, res, t, r) ==
  LET n == TpNum(m, t)
  IN IF ~TpBelowPow2us(n, res, Horizon) THEN "far"
     ELSE IF r.neg THEN "negative"
     ELSE IF TpWithin(r.l, res, n, TpSegs(m, t)) THEN "ok" ELSE "off"

\* order on signed results: negative < non-negative; among equal signs by magnitude
SLeq(x, y) == IF x.neg /\ ~y.neg THEN TRUE ELSE IF ~x.neg /\ y.neg THEN FALSE
              ELSE IF x.neg THEN BnLeq(y.l, x.l) ELSE BnLeq(x.l, y.l)

JudgeMap(e) ==
  IF ~MapWf(e) THEN [ok |-> FALSE, info |-> [id |-> e.id, ev |-> "map", genbug |-> TRUE, what |-> "record not well-formed / outside domain"]]
  ELSE IF e.err # "" THEN [ok |-> FALSE, info |-> [id |-> e.id, ev |-> "map", genbug |-> FALSE, what |-> "err", err |-> e.err]]
  ELSE
  LET m   == TempoMap(e.tracks[e.tt])
      qv  == [i \in 1..Len(e.queries) |-> JudgeTime(m, e.res, e.queries[i].t.l, e.queries[i].r)]
      qfar == SelectSeq(Idx(qv), LAMBDA i : qv[i] = "far")
      qbad == SelectSeq(Idx(qv), LAMBDA i : qv[i] # "ok")
      qmono == SelectSeq(Idx(qv), LAMBDA i : i > 1 /\ ~SLeq(e.queries[i - 1].r, e.queries[i].r))
      \* events handed out by Do: same shape and deltas as the file that was built, times judged like queries
      shape == /\ Len(e.do) = Len(e.tracks)
               /\ \A k \in 1..Len(e.tracks) : [i \in 1..Len(e.do[k]) |-> e.do[k][i].d.l] = Deltas(e.tracks[k])
      evs == IF ~shape THEN <<>> ELSE
             FoldLeft(LAMBDA acc, k :
                        LET abs == Cum(Deltas(e.tracks[k]))
                            v == [i \in 1..Len(abs) |-> JudgeTime(m, e.res, abs[i], e.do[k][i].us)]
                        IN acc \o [i \in 1..Len(abs) |->
                                     [k |-> k, i |-> i, v |-> v[i], t |-> abs[i],
                                      mono |-> (i = 1 \/ v[i] = "far" \/ SLeq(e.do[k][i - 1].us, e.do[k][i].us))]],
                      <<>>, Idx(e.tracks))
      ebad == SelectSeq(evs, LAMBDA x : x.v \notin {"ok", "far"} \/ ~x.mono)
      \* events handed out under a type filter (TracksReader.Only): each is an event of the unfiltered iteration (the harness
      \* names it: track k, position i) and carries the very time that event has there -- which is judged above
      fbad == SelectSeq(e.filt, LAMBDA x : ~(x.k \in 1..Len(e.do) /\ x.i \in 1..Len(e.do[x.k]) /\ x.us = e.do[x.k][x.i].us))
  IN IF qfar # <<>> THEN [ok |-> FALSE, info |-> [id |-> e.id, ev |-> "map", genbug |-> TRUE, what |-> "query beyond the horizon", k |-> qfar[1]]]
     ELSE IF qbad # <<>> THEN
       LET i == qbad[1] IN
       [ok |-> FALSE, info |-> [id |-> e.id, ev |-> "map", genbug |-> FALSE, what |-> "query", verdict |-> qv[i], k |-> i, nbad |-> Len(qbad),
                                tick |-> e.queries[i].t.d, got |-> e.queries[i].r.d, neg |-> e.queries[i].r.neg, res |-> e.res,
                                num |-> TpNum(m, e.queries[i].t.l), segs |-> TpSegs(m, e.queries[i].t.l)]]
     ELSE IF qmono # <<>> THEN
       [ok |-> FALSE, info |-> [id |-> e.id, ev |-> "map", genbug |-> FALSE, what |-> "query-monotone", k |-> qmono[1],
                                tick |-> e.queries[qmono[1]].t.d, got |-> e.queries[qmono[1]].r.d, before |-> e.queries[qmono[1] - 1].r.d]]
     ELSE IF ~shape THEN [ok |-> FALSE, info |-> [id |-> e.id, ev |-> "map", genbug |-> FALSE, what |-> "do-shape"]]
     ELSE IF ebad # <<>> THEN
       LET x == ebad[1] IN
       [ok |-> FALSE, info |-> [id |-> e.id, ev |-> "map", genbug |-> FALSE, what |-> IF x.mono THEN "event" ELSE "event-monotone", verdict |-> x.v,
                                track |-> x.k, k |-> x.i, nbad |-> Len(ebad), tickl |-> x.t, got |-> e.do[x.k][x.i].us.d, neg |-> e.do[x.k][x.i].us.neg, res |-> e.res]]
     ELSE IF fbad # <<>> THEN
       [ok |-> FALSE, info |-> [id |-> e.id, ev |-> "map", genbug |-> FALSE, what |-> "event-under-filter", filter |-> fbad[1].f, track |-> fbad[1].k, k |-> fbad[1].i,
                                nbad |-> Len(fbad), got |-> fbad[1].us.d, neg |-> fbad[1].us.neg, res |-> e.res]]
     ELSE [ok |-> TRUE, info |-> [id |-> e.id]]

\* ---- Duration / Ticks
EffRes(r) == IF r = 0 THEN 960 ELSE r        \* documented: MetricTicks 0 means 960
TripleWf(x) ==
  /\ x.res \in 0..65535 /\ x.ex \in -200..200
  /\ NumOk(x.mant) /\ x.mant.l # <<>> /\ BnLt(x.mant.l, BnPow2(53))
  /\ NumOk(x.ticks) /\ BnLt(x.ticks.l, BnPow2(32))
  /\ NumOk(x.dur) /\ NumOk(x.back)
  /\ TpInvDomain(x.mant.l, x.ex, EffRes(x.res), x.ticks.l)
TripleOk(x) ==
  /\ x.pan = "" /\ ~x.dur.neg
  /\ x.back.l = x.ticks.l
  /\ TpDurWithin(x.dur.l, x.mant.l, x.ex, EffRes(x.res), x.ticks.l, 1)
JudgeInv(e) ==
  LET wf  == SelectSeq(Idx(e.triples), LAMBDA i : ~TripleWf(e.triples[i])) IN
  IF wf # <<>> THEN [ok |-> FALSE, info |-> [id |-> e.id, ev |-> "inv", genbug |-> TRUE, what |-> "triple outside the domain / malformed", k |-> wf[1]]]
  ELSE LET b == SelectSeq(Idx(e.triples), LAMBDA i : ~TripleOk(e.triples[i])) IN
       IF b = <<>> THEN [ok |-> TRUE, info |-> [id |-> e.id]]
       ELSE LET x == e.triples[b[1]] IN
            [ok |-> FALSE, info |-> [id |-> e.id, ev |-> "inv", genbug |-> FALSE, what |-> IF x.pan # "" THEN "panic" ELSE IF x.back.l # x.ticks.l THEN "inverse" ELSE "duration",
                                     k |-> b[1], nbad |-> Len(b), res |-> x.res, mant |-> x.mant.d, ex |-> x.ex, ticks |-> x.ticks.d,
                                     dur |-> x.dur.d, neg |-> x.dur.neg, back |-> x.back.d, pan |-> x.pan]]

Judge(e) == CASE e.ev = "map" -> JudgeMap(e)
              [] e.ev = "inv" -> JudgeInv(e)
              [] OTHER -> [ok |-> FALSE, info |-> [id |-> 0, ev |-> "?", genbug |-> TRUE, what |-> "unknown record kind"]]

Init == l = 1 /\ bad = <<>>
Next == \/ /\ l <= Len(Trace)
           /\ LET j == Judge(Trace[l])
              IN bad' = IF j.ok THEN bad ELSE Append(bad, [line |-> l, info |-> j.info])
           /\ l' = l + 1
        \/ /\ l = Len(Trace) + 1
           /\ ndJsonSerialize(IOEnv.VERIF_OUT, <<[consumed |-> Len(Trace)]>> \o bad)
           /\ l' = l + 1 /\ UNCHANGED bad
=============================================================================
