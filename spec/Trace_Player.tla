---------------------------- MODULE Trace_Player ----------------------------
(* Trace validation (binding T, with inference of unlogged nondeterminism) for C12.
   One NDJSON line = one play of the REAL library: the file as the library read it (every track, every event
   with the scheduled microseconds TracksReader.Do reports), the selection, the port map, and the observed
   sequence of sends (port id, bytes, microseconds since just before the call).

   WHICH TRACK a send came from is not observable at the ports and is not logged; identical messages occur in
   several tracks (and several times in one track).  TLC decides whether the observed sequence is a behaviour
   of spec/Player.tla by SEARCH: each observed send is one step of this spec,

        Send:  (l, k, cur) -> (l, k+1, cur')   for ANY cur' \in Player!Succ(P_l, cur, sends_l[k+1])

   i.e. any track whose (possibly skipped-to) head matches port, bytes and "not early" and is minimal among
   the heads.  TLC's state graph is then exactly the set of (send index, cursor vector) pairs that explain a
   prefix of the observation; the play is accepted iff some state with k = number of sends has nothing
   playable left (Player!Finished).  Player!Succ is the operator MC_Player proves sound and complete w.r.t. the
   atomic Skip/Send actions.

   Totality / cost: the plays of a shard are NOT chained (a rejected play has no successor state, so a chain
   would stop at the first rejection); every line is its own initial state (Init: l \in 1..N), so one JVM start
   serves the whole shard and every line is explored whatever happens to the others.  Verdicts are collected
   in TLC registers (TLCSet/TLCGet; therefore -workers 1, which ctx.validate uses): register 1 = high-water
   mark per line (largest k reached = length of the longest explainable prefix, the diagnostic), register 2 =
   set of accepted lines.  The POSTCONDITION writes the rejected lines to VERIF_OUT after the search.  BFS
   or DFS order does not matter for the verdict since the search is exhaustive (states per play = number of
   distinct explanations of prefixes; small because messages are mostly unique).                            *)
EXTENDS Player, TLC, Json, IOUtils
VARIABLES l, k, cur

Trace == ndJsonDeserialize(IOEnv.VERIF_TRACE)
N     == Len(Trace)

\* The scheduled times are the library's own (TracksReader.Do; that they follow the tempo map is C11).  Where they are
\* not even monotone within a track, "merged by non-decreasing time" and "never early" have no meaning to judge against;
\* the schedule-free clauses -- exactly once, no meta event, the mapped port, THE ORDER WITHIN A TRACK -- still have:
\* such a play is judged with all scheduled times taken as 0.
Monotone(e) == \A i \in DOMAIN e.tracks : \A j \in 1..(Len(e.tracks[i]) - 1) : e.tracks[i][j].us <= e.tracks[i][j + 1].us
Flat(tr)    == [i \in DOMAIN tr |-> [j \in DOMAIN tr[i] |-> [tr[i][j] EXCEPT !.us = 0]]]
PlayOf(e) == [tracks |-> IF Monotone(e) THEN e.tracks ELSE Flat(e.tracks), sel |-> {e.sel[i] : i \in DOMAIN e.sel}, ports |-> e.ports]
Plays == [i \in 1..N |-> PlayOf(Trace[i])]
Acts  == [i \in 1..N |-> Active(Plays[i])]

\* a record the search may be run on
Searchable(i) == Trace[i].rerr = "" /\ WellFormed(Plays[i])

Mark(i, v)  == TLCSet(1, [TLCGet(1) EXCEPT ![i] = IF @ < v THEN v ELSE @])
Accept(i)   == TLCSet(2, TLCGet(2) \cup {i})

Init == /\ TLCSet(1, [i \in 1..N |-> 0]) /\ TLCSet(2, {})
        /\ l \in 1..N /\ k = 0
        /\ cur = Start(Plays[l])

Next == /\ Searchable(l)
        /\ k < Len(Trace[l].sends)
        /\ \E c \in Succ(Plays[l], Acts[l], cur, Trace[l].sends[k + 1]) :
              /\ cur' = c
              /\ Mark(l, k + 1)
              /\ IF k + 1 = Len(Trace[l].sends) /\ Finished(Plays[l], c) THEN Accept(l) ELSE TRUE
        /\ k' = k + 1 /\ l' = l

\* ---- verdicts (evaluated once, after the search) ----
Verdict(i) ==
  LET e   == Trace[i]
      acc == IF Len(e.sends) = 0 THEN Finished(Plays[i], Start(Plays[i])) ELSE i \in TLCGet(2)
      hwm == TLCGet(1)[i]
      gen == ~Searchable(i)
      ok  == ~gen /\ e.panic = "" /\ ~e.timeout /\ acc
  IN [ok |-> ok,
      info |-> [id |-> e.id, genbug |-> gen, rerr |-> e.rerr, panic |-> e.panic, timeout |-> e.timeout, err |-> e.err,
                nsends |-> Len(e.sends), explained |-> IF gen THEN 0 ELSE hwm, complete |-> acc,
                stuck |-> IF ~gen /\ hwm < Len(e.sends) THEN <<e.sends[hwm + 1]>> ELSE <<>>]]

Post == LET vs  == [i \in 1..N |-> Verdict(i)]
            bad == SelectSeq([i \in 1..N |-> [line |-> i, info |-> vs[i].info, ok |-> vs[i].ok]], LAMBDA b : ~b.ok)
        IN ndJsonSerialize(IOEnv.VERIF_OUT, <<[consumed |-> N]>> \o [j \in 1..Len(bad) |-> [line |-> bad[j].line, info |-> bad[j].info]])
=============================================================================
