------------------------------ MODULE Trace_Msg ------------------------------
(* Trace validation for C07 (ev = "call": a constructor call on the real library with its bytes, every accessor's
   answer and what arrived through a loopback port) and C08 (ev = "cls": a byte string with everything the real
   classification functions said about it).  TLC evaluates MidiMessage's operators on the concrete values.   *)
EXTENDS MidiMessage, TLC, Json, IOUtils
VARIABLES l, bad
Trace == ndJsonDeserialize(IOEnv.VERIF_TRACE)

TypeSpecific == {"NoteOn", "NoteOff", "PolyAfterTouch", "AfterTouch", "ProgramChange", "PitchBend", "ControlChange",
                 "MTC", "SongSelect", "SPP", "SysEx"}

\* e.acc : record accessor name -> [ok, out]
JudgeCall(e) ==
  LET exact == ExactDomain(e.fn, e.args)
      want  == Ctor(e.fn, e.args)
      wf    == WellFormedShort(e.bytes)
      bytesOk == wf /\ (exact => e.bytes = want)
      m     == MatchAcc(e.fn)
      accOk == exact =>
                 /\ (e.fn # "Tune" => e.acc[m].ok /\ e.acc[m].out = ExpOut(e.fn, e.args)
                                       \* each value fetched by a call of its own (the other pointers nil)
                                       /\ (e.acc[m].single # <<>> => e.acc[m].single = ExpOut(e.fn, e.args)))
                 /\ \A x \in TypeSpecific : (x # m \/ e.fn = "Tune") => ~e.acc[x].ok
      loopOk == exact => e.loop = <<e.bytes>>
  IN [ok |-> e.panic = "" /\ bytesOk /\ accOk /\ loopOk,
      info |-> [ev |-> "call", fn |-> e.fn, args |-> e.args, bytes |-> e.bytes, expected |-> IF exact THEN want ELSE <<>>,
                wellformed |-> wf, accOk |-> accOk, loopOk |-> loopOk, loop |-> e.loop, panic |-> e.panic]]

\* e.cats : record category -> BOOLEAN ; e.accs : sequence of accessor names that accepted
JudgeCls(e) ==
  LET cats == {c \in Cats : e.cats[c]}
      accs == {e.accs[i] : i \in 1..Len(e.accs)}
      ok == /\ e.panic = "" /\ accs \subseteq Accessors
            /\ ClassOk(e.lvl, e.bytes, cats, accs, e.type)
            /\ \A c \in Cats : e.oneof[c] = e.cats[c]          \* IsOneOf(category) is Is(category)
  IN [ok |-> ok, info |-> [ev |-> "cls", lvl |-> e.lvl, bytes |-> e.bytes, type |-> e.type, cats |-> cats, oneof |-> {c \in Cats : e.oneof[c]}, accs |-> accs, panic |-> e.panic]]

Judge(e) == IF e.ev = "call" THEN JudgeCall(e) ELSE JudgeCls(e)

Init == l = 1 /\ bad = <<>>
Next == \/ /\ l <= Len(Trace)
           /\ LET j == Judge(Trace[l])
              IN bad' = IF j.ok THEN bad ELSE Append(bad, [line |-> l, info |-> j.info])
           /\ l' = l + 1
        \/ /\ l = Len(Trace) + 1
           /\ ndJsonSerialize(IOEnv.VERIF_OUT, <<[consumed |-> Len(Trace)]>> \o bad)
           /\ l' = l + 1 /\ UNCHANGED bad
=============================================================================
