-------------------------- MODULE Trace_TypeAlgebra --------------------------
(* Trace validation for X07: one line = one observation of the real library
     ev = "is"     t.Is(c) for two exported type constants (by name)                                   -> T1
     ev = "oneof"  a message of type t asked IsOneOf(cs...)                                            -> T2
     ev = "names"  Type.String() of every exported type constant                                       -> T3
     ev = "rt"     a real-time constructor: bytes, the name of its Type(), what a loopback delivered   -> T4
     ev = "ctor"   a constructor of the midi / smf package (fixed arguments): the name of its Type()   -> T5
   Total: every line is consumed; rejected lines go to VERIF_OUT.                                              *)
EXTENDS TypeAlgebra, TLC, Json, IOUtils
VARIABLES l, bad
Trace == ndJsonDeserialize(IOEnv.VERIF_TRACE)

Judge(e) ==
  IF e.panic # "" THEN [ok |-> FALSE, info |-> [ev |-> e.ev, why |-> "panic", panic |-> e.panic]]
  ELSE IF e.ev = "is" THEN
    IF ~(e.t \in AllTypes /\ e.c \in AllTypes) THEN [ok |-> FALSE, info |-> [ev |-> "is", genbug |-> TRUE, t |-> e.t, c |-> e.c]]
    ELSE [ok |-> Judged(e.t) => e.got = Is(e.t, e.c),
          info |-> [ev |-> "is", genbug |-> FALSE, t |-> e.t, c |-> e.c, got |-> e.got, want |-> Is(e.t, e.c)]]
  ELSE IF e.ev = "oneof" THEN
    [ok |-> e.got = IsOneOf(e.t, e.cs), info |-> [ev |-> "oneof", t |-> e.t, cs |-> e.cs, got |-> e.got, want |-> IsOneOf(e.t, e.cs)]]
  ELSE IF e.ev = "names" THEN
    LET n == e.names
        dup == {i \in 1..Len(n) : \E j \in 1..Len(n) : j # i /\ n[j].str = n[i].str}
        empty == {i \in 1..Len(n) : n[i].str = ""} IN
    [ok |-> dup = {} /\ empty = {} /\ {n[i].t : i \in 1..Len(n)} = AllTypes,
     info |-> [ev |-> "names", duplicates |-> {n[i].t : i \in dup}, empty |-> {n[i].t : i \in empty},
               missing |-> AllTypes \ {n[i].t : i \in 1..Len(n)}]]
  ELSE IF e.ev = "rt" THEN
    IF e.fn \notin RtCtors THEN [ok |-> FALSE, info |-> [ev |-> "rt", genbug |-> TRUE, fn |-> e.fn]]
    ELSE [ok |-> e.bytes = <<RtByte[e.fn]>> /\ e.type = RtType[e.fn] /\ e.loop = <<e.bytes>>,
          info |-> [ev |-> "rt", genbug |-> FALSE, fn |-> e.fn, bytes |-> e.bytes, want |-> <<RtByte[e.fn]>>, type |-> e.type, loop |-> e.loop]]
  ELSE IF e.ev = "ctor" THEN
    IF e.fn \notin DOMAIN CtorType THEN [ok |-> FALSE, info |-> [ev |-> "ctor", genbug |-> TRUE, fn |-> e.fn]]
    ELSE [ok |-> e.type = CtorType[e.fn], info |-> [ev |-> "ctor", genbug |-> FALSE, fn |-> e.fn, type |-> e.type, want |-> CtorType[e.fn], bytes |-> e.bytes]]
  ELSE [ok |-> FALSE, info |-> [ev |-> e.ev, genbug |-> TRUE]]

Init == l = 1 /\ bad = <<>>
Next == \/ /\ l <= Len(Trace)
           /\ LET j == Judge(Trace[l])
              IN bad' = IF j.ok THEN bad ELSE Append(bad, [line |-> l, info |-> j.info])
           /\ l' = l + 1
        \/ /\ l = Len(Trace) + 1
           /\ ndJsonSerialize(IOEnv.VERIF_OUT, <<[consumed |-> Len(Trace)]>> \o bad)
           /\ l' = l + 1 /\ UNCHANGED bad
=============================================================================
