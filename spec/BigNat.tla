------------------------------- MODULE BigNat -------------------------------
(* Natural numbers beyond TLC's 32-bit integers: little-endian sequences of base-2^15 limbs, canonical =
   no most-significant zero limb, <<>> = 0.  Every intermediate product stays below 2^31
   (limb * limb + carry < 2^30 + 2^15).  Recursion depth = number of limbs (a handful).
   MC_Tempo checks these operators against TLC's native integers on small operands; DESIGN E.2 records a
   comparison with Python integers on 20 000 operand pairs.                                            *)
EXTENDS Integers, Sequences

BnB == 32768

BnIsCanon(a) == /\ \A i \in 1..Len(a) : a[i] \in 0..(BnB - 1)
                /\ (a # <<>> => a[Len(a)] # 0)

RECURSIVE BnNorm(_)
BnNorm(a) == IF a # <<>> /\ a[Len(a)] = 0 THEN BnNorm(SubSeq(a, 1, Len(a) - 1)) ELSE a

BnLimb(a, i) == IF i <= Len(a) THEN a[i] ELSE 0
BnMaxI(x, y) == IF x > y THEN x ELSE y

RECURSIVE BnOfNat(_)
BnOfNat(n) == IF n = 0 THEN <<>> ELSE <<n % BnB>> \o BnOfNat(n \div BnB)

\* value as a native integer; only for numbers known to be below 2^30 (at most two limbs)
BnToNat(a) == IF Len(a) = 0 THEN 0 ELSE IF Len(a) = 1 THEN a[1] ELSE a[1] + BnB * a[2]
BnIsSmall(a) == Len(a) <= 2

RECURSIVE BnAddC(_, _, _, _)
BnAddC(a, b, i, c) == IF i > BnMaxI(Len(a), Len(b)) THEN (IF c = 0 THEN <<>> ELSE <<c>>)
                      ELSE LET t == BnLimb(a, i) + BnLimb(b, i) + c IN <<t % BnB>> \o BnAddC(a, b, i + 1, t \div BnB)
BnAdd(a, b) == BnNorm(BnAddC(a, b, 1, 0))

\* a - b for a >= b (callers compare first)
RECURSIVE BnSubC(_, _, _, _)
BnSubC(a, b, i, br) == IF i > Len(a) THEN <<>>
                       ELSE LET t == a[i] - BnLimb(b, i) - br
                            IN IF t < 0 THEN <<t + BnB>> \o BnSubC(a, b, i + 1, 1) ELSE <<t>> \o BnSubC(a, b, i + 1, 0)
BnSub(a, b) == BnNorm(BnSubC(a, b, 1, 0))

\* a * k for a native 0 <= k < 2^15
RECURSIVE BnMulS(_, _, _, _)
BnMulS(a, k, i, c) == IF i > Len(a) THEN (IF c = 0 THEN <<>> ELSE <<c>>)
                      ELSE LET t == a[i] * k + c IN <<t % BnB>> \o BnMulS(a, k, i + 1, t \div BnB)
BnMulSmall(a, k) == BnNorm(BnMulS(a, k, 1, 0))

RECURSIVE BnMulAcc(_, _, _)
BnMulAcc(a, b, j) == IF j > Len(b) THEN <<>>
                     ELSE BnAdd(BnMulS(a, b[j], 1, 0), <<0>> \o BnMulAcc(a, b, j + 1))
BnMul(a, b) == BnNorm(BnMulAcc(a, b, 1))

RECURSIVE BnCmpFrom(_, _, _)
BnCmpFrom(a, b, i) == IF i = 0 THEN 0 ELSE IF a[i] < b[i] THEN -1 ELSE IF a[i] > b[i] THEN 1 ELSE BnCmpFrom(a, b, i - 1)
\* canonical operands
BnCmp(a, b) == IF Len(a) < Len(b) THEN -1 ELSE IF Len(a) > Len(b) THEN 1 ELSE BnCmpFrom(a, b, Len(a))
BnLeq(a, b) == BnCmp(a, b) <= 0
BnLt(a, b)  == BnCmp(a, b) < 0
BnMin(a, b) == IF BnLeq(a, b) THEN a ELSE b
BnAbsDiff(a, b) == IF BnLeq(b, a) THEN BnSub(a, b) ELSE BnSub(b, a)

\* 2^k
RECURSIVE BnPow2(_)
BnPow2(k) == IF k < 15 THEN <<2 ^ k>> ELSE <<0>> \o BnPow2(k - 15)

\* decimal digits, most significant first (the independent representation trace records carry next to the limbs)
RECURSIVE BnOfDecFrom(_, _, _)
BnOfDecFrom(ds, i, acc) == IF i > Len(ds) THEN acc
                           ELSE BnOfDecFrom(ds, i + 1, BnAdd(BnMulSmall(acc, 10), BnOfNat(ds[i])))
BnOfDec(ds) == BnOfDecFrom(ds, 1, <<>>)
BnIsDec(ds) == /\ Len(ds) >= 1 /\ Len(ds) <= 40 /\ \A i \in 1..Len(ds) : ds[i] \in 0..9
               /\ (Len(ds) > 1 => ds[1] # 0)
=============================================================================
