------------------------------ MODULE Convert ------------------------------
(* C16: converting a single-track (format 0) file to multi-track (format 1) form.

   Values.  An event is [d |-> delta, m |-> message bytes]; a track is a sequence of events; a source
   file is [div |-> time division, track |-> its only track]; a converted file is
   [fmt |-> format, div |-> time division, tracks |-> sequence of tracks].

   Deltas are naturals in 0..CvBig.  TLC integers are 32 bit: the DOMAIN of the check keeps the sum of all
   deltas of a source below CvBig = 2^30 (generated inputs: <= 402 events of <= 1 000 000 ticks each, plus at most three legal deltas of 2..2.6 * 10^8 ticks);
   whatever the library returns is mapped into 0..CvBig by the trace spec (CvBig = "too large") and absolute
   ticks saturate at CvBig, which no source tick can equal.

   The judging predicate ConvertOk(src, dest) is the property text clause by clause (see below); CvConvert
   is the abstract conversion (a stable partition by channel carrying absolute ticks), used by
   MC_Convert to show that the clauses are satisfiable exactly by stable partitions.                    *)
EXTENDS Integers, Sequences, FiniteSets, SequencesExt

CvEOT == <<255, 47, 0>>
CvBig == 1073741824

CvIsChan(m) == Len(m) > 0 /\ m[1] >= 128 /\ m[1] <= 239       \* MIDI 1.0: status 8n..En is a channel message,
CvChan(m) == m[1] % 16                                       \* n its channel
CvWellFormed(m) == Len(m) > 0 /\ (CvIsChan(m) \/ m[1] = 240 \/ m[1] = 247 \/ (m[1] = 255 /\ Len(m) >= 3))

\* ---- absolute ticks -----------------------------------------------------------------------------
CvPlus(t, d) == IF t >= CvBig \/ d >= CvBig \/ d < 0 THEN CvBig ELSE IF t + d >= CvBig THEN CvBig ELSE t + d

\* the events of tr as [t |-> absolute tick, m |-> message]
CvAbs(tr) ==
  FoldLeft(LAMBDA acc, ev : [t |-> CvPlus(acc.t, ev.d), s |-> Append(acc.s, [t |-> CvPlus(acc.t, ev.d), m |-> ev.m])],
           [t |-> 0, s |-> <<>>], tr).s

\* the messages of a terminated track with their absolute ticks: everything before the final event (the
\* terminator, whose own position the property leaves free)
CvItems(tr) == IF Len(tr) <= 1 THEN <<>> ELSE CvAbs(SubSeq(tr, 1, Len(tr) - 1))

\* ---- clause: properly terminated -----------------------------------------------------------------
CvTerminated(tr) ==
  /\ Len(tr) > 0
  /\ tr[Len(tr)].m = CvEOT
  /\ \A i \in 1..(Len(tr) - 1) : tr[i].m # CvEOT

\* a source track that was never closed (no end-of-track at all) is a value the public API builds just as well (Track.Add
\* without Track.Close; the library tolerates it and terminates such a track on writing): all its events are messages
CvUnterminated(tr) == \A i \in 1..Len(tr) : tr[i].m # CvEOT
CvSrcItems(tr) == IF CvUnterminated(tr) THEN CvAbs(tr) ELSE CvItems(tr)

\* ---- the domain of the property --------------------------------------------------------------------
CvInDomain(src) ==
  /\ CvTerminated(src.track) \/ CvUnterminated(src.track)
  /\ \A i \in 1..Len(src.track) : CvWellFormed(src.track[i].m) /\ src.track[i].d >= 0 /\ src.track[i].d < 268435456
  /\ Len(src.track) <= 1000
  \* the whole file stays below CvBig ticks (sum of the deltas; CvPlus saturates, so this is safe to evaluate)
  /\ FoldLeft(LAMBDA t, ev : CvPlus(t, ev.d), 0, src.track) < CvBig

\* ---- clause: time division kept, the result is multi-track ---------------------------------------
CvDivKept(src, dest) == dest.fmt = 1 /\ dest.div = src.div

\* ---- clause: no message lost, duplicated or altered, every message keeps its absolute tick --------
\* equality of the multisets of (absolute tick, message)
CvCount(s, x) == Cardinality({i \in DOMAIN s : s[i] = x})
CvSameBag(a, b) == Len(a) = Len(b) /\ \A x \in {a[i] : i \in DOMAIN a} : CvCount(a, x) = CvCount(b, x)
CvAllItems(tracks) == FlattenSeq([i \in 1..Len(tracks) |-> CvItems(tracks[i])])
CvNothingLost(src, dest) == CvSameBag(CvSrcItems(src.track), CvAllItems(dest.tracks))

\* ---- clause: channel messages on a track of their own channel, everything else on the first track --
\* a track holds either no channel message at all, or only channel messages of ONE channel; a track that holds
\* anything that is not a channel message is the first; no channel has two tracks.
\* (left free: the order of the channel tracks, tracks without messages, and -- when the source has nothing but
\*  channel messages -- whether an empty first track exists)
CvTrackKind(it) ==
  IF it = <<>> THEN "empty"
  ELSE IF \A k \in DOMAIN it : ~CvIsChan(it[k].m) THEN "other"
  ELSE IF \A k \in DOMAIN it : CvIsChan(it[k].m) /\ CvChan(it[k].m) = CvChan(it[1].m) THEN "chan"
  ELSE "mixed"
CvPlacement(dest) ==
  LET its == [i \in 1..Len(dest.tracks) |-> CvItems(dest.tracks[i])]
      kind == [i \in 1..Len(dest.tracks) |-> CvTrackKind(its[i])]
  IN /\ \A i \in DOMAIN its : kind[i] # "mixed" /\ (kind[i] = "other" => i = 1)
     /\ \A i, j \in DOMAIN its : (i < j /\ kind[i] = "chan" /\ kind[j] = "chan") => CvChan(its[i][1].m) # CvChan(its[j][1].m)

\* ---- clause: within each resulting track the original relative order ---------------------------------
\* the messages of a track are, in this order, the messages of the source that belong on it
\* (messages that are equal and on the same tick are indistinguishable, so this IS "an order preserving
\*  correspondence" once CvNothingLost and CvPlacement hold)
CvBelongs(it, x) ==
  IF it = <<>> THEN FALSE
  ELSE IF CvIsChan(it[1].m) THEN CvIsChan(x.m) /\ CvChan(x.m) = CvChan(it[1].m)
  ELSE ~CvIsChan(x.m)
CvOrderKept(src, dest) ==
  LET s == CvSrcItems(src.track) IN
  \A i \in 1..Len(dest.tracks) :
    LET it == CvItems(dest.tracks[i]) IN it = SelectSeq(s, LAMBDA x : CvBelongs(it, x))

\* ---- clause: every resulting track properly terminated -------------------------------------------------
CvAllTerminated(dest) == Len(dest.tracks) >= 1 /\ \A i \in 1..Len(dest.tracks) : CvTerminated(dest.tracks[i])

\* ---- the property ---------------------------------------------------------------------------------------
CvClauses(src, dest) ==
  LET term == CvAllTerminated(dest) IN
  [div |-> CvDivKept(src, dest),
   terminated |-> term,
   nothingLost |-> term /\ CvNothingLost(src, dest),
   placement |-> term /\ CvPlacement(dest),
   order |-> term /\ CvOrderKept(src, dest)]
ConvertOk(src, dest) ==
  LET c == CvClauses(src, dest) IN c.div /\ c.terminated /\ c.nothingLost /\ c.placement /\ c.order

\* ---- the abstract conversion ---------------------------------------------------------------------------
\* a stable partition of the source's messages (with their absolute ticks) by channel; free choices are
\* parameters: order = the channels in track order, eot1 / eotc = delta of the terminator of the first track /
\* of the channel tracks
CvRedelta(items) ==
  [i \in 1..Len(items) |-> [d |-> items[i].t - (IF i = 1 THEN 0 ELSE items[i - 1].t), m |-> items[i].m]]
CvClose(tr, d) == Append(tr, [d |-> d, m |-> CvEOT])
CvChannels(items) == {CvChan(items[i].m) : i \in {k \in DOMAIN items : CvIsChan(items[k].m)}}
CvOthers(items) == SelectSeq(items, LAMBDA x : ~CvIsChan(x.m))
CvOfChan(items, c) == SelectSeq(items, LAMBDA x : CvIsChan(x.m) /\ CvChan(x.m) = c)
CvConvert(src, order, eot1, eotc) ==
  LET items == CvSrcItems(src.track) IN
  [fmt |-> 1, div |-> src.div,
   tracks |-> <<CvClose(CvRedelta(CvOthers(items)), eot1)>>
              \o [k \in 1..Len(order) |-> CvClose(CvRedelta(CvOfChan(items, order[k])), eotc)]]
=============================================================================
