-------------------------------- MODULE Ports --------------------------------
(* Lifecycle of a MIDI port pair (C17), written from the drivers.Port / drivers.In / drivers.Out contract and the
   property text.  One specification judges both drivers:
     Kind = "testdrv"  in-memory loopback: a message sent reaches the active listener synchronously
     Kind = "midicat"  process-backed ports joined by an external loopback: a message travels only while the
                       in port is open; closing the in port while listening implies stop
   Protocol-respecting histories (DESIGN C.7): Listen only when no listener is active; the stop function of the
   most recent listener may be called any number of times until the next Listen; the in port is closed only
   after stop (midicat also tolerates Close while listening).
   Every step yields the expected return value `ret` and the expected deliveries `dlv` (sequence of
   [l |-> listener id, m |-> message]).                                                                 *)
EXTENDS Integers, Sequences, FiniteSets

\* messages: 1..127 a note-on with that key; 248 timing clock; 254 active sensing; 240 a short sysex.
\* listen options of the active listener (C14): opts == [sysex, as, tc]; a message of a class whose option is off is filtered
AllOpts == [sysex |-> TRUE, as |-> TRUE, tc |-> TRUE]
PassesOpts(o, m) == /\ (m = 254 => o.as) /\ (m = 248 => o.tc) /\ (m = 240 => o.sysex)

P0 == [inOpen |-> FALSE, outOpen |-> FALSE, active |-> 0, lastL |-> 0, opts |-> AllOpts]

Enabled(Kind, s, call) ==
  CASE call.fn \in {"Listen", "ListenOpts"}  -> s.active = 0
    [] call.fn \in {"Stop", "BurstStop"} -> s.lastL # 0
    [] call.fn = "CloseIn" -> Kind = "midicat" \/ s.active = 0
    [] call.fn = "OpenInFail"  -> ~s.inOpen       \* the backing process cannot be started
    [] call.fn = "OpenOutFail" -> ~s.outOpen
    [] OTHER -> TRUE

Delivers(Kind, s) == s.outOpen /\ s.active # 0 /\ (Kind = "midicat" => s.inOpen)

\* call == [fn |-> ..., msgs |-> <<sender queues>>]; result [s, ret, dlv]
PStep(Kind, s, call) ==
  CASE call.fn = "OpenIn"   -> [s |-> [s EXCEPT !.inOpen = TRUE], ret |-> "nil", dlv |-> <<>>]
    [] call.fn = "CloseIn"  -> [s |-> [s EXCEPT !.inOpen = FALSE, !.active = 0], ret |-> "nil", dlv |-> <<>>]
    [] call.fn \in {"OpenInFail", "OpenOutFail"} -> [s |-> s, ret |-> "err", dlv |-> <<>>]    \* reported, nothing changes, no call hangs
    [] call.fn = "OpenOut"  -> [s |-> [s EXCEPT !.outOpen = TRUE], ret |-> "nil", dlv |-> <<>>]
    [] call.fn = "CloseOut" -> [s |-> [s EXCEPT !.outOpen = FALSE], ret |-> "nil", dlv |-> <<>>]
    \* the two ports opened at the same time by two goroutines (each port is used by one goroutine; only the driver is shared):
    \* OpenIn and OpenOut commute, so the step is their composition
    [] call.fn = "OpenBoth" -> [s |-> [s EXCEPT !.inOpen = TRUE, !.outOpen = TRUE], ret |-> "nil", dlv |-> <<>>]
    [] call.fn = "Listen"   -> [s |-> [s EXCEPT !.inOpen = TRUE, !.active = s.lastL + 1, !.lastL = s.lastL + 1, !.opts = AllOpts],   \* ListenTo opens the port
                                ret |-> "nil", dlv |-> <<>>]
    [] call.fn = "ListenOpts" -> [s |-> [s EXCEPT !.inOpen = TRUE, !.active = s.lastL + 1, !.lastL = s.lastL + 1, !.opts = call.opts],
                                ret |-> "nil", dlv |-> <<>>]
    [] call.fn = "Stop"     -> [s |-> [s EXCEPT !.active = 0], ret |-> "nil", dlv |-> <<>>]
    \* a burst of sends immediately followed by stop(), without waiting for the deliveries: stop races with callbacks in flight.
    \* Expected: `dlv` is what would be delivered if stop came last; the judge accepts any PREFIX of it (StepOk), and the
    \* harness reports a callback that STARTS after stop() returned as a panic-like failure of the step.
    [] call.fn = "BurstStop" -> [s |-> [s EXCEPT !.active = 0], ret |-> IF s.outOpen THEN "nil" ELSE "closed",
                                dlv |-> IF Delivers(Kind, s)
                                        THEN LET q == SelectSeq(call.msgs[1], LAMBDA m : PassesOpts(s.opts, m))
                                             IN [i \in 1..Len(q) |-> [l |-> s.active, m |-> q[i]]]
                                        ELSE <<>>]
    [] call.fn = "Send"     -> [s |-> s, ret |-> IF s.outOpen THEN "nil" ELSE "closed",
                                dlv |-> IF Delivers(Kind, s) /\ PassesOpts(s.opts, call.m) THEN <<[l |-> s.active, m |-> call.m]>> ELSE <<>>]

\* ---- judging an observed step (trace validation) ----------------------------------------------------------
\* sequential send: deliveries exactly as expected.  Concurrent senders (fn = "SendPar", msgs = one queue per sender,
\* rets = one return per message): every message exactly once to the active listener, each sender's order kept.
IsSubSeqOf(q, d) ==   \* q's elements occur in d in this order (all messages are distinct)
  \A i, j \in 1..Len(q) : i < j =>
     \E a, b \in 1..Len(d) : a < b /\ d[a] = q[i] /\ d[b] = q[j]

ParOk(Kind, s, call, rets, got) ==
  LET all == { m \in UNION { {q[i] : i \in 1..Len(q)} : q \in {call.msgs[k] : k \in 1..Len(call.msgs)} } : PassesOpts(s.opts, m) } IN
  /\ \A i \in 1..Len(rets) : rets[i] = IF s.outOpen THEN "nil" ELSE "closed"
  /\ IF Delivers(Kind, s)
       THEN /\ Len(got) = Cardinality(all)
            /\ {got[i].m : i \in 1..Len(got)} = all
            /\ \A i \in 1..Len(got) : got[i].l = s.active
            /\ \A k \in 1..Len(call.msgs) :
                 IsSubSeqOf(SelectSeq(call.msgs[k], LAMBDA m : PassesOpts(s.opts, m)), [i \in 1..Len(got) |-> got[i].m])
       ELSE got = <<>>
=============================================================================
