---------------------------- MODULE MC_Controllers ----------------------------
(* X02 on the model.  A sender emits the ideal MIDI 1.0 parameter sequence (select pair in either order, data part,
   optionally the null function, then -- after a null -- stray data-entry messages) into the receiver RxStep that
   starts in ANY state (another parameter of either kind selected, half-selected, unknown registers).  TLC checks at
   every step that the receiver never performs a write that was not asked for (WritesSafe), that at the end exactly the
   asked writes happened on exactly the asked parameter and the selection is the parameter or null (Done), so the
   protocol is independent of the receiver's history and the null function shields the parameter.
   ASSUMEs (checked once): the judge used on the real code (ParamOk, from a receiver that knows nothing) accepts every
   ideal sequence and rejects its mutants (a dropped select, data before the second select, a message on a foreign
   channel, a wrong data byte, a stray controller, half a null); the combined-helper judges accept the documented
   sequences and reject mutants; controller-table and note-numbering lemmas.                                     *)
EXTENDS Controllers
CONSTANTS PV, DV
RegV == {Unk, 0, 127}      \* what the receiver's registers may hold before the call
VARIABLES rx, todo, wr, call

Kinds == {"rpn", "nrpn"}
Calls == {k \in [kind : Kinds, pm : PV, pl : PV, op : {"entry", "inc", "dec"}, msb : DV, lsb : DV,
                 null : {"no", "rpn", "nrpn"}, lsbFirst : BOOLEAN] :
            /\ (k.op # "entry" => k.msb = 0 /\ k.lsb = 0)
            /\ (k.null = "nrpn" => k.kind = "nrpn")}
SelM(kind) == IF kind = "rpn" THEN 101 ELSE 99
SelL(kind) == IF kind = "rpn" THEN 100 ELSE 98
Ideal(c, k) ==
  LET m == CCMsg(c, SelM(k.kind), k.pm)
      l == CCMsg(c, SelL(k.kind), k.pl)
      data == CASE k.op = "entry" -> <<CCMsg(c, 6, k.msb), CCMsg(c, 38, k.lsb)>>
                [] k.op = "inc" -> <<CCMsg(c, 96, 0)>>
                [] k.op = "dec" -> <<CCMsg(c, 97, 0)>>
      null == IF k.null = "no" THEN <<>> ELSE <<CCMsg(c, SelM(k.null), 127), CCMsg(c, SelL(k.null), 127)>>
  IN (IF k.lsbFirst THEN <<l, m>> ELSE <<m, l>>) \o data \o null
Stray(c) == <<CCMsg(c, 38, 78), CCMsg(c, 6, 77), CCMsg(c, 96, 0), CCMsg(c, 97, 0)>>
Want(k) == ExpWrites(k.kind, k.pm, k.pl, k.op, k.msb, k.lsb)

RxStates == [act : {"none", "rpn", "nrpn"}, rM : RegV, rL : RegV, nM : RegV, nL : RegV]
Init == /\ call \in Calls /\ rx \in RxStates /\ wr = <<>>
        /\ todo = Ideal(3, call) \o (IF call.null = "no" THEN <<>> ELSE Stray(3))
Next == /\ todo # <<>>
        /\ LET r == RxStep(rx, todo[1][2], todo[1][3]) IN rx' = r.rx /\ wr' = wr \o r.w
        /\ todo' = Tail(todo) /\ UNCHANGED call

IsPrefixOf(a, b) == Len(a) <= Len(b) /\ SubSeq(b, 1, Len(a)) = a
WritesSafe == IsPrefixOf(wr, Want(call))
Done == todo = <<>> => wr = Want(call) /\ FinalOk(call.kind, call.pm, call.pl, call.op, rx)

\* ---- the judge against ideal sequences and mutants -------------------------------------------------------------
Judge(k, s) == ParamOk(k.kind, 3, k.pm, k.pl, k.op, k.msb, k.lsb, s)
Proper(k) == k.pm # 127 /\ k.pl # 127
ReplaceAt(s, i, m) == [s EXCEPT ![i] = m]
ASSUME JudgeAcceptsIdeal == \A k \in Calls : Judge(k, Ideal(3, k))
ASSUME JudgeRejectsMutants == \A k \in Calls : Proper(k) =>
  LET s == Ideal(3, k) IN
  /\ ~Judge(k, Tail(s))                                                        \* first select missing
  /\ ~Judge(k, <<s[1]>> \o SubSeq(s, 3, Len(s)))                               \* second select missing
  /\ ~Judge(k, <<s[1], s[3], s[2]>> \o SubSeq(s, 4, Len(s)))                    \* data before the second select
  /\ \A i \in 1..Len(s) : ~Judge(k, ReplaceAt(s, i, <<176 + 4, s[i][2], s[i][3]>>))   \* one message on another channel
  /\ ~Judge(k, ReplaceAt(s, 3, <<s[3][1], s[3][2] + 1, s[3][3]>>))               \* another data controller
  /\ (k.op = "entry" => ~Judge(k, ReplaceAt(s, 3, <<s[3][1], 6, (k.msb + 1) % 128>>)))  \* wrong value
  /\ (k.op = "entry" => ~Judge(k, <<s[1], s[2], s[4], s[3]>> \o SubSeq(s, 5, Len(s))))  \* LSB before MSB
  /\ ~Judge(k, s \o <<CCMsg(3, 7, 100)>>)                                        \* a stray controller
  /\ (k.null # "no" => ~Judge(k, SubSeq(s, 1, Len(s) - 1)))                      \* half a null
  /\ ~Judge(k, s \o <<CCMsg(3, SelL(k.kind), (k.pl + 1) % 127)>>)                \* leaves another parameter selected
  /\ ~Judge([k EXCEPT !.kind = IF k.kind = "rpn" THEN "nrpn" ELSE "rpn"], s)     \* RPN where NRPN was asked / vice versa
ASSUME RpnNullIsRpn == ~ParamOk("rpn", 3, 0, 0, "none", 0, 0, <<CCMsg(3, 99, 127), CCMsg(3, 98, 127)>>)
                       /\ ParamOk("rpn", 3, 0, 0, "none", 0, 0, <<CCMsg(3, 101, 127), CCMsg(3, 100, 127)>>)
                       /\ ParamOk("nrpn", 3, 0, 0, "none", 0, 0, <<CCMsg(3, 99, 127), CCMsg(3, 98, 127)>>)
                       /\ ~ParamOk("rpn", 3, 0, 0, "none", 0, 0, <<CCMsg(3, 101, 127)>>)
ASSUME NamedRpnCalls ==
  /\ ParamCallOk("rpn.PitchBendSensitivity", <<16, 2, 200>>, Ideal(15, [kind |-> "rpn", pm |-> 0, pl |-> 0, op |-> "entry", msb |-> 2, lsb |-> 127, null |-> "rpn", lsbFirst |-> FALSE]))
  /\ ~ParamCallOk("rpn.FineTuning", <<16, 2, 200>>, Ideal(15, [kind |-> "rpn", pm |-> 0, pl |-> 0, op |-> "entry", msb |-> 2, lsb |-> 127, null |-> "rpn", lsbFirst |-> FALSE]))
  /\ \A n \in DOMAIN StdRpn : StdName("rpn." \o n) = n /\ ParamArity("rpn." \o n) = 3

\* ---- combined helpers ----------------------------------------------------------------------------------------
SilIdeal(chs) == LET RECURSIVE f(_) f(c) == IF c > 15 THEN <<>> ELSE (IF c \in chs THEN <<CCMsg(c, 123, 0), CCMsg(c, 120, 0)>> ELSE <<>>) \o f(c + 1) IN f(0)
ASSUME SilenceLemmas ==
  /\ \A c \in 0..15 : SilenceOk(c, SilIdeal({c}), FALSE) /\ ~SilenceOk(c, SilIdeal({(c + 1) % 16}), FALSE)
                      /\ ~SilenceOk(c, SilIdeal({c}) \o <<CCMsg(c, 121, 0)>>, FALSE) /\ ~SilenceOk(c, <<>>, FALSE)
                      /\ ~SilenceOk(c, <<CCMsg(c, 120, 1)>>, FALSE) /\ SilenceOk(c, <<CCMsg(c, 120, 0)>>, FALSE)
  /\ SilenceOk(-1, SilIdeal(0..15), FALSE) /\ ~SilenceOk(-1, SilIdeal(0..14), FALSE) /\ ~SilenceOk(-1, SilIdeal(0..15), TRUE)
  /\ SilenceOk(16, <<>>, TRUE) /\ ~SilenceOk(16, <<>>, FALSE) /\ ~SilenceOk(127, SilIdeal({15}), FALSE)
  /\ SilenceOk(3, [k \in 1..128 |-> <<128 + 3, k - 1, 0>>], FALSE) /\ ~SilenceOk(3, [k \in 1..127 |-> <<128 + 3, k - 1, 0>>], FALSE)
RcIdeal(c, b, p) == <<CCMsg(c, 0, b), <<192 + c, p>>, CCMsg(c, 121, 0), CCMsg(c, 7, 100), CCMsg(c, 11, 127), CCMsg(c, 64, 0), CCMsg(c, 10, 64)>>
Pbs(c) == <<CCMsg(c, 101, 0), CCMsg(c, 100, 0), CCMsg(c, 6, 2), CCMsg(c, 38, 0), CCMsg(c, 101, 127), CCMsg(c, 100, 127)>>
ASSUME ResetChannelLemmas == \A ch \in {0, 9, 15, 16, 255}, b \in {0, 5, 127, 128}, p \in {0, 7, 127, 255} :
  LET c == Ch(ch)  s == RcIdeal(c, C7(b), C7(p)) IN
  /\ ResetChannelOk(ch, b, p, s) /\ ResetChannelOk(ch, b, p, s \o Pbs(c)) /\ ResetChannelOk(ch, b, p, s \o SubSeq(Pbs(c), 1, 3))
  /\ ~ResetChannelOk(ch, b, p, Tail(s)) /\ ~ResetChannelOk(ch, b, p, <<s[2], s[1]>> \o SubSeq(s, 3, 7))
  /\ ~ResetChannelOk(ch, b, p, s \o <<s[7]>>) /\ ~ResetChannelOk(ch, b, p, ReplaceAt(s, 4, CCMsg(c, 7, 127)))
  /\ ~ResetChannelOk(ch, b, p, ReplaceAt(s, 3, CCMsg((c + 1) % 16, 121, 0)))
  /\ ~ResetChannelOk(ch, b, p, s \o ReplaceAt(Pbs(c), 3, CCMsg(c, 6, 12))) /\ ~ResetChannelOk(ch, b, p, s \o SubSeq(Pbs(c), 2, 6))

\* ---- tables and notes --------------------------------------------------------------------------------------------
ASSUME ControllerTable ==
  /\ \A p \in MsbLsbPairs : CCTable[p[2]] = CCTable[p[1]] + 32 /\ CCTable[p[1]] < 32
  /\ \A n \in DOMAIN CCTable : CCTable[n] \in 0..127
  /\ \A a, b \in DOMAIN CCTable \ {"Off", "On", "PolyOperation"} : a # b => CCTable[a] # CCTable[b]
  /\ {CCTable[n] : n \in ModeNames} = 120..127
  /\ ProtoCtl = {CCTable[n] : n \in {"RegisteredParameterMSB", "RegisteredParameterLSB", "NonRegisteredParameterMSB",
                  "NonRegisteredParameterLSB", "DataEntryMSB", "DataEntryLSB", "DataButtonIncrement", "DataButtonDecrement"}}
  /\ \A n \in DOMAIN CCTable : ConstKnown("cc." \o n) /\ ConstWant("cc." \o n) = CCTable[n]
  /\ \A n \in DOMAIN IntervalTable : ConstWant("interval." \o n) = IntervalTable[n]
  /\ {IntervalTable[n] : n \in DOMAIN IntervalTable} = 0..24 /\ ~ConstKnown("cc.Nope")
ASSUME NoteLemmas ==
  /\ KeyNum(PcIndex("C"), 5) = 60 /\ NoteStr(60) = "C5" /\ KeyNum(PcIndex("A"), 5) = 69 /\ NoteStr(127) = "G10" /\ NoteStr(0) = "C0"
  /\ \A k \in 0..127 : KeyNum(PcOf(k), OctaveOf(k)) = k /\ KeyFnOk(PcOf(k), OctaveOf(k), k) /\ PcIndex(PcNames[PcOf(k) + 1]) = PcOf(k)
  /\ \A pc \in 0..11, oct \in 0..255 : \E k \in 0..127 : KeyFnOk(pc, oct, k)
  /\ \A n, m \in 0..127 : TransposeOk(n, m - n, m)
  /\ \A n \in 0..127, i \in -128..127 : \E k \in 0..127 : TransposeOk(n, i, k)
  /\ ~TransposeOk(127, 1, 0) /\ TransposeOk(127, 1, 127) /\ TransposeOk(0, -1, 0) /\ ~TransposeOk(0, -1, 127) /\ ~TransposeOk(60, 7, 66)
  /\ IntervalStrOk(7, "Fifth up") /\ IntervalStrOk(-13, "MinorNinth down") /\ ~IntervalStrOk(-7, "Fifth up") /\ IntervalStrOk(24, "Unison up")
=============================================================================
