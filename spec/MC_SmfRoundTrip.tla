--------------------------- MODULE MC_SmfRoundTrip ---------------------------
(* Model-level theorem behind C01 and C03, checked by TLC over bounded API histories: every state of this
   module IS a file under construction; in every state
        Decode(Encode(Canon(f), nrs)) = Canon(f)   and the encoding is canonical
   for both values of NoRunningStatus.  Event alphabet: the register-relevant kinds (same status / other
   status / one-data channel events, meta, sysex with and without F7, escape) and deltas around the VLQ
   length changes.                                                                                     *)
EXTENDS SmfWrite, SmfParse, TLC
CONSTANTS MaxTracks, MaxEvents, Divs
VARIABLES f, n      \* f: builder state, n: number of events added so far

vars == <<f, n>>
MsgAlphabet == { <<144, 60, 100>>, <<144, 61, 0>>, <<145, 60, 1>>, <<128, 60, 0>>, <<192, 5>>, <<193, 6>>, <<224, 0, 64>>,
                 <<255, 1, 0>>, <<255, 1, 1, 65>>, <<255, 81, 3, 7, 161, 32>>, <<255, 96, 2, 1, 2>>,
                 <<240, 1, 247>>, <<240, 1, 2>>, <<240>>, <<247, 1, 2>>, <<247, 144, 1, 2>> }
Deltas == { <<0>>, <<127>>, <<1, 0>>, <<127, 127>>, <<1, 0, 0>>, <<127, 127, 127, 127>> }

Init == \E fm \in 0..2, nr \in BOOLEAN, dv \in Divs :
          f = [B0 EXCEPT !.fmt = fm, !.nrs = nr, !.div = dv] /\ n = 0

Add(d, m)   == n < MaxEvents /\ f' = BuildStep(f, [op |-> "add", d |-> d, msgs |-> <<m>>]) /\ n' = n + 1
Add2(d, m1, m2) == n + 1 < MaxEvents /\ f' = BuildStep(f, [op |-> "add", d |-> d, msgs |-> <<m1, m2>>]) /\ n' = n + 2
Close(d)    == ~Closed(f.tr) /\ f' = BuildStep(f, [op |-> "close", d |-> d]) /\ n' = n
SmfAdd      == Len(f.tracks) < MaxTracks /\ f' = BuildStep(f, [op |-> "smfadd"]) /\ n' = n
NewTrack    == f.tr # <<>> /\ f' = BuildStep(f, [op |-> "track"]) /\ n' = n
\* every message at delta 0, every delta with one channel message (the delta and the message are encoded independently)
Pairs == { <<(<<0>>), m>> : m \in MsgAlphabet } \cup { <<d, (<<144, 60, 100>>)>> : d \in Deltas }
Next == \/ \E p \in Pairs : Add(p[1], p[2])
        \/ \E m1 \in {<<144, 60, 100>>, <<255, 1, 0>>}, m2 \in {<<144, 61, 0>>, <<240, 1, 247>>} : Add2(<<1, 0>>, m1, m2)
        \/ \E d \in {<<0>>, <<1, 0>>} : Close(d)
        \/ SmfAdd \/ NewTrack
Spec == Init /\ [][Next]_vars

DivsQuick == { <<3, 192>>, <<232, 40>> }
DivsFull == { <<0, 1>>, <<3, 192>>, <<127, 255>>, <<232, 40>>, <<231, 1>>, <<227, 255>>, <<226, 0>> }
RoundTrip ==
  f.tracks # <<>> =>
    LET c == Canon(f)
        r == Decode(Encode(c, f.nrs))
    IN /\ r.kind = "value" /\ r.canon
       /\ r.fmt = c.fmt /\ r.div = c.div /\ r.tracks = c.tracks
\* running status is really used when allowed and never when switched off
Compression ==
  f.tracks # <<>> => Len(Encode(Canon(f), FALSE)) <= Len(Encode(Canon(f), TRUE))
=============================================================================
