-------------------------- MODULE MC_LiveDecoder --------------------------
(* Behavioural wrapper of LiveDecoder for TLC: all byte streams over a class alphabet, under every
   listen-option set, in lock-step with an all-options-on twin (C14).  The state graph of this module
   (tlc -dump dot,actionlabels) is what the Go walker steps through the real decoder (binding G).   *)
EXTENDS LiveDecoder, TLC
CONSTANTS Alphabet, Caps
VARIABLES cfg, s, out, sAll, outAll

vars == <<cfg, s, out, sAll, outAll>>
AllOn(c) == [c EXCEPT !.sysex = TRUE, !.as = TRUE, !.tc = TRUE]

Init == /\ cfg \in [cap : Caps, sysex : BOOLEAN, as : BOOLEAN, tc : BOOLEAN]
        /\ s = Init0 /\ out = <<>> /\ sAll = Init0 /\ outAll = <<>>

Bytes(ms) == [i \in 1..Len(ms) |-> ms[i].b]

Byte(b) == LET r == Step(cfg, s, b, 0)
               a == Step(AllOn(cfg), sAll, b, 0)
           IN /\ s' = r.s /\ out' = Bytes(Filter(cfg, r.out))
              /\ sAll' = a.s /\ outAll' = Bytes(a.out)
              /\ UNCHANGED cfg
Next == \E b \in Alphabet : Byte(b)
Spec == Init /\ [][Next]_vars

\* ---- invariants ----
OutWellFormed == \A i \in 1..Len(out) : WellFormed(cfg, out[i])
RunningStatusOnlyFromChannel == s.rs = 0 \/ IsChanStatus(s.rs)
SysexBounded == Len(s.sx) <= EffCap(cfg) /\ (s.mode # "sysex" => s.sx = <<>>)
ModeConsistent == /\ (s.mode \in {"chan", "sys"} => Len(s.d) <= 1 /\ IsStatus(s.st))
                  /\ (s.mode \notin {"chan", "sys"} => s.d = <<>>)
                  /\ (s.mode = "chan" => s.rs = s.st)
                  /\ (s.mode \in {"sys", "sysex", "skip"} => s.rs = 0)

\* C14: filtered run = projection of the unfiltered run (per step, hence for whole streams)
FilterExact == out = SelectSeq(outAll, LAMBDA m : Passes(cfg, [b |-> m]))

\* C06 resynchronisation: from ANY reachable state a complete message that starts with a status byte
\* is decoded exactly (and leaves a state from which this holds again, since that state is reachable)
Probes == { <<144, 1, 2>>, <<128, 0, 127>>, <<193, 5>>, <<224, 0, 64>>, <<241, 3>>, <<242, 1, 2>>,
            <<243, 9>>, <<246>>, <<240, 247>>, <<240, 1, 247>>, <<248>>, <<254>> }
Expect(m) == IF m[1] = 240 /\ (Len(m) > EffCap(cfg)) THEN <<>> ELSE <<m>>
Resync == \A m \in Probes :
            Bytes(Deliver(cfg, s, m, 0).out) = SelectSeq(Expect(m), LAMBDA x : Passes(cfg, [b |-> x]))

\* running status: after a complete channel message, data bytes alone repeat it
RunningStatus ==
  (s.mode = "idle" /\ s.rs # 0) =>
     Bytes(Deliver(cfg, s, IF NData(s.rs) = 1 THEN <<7>> ELSE <<7, 9>>, 0).out)
       = << IF NData(s.rs) = 1 THEN <<s.rs, 7>> ELSE <<s.rs, 7, 9>> >>
=============================================================================
