CONSTANTS MaxTracks = 3  MaxEv = 1  MaxMap = 3
INIT Init
NEXT Next
INVARIANTS StepIsClosedForm AcceptsOwn RejectsMutants Restriction SelectionLaw OnceEach LookupIsC11 LookupLaws ClosedSticks EmptyMeans
CHECK_DEADLOCK FALSE
