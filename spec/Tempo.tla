-------------------------------- MODULE Tempo --------------------------------
(* Tick-to-time conversion of a metric-time Standard MIDI File (property C11), written from SMF 1.0:
   the header division gives `res` ticks per quarter note; a Set Tempo meta event (FF 51 03 tttttt) gives the
   microseconds per quarter note valid from its position until the next Set Tempo; before the first the
   default is 120 BPM = 500 000 us per quarter.

   A tempo map is the sequence of the Set Tempo events of ONE track in file order: <<[t |-> tick, u |-> uspq]>>
   with non-decreasing ticks (delta times are non-negative).  Time spent between tick x and tick x+1 is
   TempoAt(x)/res microseconds, where TempoAt(x) is the uspq of the last event (file order) with tick <= x.
   So a change at tick T governs the time of all ticks > T, and of several events on one tick the last wins.

   The exact time of tick t is Num(t)/res microseconds with the INTEGER  Num(t) = SUM_{x<t} TempoAt(x).
   Two forms are given: over TLC's native integers (readable; the definition NumDefI is the tick-by-tick sum,
   NumI the closed segment form) and over BigNat limbs (what trace validation evaluates, ticks reach 2^45 and
   Num 2^70).  MC_Tempo checks them equal on small maps.                                                   *)
EXTENDS BigNat, SequencesExt, FiniteSets

TpDefault == 500000            \* 120 BPM
TpMaxU    == 16777215          \* 24-bit payload of FF 51 03

\* ------------------------------------------------------------------ native integers (small models)
TpIsMapI(m) == /\ \A i \in 1..Len(m) : m[i].t >= 0 /\ m[i].u \in 0..TpMaxU
               /\ \A i \in 1..(Len(m) - 1) : m[i].t <= m[i + 1].t

\* uspq governing the interval from tick x to tick x+1
TpTempoAtI(m, x) == LET S == {i \in 1..Len(m) : m[i].t <= x}
                    IN IF S = {} THEN TpDefault ELSE m[CHOOSE i \in S : \A j \in S : j <= i].u

\* THE DEFINITION: the integral of the tempo map, one tick at a time
RECURSIVE TpNumDefI(_, _)
TpNumDefI(m, t) == IF t = 0 THEN 0 ELSE TpNumDefI(m, t - 1) + TpTempoAtI(m, t - 1)

TpMinI(a, b) == IF a <= b THEN a ELSE b
\* segment form: entry i (0 = the default tempo at tick 0) governs [T_i, T_{i+1}); clipped at t
TpTickI(m, i, t) == IF i = 0 THEN 0 ELSE IF i > Len(m) THEN t ELSE TpMinI(m[i].t, t)
TpUspqI(m, i)    == IF i = 0 THEN TpDefault ELSE m[i].u
RECURSIVE TpNumFromI(_, _, _)
TpNumFromI(m, t, i) == IF i > Len(m) THEN 0
                       ELSE TpUspqI(m, i) * (TpTickI(m, i + 1, t) - TpTickI(m, i, t)) + TpNumFromI(m, t, i + 1)
TpNumI(m, t) == TpNumFromI(m, t, 0)

\* non-empty tempo segments in [0, t): the distinct change ticks strictly inside, plus the final (partial) one
TpSegsI(m, t) == Cardinality({m[i].t : i \in {j \in 1..Len(m) : m[j].t > 0 /\ m[j].t < t}}) + (IF t > 0 THEN 1 ELSE 0)

\* ------------------------------------------------------------------ BigNat (ticks as limbs, uspq native)
TpIsMap(m) == /\ \A i \in 1..Len(m) : BnIsCanon(m[i].t) /\ m[i].u \in 0..TpMaxU
              /\ \A i \in 1..(Len(m) - 1) : BnLeq(m[i].t, m[i + 1].t)

TpTick(m, i, t) == IF i = 0 THEN <<>> ELSE IF i > Len(m) THEN t ELSE BnMin(m[i].t, t)
TpUspq(m, i)    == BnOfNat(IF i = 0 THEN TpDefault ELSE m[i].u)
\* sum over the entries 0..Len(m); entries at or after t contribute nothing and are skipped
TpNum(m, t) ==
  FoldLeft(LAMBDA acc, i : IF i > 0 /\ BnLeq(t, m[i].t) THEN acc
                           ELSE LET d == BnSub(TpTick(m, i + 1, t), TpTick(m, i, t))
                                IN IF d = <<>> THEN acc ELSE BnAdd(acc, BnMul(d, TpUspq(m, i))),
           <<>>, [k \in 1..(Len(m) + 1) |-> k - 1])

TpSegs(m, t) ==
  Cardinality({i \in 1..Len(m) : /\ m[i].t # <<>> /\ BnLt(m[i].t, t)
                                 /\ (i = 1 \/ m[i - 1].t # m[i].t)}) + (IF t = <<>> THEN 0 ELSE 1)

\* the tolerance of C11: result (us, a BigNat) is within one us per segment (+0.01 us for the float64
\* nanosecond intermediate) of the exact time Num/res:   100 * |result*res - Num| <= (100*segs + 1) * res
TpWithin(result, res, num, segs) ==
  BnLeq(BnMulSmall(BnAbsDiff(BnMul(result, BnOfNat(res)), num), 100),
        BnMul(BnOfNat(100 * segs + 1), BnOfNat(res)))

\* exact time below 2^k microseconds
TpBelowPow2us(num, res, k) == BnLt(num, BnMul(BnPow2(k), BnOfNat(res)))

\* ------------------------------------------------------------------ MetricTicks.Duration / Ticks
\* bpm = mant * 2^ex (ex may be negative), res ticks per quarter, n ticks.  Exact duration in ns:
\*     D = 60e9 * n / (bpm * res).   |dur - D| <= tol  <=>  |dur*mant*res*2^ex - 60e9*n| <= tol*mant*res*2^ex
Tp60e9 == BnMul(BnOfNat(60000), BnOfNat(1000000))
Tp6e8  == BnOfNat(600000000)
TpScaleUp(a, ex)   == IF ex > 0 THEN BnMul(a, BnPow2(ex)) ELSE a      \* side carrying bpm
TpScaleDown(a, ex) == IF ex < 0 THEN BnMul(a, BnPow2(-ex)) ELSE a     \* the other side
TpDurWithin(dur, mant, ex, res, n, tolNs) ==
  LET br == BnMul(mant, BnOfNat(res))
  IN BnLeq(BnAbsDiff(TpScaleUp(BnMul(dur, br), ex), TpScaleDown(BnMul(Tp60e9, n), ex)),
           TpScaleUp(BnMulSmall(br, tolNs), ex))
\* domain of the inverse law: duration below 2^40 us and fewer than 10^7 ticks per second
\*   60e6*n/(bpm*res) < 2^40   <=>  60e6*n < 2^40*mant*2^ex*res ;    res*bpm/60 < 10^7  <=>  res*mant*2^ex < 6e8
TpInvDomain(mant, ex, res, n) ==
  LET br == BnMul(mant, BnOfNat(res))
  IN /\ BnLt(TpScaleDown(BnMul(BnOfNat(60000000), n), ex), TpScaleUp(BnMul(BnPow2(40), br), ex))
     /\ BnLt(TpScaleUp(br, ex), TpScaleDown(Tp6e8, ex))
=============================================================================
