---------------------------- MODULE MC_Sequencer ----------------------------
(* TLC over small songs (built bar by bar, signatures include numerators >= 8 and compound meters): the layout
   the specification demands is consistent (bars end to end, exact bar lengths, every expected tick on the grid
   and inside the song), a reference exporter that follows the property satisfies ExportOk under every freedom
   the property leaves (note end as NoteOff or NoteOn velocity 0, signature events in their own track or in the
   first event track, events of one tick in either order), and exporters with the realistic defects are
   rejected (bar length computed in 8 bits, note end one tick early, tracks closed at the last event).       *)
EXTENDS Sequencer, TLC

CONSTANTS MaxBars, Sigs, Resolutions
VARIABLES bars, res

SigSet == {<<3, 4>>, <<4, 4>>, <<6, 8>>, <<12, 8>>, <<8, 4>>, <<7, 1>>, <<24, 32>>, <<9, 8>>}
ResSet == {8, 960}

Note(trk, pos, dur, key) == [trk |-> trk, pos |-> pos, dur |-> dur, msg |-> <<144 + trk, key, 100>>]
CC(trk, pos)             == [trk |-> trk, pos |-> pos, dur |-> 0, msg |-> <<176, 7, 99>>]
PC(trk, pos)             == [trk |-> trk, pos |-> pos, dur |-> 0, msg |-> <<193, 5>>]

EvChoices(L) == { <<>>,
                  <<Note(0, 0, 1, 60)>>,
                  <<Note(1, L - 1, 1, 61), PC(1, 0)>>,
                  <<CC(0, L - 1), Note(2, 0, L + 1, 62)>>,               \* a note that reaches into the next bar
                  <<Note(0, 0, L, 60), Note(0, 0, 1, 60)>> }             \* same key twice on one tick

Init == bars = <<>> /\ res \in Resolutions
AddBar(sig, evs) == /\ Len(bars) < MaxBars
                    /\ bars' = Append(bars, [num |-> sig[1], den |-> sig[2], evs |-> evs])
                    /\ UNCHANGED res
Next == \E sig \in Sigs : \E evs \in EvChoices(BarLen32(sig[1], sig[2])) : AddBar(sig, evs)

\* ---- a reference exporter, parameterised by the bar starts it uses ---------------------------------------
InsertByTick(acc, e, after) ==      \* after: equal ticks keep arrival order (TRUE) or reverse it (FALSE)
  LET k == Cardinality({i \in 1..Len(acc) : IF after THEN acc[i].t <= e.t ELSE acc[i].t < e.t})
  IN SubSeq(acc, 1, k) \o <<e>> \o SubSeq(acc, k + 1, Len(acc))
SortByTick(seq, after) == FoldLeft(LAMBDA acc, e : InsertByTick(acc, e, after), <<>>, seq)

EvOf(it, offAsOn) ==
  [t |-> it.t,
   m |-> CASE it.k = "off" -> IF offAsOn THEN <<144 + it.a, it.b, 0>> ELSE <<128 + it.a, it.b, 64>>
           [] it.k = "sig" -> <<255, 88, 4, it.a, it.b, 8, 8>>
           [] OTHER -> it.m]

ItemsWith(bs, r, s, offDelta, onlyTrk) ==    \* like Expected, but from the given starts s; offDelta shifts note ends
  LET evItems(start32, ev) ==
        <<ItemMsg((start32 + ev.pos) * Ticks32(r), ev.msg)>> \o
        (IF IsNoteOn(ev.msg) THEN <<ItemOff((start32 + ev.pos + ev.dur) * Ticks32(r) + offDelta, ev.msg[1] % 16, ev.msg[2])>> ELSE <<>>)
      barItems(i) == LET sel == SelectSeq(bs[i].evs, LAMBDA ev : onlyTrk = -1 \/ ev.trk = onlyTrk)
                     IN FlattenSeq([j \in 1..Len(sel) |-> evItems(s[i], sel[j])])
  IN FlattenSeq([i \in 1..Len(bs) |-> barItems(i)])
SigsWith(bs, r, s) ==
  LET c == SigChanges(bs) IN [k \in 1..Len(c) |-> ItemSig(s[c[k]] * Ticks32(r), bs[c[k]].num, Log2(bs[c[k]].den))]
SigsEveryBar(bs, r, s, shift) ==     \* a signature event at every bar; shift > 0 delays the restated ones
  [i \in 1..Len(bs) |-> ItemSig(s[i] * Ticks32(r) + (IF <<bs[i].num, bs[i].den>> = SigBefore(bs, i) THEN shift ELSE 0),
                                bs[i].num, Log2(bs[i].den))]

Track(items, end, offAsOn, after, name) ==
  LET evs == SortByTick([i \in 1..Len(items) |-> EvOf(items[i], offAsOn)], after)
      last == IF end = -1 THEN (IF evs = <<>> THEN 0 ELSE evs[Len(evs)].t) ELSE end
  IN <<[t |-> 0, m |-> <<255, 3, name>>]>> \o evs \o <<[t |-> last, m |-> <<255, 47, 0>>]>>

TrkSeq(bs) == SetToSortSeq({k \in 0..7 : \E i \in 1..Len(bs) : \E j \in 1..Len(bs[i].evs) : bs[i].evs[j].trk = k}, <)

Export0(bs, r, s, offDelta, end, offAsOn, after) ==
  <<Track(SigsWith(bs, r, s) \o ItemsWith(bs, r, s, offDelta, -1), end, offAsOn, after, 48)>>

Export1(bs, r, s, offDelta, end, offAsOn, after, sigsApart) ==
  LET ts == TrkSeq(bs)
      sg == SigsWith(bs, r, s)
      evTracks == [k \in 1..Len(ts) |-> Track((IF ~sigsApart /\ k = 1 THEN sg ELSE <<>>) \o ItemsWith(bs, r, s, offDelta, ts[k]),
                                              end, offAsOn, after, 49 + k)]
  IN IF sigsApart \/ ts = <<>> THEN <<Track(sg, end, offAsOn, after, 49)>> \o evTracks ELSE evTracks

\* bar starts as an 8-bit bar length would give them
BarLen8(num, den) == ((num * 32) % 256) \div den
Starts8(bs) == FoldLeft(LAMBDA acc, b : Append(acc, acc[Len(acc)] + BarLen8(b.num, b.den)), <<0>>, bs)

\* ---- invariants ------------------------------------------------------------------------------------------
InDom == SongInDomain(bars, res)
S == BarStarts32(bars)
End == EndTick(bars, res)
HasNote == \E i \in 1..Len(bars) : \E j \in 1..Len(bars[i].evs) : IsNoteOn(bars[i].evs[j].msg)

LayoutInv ==
  InDom =>
    /\ Len(S) = Len(bars) + 1 /\ S[1] = 0
    /\ \A i \in 1..Len(bars) : /\ S[i + 1] = S[i] + BarLen32(bars[i].num, bars[i].den)        \* end to end
                               /\ BarLen32(bars[i].num, bars[i].den) * bars[i].den = bars[i].num * 32   \* exact
                               /\ S[i + 1] > S[i]
                               /\ BarStartTick(bars, res, i) = S[i] * (res \div 8)
    /\ End = S[Len(S)] * (res \div 8) /\ End < 2147483647 \div 64
    /\ LET e == Expected(bars, res) IN
       \A i \in 1..Len(e) : e[i].t \in 0..End /\ e[i].t % Ticks32(res) = 0
    /\ Len(ExpectedSigs(bars, res)) = Cardinality({i \in 1..Len(bars) : <<bars[i].num, bars[i].den>> # SigBefore(bars, i)})

ModelOkInv ==
  InDom =>
    \A offAsOn \in BOOLEAN : \A after \in BOOLEAN : \A apart \in BOOLEAN :
      LET t0 == Export0(bars, res, S, 0, End, offAsOn, after)
          t1 == Export1(bars, res, S, 0, End, ~offAsOn, ~after, apart)
      IN /\ ExportOk(bars, res, t0, t1)
         /\ \A i \in 1..Len(t1) : t1[i][Len(t1[i])].t = End      \* the last event of every track is at EndTick
         /\ t0[1][Len(t0[1])].t = End

Mutant8Inv ==
  InDom =>
    LET s8 == Starts8(bars)
        end8 == s8[Len(s8)] * Ticks32(res)
        big == \E i \in 1..Len(bars) : bars[i].num >= 8
    IN /\ (s8 # S) = big
       /\ big => ~ExportOk(bars, res, Export0(bars, res, s8, 0, end8, FALSE, TRUE), Export1(bars, res, s8, 0, end8, FALSE, TRUE, TRUE))

MutantOffInv ==
  (InDom /\ HasNote) =>
    /\ ~ExportOk(bars, res, Export0(bars, res, S, -1, End, FALSE, TRUE), Export1(bars, res, S, -1, End, FALSE, TRUE, TRUE))
    /\ ~ExportOk(bars, res, Export0(bars, res, S, 0, End, FALSE, TRUE), Export1(bars, res, S, -1, End, FALSE, TRUE, TRUE))

\* restating the running signature at a bar start is allowed, anywhere else it is not; a signature that is
\* not the bar's is never allowed
RestateInv ==
  InDom =>
    LET ev == ItemsWith(bars, res, S, 0, -1)
        exp(sg) == <<Track(sg \o ev, End, FALSE, TRUE, 48)>>
        restates == \E i \in 1..Len(bars) : <<bars[i].num, bars[i].den>> = SigBefore(bars, i)
    IN /\ ExportOk(bars, res, exp(SigsEveryBar(bars, res, S, 0)), exp(SigsEveryBar(bars, res, S, 0)))
       /\ restates => ~ExportOk(bars, res, exp(SigsEveryBar(bars, res, S, 1)), exp(SigsEveryBar(bars, res, S, 1)))
       /\ ~ExportOk(bars, res, exp(SigsWith(bars, res, S) \o <<ItemSig(0, 5, 2)>>), exp(SigsWith(bars, res, S) \o <<ItemSig(0, 5, 2)>>))
       /\ restates => ~ExportOk(bars, res, exp(SigsEveryBar(bars, res, S, 0)), exp(SigsWith(bars, res, S)))    \* the two exports differ

\* tracks closed at their last event instead of the end of the last bar: wrong unless something sits on the end
MutantEndInv ==
  InDom =>
    LET t0 == Export0(bars, res, S, 0, -1, FALSE, TRUE)
        t1 == Export1(bars, res, S, 0, -1, FALSE, TRUE, TRUE)
    IN ExportOk(bars, res, t0, t1) = (t0[1][Len(t0[1])].t = End /\ \A i \in 1..Len(t1) : t1[i][Len(t1[i])].t = End)

\* something interesting is reachable (checked once by making it an invariant and watching it fail)
Witness == ~(InDom /\ Len(bars) = MaxBars /\ bars[1].num >= 8 /\ HasNote)
=============================================================================
