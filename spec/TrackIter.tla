------------------------------ MODULE TrackIter ------------------------------
(* X03 -- Track iteration: selection, type filter and tempo lookups (extension; the property is stated HERE).
   Written from the package documentation of gomidi/midi v2 (smf/doc.go, the doc comments of smf.New / NewSMF1 /
   NewSMF2 / SMF.Add / SMF.NumTracks, midi.Type and its constants) and from SMF 1.0 / MIDI 1.0 -- not from the Go code.

   A FILE VALUE is a sequence of tracks (index i = track number i-1); a track is a sequence of events
   [d |-> delta ticks, m |-> message bytes]; every track of a file that was written ends with End Of Track
   FF 2F 00, which is an event of the track like any other (smf.Track / Track.IsClosed).

   P1  SELECTION.  smf.ReadTracks / ReadTracksFrom(rd, tracks...).Do(fn) calls fn for exactly the events of the
       selected tracks -- every track if no track number was given; a number the file does not have (negative, or
       >= NumTracks) selects nothing; repeating a number changes nothing -- each event exactly ONCE, tracks in file
       order, events in track order, with TrackNo = the track number, Delta and Message of the event, and
       AbsTicks = the sum of the deltas of the track up to and including the event (restarting at 0 per track).
   P2  TYPE FILTER.  After Only(types...) the visit is restricted to the events whose message is of one of the
       given types: a concrete type (NoteOnMsg, MetaTempoMsg, ...) or a category (ChannelMsg = status 8n..En,
       SysExMsg = F0 / F7, smf.MetaMsg = FF).  The relative order of the remaining events, their TrackNo, Delta
       and AbsTicks are those of the unfiltered visit, and an event is still visited exactly ONCE, also when it
       is of two of the given types (Only(NoteOnMsg, ChannelMsg)) or a type is listed twice.
       Left open (permissive): Only() with no type at all (every event or none); a meta event whose type byte
       SMF 1.0 does not define, under the filters MetaMsg / MetaUndefinedMsg / UnknownMsg (visited or not);
       RealTimeMsg / SysCommonMsg match nothing that can be stored in a file.
   P3  TEMPO LOOKUPS.  For s read from a file, s.TempoChanges() lists the Set Tempo events (FF 51 03) of the file,
       one entry each, AbsTicks = the tick of the event in its track, sorted by AbsTicks; entries of one track on
       one tick keep their file order when all tempo events are in one track (the SMF convention; ties between
       tracks are left open).  TempoChangeAt(t) is the LAST entry (list order) with AbsTicks <= t, nil if there
       is none; TempoAt(t) is its BPM, 120 if there is none.  This is "the tempo in force at tick t": it governs
       the interval from tick t to t+1, exactly TpTempoAtI of spec/Tempo.tla (C11) -- MC_TrackIter checks the two
       readings equal; SMF.TimeAt(T) consults the lookup at T-1, which is the same reading ("a change at T governs
       the ticks after T").  BPM values are compared as IEEE-754 bit patterns with what the library's own
       GetMetaTempo reports for the event (their relation to the 24-bit payload is C15/C11, not judged here).
   P4  TRACK AND FILE PREDICATES on values built through the public API.  Track.Add / Close follow the documented
       life cycle (a closed track ignores Add and Close); IsClosed <=> the last event is End Of Track; IsEmpty <=>
       no event other than a closing End Of Track.  smf.New() is format 0 and becomes format 1 when a second
       track is added; NewSMF1 / NewSMF2 stay 1 / 2; SMF.Add appends the track and returns an error iff the track
       is not closed; NumTracks = number of tracks.  After WriteTo + ReadFrom: the same NumTracks and Format, every
       track closed, a track empty iff nothing but its End Of Track was added.
   P5  Track.SendTo calls the receiver with the non-meta events of the track in track order (channel messages
       exactly once; sysex either all or none -- C12 leaves them open as well).  The timestamp argument is
       undocumented and NOT judged (see the report's observations).

   Numbers are abstract here: the operators take the addition / order of the number representation as
   parameters, so that MC_TrackIter uses TLC's integers and Trace_TrackIter BigNat limbs with the same text.   *)
EXTENDS Integers, Sequences, SequencesExt, FiniteSets

TiEOT == <<255, 47, 0>>

\* ------------------------------------------------------------------ message types (MIDI 1.0 / SMF 1.0)
TiIsChan(m)  == Len(m) >= 1 /\ m[1] >= 128 /\ m[1] <= 239
TiIsSysex(m) == Len(m) >= 1 /\ (m[1] = 240 \/ m[1] = 247)
TiIsMeta(m)  == Len(m) >= 2 /\ m[1] = 255
TiIsTempo(m) == Len(m) = 6 /\ m[1] = 255 /\ m[2] = 81 /\ m[3] = 3

TiChanName(hi) == CASE hi = 8 -> "NoteOff" [] hi = 9 -> "NoteOn" [] hi = 10 -> "PolyAfterTouch" [] hi = 11 -> "ControlChange"
                    [] hi = 12 -> "ProgramChange" [] hi = 13 -> "AfterTouch" [] hi = 14 -> "PitchBend" [] OTHER -> "?"
TiMetaName(b) == CASE b = 0 -> "MetaSeqNumber" [] b = 1 -> "MetaText" [] b = 2 -> "MetaCopyright" [] b = 3 -> "MetaTrackName"
                   [] b = 4 -> "MetaInstrument" [] b = 5 -> "MetaLyric" [] b = 6 -> "MetaMarker" [] b = 7 -> "MetaCuepoint"
                   [] b = 8 -> "MetaProgramName" [] b = 9 -> "MetaDevice" [] b = 32 -> "MetaChannel" [] b = 33 -> "MetaPort"
                   [] b = 47 -> "MetaEndOfTrack" [] b = 81 -> "MetaTempo" [] b = 84 -> "MetaSMPTEOffset" [] b = 88 -> "MetaTimeSig"
                   [] b = 89 -> "MetaKeySig" [] b = 127 -> "MetaSeqData" [] OTHER -> "?"      \* "?" = not defined by SMF 1.0
TiTypeOf(m) == IF TiIsChan(m) THEN TiChanName(m[1] \div 16)
               ELSE IF TiIsSysex(m) THEN "SysEx"
               ELSE IF TiIsMeta(m) THEN TiMetaName(m[2])
               ELSE "?"

TiChanTypes == {"NoteOff", "NoteOn", "PolyAfterTouch", "ControlChange", "ProgramChange", "AfterTouch", "PitchBend"}
TiMetaTypes == {"MetaSeqNumber", "MetaText", "MetaCopyright", "MetaTrackName", "MetaInstrument", "MetaLyric", "MetaMarker",
                "MetaCuepoint", "MetaProgramName", "MetaDevice", "MetaChannel", "MetaPort", "MetaEndOfTrack", "MetaTempo",
                "MetaSMPTEOffset", "MetaTimeSig", "MetaKeySig", "MetaSeqData"}
TiCategories == {"Channel", "SysEx", "Meta", "RealTime", "SysCommon"}
TiOpenTypes  == {"MetaUndefined", "Unknown"}
TiFilterNames == TiChanTypes \cup TiMetaTypes \cup TiCategories \cup TiOpenTypes

\* the message IS of filter type f (demanded) / MAY count as f (left open)
TiIs(m, f) == \/ (TiTypeOf(m) # "?" /\ f = TiTypeOf(m))
              \/ (f = "Channel" /\ TiIsChan(m))
              \/ (f = "SysEx" /\ TiIsSysex(m))
              \/ (f = "Meta" /\ TiIsMeta(m) /\ TiTypeOf(m) # "?")
TiMayBe(m, f) == TiTypeOf(m) = "?" /\ f \in {"Meta", "MetaUndefined", "Unknown"}

\* ------------------------------------------------------------------ P1: the unfiltered visit
TiSelected(n, sel, i) == sel = {} \/ (i - 1) \in sel

\* running sums: Cum(<<d1,d2,..>>) = <<d1, d1+d2, ...>>
TiCum(ds, Add(_, _), zero) ==
  FoldLeft(LAMBDA acc, d : Append(acc, Add(IF acc = <<>> THEN zero ELSE acc[Len(acc)], d)), <<>>, ds)

TiTrackVisits(tr, no, Add(_, _), zero) ==
  LET abs == TiCum([k \in 1..Len(tr) |-> tr[k].d], Add, zero)
  IN [k \in 1..Len(tr) |-> [tr |-> no, d |-> tr[k].d, abs |-> abs[k], m |-> tr[k].m]]

TiVisits(F, sel, Add(_, _), zero) ==
  FoldLeft(LAMBDA acc, i : IF TiSelected(Len(F), sel, i) THEN acc \o TiTrackVisits(F[i], i - 1, Add, zero) ELSE acc,
           <<>>, [i \in 1..Len(F) |-> i])

\* ------------------------------------------------------------------ P2: the filter
\* flt = [mode |-> "none" | "noargs" | "types", types |-> sequence of filter names]
TiMust(flt, v) == \/ flt.mode = "none"
                  \/ flt.mode = "types" /\ \E j \in 1..Len(flt.types) : TiIs(v.m, flt.types[j])
TiMay(flt, v)  == \/ flt.mode = "noargs"
                  \/ flt.mode = "types" /\ \E j \in 1..Len(flt.types) : TiMayBe(v.m, flt.types[j])

\* got is accepted iff it is a subsequence of the candidates (Must or May) of the full visit that contains every
\* Must element: one pass, matching each observed visit to the earliest candidate possible.
TiExplain(all, flt, got) ==
  FoldLeft(LAMBDA st, v :
             IF ~st.ok \/ ~(TiMust(flt, v) \/ TiMay(flt, v)) THEN st
             ELSE IF st.p <= Len(got) /\ got[st.p] = v THEN [st EXCEPT !.p = @ + 1]
             ELSE IF TiMust(flt, v) THEN [st EXCEPT !.ok = FALSE, !.miss = <<v>>]
             ELSE st,
           [p |-> 1, ok |-> TRUE, miss |-> <<>>], all)
TiAccepts(all, flt, got) == LET st == TiExplain(all, flt, got) IN st.ok /\ st.p = Len(got) + 1

\* the visit when nothing is left open (every May element resolved as "visited" or as "not visited")
TiExpected(all, flt, mayVisited) ==
  SelectSeq(all, LAMBDA v : TiMust(flt, v) \/ (mayVisited /\ TiMay(flt, v)))

\* ------------------------------------------------------------------ P3: tempo lookups
\* ticks = the AbsTicks of the list in list order; index of the entry in force at tick t (0 = none)
TiSortedBy(ticks, Leq(_, _)) == \A i \in 1..(Len(ticks) - 1) : Leq(ticks[i], ticks[i + 1])
TiLookup(ticks, t, Leq(_, _)) ==
  LET S == {i \in 1..Len(ticks) : Leq(ticks[i], t)}
  IN IF S = {} THEN 0 ELSE CHOOSE i \in S : \A j \in S : j <= i

\* the tempo events of a file in file order: [tr, k (position in the track), t (tick)]
TiTempoEvents(F, Add(_, _), zero) ==
  SelectSeq(TiVisits(F, {}, Add, zero), LAMBDA v : TiIsTempo(v.m))
TiTempoTracks(F) == {i \in 1..Len(F) : \E k \in 1..Len(F[i]) : TiIsTempo(F[i][k].m)}

\* ------------------------------------------------------------------ P4: building through the API
TiClosed(tr) == Len(tr) > 0 /\ tr[Len(tr)].m = TiEOT
TiEmpty(tr)  == IF TiClosed(tr) THEN Len(tr) = 1 ELSE Len(tr) = 0
\* op = [op |-> "add", d, msgs] | [op |-> "close", d]
TiTrackStep(tr, o, zero) ==
  IF TiClosed(tr) THEN tr
  ELSE IF o.op = "close" THEN Append(tr, [d |-> o.d, m |-> TiEOT])
  ELSE tr \o [i \in 1..Len(o.msgs) |-> [d |-> IF i = 1 THEN o.d ELSE zero, m |-> o.msgs[i]]]
TiFormatAfterAdd(fmt, n) == IF n > 1 /\ fmt = 0 THEN 1 ELSE fmt           \* n = number of tracks after the Add
TiCtorFormat(c) == CASE c = "new" -> 0 [] c = "smf1" -> 1 [] c = "smf2" -> 2 [] OTHER -> -1
\* what WriteTo puts on disk: an unclosed track is closed with (0, End Of Track)
TiCanonTrack(tr, zero) == IF TiClosed(tr) THEN tr ELSE Append(tr, [d |-> zero, m |-> TiEOT])

\* ------------------------------------------------------------------ P5: SendTo
TiSendOk(tr, sent) ==
  LET msgs == [k \in 1..Len(tr) |-> tr[k].m]
  IN \/ sent = SelectSeq(msgs, LAMBDA m : ~TiIsMeta(m))
     \/ sent = SelectSeq(msgs, TiIsChan)
=============================================================================
