--------------------------- MODULE RegistryMidicat ---------------------------
(* X05, part M: the process-backed driver drivers/midicatdrv as a member of the registry -- what its README and doc
   comments promise about the helper binary `midicat` on PATH:

   M1 version gate   "midicat version >= 0.6.8 is required" (README).  The helper prints its version as
                     [v]MAJOR[.MINOR[.PATCH]] (drivers/internal/version: "Valid strings are v0.0.1 or 1.0 or 12",
                     ".1.0" is invalid, a version of zeros only is invalid); versions compare by major, then minor, then
                     patch.  midicatdrv.New() must hand out a driver for every version in [0.6.8, 0.7.0) and must not
                     for a version below 0.6.8 or a string that is no version.  (From 0.7.0 on the code refuses as well;
                     only its own message says so: left open.)
   M2 listing        Driver.Ins() / Outs() ask `midicat ins --json` / `outs --json`, a JSON object {"<index>": "<name>"}:
                     the listing has exactly these ports, Number() = index, String() = name, in ascending index order;
                     an error when the helper fails, prints no such object, or a key is not a number.
   M3 Close          Driver.Close() "closes all open ports": afterwards no port handed out by the driver is open; it is
                     the driver midi.CloseDriver() closes when it is the registered one; ports can be opened again.

   Byte strings are sequences of character codes.  Left open: several leading v, signs, components above 65535,
   surrounding white space, duplicate / negative indices, what New() does to refuse (it panics; an error result
   would do as well).                                                                                             *)
EXTENDS Integers, Sequences, FiniteSets

RmDot == 46
RmLetterV == 118
RmIsDigit(c) == c \in 48..57

RECURSIVE RmSplit(_)
RmSplit(s) ==        \* the parts between dots
  IF \A i \in 1..Len(s) : s[i] # RmDot THEN <<s>>
  ELSE LET i == CHOOSE i \in 1..Len(s) : s[i] = RmDot /\ \A j \in 1..(i - 1) : s[j] # RmDot
       IN <<SubSeq(s, 1, i - 1)>> \o RmSplit(SubSeq(s, i + 1, Len(s)))

RECURSIVE RmVal(_)
RmVal(s) == IF s = <<>> THEN 0 ELSE 10 * RmVal(SubSeq(s, 1, Len(s) - 1)) + (s[Len(s)] - 48)

RmIsNumber(s) == Len(s) \in 1..5 /\ \A i \in 1..Len(s) : RmIsDigit(s[i])
\* a part nobody would call a number: empty, or with a character that is neither digit nor sign
RmIsNoNumber(s) == s = <<>> \/ \E i \in 1..Len(s) : ~RmIsDigit(s[i]) /\ s[i] \notin {43, 45}

\* [st |-> "ok", v |-> <<major, minor, patch>>] | [st |-> "invalid"] | [st |-> "free"] (the documentation does not decide)
RmParse(s0) ==
  LET s == IF s0 # <<>> /\ s0[1] = RmLetterV THEN Tail(s0) ELSE s0
      P == RmSplit(s)
      n == Len(P)
  IN IF (s # <<>> /\ s[1] = RmLetterV) \/ (\E i \in 1..Len(s0) : s0[i] \in {9, 10, 13, 32})      \* vv1.0, white space
        THEN [st |-> "free", v |-> <<0, 0, 0>>]
     ELSE IF \E i \in 1..n : RmIsNoNumber(P[i]) THEN [st |-> "invalid", v |-> <<0, 0, 0>>]
     ELSE IF n > 3 THEN [st |-> "invalid", v |-> <<0, 0, 0>>]
     ELSE IF \E i \in 1..n : ~RmIsNumber(P[i]) \/ RmVal(P[i]) > 65535 THEN [st |-> "free", v |-> <<0, 0, 0>>]
     ELSE LET v == [i \in 1..3 |-> IF i <= n THEN RmVal(P[i]) ELSE 0]
          IN IF v = <<0, 0, 0>> THEN [st |-> "invalid", v |-> v] ELSE [st |-> "ok", v |-> v]

RmLess(x, y) == \/ x[1] < y[1]
                \/ x[1] = y[1] /\ x[2] < y[2]
                \/ x[1] = y[1] /\ x[2] = y[2] /\ x[3] < y[3]

RmMin == <<0, 6, 8>>
RmMax == <<0, 7, 0>>
RmGate(s) ==       \* "accept" | "reject" | "free"
  LET p == RmParse(s) IN
  IF p.st = "free" THEN "free"
  ELSE IF p.st = "invalid" THEN "reject"
  ELSE IF RmLess(p.v, RmMin) THEN "reject"
  ELSE IF RmLess(p.v, RmMax) THEN "accept"
  ELSE "free"

\* ---- M2: entries <<[key |-> bytes, name |-> bytes]>> as the helper printed them
RmKeyIsIndex(key) == RmIsNumber(key) /\ (Len(key) > 1 => key[1] # 48)       \* canonical decimal
RmKeyIsNoIndex(key) == RmIsNoNumber(key)
RECURSIVE RmSorted(_)
RmSorted(E) ==     \* E: sequence of [num, name] with distinct num -> ascending by num
  IF E = <<>> THEN <<>>
  ELSE LET i == CHOOSE i \in 1..Len(E) : \A j \in 1..Len(E) : E[i].num <= E[j].num
       IN <<E[i]>> \o RmSorted(SubSeq(E, 1, i - 1) \o SubSeq(E, i + 1, Len(E)))

\* expected outcome of a listing call: [ret |-> "nil", list |-> ...] | [ret |-> "err"] | [ret |-> "free"]
RmListing(rc, garbage, E) ==
  IF rc # 0 \/ garbage THEN [ret |-> "err", list |-> <<>>]
  ELSE IF \E i \in 1..Len(E) : RmKeyIsNoIndex(E[i].key) THEN [ret |-> "err", list |-> <<>>]
  ELSE IF \E i \in 1..Len(E) : ~RmKeyIsIndex(E[i].key) THEN [ret |-> "free", list |-> <<>>]
  ELSE IF \E i, j \in 1..Len(E) : i # j /\ RmVal(E[i].key) = RmVal(E[j].key) THEN [ret |-> "free", list |-> <<>>]
  ELSE [ret |-> "nil", list |-> RmSorted([i \in 1..Len(E) |-> [num |-> RmVal(E[i].key), name |-> E[i].name]])]
=============================================================================
