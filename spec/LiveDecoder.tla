---------------------------- MODULE LiveDecoder ----------------------------
(* The MIDI 1.0 receiver as a Mealy machine, written from the MIDI 1.0 detailed
   specification (receiver model, running status, real-time, sysex) and from
   properties C04/C06/C14 -- not from drivers/reader.go.

   Pure operators only; behavioural wrappers are in MC_LiveDecoder / MC_LiveWire,
   trace validation in Trace_Live.

   cfg == [cap |-> Nat, sysex |-> BOOLEAN, as |-> BOOLEAN, tc |-> BOOLEAN]
     cap   : configured sysex buffer size (0 means the documented default 1024)
     sysex : sysex messages pass
     as    : active sensing (FE) passes
     tc    : timing clock (F8) passes                                           *)
EXTENDS Integers, Sequences, SequencesExt

DefaultCap == 1024
EffCap(cfg) == IF cfg.cap = 0 THEN DefaultCap ELSE cfg.cap

\* number of data bytes that follow a status byte (0 for everything else)
NData(s) == IF s \in 192..223 THEN 1
            ELSE IF s \in 128..239 THEN 2
            ELSE IF s = 241 \/ s = 243 THEN 1
            ELSE IF s = 242 THEN 2 ELSE 0

IsRealTime(b) == b >= 248
IsStatus(b)   == b >= 128
IsChanStatus(b) == b \in 128..239

(* decoder state
   mode : "idle"  nothing under assembly
          "chan"  channel message under assembly (status st, data so far d)
          "sys"   system common F1/F2/F3 under assembly
          "sysex" between F0 and F7
          "skip"  after an undefined status F4/F5: data ignored
   rs   : running status (0 = none); only ever a channel status
   sx   : sysex bytes so far (starting with F0), at most cap
   over : current sysex exceeded cap, will be dropped
   sxT  : clock at the F0 of the current sysex                                  *)
Init0 == [mode |-> "idle", rs |-> 0, st |-> 0, d |-> <<>>, sx |-> <<>>, over |-> FALSE, sxT |-> 0]

Abandon(s) == [s EXCEPT !.d = <<>>, !.sx = <<>>, !.over = FALSE, !.sxT = 0]

\* an output message: bytes, earliest and latest admissible time stamp
Msg(b, lo, hi) == [b |-> b, lo |-> lo, hi |-> hi]

Data(cfg, s, b, now) ==
  CASE s.mode \in {"chan", "sys"} ->
         IF NData(s.st) = 1 \/ Len(s.d) = 1
           THEN [s |-> [s EXCEPT !.mode = "idle", !.d = <<>>],
                 out |-> << Msg(<<s.st>> \o s.d \o <<b>>, now, now) >>]
           ELSE [s |-> [s EXCEPT !.d = <<b>>], out |-> <<>>]
    [] s.mode = "idle" ->
         IF s.rs = 0 THEN [s |-> s, out |-> <<>>]             \* data without status: ignored
         ELSE IF NData(s.rs) = 1 THEN [s |-> s, out |-> << Msg(<<s.rs, b>>, now, now) >>]
         ELSE [s |-> [s EXCEPT !.mode = "chan", !.st = s.rs, !.d = <<b>>], out |-> <<>>]
    [] s.mode = "sysex" ->
         IF ~cfg.sysex THEN [s |-> s, out |-> <<>>]
         ELSE IF s.over \/ Len(s.sx) >= EffCap(cfg)
              THEN [s |-> [s EXCEPT !.over = TRUE, !.sx = <<>>], out |-> <<>>]
         ELSE [s |-> [s EXCEPT !.sx = Append(s.sx, b)], out |-> <<>>]
    [] OTHER -> [s |-> s, out |-> <<>>]                        \* skip

\* One byte arrives at time `now`.  Result: new state and the messages completed by this byte
\* (before the listen-option filter).
Step(cfg, s, b, now) ==
  IF IsRealTime(b) THEN [s |-> s, out |-> << Msg(<<b>>, now, now) >>]     \* state untouched
  ELSE IF b < 128 THEN Data(cfg, s, b, now)
  ELSE IF b <= 239 THEN [s |-> [Abandon(s) EXCEPT !.mode = "chan", !.rs = b, !.st = b], out |-> <<>>]
  ELSE IF b = 240 THEN [s |-> [Abandon(s) EXCEPT !.mode = "sysex", !.rs = 0, !.sx = <<240>>, !.sxT = now],
                        out |-> <<>>]
  ELSE IF b = 247 THEN
         [s |-> [Abandon(s) EXCEPT !.mode = "idle", !.rs = 0],
          out |-> IF s.mode = "sysex" /\ cfg.sysex /\ ~s.over /\ Len(s.sx) < EffCap(cfg)
                  THEN << Msg(Append(s.sx, 247), s.sxT, now) >> ELSE <<>>]
  ELSE IF b \in {241, 242, 243} THEN
         [s |-> [Abandon(s) EXCEPT !.mode = "sys", !.rs = 0, !.st = b], out |-> <<>>]
  ELSE IF b = 246 THEN [s |-> [Abandon(s) EXCEPT !.mode = "idle", !.rs = 0], out |-> << Msg(<<246>>, now, now) >>]
  ELSE [s |-> [Abandon(s) EXCEPT !.mode = "skip", !.rs = 0], out |-> <<>>]   \* F4, F5

\* ---- listen options (C14): exactly their class is removed, nothing else --------------------
Passes(cfg, m) ==
  /\ (m.b = <<254>> => cfg.as)
  /\ (m.b = <<248>> => cfg.tc)
  /\ (m.b[1] = 240 => cfg.sysex)
Filter(cfg, out) == SelectSeq(out, LAMBDA m : Passes(cfg, m))

\* 0xFD is undefined: a receiver may surface it as a one-byte message or skip it (C04/C06 leave it
\* free), so comparisons are made modulo FD.
NoFD(out) == SelectSeq(out, LAMBDA m : m.b # <<253>>)

\* ---- folding over data -----------------------------------------------------------------------
\* acc == [s |-> state, out |-> messages so far]
FoldBytes(cfg, s0, bytes, now) ==
  FoldLeft(LAMBDA acc, b : LET r == Step(cfg, acc.s, b, now)
                           IN [s |-> r.s, out |-> acc.out \o r.out],
           [s |-> s0, out |-> <<>>], bytes)

\* listener-level result of delivering `bytes` in one chunk at time `now`
Deliver(cfg, s0, bytes, now) ==
  LET r == FoldBytes(cfg, s0, bytes, now) IN [s |-> r.s, out |-> Filter(cfg, r.out)]

\* ---- well-formedness of a delivered message (C06) ----------------------------------------
WellFormed(cfg, b) ==
  /\ Len(b) >= 1
  /\ IsStatus(b[1])
  /\ IF b[1] = 240 THEN /\ Len(b) >= 2 /\ Len(b) <= EffCap(cfg) /\ b[Len(b)] = 247
                        /\ \A i \in 2..(Len(b) - 1) : b[i] < 128
     ELSE /\ Len(b) = 1 + NData(b[1])
          /\ \A i \in 2..Len(b) : b[i] < 128
          /\ b[1] \notin {244, 245, 247}

\* ---- driver level view (drivers.Reader callback, C.4 of DESIGN) ----------------------------
\* the first 1+NData(status) bytes are the message; padding is ignored; a lone F7 marker is optional
ReaderView(got) ==
  LET keep == SelectSeq(got, LAMBDA m : ~(Len(m.b) >= 1 /\ m.b[1] = 247))
  IN [i \in 1..Len(keep) |->
        LET m == keep[i] IN
        IF Len(m.b) >= 1 /\ m.b[1] # 240 /\ Len(m.b) >= 1 + NData(m.b[1])
          THEN [m EXCEPT !.b = SubSeq(m.b, 1, 1 + NData(m.b[1]))] ELSE m]
=============================================================================
