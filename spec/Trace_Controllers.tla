-------------------------- MODULE Trace_Controllers --------------------------
(* Trace validation for X02.  One record = one experiment on the real library:
     ev = "seq"       fn = helper ("rpn.RPN", "nrpn.Increment", "midi.SilenceChannel", ...), args = its arguments,
                      msgs = the message sequence it returned (byte arrays), panic = panic text ("" = none)
     ev = "const"     strs = <<"cc.<Name>" | "interval.<Name>">>, outs = <<value of the library constant>>
     ev = "keys"      strs = <<key function name>>, outs[oct+1] = fn(oct) for oct = 0..255
     ev = "note"      args = <<k>>, outs = <<Value, Base, Octave>>, strs = <<Name, String>> of Note(k)
     ev = "interval"  args = <<n>>, outs[o+1] = Note(n).Interval(Note(o)) for o = 0..127
     ev = "is"        args = <<n>>, outs[o+1] = 1 iff Note(n).Is(Note(o))
     ev = "transpose" args = <<n>>, outs[i+129] = Note(n).Transpose(i) for i = -128..127
     ev = "istr"      args = <<i>>, strs = <<Interval(i).String()>>
   Every record carries all of ev fn args strs msgs outs panic.  TLC evaluates Controllers' operators on the values. *)
EXTENDS Controllers, Json, IOUtils
VARIABLES l, bad
Trace == ndJsonDeserialize(IOEnv.VERIF_TRACE)

InU8(a) == \A i \in 1..Len(a) : a[i] \in 0..255
Info(e, why) == [ev |-> e.ev, fn |-> e.fn, args |-> e.args, strs |-> e.strs, msgs |-> e.msgs, outs |-> e.outs,
                 panic |-> e.panic, why |-> why, unknown |-> FALSE]
Verdict(e, ok, why) == [ok |-> ok, info |-> Info(e, IF ok THEN "" ELSE why)]
Unknown(e) == [ok |-> FALSE, info |-> [Info(e, "record outside the domain of the trace spec") EXCEPT !.unknown = TRUE]]

JudgeSeq(e) ==
  IF e.fn \in ParamFns THEN
    IF Len(e.args) # ParamArity(e.fn) \/ ~InU8(e.args) THEN Unknown(e)
    ELSE IF e.panic # "" THEN Verdict(e, FALSE, "panic")
    ELSE Verdict(e, ParamCallOk(e.fn, e.args, e.msgs), "P1: not the MIDI 1.0 parameter sequence for this call")
  ELSE IF e.fn = "midi.SilenceChannel" THEN
    IF Len(e.args) # 1 \/ e.args[1] \notin -128..127 THEN Unknown(e)
    ELSE Verdict(e, SilenceOk(e.args[1], e.msgs, e.panic # ""), "P2: SilenceChannel")
  ELSE IF e.fn = "midi.ResetChannel" THEN
    IF Len(e.args) # 3 \/ ~InU8(e.args) THEN Unknown(e)
    ELSE IF e.panic # "" THEN Verdict(e, FALSE, "panic")
    ELSE Verdict(e, ResetChannelOk(e.args[1], e.args[2], e.args[3], e.msgs), "P2: ResetChannel")
  ELSE IF e.fn \in {"gm.Reset", "gm.GMProgram"} THEN
    IF Len(e.args) # 2 \/ ~InU8(e.args) THEN Unknown(e)
    ELSE IF e.panic # "" THEN Verdict(e, FALSE, "panic")
    ELSE IF e.fn = "gm.Reset" THEN Verdict(e, ResetChannelOk(e.args[1], 0, e.args[2], e.msgs), "P2: gm.Reset")
    ELSE Verdict(e, GMProgramOk(e.args[1], e.args[2], e.msgs), "P2: gm.GMProgram")
  ELSE Unknown(e)

JudgeOther(e) ==
  IF e.panic # "" THEN Verdict(e, FALSE, "panic")
  ELSE IF e.ev = "const" THEN
    IF Len(e.strs) # 1 \/ Len(e.outs) # 1 THEN Unknown(e)
    ELSE IF ~ConstKnown(e.strs[1]) THEN Unknown(e)
    ELSE Verdict(e, e.outs[1] = ConstWant(e.strs[1]), "P3: constant differs from the MIDI 1.0 table")
  ELSE IF e.ev = "keys" THEN
    IF Len(e.strs) # 1 \/ Len(e.outs) # 256 THEN Unknown(e)
    ELSE IF \A p \in 0..11 : PcNames[p + 1] # e.strs[1] THEN Unknown(e)
    ELSE Verdict(e, \A oct \in 0..255 : KeyFnOk(PcIndex(e.strs[1]), oct, e.outs[oct + 1]), "P4: key function")
  ELSE IF e.ev \in {"note", "interval", "is", "transpose"} /\ (Len(e.args) # 1 \/ (Len(e.args) = 1 /\ e.args[1] \notin 0..127)) THEN Unknown(e)
  ELSE IF e.ev = "note" THEN
    IF Len(e.outs) # 3 \/ Len(e.strs) # 2 THEN Unknown(e)
    ELSE LET k == e.args[1]
         IN Verdict(e, /\ e.outs = <<k, PcOf(k), OctaveOf(k)>>
                       /\ e.strs = <<PcNames[PcOf(k) + 1], NoteStr(k)>>, "P4: Note accessors")
  ELSE IF e.ev = "interval" THEN
    IF Len(e.outs) # 128 THEN Unknown(e)
    ELSE Verdict(e, \A o \in 0..127 : e.outs[o + 1] = o - e.args[1], "P4: Interval")
  ELSE IF e.ev = "is" THEN
    IF Len(e.outs) # 128 THEN Unknown(e)
    ELSE Verdict(e, \A o \in 0..127 : (e.outs[o + 1] = 1) <=> (PcOf(o) = PcOf(e.args[1])), "P4: Is")
  ELSE IF e.ev = "transpose" THEN
    IF Len(e.outs) # 256 THEN Unknown(e)
    ELSE Verdict(e, \A i \in -128..127 : TransposeOk(e.args[1], i, e.outs[i + 129]), "P4: Transpose")
  ELSE IF e.ev = "istr" THEN
    IF Len(e.args) # 1 \/ Len(e.strs) # 1 THEN Unknown(e)
    ELSE IF e.args[1] \notin -128..127 THEN Unknown(e)
    ELSE Verdict(e, IntervalStrOk(e.args[1], e.strs[1]), "P4: Interval.String")
  ELSE Unknown(e)

Judge(e) == IF e.ev = "seq" THEN JudgeSeq(e) ELSE JudgeOther(e)

Init == l = 1 /\ bad = <<>>
Next == \/ /\ l <= Len(Trace)
           /\ LET j == Judge(Trace[l])
              IN bad' = IF j.ok THEN bad ELSE Append(bad, [line |-> l, info |-> j.info])
           /\ l' = l + 1
        \/ /\ l = Len(Trace) + 1
           /\ ndJsonSerialize(IOEnv.VERIF_OUT, <<[consumed |-> Len(Trace)]>> \o bad)
           /\ l' = l + 1 /\ UNCHANGED bad
=============================================================================
