------------------------------- MODULE ApaVlq -------------------------------
(* Unbounded (all 2^28 values) part of C03's VLQ claim, discharged symbolically by Apalache (--length=0):
   Lemma Decomp : every n < 2^28 is the value of its four base-128 digits (the digits the encoder emits).
   Lemma Unique : in digit form, a canonical byte string (<= 4 bytes, continuation bits exactly on all but the
                  last byte, first byte not 0x80 unless alone) whose digits denote the same number as d3..d0 is
                  exactly the shortest encoding of d3..d0.  Value() is linear in the digits, so the SMT problem is linear. *)
EXTENDS Integers
VARIABLES
  \* @type: Int;
  n,
  \* @type: Int;
  d3,
  \* @type: Int;
  d2,
  \* @type: Int;
  d1,
  \* @type: Int;
  d0,
  \* @type: Int;
  len,
  \* @type: Int;
  b1,
  \* @type: Int;
  b2,
  \* @type: Int;
  b3,
  \* @type: Int;
  b4

Init == /\ n \in 0..268435455
        /\ d3 \in 0..127 /\ d2 \in 0..127 /\ d1 \in 0..127 /\ d0 \in 0..127
        /\ len \in 1..4 /\ b1 \in 0..255 /\ b2 \in 0..255 /\ b3 \in 0..255 /\ b4 \in 0..255
Next == UNCHANGED <<n, d3, d2, d1, d0, len, b1, b2, b3, b4>>

E3 == n \div 2097152
E2 == (n \div 16384) % 128
E1 == (n \div 128) % 128
E0 == n % 128
Decomp == /\ E3 \in 0..127 /\ E2 \in 0..127 /\ E1 \in 0..127 /\ E0 \in 0..127
          /\ n = 2097152 * E3 + 16384 * E2 + 128 * E1 + E0

Value == 2097152 * d3 + 16384 * d2 + 128 * d1 + d0
\* length of the shortest encoding of the digits
MinLen == IF d3 # 0 THEN 4 ELSE IF d2 # 0 THEN 3 ELSE IF d1 # 0 THEN 2 ELSE 1
\* the bytes b1..b(len) are a canonical VLQ: continuation bit on all but the last, first byte not 0x80 when len > 1
Cont(b) == b >= 128
Dig(b) == IF b >= 128 THEN b - 128 ELSE b
Canonical ==
  /\ (len = 1 => ~Cont(b1))
  /\ (len = 2 => Cont(b1) /\ ~Cont(b2))
  /\ (len = 3 => Cont(b1) /\ Cont(b2) /\ ~Cont(b3))
  /\ (len = 4 => Cont(b1) /\ Cont(b2) /\ Cont(b3) /\ ~Cont(b4))
  /\ (len > 1 => b1 # 128)
BytesValue ==
  IF len = 1 THEN Dig(b1)
  ELSE IF len = 2 THEN 128 * Dig(b1) + Dig(b2)
  ELSE IF len = 3 THEN 16384 * Dig(b1) + 128 * Dig(b2) + Dig(b3)
  ELSE 2097152 * Dig(b1) + 16384 * Dig(b2) + 128 * Dig(b3) + Dig(b4)
\* the shortest encoding of d3..d0
IsShortest ==
  /\ len = MinLen
  /\ (len = 1 => b1 = d0)
  /\ (len = 2 => b1 = d1 + 128 /\ b2 = d0)
  /\ (len = 3 => b1 = d2 + 128 /\ b2 = d1 + 128 /\ b3 = d0)
  /\ (len = 4 => b1 = d3 + 128 /\ b2 = d2 + 128 /\ b3 = d1 + 128 /\ b4 = d0)
Unique == (Canonical /\ BytesValue = Value) => IsShortest
=============================================================================
