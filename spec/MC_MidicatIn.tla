------------------------------ MODULE MC_MidicatIn ------------------------------
(* PlusCal model of the process-backed in port (drivers/midicatdrv/in.go), structured like the code: one label per
   lock acquisition, channel operation or shared-variable access.  Processes: the client (a protocol-respecting
   history of Open / Listen / stop / Close, incl. start failure), the reader goroutine, the control goroutine,
   the asynchronous sender of Close, the helper process emitting lines at arbitrary moments.  The RWMutex is
   (writer, readers, waiting writers) with Go's writer preference; channels have capacity 1; two generations of
   channels because fireCmd re-makes them on every Open.
   Fixed = TRUE is the code as it is now (after the fix of the start-failure path); Fixed = FALSE transcribes the
   path as it was (re-locking a held mutex) and is kept as a regression config that must deadlock.
   Checked: deadlock freedom while a client call is pending, NoCallbackAfterStop, the mutex invariant.        *)
EXTENDS Integers, Sequences, TLC, McatEvents
CONSTANTS Fixed, MaxCalls, MaxLines

(* --algorithm MidicatIn
variables
  muW = 0,            \* 0 or pid of writer holding the RWMutex
  muR = 0,            \* number of readers
  muWait = 0,         \* writers waiting (Go blocks new readers while a writer waits)
  hasProc = FALSE,
  listener = 0,       \* 0 = nil, else listener id
  gen = 0,            \* current generation of channels/process (i.shouldStopListening etc.)
  stopReq = [i \in 1..2 |-> 0], stopAck = [i \in 1..2 |-> 0],
  killReq = [i \in 1..2 |-> 0], killAck = [i \in 1..2 |-> 0],   \* buffered channels cap 1: number of items
  alive = [i \in 1..2 |-> FALSE],      \* helper process + pipe usable
  spawned = [i \in 1..2 |-> FALSE],    \* goroutines of generation g started
  pipe = [i \in 1..2 |-> 0],           \* lines waiting in the pipe
  emitted = 0,
  nextL = 1,
  stopped = {},        \* listener ids whose stop function has returned
  calls = 0,
  lastErr = FALSE,
  cbActive = 0,        \* listener id currently being invoked
  badCallback = FALSE, \* a callback started for a listener whose stop had returned
  mon = M0,            \* state of the abstract hook-event monitor McatEvents (the events the verif hook reports, in lock order)
  monOk = TRUE,        \* every event the model emitted so far was enabled in the monitor
  isopen = FALSE, startOK = TRUE, pendingSend = [i \in 1..2 |-> 0];

macro Emit(e) begin monOk := monOk /\ MEnabled(mon, e); mon := MStep(mon, e); end macro;
macro RLock()   begin await muW = 0 /\ muWait = 0; muR := muR + 1; end macro;
macro RUnlock() begin muR := muR - 1; end macro;

procedure IsOpenP()
begin
 io1: await muW = 0 /\ muWait = 0;   \* RLock; read; RUnlock without blocking in between
      isopen := hasProc;
      return;
end procedure;

procedure FireCmd()
begin
 f1: muWait := muWait + 1;
 f2: await muW = 0 /\ muR = 0; muW := self; muWait := muWait - 1;
 f3: if hasProc then
       muW := 0; lastErr := TRUE; return;
     end if;
 f4: gen := gen + 1; hasProc := TRUE;
     either startOK := TRUE or startOK := FALSE end either;
 f5: if ~startOK then
       if ~Fixed then
 f5a:    muWait := muWait + 1;
 f5b:    await muW = 0 /\ muR = 0; muW := self; muWait := muWait - 1;   \* re-lock of a held mutex
       end if;
 f5c:  hasProc := FALSE; muW := 0; lastErr := TRUE; return;
     end if;
 f6: alive[gen] := TRUE; spawned[gen] := TRUE; Emit("started"); muW := 0; lastErr := FALSE; return;
end procedure;

procedure CloseP()
variable cg = 0;
begin
 c1: call IsOpenP();
 c2: if ~isopen then return; end if;
 c3: cg := gen;               \* go func(){ shouldStopListening <- true }()  : asynchronous send
     pendingSend[cg] := pendingSend[cg] + 1;
 c4: await stopAck[gen] > 0; stopAck[gen] := stopAck[gen] - 1;
 c5: await killReq[gen] = 0; killReq[gen] := 1;
 c6: await killAck[gen] > 0; killAck[gen] := killAck[gen] - 1;
     return;
end procedure;

procedure StopP(lid)
begin
 s1: call IsOpenP();
 s2: if ~isopen then stopped := stopped \cup {lid}; return; end if;
 s3: await stopReq[gen] = 0; stopReq[gen] := 1;
 s4: await stopAck[gen] > 0; stopAck[gen] := stopAck[gen] - 1;
     stopped := stopped \cup {lid};
     return;
end procedure;

process client = 1
variables myL = 0;
begin
 loop: while calls < MaxCalls do
   calls := calls + 1;
   either \* Open
     op1: call IsOpenP();
     op2: if ~isopen /\ gen < 2 then
            call FireCmd();
     op3:   if lastErr then call CloseP(); end if;
          end if;
   or     \* Listen
     li1: call IsOpenP();
     li2: if isopen then
     li3:   await muW = 0 /\ muWait = 0;
            if listener = 0 then
     li4:     muWait := muWait + 1;
     li5:     await muW = 0 /\ muR = 0; muW := 1; muWait := muWait - 1;
     li6:     listener := nextL; myL := nextL; nextL := nextL + 1; Emit("listener-set"); muW := 0;
            end if;
          end if;
   or     \* stop()
     st1: if myL # 0 then call StopP(myL); end if;
     st2: myL := 0;
   or     \* Close
     cl1: call CloseP();
   end either;
 end while;
end process;

\* the asynchronous "go func(){ shouldStopListening <- true }()" of Close
process asyncsend \in {10, 11}
begin
 as: while TRUE do
       await pendingSend[self - 9] > 0 /\ stopReq[self - 9] = 0;
       stopReq[self - 9] := 1; pendingSend[self - 9] := pendingSend[self - 9] - 1;
     end while;
end process;

process reader \in {20, 21}
variable g = self - 19;
begin
 r0: await spawned[g];
 r1: while TRUE do
       either await pipe[g] > 0; pipe[g] := pipe[g] - 1;
       or     await ~alive[g]; goto rdone;
       end either;
 r2:   RLock();
 r3:   if ~hasProc then RUnlock(); goto rdone; end if;
 r4:   if listener # 0 then
         cbActive := listener;
         if listener \in stopped then badCallback := TRUE; end if;
 r5:     cbActive := 0; Emit("line-delivered");
       else
         Emit("line-dropped");
       end if;
 r6:   RUnlock();
     end while;
 rdone: skip;
end process;

process control \in {30, 31}
variable g = self - 29;
begin
 k0: await spawned[g];
 k1: while TRUE do
       either
         await killReq[g] > 0; killReq[g] := 0;
         alive[g] := FALSE;
 k2:     muWait := muWait + 1;
 k3:     await muW = 0 /\ muR = 0; muW := self; muWait := muWait - 1;
 k4:     hasProc := FALSE; Emit("killed"); muW := 0;
 k5:     await killAck[g] = 0; killAck[g] := 1;
         goto kdone;
       or
         await stopReq[g] > 0; stopReq[g] := 0;
 k6:     muWait := muWait + 1;
 k7:     await muW = 0 /\ muR = 0; muW := self; muWait := muWait - 1;
 k8:     listener := 0; Emit("listener-cleared"); muW := 0;
 k9:     await stopAck[g] = 0; stopAck[g] := 1;
       end either;
     end while;
 kdone: skip;
end process;

process helper \in {40, 41}
variable g = self - 39;
begin
 h1: while emitted < MaxLines do
       await alive[g];
       pipe[g] := pipe[g] + 1; emitted := emitted + 1;
     end while;
end process;
end algorithm; *)
\* BEGIN TRANSLATION
\* Process variable g of process reader at line 131 col 10 changed to g_
\* Process variable g of process control at line 153 col 10 changed to g_c
CONSTANT defaultInitValue
VARIABLES pc, muW, muR, muWait, hasProc, listener, gen, stopReq, stopAck, 
          killReq, killAck, alive, spawned, pipe, emitted, nextL, stopped, 
          calls, lastErr, cbActive, badCallback, mon, monOk, isopen, startOK, 
          pendingSend, stack, cg, lid, myL, g_, g_c, g

vars == << pc, muW, muR, muWait, hasProc, listener, gen, stopReq, stopAck, 
           killReq, killAck, alive, spawned, pipe, emitted, nextL, stopped, 
           calls, lastErr, cbActive, badCallback, mon, monOk, isopen, startOK, 
           pendingSend, stack, cg, lid, myL, g_, g_c, g >>

ProcSet == {1} \cup ({10, 11}) \cup ({20, 21}) \cup ({30, 31}) \cup ({40, 41})

Init == (* Global variables *)
        /\ muW = 0
        /\ muR = 0
        /\ muWait = 0
        /\ hasProc = FALSE
        /\ listener = 0
        /\ gen = 0
        /\ stopReq = [i \in 1..2 |-> 0]
        /\ stopAck = [i \in 1..2 |-> 0]
        /\ killReq = [i \in 1..2 |-> 0]
        /\ killAck = [i \in 1..2 |-> 0]
        /\ alive = [i \in 1..2 |-> FALSE]
        /\ spawned = [i \in 1..2 |-> FALSE]
        /\ pipe = [i \in 1..2 |-> 0]
        /\ emitted = 0
        /\ nextL = 1
        /\ stopped = {}
        /\ calls = 0
        /\ lastErr = FALSE
        /\ cbActive = 0
        /\ badCallback = FALSE
        /\ mon = M0
        /\ monOk = TRUE
        /\ isopen = FALSE
        /\ startOK = TRUE
        /\ pendingSend = [i \in 1..2 |-> 0]
        (* Procedure CloseP *)
        /\ cg = [ self \in ProcSet |-> 0]
        (* Procedure StopP *)
        /\ lid = [ self \in ProcSet |-> defaultInitValue]
        (* Process client *)
        /\ myL = 0
        (* Process reader *)
        /\ g_ = [self \in {20, 21} |-> self - 19]
        (* Process control *)
        /\ g_c = [self \in {30, 31} |-> self - 29]
        (* Process helper *)
        /\ g = [self \in {40, 41} |-> self - 39]
        /\ stack = [self \in ProcSet |-> << >>]
        /\ pc = [self \in ProcSet |-> CASE self = 1 -> "loop"
                                        [] self \in {10, 11} -> "as"
                                        [] self \in {20, 21} -> "r0"
                                        [] self \in {30, 31} -> "k0"
                                        [] self \in {40, 41} -> "h1"]

io1(self) == /\ pc[self] = "io1"
             /\ muW = 0 /\ muWait = 0
             /\ isopen' = hasProc
             /\ pc' = [pc EXCEPT ![self] = Head(stack[self]).pc]
             /\ stack' = [stack EXCEPT ![self] = Tail(stack[self])]
             /\ UNCHANGED << muW, muR, muWait, hasProc, listener, gen, stopReq, 
                             stopAck, killReq, killAck, alive, spawned, pipe, 
                             emitted, nextL, stopped, calls, lastErr, cbActive, 
                             badCallback, mon, monOk, startOK, pendingSend, cg, 
                             lid, myL, g_, g_c, g >>

IsOpenP(self) == io1(self)

f1(self) == /\ pc[self] = "f1"
            /\ muWait' = muWait + 1
            /\ pc' = [pc EXCEPT ![self] = "f2"]
            /\ UNCHANGED << muW, muR, hasProc, listener, gen, stopReq, stopAck, 
                            killReq, killAck, alive, spawned, pipe, emitted, 
                            nextL, stopped, calls, lastErr, cbActive, 
                            badCallback, mon, monOk, isopen, startOK, 
                            pendingSend, stack, cg, lid, myL, g_, g_c, g >>

f2(self) == /\ pc[self] = "f2"
            /\ muW = 0 /\ muR = 0
            /\ muW' = self
            /\ muWait' = muWait - 1
            /\ pc' = [pc EXCEPT ![self] = "f3"]
            /\ UNCHANGED << muR, hasProc, listener, gen, stopReq, stopAck, 
                            killReq, killAck, alive, spawned, pipe, emitted, 
                            nextL, stopped, calls, lastErr, cbActive, 
                            badCallback, mon, monOk, isopen, startOK, 
                            pendingSend, stack, cg, lid, myL, g_, g_c, g >>

f3(self) == /\ pc[self] = "f3"
            /\ IF hasProc
                  THEN /\ muW' = 0
                       /\ lastErr' = TRUE
                       /\ pc' = [pc EXCEPT ![self] = Head(stack[self]).pc]
                       /\ stack' = [stack EXCEPT ![self] = Tail(stack[self])]
                  ELSE /\ pc' = [pc EXCEPT ![self] = "f4"]
                       /\ UNCHANGED << muW, lastErr, stack >>
            /\ UNCHANGED << muR, muWait, hasProc, listener, gen, stopReq, 
                            stopAck, killReq, killAck, alive, spawned, pipe, 
                            emitted, nextL, stopped, calls, cbActive, 
                            badCallback, mon, monOk, isopen, startOK, 
                            pendingSend, cg, lid, myL, g_, g_c, g >>

f4(self) == /\ pc[self] = "f4"
            /\ gen' = gen + 1
            /\ hasProc' = TRUE
            /\ \/ /\ startOK' = TRUE
               \/ /\ startOK' = FALSE
            /\ pc' = [pc EXCEPT ![self] = "f5"]
            /\ UNCHANGED << muW, muR, muWait, listener, stopReq, stopAck, 
                            killReq, killAck, alive, spawned, pipe, emitted, 
                            nextL, stopped, calls, lastErr, cbActive, 
                            badCallback, mon, monOk, isopen, pendingSend, 
                            stack, cg, lid, myL, g_, g_c, g >>

f5(self) == /\ pc[self] = "f5"
            /\ IF ~startOK
                  THEN /\ IF ~Fixed
                             THEN /\ pc' = [pc EXCEPT ![self] = "f5a"]
                             ELSE /\ pc' = [pc EXCEPT ![self] = "f5c"]
                  ELSE /\ pc' = [pc EXCEPT ![self] = "f6"]
            /\ UNCHANGED << muW, muR, muWait, hasProc, listener, gen, stopReq, 
                            stopAck, killReq, killAck, alive, spawned, pipe, 
                            emitted, nextL, stopped, calls, lastErr, cbActive, 
                            badCallback, mon, monOk, isopen, startOK, 
                            pendingSend, stack, cg, lid, myL, g_, g_c, g >>

f5c(self) == /\ pc[self] = "f5c"
             /\ hasProc' = FALSE
             /\ muW' = 0
             /\ lastErr' = TRUE
             /\ pc' = [pc EXCEPT ![self] = Head(stack[self]).pc]
             /\ stack' = [stack EXCEPT ![self] = Tail(stack[self])]
             /\ UNCHANGED << muR, muWait, listener, gen, stopReq, stopAck, 
                             killReq, killAck, alive, spawned, pipe, emitted, 
                             nextL, stopped, calls, cbActive, badCallback, mon, 
                             monOk, isopen, startOK, pendingSend, cg, lid, myL, 
                             g_, g_c, g >>

f5a(self) == /\ pc[self] = "f5a"
             /\ muWait' = muWait + 1
             /\ pc' = [pc EXCEPT ![self] = "f5b"]
             /\ UNCHANGED << muW, muR, hasProc, listener, gen, stopReq, 
                             stopAck, killReq, killAck, alive, spawned, pipe, 
                             emitted, nextL, stopped, calls, lastErr, cbActive, 
                             badCallback, mon, monOk, isopen, startOK, 
                             pendingSend, stack, cg, lid, myL, g_, g_c, g >>

f5b(self) == /\ pc[self] = "f5b"
             /\ muW = 0 /\ muR = 0
             /\ muW' = self
             /\ muWait' = muWait - 1
             /\ pc' = [pc EXCEPT ![self] = "f5c"]
             /\ UNCHANGED << muR, hasProc, listener, gen, stopReq, stopAck, 
                             killReq, killAck, alive, spawned, pipe, emitted, 
                             nextL, stopped, calls, lastErr, cbActive, 
                             badCallback, mon, monOk, isopen, startOK, 
                             pendingSend, stack, cg, lid, myL, g_, g_c, g >>

f6(self) == /\ pc[self] = "f6"
            /\ alive' = [alive EXCEPT ![gen] = TRUE]
            /\ spawned' = [spawned EXCEPT ![gen] = TRUE]
            /\ monOk' = (monOk /\ MEnabled(mon, "started"))
            /\ mon' = MStep(mon, "started")
            /\ muW' = 0
            /\ lastErr' = FALSE
            /\ pc' = [pc EXCEPT ![self] = Head(stack[self]).pc]
            /\ stack' = [stack EXCEPT ![self] = Tail(stack[self])]
            /\ UNCHANGED << muR, muWait, hasProc, listener, gen, stopReq, 
                            stopAck, killReq, killAck, pipe, emitted, nextL, 
                            stopped, calls, cbActive, badCallback, isopen, 
                            startOK, pendingSend, cg, lid, myL, g_, g_c, g >>

FireCmd(self) == f1(self) \/ f2(self) \/ f3(self) \/ f4(self) \/ f5(self)
                    \/ f5c(self) \/ f5a(self) \/ f5b(self) \/ f6(self)

c1(self) == /\ pc[self] = "c1"
            /\ stack' = [stack EXCEPT ![self] = << [ procedure |->  "IsOpenP",
                                                     pc        |->  "c2" ] >>
                                                 \o stack[self]]
            /\ pc' = [pc EXCEPT ![self] = "io1"]
            /\ UNCHANGED << muW, muR, muWait, hasProc, listener, gen, stopReq, 
                            stopAck, killReq, killAck, alive, spawned, pipe, 
                            emitted, nextL, stopped, calls, lastErr, cbActive, 
                            badCallback, mon, monOk, isopen, startOK, 
                            pendingSend, cg, lid, myL, g_, g_c, g >>

c2(self) == /\ pc[self] = "c2"
            /\ IF ~isopen
                  THEN /\ pc' = [pc EXCEPT ![self] = Head(stack[self]).pc]
                       /\ cg' = [cg EXCEPT ![self] = Head(stack[self]).cg]
                       /\ stack' = [stack EXCEPT ![self] = Tail(stack[self])]
                  ELSE /\ pc' = [pc EXCEPT ![self] = "c3"]
                       /\ UNCHANGED << stack, cg >>
            /\ UNCHANGED << muW, muR, muWait, hasProc, listener, gen, stopReq, 
                            stopAck, killReq, killAck, alive, spawned, pipe, 
                            emitted, nextL, stopped, calls, lastErr, cbActive, 
                            badCallback, mon, monOk, isopen, startOK, 
                            pendingSend, lid, myL, g_, g_c, g >>

c3(self) == /\ pc[self] = "c3"
            /\ cg' = [cg EXCEPT ![self] = gen]
            /\ pendingSend' = [pendingSend EXCEPT ![cg'[self]] = pendingSend[cg'[self]] + 1]
            /\ pc' = [pc EXCEPT ![self] = "c4"]
            /\ UNCHANGED << muW, muR, muWait, hasProc, listener, gen, stopReq, 
                            stopAck, killReq, killAck, alive, spawned, pipe, 
                            emitted, nextL, stopped, calls, lastErr, cbActive, 
                            badCallback, mon, monOk, isopen, startOK, stack, 
                            lid, myL, g_, g_c, g >>

c4(self) == /\ pc[self] = "c4"
            /\ stopAck[gen] > 0
            /\ stopAck' = [stopAck EXCEPT ![gen] = stopAck[gen] - 1]
            /\ pc' = [pc EXCEPT ![self] = "c5"]
            /\ UNCHANGED << muW, muR, muWait, hasProc, listener, gen, stopReq, 
                            killReq, killAck, alive, spawned, pipe, emitted, 
                            nextL, stopped, calls, lastErr, cbActive, 
                            badCallback, mon, monOk, isopen, startOK, 
                            pendingSend, stack, cg, lid, myL, g_, g_c, g >>

c5(self) == /\ pc[self] = "c5"
            /\ killReq[gen] = 0
            /\ killReq' = [killReq EXCEPT ![gen] = 1]
            /\ pc' = [pc EXCEPT ![self] = "c6"]
            /\ UNCHANGED << muW, muR, muWait, hasProc, listener, gen, stopReq, 
                            stopAck, killAck, alive, spawned, pipe, emitted, 
                            nextL, stopped, calls, lastErr, cbActive, 
                            badCallback, mon, monOk, isopen, startOK, 
                            pendingSend, stack, cg, lid, myL, g_, g_c, g >>

c6(self) == /\ pc[self] = "c6"
            /\ killAck[gen] > 0
            /\ killAck' = [killAck EXCEPT ![gen] = killAck[gen] - 1]
            /\ pc' = [pc EXCEPT ![self] = Head(stack[self]).pc]
            /\ cg' = [cg EXCEPT ![self] = Head(stack[self]).cg]
            /\ stack' = [stack EXCEPT ![self] = Tail(stack[self])]
            /\ UNCHANGED << muW, muR, muWait, hasProc, listener, gen, stopReq, 
                            stopAck, killReq, alive, spawned, pipe, emitted, 
                            nextL, stopped, calls, lastErr, cbActive, 
                            badCallback, mon, monOk, isopen, startOK, 
                            pendingSend, lid, myL, g_, g_c, g >>

CloseP(self) == c1(self) \/ c2(self) \/ c3(self) \/ c4(self) \/ c5(self)
                   \/ c6(self)

s1(self) == /\ pc[self] = "s1"
            /\ stack' = [stack EXCEPT ![self] = << [ procedure |->  "IsOpenP",
                                                     pc        |->  "s2" ] >>
                                                 \o stack[self]]
            /\ pc' = [pc EXCEPT ![self] = "io1"]
            /\ UNCHANGED << muW, muR, muWait, hasProc, listener, gen, stopReq, 
                            stopAck, killReq, killAck, alive, spawned, pipe, 
                            emitted, nextL, stopped, calls, lastErr, cbActive, 
                            badCallback, mon, monOk, isopen, startOK, 
                            pendingSend, cg, lid, myL, g_, g_c, g >>

s2(self) == /\ pc[self] = "s2"
            /\ IF ~isopen
                  THEN /\ stopped' = (stopped \cup {lid[self]})
                       /\ pc' = [pc EXCEPT ![self] = Head(stack[self]).pc]
                       /\ lid' = [lid EXCEPT ![self] = Head(stack[self]).lid]
                       /\ stack' = [stack EXCEPT ![self] = Tail(stack[self])]
                  ELSE /\ pc' = [pc EXCEPT ![self] = "s3"]
                       /\ UNCHANGED << stopped, stack, lid >>
            /\ UNCHANGED << muW, muR, muWait, hasProc, listener, gen, stopReq, 
                            stopAck, killReq, killAck, alive, spawned, pipe, 
                            emitted, nextL, calls, lastErr, cbActive, 
                            badCallback, mon, monOk, isopen, startOK, 
                            pendingSend, cg, myL, g_, g_c, g >>

s3(self) == /\ pc[self] = "s3"
            /\ stopReq[gen] = 0
            /\ stopReq' = [stopReq EXCEPT ![gen] = 1]
            /\ pc' = [pc EXCEPT ![self] = "s4"]
            /\ UNCHANGED << muW, muR, muWait, hasProc, listener, gen, stopAck, 
                            killReq, killAck, alive, spawned, pipe, emitted, 
                            nextL, stopped, calls, lastErr, cbActive, 
                            badCallback, mon, monOk, isopen, startOK, 
                            pendingSend, stack, cg, lid, myL, g_, g_c, g >>

s4(self) == /\ pc[self] = "s4"
            /\ stopAck[gen] > 0
            /\ stopAck' = [stopAck EXCEPT ![gen] = stopAck[gen] - 1]
            /\ stopped' = (stopped \cup {lid[self]})
            /\ pc' = [pc EXCEPT ![self] = Head(stack[self]).pc]
            /\ lid' = [lid EXCEPT ![self] = Head(stack[self]).lid]
            /\ stack' = [stack EXCEPT ![self] = Tail(stack[self])]
            /\ UNCHANGED << muW, muR, muWait, hasProc, listener, gen, stopReq, 
                            killReq, killAck, alive, spawned, pipe, emitted, 
                            nextL, calls, lastErr, cbActive, badCallback, mon, 
                            monOk, isopen, startOK, pendingSend, cg, myL, g_, 
                            g_c, g >>

StopP(self) == s1(self) \/ s2(self) \/ s3(self) \/ s4(self)

loop == /\ pc[1] = "loop"
        /\ IF calls < MaxCalls
              THEN /\ calls' = calls + 1
                   /\ \/ /\ pc' = [pc EXCEPT ![1] = "op1"]
                      \/ /\ pc' = [pc EXCEPT ![1] = "li1"]
                      \/ /\ pc' = [pc EXCEPT ![1] = "st1"]
                      \/ /\ pc' = [pc EXCEPT ![1] = "cl1"]
              ELSE /\ pc' = [pc EXCEPT ![1] = "Done"]
                   /\ calls' = calls
        /\ UNCHANGED << muW, muR, muWait, hasProc, listener, gen, stopReq, 
                        stopAck, killReq, killAck, alive, spawned, pipe, 
                        emitted, nextL, stopped, lastErr, cbActive, 
                        badCallback, mon, monOk, isopen, startOK, pendingSend, 
                        stack, cg, lid, myL, g_, g_c, g >>

op1 == /\ pc[1] = "op1"
       /\ stack' = [stack EXCEPT ![1] = << [ procedure |->  "IsOpenP",
                                             pc        |->  "op2" ] >>
                                         \o stack[1]]
       /\ pc' = [pc EXCEPT ![1] = "io1"]
       /\ UNCHANGED << muW, muR, muWait, hasProc, listener, gen, stopReq, 
                       stopAck, killReq, killAck, alive, spawned, pipe, 
                       emitted, nextL, stopped, calls, lastErr, cbActive, 
                       badCallback, mon, monOk, isopen, startOK, pendingSend, 
                       cg, lid, myL, g_, g_c, g >>

op2 == /\ pc[1] = "op2"
       /\ IF ~isopen /\ gen < 2
             THEN /\ stack' = [stack EXCEPT ![1] = << [ procedure |->  "FireCmd",
                                                        pc        |->  "op3" ] >>
                                                    \o stack[1]]
                  /\ pc' = [pc EXCEPT ![1] = "f1"]
             ELSE /\ pc' = [pc EXCEPT ![1] = "loop"]
                  /\ stack' = stack
       /\ UNCHANGED << muW, muR, muWait, hasProc, listener, gen, stopReq, 
                       stopAck, killReq, killAck, alive, spawned, pipe, 
                       emitted, nextL, stopped, calls, lastErr, cbActive, 
                       badCallback, mon, monOk, isopen, startOK, pendingSend, 
                       cg, lid, myL, g_, g_c, g >>

op3 == /\ pc[1] = "op3"
       /\ IF lastErr
             THEN /\ stack' = [stack EXCEPT ![1] = << [ procedure |->  "CloseP",
                                                        pc        |->  "loop",
                                                        cg        |->  cg[1] ] >>
                                                    \o stack[1]]
                  /\ cg' = [cg EXCEPT ![1] = 0]
                  /\ pc' = [pc EXCEPT ![1] = "c1"]
             ELSE /\ pc' = [pc EXCEPT ![1] = "loop"]
                  /\ UNCHANGED << stack, cg >>
       /\ UNCHANGED << muW, muR, muWait, hasProc, listener, gen, stopReq, 
                       stopAck, killReq, killAck, alive, spawned, pipe, 
                       emitted, nextL, stopped, calls, lastErr, cbActive, 
                       badCallback, mon, monOk, isopen, startOK, pendingSend, 
                       lid, myL, g_, g_c, g >>

li1 == /\ pc[1] = "li1"
       /\ stack' = [stack EXCEPT ![1] = << [ procedure |->  "IsOpenP",
                                             pc        |->  "li2" ] >>
                                         \o stack[1]]
       /\ pc' = [pc EXCEPT ![1] = "io1"]
       /\ UNCHANGED << muW, muR, muWait, hasProc, listener, gen, stopReq, 
                       stopAck, killReq, killAck, alive, spawned, pipe, 
                       emitted, nextL, stopped, calls, lastErr, cbActive, 
                       badCallback, mon, monOk, isopen, startOK, pendingSend, 
                       cg, lid, myL, g_, g_c, g >>

li2 == /\ pc[1] = "li2"
       /\ IF isopen
             THEN /\ pc' = [pc EXCEPT ![1] = "li3"]
             ELSE /\ pc' = [pc EXCEPT ![1] = "loop"]
       /\ UNCHANGED << muW, muR, muWait, hasProc, listener, gen, stopReq, 
                       stopAck, killReq, killAck, alive, spawned, pipe, 
                       emitted, nextL, stopped, calls, lastErr, cbActive, 
                       badCallback, mon, monOk, isopen, startOK, pendingSend, 
                       stack, cg, lid, myL, g_, g_c, g >>

li3 == /\ pc[1] = "li3"
       /\ muW = 0 /\ muWait = 0
       /\ IF listener = 0
             THEN /\ pc' = [pc EXCEPT ![1] = "li4"]
             ELSE /\ pc' = [pc EXCEPT ![1] = "loop"]
       /\ UNCHANGED << muW, muR, muWait, hasProc, listener, gen, stopReq, 
                       stopAck, killReq, killAck, alive, spawned, pipe, 
                       emitted, nextL, stopped, calls, lastErr, cbActive, 
                       badCallback, mon, monOk, isopen, startOK, pendingSend, 
                       stack, cg, lid, myL, g_, g_c, g >>

li4 == /\ pc[1] = "li4"
       /\ muWait' = muWait + 1
       /\ pc' = [pc EXCEPT ![1] = "li5"]
       /\ UNCHANGED << muW, muR, hasProc, listener, gen, stopReq, stopAck, 
                       killReq, killAck, alive, spawned, pipe, emitted, nextL, 
                       stopped, calls, lastErr, cbActive, badCallback, mon, 
                       monOk, isopen, startOK, pendingSend, stack, cg, lid, 
                       myL, g_, g_c, g >>

li5 == /\ pc[1] = "li5"
       /\ muW = 0 /\ muR = 0
       /\ muW' = 1
       /\ muWait' = muWait - 1
       /\ pc' = [pc EXCEPT ![1] = "li6"]
       /\ UNCHANGED << muR, hasProc, listener, gen, stopReq, stopAck, killReq, 
                       killAck, alive, spawned, pipe, emitted, nextL, stopped, 
                       calls, lastErr, cbActive, badCallback, mon, monOk, 
                       isopen, startOK, pendingSend, stack, cg, lid, myL, g_, 
                       g_c, g >>

li6 == /\ pc[1] = "li6"
       /\ listener' = nextL
       /\ myL' = nextL
       /\ nextL' = nextL + 1
       /\ monOk' = (monOk /\ MEnabled(mon, "listener-set"))
       /\ mon' = MStep(mon, "listener-set")
       /\ muW' = 0
       /\ pc' = [pc EXCEPT ![1] = "loop"]
       /\ UNCHANGED << muR, muWait, hasProc, gen, stopReq, stopAck, killReq, 
                       killAck, alive, spawned, pipe, emitted, stopped, calls, 
                       lastErr, cbActive, badCallback, isopen, startOK, 
                       pendingSend, stack, cg, lid, g_, g_c, g >>

st1 == /\ pc[1] = "st1"
       /\ IF myL # 0
             THEN /\ /\ lid' = [lid EXCEPT ![1] = myL]
                     /\ stack' = [stack EXCEPT ![1] = << [ procedure |->  "StopP",
                                                           pc        |->  "st2",
                                                           lid       |->  lid[1] ] >>
                                                       \o stack[1]]
                  /\ pc' = [pc EXCEPT ![1] = "s1"]
             ELSE /\ pc' = [pc EXCEPT ![1] = "st2"]
                  /\ UNCHANGED << stack, lid >>
       /\ UNCHANGED << muW, muR, muWait, hasProc, listener, gen, stopReq, 
                       stopAck, killReq, killAck, alive, spawned, pipe, 
                       emitted, nextL, stopped, calls, lastErr, cbActive, 
                       badCallback, mon, monOk, isopen, startOK, pendingSend, 
                       cg, myL, g_, g_c, g >>

st2 == /\ pc[1] = "st2"
       /\ myL' = 0
       /\ pc' = [pc EXCEPT ![1] = "loop"]
       /\ UNCHANGED << muW, muR, muWait, hasProc, listener, gen, stopReq, 
                       stopAck, killReq, killAck, alive, spawned, pipe, 
                       emitted, nextL, stopped, calls, lastErr, cbActive, 
                       badCallback, mon, monOk, isopen, startOK, pendingSend, 
                       stack, cg, lid, g_, g_c, g >>

cl1 == /\ pc[1] = "cl1"
       /\ stack' = [stack EXCEPT ![1] = << [ procedure |->  "CloseP",
                                             pc        |->  "loop",
                                             cg        |->  cg[1] ] >>
                                         \o stack[1]]
       /\ cg' = [cg EXCEPT ![1] = 0]
       /\ pc' = [pc EXCEPT ![1] = "c1"]
       /\ UNCHANGED << muW, muR, muWait, hasProc, listener, gen, stopReq, 
                       stopAck, killReq, killAck, alive, spawned, pipe, 
                       emitted, nextL, stopped, calls, lastErr, cbActive, 
                       badCallback, mon, monOk, isopen, startOK, pendingSend, 
                       lid, myL, g_, g_c, g >>

client == loop \/ op1 \/ op2 \/ op3 \/ li1 \/ li2 \/ li3 \/ li4 \/ li5
             \/ li6 \/ st1 \/ st2 \/ cl1

as(self) == /\ pc[self] = "as"
            /\ pendingSend[self - 9] > 0 /\ stopReq[self - 9] = 0
            /\ stopReq' = [stopReq EXCEPT ![self - 9] = 1]
            /\ pendingSend' = [pendingSend EXCEPT ![self - 9] = pendingSend[self - 9] - 1]
            /\ pc' = [pc EXCEPT ![self] = "as"]
            /\ UNCHANGED << muW, muR, muWait, hasProc, listener, gen, stopAck, 
                            killReq, killAck, alive, spawned, pipe, emitted, 
                            nextL, stopped, calls, lastErr, cbActive, 
                            badCallback, mon, monOk, isopen, startOK, stack, 
                            cg, lid, myL, g_, g_c, g >>

asyncsend(self) == as(self)

r0(self) == /\ pc[self] = "r0"
            /\ spawned[g_[self]]
            /\ pc' = [pc EXCEPT ![self] = "r1"]
            /\ UNCHANGED << muW, muR, muWait, hasProc, listener, gen, stopReq, 
                            stopAck, killReq, killAck, alive, spawned, pipe, 
                            emitted, nextL, stopped, calls, lastErr, cbActive, 
                            badCallback, mon, monOk, isopen, startOK, 
                            pendingSend, stack, cg, lid, myL, g_, g_c, g >>

r1(self) == /\ pc[self] = "r1"
            /\ \/ /\ pipe[g_[self]] > 0
                  /\ pipe' = [pipe EXCEPT ![g_[self]] = pipe[g_[self]] - 1]
                  /\ pc' = [pc EXCEPT ![self] = "r2"]
               \/ /\ ~alive[g_[self]]
                  /\ pc' = [pc EXCEPT ![self] = "rdone"]
                  /\ pipe' = pipe
            /\ UNCHANGED << muW, muR, muWait, hasProc, listener, gen, stopReq, 
                            stopAck, killReq, killAck, alive, spawned, emitted, 
                            nextL, stopped, calls, lastErr, cbActive, 
                            badCallback, mon, monOk, isopen, startOK, 
                            pendingSend, stack, cg, lid, myL, g_, g_c, g >>

r2(self) == /\ pc[self] = "r2"
            /\ muW = 0 /\ muWait = 0
            /\ muR' = muR + 1
            /\ pc' = [pc EXCEPT ![self] = "r3"]
            /\ UNCHANGED << muW, muWait, hasProc, listener, gen, stopReq, 
                            stopAck, killReq, killAck, alive, spawned, pipe, 
                            emitted, nextL, stopped, calls, lastErr, cbActive, 
                            badCallback, mon, monOk, isopen, startOK, 
                            pendingSend, stack, cg, lid, myL, g_, g_c, g >>

r3(self) == /\ pc[self] = "r3"
            /\ IF ~hasProc
                  THEN /\ muR' = muR - 1
                       /\ pc' = [pc EXCEPT ![self] = "rdone"]
                  ELSE /\ pc' = [pc EXCEPT ![self] = "r4"]
                       /\ muR' = muR
            /\ UNCHANGED << muW, muWait, hasProc, listener, gen, stopReq, 
                            stopAck, killReq, killAck, alive, spawned, pipe, 
                            emitted, nextL, stopped, calls, lastErr, cbActive, 
                            badCallback, mon, monOk, isopen, startOK, 
                            pendingSend, stack, cg, lid, myL, g_, g_c, g >>

r4(self) == /\ pc[self] = "r4"
            /\ IF listener # 0
                  THEN /\ cbActive' = listener
                       /\ IF listener \in stopped
                             THEN /\ badCallback' = TRUE
                             ELSE /\ TRUE
                                  /\ UNCHANGED badCallback
                       /\ pc' = [pc EXCEPT ![self] = "r5"]
                       /\ UNCHANGED << mon, monOk >>
                  ELSE /\ monOk' = (monOk /\ MEnabled(mon, "line-dropped"))
                       /\ mon' = MStep(mon, "line-dropped")
                       /\ pc' = [pc EXCEPT ![self] = "r6"]
                       /\ UNCHANGED << cbActive, badCallback >>
            /\ UNCHANGED << muW, muR, muWait, hasProc, listener, gen, stopReq, 
                            stopAck, killReq, killAck, alive, spawned, pipe, 
                            emitted, nextL, stopped, calls, lastErr, isopen, 
                            startOK, pendingSend, stack, cg, lid, myL, g_, g_c, 
                            g >>

r5(self) == /\ pc[self] = "r5"
            /\ cbActive' = 0
            /\ monOk' = (monOk /\ MEnabled(mon, "line-delivered"))
            /\ mon' = MStep(mon, "line-delivered")
            /\ pc' = [pc EXCEPT ![self] = "r6"]
            /\ UNCHANGED << muW, muR, muWait, hasProc, listener, gen, stopReq, 
                            stopAck, killReq, killAck, alive, spawned, pipe, 
                            emitted, nextL, stopped, calls, lastErr, 
                            badCallback, isopen, startOK, pendingSend, stack, 
                            cg, lid, myL, g_, g_c, g >>

r6(self) == /\ pc[self] = "r6"
            /\ muR' = muR - 1
            /\ pc' = [pc EXCEPT ![self] = "r1"]
            /\ UNCHANGED << muW, muWait, hasProc, listener, gen, stopReq, 
                            stopAck, killReq, killAck, alive, spawned, pipe, 
                            emitted, nextL, stopped, calls, lastErr, cbActive, 
                            badCallback, mon, monOk, isopen, startOK, 
                            pendingSend, stack, cg, lid, myL, g_, g_c, g >>

rdone(self) == /\ pc[self] = "rdone"
               /\ TRUE
               /\ pc' = [pc EXCEPT ![self] = "Done"]
               /\ UNCHANGED << muW, muR, muWait, hasProc, listener, gen, 
                               stopReq, stopAck, killReq, killAck, alive, 
                               spawned, pipe, emitted, nextL, stopped, calls, 
                               lastErr, cbActive, badCallback, mon, monOk, 
                               isopen, startOK, pendingSend, stack, cg, lid, 
                               myL, g_, g_c, g >>

reader(self) == r0(self) \/ r1(self) \/ r2(self) \/ r3(self) \/ r4(self)
                   \/ r5(self) \/ r6(self) \/ rdone(self)

k0(self) == /\ pc[self] = "k0"
            /\ spawned[g_c[self]]
            /\ pc' = [pc EXCEPT ![self] = "k1"]
            /\ UNCHANGED << muW, muR, muWait, hasProc, listener, gen, stopReq, 
                            stopAck, killReq, killAck, alive, spawned, pipe, 
                            emitted, nextL, stopped, calls, lastErr, cbActive, 
                            badCallback, mon, monOk, isopen, startOK, 
                            pendingSend, stack, cg, lid, myL, g_, g_c, g >>

k1(self) == /\ pc[self] = "k1"
            /\ \/ /\ killReq[g_c[self]] > 0
                  /\ killReq' = [killReq EXCEPT ![g_c[self]] = 0]
                  /\ alive' = [alive EXCEPT ![g_c[self]] = FALSE]
                  /\ pc' = [pc EXCEPT ![self] = "k2"]
                  /\ UNCHANGED stopReq
               \/ /\ stopReq[g_c[self]] > 0
                  /\ stopReq' = [stopReq EXCEPT ![g_c[self]] = 0]
                  /\ pc' = [pc EXCEPT ![self] = "k6"]
                  /\ UNCHANGED <<killReq, alive>>
            /\ UNCHANGED << muW, muR, muWait, hasProc, listener, gen, stopAck, 
                            killAck, spawned, pipe, emitted, nextL, stopped, 
                            calls, lastErr, cbActive, badCallback, mon, monOk, 
                            isopen, startOK, pendingSend, stack, cg, lid, myL, 
                            g_, g_c, g >>

k2(self) == /\ pc[self] = "k2"
            /\ muWait' = muWait + 1
            /\ pc' = [pc EXCEPT ![self] = "k3"]
            /\ UNCHANGED << muW, muR, hasProc, listener, gen, stopReq, stopAck, 
                            killReq, killAck, alive, spawned, pipe, emitted, 
                            nextL, stopped, calls, lastErr, cbActive, 
                            badCallback, mon, monOk, isopen, startOK, 
                            pendingSend, stack, cg, lid, myL, g_, g_c, g >>

k3(self) == /\ pc[self] = "k3"
            /\ muW = 0 /\ muR = 0
            /\ muW' = self
            /\ muWait' = muWait - 1
            /\ pc' = [pc EXCEPT ![self] = "k4"]
            /\ UNCHANGED << muR, hasProc, listener, gen, stopReq, stopAck, 
                            killReq, killAck, alive, spawned, pipe, emitted, 
                            nextL, stopped, calls, lastErr, cbActive, 
                            badCallback, mon, monOk, isopen, startOK, 
                            pendingSend, stack, cg, lid, myL, g_, g_c, g >>

k4(self) == /\ pc[self] = "k4"
            /\ hasProc' = FALSE
            /\ monOk' = (monOk /\ MEnabled(mon, "killed"))
            /\ mon' = MStep(mon, "killed")
            /\ muW' = 0
            /\ pc' = [pc EXCEPT ![self] = "k5"]
            /\ UNCHANGED << muR, muWait, listener, gen, stopReq, stopAck, 
                            killReq, killAck, alive, spawned, pipe, emitted, 
                            nextL, stopped, calls, lastErr, cbActive, 
                            badCallback, isopen, startOK, pendingSend, stack, 
                            cg, lid, myL, g_, g_c, g >>

k5(self) == /\ pc[self] = "k5"
            /\ killAck[g_c[self]] = 0
            /\ killAck' = [killAck EXCEPT ![g_c[self]] = 1]
            /\ pc' = [pc EXCEPT ![self] = "kdone"]
            /\ UNCHANGED << muW, muR, muWait, hasProc, listener, gen, stopReq, 
                            stopAck, killReq, alive, spawned, pipe, emitted, 
                            nextL, stopped, calls, lastErr, cbActive, 
                            badCallback, mon, monOk, isopen, startOK, 
                            pendingSend, stack, cg, lid, myL, g_, g_c, g >>

k6(self) == /\ pc[self] = "k6"
            /\ muWait' = muWait + 1
            /\ pc' = [pc EXCEPT ![self] = "k7"]
            /\ UNCHANGED << muW, muR, hasProc, listener, gen, stopReq, stopAck, 
                            killReq, killAck, alive, spawned, pipe, emitted, 
                            nextL, stopped, calls, lastErr, cbActive, 
                            badCallback, mon, monOk, isopen, startOK, 
                            pendingSend, stack, cg, lid, myL, g_, g_c, g >>

k7(self) == /\ pc[self] = "k7"
            /\ muW = 0 /\ muR = 0
            /\ muW' = self
            /\ muWait' = muWait - 1
            /\ pc' = [pc EXCEPT ![self] = "k8"]
            /\ UNCHANGED << muR, hasProc, listener, gen, stopReq, stopAck, 
                            killReq, killAck, alive, spawned, pipe, emitted, 
                            nextL, stopped, calls, lastErr, cbActive, 
                            badCallback, mon, monOk, isopen, startOK, 
                            pendingSend, stack, cg, lid, myL, g_, g_c, g >>

k8(self) == /\ pc[self] = "k8"
            /\ listener' = 0
            /\ monOk' = (monOk /\ MEnabled(mon, "listener-cleared"))
            /\ mon' = MStep(mon, "listener-cleared")
            /\ muW' = 0
            /\ pc' = [pc EXCEPT ![self] = "k9"]
            /\ UNCHANGED << muR, muWait, hasProc, gen, stopReq, stopAck, 
                            killReq, killAck, alive, spawned, pipe, emitted, 
                            nextL, stopped, calls, lastErr, cbActive, 
                            badCallback, isopen, startOK, pendingSend, stack, 
                            cg, lid, myL, g_, g_c, g >>

k9(self) == /\ pc[self] = "k9"
            /\ stopAck[g_c[self]] = 0
            /\ stopAck' = [stopAck EXCEPT ![g_c[self]] = 1]
            /\ pc' = [pc EXCEPT ![self] = "k1"]
            /\ UNCHANGED << muW, muR, muWait, hasProc, listener, gen, stopReq, 
                            killReq, killAck, alive, spawned, pipe, emitted, 
                            nextL, stopped, calls, lastErr, cbActive, 
                            badCallback, mon, monOk, isopen, startOK, 
                            pendingSend, stack, cg, lid, myL, g_, g_c, g >>

kdone(self) == /\ pc[self] = "kdone"
               /\ TRUE
               /\ pc' = [pc EXCEPT ![self] = "Done"]
               /\ UNCHANGED << muW, muR, muWait, hasProc, listener, gen, 
                               stopReq, stopAck, killReq, killAck, alive, 
                               spawned, pipe, emitted, nextL, stopped, calls, 
                               lastErr, cbActive, badCallback, mon, monOk, 
                               isopen, startOK, pendingSend, stack, cg, lid, 
                               myL, g_, g_c, g >>

control(self) == k0(self) \/ k1(self) \/ k2(self) \/ k3(self) \/ k4(self)
                    \/ k5(self) \/ k6(self) \/ k7(self) \/ k8(self)
                    \/ k9(self) \/ kdone(self)

h1(self) == /\ pc[self] = "h1"
            /\ IF emitted < MaxLines
                  THEN /\ alive[g[self]]
                       /\ pipe' = [pipe EXCEPT ![g[self]] = pipe[g[self]] + 1]
                       /\ emitted' = emitted + 1
                       /\ pc' = [pc EXCEPT ![self] = "h1"]
                  ELSE /\ pc' = [pc EXCEPT ![self] = "Done"]
                       /\ UNCHANGED << pipe, emitted >>
            /\ UNCHANGED << muW, muR, muWait, hasProc, listener, gen, stopReq, 
                            stopAck, killReq, killAck, alive, spawned, nextL, 
                            stopped, calls, lastErr, cbActive, badCallback, 
                            mon, monOk, isopen, startOK, pendingSend, stack, 
                            cg, lid, myL, g_, g_c, g >>

helper(self) == h1(self)

Next == client
           \/ (\E self \in ProcSet:  \/ IsOpenP(self) \/ FireCmd(self)
                                     \/ CloseP(self) \/ StopP(self))
           \/ (\E self \in {10, 11}: asyncsend(self))
           \/ (\E self \in {20, 21}: reader(self))
           \/ (\E self \in {30, 31}: control(self))
           \/ (\E self \in {40, 41}: helper(self))

Spec == Init /\ [][Next]_vars

\* END TRANSLATION

MutexOk == /\ muR >= 0 /\ (muW # 0 => muR = 0)
NoCallbackAfterStop == ~badCallback
\* ... and a callback in progress belongs to a listener whose stop function has not returned: "never called again" is read as
\* "no listener code runs once stop() has returned" (stop waits for a delivery in flight)
NoCallbackRunningAfterStop == cbActive # 0 => cbActive \notin stopped
\* the only states without a successor are those where the client has finished its calls
ClientDone == pc[1] = "Done"
\* the model's lock-protected steps, in lock order, are a behaviour of the abstract hook-event monitor McatEvents --
\* the same monitor against which the hook events recorded from the REAL driver are validated (Trace_McatEvents)
RefinesMonitor == monOk
NoDeadlockWhileCalling == (~ENABLED Next) => ClientDone
=============================================================================
