------------------------------ MODULE MC_Tempo ------------------------------
(* Model check of the tempo-map specification (C11) over ALL small maps: ticks {0,1,2,5}, uspq {0,1,500000,2^24-1},
   res {1,96}, up to MaxLen tempo events in file order (non-decreasing ticks), query ticks 0..7.
     EqDef      the segment form equals the definition (tick-by-tick integral)
     Mono       Num is non-decreasing in the tick and grows by exactly TempoAt(t) per tick
     Split      inserting a tempo event that repeats the tempo in force does not change Num (splitting a segment)
     EqualTick  of two events on one tick only the later one matters
     BigAgree   the BigNat forms (Num, Segs) equal the native ones
     Tolerance  an implementation that truncates or rounds up each segment to whole us is accepted by TpWithin,
                the exact quotient is accepted, and an answer more than one us per segment off is rejected
     NatAgree   BigNat Add/Sub/Mul/Cmp/Min/OfDec agree with TLC's integers on boundary operands            *)
EXTENDS Tempo, TLC
CONSTANT MaxLen
VARIABLES kind, m, t, res, a, b

Ticks == {0, 1, 2, 5}
Uspqs == {0, 1, 500000, 16777215}
Entry == [t : Ticks, u : Uspqs]
Maps  == {s \in UNION {[1..k -> Entry] : k \in 0..MaxLen} : \A i \in 1..(Len(s) - 1) : s[i].t <= s[i + 1].t}
Nats  == {0, 1, 2, 9, 10, 99, 32767, 32768, 32769, 46340, 65535, 65536, 1000000, 16777215, 1073741823}

Big(s) == [i \in 1..Len(s) |-> [t |-> BnOfNat(s[i].t), u |-> s[i].u]]
DecOf(n) == LET RECURSIVE D(_)
                D(x) == IF x < 10 THEN <<x>> ELSE Append(D(x \div 10), x % 10)
            IN D(n)

\* 120 BPM = 15 * 2^3 = 480 * 2^-2, res 96, 96 ticks = one quarter = 500 000 000 ns
Sanity ==
  /\ TpDurWithin(BnOfNat(500000000), BnOfNat(15), 3, 96, BnOfNat(96), 1)
  /\ TpDurWithin(BnOfNat(500000001), BnOfNat(15), 3, 96, BnOfNat(96), 1)
  /\ ~TpDurWithin(BnOfNat(500000002), BnOfNat(15), 3, 96, BnOfNat(96), 1)
  /\ TpDurWithin(BnOfNat(499999999), BnOfNat(480), -2, 96, BnOfNat(96), 1)
  /\ ~TpDurWithin(BnOfNat(499999998), BnOfNat(480), -2, 96, BnOfNat(96), 1)
  /\ TpInvDomain(BnOfNat(15), 3, 96, BnOfNat(96))
  /\ TpInvDomain(BnOfNat(480), -2, 96, BnOfNat(96))
  \* 120 BPM at res 96 = 192 ticks/s; 2^40 us = 1 099 511 627 776 us = 211 106 232.5 ticks: domain ends there
  /\ TpInvDomain(BnOfNat(15), 3, 96, BnOfDec(<<2,1,1,1,0,6,2,3,2>>))
  /\ ~TpInvDomain(BnOfNat(15), 3, 96, BnOfDec(<<2,1,1,1,0,6,2,3,3>>))
  \* tick rate: res * bpm / 60 < 10^7: bpm 600000 (= 600000 * 2^0), res 999 ok, res 1000 not
  /\ TpInvDomain(BnOfNat(600000), 0, 999, BnOfNat(1))
  /\ ~TpInvDomain(BnOfNat(600000), 0, 1000, BnOfNat(1))
  /\ BnPow2(40) = BnOfDec(<<1,0,9,9,5,1,1,6,2,7,7,7,6>>)
  /\ Tp60e9 = BnOfDec(<<6,0,0,0,0,0,0,0,0,0,0>>)

\* two levels so that TLC's workers share the maps (successors of the 16 + 15 first-level states)
Init == Sanity /\ kind = "init" /\ m = <<>> /\ t = 0 /\ res = 1 /\ a = 0 /\ b = 0
Next == \/ /\ kind = "init"
           /\ \/ kind' = "premap" /\ t' \in 0..7 /\ res' \in {1, 96} /\ UNCHANGED <<m, a, b>>
              \/ kind' = "prenat" /\ a' \in Nats /\ UNCHANGED <<m, t, res, b>>
        \/ kind = "premap" /\ kind' = "map" /\ m' \in Maps /\ UNCHANGED <<t, res, a, b>>
        \/ kind = "prenat" /\ kind' = "nat" /\ b' \in Nats /\ UNCHANGED <<m, t, res, a>>

IsMap == kind = "map" => TpIsMapI(m) /\ TpIsMap(Big(m))
EqDef == kind = "map" => TpNumI(m, t) = TpNumDefI(m, t)
Mono  == kind = "map" => /\ TpNumI(m, t + 1) = TpNumI(m, t) + TpTempoAtI(m, t)
                         /\ TpNumI(m, t) <= TpNumI(m, t + 1)

InsAt(s, p, e) == SubSeq(s, 1, p) \o <<e>> \o SubSeq(s, p + 1, Len(s))
DelAt(s, p)    == SubSeq(s, 1, p - 1) \o SubSeq(s, p + 1, Len(s))
Split == kind = "map" =>
  \A p \in 0..Len(m) : \A T \in 0..6 :
     ((p = 0 \/ m[p].t <= T) /\ (p = Len(m) \/ T <= m[p + 1].t))
        => TpNumI(InsAt(m, p, [t |-> T, u |-> TpUspqI(m, p)]), t) = TpNumI(m, t)
EqualTick == kind = "map" =>
  \A p \in 1..(Len(m) - 1) : m[p].t = m[p + 1].t => TpNumI(DelAt(m, p), t) = TpNumI(m, t)

BigAgree == kind = "map" =>
  /\ TpNum(Big(m), BnOfNat(t)) = BnOfNat(TpNumI(m, t))
  /\ TpSegs(Big(m), BnOfNat(t)) = TpSegsI(m, t)

\* implementations that turn every non-empty segment into whole microseconds (down / up) and add them
RECURSIVE SumSeg(_, _, _, _, _)
SumSeg(s, tt, r, i, up) ==
  IF i > Len(s) THEN 0
  ELSE LET n == TpUspqI(s, i) * (TpTickI(s, i + 1, tt) - TpTickI(s, i, tt))
       IN (IF up THEN (n + r - 1) \div r ELSE n \div r) + SumSeg(s, tt, r, i + 1, up)
NonEmpty(s, tt) == Cardinality({i \in 0..Len(s) : TpTickI(s, i + 1, tt) > TpTickI(s, i, tt)})
Tolerance == kind = "map" =>
  LET n == TpNumI(m, t)  sg == TpSegsI(m, t)  N == BnOfNat(n)
  IN /\ NonEmpty(m, t) = sg
     /\ TpWithin(BnOfNat(SumSeg(m, t, res, 0, FALSE)), res, N, sg)
     /\ TpWithin(BnOfNat(SumSeg(m, t, res, 0, TRUE)), res, N, sg)
     /\ TpWithin(BnOfNat(n \div res), res, N, sg)
     /\ ~TpWithin(BnOfNat(n \div res + sg + 1), res, N, sg)
     /\ (n \div res >= sg + 1 => ~TpWithin(BnOfNat(n \div res - sg - 1), res, N, sg))
     /\ TpBelowPow2us(N, res, 41)

NatAgree == kind = "nat" =>
  LET A == BnOfNat(a)  B == BnOfNat(b) IN
  /\ BnIsCanon(A) /\ BnIsCanon(B)
  /\ (a < 1073741824 - b => BnAdd(A, B) = BnOfNat(a + b))
  /\ (a >= b => BnSub(A, B) = BnOfNat(a - b))
  /\ BnAbsDiff(A, B) = BnOfNat(IF a >= b THEN a - b ELSE b - a)
  /\ (a = 0 \/ b <= 2147483647 \div a => BnMul(A, B) = BnOfNat(a * b))
  /\ (b < 32768 /\ (a = 0 \/ b <= 2147483647 \div a) => BnMulSmall(A, b) = BnOfNat(a * b))
  /\ BnCmp(A, B) = (IF a < b THEN -1 ELSE IF a > b THEN 1 ELSE 0)
  /\ BnMin(A, B) = BnOfNat(IF a <= b THEN a ELSE b)
  /\ BnOfDec(DecOf(a)) = A /\ BnIsDec(DecOf(a))
  /\ (BnIsSmall(A) => BnToNat(A) = a)
  \* beyond 32 bits: (a*b)*b = a*(b*b), (a+b)*b = a*b + b*b, (a*b + a) - a*b = a
  /\ BnMul(BnMul(A, B), B) = BnMul(A, BnMul(B, B))
  /\ BnMul(BnAdd(A, B), B) = BnAdd(BnMul(A, B), BnMul(B, B))
  /\ BnSub(BnAdd(BnMul(A, B), A), BnMul(A, B)) = A
  /\ BnIsCanon(BnMul(BnMul(A, B), B))
=============================================================================
