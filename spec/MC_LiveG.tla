----------------------------- MODULE MC_LiveG -----------------------------
(* The receiver alone (no twin), as a labelled transition system for binding G: every edge
   Byte(b) of the dumped state graph is an input for the real decoder, the target state's `out`
   is the output the implementation must produce for it (listener level, after the option filter). *)
EXTENDS LiveDecoder, TLC
CONSTANTS Alphabet, Caps
VARIABLES cfg, s, out
vars == <<cfg, s, out>>
Init == /\ cfg \in [cap : Caps, sysex : BOOLEAN, as : BOOLEAN, tc : BOOLEAN]
        /\ s = Init0 /\ out = <<>>
Byte(b) == LET r == Step(cfg, s, b, 0)
               f == Filter(cfg, r.out)
           IN s' = r.s /\ out' = [i \in 1..Len(f) |-> f[i].b] /\ UNCHANGED cfg
Next == \E b \in Alphabet : Byte(b)
Spec == Init /\ [][Next]_vars
OutWellFormed == \A i \in 1..Len(out) : WellFormed(cfg, out[i])
=============================================================================
