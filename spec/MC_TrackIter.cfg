CONSTANTS MaxTracks = 2  MaxEv = 2  MaxMap = 4
INIT Init
NEXT Next
INVARIANTS StepIsClosedForm AcceptsOwn RejectsMutants Restriction SelectionLaw OnceEach LookupIsC11 LookupLaws ClosedSticks EmptyMeans
CHECK_DEADLOCK FALSE
