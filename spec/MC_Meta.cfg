INIT Init
NEXT Next
INVARIANTS LenLaw KeyLaw NamedLaw TimeSigLaw SeqNoLaw Bytes5Law FieldLaw RatioLaw BnLaw
CHECK_DEADLOCK FALSE
