INIT Init
NEXT Next
INVARIANTS TypeOK DomainExact CanonAccepted AcceptSound StdClass Recover Payload GmWell GmReaches
CHECK_DEADLOCK FALSE
