\* thorough: <= 3 tracks x <= 3 events, ticks <<0,0,1>> and <<1,1,1>>
\* the trace acceptor (Player!Via) as next-state relation: accepts only stable merges
CONSTANTS
  NT = 3
  NE = 3
  MaxNow = 1
  Kinds <- KindsNoB
  TimePats <- Pats3q
  Sels <- SelAll
  PortMaps <- PMmixed
INIT Init
NEXT NextJ
INVARIANTS AllWellFormed SentOk Complete
CHECK_DEADLOCK FALSE
