------------------------------ MODULE MC_SmfGen ------------------------------
(* C02 on the model: a GENERATOR of spec-valid SMF 1.0 files, written alternative by alternative from the
   format grammar and separately from the decoder, which records the content it intends.  TLC checks for every
   generated file that SmfParse!Decode accepts it and returns exactly the intended content (grammar is
   inside the decoder's language, the decoder resolves running status / padded VLQs / alien chunks as
   intended) and that no proper prefix of a complete file is itself accepted as a complete file with other
   content.  The complete files of this state space are also exported (tlc -dump) and fed to the real
   reader (binding G for C02).                                                                          *)
EXTENDS SmfParse, TLC
CONSTANTS MaxTracks, MaxEvents, MaxAliens
VARIABLES bytes,     \* header and all finished chunks
          body,      \* body of the track chunk under construction
          intended,  \* tracks finished so far (their intended content)
          cur,       \* events of the current track
          rs,        \* status a following channel event may elide (0 = none)
          hdr,       \* [fmt, ntr, div]
          inTrack, nev, nal, padded

vars == <<bytes, body, intended, cur, rs, hdr, inTrack, nev, nal, padded>>

GenHeader(h) == MThd \o <<0, 0, 0, 6>> \o BE16(h.fmt) \o BE16(h.ntr) \o h.div
Chunk(typ, b) == typ \o BE32(Len(b)) \o b

Init == /\ hdr \in [fmt : 0..2, ntr : 1..MaxTracks, div : { <<0, 96>>, <<231, 40>> }]
        /\ (hdr.fmt = 0 => hdr.ntr = 1)
        /\ bytes = GenHeader(hdr) /\ body = <<>> /\ intended = <<>> /\ cur = <<>> /\ rs = 0
        /\ inTrack = FALSE /\ nev = 0 /\ nal = 0 /\ padded = FALSE

AlienBodies == { <<>>, <<1>>, MTrk \o <<0, 0, 0, 4>> }
Alien(b) == /\ ~inTrack /\ nal < MaxAliens
            /\ bytes' = bytes \o Chunk(<<88, 77, 105, 100>>, b) /\ nal' = nal + 1
            /\ UNCHANGED <<body, intended, cur, rs, hdr, inTrack, nev, padded>>

StartTrack == /\ ~inTrack /\ Len(intended) < hdr.ntr
              /\ inTrack' = TRUE /\ body' = <<>> /\ cur' = <<>> /\ rs' = 0
              /\ UNCHANGED <<bytes, intended, hdr, nev, nal, padded>>

\* delta alternatives: digits with their (possibly padded) encoding
DeltaAlts == { [d |-> <<0>>, b |-> <<0>>], [d |-> <<127>>, b |-> <<127>>], [d |-> <<1, 0>>, b |-> <<129, 0>>],
               [d |-> <<0>>, b |-> <<128, 0>>], [d |-> <<5>>, b |-> <<128, 128, 128, 5>>] }
\* event alternatives: [m |-> intended message, b |-> bytes on disk, rs |-> status that may be elided afterwards]
EventAlts(r) ==
  { [m |-> <<144, 60, 100>>, b |-> <<144, 60, 100>>, rs |-> 144],
    [m |-> <<145, 1, 0>>,    b |-> <<145, 1, 0>>,    rs |-> 145],
    [m |-> <<192, 5>>,       b |-> <<192, 5>>,       rs |-> 192],
    [m |-> <<255, 1, 0>>,    b |-> <<255, 1, 0>>,    rs |-> 0],
    [m |-> <<255, 96, 1, 200>>, b |-> <<255, 96, 129 - 128, 200>>, rs |-> 0],
    [m |-> <<255, 1, 1, 65>>, b |-> <<255, 1, 128, 1, 65>>, rs |-> 0],            \* padded length
    [m |-> <<240, 1, 247>>,  b |-> <<240, 2, 1, 247>>, rs |-> 0],
    [m |-> <<240, 1>>,       b |-> <<240, 1, 1>>,    rs |-> 0],                    \* sysex without F7
    [m |-> <<247, 2, 247>>,  b |-> <<247, 2, 2, 247>>, rs |-> 0],                  \* continuation
    [m |-> <<247>>,          b |-> <<247, 0>>,       rs |-> 0] }
  \cup (IF r = 144 THEN { [m |-> <<144, 61, 0>>, b |-> <<61, 0>>, rs |-> 144] } ELSE {})   \* running status, 2 data
  \cup (IF r = 145 THEN { [m |-> <<145, 2, 3>>, b |-> <<2, 3>>, rs |-> 145] } ELSE {})
  \cup (IF r = 192 THEN { [m |-> <<192, 6>>, b |-> <<6>>, rs |-> 192] } ELSE {})            \* running status, 1 data

Event(dl, ev) == /\ inTrack /\ nev < MaxEvents
                 /\ body' = body \o dl.b \o ev.b
                 /\ cur' = Append(cur, [d |-> dl.d, m |-> ev.m])
                 /\ rs' = ev.rs /\ nev' = nev + 1
                 /\ padded' = (padded \/ dl.b # VlqBytes(dl.d) \/ ev.b = <<255, 1, 128, 1, 65>>)
                 /\ UNCHANGED <<bytes, intended, hdr, inTrack, nal>>

GenEndTrack(dl) == /\ inTrack
                /\ bytes' = bytes \o Chunk(MTrk, body \o dl.b \o <<255, 47, 0>>)
                /\ intended' = Append(intended, Append(cur, [d |-> dl.d, m |-> EOTMsg]))
                /\ padded' = (padded \/ dl.b # VlqBytes(dl.d))
                /\ inTrack' = FALSE /\ body' = <<>> /\ cur' = <<>> /\ rs' = 0
                /\ UNCHANGED <<hdr, nev, nal>>

Next == \/ \E b \in AlienBodies : Alien(b)
        \/ StartTrack
        \* deltas and events are encoded independently: every event alternative with the plain delta,
        \* every delta alternative with one event
        \/ \E ev \in EventAlts(rs) : Event([d |-> <<0>>, b |-> <<0>>], ev)
        \/ \E dl \in DeltaAlts : Event(dl, [m |-> <<144, 60, 100>>, b |-> <<144, 60, 100>>, rs |-> 144])
        \/ \E dl \in {x \in DeltaAlts : x.d # <<5>>} : GenEndTrack(dl)
Spec == Init /\ [][Next]_vars

Complete == ~inTrack /\ Len(intended) = hdr.ntr

DecodesAsIntended ==
  Complete => LET r == Decode(bytes) IN
     /\ r.kind = "value" /\ r.fmt = hdr.fmt /\ r.div = hdr.div /\ r.tracks = intended
     /\ r.canon = (~padded /\ nal = 0)
\* an incomplete file is never taken for a complete one
IncompleteRejected == ~Complete => Decode(bytes).kind = "error"
=============================================================================
