------------------------------ MODULE Registry ------------------------------
(* X05 (extension): the driver registry, port lookup and the session helpers that open ports, including ports
   and drivers that FAIL.  Written from the doc comments of gitlab.com/gomidi/midi/v2 (drivers/driver.go,
   drivers/port.go, port.go, io.go, listen.go, smf/track.go, smf/smf.go) and the drivers.Port contract, not from
   the code.  What a user of that API rightly relies on:

   R1 registry   drivers.Register(d) enters d under its name d.String(); registering a name again replaces the
                 driver of that name, the registration ORDER of names is kept.  drivers.Get() is nil while nothing
                 is registered and otherwise "the first available driver": the driver registered under the name
                 that was registered first.  drivers.Close() / midi.CloseDriver() call Close of THAT driver only
                 (nothing if none).
   R2 listing    drivers.Ins() / Outs(): the listing of the first driver, in the driver's order; an error when no
                 driver is registered or the driver's listing fails.  midi.GetInPorts() / GetOutPorts(): the same
                 listing, empty in the error cases (they have no error result).  InPorts.String / OutPorts.String
                 mention every listed port's name.
   R3 lookup     InByNumber(n) / midi.InPort(n) (OutByNumber / OutPort): the FIRST port of the listing whose
                 Number() is n; InByName(q) / OutByName(q): the FIRST port of the listing whose name CONTAINS q.
                 The found port is OPENED and returned.  A negative number and an empty name never find a port.
                 An error, and no change of any port or of the registry, when there is no driver, the listing
                 fails, no port matches or the port's Open fails.
                 midi.FindInPort(q) / FindOutPort(q): the same port as InByName(q) / OutByName(q), returned CLOSED.
   R4 sessions   midi.SendTo(out): opens the port if it is not open; error iff that Open fails; the returned
                 function hands msg.Bytes() to the port's Send and returns Send's error.
                 midi.ListenTo(in, recv), smf.Track.RecordFrom(in, ..), smf.SMF.RecordFrom(in, bpm),
                 smf.RecordTo(in, bpm, file): open the port if it is not open; return an error iff that Open or
                 the port's Listen fails -- as a RETURNED error (no panic, no hang) and then no listener is left
                 installed; without error the port is open, the listener is installed, and every channel message
                 the port delivers until stop reaches recv / the recorded track (RecordTo: the file written by stop).
   R5 totality   every call returns in every state (a panic or a hang is never acceptable).

   Left open on purpose (undocumented): error texts and which error; the port value returned ALONGSIDE an error;
   whether a port that the helper opened itself is left open or closed again when Listen then fails; what
   SMF.RecordFrom does to the SMF on its error path; recorded deltas / tempo (C13); calling Open on an open port.

   The driver below the API is abstract: a configuration  c == [lay, flt]
     lay   sequence of driver instances [name, ins, outs]; ins / outs: sequences of [num, name] (name = byte sequence)
     flt   set of faults [f |-> "list" | "open" | "listen" | "send", p |-> port]   ("list": p = [k, d, i |-> 0])
   and behaves like the drivers.Port contract says: Open on an open port is a no-op without error, Close likewise,
   Open fails iff the fault is set (the port stays closed), closing an in port ends its listening, Listen needs an
   open port, Send on a closed port is an error, Driver.Close closes all ports of that driver.
   A port is [k |-> "in" | "out", d |-> driver instance, i |-> position in the listing].
   (Part M of X05 -- the real process-backed driver midicatdrv below the same registry -- is spec/RegistryMidicat.tla.) *)
EXTENDS Integers, Sequences, FiniteSets

RgNoPort == [k |-> "none", d |-> 0, i |-> 0]
RgPort(k, d, i) == [k |-> k, d |-> d, i |-> i]

\* substring: q occurs in s (the empty q occurs everywhere -- the lookup rule excludes it explicitly)
RgContains(s, q) == \E a \in 0..(Len(s) - Len(q)) : SubSeq(s, a + 1, a + Len(q)) = q

RgPorts(c, k, d)   == IF k = "in" THEN c.lay[d].ins ELSE c.lay[d].outs
RgListing(c, k, d) == [i \in 1..Len(RgPorts(c, k, d)) |-> RgPort(k, d, i)]
RgIsPort(c, p)     == /\ p.k \in {"in", "out"} /\ p.d \in 1..Len(c.lay) /\ p.i \in 1..Len(RgPorts(c, p.k, p.d))
RgAllPorts(c)      == UNION { {RgPort(k, d, i) : i \in 1..Len(RgPorts(c, k, d))} : k \in {"in", "out"}, d \in 1..Len(c.lay) }
RgFault(c, f, p)   == [f |-> f, p |-> p] \in c.flt
RgListFails(c, k, d) == RgFault(c, "list", RgPort(k, d, 0))

\* ---- state
\* reg   sequence of [name, d]: names in the order of their first registration, d = the instance now registered under it
\* open  set of open ports
\* hs    set of listening handles [p, id, kind, cnt, act]: kind = listen | track | smf | file; cnt = channel messages
\*       received so far; act = the listener is still installed in the port (FALSE after the port was closed)
\* snd   set of out ports for which SendTo handed out a send function
\* nl    number of listeners started so far (listener ids)
Rg0 == [reg |-> <<>>, open |-> {}, hs |-> {}, snd |-> {}, nl |-> 0]

RgFirst(s) == IF s.reg = <<>> THEN 0 ELSE s.reg[1].d

RgRegister(c, reg, d) ==
  LET nm == c.lay[d].name
      at == {i \in 1..Len(reg) : reg[i].name = nm}
  IN IF at = {} THEN Append(reg, [name |-> nm, d |-> d])
     ELSE [i \in 1..Len(reg) |-> IF i \in at THEN [name |-> nm, d |-> d] ELSE reg[i]]

\* closing a set of ports: they are not open any more and their listeners are gone (the handles stay with the user)
RgCloseAll(s, P) == [s EXCEPT !.open = @ \ P,
                              !.hs = {IF h.p \in P THEN [h EXCEPT !.act = FALSE] ELSE h : h \in @}]

RgHandle(s, p) == {h \in s.hs : h.p = p}

\* ---- results: what the caller / the environment sees of one call
\* ret   "nil" | "err"                    port  the port returned (only without error)     list  the listing returned
\* drv   the driver Get returned (0 nil)  closed  instances whose Close ran in this call    dlv   id of the ListenTo listener called (0 none)
\* nrec  Stop: messages the stopped listener / recording received                         sent  byte strings the port's Send accepted
RgR0 == [ret |-> "nil", port |-> RgNoPort, list |-> <<>>, drv |-> 0, closed |-> <<>>, dlv |-> 0, nrec |-> 0, sent |-> <<>>]
RgErr(s) == [s |-> s, res |-> [RgR0 EXCEPT !.ret = "err"]]

\* ---- R3
RgMatches(pc, by, n, q) == IF by = "num" THEN n >= 0 /\ pc.num = n ELSE q # <<>> /\ RgContains(pc.name, q)
RgFind(ports, by, n, q) ==     \* position of the first match, 0 if none
  LET M == {i \in 1..Len(ports) : RgMatches(ports[i], by, n, q)}
  IN IF M = {} THEN 0 ELSE CHOOSE i \in M : \A j \in M : i <= j

RgLookup(c, s, k, by, n, q, closed) ==
  LET d == RgFirst(s) IN
  IF d = 0 THEN RgErr(s)
  ELSE IF RgListFails(c, k, d) THEN RgErr(s)
  ELSE LET i == RgFind(RgPorts(c, k, d), by, n, q) IN
       IF i = 0 THEN RgErr(s)
       ELSE LET p == RgPort(k, d, i) IN
            IF p \notin s.open /\ RgFault(c, "open", p) THEN RgErr(s)
            ELSE [s |-> IF closed THEN RgCloseAll(s, {p}) ELSE [s EXCEPT !.open = @ \cup {p}],
                  res |-> [RgR0 EXCEPT !.port = p]]

RgList(c, s, k, witherr) ==
  LET d == RgFirst(s) IN
  IF d = 0 \/ (d # 0 /\ RgListFails(c, k, d)) THEN (IF witherr THEN RgErr(s) ELSE [s |-> s, res |-> RgR0])
  ELSE [s |-> s, res |-> [RgR0 EXCEPT !.list = RgListing(c, k, d)]]

\* ---- R4
RgStartListening(c, s, p, kind) ==     \* a SET of outcomes: the specification leaves one freedom
  IF p \notin s.open /\ RgFault(c, "open", p) THEN {RgErr(s)}
  ELSE IF RgFault(c, "listen", p)
       THEN {RgErr([s EXCEPT !.open = @ \cup {p}])} \cup (IF p \in s.open THEN {} ELSE {RgErr(s)})
  ELSE {[s |-> [s EXCEPT !.open = @ \cup {p}, !.nl = @ + 1,
                         !.hs = @ \cup {[p |-> p, id |-> s.nl + 1, kind |-> kind, cnt |-> 0, act |-> TRUE]}],
         res |-> RgR0]}

RgKindOf(fn) == CASE fn = "ListenTo" -> "listen" [] fn = "TrackRecordFrom" -> "track"
                  [] fn = "SmfRecordFrom" -> "smf" [] fn = "RecordTo" -> "file" [] OTHER -> "?"

RgLookupFns == {"InByNumber", "InByName", "OutByNumber", "OutByName", "InPort", "OutPort", "FindInPort", "FindOutPort"}
RgListenFns == {"ListenTo", "TrackRecordFrom", "SmfRecordFrom", "RecordTo"}
RgFns == RgLookupFns \cup RgListenFns \cup
         {"Register", "Get", "DriversClose", "CloseDriver", "Ins", "Outs", "GetInPorts", "GetOutPorts",
          "SendTo", "Send", "Stop", "Inject", "PortClose"}

\* call == [fn, d, p, n, q, msg]   (d: Register; p: the port handle the user passes; n / q: lookup arguments; msg: Send)
RgCallOk(c, call) ==         \* well-formed with respect to the configuration (else: generator bug)
  /\ call.fn \in RgFns
  /\ (call.fn = "Register" => call.d \in 1..Len(c.lay))
  /\ (call.fn \in RgListenFns \cup {"Stop", "Inject"} => RgIsPort(c, call.p) /\ call.p.k = "in")
  /\ (call.fn \in {"SendTo", "Send"} => RgIsPort(c, call.p) /\ call.p.k = "out")
  /\ (call.fn = "PortClose" => RgIsPort(c, call.p))

RgEnabled(c, s, call) ==     \* protocol: what a user can / may do in this state
  /\ RgCallOk(c, call)
  /\ (call.fn \in RgListenFns => RgHandle(s, call.p) = {})    \* one listener per port; stop it before the next
  /\ (call.fn = "Stop" => RgHandle(s, call.p) # {})
  /\ (call.fn = "Send" => call.p \in s.snd)

RgOutcomes(c, s, call) ==
  LET fn == call.fn IN
  CASE fn = "Register" -> {[s |-> [s EXCEPT !.reg = RgRegister(c, s.reg, call.d)], res |-> RgR0]}
    [] fn = "Get"      -> {[s |-> s, res |-> [RgR0 EXCEPT !.drv = RgFirst(s)]]}
    [] fn \in {"DriversClose", "CloseDriver"} ->
         LET d == RgFirst(s) IN
         IF d = 0 THEN {[s |-> s, res |-> RgR0]}
         ELSE {[s |-> RgCloseAll(s, {p \in RgAllPorts(c) : p.d = d}), res |-> [RgR0 EXCEPT !.closed = <<d>>]]}
    [] fn = "Ins"         -> {RgList(c, s, "in", TRUE)}
    [] fn = "Outs"        -> {RgList(c, s, "out", TRUE)}
    [] fn = "GetInPorts"  -> {RgList(c, s, "in", FALSE)}
    [] fn = "GetOutPorts" -> {RgList(c, s, "out", FALSE)}
    [] fn \in {"InByNumber", "InPort"}   -> {RgLookup(c, s, "in", "num", call.n, <<>>, FALSE)}
    [] fn \in {"OutByNumber", "OutPort"} -> {RgLookup(c, s, "out", "num", call.n, <<>>, FALSE)}
    [] fn = "InByName"    -> {RgLookup(c, s, "in", "name", -1, call.q, FALSE)}
    [] fn = "OutByName"   -> {RgLookup(c, s, "out", "name", -1, call.q, FALSE)}
    [] fn = "FindInPort"  -> {RgLookup(c, s, "in", "name", -1, call.q, TRUE)}
    [] fn = "FindOutPort" -> {RgLookup(c, s, "out", "name", -1, call.q, TRUE)}
    [] fn = "SendTo" ->
         IF call.p \notin s.open /\ RgFault(c, "open", call.p) THEN {RgErr(s)}
         ELSE {[s |-> [s EXCEPT !.open = @ \cup {call.p}, !.snd = @ \cup {call.p}], res |-> RgR0]}
    [] fn = "Send" ->
         IF call.p \in s.open /\ ~RgFault(c, "send", call.p)
         THEN {[s |-> s, res |-> [RgR0 EXCEPT !.sent = <<call.msg>>]]}
         ELSE {RgErr(s)}
    [] fn \in RgListenFns -> RgStartListening(c, s, call.p, RgKindOf(fn))
    [] fn = "Stop" ->
         LET h == CHOOSE x \in RgHandle(s, call.p) : TRUE
         IN {[s |-> [s EXCEPT !.hs = @ \ {h}], res |-> [RgR0 EXCEPT !.nrec = h.cnt]]}
    [] fn = "Inject" ->       \* the environment: the device behind the in port delivers one channel message
         LET H == {h \in RgHandle(s, call.p) : h.act} IN
         IF H = {} THEN {[s |-> s, res |-> RgR0]}
         ELSE LET h == CHOOSE x \in H : TRUE
              IN {[s |-> [s EXCEPT !.hs = (@ \ {h}) \cup {[h EXCEPT !.cnt = @ + 1]}],
                   res |-> [RgR0 EXCEPT !.dlv = IF h.kind = "listen" THEN h.id ELSE 0]]}
    [] fn = "PortClose" -> {[s |-> RgCloseAll(s, {call.p}), res |-> RgR0]}

\* ---- what the environment can observe of a state
RgListening(s) == {h.p : h \in {x \in s.hs : x.act}}
RgObs(s) == [open |-> s.open, lis |-> RgListening(s), first |-> RgFirst(s)]

\* an observed result / observation pair is explained by an outcome
RgExplains(o, res, obs) == o.res = res /\ RgObs(o.s) = obs
=============================================================================
