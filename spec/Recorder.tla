------------------------------ MODULE Recorder ------------------------------
(* Recording a live stream into a track (C13, DESIGN Appendix C.6), written from the property text, the
   MIDI 1.0 receiver model (LiveDecoder) and the SMF 1.0 format (SmfParse / SmfWrite) -- not from
   smf/track.go.

   The recorder is a composition:
     bytes on the port --LiveDecoder!Deliver (listening WITHOUT options: no sysex, no active sensing, no
     timing clock, default buffer)--> listener-level messages with arrival stamps --keep channel messages
     --> tick conversion of the stamp differences at (bpm, res) --> Track (after an initial tempo event)
     --Close, SmfWrite--> file.

   Only DIFFERENCES of arrival stamps are meaningful: the origin of the driver's clock is unknown, so the
   delta of the first recorded message is unconstrained.

   Arithmetic: the tempo is a rational with two decimals, carried as integer hundredths `bpm100`;
   ticks = ms * res * bpm100 / 6 000 000 exactly.  TLC integers are 32 bit, so the quotient and remainder
   are computed by binary long multiplication (MulDiv), never forming the product.                      *)
EXTENDS LiveDecoder, SmfParse, SmfWrite

\* midi.ListenTo without options
RecCfg == [cap |-> 0, sysex |-> FALSE, as |-> FALSE, tc |-> FALSE]

\* domain of the property
ResOk(res)    == res \in 24..15360
BpmOk(bpm100) == bpm100 \in 2000..40000
MaxDelta == 268435455          \* 0FFFFFFF, the largest delta time an SMF can carry
MaxMs    == 16777215           \* horizon of one session on the virtual clock (keeps MulDiv below 2^31)

\* ---- what the listener of the recorder hears ---------------------------------------------------
\* chunks == << [dt |-> ms since the previous chunk, bytes |-> bytes sent in one piece] >>
\* result: the listener-level messages (LiveDecoder!Msg: b, lo, hi) stamped on a clock whose origin is
\* the (unknown) stamp base: the first chunk arrives at dt[1]
Heard(chunks) ==
  FoldLeft(LAMBDA acc, c : LET now == acc.now + c.dt
                               d   == Deliver(RecCfg, acc.s, c.bytes, now)
                           IN [s |-> d.s, now |-> now, out |-> acc.out \o d.out],
           [s |-> Init0, now |-> 0, out |-> <<>>], chunks).out

IsChanMsg(b) == Len(b) >= 1 /\ IsChanStatus(b[1])
\* the only messages that may enter a track
Kept(out) == SelectSeq(out, LAMBDA m : IsChanMsg(m.b))

\* ---- exact tick conversion ---------------------------------------------------------------------
\* [q, r] with v * a = q * d + r and 0 <= r < d.  Needs 2 * d + a < 2^31 and q < 2^31.
RECURSIVE MulDiv(_, _, _)
MulDiv(v, a, d) ==
  IF v = 0 THEN [q |-> 0, r |-> 0]
  ELSE LET p == MulDiv(v \div 2, a, d)
           t == 2 * p.r + (v % 2) * a
       IN [q |-> 2 * p.q + t \div d, r |-> t % d]

TickDen == 6000000
\* ticks of `ms` milliseconds at `bpm100`/100 quarter notes per minute and `res` ticks per quarter note
Ticks(ms, res, bpm100) == MulDiv(ms, res * bpm100, TickDen)

\* the integer x is within one of the rational qr.q + qr.r / d
Near(x, qr) == IF qr.r = 0 THEN x \in (qr.q - 1)..(qr.q + 1) ELSE x \in qr.q..(qr.q + 1)

\* rounding to the nearest integer (what the model recorder stores; ties upwards)
Nearest(qr, d) == IF 2 * qr.r >= d THEN qr.q + 1 ELSE qr.q

\* ---- the tempo event ---------------------------------------------------------------------------
\* FF 51 03 tt tt tt with tttttt = microseconds per quarter note = 60 000 000 / bpm = 6*10^9 / bpm100
UsPerQuarter(bpm100) == MulDiv(60000, 100000, bpm100)
TempoMsg(bpm100) == LET u == Nearest(UsPerQuarter(bpm100), bpm100)
                    IN <<255, 81, 3, u \div 65536, (u \div 256) % 256, u % 256>>
TempoMsgOk(m, bpm100) ==
  /\ Len(m) = 6 /\ m[1] = 255 /\ m[2] = 81 /\ m[3] = 3
  /\ Near((m[4] * 256 + m[5]) * 256 + m[6], UsPerQuarter(bpm100))

\* ---- the model recorder ------------------------------------------------------------------------
\* the closed track a recorder produces for a session (first delta measured from stamp base 0)
ModelTrack(chunks, res, bpm100) ==
  LET k == Kept(Heard(chunks)) IN
  << [d |-> Zero, m |-> TempoMsg(bpm100)] >>
  \o [i \in 1..Len(k) |->
        [d |-> DigitsOf(Nearest(Ticks(k[i].lo - (IF i = 1 THEN 0 ELSE k[i - 1].lo), res, bpm100), TickDen)),
         m |-> k[i].b]]
  \o << [d |-> Zero, m |-> EOT] >>

FileOf(track, res) == [fmt |-> 0, div |-> BE16(res), tracks |-> <<track>>]

\* ---- the property ------------------------------------------------------------------------------
\* the session lies inside the domain in which every delta is representable; `lead` is the nominal time
\* between the start of the recording and the first chunk (the unknown stamp base, known only roughly)
InDomain(chunks, lead, res, bpm100) ==
  IF ~(ResOk(res) /\ BpmOk(bpm100) /\ lead >= 0 /\ lead <= MaxMs) THEN FALSE
  ELSE IF \E i \in 1..Len(chunks) : chunks[i].dt < 0 \/ chunks[i].dt > MaxMs THEN FALSE
  ELSE LET total == FoldLeft(LAMBDA a, c : IF a + c.dt > MaxMs THEN MaxMs + 1 ELSE a + c.dt, lead, chunks)
       IN IF total > MaxMs THEN FALSE ELSE Ticks(total, res, bpm100).q < MaxDelta - 1

\* `track` (closed) is a faithful recording of the session: why[] names the clause that fails
RecordWhy(track, chunks, res, bpm100) ==
  LET k    == Kept(Heard(chunks))
      n    == Len(track)
      body == IF n >= 2 THEN SubSeq(track, 2, n - 1) ELSE <<>>
  IN IF n < 2 \/ track[n] # [d |-> Zero, m |-> EOT] THEN "not closed by (0, end of track)"
     ELSE IF ~(track[1].d = Zero /\ TempoMsgOk(track[1].m, bpm100)) THEN "no initial tempo event of the recording tempo"
     ELSE IF \E i \in 1..Len(body) : ~IsChanMsg(body[i].m) THEN "a message that is not a channel message was stored"
     ELSE IF (IF Len(body) # Len(k) THEN TRUE ELSE \E i \in 1..Len(k) : body[i].m # k[i].b)
          THEN "the stored messages are not the channel messages that arrived, in order"
     ELSE IF \E i \in 2..Len(k) :
               LET dv == DigitsVal(body[i].d) IN
               dv = Huge \/ ~Near(dv, Ticks(k[i].lo - k[i - 1].lo, res, bpm100))
          THEN "a delta is not the conversion of the arrival stamp difference (within one tick)"
     ELSE ""

RecordOk(track, chunks, res, bpm100) == RecordWhy(track, chunks, res, bpm100) = ""

\* the written file is a strictly valid SMF holding exactly the track
FileWhy(bytes, track, res) ==
  LET p == Decode(bytes) IN
  IF p.kind # "value" THEN "strict parse fails: " \o p.err
  ELSE IF ~p.canon THEN "not canonical"
  ELSE IF ~(p.fmt = 0 /\ p.div = BE16(res) /\ p.tracks = <<track>>) THEN "the file does not hold the recorded track"
  ELSE ""

\* the same for a file of several tracks (recording through SMF.RecordFrom while the SMF gets other tracks):
\* format 0 with one track, format 1 with more (SMF.Add's rule)
FileWhyN(bytes, tracks, res) ==
  LET p == Decode(bytes) IN
  IF p.kind # "value" THEN "strict parse fails: " \o p.err
  ELSE IF ~p.canon THEN "not canonical"
  ELSE IF ~(p.fmt = (IF Len(tracks) > 1 THEN 1 ELSE 0) /\ p.div = BE16(res) /\ p.tracks = tracks)
       THEN "the file does not hold the tracks of the SMF"
  ELSE ""
=============================================================================
