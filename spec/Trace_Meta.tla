------------------------------ MODULE Trace_Meta ------------------------------
(* Trace validation for C15.  One trace line = one experiment on the REAL library:
     ev = "call":     one meta constructor called with recorded arguments; the bytes it returned; what EVERY
                      GetMeta* accessor answered on those bytes (ok flag + outputs); the first panic text.
     ev = "seqsweep": a block of consecutive sequence numbers: bytes, GetMetaSeqNumber's answer, and the indexes
                      at which some other accessor accepted.
   Judged with the operators of spec/Meta.tla only:
     * bytes = the specification's encoding of the arguments, exactly (hence a well-formed FF/type/VLQ/payload event);
     * every matching accessor accepts and returns the arguments;
     * every other accessor rejects (skipped for MetaUndefined with an assigned type);
     * nothing panics.
   Tempo: the argument and the returned value are exact dyadic rationals (mantissa limbs, exponent); the field must
   represent the argument within one microsecond (floor or ceiling of 6e7/bpm) and the returned bpm must re-encode to
   the same field (|6e7/returned - field| < 1/2).  Key: the tonic argument is in the property's domain only if it is
   the tonic the circle of fifths gives for (n, flat, major); other tonic arguments are out of domain and unjudged
   (info.dom = FALSE, accepted).  With no accidentals the flat/sharp flag carries no information and is free.
   Total trace spec: every line is consumed; rejected lines go to VERIF_OUT.                                  *)
EXTENDS Meta, TLC, Json, IOUtils
VARIABLES l, bad

Trace == ndJsonDeserialize(IOEnv.VERIF_TRACE)

AccNames == TextKinds \cup {"channel", "port", "seqno", "seqdata", "smpte", "tempo", "timesig", "meter", "keysig", "key"}

IsByteSeq(s) == \A i \in 1..Len(s) : s[i] \in 0..255
Hd(s, n) == SubSeq(s, 1, IF Len(s) < n THEN Len(s) ELSE n)

\* verdict parts of one call: in the property's domain / judged at all / bytes / accessors / accessors allowed to accept
V(dom, judged, bytesOk, accOk, match, expect) ==
  [dom |-> dom, judged |-> judged, bytesOk |-> bytesOk, accOk |-> accOk, match |-> match, expect |-> Hd(expect, 12)]
OutOfDomain == V(FALSE, TRUE, FALSE, FALSE, {}, <<>>)

JText(e) ==
  IF ~(Len(e.data) <= MaxPayload /\ IsByteSeq(e.data)) THEN OutOfDomain
  ELSE LET m == EncText(e.ctor, e.data) IN
       V(TRUE, TRUE, e.bytes = m, e.acc[e.ctor].ok /\ e.acc[e.ctor].s = e.data, {e.ctor}, m)

JSeqData(e) ==
  IF ~(Len(e.data) \in 1..MaxPayload /\ IsByteSeq(e.data)) THEN OutOfDomain
  ELSE LET m == EncSeqData(e.data) IN
       V(TRUE, TRUE, e.bytes = m, e.acc.seqdata.ok /\ e.acc.seqdata.s = e.data, {"seqdata"}, m)

JOneByte(e, m, name) ==
  IF ~(Len(e.a) = 1 /\ IsByteSeq(e.a)) THEN OutOfDomain
  ELSE V(TRUE, TRUE, e.bytes = m, e.acc[name].ok /\ e.acc[name].v = e.a, {name}, m)

JSeqNo(e) ==
  IF ~(Len(e.a) = 1 /\ e.a[1] \in 0..65535) THEN OutOfDomain
  ELSE LET m == EncSeqNo(e.a[1]) IN V(TRUE, TRUE, e.bytes = m, e.acc.seqno.ok /\ e.acc.seqno.v = e.a, {"seqno"}, m)

JSmpte(e) ==
  IF ~(Len(e.a) = 5 /\ IsByteSeq(e.a)) THEN OutOfDomain
  ELSE LET m == EncSmpte(e.a[1], e.a[2], e.a[3], e.a[4], e.a[5]) IN
       V(TRUE, TRUE, e.bytes = m, e.acc.smpte.ok /\ e.acc.smpte.v = e.a, {"smpte"}, m)

JTimeSig(e) ==
  IF ~(Len(e.a) = 4 /\ IsByteSeq(e.a) /\ e.a[2] \in Denoms /\ e.a[3] # 0 /\ e.a[4] # 0) THEN OutOfDomain
  ELSE LET m == EncTimeSig(e.a[1], e.a[2], e.a[3], e.a[4]) IN
       V(TRUE, TRUE, e.bytes = m,
         /\ e.acc.timesig.ok /\ e.acc.timesig.v = e.a
         /\ e.acc.meter.ok /\ e.acc.meter.v = <<e.a[1], e.a[2]>>,
         {"timesig", "meter"}, m)

\* MetaMeter(num, denom): the property does not fix the two clock bytes of the event
JMeter(e) ==
  IF ~(Len(e.a) = 2 /\ IsByteSeq(e.a) /\ e.a[2] \in Denoms) THEN OutOfDomain
  ELSE LET cc == IF Len(e.bytes) = 7 THEN e.bytes[6] ELSE 0
           bb == IF Len(e.bytes) = 7 THEN e.bytes[7] ELSE 0
           m == Meta(TyTimeSig, <<e.a[1], MLog2(e.a[2]), cc, bb>>) IN
       V(TRUE, TRUE, e.bytes = m,
         /\ e.acc.meter.ok /\ e.acc.meter.v = e.a
         /\ e.acc.timesig.ok /\ Len(e.acc.timesig.v) = 4 /\ SubSeq(e.acc.timesig.v, 1, 2) = e.a,
         {"timesig", "meter"}, m)

KeyAccOk(r, tonic, n, flat, major) ==
  r.ok /\ r.key = tonic /\ r.num = n /\ r.major = major /\ (n > 0 => r.flat = flat)

JKeyTuple(e, tonic, n, flat, major) ==
  LET m == EncKey(n, flat, major) IN
  V(TRUE, TRUE, e.bytes = m,
    KeyAccOk(e.acc.keysig, tonic, n, flat, major) /\ KeyAccOk(e.acc.key, tonic, n, flat, major),
    {"keysig", "key"}, m)

JKey(e) ==
  IF ~(Len(e.a) = 2 /\ e.a[1] \in 0..255 /\ e.a[2] \in 0..7) THEN OutOfDomain
  ELSE IF e.a[1] # Tonic(e.a[2], e.flat, e.major) THEN V(FALSE, FALSE, TRUE, TRUE, AccNames, <<>>)   \* not a key: unjudged
  ELSE JKeyTuple(e, e.a[1], e.a[2], e.flat, e.major)

JNamed(e) ==
  IF e.name \notin KeyNames THEN OutOfDomain
  ELSE LET k == KeyNamed(e.name) IN JKeyTuple(e, k.tonic, k.n, k.flat, k.major)

DyOk(d) == /\ d.kind = "pos" /\ BnIsNat(d.m) /\ d.m # <<>> /\ Len(d.m) <= 5 /\ d.e \in -1100..80
JTempo(e) ==
  IF ~DyOk(e.bpm) THEN OutOfDomain
  ELSE LET num == DyNum(e.bpm.m, e.bpm.e)
           den == DyDen(e.bpm.e) IN
       IF ~TempoInDomain(num, den) THEN OutOfDomain
       ELSE LET wf == IsMeta(e.bytes) /\ MetaType(e.bytes) = TyTempo /\ Len(e.bytes) = 6
                f == IF wf THEN DecTempoField(e.bytes) ELSE 0
                r == e.acc.tempo IN
            V(TRUE, TRUE,
              wf /\ e.bytes = EncTempoField(f) /\ FieldWithinResolution(f, num, den),
              /\ wf /\ r.ok /\ DyOk(r.bpm)
              /\ FieldIsNearest(f, DyNum(r.bpm.m, r.bpm.e), DyDen(r.bpm.e)),
              {"tempo"}, IF wf THEN EncTempoField(f) ELSE <<>>)

JUndefined(e) ==
  IF ~(Len(e.a) = 1 /\ e.a[1] \in 0..127 /\ Len(e.data) <= MaxPayload /\ IsByteSeq(e.data)) THEN OutOfDomain
  ELSE LET m == Meta(e.a[1], e.data) IN
       V(TRUE, TRUE, e.bytes = m, TRUE, IF e.a[1] \in KnownTypes THEN AccNames ELSE {}, m)

JCtor(e) ==
  CASE e.ctor \in TextKinds -> JText(e)
    [] e.ctor = "seqdata" -> JSeqData(e)
    [] e.ctor = "channel" -> JOneByte(e, IF Len(e.a) = 1 THEN EncChannel(e.a[1]) ELSE <<>>, "channel")
    [] e.ctor = "port" -> JOneByte(e, IF Len(e.a) = 1 THEN EncPort(e.a[1]) ELSE <<>>, "port")
    [] e.ctor = "seqno" -> JSeqNo(e)
    [] e.ctor = "smpte" -> JSmpte(e)
    [] e.ctor = "timesig" -> JTimeSig(e)
    [] e.ctor = "meter" -> JMeter(e)
    [] e.ctor = "key" -> JKey(e)
    [] e.ctor = "named" -> JNamed(e)
    [] e.ctor = "tempo" -> JTempo(e)
    [] e.ctor = "undefined" -> JUndefined(e)
    [] e.ctor = "eot" -> V(TRUE, TRUE, e.bytes = EncEOT, TRUE, {}, EncEOT)
    [] OTHER -> OutOfDomain

JudgeCall(e) ==
  LET v == JCtor(e)
      foreign == {a \in AccNames \ v.match : e.acc[a].ok}
      wf == IsMeta(e.bytes) IN
  [ok |-> IF ~v.judged THEN TRUE
          \* e.stable: every accessor answered the same when its output variables held other values before the call, and
          \* (accessors with several outputs) when any subset of the outputs was not asked for (nil)
          ELSE v.dom /\ e.panic = "" /\ v.bytesOk /\ wf /\ v.accOk /\ foreign = {} /\ e.stable,
   info |-> [id |-> e.id, ev |-> "call", ctor |-> e.ctor, name |-> e.name, genbug |-> ~v.dom, panic |-> e.panic,
             bytesOk |-> v.bytesOk, wellFormed |-> wf, accOk |-> v.accOk, foreign |-> foreign, stable |-> e.stable,
             datalen |-> Len(e.data), nbytes |-> Len(e.bytes),
             retlen |-> IF e.ctor \in TextKinds \cup {"seqdata"} THEN Len(e.acc[e.ctor].s) ELSE -1, expectHead |-> v.expect, gotHead |-> Hd(e.bytes, 12)]]

JudgeSweep(e) ==
  LET n == Len(e.bytes)
      badi == {i \in 1..n : ~(/\ e.from + i - 1 \in 0..65535
                              /\ e.bytes[i] = EncSeqNo(e.from + i - 1)
                              /\ e.oks[i] /\ e.outs[i] = e.from + i - 1)}
      shape == n >= 1 /\ Len(e.oks) = n /\ Len(e.outs) = n IN
  IF ~shape THEN [ok |-> FALSE, info |-> [id |-> e.id, ev |-> "seqsweep", genbug |-> TRUE, panic |-> e.panic]]
  ELSE [ok |-> e.panic = "" /\ badi = {} /\ e.foreign = <<>>,
        info |-> [id |-> e.id, ev |-> "seqsweep", genbug |-> FALSE, panic |-> e.panic, from |-> e.from, n |-> n,
                  firstBad |-> IF badi = {} THEN -1 ELSE e.from - 1 + CHOOSE i \in badi : \A j \in badi : i <= j,
                  foreign |-> Hd(e.foreign, 5)]]

Judge(e) == CASE e.ev = "call" -> JudgeCall(e)
              [] e.ev = "seqsweep" -> JudgeSweep(e)

Init == l = 1 /\ bad = <<>>
Next == \/ /\ l <= Len(Trace)
           /\ LET j == Judge(Trace[l])
              IN bad' = IF j.ok THEN bad ELSE Append(bad, [line |-> l, info |-> j.info])
           /\ l' = l + 1
        \/ /\ l = Len(Trace) + 1
           /\ ndJsonSerialize(IOEnv.VERIF_OUT, <<[consumed |-> Len(Trace)]>> \o bad)
           /\ l' = l + 1 /\ UNCHANGED bad
=============================================================================
