CONSTANTS
  Msgs <- MsgsDef
  RT = {248, 254}
  MaxMsgs = 3
  MaxRT = 2
  MaxClock = 2
  Cap = 4
INIT Init
NEXT Next
INVARIANTS Delivered RealTimeImmediate NothingInvented
CHECK_DEADLOCK FALSE
