----------------------------- MODULE MC_Recorder -----------------------------
(* Model-level theorem behind C13, checked by TLC over all small sessions: sequences of chunks over a class
   alphabet (single bytes: data, channel status, sysex start/end, undefined status, tune request, filtered
   and unfiltered real-time bytes; whole messages: channel with 2 / 1 data bytes, running-status data, a
   channel message interrupted by a real-time byte, sysex, system common with 1 / 2 data bytes), with
   inter-arrival times from Dts, at the corners of the tempo / resolution domain.  In every state (= session so far):
     Valid         the model recorder's track, closed, written by SmfWrite!Encode (with and without running
                   status) and parsed by the strict SmfParse!Decode is a canonical value equal to the track
     OnlyChannel   nothing but well-formed channel messages ever enters the track, and the model recorder
                   satisfies its own acceptance predicate RecordOk
     KeepIsNeeded  (the property is not vacuous) a recorder that stores EVERYTHING it hears produces, whenever
                   it heard something that is not a channel message, a file that is not strictly valid or
                   does not hold the track
     TicksExact    the long multiplication agrees with the plain formula wherever that fits in 32 bits   *)
EXTENDS Recorder, TLC
CONSTANTS Alphabet, Dts, MaxChunks, Settings
VARIABLES chunks, set

vars == <<chunks, set>>
SettingsCorner == { <<24, 2000>>, <<960, 12037>>, <<15360, 40000>> }
SettingsOne    == { <<960, 12037>> }

\* chunks put on the wire: single bytes of every class (the receiver's byte-level behaviour is model-checked in
\* MC_LiveDecoder / MC_LiveWire) and whole or partial messages so that short sessions record several events
TokensFull == { <<64>>, <<144>>, <<247>>, <<240>>, <<244>>, <<246>>, <<248>>, <<250>>, <<254>>, <<255>>,
                <<144, 60, 100>>, <<60, 100>>, <<193, 5>>, <<144, 250, 60>>, <<240, 1, 247>>, <<241, 5>>, <<242, 1, 2>> }
TokensQuick == { <<64>>, <<144>>, <<247>>, <<240>>, <<250>>, <<255>>, <<144, 60, 100>>, <<60, 100>>, <<193, 5>>, <<241, 5>> }

Init == chunks = <<>> /\ set \in Settings
Next == /\ Len(chunks) < MaxChunks
        /\ \E b \in Alphabet, dt \in Dts : chunks' = Append(chunks, [dt |-> dt, bytes |-> b])
        /\ UNCHANGED set
Spec == Init /\ [][Next]_vars

Res == set[1]
Bpm == set[2]
T == ModelTrack(chunks, Res, Bpm)

Valid ==
  /\ InDomain(chunks, 0, Res, Bpm)
  /\ \A nrs \in BOOLEAN : FileWhy(Encode(FileOf(T, Res), nrs), T, Res) = ""

OnlyChannel ==
  /\ \A i \in 2..(Len(T) - 1) : IsChanMsg(T[i].m) /\ WellFormed(RecCfg, T[i].m)
  /\ RecordOk(T, chunks, Res, Bpm)

\* a recorder without the "keep channel messages" step
NaiveTrack == LET h == Heard(chunks) IN
  << [d |-> Zero, m |-> TempoMsg(Bpm)] >> \o [i \in 1..Len(h) |-> [d |-> Zero, m |-> h[i].b]] \o << [d |-> Zero, m |-> EOT] >>
KeepIsNeeded ==
  (\E i \in 2..(Len(NaiveTrack) - 1) : ~IsChanMsg(NaiveTrack[i].m))
     => /\ FileWhy(Encode(FileOf(NaiveTrack, Res), TRUE), NaiveTrack, Res) # ""
        /\ ~RecordOk(NaiveTrack, chunks, Res, Bpm)

TicksExact ==
  \A ms \in {0, 1, 2, 3, 7, 999, 1000, 1001} :
     LET qr == Ticks(ms, Res, Bpm)
         a  == Res * Bpm
     IN IF ms * (a \div 1000) < 2000000      \* ms * a < 2^31
        THEN qr.q = (ms * a) \div TickDen /\ qr.r = (ms * a) % TickDen
        ELSE qr.r \in 0..(TickDen - 1)
=============================================================================
