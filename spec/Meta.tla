-------------------------------- MODULE Meta --------------------------------
(* Meta events of Standard MIDI Files 1.0 (and RP-019 for types 08/09): what every constructor of a meta
   message has to emit and what the matching accessor has to give back (C15).  Written from the format
   document and from music theory, not from the library:

     meta event   FF <type 00..7F> <length as minimal VLQ> <length bytes of payload>
     00 sequence number (2 bytes, big endian)     01..09 texts (text copyright track-name instrument lyric
     marker cue-point program-name device-name)   20 channel prefix (1)   21 port (1)   2F end of track (0)
     51 tempo (3 bytes, microseconds per quarter note, big endian)   54 SMPTE offset (hr mn se fr ff)
     58 time signature (nn dd cc bb; the denominator is 2^dd)   59 key signature (sf mi; sf = number of sharps,
     negative = flats, two's complement; mi 0 major 1 minor)   7F sequencer specific (any bytes)

   All operators are pure.  Numbers beyond TLC's 32-bit integers (the exact value of a float64 tempo) are
   BigNats: little-endian limb sequences in base 2^15 without trailing zero limbs (<<>> is zero).          *)
EXTENDS Integers, Sequences, Vlq

\* ------------------------------------------------------------------ the event and its parts
Meta(type, data) == <<255, type>> \o VlqOfInt(Len(data)) \o data

\* index of the last byte of the length field (0: there is none within the four bytes a VLQ may take)
MetaLenEnd(m) ==
  IF Len(m) >= 3 /\ m[3] < 128 THEN 3
  ELSE IF Len(m) >= 4 /\ m[4] < 128 THEN 4
  ELSE IF Len(m) >= 5 /\ m[5] < 128 THEN 5
  ELSE IF Len(m) >= 6 /\ m[6] < 128 THEN 6 ELSE 0

\* well-formed: FF, a type below 80h, a minimal length field that counts exactly the bytes that follow
IsMeta(m) ==
  LET e == MetaLenEnd(m) IN
  /\ e # 0 /\ m[1] = 255 /\ m[2] \in 0..127
  /\ IsCanonicalVlq(SubSeq(m, 3, e))
  /\ DigitsVal(DigitsOfVlq(SubSeq(m, 3, e))) = Len(m) - e

MetaType(m) == m[2]
Payload(m) == SubSeq(m, MetaLenEnd(m) + 1, Len(m))       \* skips the whole length field, however long
NaivePayload(m) == SubSeq(m, 4, Len(m))                  \* "the length field is one byte": right only below 128

\* ------------------------------------------------------------------ types
TextKinds == {"text", "copyright", "trackname", "instrument", "lyric", "marker", "cuepoint", "program", "device"}
TextType(k) == CASE k = "text" -> 1 [] k = "copyright" -> 2 [] k = "trackname" -> 3 [] k = "instrument" -> 4
                 [] k = "lyric" -> 5 [] k = "marker" -> 6 [] k = "cuepoint" -> 7 [] k = "program" -> 8
                 [] k = "device" -> 9
TySeqNo == 0   TyChannel == 32   TyPort == 33   TyEOT == 47   TyTempo == 81   TySmpte == 84
TyTimeSig == 88   TyKeySig == 89   TySeqData == 127
KnownTypes == (0..9) \cup {TyChannel, TyPort, TyEOT, TyTempo, TySmpte, TyTimeSig, TyKeySig, TySeqData}
MaxPayload == 20000                                       \* horizon of the property for texts / sequencer data

\* ------------------------------------------------------------------ encoders (what a constructor emits)
EncText(kind, s) == Meta(TextType(kind), s)
EncChannel(c) == Meta(TyChannel, <<c>>)
EncPort(p) == Meta(TyPort, <<p>>)
EncSeqNo(n) == Meta(TySeqNo, BE16(n))
EncSeqData(d) == Meta(TySeqData, d)
EncSmpte(h, mn, s, f, ff) == Meta(TySmpte, <<h, mn, s, f, ff>>)
EncEOT == Meta(TyEOT, <<>>)

\* time signature: denominators are the powers of two a byte can hold
Denoms == {1, 2, 4, 8, 16, 32, 64, 128}
MLog2(d) == CHOOSE k \in 0..7 : 2^k = d
EncTimeSig(n, d, c, b) == Meta(TyTimeSig, <<n, MLog2(d), c, b>>)
DecTimeSig(m) == LET p == Payload(m) IN <<p[1], 2^p[2], p[3], p[4]>>

\* tempo: 24-bit microseconds per quarter note
MaxField == 16777215
UsPerMinute == 60000000
BE24(f) == <<f \div 65536, (f \div 256) % 256, f % 256>>
U24(b) == (b[1] * 256 + b[2]) * 256 + b[3]
EncTempoField(f) == Meta(TyTempo, BE24(f))
DecTempoField(m) == U24(Payload(m))

\* ------------------------------------------------------------------ key signatures: the circle of fifths
\* n sharps: the major tonic is n fifths above C; n flats: n fourths above C; the relative minor lies a minor
\* third (3 semitones) below its major.  With no accidentals "flat" and "sharp" name the same signature.
Tonic(n, flat, major) ==
  LET maj == IF flat THEN (5 * n) % 12 ELSE (7 * n) % 12 IN IF major THEN maj ELSE (maj + 9) % 12
KeySf(n, flat) == IF flat /\ n > 0 THEN 256 - n ELSE n
EncKey(n, flat, major) == Meta(TyKeySig, <<KeySf(n, flat), IF major THEN 0 ELSE 1>>)
DecKey(m) ==
  LET p == Payload(m)
      flat == p[1] >= 128
      n == IF flat THEN 256 - p[1] ELSE p[1]
      major == p[2] = 0
  IN [tonic |-> Tonic(n, flat, major), n |-> n, flat |-> flat, major |-> major]

\* The 26 named keys, from music theory: pitch class of the natural notes, sharp = +1, flat = -1; the keys in
\* the order in which they gain accidentals (position in the sequence = number of accidentals).
PitchOf(letter) == CASE letter = "C" -> 0 [] letter = "D" -> 2 [] letter = "E" -> 4 [] letter = "F" -> 5
                     [] letter = "G" -> 7 [] letter = "A" -> 9 [] letter = "B" -> 11
SharpMajors == << <<"CMaj", "C", 0>>, <<"GMaj", "G", 0>>, <<"DMaj", "D", 0>>, <<"AMaj", "A", 0>>, <<"EMaj", "E", 0>>,
                  <<"BMaj", "B", 0>>, <<"FsharpMaj", "F", 1>> >>                                 \* 0..6 sharps
FlatMajors  == << <<"FMaj", "F", 0>>, <<"BbMaj", "B", -1>>, <<"EbMaj", "E", -1>>, <<"AbMaj", "A", -1>>,
                  <<"DbMaj", "D", -1>>, <<"GbMaj", "G", -1>> >>                                  \* 1..6 flats
SharpMinors == << <<"AMin", "A", 0>>, <<"EMin", "E", 0>>, <<"BMin", "B", 0>>, <<"FsharpMin", "F", 1>>,
                  <<"CsharpMin", "C", 1>>, <<"GsharpMin", "G", 1>>, <<"DsharpMin", "D", 1>> >>     \* 0..6 sharps
FlatMinors  == << <<"DMin", "D", 0>>, <<"GMin", "G", 0>>, <<"CMin", "C", 0>>, <<"FMin", "F", 0>>,
                  <<"BbMin", "B", -1>>, <<"EbMin", "E", -1>> >>                                  \* 1..6 flats
NamedKeyRec(t, n, flat, major) ==
  [name |-> t[1], tonic |-> (PitchOf(t[2]) + t[3] + 12) % 12, n |-> n, flat |-> flat, major |-> major]
NamedKeys ==
  {NamedKeyRec(SharpMajors[i], i - 1, FALSE, TRUE) : i \in 1..Len(SharpMajors)} \cup
  {NamedKeyRec(FlatMajors[i], i, TRUE, TRUE) : i \in 1..Len(FlatMajors)} \cup
  {NamedKeyRec(SharpMinors[i], i - 1, FALSE, FALSE) : i \in 1..Len(SharpMinors)} \cup
  {NamedKeyRec(FlatMinors[i], i, TRUE, FALSE) : i \in 1..Len(FlatMinors)}
KeyNames == {k.name : k \in NamedKeys}
KeyNamed(name) == CHOOSE k \in NamedKeys : k.name = name

\* ------------------------------------------------------------------ BigNat (DESIGN Appendix E.2)
BnB == 32768
RECURSIVE BnNorm(_)
BnNorm(a) == IF a # <<>> /\ a[Len(a)] = 0 THEN BnNorm(SubSeq(a, 1, Len(a) - 1)) ELSE a
BnIsNat(a) == /\ \A i \in 1..Len(a) : a[i] \in 0..(BnB - 1)
              /\ (a # <<>> => a[Len(a)] # 0)
BnLimb(a, i) == IF i <= Len(a) THEN a[i] ELSE 0
BnMax(x, y) == IF x > y THEN x ELSE y
RECURSIVE BnAddC(_, _, _, _)
BnAddC(a, b, i, c) == IF i > BnMax(Len(a), Len(b)) THEN (IF c = 0 THEN <<>> ELSE <<c>>)
                      ELSE LET t == BnLimb(a, i) + BnLimb(b, i) + c IN <<t % BnB>> \o BnAddC(a, b, i + 1, t \div BnB)
BnAdd(a, b) == BnNorm(BnAddC(a, b, 1, 0))
RECURSIVE BnMulS(_, _, _, _)
BnMulS(a, k, i, c) == IF i > Len(a) THEN (IF c = 0 THEN <<>> ELSE <<c>>)
                      ELSE LET t == a[i] * k + c IN <<t % BnB>> \o BnMulS(a, k, i + 1, t \div BnB)
RECURSIVE BnMulAcc(_, _, _)
BnMulAcc(a, b, j) == IF j > Len(b) THEN <<>>
                     ELSE BnAdd(BnMulS(a, b[j], 1, 0), <<0>> \o BnMulAcc(a, b, j + 1))
BnMul(a, b) == BnNorm(BnMulAcc(a, b, 1))
RECURSIVE BnCmpFrom(_, _, _)
BnCmpFrom(a, b, i) == IF i = 0 THEN 0 ELSE IF a[i] < b[i] THEN -1 ELSE IF a[i] > b[i] THEN 1 ELSE BnCmpFrom(a, b, i - 1)
BnCmp(a, b) == IF Len(a) < Len(b) THEN -1 ELSE IF Len(a) > Len(b) THEN 1 ELSE BnCmpFrom(a, b, Len(a))
BnLt(a, b) == BnCmp(a, b) < 0
BnLeq(a, b) == BnCmp(a, b) <= 0
BnOfInt(n) == BnNorm(<<n % BnB, (n \div BnB) % BnB, n \div (BnB * BnB)>>)          \* 0 <= n < 2^31
BnPow2(k) == [i \in 1..(k \div 15) |-> 0] \o <<2^(k % 15)>>                         \* k >= 0
\* |a - b| < c
BnAbsDiffLt(a, b, c) == BnLt(a, BnAdd(b, c)) /\ BnLt(b, BnAdd(a, c))

\* ------------------------------------------------------------------ tempo as an exact rational
\* A finite positive float64 is mant * 2^exp (mant a BigNat, exp an integer): the fraction DyNum / DyDen.
DyNum(mant, exp) == IF exp >= 0 THEN BnMul(mant, BnPow2(exp)) ELSE mant
DyDen(exp) == IF exp >= 0 THEN <<1>> ELSE BnPow2(-exp)
Bn6e7 == BnOfInt(UsPerMinute)
\* bpm = num/den lies between the slowest and the fastest tempo the field can hold: 1 <= 6e7/bpm <= 2^24 - 1
TempoInDomain(num, den) ==
  /\ BnLeq(num, BnMul(Bn6e7, den))
  /\ BnLeq(BnMul(Bn6e7, den), BnMul(BnOfInt(MaxField), num))
\* the field f represents bpm to within the field's resolution (one microsecond): |6e7/bpm - f| < 1,
\* i.e. f is the floor or the ceiling of the exact quotient (whatever the rounding of a floating division does)
FieldWithinResolution(f, num, den) ==
  /\ f \in 1..MaxField
  /\ BnAbsDiffLt(BnMul(BnOfInt(f), num), BnMul(Bn6e7, den), num)
\* bpm re-encodes to f without ambiguity: |6e7/bpm - f| < 1/2
FieldIsNearest(f, num, den) ==
  /\ f \in 1..MaxField
  /\ BnAbsDiffLt(BnMul(BnOfInt(2 * f), num), BnMul(BnOfInt(2 * UsPerMinute), den), num)
=============================================================================
