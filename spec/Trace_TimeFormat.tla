--------------------------- MODULE Trace_TimeFormat ---------------------------
(* Trace validation for X06.  One record = one experiment on the real library (harness/cmd/vh_timefmt); inputs are
   ev a nums name msg, everything else is what the library returned:
     notelen  a=<<base>>             outs[10i+1..10i+10] = Resolution Ticks4th 8th 16th 32th 64th 128th 256th 512th 1024th of
                                     MetricTicks(base+i), i = 0..255
     hdrm     a=<<base>>             outs[6i+1..6i+6] = werr hi lo rkind ra rb: SMF{TimeFormat: MetricTicks(base+i)} written with
                                     WriteTo (werr = 1: error), the two division bytes found in the file, the file read back
                                     with ReadFrom (rkind 0 MetricTicks(ra), 1 TimeCode{ra, rb}, 2 error, 3 other)
     hdrt     a=<<fps>>              the same for TimeCode{fps, i}
     rdword   a=<<hi>>               outs[3i+1..3i+3] = rkind ra rb of ReadFrom on a minimal file with division word hi, i
     ctor     a=<<24|25|29|30>>      outs[2i+1..2i+2] = FramesPerSecond SubFrames of SMPTE24/25/30DropFrame/30(i)
     str      a=<<0,q,0>> | <<1,fps,sub>>   strs[1] = character codes of String()
     in64     a=<<q, beyond>> nums = tick counts (decimal digits)   bigs[i] = In64ths
     dur      a=<<q, ex>> nums = <<mant, n1 < n2 < ..>>   bigs = Duration(mant*2^ex, n_i) [ns] ++ Ticks(mant*2^ex, that duration)
     ticks    a=<<q, ex>> nums = <<mant, d1 < d2 < ..>>   bigs = Ticks(mant*2^ex, d_i ns) ++ Duration(mant*2^ex, those ticks)
     tempoat  a=<<k, t1, bpm1, .., tk, bpmk, queries..>>  outs = for each query <<TempoAt, index of TempoChangeAt (0 = nil)>>
     tchg     a=<<res, k, t1, bpm1, ..>>  outs = <<failed, n, AbsTicks1, BPM1, ..>> of ReadFrom(WriteTo(..)).TempoChanges()
     key      name = constructor     msg = its message, outs = ok Key Num IsMajor IsFlat (GetMetaKey) ok key num major flat
                                     (GetMetaKeySig) ok ok (both accessors called with nil pointers), s = Key.String()
     metakey  a=<<key, num, major, flat>>   msg = MetaKey(key, major, num, flat), outs / s as for key
     keyraw   msg = FF 59 02 sf mi   outs / s as for key
   An integer that does not fit 31 bits is recorded as -1.  Strict = TRUE additionally demands what the property leaves
   open (In64ths beyond 2^28, a name for keys of seven accidentals): used only to REPORT observations, never for verdicts. *)
EXTENDS TimeFormat, KeySig, Json, IOUtils
CONSTANT Strict
VARIABLES l, bad
Trace == ndJsonDeserialize(IOEnv.VERIF_TRACE)

Info(e, why, at) == [ev |-> e.ev, a |-> IF Len(e.a) <= 12 THEN e.a ELSE SubSeq(e.a, 1, 12), name |-> e.name, why |-> why, at |-> at, unknown |-> FALSE]
Good(e) == [ok |-> TRUE, info |-> Info(e, "", 0)]
Reject(e, why, at) == [ok |-> FALSE, info |-> Info(e, why, at)]
Unknown(e, why) == [ok |-> FALSE, info |-> [Info(e, "outside the domain of the trace spec: " \o why, 0) EXCEPT !.unknown = TRUE]]
First(S) == CHOOSE i \in S : \A j \in S : i <= j
\* judge a block i = lo..hi with predicate P(i); why names the clause
Block(e, lo, hi, P(_), why) == LET B == {i \in lo..hi : ~P(i)} IN IF B = {} THEN Good(e) ELSE Reject(e, why, First(B))
IsBit(v) == v \in 0..1
NumOk(d) == BnIsDec(d)
SNumOk(x) == BnIsDec(x.d)

\* ------------------------------------------------------------------ R, N
JNoteLen(e) ==
  IF Len(e.a) # 1 THEN Unknown(e, "a")
  ELSE IF e.a[1] \notin {256 * b : b \in 0..255} THEN Unknown(e, "base")
  ELSE IF Len(e.outs) # 2560 THEN Unknown(e, "outs")
  ELSE LET P(i) == LET q == e.a[1] + i   o == SubSeq(e.outs, 10 * i + 1, 10 * i + 10)
                   IN /\ o[1] = TfRes(q) /\ o[2] = TfRes(q)
                      /\ \A k \in 1..TfMaxK : TfNoteLenOk(o[k + 2], q, k)
       IN Block(e, 0, 255, P, "R/N: Resolution / note length is not the resolution divided by 2^k rounded to nearest")

\* ------------------------------------------------------------------ W
Got(k, a, b) == IF k = 0 THEN TfMetric(a) ELSE IF k = 1 THEN TfSmpte(a, b) ELSE IF k = 2 THEN [kind |-> "error", a |-> 0, b |-> 0]
                ELSE [kind |-> "other", a |-> 0, b |-> 0]
WordOf(hi, lo) == IF hi \in 0..255 /\ lo \in 0..255 THEN hi * 256 + lo ELSE -1
HdrWriteOk(tf, o) == IsBit(o[1]) /\ TfWriteOk(tf, o[1] = 1, WordOf(o[2], o[3]))
HdrReadOk(o) == o[1] = 1 \/ (WordOf(o[2], o[3]) >= 0 /\ o[4] \in 0..3 /\ TfReadOk(WordOf(o[2], o[3]), Got(o[4], o[5], o[6])))
JHdr(e) ==
  IF Len(e.a) # 1 THEN Unknown(e, "a")
  ELSE IF e.ev = "hdrm" /\ e.a[1] \notin {256 * b : b \in 0..255} THEN Unknown(e, "base")
  ELSE IF e.ev = "hdrt" /\ e.a[1] \notin 0..255 THEN Unknown(e, "fps")
  ELSE IF Len(e.outs) # 1536 THEN Unknown(e, "outs")
  ELSE LET Tf(i) == IF e.ev = "hdrm" THEN TfMetric(e.a[1] + i) ELSE TfSmpte(e.a[1], i)
           O(i) == SubSeq(e.outs, 6 * i + 1, 6 * i + 6)
           W(i) == HdrWriteOk(Tf(i), O(i))
           R(i) == HdrReadOk(O(i))
           w == Block(e, 0, 255, W, "W: WriteTo returned nil but the division word in the file does not denote the time format given (or it failed for a valid one)")
       IN IF ~w.ok THEN w
          ELSE Block(e, 0, 255, R, "W: ReadFrom does not give back what the division word of the written file denotes")
JRdWord(e) ==
  IF Len(e.a) # 1 THEN Unknown(e, "a")
  ELSE IF e.a[1] \notin 0..255 THEN Unknown(e, "hi")
  ELSE IF Len(e.outs) # 768 THEN Unknown(e, "outs")
  ELSE LET P(i) == LET o == SubSeq(e.outs, 3 * i + 1, 3 * i + 3)
                   IN o[1] \in 0..3 /\ TfReadOk(e.a[1] * 256 + i, Got(o[1], o[2], o[3]))
       IN Block(e, 0, 255, P, "W: ReadFrom does not return the time format the division word denotes")
JCtor(e) ==
  IF Len(e.a) # 1 THEN Unknown(e, "a")
  ELSE IF e.a[1] \notin TfStdFps THEN Unknown(e, "rate")
  ELSE IF Len(e.outs) # 512 THEN Unknown(e, "outs")
  ELSE LET P(i) == e.outs[2 * i + 1] = e.a[1] /\ e.outs[2 * i + 2] = i
       IN Block(e, 0, 255, P, "W: SMPTE constructor does not return TimeCode{rate, subframes}")

\* ------------------------------------------------------------------ P
IsText(s) == \A i \in 1..Len(s) : s[i] \in 0..255
JStr(e) ==
  IF Len(e.a) # 3 THEN Unknown(e, "a")
  ELSE IF ~(e.a[1] = 0 /\ e.a[2] \in 0..65535) /\ ~(e.a[1] = 1 /\ e.a[2] \in TfStdFps /\ e.a[3] \in 0..255) THEN Unknown(e, "format")
  ELSE IF Len(e.strs) # 1 THEN Unknown(e, "strs")
  ELSE IF ~IsText(e.strs[1]) THEN Unknown(e, "text")
  ELSE IF e.a[1] = 0 THEN (IF TfMetricStringOk(e.strs[1], e.a[2]) THEN Good(e) ELSE Reject(e, "P: MetricTicks.String() does not show the resolution", 0))
  ELSE IF TfTimeCodeStringOk(e.strs[1], e.a[2], e.a[3]) THEN Good(e) ELSE Reject(e, "P: TimeCode.String() does not show rate and subframes", 0)

\* ------------------------------------------------------------------ S
Pow32 == BnPow2(32)
JIn64(e) ==
  IF Len(e.a) # 2 THEN Unknown(e, "a")
  ELSE IF e.a[1] \notin 0..65535 THEN Unknown(e, "q")
  ELSE IF \E i \in 1..Len(e.nums) : ~NumOk(e.nums[i]) THEN Unknown(e, "nums")
  ELSE IF \E i \in 1..Len(e.nums) : ~BnLt(BnOfDec(e.nums[i]), Pow32) THEN Unknown(e, "tick count beyond uint32")
  ELSE IF Len(e.bigs) # Len(e.nums) \/ \E i \in 1..Len(e.bigs) : ~SNumOk(e.bigs[i]) THEN Unknown(e, "bigs")
  ELSE LET P(i) == LET n == BnOfDec(e.nums[i]) IN
                   (Strict \/ BnLt(n, TfDeltaLimit)) => ~e.bigs[i].neg /\ TfIn64Ok(BnOfDec(e.bigs[i].d), e.a[1], n)
       IN Block(e, 1, Len(e.nums), P, "S: In64ths is not floor(16 * ticks / resolution)")

\* ------------------------------------------------------------------ D, T, I
Idx(s) == 1..Len(s)
JConv(e) ==
  IF Len(e.a) # 2 THEN Unknown(e, "a")
  ELSE IF e.a[1] \notin 0..65535 \/ e.a[2] \notin -80..20 THEN Unknown(e, "q / exponent")
  ELSE IF Len(e.nums) < 1 \/ \E i \in Idx(e.nums) : ~NumOk(e.nums[i]) THEN Unknown(e, "nums")
  ELSE IF Len(e.bigs) # 2 * (Len(e.nums) - 1) \/ \E i \in Idx(e.bigs) : ~SNumOk(e.bigs[i]) THEN Unknown(e, "bigs")
  ELSE
  LET q == e.a[1]   ex == e.a[2]   mant == BnOfDec(e.nums[1])
      bn == TfDyNum(mant, ex)   bd == TfDyDen(ex)
      k == Len(e.nums) - 1
      arg == [i \in 1..k |-> BnOfDec(e.nums[i + 1])]              \* the arguments (ticks / ns)
      r1 == [i \in 1..k |-> BnOfDec(e.bigs[i].d)]                 \* first conversion
      r2 == [i \in 1..k |-> BnOfDec(e.bigs[k + i].d)]             \* converted back
      isDur == e.ev = "dur"
      tickNum == TfDurNum(<<1>>, bd)   tickDen == TfDurDen(bn, q)  \* duration of one tick
      Small(i) == IF isDur THEN BnLt(TfDurNum(arg[i], bd), BnMul(BnPow2(53), tickDen))     \* exact duration below 2^53 ns
                  ELSE BnLt(arg[i], BnPow2(53))
      InDom(i) == IF isDur THEN BnLt(arg[i], Pow32) /\ TfDurDomain(arg[i], bn, bd, q) ELSE TfTicksDomain(arg[i], bn, bd, q)
      FirstOk(i) == ~e.bigs[i].neg /\ (IF isDur THEN TfDurOk(r1[i], arg[i], bn, bd, q) ELSE TfTicksOk(r1[i], arg[i], bn, bd, q))
      Mono(i) == i = k \/ (~e.bigs[i].neg /\ ~e.bigs[i + 1].neg /\ BnLeq(r1[i], r1[i + 1]))
      \* the way back, judged on what the first call actually returned (only if that is inside the other function's domain)
      BackOk(i) == IF isDur THEN (TfTicksDomain(r1[i], bn, bd, q) => ~e.bigs[k + i].neg /\ TfTicksOk(r2[i], r1[i], bn, bd, q))
                   ELSE (TfDurDomain(r1[i], bn, bd, q) => ~e.bigs[k + i].neg /\ TfDurOk(r2[i], r1[i], bn, bd, q))
      InvOk(i) == Small(i) => IF isDur THEN (TfTicksDomain(r1[i], bn, bd, q) => r2[i] = arg[i])
                              ELSE BnLeq(BnMul(BnAbsDiff(r2[i], arg[i]), tickDen), BnAdd(tickNum, tickDen))
      c1 == Block(e, 1, k, FirstOk, IF isDur THEN "D: Duration is not 60e9 * ticks / (bpm * resolution) ns rounded to nearest"
                                    ELSE "T: Ticks is not ns * resolution * bpm / 60e9 rounded to nearest")
      c2 == Block(e, 1, k, Mono, "I: not monotonic in the tick / duration argument")
      c3 == Block(e, 1, k, BackOk, IF isDur THEN "T: Ticks of the returned duration is not its exact tick count rounded to nearest"
                                   ELSE "D: Duration of the returned ticks is not their exact duration rounded to nearest")
      c4 == Block(e, 1, k, InvOk, IF isDur THEN "I: Ticks(Duration(n)) # n" ELSE "I: Duration(Ticks(d)) is more than one tick (+ 1 ns) away from d")
  IN IF mant = <<>> \/ ~BnLt(mant, BnPow2(53)) \/ ~TfBpmDomain(bn, bd) THEN Unknown(e, "tempo outside [1, 1000]")
     ELSE IF \E i \in 1..(k - 1) : ~BnLt(arg[i], arg[i + 1]) THEN Unknown(e, "arguments not increasing")
     ELSE IF \E i \in 1..k : ~InDom(i) THEN Unknown(e, "argument outside the domain of D / T")
     ELSE IF ~c1.ok THEN c1 ELSE IF ~c2.ok THEN c2 ELSE IF ~c3.ok THEN c3 ELSE c4

\* ------------------------------------------------------------------ C
JTempoAt(e) ==
  IF Len(e.a) < 1 THEN Unknown(e, "a")
  ELSE IF e.a[1] \notin 0..20 \/ Len(e.a) < 1 + 2 * e.a[1] THEN Unknown(e, "k")
  ELSE LET k == e.a[1]
           cs == [i \in 1..k |-> [t |-> e.a[2 * i], bpm |-> e.a[2 * i + 1]]]
           qs == SubSeq(e.a, 2 * k + 2, Len(e.a))
           P(j) == e.outs[2 * j - 1] = TfTempoAt(cs, qs[j]) /\ e.outs[2 * j] = TfChangeAt(cs, qs[j])
       IN IF ~TfSorted(cs) \/ \E i \in 1..k : cs[i].bpm \notin 1..100000 THEN Unknown(e, "changes")
          ELSE IF Len(e.outs) # 2 * Len(qs) THEN Unknown(e, "outs")
          ELSE Block(e, 1, Len(qs), P, "C: TempoAt / TempoChangeAt is not the last change at or before the tick (120 BPM before the first)")
JTchg(e) ==
  IF Len(e.a) < 2 THEN Unknown(e, "a")
  ELSE IF e.a[1] \notin 0..65535 \/ e.a[2] \notin 0..20 \/ Len(e.a) # 2 + 2 * e.a[2] THEN Unknown(e, "k")
  ELSE LET k == e.a[2]
           cs == [i \in 1..k |-> [t |-> e.a[2 * i + 1], bpm |-> e.a[2 * i + 2]]]
       IN IF \E i \in 1..k : cs[i].t \notin 0..1073741823 \/ cs[i].bpm \notin 4..1000 THEN Unknown(e, "changes")          \* a tempo event holds 3.58 BPM and more
          ELSE IF \E i \in 1..k : 60000000 % cs[i].bpm # 0 THEN Unknown(e, "tempo not exact in microseconds per quarter")
          ELSE IF \E i \in 1..(k - 1) : cs[i].t >= cs[i + 1].t THEN Unknown(e, "ticks not increasing")
          ELSE IF Len(e.outs) < 2 THEN Unknown(e, "outs")
          ELSE IF e.outs[1] # 0 THEN Reject(e, "C: writing / reading a file with tempo events failed", 0)
          ELSE IF e.outs = <<0, k>> \o (IF k = 0 THEN <<>> ELSE [j \in 1..(2 * k) |-> IF j % 2 = 1 THEN cs[(j + 1) \div 2].t ELSE cs[j \div 2].bpm]) THEN Good(e)
          ELSE Reject(e, "C: SMF.TempoChanges() of the file read back is not the list of its tempo events (absolute tick, BPM)", 0)

\* ------------------------------------------------------------------ K
Bit(x) == IF x THEN 1 ELSE 0
KeyOuts(k) == <<1, k.key, k.num, Bit(k.major), Bit(k.flat), 1, k.key, k.num, Bit(k.major), Bit(k.flat), 1, 1>>
\* the message and the answers of both accessors for signature (sf, mi); the name where the library has one
SigOk(e, sf, mi, checkMsg) ==
  IF checkMsg /\ e.msg # KsMsg(sf, mi) THEN Reject(e, "K: the message is not FF 59 02 sf mi of the circle of fifths", 0)
  ELSE IF Len(e.outs) # 12 THEN Unknown(e, "outs")
  ELSE IF e.outs # KeyOuts(KsKey(sf, mi)) THEN Reject(e, "K: GetMetaKey / GetMetaKeySig do not return tonic, number, mode and flat flag of the signature", 0)
  ELSE IF (Strict \/ KsHasLibName(sf)) /\ e.s # KsName(sf, mi) THEN Reject(e, "K: Key.String() is not the name of the key", 0)
  ELSE Good(e)
JKey(e) ==
  IF e.name \notin KsAllNames THEN Unknown(e, "name")
  ELSE LET k == KsNamed(e.name)   j == SigOk(e, k[1], k[2], TRUE) IN
       IF ~j.ok THEN j
       ELSE IF e.s # e.name THEN Reject(e, "K: Key.String() of the constructor's key is not the constructor's name", 0)
       ELSE Good(e)
JMetaKey(e) ==
  IF Len(e.a) # 4 THEN Unknown(e, "a")
  ELSE IF e.a[1] \notin 0..255 \/ e.a[2] \notin 0..255 \/ ~IsBit(e.a[3]) \/ ~IsBit(e.a[4]) THEN Unknown(e, "arguments")
  ELSE IF e.a[2] > 7 THEN Good(e)                                          \* no such signature: nothing demanded (no panic)
  ELSE SigOk(e, KsSfOf(e.a[2], e.a[4] = 1), 1 - e.a[3], TRUE)
JKeyRaw(e) ==
  IF Len(e.msg) # 5 THEN Unknown(e, "msg")
  ELSE IF SubSeq(e.msg, 1, 3) # <<255, 89, 2>> \/ e.msg[4] \notin 0..255 \/ e.msg[5] \notin 0..255 THEN Unknown(e, "msg")
  ELSE LET sf == IF e.msg[4] >= 128 THEN e.msg[4] - 256 ELSE e.msg[4] IN
       IF sf \notin KsSfs \/ e.msg[5] \notin KsModes THEN Good(e)
       ELSE SigOk(e, sf, e.msg[5], FALSE)

Judge(e) ==
  IF e.ev \notin {"notelen", "hdrm", "hdrt", "rdword", "ctor", "str", "in64", "dur", "ticks", "tempoat", "tchg", "key", "metakey", "keyraw"} THEN Unknown(e, "ev")
  ELSE IF e.panic # "" THEN Reject(e, "panic", 0)
  ELSE CASE e.ev = "notelen" -> JNoteLen(e)
         [] e.ev \in {"hdrm", "hdrt"} -> JHdr(e)
         [] e.ev = "rdword" -> JRdWord(e)
         [] e.ev = "ctor" -> JCtor(e)
         [] e.ev = "str" -> JStr(e)
         [] e.ev = "in64" -> JIn64(e)
         [] e.ev \in {"dur", "ticks"} -> JConv(e)
         [] e.ev = "tempoat" -> JTempoAt(e)
         [] e.ev = "tchg" -> JTchg(e)
         [] e.ev = "key" -> JKey(e)
         [] e.ev = "metakey" -> JMetaKey(e)
         [] e.ev = "keyraw" -> JKeyRaw(e)

Init == l = 1 /\ bad = <<>>
Next == \/ /\ l <= Len(Trace)
           /\ LET j == Judge(Trace[l])
              IN bad' = IF j.ok THEN bad ELSE Append(bad, [line |-> l, info |-> j.info])
           /\ l' = l + 1
        \/ /\ l = Len(Trace) + 1
           /\ ndJsonSerialize(IOEnv.VERIF_OUT, <<[consumed |-> Len(Trace)]>> \o bad)
           /\ l' = l + 1 /\ UNCHANGED bad
=============================================================================
