--------------------------- MODULE Trace_Recorder ---------------------------
(* Trace validation (binding T) for C13.  Every line is one complete recording session on the REAL library:
   Track.RecordFrom on a testdrv loopback at (res, bpm100/100), the chunks sent with the virtual-clock sleeps
   before them, the track after stop + Close(0), the bytes WriteTo produced, and what ReadFrom returned for
   them.  RecordFrom installs its own listener, so the arrival stamps cannot be observed: they are DERIVED
   here from the receiver model (Recorder!Heard = LiveDecoder!Deliver under RecordFrom's listen options); only
   their differences are used (the clock origin is unknown).  Judged with the specification's operators:
     Recorder!RecordWhy   stored messages = the model's channel messages, in order, deltas within one tick
     Recorder!FileWhy     SmfParse!Decode(bytes) is a canonical value holding exactly the recorded track
     read back            the library's reader returns the recorded track
   Total trace spec: every line is consumed; rejected lines go to VERIF_OUT.                              *)
EXTENDS Recorder, TLC, Json, IOUtils
VARIABLES l, bad

Trace == ndJsonDeserialize(IOEnv.VERIF_TRACE)

ReadWhy(r, track, res) ==
  IF r.kind # "value" THEN "the library cannot read the file back"
  ELSE IF ~(r.fmt = 0 /\ r.tf = TimeFormat(BE16(res)) /\ r.tracks = <<track>>) THEN "the file reads back as different events"
  ELSE ""

Judge(e) ==
  IF ~InDomain(e.chunks, e.lead, e.res, e.bpm100)
    THEN [ok |-> FALSE, info |-> [id |-> e.id, genbug |-> TRUE, panic |-> "", record |-> "", file |-> "", read |-> "", readmsg |-> ""]]
  ELSE
  LET rec == RecordWhy(e.track, e.chunks, e.res, e.bpm100)
      fil == IF e.werr # "" THEN "WriteTo failed"
             ELSE IF e.size # Len(e.bytes) THEN "WriteTo reports a wrong size"
             ELSE FileWhy(e.bytes, e.track, e.res)
      rd  == ReadWhy(e.read, e.track, e.res)
  IN [ok |-> e.panic = "" /\ rec = "" /\ fil = "" /\ rd = "",
      info |-> [id |-> e.id, genbug |-> FALSE, panic |-> e.panic, record |-> rec, file |-> fil, read |-> rd,
                readmsg |-> e.read.msg]]

Init == l = 1 /\ bad = <<>>
Next == \/ /\ l <= Len(Trace)
           /\ LET j == Judge(Trace[l])
              IN bad' = IF j.ok THEN bad ELSE Append(bad, [line |-> l, info |-> j.info])
           /\ l' = l + 1
        \/ /\ l = Len(Trace) + 1
           /\ ndJsonSerialize(IOEnv.VERIF_OUT, <<[consumed |-> Len(Trace)]>> \o bad)
           /\ l' = l + 1 /\ UNCHANGED bad
=============================================================================
