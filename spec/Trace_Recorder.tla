--------------------------- MODULE Trace_Recorder ---------------------------
(* Trace validation (binding T) for C13.  Every line is one complete recording session on the REAL library:
   Track.RecordFrom (or the file-level wrappers SMF.RecordFrom / smf.RecordTo) on a testdrv loopback at (res, bpm100/100), the chunks sent with the virtual-clock sleeps
   before them, the track after stop + Close(0), the bytes WriteTo produced, and what ReadFrom returned for
   them.  RecordFrom installs its own listener, so the arrival stamps cannot be observed: they are DERIVED
   here from the receiver model (Recorder!Heard = LiveDecoder!Deliver under RecordFrom's listen options); only
   their differences are used (the clock origin is unknown).  Judged with the specification's operators:
     Recorder!RecordWhy   stored messages = the model's channel messages, in order, deltas within one tick
     Recorder!FileWhy     SmfParse!Decode(bytes) is a canonical value holding exactly the recorded track
     read back            the library's reader returns the recorded track
   Total trace spec: every line is consumed; rejected lines go to VERIF_OUT.                              *)
EXTENDS Recorder, TLC, Json, IOUtils
VARIABLES l, bad

Trace == ndJsonDeserialize(IOEnv.VERIF_TRACE)

ReadWhy(r, tracks, res) ==
  IF r.kind # "value" THEN "the library cannot read the file back"
  ELSE IF ~(r.fmt = (IF Len(tracks) > 1 THEN 1 ELSE 0) /\ r.tf = TimeFormat(BE16(res)) /\ r.tracks = tracks)
       THEN "the file reads back as different events"
  ELSE ""

\* e.via: "track" Track.RecordFrom / "smf" SMF.RecordFrom / "file" smf.RecordTo; e.tracks: all tracks of the SMF that was
\* written, e.ti: the position of the recorded one (0: none).  Other tracks (added, or recorded from a second port, while
\* the recording ran) must not disturb it; the whole SMF must be a valid file that reads back as e.tracks.
Judge(e) ==
  IF ~InDomain(e.chunks, e.lead, e.res, e.bpm100)
    THEN [ok |-> FALSE, info |-> [id |-> e.id, genbug |-> TRUE, panic |-> "", record |-> "", file |-> "", read |-> "", readmsg |-> ""]]
  ELSE
  LET track == IF e.ti >= 1 /\ e.ti <= Len(e.tracks) THEN e.tracks[e.ti] ELSE <<>>
      want == IF e.via = "smf" /\ e.extra # "none" THEN {2}
              \* smf.RecordTo stopped a second time after a failed save: whether the recorded track is then in the file once
              \* or twice is left open (the library adds it at every stop); every track must be the recording
              ELSE IF e.via = "file" /\ e.extra = "retry" THEN {1, 2} ELSE {1}
      rec == IF track = <<>> THEN "the SMF holds no recorded track"
             ELSE IF Len(e.tracks) \notin want THEN "the SMF does not hold the expected number of tracks"
             ELSE IF \E i \in 1..Len(e.tracks) : e.via = "file" /\ e.tracks[i] # track THEN "the file holds a track that is not the recording"
             ELSE RecordWhy(track, e.chunks, e.res, e.bpm100)
      fil == IF e.werr # "" THEN "WriteTo failed"
             ELSE IF e.size # Len(e.bytes) THEN "WriteTo reports a wrong size"
             ELSE FileWhyN(e.bytes, e.tracks, e.res)
      rd  == ReadWhy(e.read, e.tracks, e.res)
  IN [ok |-> e.panic = "" /\ rec = "" /\ fil = "" /\ rd = "",
      info |-> [id |-> e.id, genbug |-> FALSE, panic |-> e.panic, record |-> rec, file |-> fil, read |-> rd,
                readmsg |-> e.read.msg]]

Init == l = 1 /\ bad = <<>>
Next == \/ /\ l <= Len(Trace)
           /\ LET j == Judge(Trace[l])
              IN bad' = IF j.ok THEN bad ELSE Append(bad, [line |-> l, info |-> j.info])
           /\ l' = l + 1
        \/ /\ l = Len(Trace) + 1
           /\ ndJsonSerialize(IOEnv.VERIF_OUT, <<[consumed |-> Len(Trace)]>> \o bad)
           /\ l' = l + 1 /\ UNCHANGED bad
=============================================================================
