CONSTANTS
  MaxTracks = 2
  MaxEvents = 2
  Divs <- DivsFull
INIT Init
NEXT Next
INVARIANTS RoundTrip Compression
CHECK_DEADLOCK FALSE
