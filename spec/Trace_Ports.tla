------------------------------ MODULE Trace_Ports ------------------------------
(* Trace validation for C17: one line = one complete call history on a REAL port pair (testdrv, or midicatdrv
   against the stand-in helper): every call with its return value, the deliveries observed after it (listener id,
   message), panics and watchdog expiries.  The history is folded through Ports!PStep.                     *)
EXTENDS Ports, McatEvents, SequencesExt, TLC, Json, IOUtils
VARIABLES l, bad
Trace == ndJsonDeserialize(IOEnv.VERIF_TRACE)

StepOk(kind, s, st) ==
  /\ st.pan = "" /\ ~st.timeout
  /\ IF st.fn = "SendPar" THEN ParOk(kind, s, st, st.rets, st.dlv)
     ELSE LET r == PStep(kind, s, st) IN
          IF st.fn = "BurstStop" THEN st.ret = r.ret /\ IsPrefix(st.dlv, r.dlv)     \* stop may overtake deliveries, never the reverse
          ELSE st.ret = r.ret /\ st.dlv = r.dlv

Judge(e) ==
  LET r == FoldLeft(LAMBDA acc, st :
                      IF ~acc.ok \/ acc.genbug THEN acc
                      ELSE IF st.fn # "SendPar" /\ ~Enabled(e.kind, acc.s, st) THEN [acc EXCEPT !.genbug = TRUE]
                      ELSE [s |-> IF st.fn = "SendPar" THEN acc.s ELSE PStep(e.kind, acc.s, st).s,
                            ok |-> StepOk(e.kind, acc.s, st), genbug |-> FALSE, i |-> acc.i + 1,
                            exp |-> IF st.fn = "SendPar" THEN [ret |-> "par", dlv |-> <<>>]
                                    ELSE [ret |-> PStep(e.kind, acc.s, st).ret, dlv |-> PStep(e.kind, acc.s, st).dlv]],
                    [s |-> P0, ok |-> TRUE, genbug |-> FALSE, i |-> 0, exp |-> [ret |-> "", dlv |-> <<>>]], e.steps)
      \* the hook events of the real in port (lock order) are a behaviour of the abstract monitor that the PlusCal model refines
      mon == FoldLeft(LAMBDA a, ev : IF a.ok /\ MEnabled(a.m, ev) THEN [m |-> MStep(a.m, ev), ok |-> TRUE, n |-> a.n + 1]
                                     ELSE [a EXCEPT !.ok = FALSE],
                      [m |-> M0, ok |-> TRUE, n |-> 0], e.events)
  IN [ok |-> r.ok /\ ~r.genbug /\ e.race = "" /\ mon.ok,
      info |-> [id |-> e.id, kind |-> e.kind, genbug |-> r.genbug, failedStep |-> r.i, expected |-> r.exp, race |-> e.race,
                hookEventsOk |-> mon.ok, hookEventsAccepted |-> mon.n]]

\* C14 on the process-backed driver's own copy of the filter: the same sends under option set o and under all
\* options on; only the relation between the two real runs is judged: deliveries(o) = Project(o, deliveries(all on))
JudgeTwin(e) ==
  LET ok == /\ Len(e.own) = Len(e.all)
            /\ \A i \in 1..Len(e.own) :
                 LET proj == SelectSeq(e.all[i], LAMBDA d : PassesOpts(e.opts, d.m))
                 IN [j \in 1..Len(e.own[i]) |-> e.own[i][j].m] = [j \in 1..Len(proj) |-> proj[j].m]
  IN [ok |-> ok /\ e.pan = "", info |-> [id |-> e.id, kind |-> "twin", opts |-> e.opts, pan |-> e.pan]]

JudgeAny(e) == IF e.kind = "twin" THEN JudgeTwin(e) ELSE Judge(e)

Init == l = 1 /\ bad = <<>>
Next == \/ /\ l <= Len(Trace)
           /\ LET j == JudgeAny(Trace[l])
              IN bad' = IF j.ok THEN bad ELSE Append(bad, [line |-> l, info |-> j.info])
           /\ l' = l + 1
        \/ /\ l = Len(Trace) + 1
           /\ ndJsonSerialize(IOEnv.VERIF_OUT, <<[consumed |-> Len(Trace)]>> \o bad)
           /\ l' = l + 1 /\ UNCHANGED bad
=============================================================================
