CONSTANTS
  PV = {0, 1, 127}
  DV = {0, 2, 127}
INIT Init
NEXT Next
INVARIANTS WritesSafe Done
CHECK_DEADLOCK FALSE
