------------------------ MODULE Trace_SequencerImport ------------------------
(* Trace validation for X01.  One line = one song built through the public API of v2/sequencer on the REAL
   library, exported with ToSMF1 and (a fresh build) with ToSMF0, each export imported with FromSMF (via = 1:
   after WriteTo / ReadFrom); the harness copied the public fields of the imported song.  Each import is judged
   with SequencerImport!ImportOk.  Total: every line is consumed, rejected lines go to VERIF_OUT.

   record: [id, res, bars (Sequencer song), via,
            imp1, imp0 : [fmt, ntrk, ticks, nnames, bars : <<[no, num, den, abs, evs : <<[trk, pos, dur, msg]>>]>>, err, panic]] *)
EXTENDS SequencerImport, TLC, Json, IOUtils
VARIABLES l, bad

Trace == ndJsonDeserialize(IOEnv.VERIF_TRACE)

\* everything the operators index into is there and is a number where a number is expected
ImpWellFormed(imp) ==
  /\ imp.ticks \in Int
  /\ \A i \in 1..Len(imp.bars) :
       /\ imp.bars[i].no \in Int /\ imp.bars[i].num \in Int /\ imp.bars[i].den \in Int /\ imp.bars[i].abs \in Int
       /\ \A j \in 1..Len(imp.bars[i].evs) :
            LET x == imp.bars[i].evs[j] IN x.trk \in Int /\ x.pos \in Int /\ x.dur \in Int /\ Len(x.msg) >= 0

JudgeOne(e, imp, mode) ==
  IF imp.panic # "" \/ imp.err # ""
    THEN [ok |-> FALSE, info |-> [panic |-> imp.panic, err |-> imp.err]]
  ELSE IF ~ImpWellFormed(imp)
    THEN [ok |-> FALSE, info |-> [panic |-> "", err |-> "malformed"]]
  ELSE LET c == ImportClauses(e.bars, e.res, imp, mode)
           fmtok == imp.fmt \in {0, 1}                  \* which format number an export carries is free (C20): information only
           ok == c.ticks /\ c.nbars /\ c.numbers /\ c.sigs /\ c.starts /\ c.events /\ c.tracks
       IN IF ok THEN [ok |-> TRUE, info |-> [panic |-> "", err |-> ""]]
          ELSE LET fb == FirstBadBar(e.bars, imp, mode)
               IN [ok |-> FALSE,
                   info |-> [panic |-> "", err |-> "", clauses |-> c, fmtok |-> fmtok,
                             nbars |-> <<Len(e.bars), Len(imp.bars)>>,
                             impbars |-> ImpSigs(imp), firstbad |-> fb, diff |-> BarDiff(e.bars, imp, mode, fb)]]

Judge(e) ==
  IF ~SongInDomain(e.bars, e.res) \/ e.via \notin {0, 1}
    THEN [ok |-> FALSE, info |-> [id |-> e.id, genbug |-> TRUE]]
  ELSE LET j1 == JudgeOne(e, e.imp1, 1)
           j0 == JudgeOne(e, e.imp0, 0)
       IN IF j1.ok /\ j0.ok THEN [ok |-> TRUE, info |-> [id |-> e.id, genbug |-> FALSE]]
          ELSE [ok |-> FALSE, info |-> [id |-> e.id, genbug |-> FALSE, ok1 |-> j1.ok, ok0 |-> j0.ok, i1 |-> j1.info, i0 |-> j0.info]]

Init == l = 1 /\ bad = <<>>
Next == \/ /\ l <= Len(Trace)
           /\ LET j == Judge(Trace[l])
              IN bad' = IF j.ok THEN bad ELSE Append(bad, [line |-> l, info |-> j.info])
           /\ l' = l + 1
        \/ /\ l = Len(Trace) + 1
           /\ ndJsonSerialize(IOEnv.VERIF_OUT, <<[consumed |-> Len(Trace)]>> \o bad)
           /\ l' = l + 1 /\ UNCHANGED bad
=============================================================================
