------------------------------ MODULE SmfParse ------------------------------
(* An independent decoder of Standard MIDI Files 1.0, written from the format document: a byte automaton
   folded over the input.  It is the oracle for C02 (what a valid file contains), the strict parser of C03
   (flag `canon`) and the reference against which truncated reads are compared (C05, C09).

   Reading "Decode": header chunk of length 6, format 0..2; then chunks; any type other than MTrk is
   skipped by its length; an MTrk chunk is a sequence of <delta VLQ (<= 4 bytes, non-minimal accepted)>
   <event> filling its length exactly and ending in its only end-of-track; running status only after a
   channel event of the same track and cancelled by meta/sysex/escape events; exactly ntrks MTrk chunks;
   after them only further alien chunks.  `canon` additionally records what C03 demands of a WRITER:
   minimal VLQs, no alien chunks, nothing after the last track.

   An event of a track is [d |-> canonical base-128 digits of the delta, m |-> message bytes]:
     channel  <<status, data..>> (running status resolved)
     meta     <<255, type>> \o minimal VLQ of the length \o payload
     sysex    <<240>> \o payload     escape / continuation  <<247>> \o payload                         *)
EXTENDS Integers, Sequences, SequencesExt, Vlq

MThd == <<77, 84, 104, 100>>
MTrk == <<77, 84, 114, 107>>
EOTMsg == <<255, 47, 0>>
ChanData(s) == IF s \in 192..223 THEN 1 ELSE 2

P0 == [ph |-> "htype", pos |-> 0, acc |-> <<>>, fmt |-> 0, ntrks |-> 0, div |-> <<0, 0>>,
       tracks |-> <<>>, cur |-> <<>>, rs |-> 0, dl |-> <<>>, st |-> 0, mtyp |-> 0, ln |-> <<>>,
       skip |-> 0, tend |-> 0, nonmin |-> FALSE, alien |-> FALSE, err |-> ""]

Err(s, e) == [s EXCEPT !.ph = "err", !.err = e]

\* the event (delta s.dl, message m) ends at input position q
EndEvent(s, m, q) ==
  IF q > s.tend THEN Err(s, "event crosses the end of its chunk")
  ELSE [s EXCEPT !.cur = Append(s.cur, [d |-> Strip(s.dl), m |-> m]), !.dl = <<>>, !.ph = "delta",
                 !.acc = <<>>, !.ln = <<>>]

EndTrack(s, q) ==
  IF q # s.tend THEN Err(s, "end of track is not the end of the chunk")
  ELSE LET t == [s EXCEPT !.tracks = Append(s.tracks, Append(s.cur, [d |-> Strip(s.dl), m |-> EOTMsg])),
                          !.cur = <<>>, !.dl = <<>>, !.rs = 0, !.acc = <<>>, !.ln = <<>>]
       IN [t EXCEPT !.ph = IF Len(t.tracks) = t.ntrks THEN "xtype" ELSE "ctype"]

\* a length VLQ has just ended at position p with the digits s.ln
AfterLength(s, p, total, bytes) ==
  LET n == DigitsVal(Strip(s.ln)) IN
  IF s.st = 255 /\ s.mtyp = 47 THEN (IF n = 0 THEN EndTrack(s, p) ELSE Err(s, "end of track with payload"))
  ELSE IF n = Huge \/ p + n > total THEN [s EXCEPT !.ph = "trunc"]
  ELSE LET pay == IF n = 0 THEN <<>> ELSE SubSeq(bytes, p + 1, p + n)
           m   == IF s.st = 255 THEN <<255, s.mtyp>> \o VlqOfInt(n) \o pay ELSE <<s.st>> \o pay
           t   == EndEvent(s, m, p + n)
       IN IF t.ph = "err" THEN t ELSE [t EXCEPT !.skip = n]

PStep(bytes, total, s0, b) ==
  LET p == s0.pos + 1
      s == [s0 EXCEPT !.pos = p] IN
  IF s.ph \in {"err", "trunc"} THEN s
  ELSE IF s.skip > 0 THEN [s EXCEPT !.skip = @ - 1]
  ELSE CASE s.ph = "htype" ->
         LET a == Append(s.acc, b) IN
         IF Len(a) < 4 THEN [s EXCEPT !.acc = a]
         ELSE IF a = MThd THEN [s EXCEPT !.ph = "hlen", !.acc = <<>>] ELSE Err(s, "no MThd")
    [] s.ph = "hlen" ->
         LET a == Append(s.acc, b) IN
         IF Len(a) < 4 THEN [s EXCEPT !.acc = a]
         ELSE IF a = <<0, 0, 0, 6>> THEN [s EXCEPT !.ph = "hdata", !.acc = <<>>] ELSE Err(s, "header length is not 6")
    [] s.ph = "hdata" ->
         LET a == Append(s.acc, b) IN
         IF Len(a) < 6 THEN [s EXCEPT !.acc = a]
         ELSE IF a[1] # 0 \/ a[2] > 2 THEN Err(s, "format")
         ELSE LET n == U16(<<a[3], a[4]>>) IN
              [s EXCEPT !.fmt = a[2], !.ntrks = n, !.div = <<a[5], a[6]>>, !.acc = <<>>,
                        !.ph = IF n = 0 THEN "xtype" ELSE "ctype"]
    [] s.ph \in {"ctype", "xtype"} ->
         LET a == Append(s.acc, b) IN
         IF Len(a) < 4 THEN [s EXCEPT !.acc = a]
         ELSE IF a = MTrk /\ s.ph = "xtype" THEN Err(s, "more track chunks than the header announces")
         ELSE [s EXCEPT !.ph = IF s.ph = "ctype" THEN "clen" ELSE "xlen", !.mtyp = IF a = MTrk THEN 1 ELSE 0, !.acc = <<>>]
    [] s.ph \in {"clen", "xlen"} ->
         LET a == Append(s.acc, b) IN
         IF Len(a) < 4 THEN [s EXCEPT !.acc = a]
         ELSE LET n == U28(a)
                  back == IF s.ph = "clen" THEN "ctype" ELSE "xtype" IN
              IF s.mtyp = 1
                THEN IF n = Huge THEN [s EXCEPT !.ph = "trunc"]
                     ELSE [s EXCEPT !.ph = "delta", !.acc = <<>>, !.dl = <<>>, !.cur = <<>>, !.rs = 0, !.tend = p + n]
              ELSE IF n = Huge \/ p + n > total THEN [s EXCEPT !.ph = "trunc", !.alien = TRUE]
              ELSE [s EXCEPT !.ph = back, !.acc = <<>>, !.skip = n, !.alien = TRUE]
    [] s.ph = "delta" ->
         IF p > s.tend THEN Err(s, "chunk ends without end of track")
         ELSE LET nm == s.nonmin \/ (s.dl = <<>> /\ b = 128) IN
         IF b >= 128 THEN (IF Len(s.dl) >= 3 THEN Err(s, "delta VLQ longer than four bytes")
                           ELSE [s EXCEPT !.dl = Append(s.dl, b - 128), !.nonmin = nm])
         ELSE [s EXCEPT !.dl = Append(s.dl, b), !.ph = "status", !.nonmin = nm]
    [] s.ph = "status" ->
         IF b = 255 THEN [s EXCEPT !.rs = 0, !.st = b, !.ph = "mtype"]
         ELSE IF b = 240 \/ b = 247 THEN [s EXCEPT !.rs = 0, !.st = b, !.ph = "len", !.ln = <<>>]
         ELSE IF b \in 128..239 THEN [s EXCEPT !.rs = b, !.st = b, !.ph = "d1"]
         ELSE IF b < 128 /\ s.rs # 0
              THEN IF ChanData(s.rs) = 1 THEN EndEvent(s, <<s.rs, b>>, p)
                   ELSE [s EXCEPT !.st = s.rs, !.acc = <<b>>, !.ph = "d2"]
         ELSE IF b < 128 THEN Err(s, "data byte without running status")
         ELSE Err(s, "system common / real-time status in a track")
    [] s.ph = "mtype" -> IF b >= 128 THEN Err(s, "meta type above 127") ELSE [s EXCEPT !.mtyp = b, !.ph = "len", !.ln = <<>>]
    [] s.ph = "len" ->
         LET nm == s.nonmin \/ (s.ln = <<>> /\ b = 128) IN
         IF b >= 128 THEN (IF Len(s.ln) >= 3 THEN Err(s, "length VLQ longer than four bytes")
                           ELSE [s EXCEPT !.ln = Append(s.ln, b - 128), !.nonmin = nm])
         ELSE AfterLength([s EXCEPT !.ln = Append(s.ln, b), !.nonmin = nm], p, total, bytes)
    [] s.ph = "d1" ->
         IF b >= 128 THEN Err(s, "status byte where data is expected")
         ELSE IF ChanData(s.st) = 1 THEN EndEvent(s, <<s.st, b>>, p) ELSE [s EXCEPT !.acc = <<b>>, !.ph = "d2"]
    [] s.ph = "d2" ->
         IF b >= 128 THEN Err(s, "status byte where data is expected") ELSE EndEvent(s, <<s.st, s.acc[1], b>>, p)

Run(bytes) == LET total == Len(bytes) IN FoldLeft(LAMBDA s, b : PStep(bytes, total, s, b), P0, bytes)

\* what the decoder says about a complete input
Result(s) ==
  IF s.ph = "err" THEN [kind |-> "error", err |-> s.err]
  ELSE IF s.ph = "xtype" /\ s.acc = <<>> /\ s.skip = 0
       THEN [kind |-> "value", fmt |-> s.fmt, div |-> s.div, tracks |-> s.tracks,
             canon |-> ~s.nonmin /\ ~s.alien]
  ELSE [kind |-> "error", err |-> "input ends inside the file (" \o s.ph \o ")"]

Decode(bytes) == Result(Run(bytes))

\* division word -> the library's two time formats
TimeFormat(div) == IF div[1] < 128 THEN [kind |-> "metric", a |-> div[1] * 256 + div[2], b |-> 0]
                   ELSE [kind |-> "smpte", a |-> 256 - div[1], b |-> div[2]]
=============================================================================
