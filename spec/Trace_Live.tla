----------------------------- MODULE Trace_Live -----------------------------
(* Trace validation (binding T) for C04 / C06 / C13(part) / C14: every line of the trace is one
   complete session of the REAL decoder: options, the chunks put on the wire with their time deltas, and
   what the listener received after each chunk.  The session is replayed through LiveDecoder!Step and
   every delivered message (content, moment = chunk, time stamp) is compared.  Total trace spec: every
   line is consumed, rejected lines are collected and written to VERIF_OUT.                           *)
EXTENDS LiveDecoder, TLC, Json, IOUtils
VARIABLES l, bad

Trace == ndJsonDeserialize(IOEnv.VERIF_TRACE)

\* got: <<[b |-> bytes, ts |-> Int]>>; exp: <<Msg>>;  time stamps are compared relative to `base`
\* ts = FALSE: the origin of the driver's clock is unknown for this session, only content and moment are compared
Match(exp, got, base, ts) ==
  LET e == NoFD(exp)
      g == SelectSeq(got, LAMBDA m : m.b # <<253>>)
  IN /\ Len(e) = Len(g)
     /\ \A i \in 1..Len(e) : /\ g[i].b = e[i].b
                             /\ ts => /\ e[i].lo <= g[i].ts - base
                                      /\ g[i].ts - base <= e[i].hi

Judge(e) ==
  LET cfg  == [cap |-> e.cap, sysex |-> e.sysex, as |-> e.as, tc |-> e.tc]
      \* listener level: the driver's clock origin is the wall clock at Listen.  The harness pins it (e.exact: stamps
      \* are absolute, base 0); where it could not, a calibration Start byte sent first at dt = 0 fixes the origin,
      \* and without one the stamps of the session are not judged (tsKnown)
      calibrated == e.lvl = "listen" /\ ~e.exact /\ Len(e.chunks) > 0 /\ e.chunks[1].bytes = <<250>> /\ e.chunks[1].dt = 0
                    /\ Len(e.chunks[1].out) > 0
      base == IF calibrated THEN e.chunks[1].out[1].ts ELSE 0
      tsKnown == e.lvl = "reader" \/ e.exact \/ calibrated
      r == FoldLeft(LAMBDA acc, c :
                      LET now == acc.now + c.dt
                          d   == Deliver(cfg, acc.s, c.bytes, now)
                          got == IF e.lvl = "reader" THEN ReaderView(c.out) ELSE c.out
                      IN [s |-> d.s, now |-> now,
                          ok |-> acc.ok /\ Match(d.out, got, base, tsKnown),
                          exp |-> Append(acc.exp, [i \in 1..Len(d.out) |-> d.out[i].b])],
                    [s |-> Init0, now |-> 0, ok |-> TRUE, exp |-> <<>>], e.chunks)
      \* C14 clause: this session's deliveries are the projection of the all-options-on twin session
      twinOk == IF e.twin = <<>> THEN TRUE
                ELSE /\ Len(e.twin) = Len(e.chunks)
                     /\ \A i \in 1..Len(e.chunks) :
                          LET proj == SelectSeq(e.twin[i], LAMBDA m : Len(m.b) = 0 \/ Passes(cfg, m))
                              own  == e.chunks[i].out
                          IN /\ Len(proj) = Len(own)
                             /\ \A j \in 1..Len(own) : own[j].b = proj[j].b /\ (tsKnown => own[j].ts - base = proj[j].ts - e.twinbase)
      \* e.judge = "model": C04/C06 -- the session must be what the receiver model delivers;
      \* e.judge = "twin" : C14 -- only the relation between the two real runs is judged
      ok == IF e.judge = "twin" THEN e.panic = "" /\ twinOk ELSE e.panic = "" /\ r.ok
  IN [ok |-> ok,
      info |-> [id |-> e.id, panic |-> e.panic, expected |-> r.exp, modelOk |-> r.ok, twinOk |-> twinOk]]

Init == l = 1 /\ bad = <<>>
Next == \/ /\ l <= Len(Trace)
           /\ LET j == Judge(Trace[l])
              IN bad' = IF j.ok THEN bad ELSE Append(bad, [line |-> l, info |-> j.info])
           /\ l' = l + 1
        \/ /\ l = Len(Trace) + 1
           /\ ndJsonSerialize(IOEnv.VERIF_OUT, <<[consumed |-> Len(Trace)]>> \o bad)
           /\ l' = l + 1 /\ UNCHANGED bad
=============================================================================
