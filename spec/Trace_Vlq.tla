------------------------------ MODULE Trace_Vlq ------------------------------
(* Samples of the C03 VLQ sweep judged by the specification: the bytes the real writer emitted for delta n
   are exactly Vlq(n), canonical, and the real reader gave n back.  This validates the 6-line Go
   transcription of IsCanonicalVlq that the exhaustive sweep uses.                                       *)
EXTENDS Vlq, TLC, Json, IOUtils
VARIABLES l, bad
Trace == ndJsonDeserialize(IOEnv.VERIF_TRACE)
Judge(e) ==
  LET okv == /\ e.bytes = VlqOfInt(e.n) /\ IsCanonicalVlq(e.bytes) /\ e.back = e.n /\ e.goSaysCanonical IN
  [ok |-> okv, info |-> [n |-> e.n, expected |-> VlqOfInt(e.n), got |-> e.bytes, back |-> e.back]]
Init == l = 1 /\ bad = <<>>
Next == \/ /\ l <= Len(Trace)
           /\ LET j == Judge(Trace[l])
              IN bad' = IF j.ok THEN bad ELSE Append(bad, [line |-> l, info |-> j.info])
           /\ l' = l + 1
        \/ /\ l = Len(Trace) + 1
           /\ ndJsonSerialize(IOEnv.VERIF_OUT, <<[consumed |-> Len(Trace)]>> \o bad)
           /\ l' = l + 1 /\ UNCHANGED bad
=============================================================================
