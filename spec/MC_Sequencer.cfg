CONSTANTS
  MaxBars = 3
  Sigs <- SigSet
  Resolutions <- ResSet
INIT Init
NEXT Next
CHECK_DEADLOCK FALSE
INVARIANT LayoutInv
INVARIANT ModelOkInv
INVARIANT Mutant8Inv
INVARIANT MutantOffInv
INVARIANT MutantEndInv
INVARIANT RestateInv
