------------------------- MODULE MC_SequencerImport -------------------------
(* TLC over small songs (built bar by bar; signatures that change, stay, and return; notes that cross bar lines,
   repeat on the same key back to back, overlap on one key inside one track and across two tracks):

   a reference exporter that follows C20 (note end as NoteOff or NoteOn velocity 0; events of one tick in either
   order) composed with a reference importer that follows the import's stated method (bars from the
   time-signature events and the end of the tracks, 4/4 before the first signature; an event belongs to the
   last bar that starts at or before it; a note end closes an open note of its channel and key in its track)
   satisfies ImportOk for BOTH exports under every freedom the specification leaves (which open note a note end
   closes: newest or oldest), and importers with realistic defects are rejected exactly when the defect shows:
   bars after the last signature change left without a start, an event on a bar line given to the bar that ends
   there, all tracks merged, durations off by one.                                                            *)
EXTENDS SequencerImport, TLC

CONSTANTS XMaxBars, XSigs, XResolutions
VARIABLES bars, res

XSigSet == {<<4, 4>>, <<3, 4>>, <<12, 8>>}
XSigSetBig == {<<4, 4>>, <<3, 4>>, <<12, 8>>, <<7, 1>>}
XResSet == {8, 960}
XResOne == {960}

XNote(trk, ch, pos, dur, key) == [trk |-> trk, pos |-> pos, dur |-> dur, msg |-> <<144 + ch, key, 100>>]
XCC(trk, pos)                 == [trk |-> trk, pos |-> pos, dur |-> 0, msg |-> <<176, 7, 99>>]
XPC(trk, pos)                 == [trk |-> trk, pos |-> pos, dur |-> 0, msg |-> <<193, 5>>]

XEvChoices(L) == { <<>>,
                   <<XNote(0, 0, 0, 1, 60)>>,
                   <<XNote(1, 1, L - 1, 1, 61), XPC(1, 0)>>,
                   <<XCC(0, L - 1), XNote(2, 2, 0, L + 1, 62)>>,                  \* a note that reaches into the next bar
                   <<XNote(0, 0, 0, L, 60), XNote(0, 0, 0, 1, 60)>>,             \* same key twice on one tick
                   <<XNote(0, 0, 2, 1, 60), XNote(0, 0, 1, 1, 60)>>,             \* the same key back to back (touching), listed out of order
                   <<XNote(3, 0, 1, 2, 64), XNote(0, 0, 2, 2, 64), XCC(3, 0)>> } \* overlap on one channel and key in two tracks

Init == bars = <<>> /\ res \in XResolutions
AddBar(sig, evs) == /\ Len(bars) < XMaxBars
                    /\ bars' = Append(bars, [num |-> sig[1], den |-> sig[2], evs |-> evs])
                    /\ UNCHANGED res
Next == \E sig \in XSigs : \E evs \in XEvChoices(BarLen32(sig[1], sig[2])) : AddBar(sig, evs)

\* ---- reference exporter (C20) ---------------------------------------------------------------------------
XInsertByTick(acc, e, after) ==      \* after: equal ticks keep arrival order (TRUE) or reverse it (FALSE)
  LET k == Cardinality({i \in 1..Len(acc) : IF after THEN acc[i].t <= e.t ELSE acc[i].t < e.t})
  IN SubSeq(acc, 1, k) \o <<e>> \o SubSeq(acc, k + 1, Len(acc))
XSortByTick(seq, after) == FoldLeft(LAMBDA acc, e : XInsertByTick(acc, e, after), <<>>, seq)

XEvOf(it, offAsOn) ==
  [t |-> it.t,
   m |-> CASE it.k = "off" -> IF offAsOn THEN <<144 + it.a, it.b, 0>> ELSE <<128 + it.a, it.b, 64>>
           [] it.k = "sig" -> <<255, 88, 4, it.a, it.b, 8, 8>>
           [] OTHER -> it.m]

XItemsOf(bs, r, onlyTrk) ==
  LET s == BarStarts32(bs)
      barItems(i) == LET sel == SelectSeq(bs[i].evs, LAMBDA ev : onlyTrk = -1 \/ ev.trk = onlyTrk)
                     IN FlattenSeq([j \in 1..Len(sel) |-> EventItems(s[i], sel[j], r)])
  IN FlattenSeq([i \in 1..Len(bs) |-> barItems(i)])

XTrack(items, end, offAsOn, after) ==
  XSortByTick([i \in 1..Len(items) |-> XEvOf(items[i], offAsOn)], after) \o <<[t |-> end, m |-> <<255, 47, 0>>]>>

XTrkSeq(bs) == SetToSortSeq({k \in 0..7 : \E i \in 1..Len(bs) : \E j \in 1..Len(bs[i].evs) : bs[i].evs[j].trk = k}, <)

XExport0(bs, r, offAsOn, after) ==
  <<XTrack(ExpectedSigs(bs, r) \o XItemsOf(bs, r, -1), EndTick(bs, r), offAsOn, after)>>
XExport1(bs, r, offAsOn, after) ==
  LET ts == XTrkSeq(bs)
  IN <<XTrack(ExpectedSigs(bs, r), EndTick(bs, r), offAsOn, after)>> \o
     [k \in 1..Len(ts) |-> XTrack(XItemsOf(bs, r, ts[k]), EndTick(bs, r), offAsOn, after)]

\* ---- reference importer, with switches for the freedoms and for the defects -----------------------------
\* v = [oldest, trail0, line, onetrk, durplus : BOOLEAN]
XDen(ld) == CASE ld = 0 -> 1 [] ld = 1 -> 2 [] ld = 2 -> 4 [] ld = 3 -> 8 [] ld = 4 -> 16 [] ld = 5 -> 32 [] OTHER -> 0

XMaxT(tracks) == LET all == FlattenSeq(tracks) IN FoldLeft(LAMBDA m, e : IF e.t > m THEN e.t ELSE m, 0, all)

XSigList(tracks) ==
  LET sg == SelectSeq(FlattenSeq(tracks), LAMBDA e : IsTimeSig(e.m))
      sl == XSortByTick([k \in 1..Len(sg) |-> [t |-> sg[k].t, num |-> sg[k].m[4], den |-> XDen(sg[k].m[5])]], TRUE)
  IN IF sl = <<>> \/ sl[1].t # 0 THEN <<[t |-> 0, num |-> 4, den |-> 4]>> \o sl ELSE sl

XImpBars(tracks, r, v) ==
  LET sl == XSigList(tracks)
      end == XMaxT(tracks)
      seg(k) == LET upto == IF k < Len(sl) THEN sl[k + 1].t ELSE end
                    len == BarLen32(sl[k].num, sl[k].den) * Ticks32(r)
                    cnt == (upto - sl[k].t) \div len
                IN [n \in 1..cnt |-> [num |-> sl[k].num, den |-> sl[k].den,
                                      abs |-> IF v.trail0 /\ k = Len(sl) /\ n > 1 THEN 0 ELSE sl[k].t + (n - 1) * len]]
  IN FlattenSeq([k \in 1..Len(sl) |-> seg(k)])

\* the last bar of the leading run of bars that start at or before t (as a scan over the bars finds it)
XFindBar(ib, t, line) ==
  LET ok(i) == \A k \in 1..i : IF line THEN ib[k].abs < t ELSE ib[k].abs <= t
      S == {i \in 1..Len(ib) : ok(i)}
  IN IF S = {} THEN 1 ELSE CHOOSE i \in S : \A k \in S : k <= i

XImpTrack(track, ti, ib, r, v) ==
  LET mk(e) == LET b == XFindBar(ib, e.t, v.line)
               IN [trk |-> IF v.onetrk THEN 0 ELSE ti, bar |-> b, pos |-> (e.t - ib[b].abs) \div Ticks32(r), dur |-> 0, msg |-> e.m, t |-> e.t]
      step(acc, e) ==
        IF IsNoteOn(e.m) THEN
          LET ch == e.m[1] % 16
              held == {o \in acc.open : o[1] = ch /\ o[2] = e.m[2]}
          IN [out |-> Append(acc.out, mk(e)),
              open |-> IF v.oldest /\ held # {} THEN acc.open
                       ELSE (acc.open \ held) \cup {<<ch, e.m[2], Len(acc.out) + 1>>}]
        ELSE IF IsNoteEnd(e.m) THEN
          LET held == {o \in acc.open : o[1] = e.m[1] % 16 /\ o[2] = e.m[2]}
          IN IF held = {} THEN acc
             ELSE LET o == CHOOSE o \in held : TRUE
                      was == acc.out[o[3]]
                  IN [out |-> [acc.out EXCEPT ![o[3]] = [was EXCEPT !.dur = (e.t - was.t) \div Ticks32(r) + (IF v.durplus THEN 1 ELSE 0)]],
                      open |-> acc.open \ held]
        ELSE IF IsChanMsg(e.m) THEN [out |-> Append(acc.out, mk(e)), open |-> acc.open]
        ELSE acc
  IN FoldLeft(step, [out |-> <<>>, open |-> {}], track).out

XImport(tracks, r, v) ==
  LET ib == XImpBars(tracks, r, v)
      evs == FlattenSeq([ti \in 1..Len(tracks) |-> XImpTrack(tracks[ti], ti - 1, ib, r, v)])
      ofBar(i) == LET sel == SelectSeq(evs, LAMBDA x : x.bar = i)
                  IN [j \in 1..Len(sel) |-> [trk |-> sel[j].trk, pos |-> sel[j].pos, dur |-> sel[j].dur, msg |-> sel[j].msg]]
  IN [ticks |-> r,
      bars |-> [i \in 1..Len(ib) |-> [no |-> i - 1, num |-> ib[i].num, den |-> ib[i].den, abs |-> ib[i].abs, evs |-> ofBar(i)]]]

V0 == [oldest |-> FALSE, trail0 |-> FALSE, line |-> FALSE, onetrk |-> FALSE, durplus |-> FALSE]

\* ---- invariants -------------------------------------------------------------------------------------------
XInDom == SongInDomain(bars, res)
XAllEvs == FlattenSeq([i \in 1..Len(bars) |-> bars[i].evs])
XTracksUsed == {XAllEvs[k].trk : k \in 1..Len(XAllEvs)}

Both(v, offAsOn, after) ==
  /\ ImportOk(bars, res, XImport(XExport1(bars, res, offAsOn, after), res, v), 1)
  /\ ImportOk(bars, res, XImport(XExport0(bars, res, offAsOn, after), res, v), 0)

\* the reference round trip is accepted under every freedom
RefOkInv ==
  XInDom => \A offAsOn \in BOOLEAN : \A after \in BOOLEAN : \A oldest \in BOOLEAN :
              Both([V0 EXCEPT !.oldest = oldest], offAsOn, after)

\* bars after the first bar of the last signature run left at start 0: wrong as soon as such a bar exists
XLastRunStart == LET c == SigChanges(bars) IN IF c = <<>> THEN 1 ELSE c[Len(c)]
MutTrailInv ==
  XInDom => LET v == [V0 EXCEPT !.trail0 = TRUE]
                shows == XLastRunStart < Len(bars)
            IN /\ ImportOk(bars, res, XImport(XExport1(bars, res, FALSE, TRUE), res, v), 1) = ~shows
               /\ ImportOk(bars, res, XImport(XExport0(bars, res, FALSE, TRUE), res, v), 0) = ~shows

\* an event on a bar line given to the bar that ends there: wrong as soon as a later bar has an event at position 0
MutLineInv ==
  XInDom => LET v == [V0 EXCEPT !.line = TRUE]
                shows == \E i \in 2..Len(bars) : \E j \in 1..Len(bars[i].evs) : bars[i].evs[j].pos = 0
            IN /\ ImportOk(bars, res, XImport(XExport1(bars, res, FALSE, TRUE), res, v), 1) = ~shows
               /\ ImportOk(bars, res, XImport(XExport0(bars, res, TRUE, FALSE), res, v), 0) = ~shows

\* all tracks merged into one: wrong after ToSMF1 as soon as two tracks are used, never judged after ToSMF0
MutTrkInv ==
  XInDom => LET v == [V0 EXCEPT !.onetrk = TRUE]
            IN /\ ImportOk(bars, res, XImport(XExport1(bars, res, FALSE, TRUE), res, v), 1) = (Cardinality(XTracksUsed) <= 1)
               /\ ImportOk(bars, res, XImport(XExport0(bars, res, FALSE, TRUE), res, v), 0)

\* durations one 32nd too long: wrong as soon as one note is unambiguous
MutDurInv ==
  XInDom => LET v == [V0 EXCEPT !.durplus = TRUE]
                notes == SongNotes(bars)
                clear(mode) == \E k \in 1..Len(notes) : ~Ambiguous(notes[k], notes, mode)
            IN /\ ImportOk(bars, res, XImport(XExport1(bars, res, FALSE, TRUE), res, v), 1) = ~clear(1)
               /\ ImportOk(bars, res, XImport(XExport0(bars, res, FALSE, TRUE), res, v), 0) = ~clear(0)

\* the permissive part is not idle: with touching notes listed out of order and equal ticks reversed, the importer
\* that closes the newest open note loses a duration, which ImportOk tolerates ONLY there
FreedomUsedInv ==
  XInDom => LET imp == XImport(XExport1(bars, res, FALSE, FALSE), res, V0)
                lost == \E i \in 1..Len(bars) : \E j \in 1..Len(imp.bars[i].evs) :
                          IsNoteOn(imp.bars[i].evs[j].msg) /\ imp.bars[i].evs[j].dur = 0
            IN lost => AmbKeys(bars, 1) # {}

\* something interesting is reachable (checked once by making it an invariant and watching it fail)
XWitness == ~(XInDom /\ Len(bars) = XMaxBars /\ AmbKeys(bars, 1) # AmbKeys(bars, 0) /\ Len(SigChanges(bars)) >= 2)
=============================================================================
