\* quick: every selection x every port map (with/without the -1 default, unmapped tracks, foreign keys, empty map)
\* the trace acceptor (Player!Via) as next-state relation: accepts only stable merges
CONSTANTS
  NT = 3
  NE = 1
  MaxNow = 1
  Kinds <- KindsNoB
  TimePats <- Pats3
  Sels <- SelsAll
  PortMaps <- PMall
INIT Init
NEXT NextJ
INVARIANTS AllWellFormed SentOk Complete AttrAgrees
CHECK_DEADLOCK FALSE
