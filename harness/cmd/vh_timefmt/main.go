// vh_timefmt: harness for X06 (time formats, note lengths, tempo changes and key signatures of package smf).
// It only calls the real library and records what came back; every judgement is made by TLC (spec/Trace_TimeFormat.tla).
// Numbers that may not fit TLC's 32-bit integers travel as decimal digits (strconv), a float64 tempo as the exact
// dyadic fraction mant * 2^ex it is (bit decomposition below; the only arithmetic in this file).
//
//	vh_timefmt gen   -out recs.ndjson -seed n [-nrandom n] [-full]
//	vh_timefmt rerun -in heads.ndjson -out recs.ndjson      (re-executes ev/a/nums/name/msg of every line)
package main

import (
	"bytes"
	"encoding/json"
	"flag"
	"fmt"
	"math"
	"math/rand"
	"os"
	"sort"
	"strconv"
	"time"

	"gitlab.com/gomidi/midi/v2/smf"

	"verifharness/internal/hx"
)

// SBig is a signed integer as sign + decimal digits (most significant first).
type SBig struct {
	Neg bool  `json:"neg"`
	D   []int `json:"d"`
}

// Rec is one experiment.  Inputs: Ev A Nums Name Msg.  Everything else is what the library returned.
//
//	notelen  A=[base]           Outs[10*i..] = Resolution Ticks4th 8th 16th 32th 64th 128th 256th 512th 1024th of MetricTicks(base+i), i<256
//	hdrm     A=[base]           Outs[6*i..]  = werr hi lo rkind ra rb for SMF{TimeFormat: MetricTicks(base+i)}: WriteTo, division bytes, ReadFrom
//	hdrt     A=[fps]            Outs[6*i..]  = the same for TimeCode{fps, i}
//	rdword   A=[hi]             Outs[3*i..]  = rkind ra rb of ReadFrom on a minimal file whose division word is hi, i
//	ctor     A=[24|25|29|30]    Outs[2*i..]  = FramesPerSecond SubFrames of SMPTE24/25/30DropFrame/30(i)
//	str      A=[0,q,0]|[1,fps,sub]  Strs[0] = String() of MetricTicks(q) / TimeCode{fps, sub}
//	in64     A=[q,beyond]  Nums=ticks           Bigs[i] = MetricTicks(q).In64ths(ticks[i])
//	dur      A=[q,ex] Nums=[mant, n1..nk]       Bigs = Duration(bpm, n_i) ++ Ticks(bpm, that duration)      (bpm = mant * 2^ex)
//	ticks    A=[q,ex] Nums=[mant, d1..dk]       Bigs = Ticks(bpm, d_i ns) ++ Duration(bpm, those ticks)
//	tempoat  A=[k, t1,bpm1..tk,bpmk, queries..]  Outs = for each query: TempoAt (integer, -1 if not integral), index of TempoChangeAt (0 = nil)
//	tchg     A=[res, k, t1,bpm1..tk,bpmk]        Outs = [rerr, n, AbsTicks1, BPM1, ...] of ReadFrom(WriteTo(file with those tempo events)).TempoChanges()
//	key      Name=constructor                    Msg = its message, Outs = ok Key Num IsMajor IsFlat (GetMetaKey) ok key num major flat (GetMetaKeySig) ok (GetMetaKey(nil)) ok (GetMetaKeySig(nil..)), S = Key.String()
//	metakey  A=[key,num,major,flat]              Msg = MetaKey(...), Outs / S as for key
//	keyraw   Msg = the message                   Outs / S as for key
//
// rkind: 0 MetricTicks, 1 TimeCode, 2 ReadFrom failed, 3 another TimeFormat type.  An integer that does not fit 31 bits is recorded as -1.
type Rec struct {
	Ev    string  `json:"ev"`
	A     []int   `json:"a"`
	Nums  [][]int `json:"nums"`
	Name  string  `json:"name"`
	Msg   hx.B    `json:"msg"`
	Outs  []int   `json:"outs"`
	Bigs  []SBig  `json:"bigs"`
	Strs  []hx.B  `json:"strs"`
	S     string  `json:"s"`
	Panic string  `json:"panic"`
}

func i31(v uint64) int {
	if v > 0x7fffffff {
		return -1
	}
	return int(v)
}

func b2i(b bool) int {
	if b {
		return 1
	}
	return 0
}

func digits(u uint64) []int {
	d := []int{}
	for _, c := range strconv.FormatUint(u, 10) {
		d = append(d, int(c-'0'))
	}
	return d
}

func sbig(i int64) SBig {
	if i < 0 {
		return SBig{Neg: true, D: digits(uint64(-(i+1)) + 1)}
	}
	return SBig{D: digits(uint64(i))}
}

func undigits(d []int) uint64 {
	var u uint64
	for _, x := range d {
		u = u*10 + uint64(x)
	}
	return u
}

// dyadic form of a positive normal float64: f = mant * 2^ex exactly, mant odd
func dyadic(f float64) (mant uint64, ex int) {
	b := math.Float64bits(f)
	e := int(b>>52) & 0x7ff
	if f <= 0 || e == 0 || e == 0x7ff {
		hx.Die("not a positive normal float64", f)
	}
	mant = b&(1<<52-1) | 1<<52
	ex = e - 1075
	for mant&1 == 0 {
		mant >>= 1
		ex++
	}
	return
}

// ---------------------------------------------------------------------------------------- the library calls

var keyCtors = map[string]func() smf.Message{
	"CMaj": smf.CMaj, "DMaj": smf.DMaj, "EMaj": smf.EMaj, "FsharpMaj": smf.FsharpMaj, "GMaj": smf.GMaj, "AMaj": smf.AMaj, "BMaj": smf.BMaj,
	"FMaj": smf.FMaj, "BbMaj": smf.BbMaj, "EbMaj": smf.EbMaj, "AbMaj": smf.AbMaj, "DbMaj": smf.DbMaj, "GbMaj": smf.GbMaj,
	"AMin": smf.AMin, "BMin": smf.BMin, "CsharpMin": smf.CsharpMin, "DsharpMin": smf.DsharpMin, "EMin": smf.EMin, "FsharpMin": smf.FsharpMin, "GsharpMin": smf.GsharpMin,
	"DMin": smf.DMin, "GMin": smf.GMin, "CMin": smf.CMin, "FMin": smf.FMin, "BbMin": smf.BbMin, "EbMin": smf.EbMin,
}

func noteLens(q smf.MetricTicks) []int {
	return []int{int(q.Resolution()), i31(uint64(q.Ticks4th())), i31(uint64(q.Ticks8th())), i31(uint64(q.Ticks16th())), i31(uint64(q.Ticks32th())),
		i31(uint64(q.Ticks64th())), i31(uint64(q.Ticks128th())), i31(uint64(q.Ticks256th())), i31(uint64(q.Ticks512th())), i31(uint64(q.Ticks1024th()))}
}

func describeTF(tf smf.TimeFormat) (kind, a, b int) {
	switch t := tf.(type) {
	case smf.MetricTicks:
		return 0, int(t), 0
	case smf.TimeCode:
		return 1, int(t.FramesPerSecond), int(t.SubFrames)
	}
	return 3, 0, 0
}

func readTF(file []byte) (kind, a, b int) {
	s, err := smf.ReadFrom(bytes.NewReader(file))
	if err != nil || s == nil {
		return 2, 0, 0
	}
	return describeTF(s.TimeFormat)
}

// write a one-track file with the given time format, pick the division word out of the header, read the file back
func headerTrip(tf smf.TimeFormat) []int {
	s := smf.New()
	s.TimeFormat = tf
	var tr smf.Track
	tr.Close(0)
	s.Add(tr)
	var bf bytes.Buffer
	_, err := s.WriteTo(&bf)
	if err != nil {
		return []int{1, -1, -1, 2, 0, 0}
	}
	file := bf.Bytes()
	hi, lo := -1, -1
	if len(file) >= 14 {
		hi, lo = int(file[12]), int(file[13])
	}
	k, a, b := readTF(file)
	return []int{0, hi, lo, k, a, b}
}

func minimalFile(hi, lo byte) []byte {
	return []byte{'M', 'T', 'h', 'd', 0, 0, 0, 6, 0, 0, 0, 1, hi, lo, 'M', 'T', 'r', 'k', 0, 0, 0, 4, 0, 0xFF, 0x2F, 0}
}

func keyAnswers(m smf.Message) (outs []int, s string) {
	var k smf.Key
	ok := m.GetMetaKey(&k)
	var key, num uint8
	var maj, flat bool
	ok2 := m.GetMetaKeySig(&key, &num, &maj, &flat)
	s = k.String()
	// "Only arguments that are not nil are parsed and filled"
	ok3 := m.GetMetaKey(nil)
	ok4 := m.GetMetaKeySig(nil, nil, nil, nil)
	return []int{b2i(ok), int(k.Key), int(k.Num), b2i(k.IsMajor), b2i(k.IsFlat), b2i(ok2), int(key), int(num), b2i(maj), b2i(flat), b2i(ok3), b2i(ok4)}, s
}

func integral(f float64) int {
	if f != math.Trunc(f) || f < 0 || f > 1e9 {
		return -1
	}
	return int(f)
}

// exec performs the experiment named by the inputs on the real library.
func exec(ev string, a []int, nums [][]int, name string, msg []byte) *Rec {
	r := &Rec{Ev: ev, A: append([]int{}, a...), Nums: nums, Name: name, Msg: append(hx.B{}, msg...), Outs: []int{}, Bigs: []SBig{}, Strs: []hx.B{}}
	if r.Nums == nil {
		r.Nums = [][]int{}
	}
	done := make(chan struct{})
	go func() {
		defer close(done)
		r.Panic = hx.Catch(func() { run(r) })
	}()
	select {
	case <-done:
	case <-time.After(30 * time.Second):
		r.Panic = "timeout: no answer within 30 s"
	}
	return r
}

func run(r *Rec) {
	a := r.A
	switch r.Ev {
	case "notelen":
		for i := 0; i < 256; i++ {
			r.Outs = append(r.Outs, noteLens(smf.MetricTicks(a[0]+i))...)
		}
	case "hdrm":
		for i := 0; i < 256; i++ {
			r.Outs = append(r.Outs, headerTrip(smf.MetricTicks(a[0]+i))...)
		}
	case "hdrt":
		for i := 0; i < 256; i++ {
			r.Outs = append(r.Outs, headerTrip(smf.TimeCode{FramesPerSecond: uint8(a[0]), SubFrames: uint8(i)})...)
		}
	case "rdword":
		for i := 0; i < 256; i++ {
			k, x, y := readTF(minimalFile(byte(a[0]), byte(i)))
			r.Outs = append(r.Outs, k, x, y)
		}
	case "ctor":
		var f func(uint8) smf.TimeCode
		switch a[0] {
		case 24:
			f = smf.SMPTE24
		case 25:
			f = smf.SMPTE25
		case 29:
			f = smf.SMPTE30DropFrame
		case 30:
			f = smf.SMPTE30
		default:
			hx.Die("bad ctor", a)
		}
		for i := 0; i < 256; i++ {
			t := f(uint8(i))
			r.Outs = append(r.Outs, int(t.FramesPerSecond), int(t.SubFrames))
		}
	case "str":
		var tf smf.TimeFormat
		if a[0] == 0 {
			tf = smf.MetricTicks(a[1])
		} else {
			tf = smf.TimeCode{FramesPerSecond: uint8(a[1]), SubFrames: uint8(a[2])}
		}
		r.Strs = append(r.Strs, hx.B(tf.String()))
	case "in64":
		q := smf.MetricTicks(a[0])
		for _, n := range r.Nums {
			r.Bigs = append(r.Bigs, sbig(int64(q.In64ths(uint32(undigits(n))))))
		}
	case "dur":
		q := smf.MetricTicks(a[0])
		bpm := math.Ldexp(float64(undigits(r.Nums[0])), a[1])
		var back []SBig
		for _, n := range r.Nums[1:] {
			d := q.Duration(bpm, uint32(undigits(n)))
			r.Bigs = append(r.Bigs, sbig(int64(d)))
			back = append(back, sbig(int64(q.Ticks(bpm, d))))
		}
		r.Bigs = append(r.Bigs, back...)
	case "ticks":
		q := smf.MetricTicks(a[0])
		bpm := math.Ldexp(float64(undigits(r.Nums[0])), a[1])
		var back []SBig
		for _, n := range r.Nums[1:] {
			t := q.Ticks(bpm, time.Duration(undigits(n)))
			r.Bigs = append(r.Bigs, sbig(int64(t)))
			back = append(back, sbig(int64(q.Duration(bpm, t))))
		}
		r.Bigs = append(r.Bigs, back...)
	case "tempoat":
		k := a[0]
		var tcs smf.TempoChanges
		for i := 0; i < k; i++ {
			tcs = append(tcs, &smf.TempoChange{AbsTicks: int64(a[1+2*i]), BPM: float64(a[2+2*i])})
		}
		for _, q := range a[1+2*k:] {
			at := tcs.TempoChangeAt(int64(q))
			idx := 0
			for i, tc := range tcs {
				if tc == at {
					idx = i + 1
				}
			}
			r.Outs = append(r.Outs, integral(tcs.TempoAt(int64(q))), idx)
		}
	case "tchg":
		s := smf.New()
		s.TimeFormat = smf.MetricTicks(a[0])
		var tr smf.Track
		last := 0
		for i := 0; i < a[1]; i++ {
			tr.Add(uint32(a[2+2*i]-last), smf.MetaTempo(float64(a[3+2*i])))
			last = a[2+2*i]
		}
		tr.Close(0)
		s.Add(tr)
		var bf bytes.Buffer
		if _, err := s.WriteTo(&bf); err != nil {
			r.Outs = []int{1, 0}
			return
		}
		rd, err := smf.ReadFrom(bytes.NewReader(bf.Bytes()))
		if err != nil {
			r.Outs = []int{1, 0}
			return
		}
		tcs := rd.TempoChanges()
		r.Outs = []int{0, len(tcs)}
		for _, tc := range tcs {
			r.Outs = append(r.Outs, i31(uint64(tc.AbsTicks)), integral(tc.BPM))
		}
	case "key":
		f, ok := keyCtors[r.Name]
		if !ok {
			hx.Die("unknown key constructor", r.Name)
		}
		r.Msg = append(hx.B{}, f()...)
		r.Outs, r.S = keyAnswers(smf.Message(r.Msg))
	case "metakey":
		r.Msg = append(hx.B{}, smf.MetaKey(uint8(a[0]), a[2] != 0, uint8(a[1]), a[3] != 0)...)
		r.Outs, r.S = keyAnswers(smf.Message(r.Msg))
	case "keyraw":
		r.Outs, r.S = keyAnswers(smf.Message(append([]byte{}, r.Msg...)))
	default:
		hx.Die("unknown ev", r.Ev)
	}
}

// ---------------------------------------------------------------------------------------- generators (inputs only)

var resCorners = []int{0, 1, 2, 3, 24, 48, 96, 120, 192, 240, 384, 480, 960, 960, 1920, 3840, 15360, 32767, 32768, 65535}

func pickRes(r *rand.Rand) int {
	switch r.Intn(4) {
	case 0:
		return resCorners[r.Intn(len(resCorners))]
	case 1:
		return 1 + r.Intn(2000)
	case 2:
		return 1 + r.Intn(32767)
	}
	return r.Intn(65536)
}

// tempi in [1, 1000]: integers, hundredths, thousandths, what a tempo event yields, any float64
func pickBpm(r *rand.Rand) float64 {
	switch r.Intn(7) {
	case 0:
		return float64(hx.Pick(r, 1, 2, 20, 30, 59, 60, 90, 100, 119, 120, 121, 140, 180, 200, 240, 300, 400, 500, 999, 1000))
	case 1:
		return float64(1 + r.Intn(1000))
	case 2:
		return float64(100+r.Intn(99901)) / 100
	case 3:
		return float64(1000+r.Intn(999001)) / 1000
	case 4:
		return 60000000 / float64(60000+r.Intn(16717216)) // microseconds per quarter of a tempo event, 3.58 .. 1000 BPM
	case 5:
		fs := []float64{1, 1.0000000000000002, 999.9999999999999, 120.5, 33.333333333333336, 1.3000000000000003, 66.66666666666667}
		return fs[r.Intn(len(fs))]
	}
	return 1 + r.Float64()*999
}

func u32s(r *rand.Rand) uint64 {
	switch r.Intn(8) {
	case 0:
		return uint64(r.Intn(4))
	case 1:
		return uint64(r.Intn(2000))
	case 2:
		return uint64(r.Intn(1 << 20))
	case 3:
		return uint64(r.Intn(1 << 28))
	case 4:
		return uint64(hx.Pick(r, 1<<28-1, 1<<28, 1<<28+1, 1<<31-1, 1<<31, 1<<32-1, 1<<32-2))
	case 5:
		return uint64(r.Uint32())
	case 6:
		return 1 << uint(r.Intn(32))
	}
	return uint64(r.Intn(100000))
}

func sortedWithNeighbours(vals []uint64, max uint64) [][]int {
	m := map[uint64]bool{}
	for _, v := range vals {
		if v <= max {
			m[v] = true
		}
	}
	for v := range m { // a few direct successors, for the monotonicity clause
		if v+1 <= max && v%3 == 0 {
			m[v+1] = true
		}
	}
	var s []uint64
	for v := range m {
		s = append(s, v)
	}
	sort.Slice(s, func(i, j int) bool { return s[i] < s[j] })
	out := [][]int{}
	for _, v := range s {
		out = append(out, digits(v))
	}
	return out
}

// durations: is the exact value of n ticks below 2^63 ns (with a margin)?  Used only to SELECT inputs; TLC re-checks the domain.
func durFits(q int, bpm float64, n uint64) bool {
	res := float64(q)
	if q == 0 {
		res = 960
	}
	return 60e9*float64(n)/(bpm*res) < 9.0e18
}

func ticksFit(q int, bpm float64, d uint64) bool {
	res := float64(q)
	if q == 0 {
		res = 960
	}
	return float64(d)*res*bpm/60e9 < 4.29e9
}

func genDur(r *rand.Rand) *Rec {
	for {
		q, bpm := pickRes(r), pickBpm(r)
		mant, ex := dyadic(bpm)
		var vals []uint64
		for i := 0; i < 10; i++ {
			if v := u32s(r); durFits(q, bpm, v+1) {
				vals = append(vals, v)
			}
		}
		if len(vals) == 0 {
			continue
		}
		nums := append([][]int{digits(mant)}, sortedWithNeighbours(vals, 1<<32-1)...)
		return exec("dur", []int{q, ex}, nums, "", nil)
	}
}

func genTicks(r *rand.Rand) *Rec {
	for {
		q, bpm := pickRes(r), pickBpm(r)
		mant, ex := dyadic(bpm)
		var vals []uint64
		for i := 0; i < 10; i++ {
			var d uint64
			switch r.Intn(7) {
			case 0:
				d = uint64(r.Intn(3000))
			case 1:
				d = uint64(r.Int63n(int64(time.Second)))
			case 2:
				d = uint64(r.Int63n(int64(time.Hour)))
			case 3:
				d = uint64(r.Int63n(int64(100 * time.Hour)))
			case 4:
				d = uint64(r.Intn(10000)) * uint64(time.Millisecond)
			case 5:
				d = uint64(hx.Pick(r, 1, 500000000, 499999999, 1000000000, 60000000000)) * uint64(1+r.Intn(3))
			default:
				d = uint64(r.Int63()) >> uint(r.Intn(40))
			}
			if ticksFit(q, bpm, d+1) {
				vals = append(vals, d)
			}
		}
		if len(vals) == 0 {
			continue
		}
		nums := append([][]int{digits(mant)}, sortedWithNeighbours(vals, 1<<62)...)
		return exec("ticks", []int{q, ex}, nums, "", nil)
	}
}

func genIn64(r *rand.Rand, q int, beyond bool) *Rec {
	res := uint64(q)
	if q == 0 {
		res = 960
	}
	var vals []uint64
	if beyond {
		for _, v := range []uint64{1 << 28, 1<<28 + 1, 1<<28 + res, 1 << 29, 1 << 30, 1 << 31, 1<<32 - 1, 1<<32 - res} {
			vals = append(vals, v)
		}
		for i := 0; i < 8; i++ {
			vals = append(vals, 1<<28+uint64(r.Int63n(1<<32-1<<28)))
		}
	} else {
		for _, v := range []uint64{0, 1, res - 1, res, res + 1, res / 16, res/16 + 1, 4 * res, 1<<28 - 1, 1<<28 - 2, (1<<28 - 1) / res * res} {
			if v < 1<<28 {
				vals = append(vals, v)
			}
		}
		for i := 0; i < 10; i++ {
			vals = append(vals, uint64(r.Intn(1<<28))>>uint(r.Intn(20)))
		}
	}
	nums := [][]int{}
	for _, v := range vals {
		nums = append(nums, digits(v))
	}
	return exec("in64", []int{q, b2i(beyond)}, nums, "", nil)
}

var evenBpms = []int{4, 5, 20, 30, 40, 50, 60, 75, 80, 96, 100, 120, 125, 150, 160, 200, 240, 250, 300, 375, 400, 480, 500, 600, 750, 800, 960, 1000}

func genTempoAt(r *rand.Rand) *Rec {
	k := r.Intn(7)
	a := []int{k}
	t := 0
	var ts []int
	for i := 0; i < k; i++ {
		if i > 0 || hx.Chance(r, 0.7) {
			t += hx.Pick(r, 0, 1, 1, 2, 10, 96, 960, r.Intn(100000), r.Intn(1<<30)/(k+1))
		}
		ts = append(ts, t)
		a = append(a, t, 1+r.Intn(1000))
	}
	for _, x := range ts {
		a = append(a, x-1, x, x+1)
	}
	a = append(a, -1, 0, 1, r.Intn(2000), r.Intn(1<<30), 1<<31-1)
	return exec("tempoat", a, nil, "", nil)
}

func genTchg(r *rand.Rand) *Rec {
	k := r.Intn(7)
	a := []int{pickRes(r), k}
	t := 0
	for i := 0; i < k; i++ {
		if i > 0 || hx.Chance(r, 0.5) {
			t += 1 + hx.Pick(r, 0, 1, 95, 959, r.Intn(100000), r.Intn(1<<27))
		}
		a = append(a, t, evenBpms[r.Intn(len(evenBpms))])
	}
	return exec("tchg", a, nil, "", nil)
}

func cmdGen(args []string) {
	fs := flag.NewFlagSet("gen", flag.ExitOnError)
	out := fs.String("out", "", "")
	seed := fs.Int64("seed", 1, "")
	nrandom := fs.Int("nrandom", 2000, "")
	full := fs.Bool("full", false, "")
	fs.Parse(args)
	r := rand.New(rand.NewSource(*seed))
	w := hx.Create(*out)
	defer w.Close()
	// exhaustive sweeps, 256 values per record
	for b := 0; b < 256; b++ {
		w.Put(exec("notelen", []int{b * 256}, nil, "", nil))
		w.Put(exec("hdrm", []int{b * 256}, nil, "", nil))
		w.Put(exec("hdrt", []int{b}, nil, "", nil))
		w.Put(exec("rdword", []int{b}, nil, "", nil))
	}
	for _, c := range []int{24, 25, 29, 30} {
		w.Put(exec("ctor", []int{c}, nil, "", nil))
	}
	// texts
	qs := []int{0, 1, 9, 10, 24, 96, 99, 100, 480, 959, 960, 961, 1000, 9999, 10000, 32767, 32768, 65535}
	nstr := 60
	if *full {
		nstr = 600
	}
	for i := 0; i < nstr; i++ {
		qs = append(qs, r.Intn(65536))
	}
	for _, q := range qs {
		w.Put(exec("str", []int{0, q, 0}, nil, "", nil))
	}
	for _, f := range []int{24, 25, 29, 30} {
		subs := []int{0, 1, 4, 8, 9, 10, 24, 25, 29, 30, 40, 80, 99, 100, 127, 128, 255}
		if *full {
			subs = nil
			for i := 0; i < 256; i++ {
				subs = append(subs, i)
			}
		} else {
			for i := 0; i < 8; i++ {
				subs = append(subs, r.Intn(256))
			}
		}
		for _, s := range subs {
			w.Put(exec("str", []int{1, f, s}, nil, "", nil))
		}
	}
	// In64ths
	var iq []int
	iq = append(iq, resCorners...)
	nin := 100
	if *full {
		nin = 2000
	}
	for i := 0; i < nin; i++ {
		iq = append(iq, pickRes(r))
	}
	for i, q := range iq {
		w.Put(genIn64(r, q, false))
		if i%4 == 0 {
			w.Put(genIn64(r, q, true))
		}
	}
	// Duration / Ticks
	for i := 0; i < *nrandom; i++ {
		w.Put(genDur(r))
		w.Put(genTicks(r))
	}
	// tempo changes
	nt := 150
	if *full {
		nt = 1500
	}
	for i := 0; i < nt; i++ {
		w.Put(genTempoAt(r))
		if i%2 == 0 {
			w.Put(genTchg(r))
		}
	}
	// keys
	var names []string
	for n := range keyCtors {
		names = append(names, n)
	}
	sort.Strings(names)
	for _, n := range names {
		w.Put(exec("key", nil, nil, n, nil))
	}
	for _, num := range []int{0, 1, 2, 3, 4, 5, 6, 7, 8, 9, 127, 128, 200, 249, 255} {
		for key := 0; key < 12; key++ {
			for mf := 0; mf < 4; mf++ {
				w.Put(exec("metakey", []int{key, num, mf & 1, mf >> 1}, nil, "", nil))
			}
		}
		w.Put(exec("metakey", []int{hx.Pick(r, 12, 60, 255), num, r.Intn(2), r.Intn(2)}, nil, "", nil))
	}
	for sf := 0; sf < 256; sf++ {
		for _, mi := range []int{0, 1, 2, 255} {
			w.Put(exec("keyraw", nil, nil, "", []byte{0xFF, 0x59, 0x02, byte(sf), byte(mi)}))
		}
	}
	fmt.Fprintf(os.Stderr, "%d records\n", w.N)
}

func cmdRerun(args []string) {
	fs := flag.NewFlagSet("rerun", flag.ExitOnError)
	in := fs.String("in", "", "")
	out := fs.String("out", "", "")
	fs.Parse(args)
	w := hx.Create(*out)
	defer w.Close()
	hx.ReadLines(*in, func(line []byte) {
		var h Rec
		if err := json.Unmarshal(line, &h); err != nil {
			hx.Die(err)
		}
		w.Put(exec(h.Ev, h.A, h.Nums, h.Name, h.Msg))
	})
}

func main() {
	if len(os.Args) < 2 {
		hx.Die("usage: vh_timefmt gen|rerun ...")
	}
	switch os.Args[1] {
	case "gen":
		cmdGen(os.Args[2:])
	case "rerun":
		cmdRerun(os.Args[2:])
	default:
		hx.Die("unknown command", os.Args[1])
	}
}
