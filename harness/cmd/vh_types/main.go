// vh_types is the harness of X07: observations of the type algebra of the REAL library (midi.Type.Is, Message.Is /
// IsOneOf at both levels, Type.String) and of the real-time constructors.  One NDJSON record per observation; no oracle
// here: TLC (spec/Trace_TypeAlgebra.tla) judges every record.  The only table in this file maps the NAMES the
// specification uses to the library's exported constants / constructors.
package main

import (
	"encoding/json"
	"flag"
	"fmt"
	"math/rand"
	"os"

	"gitlab.com/gomidi/midi/v2"
	"gitlab.com/gomidi/midi/v2/drivers/testdrv"
	"gitlab.com/gomidi/midi/v2/smf"

	"verifharness/internal/hx"
)

type named struct {
	name string
	t    midi.Type
}

var types = []named{
	{"Unknown", midi.UnknownMsg}, {"SysEx", midi.SysExMsg},
	{"RealTimeCat", midi.RealTimeMsg}, {"ChannelCat", midi.ChannelMsg}, {"SysCommonCat", midi.SysCommonMsg}, {"MetaCat", smf.MetaMsg},
	{"Tick", midi.TickMsg}, {"TimingClock", midi.TimingClockMsg}, {"Start", midi.StartMsg}, {"Continue", midi.ContinueMsg},
	{"Stop", midi.StopMsg}, {"ActiveSense", midi.ActiveSenseMsg}, {"Reset", midi.ResetMsg},
	{"NoteOn", midi.NoteOnMsg}, {"NoteOff", midi.NoteOffMsg}, {"ControlChange", midi.ControlChangeMsg}, {"PitchBend", midi.PitchBendMsg},
	{"AfterTouch", midi.AfterTouchMsg}, {"PolyAfterTouch", midi.PolyAfterTouchMsg}, {"ProgramChange", midi.ProgramChangeMsg},
	{"MTC", midi.MTCMsg}, {"SongSelect", midi.SongSelectMsg}, {"SPP", midi.SPPMsg}, {"Tune", midi.TuneMsg},
	{"MetaChannel", smf.MetaChannelMsg}, {"MetaCopyright", smf.MetaCopyrightMsg}, {"MetaCuepoint", smf.MetaCuepointMsg},
	{"MetaDevice", smf.MetaDeviceMsg}, {"MetaEndOfTrack", smf.MetaEndOfTrackMsg}, {"MetaInstrument", smf.MetaInstrumentMsg},
	{"MetaKeySig", smf.MetaKeySigMsg}, {"MetaLyric", smf.MetaLyricMsg}, {"MetaText", smf.MetaTextMsg}, {"MetaMarker", smf.MetaMarkerMsg},
	{"MetaPort", smf.MetaPortMsg}, {"MetaSeqNumber", smf.MetaSeqNumberMsg}, {"MetaSeqData", smf.MetaSeqDataMsg}, {"MetaTempo", smf.MetaTempoMsg},
	{"MetaTimeSig", smf.MetaTimeSigMsg}, {"MetaTrackName", smf.MetaTrackNameMsg}, {"MetaSMPTEOffset", smf.MetaSMPTEOffsetMsg},
	{"MetaUndefined", smf.MetaUndefinedMsg}, {"MetaProgramName", smf.MetaProgramNameMsg},
}

func nameOf(t midi.Type) string {
	for _, n := range types {
		if n.t == t {
			return n.name
		}
	}
	return fmt.Sprintf("?%d", int(t))
}

type ctor struct {
	name string
	lvl  string // "midi": a midi.Message; "smf": built by the smf package
	mk   func() []byte
}

var ctors = []ctor{
	{"NoteOn", "midi", func() []byte { return midi.NoteOn(3, 60, 100) }},
	{"NoteOff", "midi", func() []byte { return midi.NoteOff(3, 60) }},
	{"NoteOffVelocity", "midi", func() []byte { return midi.NoteOffVelocity(3, 60, 40) }},
	{"PolyAfterTouch", "midi", func() []byte { return midi.PolyAfterTouch(0, 1, 2) }},
	{"ControlChange", "midi", func() []byte { return midi.ControlChange(15, 7, 127) }},
	{"ProgramChange", "midi", func() []byte { return midi.ProgramChange(9, 5) }},
	{"AfterTouch", "midi", func() []byte { return midi.AfterTouch(1, 64) }},
	{"Pitchbend", "midi", func() []byte { return midi.Pitchbend(2, -100) }},
	{"SPP", "midi", func() []byte { return midi.SPP(1000) }},
	{"MTC", "midi", func() []byte { return midi.MTC(17) }},
	{"SongSelect", "midi", func() []byte { return midi.SongSelect(5) }},
	{"Tune", "midi", func() []byte { return midi.Tune() }},
	{"TimingClock", "midi", func() []byte { return midi.TimingClock() }},
	{"Tick", "midi", func() []byte { return midi.Tick() }},
	{"Start", "midi", func() []byte { return midi.Start() }},
	{"Continue", "midi", func() []byte { return midi.Continue() }},
	{"Stop", "midi", func() []byte { return midi.Stop() }},
	{"Activesense", "midi", func() []byte { return midi.Activesense() }},
	{"Reset", "midi", func() []byte { return midi.Reset() }},
	{"SysEx", "midi", func() []byte { return midi.SysEx([]byte{1, 2, 3}) }},
	{"MetaChannel", "smf", func() []byte { return smf.MetaChannel(3) }},
	{"MetaCopyright", "smf", func() []byte { return smf.MetaCopyright("c") }},
	{"MetaCuepoint", "smf", func() []byte { return smf.MetaCuepoint("q") }},
	{"MetaDevice", "smf", func() []byte { return smf.MetaDevice("d") }},
	{"EOT", "smf", func() []byte { return smf.EOT }},
	{"MetaInstrument", "smf", func() []byte { return smf.MetaInstrument("i") }},
	{"MetaKey", "smf", func() []byte { return smf.MetaKey(2, true, 2, false) }},
	{"MetaLyric", "smf", func() []byte { return smf.MetaLyric("la") }},
	{"MetaText", "smf", func() []byte { return smf.MetaText("t") }},
	{"MetaMarker", "smf", func() []byte { return smf.MetaMarker("m") }},
	{"MetaPort", "smf", func() []byte { return smf.MetaPort(1) }},
	{"MetaSequenceNo", "smf", func() []byte { return smf.MetaSequenceNo(258) }},
	{"MetaSequencerData", "smf", func() []byte { return smf.MetaSequencerData([]byte{1, 2}) }},
	{"MetaTempo", "smf", func() []byte { return smf.MetaTempo(97.5) }},
	{"MetaMeter", "smf", func() []byte { return smf.MetaMeter(6, 8) }},
	{"MetaTimeSig", "smf", func() []byte { return smf.MetaTimeSig(3, 4, 24, 8) }},
	{"MetaTrackSequenceName", "smf", func() []byte { return smf.MetaTrackSequenceName("n") }},
	{"MetaSMPTE", "smf", func() []byte { return smf.MetaSMPTE(1, 2, 3, 4, 5) }},
	{"MetaProgram", "smf", func() []byte { return smf.MetaProgram("p") }},
}

type NameRec struct {
	T   string `json:"t"`
	Str string `json:"str"`
}

// Rec is the uniform record of the family (every field present in every record).
type Rec struct {
	Ev    string    `json:"ev"`
	ID    int       `json:"id"`
	T     string    `json:"t"`
	C     string    `json:"c"`
	Cs    []string  `json:"cs"`
	Lvl   string    `json:"lvl"`
	Got   bool      `json:"got"`
	Fn    string    `json:"fn"`
	Bytes hx.B      `json:"bytes"`
	Type  string    `json:"type"`
	Loop  []hx.B    `json:"loop"`
	Names []NameRec `json:"names"`
	Panic string    `json:"panic"`
}

func blank(ev string, id int) *Rec {
	return &Rec{Ev: ev, ID: id, Cs: []string{}, Bytes: hx.B{}, Loop: []hx.B{}, Names: []NameRec{}}
}

func typeByName(n string) midi.Type {
	for _, x := range types {
		if x.name == n {
			return x.t
		}
	}
	hx.Die("unknown type name", n)
	return 0
}

func ctorByName(n string) *ctor {
	for i := range ctors {
		if ctors[i].name == n {
			return &ctors[i]
		}
	}
	hx.Die("unknown constructor", n)
	return nil
}

// a message of the given concrete / special type (built by the library's own constructors), at the given level
func messageOf(t string, lvl string) []byte {
	for _, c := range ctors {
		var ty midi.Type
		b := c.mk()
		if lvl == "smf" {
			ty = smf.Message(b).Type()
		} else {
			ty = midi.Message(b).Type()
		}
		if nameOf(ty) == t {
			return b
		}
	}
	return nil
}

// exec fills the outputs of a record from its inputs.
func exec(r *Rec) {
	r.Panic = hx.Catch(func() {
		switch r.Ev {
		case "is":
			r.Got = typeByName(r.T).Is(typeByName(r.C))
		case "oneof":
			var cs []midi.Type
			for _, c := range r.Cs {
				cs = append(cs, typeByName(c))
			}
			b := messageOf(r.T, r.Lvl)
			if b == nil {
				hx.Die("no constructor builds a message of type", r.T, "at level", r.Lvl)
			}
			r.Bytes = append(hx.B{}, b...)
			if r.Lvl == "smf" {
				r.Got = smf.Message(b).IsOneOf(cs...)
			} else {
				r.Got = midi.Message(b).IsOneOf(cs...)
			}
		case "names":
			r.Names = r.Names[:0]
			for _, n := range types {
				r.Names = append(r.Names, NameRec{T: n.name, Str: n.t.String()})
			}
		case "rt", "ctor":
			c := ctorByName(r.Fn)
			b := c.mk()
			r.Bytes = append(hx.B{}, b...)
			r.Lvl = c.lvl
			if c.lvl == "smf" {
				r.Type = nameOf(smf.Message(b).Type())
			} else {
				r.Type = nameOf(midi.Message(b).Type())
			}
			r.Loop = []hx.B{}
			if r.Ev == "rt" {
				drv := testdrv.New("verif-types")
				ins, _ := drv.Ins()
				outs, _ := drv.Outs()
				stop, err := midi.ListenTo(ins[0], func(m midi.Message, ts int32) {
					r.Loop = append(r.Loop, append(hx.B{}, m...))
				}, midi.UseSysEx(), midi.UseActiveSense(), midi.UseTimeCode())
				if err != nil {
					panic(err)
				}
				send, err := midi.SendTo(outs[0])
				if err != nil {
					panic(err)
				}
				if err = send(midi.Message(b)); err != nil {
					panic(err)
				}
				stop()
			}
		default:
			hx.Die("unknown record", r.Ev)
		}
	})
}

func cmdGen(args []string) {
	fs := flag.NewFlagSet("types-gen", flag.ExitOnError)
	seed := fs.Int64("seed", 1, "")
	n := fs.Int("n", 2000, "random IsOneOf observations")
	out := fs.String("out", "", "")
	fs.Parse(args)
	r := rand.New(rand.NewSource(*seed))
	w := hx.Create(*out)
	id := 0
	put := func(rec *Rec) {
		rec.ID = id
		id++
		exec(rec)
		w.Put(rec)
	}
	for _, t := range types { // the complete Is matrix
		for _, c := range types {
			rec := blank("is", 0)
			rec.T, rec.C = t.name, c.name
			put(rec)
		}
	}
	put(blank("names", 0))
	for _, c := range ctors {
		rec := blank("ctor", 0)
		rec.Fn = c.name
		put(rec)
	}
	for _, fn := range []string{"TimingClock", "Tick", "Start", "Continue", "Stop", "Activesense", "Reset"} {
		rec := blank("rt", 0)
		rec.Fn = fn
		put(rec)
	}
	// IsOneOf: every message type x every single checker, then random checker lists (0..4 entries)
	var msgTypes []struct{ t, lvl string }
	for _, lvl := range []string{"midi", "smf"} {
		seen := map[string]bool{}
		for _, c := range ctors {
			var ty midi.Type
			if lvl == "smf" {
				ty = smf.Message(c.mk()).Type()
			} else {
				ty = midi.Message(c.mk()).Type()
			}
			nm := nameOf(ty)
			if lvl == "midi" && c.lvl == "smf" {
				continue // a meta message is not a midi.Message
			}
			if lvl == "smf" && (c.lvl == "midi" && ty == midi.UnknownMsg) {
				continue // system common / real-time messages do not exist in files
			}
			if nm[0] != '?' && !seen[nm] {
				seen[nm] = true
				msgTypes = append(msgTypes, struct{ t, lvl string }{nm, lvl})
			}
		}
	}
	for _, mt := range msgTypes {
		for _, c := range types {
			rec := blank("oneof", 0)
			rec.T, rec.Lvl, rec.Cs = mt.t, mt.lvl, []string{c.name}
			put(rec)
		}
	}
	for i := 0; i < *n; i++ {
		mt := msgTypes[r.Intn(len(msgTypes))]
		rec := blank("oneof", 0)
		rec.T, rec.Lvl = mt.t, mt.lvl
		for k := r.Intn(5); k > 0; k-- {
			rec.Cs = append(rec.Cs, types[r.Intn(len(types))].name)
		}
		if r.Intn(3) == 0 && len(rec.Cs) > 0 { // make sure matching lists are frequent
			rec.Cs[r.Intn(len(rec.Cs))] = mt.t
		}
		put(rec)
	}
	w.Close()
}

func cmdRerun(args []string) {
	fs := flag.NewFlagSet("types-rerun", flag.ExitOnError)
	in := fs.String("in", "", "")
	out := fs.String("out", "", "")
	fs.Parse(args)
	w := hx.Create(*out)
	hx.ReadLines(*in, func(l []byte) {
		rec := blank("", 0)
		if err := json.Unmarshal(l, rec); err != nil {
			hx.Die(err)
		}
		if rec.Cs == nil {
			rec.Cs = []string{}
		}
		exec(rec)
		w.Put(rec)
	})
	w.Close()
}

func main() {
	if len(os.Args) >= 2 {
		switch os.Args[1] {
		case "types-gen":
			cmdGen(os.Args[2:])
			return
		case "types-rerun":
			cmdRerun(os.Args[2:])
			return
		}
	}
	fmt.Fprintln(os.Stderr, "usage: vh_types types-gen|types-rerun [flags]")
	os.Exit(3)
}
