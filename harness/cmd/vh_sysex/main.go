// vh_sysex drives the checksummed / fixed-layout sysex helpers of the real library (sysex.Manufacturer,
// mmc.Message, mmc.GoTo) for property C18 and records what happened as NDJSON for TLC (spec/Trace_Sysex.tla).
// It contains no oracle: it builds, parses, overwrites single bytes, and records outcomes (error / ok / panic).
//
//	vh_sysex sysex-gen   -seed S -nsx N -nloc M -out file     seeded generator over the domain of the property
//	vh_sysex sysex-rerun -in file -out file                   re-executes the inputs of recorded lines
package main

import (
	"encoding/json"
	"flag"
	"fmt"
	"math/rand"
	"os"
	"runtime"
	"sync"

	"gitlab.com/gomidi/midi/v2/mmc"
	"gitlab.com/gomidi/midi/v2/sysex"

	"verifharness/internal/hx"
)

// Val is the uniform shape of "a parsed value" for all three record kinds (unused fields zero / empty).
type Val struct {
	Man   int  `json:"man"`
	Dev   int  `json:"dev"`
	Model int  `json:"model"`
	Req   bool `json:"req"`
	Addr  hx.B `json:"addr"`
	Data  hx.B `json:"data"`
	Size  hx.B `json:"size"`
	Cmd   int  `json:"cmd"`
	Resp  bool `json:"resp"`
	TC    hx.B `json:"tc"`
}

// Corr is one single-byte corruption: 1-based position, new value, outcome of the real parser.
type Corr struct {
	Pos  int    `json:"pos"`
	Val  int    `json:"val"`
	Kind string `json:"kind"` // "error" | "ok" | "panic"
	Msg  string `json:"msg"`
	PV   Val    `json:"pv"`
}

type SCorr struct {
	Pos  int    `json:"pos"`
	Val  int    `json:"val"`
	Kind string `json:"kind"`
}

type Rec struct {
	Ev string `json:"ev"` // "sx" | "mmc" | "loc"
	ID int    `json:"id"`
	// inputs
	Man   int   `json:"man"`
	Dev   int   `json:"dev"`
	Model int   `json:"model"`
	Req   bool  `json:"req"`
	Addr  hx.B  `json:"addr"`
	Data  hx.B  `json:"data"`
	Size  hx.B  `json:"size"`
	Cmd   int   `json:"cmd"`
	TC    hx.B  `json:"tc"`
	SSeed int64 `json:"sseed"` // seed of the corruption sample
	NSamp int   `json:"nsamp"`
	// what the real code did
	Bytes  hx.B     `json:"bytes"`
	PKind  string   `json:"pkind"` // "ok" | "error" | "panic"
	PMsg   string   `json:"pmsg"`
	PV     Val      `json:"pv"`
	// (sx) the caller's slice after the value parsed from it was used (Checksum, SysEx), and what parsing that slice once more gives
	After  hx.B     `json:"after"`
	P2Kind string   `json:"p2kind"`
	P2V    Val      `json:"p2v"`
	NTried int      `json:"ntried"`
	NotErr []Corr   `json:"noterr"`
	Sample []SCorr  `json:"sample"`
	Feat   []string `json:"feat"`
}

func emptyVal() Val { return Val{Addr: hx.B{}, Data: hx.B{}, Size: hx.B{}, TC: hx.B{}} }

func cp(b []byte) hx.B { return append(hx.B{}, b...) }

// ---- real-library calls --------------------------------------------------------------------------------

func sxParse(bt []byte) (kind, msg string, pv Val) {
	pv = emptyVal()
	var m *sysex.Manufacturer
	var err error
	in := append([]byte(nil), bt...)
	p := hx.Catch(func() { m, err = sysex.Parse(in) })
	switch {
	case p != "":
		return "panic", p, pv
	case err != nil:
		return "error", err.Error(), pv
	case m == nil:
		return "panic", "nil value without error", pv
	}
	pv.Man, pv.Dev, pv.Model, pv.Req = int(m.ManufacturerID), int(m.DeviceID), int(m.ModelID), m.InfoRequest
	pv.Addr, pv.Data, pv.Size = cp(m.Address[:]), cp(m.SendingData), cp(m.NumReqBytes[:])
	return "ok", "", pv
}

// sxParse2 parses the caller's slice itself (no private copy)
func sxParse2(bt []byte) (kind, msg string, pv Val) {
	pv = emptyVal()
	var m *sysex.Manufacturer
	var err error
	p := hx.Catch(func() { m, err = sysex.Parse(bt) })
	switch {
	case p != "":
		return "panic", p, pv
	case err != nil:
		return "error", err.Error(), pv
	case m == nil:
		return "panic", "nil value without error", pv
	}
	pv.Man, pv.Dev, pv.Model, pv.Req = int(m.ManufacturerID), int(m.DeviceID), int(m.ModelID), m.InfoRequest
	pv.Addr, pv.Data, pv.Size = cp(m.Address[:]), cp(m.SendingData), cp(m.NumReqBytes[:])
	return "ok", "", pv
}

func runSx(r *Rec) {
	r.Ev = "sx"
	r.PV, r.NotErr, r.Sample = emptyVal(), []Corr{}, []SCorr{}
	r.TC = hx.B{}
	r.After, r.P2Kind, r.P2V = hx.B{}, "", emptyVal()
	m := sysex.Manufacturer{ManufacturerID: sysex.ManufacturerID(r.Man), DeviceID: byte(r.Dev), ModelID: byte(r.Model), InfoRequest: r.Req}
	copy(m.Address[:], r.Addr)
	copy(m.NumReqBytes[:], r.Size)
	if len(r.Data) > 0 {
		m.SendingData = append([]byte(nil), r.Data...)
	}
	var bt []byte
	if p := hx.Catch(func() { bt = m.SysEx() }); p != "" {
		r.Bytes, r.PKind, r.PMsg = hx.B{}, "panic", "SysEx: "+p
		return
	}
	// another message is built before this one is looked at: the bytes handed out for the first must stay what they were
	// (a caller may well build several messages before sending or parsing any of them)
	m2 := m
	m2.DeviceID ^= 0x55
	m2.Address[0] ^= 0x2A
	if len(m2.SendingData) > 0 {
		m2.SendingData = append([]byte{0x7F ^ m2.SendingData[0]}, m2.SendingData[1:]...)
	}
	hx.Catch(func() { _ = m2.SysEx() })
	bt = append([]byte(nil), bt...) // from here on work on a private copy
	r.Bytes = cp(bt)
	r.PKind, r.PMsg, r.PV = sxParse(bt)
	// the way a program uses the parser: it parses ITS slice, works with the value (asks for the checksum, builds the message
	// again) and still owns the slice afterwards -- it may well parse it again
	own := append(make([]byte, 0, len(bt)+8), bt...)
	r.After, r.P2Kind, r.P2V = cp(own), "panic", emptyVal()
	if p := hx.Catch(func() {
		m1, err := sysex.Parse(own)
		if err == nil && m1 != nil {
			_ = m1.Checksum()
			_ = m1.SysEx()
		}
	}); p == "" {
		r.After = cp(own)
		r.P2Kind, _, r.P2V = sxParse2(own)
	}

	// every single-byte corruption of address, body and checksum (0-based 5 .. len-2), every other 7-bit value
	n := len(bt)
	if n < 7 {
		return
	}
	total := (n - 6) * 127
	pick := map[int]bool{}
	rng := rand.New(rand.NewSource(r.SSeed))
	want := r.NSamp
	if want > total {
		want = total
	}
	for len(pick) < want {
		pick[rng.Intn(total)] = true
	}
	work := append([]byte(nil), bt...)
	k := 0
	for pos := 5; pos <= n-2; pos++ {
		orig := bt[pos]
		for v := 0; v < 128; v++ {
			if byte(v) == orig {
				continue
			}
			work[pos] = byte(v)
			kind, msg, pv := sxParse(work)
			r.NTried++
			if kind != "error" {
				if len(r.NotErr) >= 4 { // the parsed value in full only for the first few (compact logging)
					pv = emptyVal()
				}
				r.NotErr = append(r.NotErr, Corr{Pos: pos + 1, Val: v, Kind: kind, Msg: msg, PV: pv})
			}
			if pick[k] {
				r.Sample = append(r.Sample, SCorr{Pos: pos + 1, Val: v, Kind: kind})
			}
			k++
		}
		work[pos] = orig
	}
}

func runMmc(r *Rec) {
	r.Ev = "mmc"
	r.After, r.P2Kind, r.P2V = hx.B{}, "", emptyVal()
	r.PV, r.NotErr, r.Sample = emptyVal(), []Corr{}, []SCorr{}
	r.Addr, r.Data, r.Size, r.TC = hx.B{}, hx.B{}, hx.B{}, hx.B{}
	m := mmc.Message{DeviceID: byte(r.Dev), Command: mmc.Command(r.Cmd)}
	var bt []byte
	if p := hx.Catch(func() { bt = m.SysEx() }); p != "" {
		r.Bytes, r.PKind, r.PMsg = hx.B{}, "panic", "SysEx: "+p
		return
	}
	r.Bytes = cp(bt)
	g := &recvMsg // ONE receiver value for all messages of the process, as a receiving program has it
	if r.ID%3 == 0 { // ... which has just received a RESPONSE of another device (nothing of it may stick)
		hx.Catch(func() { g.Parse([]byte{0xF0, 0x7F, byte(1 + (r.Dev+5)%127), 0x07, 0x01, 0x02, 0xF7}) })
	}
	var err error
	p := hx.Catch(func() { err = g.Parse(append([]byte(nil), bt...)) })
	switch {
	case p != "":
		r.PKind, r.PMsg = "panic", p
	case err != nil:
		r.PKind, r.PMsg = "error", err.Error()
	default:
		r.PKind = "ok"
		r.PV.Dev, r.PV.Cmd, r.PV.Resp, r.PV.Data = int(g.DeviceID), int(g.Command), g.IsResponse, cp(g.Data)
	}
}

// the values the parsers fill are reused from message to message: what Parse yields must not depend on what the
// receiver held before
var recvMsg mmc.Message
var recvGoTo mmc.GoTo

func runLoc(r *Rec) {
	r.Ev = "loc"
	r.After, r.P2Kind, r.P2V = hx.B{}, "", emptyVal()
	r.PV, r.NotErr, r.Sample = emptyVal(), []Corr{}, []SCorr{}
	r.Addr, r.Data, r.Size = hx.B{}, hx.B{}, hx.B{}
	if len(r.TC) != 5 {
		hx.Die("locate record without 5 time code bytes")
	}
	m := mmc.GoTo{DeviceID: byte(r.Dev), Hour: r.TC[0], Minute: r.TC[1], Second: r.TC[2], Frame: r.TC[3], SubFrame: r.TC[4]}
	var bt []byte
	if p := hx.Catch(func() { bt = m.SysEx() }); p != "" {
		r.Bytes, r.PKind, r.PMsg = hx.B{}, "panic", "SysEx: "+p
		return
	}
	r.Bytes = cp(bt)
	g := &recvGoTo // ONE receiver value for all locate messages of the process
	var err error
	p := hx.Catch(func() { err = g.Parse(append([]byte(nil), bt...)) })
	switch {
	case p != "":
		r.PKind, r.PMsg = "panic", p
	case err != nil:
		r.PKind, r.PMsg = "error", err.Error()
	default:
		r.PKind = "ok"
		r.PV.Dev, r.PV.TC = int(g.DeviceID), hx.B{g.Hour, g.Minute, g.Second, g.Frame, g.SubFrame}
	}
}

func execute(r *Rec) {
	// reset everything that is an output
	r.Bytes, r.PKind, r.PMsg, r.NTried = hx.B{}, "", "", 0
	switch r.Ev {
	case "sx":
		runSx(r)
	case "mmc":
		runMmc(r)
	case "loc":
		runLoc(r)
	default:
		hx.Die("unknown ev", r.Ev)
	}
	if r.Feat == nil {
		r.Feat = []string{}
	}
}

// ---- generator -------------------------------------------------------------------------------------------

var edge7 = []int{0, 1, 2, 63, 64, 126, 127}

func b7(r *rand.Rand) int {
	if hx.Chance(r, 0.3) {
		return edge7[r.Intn(len(edge7))]
	}
	return r.Intn(128)
}

func bytes7(r *rand.Rand, n int) hx.B {
	b := make(hx.B, n)
	switch r.Intn(8) {
	case 0: // constant fill
		c := byte(b7(r))
		for i := range b {
			b[i] = c
		}
	case 1: // boundary values only
		for i := range b {
			b[i] = byte(edge7[r.Intn(len(edge7))])
		}
	default:
		for i := range b {
			b[i] = byte(r.Intn(128))
		}
	}
	return b
}

var edgeLen = []int{1, 2, 3, 4, 126, 127, 128, 129, 255, 256, 257, 510, 511, 512}

func genSx(r *rand.Rand, id int) *Rec {
	rec := &Rec{Ev: "sx", ID: id, Man: b7(r), Dev: b7(r), Model: b7(r), Addr: bytes7(r, 3), SSeed: r.Int63(), NSamp: 200, Feat: []string{}}
	rec.Req = r.Intn(4) == 0
	if rec.Req {
		rec.Size, rec.Data = bytes7(r, 3), hx.B{}
		rec.Feat = append(rec.Feat, "request")
	} else {
		n := 0
		switch r.Intn(4) {
		case 0:
			n = edgeLen[r.Intn(len(edgeLen))]
		case 1:
			n = 1 + r.Intn(16)
		default:
			n = 1 + r.Intn(512)
		}
		rec.Data, rec.Size = bytes7(r, n), hx.B{0, 0, 0}
		rec.Feat = append(rec.Feat, "dataset")
		if n >= 128 {
			rec.Feat = append(rec.Feat, "long")
		}
		if n == 1 || n == 512 {
			rec.Feat = append(rec.Feat, "len_edge")
		}
	}
	// one message in eight: steer the last guarded input byte so that the sum is a multiple of 128 (checksum 0)
	if r.Intn(8) == 0 {
		body := rec.Data
		if rec.Req {
			body = rec.Size
		}
		s := 0
		for _, x := range rec.Addr {
			s += int(x)
		}
		for _, x := range body[:len(body)-1] {
			s += int(x)
		}
		body[len(body)-1] = byte((128 - s%128) % 128)
		rec.Feat = append(rec.Feat, "sum_multiple_of_128")
	}
	return rec
}

var edgeTc = []int{0, 1, 23, 24, 29, 30, 59, 60, 99, 100, 127}

func gen(args []string) {
	fs := flag.NewFlagSet("gen", flag.ExitOnError)
	seed := fs.Int64("seed", 1, "")
	nsx := fs.Int("nsx", 100, "random Roland-style values (after the fixed boundary values)")
	nloc := fs.Int("nloc", 1000, "random locate messages (after the boundary product)")
	out := fs.String("out", "", "")
	fs.Parse(args)
	r := rand.New(rand.NewSource(*seed))
	var recs []*Rec
	id := 0
	add := func(x *Rec) { x.ID = id; id++; recs = append(recs, x) }
	// fixed: the library's own GM reset constant, shortest and longest data sets, boundary requests
	add(&Rec{Ev: "sx", Man: int(sysex.GMReset.ManufacturerID), Dev: int(sysex.GMReset.DeviceID), Model: int(sysex.GMReset.ModelID),
		Addr: cp(sysex.GMReset.Address[:]), Data: cp(sysex.GMReset.SendingData), Size: hx.B{0, 0, 0}, SSeed: 1, NSamp: 200, Feat: []string{"dataset", "gmreset"}})
	for _, n := range []int{1, 512} {
		for _, c := range []byte{0, 1, 127} {
			d := make(hx.B, n)
			for i := range d {
				d[i] = c
			}
			add(&Rec{Ev: "sx", Man: 0x41, Dev: 0x10, Model: 0x42, Addr: hx.B{c, c, c}, Data: d, Size: hx.B{0, 0, 0}, SSeed: int64(n) + int64(c), NSamp: 200,
				Feat: []string{"dataset", "len_edge"}})
		}
	}
	for _, c := range []byte{0, 1, 64, 127} {
		add(&Rec{Ev: "sx", Man: 0x41, Dev: 0x10, Model: 0x42, Req: true, Addr: hx.B{c, 0, 127}, Data: hx.B{}, Size: hx.B{127 - c, c, 0}, SSeed: int64(c), NSamp: 200,
			Feat: []string{"request"}})
	}
	for i := 0; i < *nsx; i++ {
		add(genSx(r, 0))
	}
	// all 127 x 63 plain commands
	for d := 1; d <= 127; d++ {
		for c := 1; c <= 63; c++ {
			add(&Rec{Ev: "mmc", Dev: d, Cmd: c, Feat: []string{}})
		}
	}
	// locate: boundary product over three devices x 4^5 boundary time codes, then random (edge-biased)
	bt := []int{0, 1, 59, 127}
	for _, d := range []int{1, 16, 127} {
		for i := 0; i < 1024; i++ {
			tc := hx.B{byte(bt[i&3]), byte(bt[(i>>2)&3]), byte(bt[(i>>4)&3]), byte(bt[(i>>6)&3]), byte(bt[(i>>8)&3])}
			add(&Rec{Ev: "loc", Dev: d, TC: tc, Feat: []string{"boundary"}})
		}
	}
	for i := 0; i < *nloc; i++ {
		tc := make(hx.B, 5)
		for j := range tc {
			if hx.Chance(r, 0.4) {
				tc[j] = byte(edgeTc[r.Intn(len(edgeTc))])
			} else {
				tc[j] = byte(r.Intn(128))
			}
		}
		add(&Rec{Ev: "loc", Dev: 1 + r.Intn(127), TC: tc, Feat: []string{}})
	}
	runAll(recs)
	write(*out, recs)
}

func runAll(recs []*Rec) {
	var wg sync.WaitGroup
	ch := make(chan *Rec)
	for w := 0; w < runtime.NumCPU(); w++ {
		wg.Add(1)
		go func() {
			defer wg.Done()
			for r := range ch {
				execute(r)
			}
		}()
	}
	for _, r := range recs {
		if r.Ev == "sx" { // (the corruption sweeps are the expensive part and keep no state)
			ch <- r
		}
	}
	close(ch)
	wg.Wait()
	// the machine-control messages are parsed one after the other, in order, into receiver values that are reused
	for _, r := range recs {
		if r.Ev != "sx" {
			execute(r)
		}
	}
}

func write(path string, recs []*Rec) {
	w := hx.Create(path)
	for _, r := range recs {
		w.Put(r)
	}
	w.Close()
}

func rerun(args []string) {
	fs := flag.NewFlagSet("rerun", flag.ExitOnError)
	in := fs.String("in", "", "")
	out := fs.String("out", "", "")
	fs.Parse(args)
	var recs []*Rec
	hx.ReadLines(*in, func(line []byte) {
		var r Rec
		if err := json.Unmarshal(line, &r); err != nil {
			hx.Die(err)
		}
		recs = append(recs, &r)
	})
	runAll(recs)
	write(*out, recs)
}

func main() {
	if len(os.Args) >= 2 {
		switch os.Args[1] {
		case "gen", "sysex-gen":
			gen(os.Args[2:])
			return
		case "rerun", "sysex-rerun":
			rerun(os.Args[2:])
			return
		}
	}
	fmt.Fprintln(os.Stderr, "usage: vh_sysex sysex-gen|sysex-rerun [flags]")
	os.Exit(3)
}
