// vh_sequencer drives the REAL v2/sequencer package through its public API (New, Song.Ticks, AddBar with
// Bar{TimeSig, Events}, ToSMF0, ToSMF1) on seeded random songs and records, per song, the description of the
// song and both exports with the deltas of every returned track turned into absolute ticks (running sum, a
// purely structural conversion).  It contains no oracle: TLC (spec/Trace_Sequencer.tla) judges the records.
//
//	vh_sequencer seq-gen   -n N -seed S -out file.ndjson [-big]
//	vh_sequencer seq-rerun -in file.ndjson -out file.ndjson
package main

import (
	"encoding/json"
	"flag"
	"fmt"
	"math/rand"
	"os"
	"time"

	"gitlab.com/gomidi/midi/v2/sequencer"
	"gitlab.com/gomidi/midi/v2/smf"

	"verifharness/internal/hx"
)

type Ev struct {
	Trk int  `json:"trk"`
	Pos int  `json:"pos"` // in 32nds from the start of the bar
	Dur int  `json:"dur"` // in 32nds (notes), 0 otherwise
	Msg hx.B `json:"msg"`
}

type BarD struct {
	Num      int  `json:"num"`
	Den      int  `json:"den"`
	Implicit bool `json:"implicit"` // handed to AddBar with a zero TimeSig ("same as before"; 4/4 for the first bar)
	Evs      []Ev `json:"evs"`
}

type TEv struct {
	T int64 `json:"t"` // absolute tick = sum of the deltas so far; -1 once the sum has left the 31-bit range
	M hx.B  `json:"m"`
}

type Out struct {
	Fmt    int     `json:"fmt"`
	Div    int     `json:"div"` // metric resolution of the returned file, -1 if not metric
	Tracks [][]TEv `json:"tracks"`
}

type Rec struct {
	ID      int      `json:"id"`
	Seed    int64    `json:"seed"`
	Res     int      `json:"res"`
	Bars    []BarD   `json:"bars"`
	First   int      `json:"first"`   // which export is called first on the song: 0 = ToSMF0, 1 = ToSMF1
	PreBars int      `json:"prebars"` // > 0: the song was exported once when it had only its first PreBars bars, the other bars were added afterwards (a song may grow after an export)
	PreRes  int      `json:"preres"`  // > 0: the song was exported once before at this OTHER resolution, then Song.Ticks was set to Res (a song is still a song after an export)
	Names   int      `json:"names"`   // number of Song.TrackNames set
	Smf0    Out      `json:"smf0"`
	Smf1    Out      `json:"smf1"`
	Panic   string   `json:"panic"`
	Feat    []string `json:"feat"`
}

// ---- driving the real library ----------------------------------------------------------------------------

func convert(sm smf.SMF) Out {
	o := Out{Fmt: int(sm.Format()), Div: -1, Tracks: [][]TEv{}}
	if mt, ok := sm.TimeFormat.(smf.MetricTicks); ok {
		o.Div = int(mt)
	}
	for _, tr := range sm.Tracks {
		evs := []TEv{}
		var sum uint64
		huge := false
		for _, ev := range tr {
			sum += uint64(ev.Delta)
			if sum > 1<<31-1 {
				huge = true
			}
			t := int64(sum)
			if huge {
				t = -1
			}
			evs = append(evs, TEv{T: t, M: hx.B(append([]byte{}, ev.Message.Bytes()...))})
		}
		o.Tracks = append(o.Tracks, evs)
	}
	return o
}

func build(rec *Rec) *sequencer.Song {
	s := sequencer.New()
	s.Ticks = smf.MetricTicks(rec.Res)
	s.Title = "t"
	s.Composer = "c"
	for i := 0; i < rec.Names; i++ {
		s.TrackNames = append(s.TrackNames, fmt.Sprintf("n%d", i))
	}
	for i, b := range rec.Bars {
		if rec.PreBars > 0 && i == rec.PreBars {
			if rec.First == 0 {
				s.ToSMF1()
			} else {
				s.ToSMF0()
			}
		}
		var bar sequencer.Bar
		if !b.Implicit {
			bar.TimeSig = [2]uint8{uint8(b.Num), uint8(b.Den)}
		}
		for _, e := range b.Evs {
			bar.Events = append(bar.Events, &sequencer.Event{
				TrackNo:  e.Trk,
				Pos:      uint8(e.Pos),
				Duration: uint8(e.Dur),
				Message:  smf.Message(append([]byte{}, e.Msg...)),
			})
		}
		s.AddBar(bar)
	}
	return s
}

func execute(rec *Rec) {
	rec.Smf0 = Out{Div: -1, Tracks: [][]TEv{}}
	rec.Smf1 = Out{Div: -1, Tracks: [][]TEv{}}
	done := make(chan string, 1)
	var o0, o1 Out
	go func() {
		done <- hx.Catch(func() {
			s := build(rec)
			if rec.PreRes > 0 {
				s.Ticks = smf.MetricTicks(rec.PreRes)
				if rec.First == 0 {
					s.ToSMF1()
				} else {
					s.ToSMF0()
				}
				s.Ticks = smf.MetricTicks(rec.Res)
			}
			if rec.First == 0 {
				o0 = convert(s.ToSMF0())
				o1 = convert(s.ToSMF1())
			} else {
				o1 = convert(s.ToSMF1())
				o0 = convert(s.ToSMF0())
			}
		})
	}()
	select {
	case p := <-done:
		rec.Panic = p
		if p == "" {
			rec.Smf0, rec.Smf1 = o0, o1
		}
	case <-time.After(30 * time.Second):
		rec.Panic = "timeout: export did not return within 30 s"
	}
}

// ---- generator (no judgement: the specification re-checks that every song is inside the property's domain) ----

type sig struct{ num, den int }

func allSigs() (all, big, common []sig) {
	for _, den := range []int{1, 2, 4, 8, 16, 32} {
		for num := 1; num <= 24; num++ {
			if num*32/den <= 255 {
				all = append(all, sig{num, den})
				if num >= 8 {
					big = append(big, sig{num, den})
				}
			}
		}
	}
	common = []sig{{4, 4}, {3, 4}, {2, 4}, {6, 8}, {9, 8}, {12, 8}, {5, 4}, {7, 8}, {2, 2}, {6, 4}, {8, 4}, {12, 16}, {7, 1}, {24, 32}, {15, 2}}
	return
}

var resChoices = []int{8, 16, 24, 48, 96, 120, 192, 240, 384, 480, 960, 1920, 3840, 15360, 32760}

func genSong(r *rand.Rand, rec *Rec, big bool) {
	all, bigs, common := allSigs()
	feat := map[string]bool{}
	if hx.Chance(r, 0.3) {
		rec.Res = 8 * (1 + r.Intn(4095))
	} else {
		rec.Res = resChoices[r.Intn(len(resChoices))]
	}
	rec.First = r.Intn(2)
	rec.PreRes = 0
	if r.Intn(5) == 0 {
		rec.PreRes = resChoices[r.Intn(len(resChoices))]
		if rec.PreRes == rec.Res {
			rec.PreRes = 8 * (1 + r.Intn(4095))
		}
		feat["pre_export_other_resolution"] = true
	}
	rec.Names = r.Intn(4)
	nb := 1 + r.Intn(5)
	switch {
	case big && hx.Chance(r, 0.5):
		nb = 1 + r.Intn(40)
	case hx.Chance(r, 0.15):
		nb = 1 + r.Intn(40)
	}
	if hx.Chance(r, 0.03) {
		nb = 40
	}
	// the tracks this song uses
	ntr := 1 + r.Intn(8)
	trks := r.Perm(8)[:ntr]
	if ntr > 1 {
		feat["multitrack"] = true
	}
	cur := sig{4, 4}
	rec.Bars = make([]BarD, nb)
	rec.PreBars = 0
	if nb >= 3 && r.Intn(4) == 0 {
		rec.PreBars = 2 + r.Intn(nb-2)
		feat["bars_added_after_an_export"] = true
	}
	lens := make([]int, nb)
	total := 0
	for i := 0; i < nb; i++ {
		sg := cur
		x := r.Float64()
		switch {
		case x < 0.40: // unchanged
		case x < 0.60:
			sg = common[r.Intn(len(common))]
		case x < 0.80:
			sg = bigs[r.Intn(len(bigs))]
		default:
			sg = all[r.Intn(len(all))]
		}
		rec.Bars[i] = BarD{Num: sg.num, Den: sg.den, Evs: []Ev{}}
		if sg == cur && hx.Chance(r, 0.3) {
			rec.Bars[i].Implicit = true
			feat["implicit_sig"] = true
		}
		if sg != cur {
			feat["sigchange"] = true
		}
		if sg.num >= 8 {
			feat["num>=8"] = true
		}
		cur = sg
		lens[i] = sg.num * 32 / sg.den
		total += lens[i]
	}
	budget := 60
	if big {
		budget = 160
	}
	start := 0
	for i := 0; i < nb; i++ {
		L := lens[i]
		ne := r.Intn(4)
		if hx.Chance(r, 0.1) {
			ne = 4 + r.Intn(9)
		}
		if nb > 12 && hx.Chance(r, 0.5) {
			ne = r.Intn(2)
		}
		for j := 0; j < ne && budget > 0; j++ {
			budget--
			e := Ev{Trk: trks[r.Intn(ntr)]}
			switch x := r.Float64(); {
			case x < 0.2:
				e.Pos = 0
			case x < 0.35:
				e.Pos = L - 1
			default:
				e.Pos = r.Intn(L)
			}
			ch := byte(r.Intn(16))
			if hx.Chance(r, 0.5) {
				ch = byte(e.Trk)
			}
			d7 := func() byte { return byte(hx.Pick(r, 0, 1, 64, 127, r.Intn(128), r.Intn(128))) }
			room := total - (start + e.Pos) // 32nds left until the end of the song (>= 1)
			if room > 255 {
				room = 255
			}
			switch x := r.Float64(); {
			case x < 0.65:
				vel := byte(1 + r.Intn(127))
				key := byte(hx.Pick(r, 0, 60, 127, 36+r.Intn(48), 36+r.Intn(12)))
				e.Msg = hx.B{0x90 | ch, key, vel}
				inbar := L - e.Pos
				switch y := r.Float64(); {
				case y < 0.25:
					e.Dur = 1
				case y < 0.40:
					e.Dur = inbar // ends exactly on the bar line
				case y < 0.50:
					e.Dur = room // as long as the song (or the 8-bit duration) allows
				case y < 0.75:
					e.Dur = 1 + r.Intn(inbar)
				default:
					e.Dur = 1 + r.Intn(room)
				}
				if e.Dur > room {
					e.Dur = room
				}
				if e.Dur > inbar {
					feat["crossbar"] = true
				}
			case x < 0.80:
				e.Msg = hx.B{0xB0 | ch, d7(), d7()}
			case x < 0.87:
				e.Msg = hx.B{0xC0 | ch, d7()}
			case x < 0.92:
				e.Msg = hx.B{0xE0 | ch, d7(), d7()}
			case x < 0.96:
				e.Msg = hx.B{0xD0 | ch, d7()}
			default:
				e.Msg = hx.B{0xA0 | ch, d7(), d7()}
			}
			rec.Bars[i].Evs = append(rec.Bars[i].Evs, e)
		}
		start += L
	}
	if nb > 12 {
		feat["long"] = true
	}
	rec.Feat = []string{}
	for _, k := range []string{"num>=8", "sigchange", "implicit_sig", "crossbar", "multitrack", "long"} {
		if feat[k] {
			rec.Feat = append(rec.Feat, k)
		}
	}
}

func cmdGen(args []string) {
	fs := flag.NewFlagSet("seq-gen", flag.ExitOnError)
	n := fs.Int("n", 100, "number of songs")
	seed := fs.Int64("seed", 1, "seed")
	out := fs.String("out", "", "output NDJSON")
	big := fs.Bool("big", false, "more long songs / more events")
	fs.Parse(args)
	w := hx.Create(*out)
	defer w.Close()
	r := rand.New(rand.NewSource(*seed*7919 + 20))
	for i := 0; i < *n; i++ {
		rec := Rec{ID: i, Seed: *seed}
		genSong(r, &rec, *big)
		execute(&rec)
		w.Put(&rec)
	}
}

func cmdRerun(args []string) {
	fs := flag.NewFlagSet("seq-rerun", flag.ExitOnError)
	in := fs.String("in", "", "input NDJSON (records; only the song description is used)")
	out := fs.String("out", "", "output NDJSON")
	fs.Parse(args)
	w := hx.Create(*out)
	defer w.Close()
	hx.ReadLines(*in, func(line []byte) {
		var rec Rec
		if err := json.Unmarshal(line, &rec); err != nil {
			hx.Die(err)
		}
		if rec.Feat == nil {
			rec.Feat = []string{}
		}
		for i := range rec.Bars {
			if rec.Bars[i].Evs == nil {
				rec.Bars[i].Evs = []Ev{}
			}
		}
		execute(&rec)
		w.Put(&rec)
	})
}

func main() {
	if len(os.Args) < 2 {
		hx.Die("usage: vh_sequencer seq-gen|seq-rerun [flags]")
	}
	switch os.Args[1] {
	case "seq-gen":
		cmdGen(os.Args[2:])
	case "seq-rerun":
		cmdRerun(os.Args[2:])
	default:
		hx.Die("unknown command", os.Args[1])
	}
}
