// vh_ctrl: harness for X02 (controller protocols rpn / nrpn, combined helpers, controller constants, note helpers).
// It only calls the real library and records what came back; every judgement is made by TLC (spec/Trace_Controllers.tla).
//
//	vh_ctrl gen   -out recs.ndjson -seed n [-full] [-nrandom n]
//	vh_ctrl rerun -in heads.ndjson -out recs.ndjson        (re-executes ev/fn/args/strs of every line)
package main

import (
	"encoding/json"
	"flag"
	"fmt"
	"math/rand"
	"os"

	"gitlab.com/gomidi/midi/v2"
	"gitlab.com/gomidi/midi/v2/gm"
	"gitlab.com/gomidi/midi/v2/nrpn"
	"gitlab.com/gomidi/midi/v2/rpn"

	"verifharness/internal/hx"
)

type Rec struct {
	Ev    string   `json:"ev"`
	Fn    string   `json:"fn"`
	Args  []int    `json:"args"`
	Strs  []string `json:"strs"`
	Msgs  []hx.B   `json:"msgs"`
	Outs  []int    `json:"outs"`
	Panic string   `json:"panic"`
	held  []midi.Message // what the library returned, looked at only when the record is written (see holder)
}

// holder keeps the records of the last calls back: a program builds several controller sequences before it sends any of them, so
// what one call returned must still be the same after further calls.  The returned messages are serialised when the record leaves
// the window (48 calls later), not when the call returns.
type holder struct {
	w       *hx.Writer
	pending []*Rec
	window  int
}

func (h *holder) put(r *Rec) {
	h.pending = append(h.pending, r)
	if len(h.pending) >= h.window {
		h.flush()
	}
}

func (h *holder) flush() {
	for _, r := range h.pending {
		if r.Panic == "" {
			for _, m := range r.held {
				r.Msgs = append(r.Msgs, append(hx.B{}, m...))
			}
		}
		r.held = nil
		h.w.Put(r)
	}
	h.pending = h.pending[:0]
}

func u(x int) uint8 { return uint8(x) }

// helpers returning message sequences: name -> (arity, call)
var seqFns = map[string]struct {
	n int
	f func(a []int) []midi.Message
}{
	"rpn.RPN":                  {5, func(a []int) []midi.Message { return rpn.RPN(u(a[0]), u(a[1]), u(a[2]), u(a[3]), u(a[4])) }},
	"rpn.Increment":            {3, func(a []int) []midi.Message { return rpn.Increment(u(a[0]), u(a[1]), u(a[2])) }},
	"rpn.Decrement":            {3, func(a []int) []midi.Message { return rpn.Decrement(u(a[0]), u(a[1]), u(a[2])) }},
	"rpn.Reset":                {1, func(a []int) []midi.Message { return rpn.Reset(u(a[0])) }},
	"rpn.PitchBendSensitivity": {3, func(a []int) []midi.Message { return rpn.PitchBendSensitivity(u(a[0]), u(a[1]), u(a[2])) }},
	"rpn.FineTuning":           {3, func(a []int) []midi.Message { return rpn.FineTuning(u(a[0]), u(a[1]), u(a[2])) }},
	"rpn.CoarseTuning":         {3, func(a []int) []midi.Message { return rpn.CoarseTuning(u(a[0]), u(a[1]), u(a[2])) }},
	"rpn.TuningProgramSelect":  {3, func(a []int) []midi.Message { return rpn.TuningProgramSelect(u(a[0]), u(a[1]), u(a[2])) }},
	"rpn.TuningBankSelect":     {3, func(a []int) []midi.Message { return rpn.TuningBankSelect(u(a[0]), u(a[1]), u(a[2])) }},
	"nrpn.NRPN":                {5, func(a []int) []midi.Message { return nrpn.NRPN(u(a[0]), u(a[1]), u(a[2]), u(a[3]), u(a[4])) }},
	"nrpn.Increment":           {3, func(a []int) []midi.Message { return nrpn.Increment(u(a[0]), u(a[1]), u(a[2])) }},
	"nrpn.Decrement":           {3, func(a []int) []midi.Message { return nrpn.Decrement(u(a[0]), u(a[1]), u(a[2])) }},
	"nrpn.Reset":               {1, func(a []int) []midi.Message { return nrpn.Reset(u(a[0])) }},
	"midi.SilenceChannel":      {1, func(a []int) []midi.Message { return midi.SilenceChannel(int8(a[0])) }},
	"midi.ResetChannel":        {3, func(a []int) []midi.Message { return midi.ResetChannel(u(a[0]), u(a[1]), u(a[2])) }},
	"gm.Reset":                 {2, func(a []int) []midi.Message { return gm.Reset(u(a[0]), u(a[1])) }},
	"gm.GMProgram":             {2, func(a []int) []midi.Message { return gm.GMProgram(u(a[0]), u(a[1])) }},
}

// the library's named constants (values are read from the library, the expected numbers live in the TLA+ spec)
var consts = map[string]int{
	"cc.Off": int(midi.Off), "cc.On": int(midi.On),
	"cc.BankSelectMSB": int(midi.BankSelectMSB), "cc.ModulationWheelMSB": int(midi.ModulationWheelMSB), "cc.BreathControllerMSB": int(midi.BreathControllerMSB),
	"cc.FootPedalMSB": int(midi.FootPedalMSB), "cc.PortamentoTimeMSB": int(midi.PortamentoTimeMSB), "cc.DataEntryMSB": int(midi.DataEntryMSB),
	"cc.VolumeMSB": int(midi.VolumeMSB), "cc.BalanceMSB": int(midi.BalanceMSB), "cc.PanPositionMSB": int(midi.PanPositionMSB),
	"cc.ExpressionMSB": int(midi.ExpressionMSB), "cc.EffectControl1MSB": int(midi.EffectControl1MSB), "cc.EffectControl2MSB": int(midi.EffectControl2MSB),
	"cc.GeneralPurposeSlider1": int(midi.GeneralPurposeSlider1), "cc.GeneralPurposeSlider2": int(midi.GeneralPurposeSlider2),
	"cc.GeneralPurposeSlider3": int(midi.GeneralPurposeSlider3), "cc.GeneralPurposeSlider4": int(midi.GeneralPurposeSlider4),
	"cc.BankSelectLSB": int(midi.BankSelectLSB), "cc.ModulationWheelLSB": int(midi.ModulationWheelLSB), "cc.BreathControllerLSB": int(midi.BreathControllerLSB),
	"cc.FootPedalLSB": int(midi.FootPedalLSB), "cc.PortamentoTimeLSB": int(midi.PortamentoTimeLSB), "cc.DataEntryLSB": int(midi.DataEntryLSB),
	"cc.VolumeLSB": int(midi.VolumeLSB), "cc.BalanceLSB": int(midi.BalanceLSB), "cc.PanPositionLSB": int(midi.PanPositionLSB),
	"cc.ExpressionLSB": int(midi.ExpressionLSB), "cc.EffectControl1LSB": int(midi.EffectControl1LSB), "cc.EffectControl2LSB": int(midi.EffectControl2LSB),
	"cc.SoundVariation": int(midi.SoundVariation), "cc.SoundTimbre": int(midi.SoundTimbre), "cc.SoundReleaseTime": int(midi.SoundReleaseTime),
	"cc.SoundAttackTime": int(midi.SoundAttackTime), "cc.SoundBrightness": int(midi.SoundBrightness), "cc.SoundControl6": int(midi.SoundControl6),
	"cc.SoundControl7": int(midi.SoundControl7), "cc.SoundControl8": int(midi.SoundControl8), "cc.SoundControl9": int(midi.SoundControl9),
	"cc.SoundControl10": int(midi.SoundControl10), "cc.EffectsLevel": int(midi.EffectsLevel), "cc.TremuloLevel": int(midi.TremuloLevel),
	"cc.ChorusLevel": int(midi.ChorusLevel), "cc.CelesteLevel": int(midi.CelesteLevel), "cc.PhaserLevel": int(midi.PhaserLevel),
	"cc.DataButtonIncrement": int(midi.DataButtonIncrement), "cc.DataButtonDecrement": int(midi.DataButtonDecrement),
	"cc.NonRegisteredParameterLSB": int(midi.NonRegisteredParameterLSB), "cc.NonRegisteredParameterMSB": int(midi.NonRegisteredParameterMSB),
	"cc.RegisteredParameterLSB": int(midi.RegisteredParameterLSB), "cc.RegisteredParameterMSB": int(midi.RegisteredParameterMSB),
	"cc.AllSoundOff": int(midi.AllSoundOff), "cc.AllControllersOff": int(midi.AllControllersOff), "cc.AllNotesOff": int(midi.AllNotesOff),
	"cc.OmniModeOff": int(midi.OmniModeOff), "cc.OmniModeOn": int(midi.OmniModeOn), "cc.MonoOperation": int(midi.MonoOperation),
	"cc.PolyOperation": int(midi.PolyOperation), "cc.LocalKeyboardSwitch": int(midi.LocalKeyboardSwitch),
	"cc.HoldPedalSwitch": int(midi.HoldPedalSwitch), "cc.PortamentoSwitch": int(midi.PortamentoSwitch), "cc.SustenutoPedalSwitch": int(midi.SustenutoPedalSwitch),
	"cc.SoftPedalSwitch": int(midi.SoftPedalSwitch), "cc.LegatoPedalSwitch": int(midi.LegatoPedalSwitch), "cc.Hold2PedalSwitch": int(midi.Hold2PedalSwitch),
	"cc.GeneralPurposeButton1Switch": int(midi.GeneralPurposeButton1Switch), "cc.GeneralPurposeButton2Switch": int(midi.GeneralPurposeButton2Switch),
	"cc.GeneralPurposeButton3Switch": int(midi.GeneralPurposeButton3Switch), "cc.GeneralPurposeButton4Switch": int(midi.GeneralPurposeButton4Switch),

	"interval.Unison": int(midi.Unison), "interval.MinorSecond": int(midi.MinorSecond), "interval.MajorSecond": int(midi.MajorSecond),
	"interval.MinorThird": int(midi.MinorThird), "interval.MajorThird": int(midi.MajorThird), "interval.Fourth": int(midi.Fourth),
	"interval.Tritone": int(midi.Tritone), "interval.Fifth": int(midi.Fifth), "interval.MinorSixth": int(midi.MinorSixth),
	"interval.MajorSixth": int(midi.MajorSixth), "interval.MinorSeventh": int(midi.MinorSeventh), "interval.MajorSeventh": int(midi.MajorSeventh),
	"interval.Octave": int(midi.Octave), "interval.MinorNinth": int(midi.MinorNinth), "interval.MajorNinth": int(midi.MajorNinth),
	"interval.MinorTenth": int(midi.MinorTenth), "interval.MajorTenth": int(midi.MajorTenth), "interval.Eleventh": int(midi.Eleventh),
	"interval.DiminishedTwelfth": int(midi.DiminishedTwelfth), "interval.Twelfth": int(midi.Twelfth), "interval.MinorThirteenth": int(midi.MinorThirteenth),
	"interval.MajorThirteenth": int(midi.MajorThirteenth), "interval.MinorFourteenth": int(midi.MinorFourteenth),
	"interval.MajorFourteenth": int(midi.MajorFourteenth), "interval.DoubleOctave": int(midi.DoubleOctave),
}

var keyFns = map[string]func(uint8) uint8{"C": midi.C, "Db": midi.Db, "D": midi.D, "Eb": midi.Eb, "E": midi.E, "F": midi.F,
	"Gb": midi.Gb, "G": midi.G, "Ab": midi.Ab, "A": midi.A, "Bb": midi.Bb, "B": midi.B}
var keyNames = []string{"C", "Db", "D", "Eb", "E", "F", "Gb", "G", "Ab", "A", "Bb", "B"}

// exec performs the experiment named by (ev, fn, args, strs) on the real library.
func exec(ev, fn string, args []int, strs []string) *Rec {
	r := &Rec{Ev: ev, Fn: fn, Args: append([]int{}, args...), Strs: append([]string{}, strs...), Msgs: []hx.B{}, Outs: []int{}}
	r.Panic = hx.Catch(func() {
		switch ev {
		case "seq":
			h, ok := seqFns[fn]
			if !ok || len(args) != h.n {
				hx.Die("bad seq call", fn, args)
			}
			r.held = h.f(args)
		case "const":
			v, ok := consts[strs[0]]
			if !ok {
				hx.Die("unknown const", strs[0])
			}
			r.Outs = []int{v}
		case "keys":
			f, ok := keyFns[strs[0]]
			if !ok {
				hx.Die("unknown key function", strs[0])
			}
			for oct := 0; oct < 256; oct++ {
				r.Outs = append(r.Outs, int(f(uint8(oct))))
			}
		case "note":
			n := midi.Note(args[0])
			r.Outs = []int{int(n.Value()), int(n.Base()), int(n.Octave())}
			r.Strs = []string{n.Name(), n.String()}
		case "interval":
			for o := 0; o < 128; o++ {
				r.Outs = append(r.Outs, int(midi.Note(args[0]).Interval(midi.Note(o))))
			}
		case "is":
			for o := 0; o < 128; o++ {
				v := 0
				if midi.Note(args[0]).Is(midi.Note(o)) {
					v = 1
				}
				r.Outs = append(r.Outs, v)
			}
		case "transpose":
			for i := -128; i < 128; i++ {
				r.Outs = append(r.Outs, int(midi.Note(args[0]).Transpose(midi.Interval(i))))
			}
		case "istr":
			r.Strs = []string{midi.Interval(args[0]).String()}
		default:
			hx.Die("unknown ev", ev)
		}
	})
	if r.Panic != "" { // a panicking call returned nothing
		r.Msgs, r.Outs = []hx.B{}, []int{}
		if ev != "note" && ev != "istr" {
			r.Strs = append([]string{}, strs...)
		}
	}
	return r
}

func cmdGen(argv []string) {
	fs := flag.NewFlagSet("gen", flag.ExitOnError)
	out := fs.String("out", "", "")
	seed := fs.Int64("seed", 1, "")
	full := fs.Bool("full", false, "all 128x128 parameter numbers for every parameter helper, all channels x boundary values")
	nrand := fs.Int("nrandom", 6000, "")
	fs.Parse(argv)
	w := hx.Create(*out)
	rnd := rand.New(rand.NewSource(*seed))
	hold := &holder{w: w, window: 48}
	seq := func(fn string, a ...int) { hold.put(exec("seq", fn, a, nil)) }

	chansAll := []int{}
	for c := 0; c < 256; c++ {
		chansAll = append(chansAll, c)
	}
	chans := []int{0, 1, 2, 3, 4, 5, 6, 7, 8, 9, 10, 11, 12, 13, 14, 15, 16, 17, 127, 128, 255}
	few := []int{0, 9, 15, 16, 255}
	pb := []int{0, 1, 2, 3, 4, 5, 63, 64, 96, 97, 98, 99, 100, 101, 126, 127, 128, 255} // parameter-number bytes
	vb := []int{0, 1, 2, 12, 24, 63, 64, 100, 126, 127, 128, 200, 255}                  // value bytes
	vpairs := [][2]int{{0, 0}, {2, 0}, {0, 2}, {64, 0}, {127, 127}, {128, 255}, {24, 100}, {255, 1}}

	// constants, note helpers: complete
	names := []string{}
	for n := range consts {
		names = append(names, n)
	}
	sortStrings(names)
	for _, n := range names {
		hold.put(exec("const", "", nil, []string{n}))
	}
	for _, n := range keyNames {
		hold.put(exec("keys", "", nil, []string{n}))
	}
	for k := 0; k < 128; k++ {
		hold.put(exec("note", "", []int{k}, nil))
		hold.put(exec("interval", "", []int{k}, nil))
		hold.put(exec("is", "", []int{k}, nil))
		hold.put(exec("transpose", "", []int{k}, nil))
	}
	for i := -128; i < 128; i++ {
		hold.put(exec("istr", "", []int{i}, nil))
	}

	// Reset / SilenceChannel: whole argument domain
	for _, c := range chansAll {
		seq("rpn.Reset", c)
		seq("nrpn.Reset", c)
	}
	for c := -128; c < 128; c++ {
		seq("midi.SilenceChannel", c)
	}

	// ResetChannel / gm helpers
	for _, c := range chans {
		for _, b := range vb {
			for _, p := range vb {
				seq("midi.ResetChannel", c, b, p)
			}
			seq("gm.Reset", c, b)
			seq("gm.GMProgram", c, b)
		}
	}
	// parameter helpers with explicit parameter numbers
	p5 := []string{"rpn.RPN", "nrpn.NRPN"}
	p3 := []string{"rpn.Increment", "rpn.Decrement", "nrpn.Increment", "nrpn.Decrement"}
	cset := few
	if *full {
		cset = chans
	}
	for _, c := range cset {
		for _, pm := range pb {
			for _, pl := range pb {
				for i, fn := range p5 {
					if *full {
						for _, v := range vpairs {
							seq(fn, c, pm, pl, v[0], v[1])
						}
					} else {
						v := vpairs[(c+pm+pl+i+int(*seed))%len(vpairs)]
						seq(fn, c, pm, pl, v[0], v[1])
					}
				}
				for _, fn := range p3 {
					seq(fn, c, pm, pl)
				}
			}
		}
	}
	// all 128 x 128 parameter numbers: quick = one helper of each arity chosen by the seed; full = all six
	sweep5, sweep3 := []string{p5[int(*seed)%2]}, []string{p3[int(*seed)%4]}
	if *full {
		sweep5, sweep3 = p5, p3
	}
	for pm := 0; pm < 128; pm++ {
		for pl := 0; pl < 128; pl++ {
			c := (pm + pl + int(*seed)) % 16
			for _, fn := range sweep5 {
				seq(fn, c, pm, pl, rnd.Intn(128), rnd.Intn(128))
			}
			for _, fn := range sweep3 {
				seq(fn, c, pm, pl)
			}
		}
	}
	// all 128 x 128 values of the standard parameters (quick: one named helper chosen by the seed)
	named := []string{"rpn.PitchBendSensitivity", "rpn.FineTuning", "rpn.CoarseTuning", "rpn.TuningProgramSelect", "rpn.TuningBankSelect"}
	for _, c := range chans {
		for _, m := range vb {
			for _, l := range vb {
				for _, fn := range named {
					seq(fn, c, m, l)
				}
			}
		}
	}
	vs := []string{named[int(*seed)%5]}
	if *full {
		vs = named
	}
	for m := 0; m < 128; m++ {
		for l := 0; l < 128; l++ {
			for _, fn := range vs {
				seq(fn, (m+l)%16, m, l)
			}
		}
	}
	// ResetChannel / gm helpers, denser
	if *full {
		for c := 0; c < 16; c++ {
			for b := 0; b < 128; b++ {
				for p := (b + c) % 5; p < 128; p += 5 {
					seq("midi.ResetChannel", c, b, p)
				}
			}
		}
		for _, c := range chans {
			for p := 0; p < 256; p++ {
				seq("gm.Reset", c, p)
				seq("gm.GMProgram", c, p)
			}
		}
	}
	// random calls over the whole uint8 domain
	fns := []string{}
	for fn := range seqFns {
		fns = append(fns, fn)
	}
	sortStrings(fns)
	for i := 0; i < *nrand; i++ {
		fn := fns[rnd.Intn(len(fns))]
		a := make([]int, seqFns[fn].n)
		for j := range a {
			a[j] = rnd.Intn(256)
			if rnd.Intn(3) == 0 {
				a[j] = rnd.Intn(128)
			}
		}
		if j := rnd.Intn(2); j == 0 {
			a[0] = rnd.Intn(16)
		}
		if fn == "midi.SilenceChannel" {
			a[0] = rnd.Intn(256) - 128
		}
		seq(fn, a...)
	}
	hold.flush()
	w.Close()
	fmt.Printf("{\"records\": %d}\n", w.N)
}

func sortStrings(s []string) {
	for i := 1; i < len(s); i++ {
		for j := i; j > 0 && s[j] < s[j-1]; j-- {
			s[j], s[j-1] = s[j-1], s[j]
		}
	}
}

func cmdRerun(argv []string) {
	fs := flag.NewFlagSet("rerun", flag.ExitOnError)
	in := fs.String("in", "", "")
	out := fs.String("out", "", "")
	fs.Parse(argv)
	w := hx.Create(*out)
	hold := &holder{w: w, window: 1 << 30} // all records of the input are executed before any result is looked at
	hx.ReadLines(*in, func(l []byte) {
		var h struct {
			Ev   string   `json:"ev"`
			Fn   string   `json:"fn"`
			Args []int    `json:"args"`
			Strs []string `json:"strs"`
		}
		if err := json.Unmarshal(l, &h); err != nil {
			hx.Die(err)
		}
		if h.Ev == "note" || h.Ev == "istr" { // strs of these records are results, not inputs
			h.Strs = nil
		}
		hold.put(exec(h.Ev, h.Fn, h.Args, h.Strs))
	})
	hold.flush()
	w.Close()
}

func main() {
	cmds := map[string]func([]string){"gen": cmdGen, "rerun": cmdRerun}
	if len(os.Args) < 2 || cmds[os.Args[1]] == nil {
		fmt.Fprintln(os.Stderr, "usage: vh_ctrl gen|rerun [flags]")
		os.Exit(3)
	}
	cmds[os.Args[1]](os.Args[2:])
}
