// vh_registry: X05 -- the driver registry, port lookup and the session helpers of gitlab.com/gomidi/midi/v2 on
// configurable FAKE drivers (ports and listings that can be made to fail).  This binary imports neither testdrv nor
// midicatdrv, so the package-level registry starts empty; it is emptied between sequences.
//
//	gen    seeded random call sequences, executed on the real package-level API, one NDJSON line per sequence
//	rerun  re-execute the inputs of recorded sequences
//	walk   binding G: every transition of the state graph TLC dumped for spec/MC_Registry.tla is executed behind a
//	       shortest call path that reaches its source state; result and observable state are compared structurally
//	       with the target state(s); anything that differs is written out as a sequence for TLC to judge.
//
// There is no oracle in here: the harness configures the fakes, calls the library and writes down what it saw.
package main

import (
	"bytes"
	"encoding/json"
	"errors"
	"flag"
	"fmt"
	"math/rand"
	"os"
	"path/filepath"
	"sort"
	"time"

	"gitlab.com/gomidi/midi/v2"
	"gitlab.com/gomidi/midi/v2/drivers"
	"gitlab.com/gomidi/midi/v2/smf"

	"verifharness/internal/hx"
)

// ---------------------------------------------------------------- records

type PortID struct {
	K string `json:"k"`
	D int    `json:"d"`
	I int    `json:"i"`
}

var noPort = PortID{K: "none"}

type PortCfg struct {
	Num  int  `json:"num"`
	Name hx.B `json:"name"`
}

type DrvCfg struct {
	Name string    `json:"name"`
	Ins  []PortCfg `json:"ins"`
	Outs []PortCfg `json:"outs"`
}

type Fault struct {
	F string `json:"f"` // list | open | listen | send
	P PortID `json:"p"` // list: {k, d, 0}
}

type Step struct {
	// inputs
	Fn  string `json:"fn"`
	D   int    `json:"d"`
	P   PortID `json:"p"`
	N   int    `json:"n"`
	Q   hx.B   `json:"q"`
	Msg hx.B   `json:"msg"`
	// observed
	Ret     string   `json:"ret"` // nil | err
	Port    PortID   `json:"port"`
	List    []PortID `json:"list"`
	Drv     int      `json:"drv"`
	Closed  []int    `json:"closed"`
	Dlv     int      `json:"dlv"`
	Nrec    int      `json:"nrec"`
	Sent    []hx.B   `json:"sent"`
	Str     hx.B     `json:"str"`
	Pan     string   `json:"pan"`
	Timeout bool     `json:"timeout"`
	Open    []PortID `json:"open"`
	Lis     []PortID `json:"lis"`
	First   int      `json:"first"`
}

type Seq struct {
	ID    int      `json:"id"`
	Lay   []DrvCfg `json:"lay"`
	Flt   []Fault  `json:"flt"`
	Steps []Step   `json:"steps"`
	Note  string   `json:"note"`
}

// ---------------------------------------------------------------- the fake driver

var (
	errList   = errors.New("fake: listing fails")
	errOpen   = errors.New("fake: open fails")
	errListen = errors.New("fake: listen fails")
	errSend   = errors.New("fake: send fails")
)

type world struct {
	drv      []*fdrv
	closed   []int    // instances whose Close ran since the last observation
	sent     []hx.B   // byte strings accepted by out ports since the last observation
	dlv      int      // id of the ListenTo listener that was called since the last observation
	injected [][]byte // every message the environment delivered so far
	nl       int      // listeners started so far
	stops    map[PortID]*handle
	sends    map[PortID]func(midi.Message) error
	dir      string // for RecordTo
	nfile    int
	seqid    int
}

type handle struct {
	kind    string
	stop    func()
	stopErr func() error
	cnt     *int
	track   *smf.Track
	file    *smf.SMF
	path    string
}

type fdrv struct {
	idx      int
	name     string
	ins      []*fin
	outs     []*fout
	insFail  bool
	outsFail bool
	w        *world
}

func (d *fdrv) String() string { return d.name }
func (d *fdrv) Ins() ([]drivers.In, error) {
	if d.insFail {
		return nil, errList
	}
	r := make([]drivers.In, len(d.ins))
	for i, p := range d.ins {
		r[i] = p
	}
	return r, nil
}
func (d *fdrv) Outs() ([]drivers.Out, error) {
	if d.outsFail {
		return nil, errList
	}
	r := make([]drivers.Out, len(d.outs))
	for i, p := range d.outs {
		r[i] = p
	}
	return r, nil
}
func (d *fdrv) Close() error {
	d.w.closed = append(d.w.closed, d.idx)
	for _, p := range d.ins {
		p.Close()
	}
	for _, p := range d.outs {
		p.Close()
	}
	return nil
}

type fport struct {
	id       PortID
	num      int
	name     string
	open     bool
	openFail bool
	w        *world
}

func (p *fport) Open() error {
	if p.open {
		return nil
	}
	if p.openFail {
		return errOpen
	}
	p.open = true
	return nil
}
func (p *fport) IsOpen() bool            { return p.open }
func (p *fport) Number() int             { return p.num }
func (p *fport) String() string          { return p.name }
func (p *fport) Underlying() interface{} { return nil }

type fin struct {
	fport
	listenFail bool
	cb         func([]byte, int32)
	gen        int
}

func (p *fin) Close() error { p.open = false; p.cb = nil; p.gen++; return nil }
func (p *fin) Listen(cb func([]byte, int32), conf drivers.ListenConfig) (func(), error) {
	if !p.open {
		return nil, drivers.ErrPortClosed
	}
	if p.listenFail {
		return nil, errListen
	}
	p.gen++
	g := p.gen
	p.cb = cb
	return func() {
		if p.gen == g {
			p.cb = nil
		}
	}, nil
}

type fout struct {
	fport
	sendFail bool
}

func (p *fout) Close() error { p.open = false; return nil }
func (p *fout) Send(b []byte) error {
	if !p.open {
		return drivers.ErrPortClosed
	}
	if p.sendFail {
		return errSend
	}
	p.w.sent = append(p.w.sent, append(hx.B{}, b...))
	return nil
}

func resetRegistry() {
	for k := range drivers.REGISTRY {
		delete(drivers.REGISTRY, k)
	}
}

func newWorld(lay []DrvCfg, flt []Fault, dir string, seqid int) *world {
	resetRegistry()
	w := &world{stops: map[PortID]*handle{}, sends: map[PortID]func(midi.Message) error{}, dir: dir, seqid: seqid}
	for di, dc := range lay {
		d := &fdrv{idx: di + 1, name: dc.Name, w: w}
		for i, pc := range dc.Ins {
			d.ins = append(d.ins, &fin{fport: fport{id: PortID{"in", di + 1, i + 1}, num: pc.Num, name: string(pc.Name), w: w}})
		}
		for i, pc := range dc.Outs {
			d.outs = append(d.outs, &fout{fport: fport{id: PortID{"out", di + 1, i + 1}, num: pc.Num, name: string(pc.Name), w: w}})
		}
		w.drv = append(w.drv, d)
	}
	for _, f := range flt {
		if f.P.D < 1 || f.P.D > len(w.drv) {
			hx.Die("fault on unknown driver", f)
		}
		d := w.drv[f.P.D-1]
		switch {
		case f.F == "list" && f.P.K == "in":
			d.insFail = true
		case f.F == "list" && f.P.K == "out":
			d.outsFail = true
		case f.F == "open" && f.P.K == "in":
			w.in(f.P).openFail = true
		case f.F == "open" && f.P.K == "out":
			w.out(f.P).openFail = true
		case f.F == "listen":
			w.in(f.P).listenFail = true
		case f.F == "send":
			w.out(f.P).sendFail = true
		default:
			hx.Die("unknown fault", f)
		}
	}
	return w
}

func (w *world) in(p PortID) *fin {
	if p.K != "in" || p.D < 1 || p.D > len(w.drv) || p.I < 1 || p.I > len(w.drv[p.D-1].ins) {
		hx.Die("no such in port", p)
	}
	return w.drv[p.D-1].ins[p.I-1]
}

func (w *world) out(p PortID) *fout {
	if p.K != "out" || p.D < 1 || p.D > len(w.drv) || p.I < 1 || p.I > len(w.drv[p.D-1].outs) {
		hx.Die("no such out port", p)
	}
	return w.drv[p.D-1].outs[p.I-1]
}

// identity of whatever the library handed back
func idOfPort(p interface{}) PortID {
	switch x := p.(type) {
	case *fin:
		if x != nil {
			return x.id
		}
	case *fout:
		if x != nil {
			return x.id
		}
	}
	return PortID{K: "unknown"}
}

func (w *world) idOfDrv(d drivers.Driver) int {
	if d == nil {
		return 0
	}
	for _, x := range w.drv {
		if d == drivers.Driver(x) {
			return x.idx
		}
	}
	return -1
}

func kind(err error) string {
	if err == nil {
		return "nil"
	}
	return "err"
}

// number of events of the track that are (byte for byte) one of the messages the environment delivered
func (w *world) countInjected(tr smf.Track) int {
	n := 0
	for _, ev := range tr {
		for _, m := range w.injected {
			if bytes.Equal(ev.Message.Bytes(), m) {
				n++
				break
			}
		}
	}
	return n
}

func sortPorts(ps []PortID) {
	sort.Slice(ps, func(i, j int) bool {
		a, b := ps[i], ps[j]
		if a.D != b.D {
			return a.D < b.D
		}
		if a.K != b.K {
			return a.K < b.K
		}
		return a.I < b.I
	})
}

func (w *world) observe(st *Step) {
	st.Open, st.Lis = []PortID{}, []PortID{}
	for _, d := range w.drv {
		for _, p := range d.ins {
			if p.IsOpen() {
				st.Open = append(st.Open, p.id)
			}
			if p.cb != nil {
				st.Lis = append(st.Lis, p.id)
			}
		}
		for _, p := range d.outs {
			if p.IsOpen() {
				st.Open = append(st.Open, p.id)
			}
		}
	}
	sortPorts(st.Open)
	sortPorts(st.Lis)
	st.First = w.idOfDrv(drivers.Get())
	st.Closed = append([]int{}, w.closed...)
	st.Sent = append([]hx.B{}, w.sent...)
	st.Dlv = w.dlv
	w.closed, w.sent, w.dlv = nil, nil, 0
}

const (
	ticks = smf.MetricTicks(960)
	bpm   = 120.0
)

// call executes one step's inputs on the real API and fills in what came back.
func (w *world) call(st *Step) {
	st.Ret, st.Port, st.List, st.Drv, st.Nrec, st.Str = "nil", noPort, []PortID{}, 0, 0, hx.B{}
	inRes := func(p drivers.In, err error) {
		st.Ret = kind(err)
		if err == nil { // a port handed out alongside an error is not recorded
			st.Port = idOfPort(p)
		}
	}
	outRes := func(p drivers.Out, err error) {
		st.Ret = kind(err)
		if err == nil {
			st.Port = idOfPort(p)
		}
	}
	started := func(h *handle, err error) {
		st.Ret = kind(err)
		if err == nil {
			w.nl++
			w.stops[st.P] = h
		}
	}
	switch st.Fn {
	case "Register":
		drivers.Register(w.drv[st.D-1])
	case "Get":
		st.Drv = w.idOfDrv(drivers.Get())
	case "DriversClose":
		drivers.Close()
	case "CloseDriver":
		midi.CloseDriver()
	case "Ins":
		l, err := drivers.Ins()
		st.Ret = kind(err)
		if err == nil {
			for _, p := range l {
				st.List = append(st.List, idOfPort(p))
			}
		}
	case "Outs":
		l, err := drivers.Outs()
		st.Ret = kind(err)
		if err == nil {
			for _, p := range l {
				st.List = append(st.List, idOfPort(p))
			}
		}
	case "GetInPorts":
		l := midi.GetInPorts()
		for _, p := range l {
			st.List = append(st.List, idOfPort(p))
		}
		st.Str = hx.B(l.String())
	case "GetOutPorts":
		l := midi.GetOutPorts()
		for _, p := range l {
			st.List = append(st.List, idOfPort(p))
		}
		st.Str = hx.B(l.String())
	case "InByNumber":
		inRes(drivers.InByNumber(st.N))
	case "InByName":
		inRes(drivers.InByName(string(st.Q)))
	case "OutByNumber":
		outRes(drivers.OutByNumber(st.N))
	case "OutByName":
		outRes(drivers.OutByName(string(st.Q)))
	case "InPort":
		inRes(midi.InPort(st.N))
	case "OutPort":
		outRes(midi.OutPort(st.N))
	case "FindInPort":
		inRes(midi.FindInPort(string(st.Q)))
	case "FindOutPort":
		outRes(midi.FindOutPort(string(st.Q)))
	case "SendTo":
		f, err := midi.SendTo(w.out(st.P))
		st.Ret = kind(err)
		if err == nil {
			w.sends[st.P] = f
		}
	case "Send":
		f := w.sends[st.P]
		if f == nil {
			hx.Die("Send without a send function", st.P)
		}
		st.Ret = kind(f(midi.Message(st.Msg)))
	case "ListenTo":
		id := w.nl + 1
		cnt := new(int)
		stop, err := midi.ListenTo(w.in(st.P), func(m midi.Message, ts int32) {
			*cnt++
			w.dlv = id
		})
		started(&handle{kind: "listen", stop: stop, cnt: cnt}, err)
	case "TrackRecordFrom":
		tr := new(smf.Track)
		stop, err := tr.RecordFrom(w.in(st.P), ticks, bpm)
		started(&handle{kind: "track", stop: stop, track: tr}, err)
	case "SmfRecordFrom":
		s := smf.New()
		stop, err := s.RecordFrom(w.in(st.P), bpm)
		started(&handle{kind: "smf", stop: stop, file: s}, err)
	case "RecordTo":
		w.nfile++
		path := filepath.Join(w.dir, fmt.Sprintf("rec_%d_%d.mid", w.seqid, w.nfile))
		stop, err := smf.RecordTo(w.in(st.P), bpm, path)
		started(&handle{kind: "file", stopErr: stop, path: path}, err)
	case "Stop":
		h := w.stops[st.P]
		if h == nil {
			hx.Die("Stop without a stop function", st.P)
		}
		delete(w.stops, st.P)
		switch h.kind {
		case "listen":
			h.stop()
			st.Nrec = *h.cnt
		case "track":
			h.stop()
			st.Nrec = w.countInjected(*h.track)
		case "smf":
			h.stop()
			st.Nrec = -1
			if n := len(h.file.Tracks); n > 0 {
				st.Nrec = w.countInjected(h.file.Tracks[n-1])
			}
		case "file":
			st.Ret = kind(h.stopErr())
			st.Nrec = -1
			if f, err := smf.ReadFile(h.path); err == nil && len(f.Tracks) > 0 {
				st.Nrec = w.countInjected(f.Tracks[len(f.Tracks)-1])
			}
			os.Remove(h.path)
		}
	case "Inject":
		p := w.in(st.P)
		k := len(w.injected)
		m := []byte{0x90, byte(k % 128), 100}
		w.injected = append(w.injected, m)
		if p.cb != nil {
			p.cb(append([]byte{}, m...), int32(10*(k+1)))
		}
	case "PortClose":
		if st.P.K == "in" {
			w.in(st.P).Close()
		} else {
			w.out(st.P).Close()
		}
	default:
		hx.Die("unknown call", st.Fn)
	}
}

const watchdog = 30 * time.Second

// step runs one call under recover and a watchdog; false = the call hung (the process must not go on)
func (w *world) step(st *Step) bool {
	if st.Q == nil {
		st.Q = hx.B{}
	}
	if st.Msg == nil {
		st.Msg = hx.B{}
	}
	st.Pan, st.Timeout = "", false
	done := make(chan struct{})
	go func() {
		defer close(done)
		st.Pan = hx.Catch(func() { w.call(st) })
	}()
	tm := time.NewTimer(watchdog + 3*time.Second) // SMF.RecordFrom's stop sleeps a second by design
	defer tm.Stop()
	select {
	case <-done:
	case <-tm.C:
		st.Timeout = true
		st.Ret, st.Port, st.List, st.Closed, st.Sent, st.Open, st.Lis, st.Str = "nil", noPort, []PortID{}, []int{}, []hx.B{}, []PortID{}, []PortID{}, hx.B{}
		return false
	}
	if st.Pan != "" && st.List == nil {
		st.List = []PortID{}
	}
	w.observe(st)
	return true
}

func runSeq(s *Seq, dir string) bool {
	w := newWorld(s.Lay, s.Flt, dir, s.ID)
	defer resetRegistry()
	for i := range s.Steps {
		if !w.step(&s.Steps[i]) {
			s.Steps = s.Steps[:i+1]
			return false
		}
		if s.Steps[i].Pan != "" { // the state after a panic is nobody's business
			s.Steps = s.Steps[:i+1]
			return true
		}
	}
	return true
}

// ---------------------------------------------------------------- gen

var driverNames = []string{"A", "B", "C"}

func randName(r *rand.Rand) hx.B {
	n := hx.Pick(r, 0, 1, 1, 2, 2, 3, 3, 4)
	b := make(hx.B, n)
	for i := range b {
		b[i] = "abc"[r.Intn(3)]
	}
	return b
}

func genLayout(r *rand.Rand) ([]DrvCfg, []Fault) {
	nd := hx.Pick(r, 1, 2, 2, 3, 3, 4)
	var lay []DrvCfg
	var flt []Fault
	faulty := !hx.Chance(r, 0.25)
	for d := 1; d <= nd; d++ {
		dc := DrvCfg{Name: driverNames[r.Intn(len(driverNames))], Ins: []PortCfg{}, Outs: []PortCfg{}}
		for _, k := range []string{"in", "out"} {
			n := hx.Pick(r, 0, 1, 2, 2, 3, 3)
			nums := r.Perm(6)
			if hx.Chance(r, 0.5) { // the usual numbering 0..n-1 in listing order
				nums = []int{0, 1, 2, 3, 4, 5}
			}
			for i := 1; i <= n; i++ {
				pc := PortCfg{Num: nums[i-1], Name: randName(r)}
				if k == "in" {
					dc.Ins = append(dc.Ins, pc)
				} else {
					dc.Outs = append(dc.Outs, pc)
				}
				p := PortID{k, d, i}
				if faulty && hx.Chance(r, 0.2) {
					flt = append(flt, Fault{"open", p})
				}
				if faulty && k == "in" && hx.Chance(r, 0.2) {
					flt = append(flt, Fault{"listen", p})
				}
				if faulty && k == "out" && hx.Chance(r, 0.2) {
					flt = append(flt, Fault{"send", p})
				}
			}
			if faulty && hx.Chance(r, 0.12) {
				flt = append(flt, Fault{"list", PortID{k, d, 0}})
			}
		}
		lay = append(lay, dc)
	}
	if flt == nil {
		flt = []Fault{}
	}
	return lay, flt
}

func allPorts(lay []DrvCfg, k string) []PortID {
	var r []PortID
	for d, dc := range lay {
		n := len(dc.Ins)
		if k == "out" {
			n = len(dc.Outs)
		}
		for i := 1; i <= n; i++ {
			r = append(r, PortID{k, d + 1, i})
		}
	}
	return r
}

func randQuery(r *rand.Rand, lay []DrvCfg) hx.B {
	switch r.Intn(10) {
	case 0:
		return hx.B{}
	case 1, 2:
		b := randName(r)
		if hx.Chance(r, 0.3) {
			b = append(b, 'x')
		}
		return b
	}
	// a substring of an existing port name
	var names []hx.B
	for _, dc := range lay {
		for _, p := range dc.Ins {
			names = append(names, p.Name)
		}
		for _, p := range dc.Outs {
			names = append(names, p.Name)
		}
	}
	if len(names) == 0 {
		return randName(r)
	}
	nm := names[r.Intn(len(names))]
	if len(nm) == 0 {
		return hx.B{}
	}
	a := r.Intn(len(nm))
	b := a + 1 + r.Intn(len(nm)-a)
	return append(hx.B{}, nm[a:b]...)
}

// genSeq builds AND executes a sequence: the next call is drawn from what the protocol allows given the handles the
// harness holds (a stop function per in port, a send function per out port) -- bookkeeping, no judgement.
func genSeq(r *rand.Rand, id int, slow bool, dir string) (*Seq, bool) {
	lay, flt := genLayout(r)
	s := &Seq{ID: id, Lay: lay, Flt: flt, Steps: []Step{}}
	w := newWorld(lay, flt, dir, id)
	defer resetRegistry()
	ins, outs := allPorts(lay, "in"), allPorts(lay, "out")
	n := 6 + r.Intn(30)
	slowLeft := 0
	if slow {
		slowLeft = 1 + r.Intn(2)
		s.Note = "slow"
	}
	regd := 0
	for len(s.Steps) < n {
		st := Step{P: noPort, Q: hx.B{}, Msg: hx.B{}}
		c := r.Intn(100)
		if regd == 0 && c >= 12 && hx.Chance(r, 0.8) { // mostly register something early
			c = 0
		}
		switch {
		case c < 8:
			st.Fn, st.D = "Register", 1+r.Intn(len(lay))
			regd++
		case c < 12:
			st.Fn = "Get"
		case c < 15:
			st.Fn = []string{"DriversClose", "CloseDriver"}[r.Intn(2)]
		case c < 21:
			st.Fn = []string{"Ins", "Outs", "GetInPorts", "GetOutPorts"}[r.Intn(4)]
		case c < 35:
			st.Fn = []string{"InByNumber", "OutByNumber", "InPort", "OutPort"}[r.Intn(4)]
			st.N = hx.Pick(r, -1, -3, 0, 0, 1, 1, 2, 2, 3, 4, 5, 6)
		case c < 52:
			st.Fn = []string{"InByName", "OutByName", "FindInPort", "FindOutPort"}[r.Intn(4)]
			st.Q = randQuery(r, lay)
		case c < 60 && len(outs) > 0:
			st.Fn, st.P = "SendTo", outs[r.Intn(len(outs))]
		case c < 68 && len(w.sends) > 0:
			var ks []PortID
			for p := range w.sends {
				ks = append(ks, p)
			}
			sortPorts(ks)
			st.Fn, st.P = "Send", ks[r.Intn(len(ks))]
			st.Msg = hx.B{0x90 | byte(r.Intn(16)), byte(r.Intn(128)), byte(1 + r.Intn(127))}
		case c < 78 && len(ins) > 0:
			st.P = ins[r.Intn(len(ins))]
			if w.stops[st.P] != nil {
				st.Fn = "Stop"
			} else {
				st.Fn = []string{"ListenTo", "ListenTo", "TrackRecordFrom"}[r.Intn(3)]
				if slowLeft > 0 {
					st.Fn = []string{"SmfRecordFrom", "RecordTo"}[r.Intn(2)]
					slowLeft--
				}
			}
		case c < 88 && len(ins) > 0:
			st.Fn, st.P = "Inject", ins[r.Intn(len(ins))]
			if len(w.stops) > 0 && hx.Chance(r, 0.7) { // mostly where somebody listens
				var ks []PortID
				for p := range w.stops {
					ks = append(ks, p)
				}
				sortPorts(ks)
				st.P = ks[r.Intn(len(ks))]
			}
		case c < 93 && len(w.stops) > 0:
			var ks []PortID
			for p := range w.stops {
				ks = append(ks, p)
			}
			sortPorts(ks)
			st.Fn, st.P = "Stop", ks[r.Intn(len(ks))]
		case len(ins)+len(outs) > 0:
			all := append(append([]PortID{}, ins...), outs...)
			st.Fn, st.P = "PortClose", all[r.Intn(len(all))]
		default:
			continue
		}
		ok := w.step(&st)
		s.Steps = append(s.Steps, st)
		if !ok {
			return s, false
		}
		if st.Pan != "" {
			return s, true
		}
	}
	// stop what is still recording, so that every started recording is also finished and counted
	var ks []PortID
	for p := range w.stops {
		ks = append(ks, p)
	}
	sortPorts(ks)
	for _, p := range ks {
		st := Step{Fn: "Stop", P: p, Q: hx.B{}, Msg: hx.B{}}
		ok := w.step(&st)
		s.Steps = append(s.Steps, st)
		if !ok {
			return s, false
		}
		if st.Pan != "" {
			return s, true
		}
	}
	return s, true
}

func cmdGen(args []string) {
	fs := flag.NewFlagSet("gen", flag.ExitOnError)
	n := fs.Int("n", 100, "")
	seed := fs.Int64("seed", 1, "")
	slow := fs.Bool("slow", false, "sequences with SMF.RecordFrom / smf.RecordTo (a second per call)")
	id0 := fs.Int("id0", 0, "")
	out := fs.String("out", "", "")
	fs.Parse(args)
	r := rand.New(rand.NewSource(*seed))
	dir, err := os.MkdirTemp(filepath.Dir(*out), "rec")
	if err != nil {
		hx.Die(err)
	}
	defer os.RemoveAll(dir)
	w := hx.Create(*out)
	for i := 0; i < *n; i++ {
		s, ok := genSeq(r, *id0+i, *slow, dir)
		w.Put(s)
		if !ok {
			break // a call hung: its goroutine may still be inside the library
		}
	}
	w.Close()
}

func cmdRerun(args []string) {
	fs := flag.NewFlagSet("rerun", flag.ExitOnError)
	in := fs.String("in", "", "")
	out := fs.String("out", "", "")
	fs.Parse(args)
	dir, err := os.MkdirTemp(filepath.Dir(*out), "rec")
	if err != nil {
		hx.Die(err)
	}
	defer os.RemoveAll(dir)
	w := hx.Create(*out)
	hx.ReadLines(*in, func(l []byte) {
		var s Seq
		if err := json.Unmarshal(l, &s); err != nil {
			hx.Die(err)
		}
		runSeq(&s, dir)
		w.Put(&s)
	})
	w.Close()
}

// ---------------------------------------------------------------- walk (binding G)

type gCall struct {
	Fn  string `json:"fn"`
	D   int    `json:"d"`
	P   PortID `json:"p"`
	N   int    `json:"n"`
	Q   hx.B   `json:"q"`
	Msg hx.B   `json:"msg"`
}

type gRes struct {
	Ret    string   `json:"ret"`
	Port   PortID   `json:"port"`
	List   []PortID `json:"list"`
	Drv    int      `json:"drv"`
	Closed []int    `json:"closed"`
	Dlv    int      `json:"dlv"`
	Nrec   int      `json:"nrec"`
	Sent   []hx.B   `json:"sent"`
}

type gObs struct {
	Open  []PortID `json:"open"`
	Lis   []PortID `json:"lis"`
	First int      `json:"first"`
}

type gNode struct {
	Call gCall   `json:"call"`
	Res  gRes    `json:"res"`
	Obs  gObs    `json:"obs"`
	Flt  []Fault `json:"flt"`
	Out  []int   `json:"out"`
}

type Graph struct {
	Lay   []DrvCfg `json:"lay"`
	Inits []int    `json:"inits"`
	Nodes []gNode  `json:"nodes"`
}

func eqPorts(a, b []PortID) bool {
	if len(a) != len(b) {
		return false
	}
	for i := range a {
		if a[i] != b[i] {
			return false
		}
	}
	return true
}

// structural equality of an executed step with a model state (result + observable state)
func matches(st *Step, n *gNode) bool {
	if st.Pan != "" || st.Timeout || st.Ret != n.Res.Ret || st.Port != n.Res.Port || st.Drv != n.Res.Drv || st.Dlv != n.Res.Dlv ||
		st.Nrec != n.Res.Nrec || st.First != n.Obs.First || !eqPorts(st.List, n.Res.List) || !eqPorts(st.Open, n.Obs.Open) ||
		!eqPorts(st.Lis, n.Obs.Lis) || len(st.Closed) != len(n.Res.Closed) || len(st.Sent) != len(n.Res.Sent) {
		return false
	}
	for i := range st.Closed {
		if st.Closed[i] != n.Res.Closed[i] {
			return false
		}
	}
	for i := range st.Sent {
		if !bytes.Equal(st.Sent[i], n.Res.Sent[i]) {
			return false
		}
	}
	return true
}

func callKey(c *gCall) string {
	return fmt.Sprintf("%s|%d|%s%d.%d|%d|%v", c.Fn, c.D, c.P.K, c.P.D, c.P.I, c.N, []byte(c.Q))
}

func stepOf(c *gCall) Step {
	return Step{Fn: c.Fn, D: c.D, P: c.P, N: c.N, Q: append(hx.B{}, c.Q...), Msg: append(hx.B{}, c.Msg...)}
}

func cmdWalk(args []string) {
	fs := flag.NewFlagSet("walk", flag.ExitOnError)
	gp := fs.String("graph", "", "")
	out := fs.String("out", "", "")
	shard := fs.Int("shard", 0, "")
	of := fs.Int("of", 1, "")
	fs.Parse(args)
	var g Graph
	d, err := os.ReadFile(*gp)
	if err != nil {
		hx.Die(err)
	}
	if err := json.Unmarshal(d, &g); err != nil {
		hx.Die(err)
	}
	for i := range g.Nodes {
		n := &g.Nodes[i]
		sortPorts(n.Obs.Open)
		sortPorts(n.Obs.Lis)
	}
	slowFn := map[string]bool{"SmfRecordFrom": true, "RecordTo": true}
	dir, err := os.MkdirTemp(filepath.Dir(*out), "rec")
	if err != nil {
		hx.Die(err)
	}
	defer os.RemoveAll(dir)
	var paths, steps, skipped, nodes, slowSkipped int64
	bad := []Seq{}
	hung := false
	for ii, init := range g.Inits {
		if ii%*of != *shard || hung {
			continue
		}
		flt := g.Nodes[init].Flt
		if flt == nil {
			flt = []Fault{}
		}
		// breadth first: a shortest call path to every state
		parent := map[int]int{init: -1}
		order := []int{init}
		for q := 0; q < len(order); q++ {
			for _, t := range g.Nodes[order[q]].Out {
				if _, seen := parent[t]; !seen && !slowFn[g.Nodes[t].Call.Fn] {
					parent[t] = order[q]
					order = append(order, t)
				}
			}
		}
		nodes += int64(len(order))
		for _, src := range order {
			var prefix []int
			for x := src; x != init; x = parent[x] {
				prefix = append([]int{x}, prefix...)
			}
			groups := map[string][]int{}
			var keys []string
			for _, t := range g.Nodes[src].Out {
				if slowFn[g.Nodes[t].Call.Fn] {
					slowSkipped++
					continue
				}
				k := callKey(&g.Nodes[t].Call)
				if groups[k] == nil {
					keys = append(keys, k)
				}
				groups[k] = append(groups[k], t)
			}
			for _, k := range keys {
				cands := groups[k]
				s := Seq{ID: int(paths), Lay: g.Lay, Flt: flt, Note: "walk"}
				for _, x := range prefix {
					s.Steps = append(s.Steps, stepOf(&g.Nodes[x].Call))
				}
				s.Steps = append(s.Steps, stepOf(&g.Nodes[cands[0]].Call))
				done := make(chan bool, 1)
				var mism, skip bool
				go func() {
					w := newWorld(s.Lay, s.Flt, dir, s.ID)
					for i := range s.Steps {
						st := &s.Steps[i]
						st.Pan = hx.Catch(func() { w.call(st) })
						if st.Pan != "" && st.List == nil {
							st.List = []PortID{}
						}
						w.observe(st)
						if i < len(prefix) {
							if !matches(st, &g.Nodes[prefix[i]]) {
								// the real code took another of the outcomes the model allows here (or differs: then the
								// transition into prefix[i] is flagged when it is walked itself)
								skip = true
								s.Steps = s.Steps[:i+1]
								break
							}
							continue
						}
						ok := false
						for _, t := range cands {
							if matches(st, &g.Nodes[t]) {
								ok = true
							}
						}
						mism = !ok
					}
					done <- true
				}()
				tm := time.NewTimer(watchdog)
				select {
				case <-done:
					tm.Stop()
				case <-tm.C:
					hung = true
					mism = true
					s.Steps[len(s.Steps)-1].Timeout = true
					s.Note = "walk: a call hung"
				}
				paths++
				steps += int64(len(s.Steps))
				if skip {
					skipped++
				}
				if mism && len(bad) < 40 {
					for i := range s.Steps { // uniform records
						st := &s.Steps[i]
						if st.List == nil {
							st.List = []PortID{}
						}
						if st.Open == nil {
							st.Open, st.Lis, st.Closed, st.Sent = []PortID{}, []PortID{}, []int{}, []hx.B{}
						}
						if st.Str == nil {
							st.Str = hx.B{}
						}
						if st.Port.K == "" {
							st.Port = noPort
						}
						if st.Ret == "" {
							st.Ret = "nil"
						}
					}
					bad = append(bad, s)
				}
				if hung {
					break
				}
			}
			if hung {
				break
			}
		}
	}
	resetRegistry()
	res := map[string]interface{}{"paths": paths, "steps": steps, "skipped": skipped, "nodes": nodes, "slow_edges_left_to_traces": slowSkipped, "bad": bad}
	b, _ := json.Marshal(res)
	if err := os.WriteFile(*out, b, 0o644); err != nil {
		hx.Die(err)
	}
}

func main() {
	cmds := map[string]func([]string){"gen": cmdGen, "rerun": cmdRerun, "walk": cmdWalk}
	if len(os.Args) < 2 || cmds[os.Args[1]] == nil {
		fmt.Fprintln(os.Stderr, "usage: vh_registry gen|rerun|walk [flags]")
		os.Exit(3)
	}
	cmds[os.Args[1]](os.Args[2:])
}
