// vh_seqimport drives the REAL v2/sequencer package through its public API on seeded random songs: a song is
// built with New/AddBar, exported with ToSMF1 and with ToSMF0, and each export is handed to sequencer.FromSMF
// (directly, or after a trip through smf.WriteTo / smf.ReadFrom).  Recorded per song: the description of the song
// and, for both exports, what the imported song looks like through its public surface (Song.Ticks, Song.Bars():
// Number, TimeSig, AbsTicks, Events: TrackNo, Pos, Duration, Message).  It contains no oracle: TLC
// (spec/Trace_SequencerImport.tla) judges the records.
//
//	vh_seqimport imp-gen   -n N -seed S -out file.ndjson [-big]
//	vh_seqimport imp-rerun -in file.ndjson -out file.ndjson
package main

import (
	"bytes"
	"encoding/json"
	"flag"
	"fmt"
	"math/rand"
	"os"
	"time"

	"gitlab.com/gomidi/midi/v2/sequencer"
	"gitlab.com/gomidi/midi/v2/smf"

	"verifharness/internal/hx"
)

type Ev struct {
	Trk int  `json:"trk"`
	Pos int  `json:"pos"` // in 32nds from the start of the bar
	Dur int  `json:"dur"` // in 32nds (notes), 0 otherwise
	Msg hx.B `json:"msg"`
}

type BarD struct {
	Num      int  `json:"num"`
	Den      int  `json:"den"`
	Implicit bool `json:"implicit"` // handed to AddBar with a zero TimeSig ("same as before"; 4/4 for the first bar)
	Evs      []Ev `json:"evs"`
}

// one bar of an imported song, as Song.Bars() shows it
type IBar struct {
	No  int   `json:"no"`  // Bar.Number
	Num int   `json:"num"` // Bar.TimeSig[0]
	Den int   `json:"den"` // Bar.TimeSig[1]
	Abs int64 `json:"abs"` // Bar.AbsTicks; -1 if outside 0..2^31-1
	Evs []Ev  `json:"evs"`
}

type Imp struct {
	Fmt    int    `json:"fmt"`    // format of the export that was imported
	NTrk   int    `json:"ntrk"`   // number of tracks of that export
	Ticks  int    `json:"ticks"`  // Song.Ticks of the imported song
	NNames int    `json:"nnames"` // len(Song.TrackNames) of the imported song
	Bars   []IBar `json:"bars"`
	Err    string `json:"err"`   // "" or the kind of step that returned an error ("write", "read")
	Panic  string `json:"panic"` // "" or the panic text / timeout
}

type Rec struct {
	ID    int      `json:"id"`
	Seed  int64    `json:"seed"`
	Res   int      `json:"res"`
	Bars  []BarD   `json:"bars"`
	Via   int      `json:"via"`   // 0: the SMF value returned by the export is imported; 1: it is written with WriteTo and read back with ReadFrom first
	Names int      `json:"names"` // number of Song.TrackNames set
	Imp1  Imp      `json:"imp1"`  // FromSMF(ToSMF1())
	Imp0  Imp      `json:"imp0"`  // FromSMF(ToSMF0())
	Feat  []string `json:"feat"`
}

// ---- driving the real library ----------------------------------------------------------------------------

func build(rec *Rec) *sequencer.Song {
	s := sequencer.New()
	s.Ticks = smf.MetricTicks(rec.Res)
	s.Title = "t"
	s.Composer = "c"
	for i := 0; i < rec.Names; i++ {
		s.TrackNames = append(s.TrackNames, fmt.Sprintf("n%d", i))
	}
	for _, b := range rec.Bars {
		var bar sequencer.Bar
		if !b.Implicit {
			bar.TimeSig = [2]uint8{uint8(b.Num), uint8(b.Den)}
		}
		for _, e := range b.Evs {
			bar.Events = append(bar.Events, &sequencer.Event{
				TrackNo:  e.Trk,
				Pos:      uint8(e.Pos),
				Duration: uint8(e.Dur),
				Message:  smf.Message(append([]byte{}, e.Msg...)),
			})
		}
		s.AddBar(bar)
	}
	return s
}

func describe(s *sequencer.Song) (ticks int, nnames int, bars []IBar) {
	bars = []IBar{}
	for _, b := range s.Bars() {
		ib := IBar{No: int(b.Number), Num: int(b.TimeSig[0]), Den: int(b.TimeSig[1]), Abs: b.AbsTicks, Evs: []Ev{}}
		if ib.Abs < 0 || ib.Abs > 1<<31-1 {
			ib.Abs = -1
		}
		for _, e := range b.Events {
			ib.Evs = append(ib.Evs, Ev{Trk: e.TrackNo, Pos: int(e.Pos), Dur: int(e.Duration), Msg: hx.B(append([]byte{}, e.Message.Bytes()...))})
		}
		bars = append(bars, ib)
	}
	return int(s.Ticks), len(s.TrackNames), bars
}

func roundtrip(rec *Rec, format int) (im Imp) {
	im = Imp{Fmt: -1, Bars: []IBar{}}
	done := make(chan string, 1)
	var res Imp
	go func() {
		r := Imp{Fmt: -1, Bars: []IBar{}}
		p := hx.Catch(func() {
			s := build(rec)
			var sm smf.SMF
			if format == 0 {
				sm = s.ToSMF0()
			} else {
				sm = s.ToSMF1()
			}
			r.Fmt = int(sm.Format())
			r.NTrk = len(sm.Tracks)
			if rec.Via == 1 {
				var buf bytes.Buffer
				if _, err := sm.WriteTo(&buf); err != nil {
					r.Err = "write"
					return
				}
				back, err := smf.ReadFrom(bytes.NewReader(buf.Bytes()))
				if err != nil || back == nil {
					r.Err = "read"
					return
				}
				sm = *back
			}
			song := sequencer.FromSMF(sm)
			r.Ticks, r.NNames, r.Bars = describe(song)
		})
		res = r
		done <- p
	}()
	select {
	case p := <-done:
		im = res
		im.Panic = p
		if p != "" {
			im.Bars = []IBar{}
		}
	case <-time.After(30 * time.Second):
		im.Panic = "timeout: export + import did not return within 30 s"
	}
	return im
}

func execute(rec *Rec) {
	rec.Imp1 = roundtrip(rec, 1)
	rec.Imp0 = roundtrip(rec, 0)
}

// ---- generator (no judgement: the specification re-checks that every song is inside the property's domain) ----

type sig struct{ num, den int }

func allSigs() (all, big, common []sig) {
	for _, den := range []int{1, 2, 4, 8, 16, 32} {
		for num := 1; num <= 24; num++ {
			if num*32/den <= 255 {
				all = append(all, sig{num, den})
				if num >= 8 {
					big = append(big, sig{num, den})
				}
			}
		}
	}
	common = []sig{{4, 4}, {3, 4}, {2, 4}, {6, 8}, {9, 8}, {12, 8}, {5, 4}, {7, 8}, {2, 2}, {6, 4}, {8, 4}, {12, 16}, {7, 1}, {24, 32}, {15, 2}}
	return
}

var resChoices = []int{8, 16, 24, 48, 96, 120, 192, 240, 384, 480, 960, 1920, 3840, 15360, 32760}

func genSong(r *rand.Rand, rec *Rec, big bool) {
	all, bigs, common := allSigs()
	feat := map[string]bool{}
	if hx.Chance(r, 0.3) {
		rec.Res = 8 * (1 + r.Intn(4095))
	} else {
		rec.Res = resChoices[r.Intn(len(resChoices))]
	}
	rec.Via = 0
	if hx.Chance(r, 0.25) {
		rec.Via = 1
		feat["via_bytes"] = true
	}
	rec.Names = r.Intn(4)
	nb := 1 + r.Intn(5)
	switch {
	case big && hx.Chance(r, 0.5):
		nb = 1 + r.Intn(40)
	case hx.Chance(r, 0.15):
		nb = 1 + r.Intn(40)
	}
	if hx.Chance(r, 0.03) {
		nb = 40
	}
	// how often the signature stays: songs with one signature throughout are the everyday case
	stay := 0.40
	switch x := r.Float64(); {
	case x < 0.25:
		stay = 1.0
	case x < 0.45:
		stay = 0.8
	case x < 0.55:
		stay = 0.0
	}
	// the tracks this song uses
	ntr := 1 + r.Intn(8)
	trks := r.Perm(8)[:ntr]
	if ntr > 1 {
		feat["multitrack"] = true
	}
	cur := sig{4, 4}
	if hx.Chance(r, 0.5) {
		cur = common[r.Intn(len(common))] // the signature of the first bar
	}
	rec.Bars = make([]BarD, nb)
	lens := make([]int, nb)
	total := 0
	changes := 0
	lastChange := 0
	run := sig{4, 4}
	for i := 0; i < nb; i++ {
		sg := cur
		x := r.Float64()
		switch {
		case i == 0 || x < stay: // unchanged
		case x < stay+(1-stay)*0.35:
			sg = common[r.Intn(len(common))]
		case x < stay+(1-stay)*0.70:
			sg = bigs[r.Intn(len(bigs))]
		default:
			sg = all[r.Intn(len(all))]
		}
		rec.Bars[i] = BarD{Num: sg.num, Den: sg.den, Evs: []Ev{}}
		if sg == run && hx.Chance(r, 0.3) {
			rec.Bars[i].Implicit = true
			feat["implicit_sig"] = true
		}
		if sg != run {
			changes++
			lastChange = i
		}
		if sg.num >= 8 {
			feat["num>=8"] = true
		}
		cur, run = sg, sg
		lens[i] = sg.num * 32 / sg.den
		total += lens[i]
	}
	if changes >= 1 {
		feat["sigchange"] = true
	}
	if changes >= 3 {
		feat["sigchanges>=3"] = true
	}
	budget := 60
	if big {
		budget = 160
	}
	type span struct{ trk, ch, key, on, off int }
	var spans []span
	start := 0
	for i := 0; i < nb; i++ {
		L := lens[i]
		ne := r.Intn(4)
		if hx.Chance(r, 0.1) {
			ne = 4 + r.Intn(9)
		}
		if nb > 12 && hx.Chance(r, 0.5) {
			ne = r.Intn(2)
		}
		for j := 0; j < ne && budget > 0; j++ {
			budget--
			e := Ev{Trk: trks[r.Intn(ntr)]}
			switch x := r.Float64(); {
			case x < 0.2:
				e.Pos = 0
			case x < 0.35:
				e.Pos = L - 1
			default:
				e.Pos = r.Intn(L)
			}
			ch := byte(r.Intn(16))
			if hx.Chance(r, 0.5) {
				ch = byte(e.Trk)
			}
			d7 := func() byte { return byte(hx.Pick(r, 0, 1, 64, 127, r.Intn(128), r.Intn(128))) }
			room := total - (start + e.Pos) // 32nds left until the end of the song (>= 1)
			if room > 255 {
				room = 255
			}
			switch x := r.Float64(); {
			case x < 0.65:
				vel := byte(1 + r.Intn(127))
				key := byte(hx.Pick(r, 0, 60, 127, 36+r.Intn(48), 36+r.Intn(48), 36+r.Intn(12)))
				e.Msg = hx.B{0x90 | ch, key, vel}
				inbar := L - e.Pos
				switch y := r.Float64(); {
				case y < 0.25:
					e.Dur = 1
				case y < 0.40:
					e.Dur = inbar // ends exactly on the bar line
				case y < 0.50:
					e.Dur = room // as long as the song (or the 8-bit duration) allows
				case y < 0.75:
					e.Dur = 1 + r.Intn(inbar)
				default:
					e.Dur = 1 + r.Intn(room)
				}
				if e.Dur > room {
					e.Dur = room
				}
				if e.Dur > inbar {
					feat["crossbar"] = true
				}
				on := start + e.Pos
				for _, s := range spans {
					if s.ch == int(ch) && s.key == int(key) && on <= s.off && s.on <= on+e.Dur {
						feat["samekey_overlap_or_touch"] = true
					}
				}
				spans = append(spans, span{e.Trk, int(ch), int(key), on, on + e.Dur})
			case x < 0.80:
				e.Msg = hx.B{0xB0 | ch, d7(), d7()}
			case x < 0.87:
				e.Msg = hx.B{0xC0 | ch, d7()}
			case x < 0.92:
				e.Msg = hx.B{0xE0 | ch, d7(), d7()}
			case x < 0.96:
				e.Msg = hx.B{0xD0 | ch, d7()}
			default:
				e.Msg = hx.B{0xA0 | ch, d7(), d7()}
			}
			rec.Bars[i].Evs = append(rec.Bars[i].Evs, e)
			if i > lastChange {
				feat["event_after_last_sigchange_bar"] = true
			}
		}
		start += L
	}
	if nb > 12 {
		feat["long"] = true
	}
	rec.Feat = []string{}
	for _, k := range []string{"num>=8", "sigchange", "sigchanges>=3", "implicit_sig", "crossbar", "multitrack", "long", "via_bytes",
		"samekey_overlap_or_touch", "event_after_last_sigchange_bar"} {
		if feat[k] {
			rec.Feat = append(rec.Feat, k)
		}
	}
}

func cmdGen(args []string) {
	fs := flag.NewFlagSet("imp-gen", flag.ExitOnError)
	n := fs.Int("n", 100, "number of songs")
	seed := fs.Int64("seed", 1, "seed")
	out := fs.String("out", "", "output NDJSON")
	big := fs.Bool("big", false, "more long songs / more events")
	fs.Parse(args)
	w := hx.Create(*out)
	defer w.Close()
	r := rand.New(rand.NewSource(*seed*7919 + 101))
	for i := 0; i < *n; i++ {
		rec := Rec{ID: i, Seed: *seed}
		genSong(r, &rec, *big)
		execute(&rec)
		w.Put(&rec)
	}
}

func cmdRerun(args []string) {
	fs := flag.NewFlagSet("imp-rerun", flag.ExitOnError)
	in := fs.String("in", "", "input NDJSON (records; only the song description is used)")
	out := fs.String("out", "", "output NDJSON")
	fs.Parse(args)
	w := hx.Create(*out)
	defer w.Close()
	hx.ReadLines(*in, func(line []byte) {
		var rec Rec
		if err := json.Unmarshal(line, &rec); err != nil {
			hx.Die(err)
		}
		if rec.Feat == nil {
			rec.Feat = []string{}
		}
		for i := range rec.Bars {
			if rec.Bars[i].Evs == nil {
				rec.Bars[i].Evs = []Ev{}
			}
		}
		execute(&rec)
		w.Put(&rec)
	})
}

func main() {
	if len(os.Args) < 2 {
		hx.Die("usage: vh_seqimport imp-gen|imp-rerun [flags]")
	}
	switch os.Args[1] {
	case "imp-gen":
		cmdGen(os.Args[2:])
	case "imp-rerun":
		cmdRerun(os.Args[2:])
	default:
		hx.Die("unknown command", os.Args[1])
	}
}
