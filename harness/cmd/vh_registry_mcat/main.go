// vh_registry_mcat: X05 part M -- the process-backed driver drivers/midicatdrv as a member of the registry, against the
// stand-in helper cmd/midicat_x05 (installed as `midicat` first on PATH by props/x05.py; what the helper prints is set
// through the environment before every call).  One NDJSON line = one experiment: the version string the helper reports
// and what midicatdrv.New() did; the helper's `ins --json` / `outs --json` output and what Driver.Ins() / Outs() of the
// REGISTERED driver (drivers.Get()) returned; which of the listed ports were opened, Driver.Close() resp.
// midi.CloseDriver(), and IsOpen of every listed port before / after / after opening again.  No oracle in here.
package main

import (
	"encoding/json"
	"flag"
	"fmt"
	"math/rand"
	"os"
	"strconv"
	"strings"
	"time"

	"gitlab.com/gomidi/midi/v2"
	"gitlab.com/gomidi/midi/v2/drivers"
	"gitlab.com/gomidi/midi/v2/drivers/midicatdrv"

	"verifharness/internal/hx"
)

type Entry struct {
	Key  hx.B `json:"key"`
	Name hx.B `json:"name"`
}

type Listing struct {
	Entries []Entry `json:"entries"`
	Rc      int     `json:"rc"`
	Garbage bool    `json:"garbage"` // the helper prints Raw instead of an object built from Entries
	Raw     hx.B    `json:"raw"`
}

type PortObs struct {
	Num  int  `json:"num"`
	Name hx.B `json:"name"`
}

type Rec struct {
	ID      int     `json:"id"`
	Ver     hx.B    `json:"ver"`
	Ins     Listing `json:"ins"`
	Outs    Listing `json:"outs"`
	OpenIn  []int   `json:"openin"`  // positions (1..) in the listing Ins() returned
	OpenOut []int   `json:"openout"` // positions in the listing Outs() returned
	Via     string  `json:"via"`     // driver: Driver.Close() | registry: midi.CloseDriver()
	// observed
	NewOk      bool      `json:"newok"`
	NewPan     string    `json:"newpan"`
	InsRet     string    `json:"insret"`
	InsList    []PortObs `json:"inslist"`
	OutsRet    string    `json:"outsret"`
	OutsList   []PortObs `json:"outslist"`
	OpenRets   []string  `json:"openrets"`
	Before     []bool    `json:"before"` // IsOpen of every listed port (ins, then outs) after the opens
	CloseRet   string    `json:"closeret"`
	After      []bool    `json:"after"`
	Reopen     []bool    `json:"reopen"`
	ReopenRets []string  `json:"reopenrets"`
	First      hx.B      `json:"first"` // drivers.Get().String()
	Pan        string    `json:"pan"`
	Timeout    bool      `json:"timeout"`
}

func kind(err error) string {
	if err == nil {
		return "nil"
	}
	return "err"
}

func quote(b hx.B) string {
	q, _ := json.Marshal(string(b))
	return string(q)
}

func (l *Listing) text() string {
	if l.Garbage {
		return string(l.Raw)
	}
	var parts []string
	for _, e := range l.Entries {
		parts = append(parts, quote(e.Key)+":"+quote(e.Name))
	}
	return "{" + strings.Join(parts, ",") + "}"
}

func execute(r *Rec) {
	r.NewOk, r.NewPan, r.InsRet, r.OutsRet, r.CloseRet, r.Pan, r.Timeout = false, "", "", "", "", "", false
	r.InsList, r.OutsList, r.OpenRets, r.ReopenRets, r.Before, r.After, r.Reopen, r.First = []PortObs{}, []PortObs{}, []string{}, []string{}, []bool{}, []bool{}, []bool{}, hx.B{}
	done := make(chan struct{})
	go func() {
		defer close(done)
		// M1: the gate
		os.Setenv("X05_VERSION", string(r.Ver))
		r.NewPan = hx.Catch(func() {
			d, err := midicatdrv.New()
			r.NewOk = d != nil && err == nil
		})
		os.Setenv("X05_VERSION", "0.6.9")
		r.Pan = hx.Catch(func() {
			d := drivers.Get()
			if d == nil {
				return
			}
			r.First = hx.B(d.String())
			// M2: the listings of the registered driver
			r.Ins.Raw, r.Outs.Raw = hx.B(r.Ins.text()), hx.B(r.Outs.text())
			os.Setenv("X05_INS", string(r.Ins.Raw))
			os.Setenv("X05_INS_RC", strconv.Itoa(r.Ins.Rc))
			os.Setenv("X05_OUTS", string(r.Outs.Raw))
			os.Setenv("X05_OUTS_RC", strconv.Itoa(r.Outs.Rc))
			ins, err := drivers.Ins()
			r.InsRet = kind(err)
			if err != nil {
				ins = nil
			}
			for _, p := range ins {
				r.InsList = append(r.InsList, PortObs{p.Number(), hx.B(p.String())})
			}
			outs, err := drivers.Outs()
			r.OutsRet = kind(err)
			if err != nil {
				outs = nil
			}
			for _, p := range outs {
				r.OutsList = append(r.OutsList, PortObs{p.Number(), hx.B(p.String())})
			}
			// M3: open some, close the driver, look, open again
			var all []drivers.Port
			for _, p := range ins {
				all = append(all, p)
			}
			for _, p := range outs {
				all = append(all, p)
			}
			flags := func() []bool {
				f := []bool{}
				for _, p := range all {
					f = append(f, p.IsOpen())
				}
				return f
			}
			open := func(rets *[]string) {
				for _, i := range r.OpenIn {
					if i >= 1 && i <= len(ins) {
						*rets = append(*rets, kind(ins[i-1].Open()))
					}
				}
				for _, i := range r.OpenOut {
					if i >= 1 && i <= len(outs) {
						*rets = append(*rets, kind(outs[i-1].Open()))
					}
				}
			}
			open(&r.OpenRets)
			r.Before = flags()
			if r.Via == "registry" {
				midi.CloseDriver()
				r.CloseRet = "nil"
			} else {
				r.CloseRet = kind(d.Close())
			}
			r.After = flags()
			open(&r.ReopenRets)
			r.Reopen = flags()
			d.Close()
		})
	}()
	select {
	case <-done:
	case <-time.After(30 * time.Second):
		r.Timeout = true
	}
}

var versions = []string{"0.6.8", "0.6.9", "0.6.10", "0.6.65535", "0.6.65530", "0.6.65529", "0.6.65531", "v0.6.8", "0.6.7", "0.6.0", "0.5.99", "0.6", "0.7", "0.7.0", "0.7.1", "1.0", "1.0.0", "1", "6", "0",
	"0.0.0", "0.0", "", "abc", ".6.8", "0.6.8.1", "0..8", "0.6.x", "0.6.8-rc1", "x.6.8", "0,6,8", "v", "v.6.8", "00.06.08", "0.06.9", "0.6.08"}

func genVer(r *rand.Rand) hx.B {
	if hx.Chance(r, 0.5) {
		return hx.B(versions[r.Intn(len(versions))])
	}
	maj := hx.Pick(r, 0, 0, 0, 0, 1, 2)
	min := hx.Pick(r, 0, 5, 6, 6, 6, 6, 7, 60, 65)
	pat := hx.Pick(r, r.Intn(20), 7, 8, 9, 10, 100, 65535)
	s := fmt.Sprintf("%d.%d.%d", maj, min, pat)
	if hx.Chance(r, 0.15) {
		s = fmt.Sprintf("%d.%d", maj, min)
	}
	if hx.Chance(r, 0.15) {
		s = "v" + s
	}
	return hx.B(s)
}

var garbage = []string{"", "{", "[1,2]", `{"0":1}`, "x"}

func genListing(r *rand.Rand) Listing {
	l := Listing{Entries: []Entry{}, Raw: hx.B{}}
	switch r.Intn(12) {
	case 0:
		l.Rc = 1 + r.Intn(3)
	case 1:
		l.Garbage = true
		l.Raw = hx.B(garbage[r.Intn(len(garbage))])
		return l
	}
	n := hx.Pick(r, 0, 1, 2, 3, 3, 4, 5, 6)
	idx := r.Perm(12 + r.Intn(20))
	for i := 0; i < n; i++ {
		nm := make(hx.B, r.Intn(9))
		for j := range nm {
			nm[j] = "abc -0:Z"[r.Intn(8)]
		}
		l.Entries = append(l.Entries, Entry{Key: hx.B(strconv.Itoa(idx[i])), Name: nm})
	}
	if n > 0 && hx.Chance(r, 0.08) {
		l.Entries[r.Intn(n)].Key = hx.B([]string{"x", "1a", "one", ""}[r.Intn(4)])
	}
	return l
}

func cmdGen(args []string) {
	fs := flag.NewFlagSet("gen", flag.ExitOnError)
	n := fs.Int("n", 100, "")
	seed := fs.Int64("seed", 1, "")
	out := fs.String("out", "", "")
	directed := fs.Bool("directed", false, "the first experiments go through the table of version strings")
	fs.Parse(args)
	r := rand.New(rand.NewSource(*seed))
	w := hx.Create(*out)
	for i := 0; i < *n; i++ {
		ver := genVer(r)
		if *directed && i < len(versions) {
			ver = hx.B(versions[i])
		}
		rec := Rec{ID: i, Ver: ver, Ins: genListing(r), Outs: genListing(r), OpenIn: []int{}, OpenOut: []int{}, Via: []string{"driver", "registry"}[r.Intn(2)]}
		for p := 1; p <= len(rec.Ins.Entries); p++ {
			if hx.Chance(r, 0.4) {
				rec.OpenIn = append(rec.OpenIn, p)
			}
		}
		for p := 1; p <= len(rec.Outs.Entries); p++ {
			if hx.Chance(r, 0.4) {
				rec.OpenOut = append(rec.OpenOut, p)
			}
		}
		execute(&rec)
		w.Put(&rec)
		if rec.Timeout {
			break
		}
	}
	w.Close()
}

func cmdRerun(args []string) {
	fs := flag.NewFlagSet("rerun", flag.ExitOnError)
	in := fs.String("in", "", "")
	out := fs.String("out", "", "")
	fs.Parse(args)
	w := hx.Create(*out)
	hx.ReadLines(*in, func(l []byte) {
		var r Rec
		if err := json.Unmarshal(l, &r); err != nil {
			hx.Die(err)
		}
		execute(&r)
		w.Put(&r)
	})
	w.Close()
}

func main() {
	cmds := map[string]func([]string){"gen": cmdGen, "rerun": cmdRerun}
	if len(os.Args) < 2 || cmds[os.Args[1]] == nil {
		fmt.Fprintln(os.Stderr, "usage: vh_registry_mcat gen|rerun [flags]   (needs the stand-in `midicat` first on PATH)")
		os.Exit(3)
	}
	cmds[os.Args[1]](os.Args[2:])
}
