package main

// C03 VLQ sweep (binding X): delta values are pushed through the PUBLIC API (Track.Add -> WriteTo -> ReadFrom);
// the written chunk is cut at the VLQ boundaries using the continuation bits and each VLQ is checked with
// vlqCanonical, a transcription of spec/Vlq.tla IsCanonicalVlq + value (TLC re-judges samples every run).

import (
	"bytes"
	"encoding/json"
	"flag"
	"math/rand"
	"os"
	"sync"

	"gitlab.com/gomidi/midi/v2/smf"

	"verifharness/internal/hx"
)

func vlqCanonical(b []byte, n uint32) bool {
	if len(b) < 1 || len(b) > 4 {
		return false
	}
	var v uint32
	for i, x := range b {
		if (i < len(b)-1) != (x&0x80 != 0) {
			return false
		}
		v = v<<7 | uint32(x&0x7f)
	}
	if len(b) > 1 && b[0] == 0x80 {
		return false
	}
	return v == n
}

type VlqSample struct {
	N     uint32 `json:"n"`
	Bytes hx.B   `json:"bytes"`
	Back  uint32 `json:"back"`
	GoOk  bool   `json:"goSaysCanonical"`
}

// vlqBatch writes one file whose single track holds NoteOn events with the given deltas (no running status, so
// every event is <VLQ> 90 3C 40) and returns per delta the VLQ bytes found and the delta read back.
func vlqBatch(ns []uint32) (out []VlqSample, fail string) {
	s := smf.New()
	s.NoRunningStatus = true
	var tr smf.Track
	for _, n := range ns {
		tr.Add(n, []byte{0x90, 0x3C, 0x40})
	}
	tr.Close(0)
	s.Add(tr)
	var buf bytes.Buffer
	if p := hx.Catch(func() {
		if _, err := s.WriteTo(&buf); err != nil {
			fail = "write: " + err.Error()
		}
	}); p != "" {
		return nil, "write panic: " + p
	}
	if fail != "" {
		return nil, fail
	}
	b := buf.Bytes()
	if len(b) < 22 {
		return nil, "file too short"
	}
	body := b[22:] // MThd(14) + MTrk + length(8)
	pos := 0
	out = make([]VlqSample, len(ns))
	for i, n := range ns {
		st := pos
		for pos < len(body) && body[pos]&0x80 != 0 && pos-st < 8 {
			pos++
		}
		pos++
		if pos+3 > len(body) {
			return nil, "chunk ends early"
		}
		out[i] = VlqSample{N: n, Bytes: cp(body[st:pos])}
		if body[pos] != 0x90 || body[pos+1] != 0x3C || body[pos+2] != 0x40 {
			out[i].GoOk = false
			return out[:i+1], "" // desynchronised: report up to here
		}
		out[i].GoOk = vlqCanonical(body[st:pos], n)
		pos += 3
	}
	var back *smf.SMF
	var err error
	if p := hx.Catch(func() { back, err = smf.ReadFrom(bytes.NewReader(b)) }); p != "" || err != nil || back == nil || len(back.Tracks) != 1 || len(back.Tracks[0]) != len(ns)+1 {
		return out, "readback failed"
	}
	for i := range ns {
		out[i].Back = back.Tracks[0][i].Delta
	}
	return out, ""
}

func cmdVlqSweep(args []string) {
	fs := flag.NewFlagSet("vlq-sweep", flag.ExitOnError)
	from := fs.Uint64("from", 0, "")
	to := fs.Uint64("to", 0, "exclusive; 0 = no range sweep")
	nrand := fs.Int("rand", 65536, "")
	seed := fs.Int64("seed", 1, "")
	samples := fs.String("samples", "", "NDJSON of sample records for TLC")
	nsamp := fs.Int("nsamples", 20000, "")
	out := fs.String("out", "", "")
	fs.Parse(args)
	r := rand.New(rand.NewSource(*seed))
	// explicit list: boundaries +-2, random
	var list []uint32
	for _, b := range []uint32{0, 1 << 7, 1 << 14, 1 << 21, 1 << 28} {
		for d := -2; d <= 2; d++ {
			v := int64(b) + int64(d)
			if v >= 0 && v < 1<<28 {
				list = append(list, uint32(v))
			}
		}
	}
	for i := 0; i < *nrand; i++ {
		switch i % 4 {
		case 0:
			list = append(list, uint32(r.Intn(1<<7)))
		case 1:
			list = append(list, uint32(r.Intn(1<<14)))
		case 2:
			list = append(list, uint32(r.Intn(1<<21)))
		default:
			list = append(list, uint32(r.Intn(1<<28)))
		}
	}
	var mu sync.Mutex
	var bad []VlqSample
	var fails []string
	var checked uint64
	sw := hx.Create(*samples)
	judge := func(ss []VlqSample, fail string, sampleEvery int) {
		mu.Lock()
		defer mu.Unlock()
		if fail != "" && len(fails) < 5 {
			fails = append(fails, fail)
		}
		for i, s := range ss {
			checked++
			if !s.GoOk || s.Back != s.N {
				if len(bad) < 20 {
					bad = append(bad, s)
					sw.Put(s)
				}
			} else if sampleEvery > 0 && i%sampleEvery == 0 && sw.N < *nsamp {
				sw.Put(s)
			}
		}
	}
	ss, fail := vlqBatch(list)
	judge(ss, fail, 1 + len(list) / *nsamp)
	if *to > *from {
		const batch = 1 << 16
		var wg sync.WaitGroup
		sem := make(chan struct{}, 16)
		nb := (*to - *from + batch - 1) / batch
		for a := *from; a < *to; a += batch {
			wg.Add(1)
			sem <- struct{}{}
			go func(a uint64) {
				defer wg.Done()
				defer func() { <-sem }()
				e := a + batch
				if e > *to {
					e = *to
				}
				ns := make([]uint32, 0, e-a)
				for v := a; v < e; v++ {
					ns = append(ns, uint32(v))
				}
				ss, fail := vlqBatch(ns)
				judge(ss, fail, int(1+uint64(batch)*nb/uint64(*nsamp)))
			}(a)
		}
		wg.Wait()
	}
	sw.Close()
	res := map[string]interface{}{"checked": checked, "bad": bad, "fails": fails, "range": []uint64{*from, *to}, "samples": sw.N}
	if bad == nil {
		res["bad"] = []VlqSample{}
	}
	if fails == nil {
		res["fails"] = []string{}
	}
	b, _ := json.Marshal(res)
	os.WriteFile(*out, b, 0o644)
}

func init() {
	register("vlq-sweep", cmdVlqSweep)
}
