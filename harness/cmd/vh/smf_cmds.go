package main

import (
	"os"
	"path/filepath"
	"sync/atomic"
	"syscall"

	"bytes"
	"encoding/json"
	"errors"
	"flag"
	"io"
	"math/rand"
	"reflect"
	"testing/iotest"
	"time"

	"gitlab.com/gomidi/midi/v2/smf"

	"verifharness/internal/hx"
)

// ---- C05: truncation at every offset + arbitrary bytes ------------------------------------------------

type Cut struct {
	K      int    `json:"k"`
	Kind   string `json:"kind"`
	Counts []int  `json:"counts"` // events per returned track
	Hdr    bool   `json:"hdr"`    // format, division and track count equal to the full read
	Pre    bool   `json:"pre"`    // every returned track is an event-for-event prefix of the full read's track
	Val    R      `json:"val"`    // the full value when !Hdr || !Pre, or always with -full
	Alloc  uint64 `json:"alloc"`
	Ms     int64  `json:"ms"`
	Msg    string `json:"msg"`
}

type CutRec struct {
	Ev     string   `json:"ev"`
	ID     int      `json:"id"`
	Judge  string   `json:"judge"`
	Log    bool     `json:"log"` // a Logger is configured (SMF.Logger for writes, smf.Log for reads): must not change any result
	Bytes  hx.B     `json:"bytes"`
	Base   R        `json:"base"`
	Cuts   []Cut    `json:"cuts"`
	Tr     string   `json:"tr"` // the whole file and two of its prefixes through the track-level entry points (see AnyRec): the worst outcome
	TrFile string   `json:"trfile"`
	Full   bool     `json:"full"`
	Feat   []string `json:"feat"`
}

func isPrefix(a, b []REvent) bool {
	if len(a) > len(b) {
		return false
	}
	for i := range a {
		if !reflect.DeepEqual(a[i], b[i]) {
			return false
		}
	}
	return true
}

func runCut(rec *CutRec) {
	rec.Ev = "cut"
	rec.Base, _, _ = readBytes(rec.Bytes)
	rec.Cuts = []Cut{}
	ks := []int{}
	if len(rec.Bytes) <= 600 {
		for k := 0; k < len(rec.Bytes); k++ {
			ks = append(ks, k)
		}
	} else { // long files: every offset of head and tail, a stride in between
		step := len(rec.Bytes) / 400
		for k := 0; k < len(rec.Bytes); k++ {
			if k < 150 || k > len(rec.Bytes)-150 || k%step == 0 {
				ks = append(ks, k)
			}
		}
	}
	for _, k := range ks {
		if atomic.LoadInt32(&hungReads) > 0 {
			break
		}
		v, alloc, ms := readBytes(rec.Bytes[:k])
		c := Cut{K: k, Kind: v.Kind, Counts: []int{}, Alloc: alloc, Ms: ms, Msg: v.Msg, Val: noneR()}
		if v.Kind == "value" {
			c.Hdr = rec.Base.Kind == "value" && v.Fmt == rec.Base.Fmt && v.TF == rec.Base.TF && len(v.Tracks) == len(rec.Base.Tracks)
			c.Pre = c.Hdr
			for i, t := range v.Tracks {
				c.Counts = append(c.Counts, len(t))
				if c.Hdr && !isPrefix(t, rec.Base.Tracks[i]) {
					c.Pre = false
				}
			}
			if !c.Hdr || !c.Pre || rec.Full {
				c.Val = v
			}
		}
		rec.Cuts = append(rec.Cuts, c)
	}
	rec.Tr, rec.TrFile = "ok", "ok"
	for _, k := range []int{len(rec.Bytes), len(rec.Bytes) / 2, len(rec.Bytes) - 1} {
		if k < 0 {
			continue
		}
		m, f := tracksProbe(rec.Bytes[:k])
		if rec.Tr == "ok" || rec.Tr == "error" {
			rec.Tr = m
		}
		if rec.TrFile == "ok" || rec.TrFile == "error" || rec.TrFile == "n/a" {
			rec.TrFile = f
		}
	}
}

type AnyRec struct {
	Ev     string `json:"ev"`
	ID     int    `json:"id"`
	Judge  string `json:"judge"`
	Bytes  hx.B   `json:"bytes"`
	Len    int    `json:"len"`
	Kind   string `json:"kind"`
	Alloc  uint64 `json:"alloc"`
	Ms     int64  `json:"ms"`
	Msg    string `json:"msg"`
	Src    string `json:"src"`
	Tr     string `json:"tr"`     // the same bytes through ReadTracksFrom(...).Do: ok | error | panic: .. | timeout
	TrFile string `json:"trfile"` // and through ReadTracks(path).Do
}

func runAny(rec *AnyRec) {
	rec.Ev = "any"
	v, alloc, ms := readBytes(rec.Bytes)
	rec.Len, rec.Kind, rec.Alloc, rec.Ms, rec.Msg = len(rec.Bytes), v.Kind, alloc, ms, v.Msg
	rec.Tr, rec.TrFile = tracksProbe(rec.Bytes)
}

// ---- C09: delivery schedules ---------------------------------------------------------------------------

type SchedRun struct {
	Sched string `json:"sched"`
	Same  bool   `json:"same"`
	Val   R      `json:"val"`
}

type SchedRec struct {
	Ev    string     `json:"ev"`
	ID    int        `json:"id"`
	Judge string     `json:"judge"`
	Log   bool       `json:"log"`   // a Logger is configured (SMF.Logger for writes, smf.Log for reads): must not change any result
	Bytes hx.B       `json:"bytes"` // the complete valid file
	Cut   int        `json:"cut"`   // -1: whole file; else only the first Cut bytes are delivered
	Base  R          `json:"base"`  // bytes.Reader baseline on the delivered bytes
	Runs  []SchedRun `json:"runs"`
	Seed  int64      `json:"seed"`
	Feat  []string   `json:"feat"`
}

// fragReader hands out the data in the given fragment sizes (cyclic), at least one byte per call.
type fragReader struct {
	data  []byte
	sizes []int
	i     int
}

func (f *fragReader) Read(p []byte) (int, error) {
	if len(f.data) == 0 {
		return 0, io.EOF
	}
	if len(p) == 0 {
		return 0, nil
	}
	n := f.sizes[f.i%len(f.sizes)]
	f.i++
	if n < 1 {
		n = 1
	}
	if n > len(p) {
		n = len(p)
	}
	if n > len(f.data) {
		n = len(f.data)
	}
	copy(p, f.data[:n])
	f.data = f.data[n:]
	return n, nil
}

// splitReader returns the data in exactly two fragments [0,k) and [k,n) regardless of how much is asked
// for (never more than asked).
type splitReader struct {
	data []byte
	k    int
	pos  int
}

func (s *splitReader) Read(p []byte) (int, error) {
	if s.pos >= len(s.data) {
		return 0, io.EOF
	}
	if len(p) == 0 {
		return 0, nil
	}
	end := len(s.data)
	if s.pos < s.k {
		end = s.k
	}
	n := end - s.pos
	if n > len(p) {
		n = len(p)
	}
	copy(p, s.data[s.pos:s.pos+n])
	s.pos += n
	return n, nil
}

func sameResult(a, b R) bool {
	if a.Kind != b.Kind {
		return false
	}
	if a.Kind != "value" {
		return true // same kind of failure
	}
	return reflect.DeepEqual(a, b)
}

func runSched(rec *SchedRec) {
	rec.Ev = "sched"
	data := []byte(rec.Bytes)
	if rec.Cut >= 0 {
		data = data[:rec.Cut]
	}
	rec.Base, _, _ = readBytes(data)
	rec.Runs = []SchedRun{}
	add := func(name string, rd io.Reader) {
		v, _, _ := readFrom(rd)
		run := SchedRun{Sched: name, Same: sameResult(v, rec.Base), Val: noneR()}
		if !run.Same {
			run.Val = v
		}
		rec.Runs = append(rec.Runs, run)
	}
	add("onebyte", iotest.OneByteReader(bytes.NewReader(data)))
	add("half", iotest.HalfReader(bytes.NewReader(data)))
	add("dataerr", iotest.DataErrReader(bytes.NewReader(data)))
	add("dataerr+onebyte", iotest.DataErrReader(iotest.OneByteReader(bytes.NewReader(data))))
	add("alt1n", &fragReader{data: data, sizes: []int{1, 1 << 20}})
	add("alt12", &fragReader{data: data, sizes: []int{1, 2}})
	add("alt3", &fragReader{data: data, sizes: []int{3}})
	// the file-level entry points: the same bytes in a file on disk, read by smf.ReadFile, and handed to ReadFrom as an *os.File
	if dir, derr := os.MkdirTemp("", "verif_rf"); derr == nil {
		pth := filepath.Join(dir, "x.mid")
		if os.WriteFile(pth, data, 0o644) == nil {
			v, _, _ := readPath(pth)
			run := SchedRun{Sched: "ReadFile", Same: sameResult(v, rec.Base), Val: noneR()}
			if !run.Same {
				run.Val = v
			}
			rec.Runs = append(rec.Runs, run)
			if f, ferr := os.Open(pth); ferr == nil {
				add("os.File", f)
				f.Close()
			}
		}
		// a named pipe: a path whose size says nothing about its content; the writer delivers the bytes in three pieces
		fifo := filepath.Join(dir, "x.fifo")
		if len(data) > 0 && syscall.Mkfifo(fifo, 0o600) == nil {
			go func() {
				f, err := os.OpenFile(fifo, os.O_WRONLY, 0)
				if err != nil {
					return
				}
				a, b := len(data)/3, 2*len(data)/3
				f.Write(data[:a])
				f.Write(data[a:b])
				f.Write(data[b:])
				f.Close()
			}()
			v, _, _ := readPath(fifo)
			run := SchedRun{Sched: "ReadFile(fifo)", Same: sameResult(v, rec.Base), Val: noneR()}
			if !run.Same {
				run.Val = v
			}
			rec.Runs = append(rec.Runs, run)
		}
		os.RemoveAll(dir)
	}
	r := rand.New(rand.NewSource(rec.Seed))
	for i := 0; i < 4; i++ {
		sz := make([]int, 1+r.Intn(12))
		for j := range sz {
			sz[j] = 1 + r.Intn(1+r.Intn(40))
		}
		b, _ := json.Marshal(sz)
		add("frag"+string(b), &fragReader{data: data, sizes: sz})
	}
	// every single split point (two fragments), exhaustively for files up to 1200 bytes, strided beyond
	step := 1
	if len(data) > 1200 {
		step = len(data) / 600
	}
	bad := 0
	nsplit := 0
	for k := 1; k < len(data); k += step {
		if atomic.LoadInt32(&hungReads) > 0 {
			break
		}
		v, _, _ := readFrom(&splitReader{data: data, k: k})
		nsplit++
		if !sameResult(v, rec.Base) {
			bad++
			if bad <= 3 {
				kk, _ := json.Marshal(k)
				rec.Runs = append(rec.Runs, SchedRun{Sched: "split@" + string(kk), Same: false, Val: v})
			}
		}
	}
	n, _ := json.Marshal(nsplit)
	rec.Runs = append(rec.Runs, SchedRun{Sched: "allsplits:" + string(n), Same: bad == 0, Val: noneR()})
	// truncated files: every prefix of the file (strided beyond 400 bytes) from memory vs. one byte per call vs. the last
	// bytes together with EOF -- where the file ends (inside a payload, right before it, inside a length) must not matter
	if rec.Cut < 0 {
		step, bad, ncut := 1, 0, 0
		if len(data) > 400 {
			step = len(data) / 200
		}
		for k := 1; k < len(data); k += step {
			if atomic.LoadInt32(&hungReads) > 0 {
				break
			}
			base, _, _ := readBytes(data[:k])
			ncut++
			for _, alt := range []struct {
				name string
				rd   io.Reader
			}{{"onebyte", iotest.OneByteReader(bytes.NewReader(data[:k]))}, {"dataerr", iotest.DataErrReader(bytes.NewReader(data[:k]))},
				{"alt3", &fragReader{data: data[:k], sizes: []int{3}}}} {
				v, _, _ := readFrom(alt.rd)
				if !sameResult(v, base) {
					bad++
					if bad <= 3 {
						kk, _ := json.Marshal(k)
						v.Msg = "from memory: " + base.Kind + " (" + base.Msg + "); " + alt.name + ": " + v.Msg
						rec.Runs = append(rec.Runs, SchedRun{Sched: "cut@" + string(kk) + "/" + alt.name, Same: false, Val: v})
					}
				}
			}
		}
		n, _ := json.Marshal(ncut)
		rec.Runs = append(rec.Runs, SchedRun{Sched: "allcuts:" + string(n), Same: bad == 0, Val: noneR()})
	}
}

// ---- C10: I/O faults ------------------------------------------------------------------------------------

var errFault = errors.New("injected I/O fault")

// budgetWriter accepts exactly `budget` bytes (mode "once": fails exactly one write, then recovers).  mode "short": the write that crosses the budget stores what fits
// and returns (n < len(p), error); mode "next": it stores nothing of that write and returns (0, error); "shortwrite" / "eof": as "short" / "next" with
// io.ErrShortWrite / io.EOF as the error value; "closedpipe" as "next" with io.ErrClosedPipe, "epipe" / "enospc" as "short" with *os.PathError{EPIPE / ENOSPC}; "onceshort": one short write with an error, then the destination recovers;
// "fullerr": one write is accepted completely AND reported as failed, everything after it succeeds.
type budgetWriter struct {
	budget int
	mode   string
	got    int
	failed bool
}

// the error value the destination fails with: the verdict must not depend on its identity
func (w *budgetWriter) err() error {
	switch w.mode {
	case "shortwrite": // a full pipe / quota: short count with io.ErrShortWrite, then nothing
		return io.ErrShortWrite
	case "eof":
		return io.EOF
	case "closedpipe": // the consumer end of an io.Pipe was closed
		return io.ErrClosedPipe
	case "epipe": // the process at the other end of a pipe / socket went away
		return &os.PathError{Op: "write", Path: "|1", Err: syscall.EPIPE}
	case "enospc":
		return &os.PathError{Op: "write", Path: "/mnt/full/x.mid", Err: syscall.ENOSPC}
	}
	return errFault
}

func (w *budgetWriter) Write(p []byte) (int, error) {
	if w.failed && w.mode != "once" && w.mode != "onceshort" && w.mode != "fullerr" {
		return 0, w.err()
	}
	if w.failed { // modes "once" / "onceshort": a transient fault, the destination accepts everything again afterwards
		w.got += len(p)
		return len(p), nil
	}
	if w.got+len(p) <= w.budget {
		w.got += len(p)
		return len(p), nil
	}
	w.failed = true
	if w.mode == "fullerr" { // the destination takes the whole write and reports an error all the same (once)
		w.got += len(p)
		return len(p), w.err()
	}
	if w.mode == "short" || w.mode == "shortwrite" || w.mode == "onceshort" || w.mode == "epipe" || w.mode == "enospc" {
		n := w.budget - w.got
		w.got += n
		return n, w.err()
	}
	return 0, w.err()
}

type WFault struct {
	K    int    `json:"k"`
	Mode string `json:"mode"`
	Err  bool   `json:"err"`
	Size int64  `json:"size"`
	Got  int    `json:"got"` // bytes the destination really accepted
	Pan  string `json:"pan"`
	// the SAME SMF value written again to a healthy destination right after the failed write: "err" (an error: not judged),
	// "ok" (nil, size = bytes accepted, bytes = the unfaulted output), "size", "differs", "panic: .."
	Retry string `json:"retry"`
}

type WFaultRec struct {
	Ev     string   `json:"ev"`
	ID     int      `json:"id"`
	Judge  string   `json:"judge"`
	Log    bool     `json:"log"` // a Logger is configured (SMF.Logger for writes, smf.Log for reads): must not change any result
	Hist   []Op     `json:"hist"`
	Total  int      `json:"total"` // bytes of the unfaulted output
	OkErr  bool     `json:"okerr"` // the unfaulted write returned an error
	OkSize int64    `json:"oksize"`
	Faults []WFault `json:"faults"`
	// the file-name entry point onto a destination that refuses every byte (a link to /dev/full): "err" | "nil" | "panic: .." | "n/a"
	DevFull string `json:"devfull"`
}

func runWFault(rec *WFaultRec) {
	rec.Ev = "wfault"
	var buf bytes.Buffer
	s := execHistory(rec.Hist)
	n, err := s.WriteTo(&buf)
	rec.Total, rec.OkErr, rec.OkSize = buf.Len(), err != nil, n
	rec.Faults = []WFault{}
	rec.DevFull = "n/a"
	if _, serr := os.Stat("/dev/full"); serr == nil {
		if dir, derr := os.MkdirTemp("", "verif_df"); derr == nil {
			link := filepath.Join(dir, "full.mid") // (WriteFile removes the path on failure: only the link goes)
			if os.Symlink("/dev/full", link) == nil {
				var ferr error
				pp := hx.Catch(func() { ferr = execHistory(rec.Hist).WriteFile(link) })
				switch {
				case pp != "":
					rec.DevFull = "panic: " + pp
				case ferr != nil:
					rec.DevFull = "err"
				default:
					rec.DevFull = "nil"
				}
			}
			os.RemoveAll(dir)
		}
	}
	ks := []int{}
	step := 1
	if rec.Total > 400 {
		step = rec.Total / 200
	}
	for k := 0; k < rec.Total; k++ {
		if k < 120 || k > rec.Total-60 || k%step == 0 {
			ks = append(ks, k)
		}
	}
	for _, k := range ks {
		for mi, mode := range []string{"short", "next", "once", "onceshort", "fullerr", "shortwrite", "eof", "closedpipe", "epipe", "enospc"} {
			if mi >= 7 && (k+mi)%3 != 0 && k > 40 { // the error identities of real destinations: a third of the offsets each
				continue
			}
			w := &budgetWriter{budget: k, mode: mode}
			f := WFault{K: k, Mode: mode}
			var s2 *smf.SMF
			f.Pan = hx.Catch(func() {
				s2 = execHistory(rec.Hist)
				sz, e := s2.WriteTo(w)
				f.Err, f.Size = e != nil, sz
			})
			f.Got = w.got
			f.Retry = "ok"
			if f.Pan == "" && s2 != nil && (k%7 == 0 || k < 40) {
				var again bytes.Buffer
				var sz int64
				var e error
				if p := hx.Catch(func() { sz, e = s2.WriteTo(&again) }); p != "" {
					f.Retry = "panic: " + p
				} else if e != nil {
					f.Retry = "err"
				} else if sz != int64(again.Len()) {
					f.Retry = "size"
				} else if !bytes.Equal(again.Bytes(), buf.Bytes()) {
					f.Retry = "differs"
				}
			}
			rec.Faults = append(rec.Faults, f)
		}
	}
}

// faultReader returns the first k bytes (in fragments of `frag`), then a sticky non-EOF error.
type faultReader struct {
	data []byte
	k    int
	pos  int
	frag int
}

func (f *faultReader) Read(p []byte) (int, error) {
	if f.pos >= f.k {
		return 0, errFault
	}
	n := f.k - f.pos
	if n > len(p) {
		n = len(p)
	}
	if f.frag > 0 && n > f.frag {
		n = f.frag
	}
	copy(p, f.data[f.pos:f.pos+n])
	f.pos += n
	return n, nil
}

// richSource is a failing source that looks like an open regular file: besides Read it has Stat (a regular file of the full
// size), Seek, Size, Len and Close -- everything a reader could use to "know" how much there is without reading it.
type richSource struct {
	faultReader
}

type richInfo struct{ n int64 }

func (i richInfo) Name() string       { return "x.mid" }
func (i richInfo) Size() int64        { return i.n }
func (i richInfo) Mode() os.FileMode  { return 0o644 }
func (i richInfo) ModTime() time.Time { return time.Unix(1700000000, 0) }
func (i richInfo) IsDir() bool        { return false }
func (i richInfo) Sys() interface{}   { return nil }

func (s *richSource) Stat() (os.FileInfo, error) { return richInfo{int64(len(s.data))}, nil }
func (s *richSource) Size() int64                { return int64(len(s.data)) }
func (s *richSource) Len() int                   { return len(s.data) - s.pos }
func (s *richSource) Close() error               { return nil }
func (s *richSource) Seek(off int64, whence int) (int64, error) {
	switch whence {
	case io.SeekCurrent:
		off += int64(s.pos)
	case io.SeekEnd:
		off += int64(len(s.data))
	}
	if off < 0 || off > int64(len(s.data)) {
		return int64(s.pos), errors.New("seek out of range")
	}
	s.pos = int(off)
	return off, nil
}

type RFault struct {
	K    int    `json:"k"`
	Frag int    `json:"frag"`
	Kind string `json:"kind"`
	Msg  string `json:"msg"`
}

type RFaultRec struct {
	Ev     string   `json:"ev"`
	ID     int      `json:"id"`
	Judge  string   `json:"judge"`
	Log    bool     `json:"log"` // a Logger is configured (SMF.Logger for writes, smf.Log for reads): must not change any result
	Bytes  hx.B     `json:"bytes"`
	Base   R        `json:"base"`
	Faults []RFault `json:"faults"`
}

func runRFault(rec *RFaultRec) {
	rec.Ev = "rfault"
	rec.Base, _, _ = readBytes(rec.Bytes)
	rec.Faults = []RFault{}
	n := len(rec.Bytes)
	step := 1
	if n > 500 {
		step = n / 250
	}
	for k := 0; k <= n; k++ {
		if !(k < 150 || k > n-100 || k%step == 0) {
			continue
		}
		for _, frag := range []int{0, 1, -1} { // -1: the failing source looks like an open regular file (richSource)
			if atomic.LoadInt32(&hungReads) > 0 {
				break
			}
			var src io.Reader = &faultReader{data: rec.Bytes, k: k, frag: frag}
			if frag < 0 {
				src = &richSource{faultReader{data: rec.Bytes, k: k}}
			}
			v, _, _ := readFrom(src)
			rec.Faults = append(rec.Faults, RFault{K: k, Frag: frag, Kind: v.Kind, Msg: v.Msg})
		}
	}
}

// ---- commands ---------------------------------------------------------------------------------------------

// validFiles yields spec-valid files from both sources: the byte-level generator and the library's own writer.
func validFile(r *rand.Rand, big bool, feat map[string]bool) []byte {
	if r.Intn(2) == 0 {
		return genValidFile(r, big, feat)
	}
	for {
		h := genHistory(r, false, !big, feat)
		var buf bytes.Buffer
		var err error
		if hx.Catch(func() { _, err = execHistory(h).WriteTo(&buf) }) == "" && err == nil {
			feat["lib_written"] = true
			return buf.Bytes()
		}
	}
}

func cmdSmfGen(args []string) {
	fs := flag.NewFlagSet("smf-gen", flag.ExitOnError)
	seed := fs.Int64("seed", 1, "")
	n := fs.Int("n", 100, "")
	mode := fs.String("mode", "wr", "wr|rd|cut|any|sched|wfault|rfault")
	judge := fs.String("judge", "", "")
	out := fs.String("out", "", "")
	big := fs.Bool("big", false, "allow large files")
	fulld := fs.Bool("fulldelta", false, "deltas over the whole uint32 range")
	fs.Parse(args)
	r := rand.New(rand.NewSource(*seed))
	w := hx.Create(*out)
	for i := 0; i < *n; i++ {
		feat := map[string]bool{}
		switch *mode {
		case "wr":
			rec := &WrRec{ID: i, Judge: *judge, Hist: genHistory(r, *fulld, !*big || i%4 != 0, feat), PriorFault: -1}
			if r.Intn(4) == 0 {
				rec.PriorFault = r.Intn(60)
				feat["prior_failed_write"] = true
			}
			rec.Log = r.Intn(3) == 0
			useLog = rec.Log
			runWr(rec)
			rec.Feat = featList(feat)
			w.Put(rec)
		case "wrx": // small-scope exhaustive: handled below the loop
			i = *n
		case "rd":
			rec := &RdRec{ID: i, Judge: *judge, Bytes: genValidFile(r, *big && i%4 == 0, feat)}
			rec.Log = r.Intn(3) == 0
			useLog = rec.Log
			runRd(rec)
			rec.Feat = featList(feat)
			w.Put(rec)
		case "cut":
			rec := &CutRec{ID: i, Judge: *judge, Bytes: validFile(r, *big && i%8 == 0, feat)}
			rec.Log = r.Intn(3) == 0
			useLog = rec.Log
			runCut(rec)
			rec.Feat = featList(feat)
			w.Put(rec)
		case "any":
			rec := &AnyRec{ID: i, Judge: *judge}
			k := r.Intn(10)
			if i%80 == 17 {
				k = -1
			}
			switch {
			case k < 0: // ONE long track: thousands of short events (running status), a few KiB of input
				nev := []int{6000, 9000, 14000, 20000}[r.Intn(4)]
				body := []byte{0x00, 0xC0 | byte(r.Intn(16)), byte(r.Intn(128))}
				if r.Intn(2) == 0 {
					body = []byte{0x00, 0x90 | byte(r.Intn(16)), byte(r.Intn(128)), byte(r.Intn(128))}
				}
				nd := len(body) - 2
				for e := 1; e < nev; e++ {
					body = append(body, byte(r.Intn(2)))
					for j := 0; j < nd; j++ {
						body = append(body, byte(r.Intn(128)))
					}
				}
				body = append(body, 0x00, 0xFF, 0x2F, 0x00)
				b := append([]byte("MThd"), 0, 0, 0, 6, 0, 0, 0, 1, 0, 96)
				b = append(append(append(b, []byte("MTrk")...), be32(len(body))...), body...)
				rec.Bytes, rec.Src = b, "longtrack"
			case k < 2:
				rec.Bytes, rec.Src = payload(r, r.Intn(200), false), "random"
			case k < 4:
				hdr := append([]byte("MThd"), 0, 0, 0, 6, 0, byte(r.Intn(3)), 0, byte(1+r.Intn(3)), byte(r.Intn(256)), byte(r.Intn(256)))
				hdr = append(hdr, []byte("MTrk")...)
				hdr = append(hdr, be32(r.Intn(100))...)
				rec.Bytes, rec.Src = append(hdr, payload(r, r.Intn(200), false)...), "header+random"
			case k < 5 && i%40 == 7: // more track chunks than a 15-bit counter holds (the header field is 16 bit unsigned)
				nt := []int{32767, 32768, 32769, 40000, 65535}[r.Intn(5)]
				b := append([]byte("MThd"), 0, 0, 0, 6, 0, 1, byte(nt>>8), byte(nt), 0, 96)
				chunk := append(append([]byte("MTrk"), 0, 0, 0, 4), 0x00, 0xFF, 0x2F, 0x00)
				for t := 0; t < nt; t++ {
					b = append(b, chunk...)
				}
				rec.Bytes, rec.Src = b, "manytracks"
			case k < 6: // well-formed structure, but fixed-length meta types with other (self-consistent) lengths
				oddMeta = true
				rec.Bytes, rec.Src = genValidFile(r, false, feat), "oddmeta"
				oddMeta = false
			default:
				b := validFile(r, false, feat)
				for m := 1 + r.Intn(3); m > 0; m-- {
					b = mutate(r, b)
				}
				rec.Bytes, rec.Src = b, "mutated"
			}
			useLog = false
			runAny(rec)
			w.Put(rec)
		case "sched":
			rec := &SchedRec{ID: i, Judge: *judge, Bytes: validFile(r, *big && i%8 == 0, feat), Cut: -1, Seed: r.Int63()}
			if i%5 == 4 {
				rec.Bytes = oddLayout(r, rec.Bytes, feat)
			}
			if i%3 == 2 && len(rec.Bytes) > 1 {
				rec.Cut = 1 + r.Intn(len(rec.Bytes)-1)
			}
			rec.Log = r.Intn(3) == 0
			useLog = rec.Log
			runSched(rec)
			rec.Feat = featList(feat)
			w.Put(rec)
		case "wfault":
			rec := &WFaultRec{ID: i, Judge: *judge, Hist: genHistory(r, false, !*big || i%4 != 0, feat)}
			rec.Log = r.Intn(3) == 0
			useLog = rec.Log
			runWFault(rec)
			w.Put(rec)
		case "rfault":
			rec := &RFaultRec{ID: i, Judge: *judge, Bytes: validFile(r, *big && i%8 == 0, feat)}
			rec.Log = r.Intn(3) == 0
			useLog = rec.Log
			runRFault(rec)
			w.Put(rec)
		default:
			hx.Die("unknown mode", *mode)
		}
		if atomic.LoadInt32(&hungReads) > 0 { // a read never returned: stop here, the record just written carries the timeout
			w.Close()
			os.Exit(0)
		}
	}
	if *mode == "wrx" {
		exhaustiveHistories(*n, *judge, w)
	}
	w.Close()
}

// exhaustiveHistories: EVERY history of up to `depth` events over the event alphabet of spec/MC_SmfRoundTrip.tla (the
// register-relevant message kinds at delta 0, the boundary deltas with one message), in one track, with the Close
// variants (omitted / delta 0 / multi-byte delta), for both values of NoRunningStatus.  Inputs only: TLC judges.
func exhaustiveHistories(depth int, judge string, w *hx.Writer) {
	msgs := [][]byte{{144, 60, 100}, {144, 61, 0}, {145, 60, 1}, {128, 60, 0}, {192, 5}, {193, 6}, {224, 0, 64},
		{255, 1, 0}, {255, 1, 1, 65}, {255, 81, 3, 7, 161, 32}, {255, 96, 2, 1, 2},
		{240, 1, 247}, {240, 1, 2}, {240}, {247, 1, 2}, {247, 144, 1, 2}}
	deltas := [][]int{{0}, {127}, {1, 0}, {127, 127}, {1, 0, 0}, {127, 127, 127, 127}}
	type pair struct {
		d []int
		m []byte
	}
	var alpha []pair
	for _, m := range msgs {
		alpha = append(alpha, pair{[]int{0}, m})
	}
	for _, d := range deltas[1:] {
		alpha = append(alpha, pair{d, msgs[0]})
	}
	id := 0
	var rec func(seq []pair)
	emit := func(seq []pair) {
		for _, nrs := range []bool{false, true} {
			for cl := 0; cl < 3; cl++ {
				h := []Op{{Op: "new", Fmt: id % 3}, {Op: "nrs", V: nrs}, {Op: "track"}}
				for _, p := range seq {
					h = append(h, Op{Op: "add", D: p.d, Msgs: []hx.B{append(hx.B{}, p.m...)}})
				}
				switch cl {
				case 1:
					h = append(h, Op{Op: "close", D: []int{0}})
				case 2:
					h = append(h, Op{Op: "close", D: []int{1, 0}})
				}
				h = append(h, Op{Op: "smfadd"})
				for i := range h {
					if h[i].D == nil {
						h[i].D = []int{0}
					}
					if h[i].Msgs == nil {
						h[i].Msgs = []hx.B{}
					}
				}
				rr := &WrRec{ID: 1000000 + id, Judge: judge, Hist: h, Feat: []string{"exhaustive_small"}, PriorFault: -1}
				runWr(rr)
				w.Put(rr)
				id++
			}
		}
	}
	rec = func(seq []pair) {
		if len(seq) > 0 {
			emit(seq)
		}
		if len(seq) == depth {
			return
		}
		for _, p := range alpha {
			rec(append(append([]pair{}, seq...), p))
		}
	}
	rec(nil)
	if depth < 3 { // the register-relevant three-event shapes: channel message, anything, channel message
		ch := []pair{alpha[0], alpha[1], alpha[4], alpha[2]}
		for _, a := range ch {
			for _, mid := range alpha {
				for _, b := range ch {
					emit([]pair{a, mid, b})
				}
			}
		}
	}
}

// cmdSmfRerun re-executes recorded cases from their inputs only (replay).
func cmdSmfRerun(args []string) {
	fs := flag.NewFlagSet("smf-rerun", flag.ExitOnError)
	in := fs.String("in", "", "")
	out := fs.String("out", "", "")
	full := fs.Bool("full", false, "log complete values for every cut")
	fs.Parse(args)
	w := hx.Create(*out)
	hx.ReadLines(*in, func(l []byte) {
		var head struct {
			Ev string `json:"ev"`
		}
		json.Unmarshal(l, &head)
		switch head.Ev {
		case "wr":
			var rec WrRec
			json.Unmarshal(l, &rec)
			useLog = rec.Log
			runWr(&rec)
			w.Put(&rec)
		case "rd":
			var rec RdRec
			json.Unmarshal(l, &rec)
			useLog = rec.Log
			runRd(&rec)
			w.Put(&rec)
		case "cut":
			var rec CutRec
			json.Unmarshal(l, &rec)
			rec.Full = rec.Full || *full
			useLog = rec.Log
			runCut(&rec)
			w.Put(&rec)
		case "any":
			var rec AnyRec
			json.Unmarshal(l, &rec)
			useLog = false
			runAny(&rec)
			w.Put(&rec)
		case "sched":
			var rec SchedRec
			json.Unmarshal(l, &rec)
			useLog = rec.Log
			runSched(&rec)
			w.Put(&rec)
		case "wfault":
			var rec WFaultRec
			json.Unmarshal(l, &rec)
			useLog = rec.Log
			runWFault(&rec)
			w.Put(&rec)
		case "rfault":
			var rec RFaultRec
			json.Unmarshal(l, &rec)
			useLog = rec.Log
			runRFault(&rec)
			w.Put(&rec)
		default:
			hx.Die("unknown record", head.Ev)
		}
	})
	w.Close()
}

var _ = smf.New

func init() {
	register("smf-gen", cmdSmfGen)
	register("smf-rerun", cmdSmfRerun)
}
