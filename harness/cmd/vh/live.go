package main

// Live decoder family (C04, C06, C14; reused by C13): sessions on the real receiver.
//   level "listen": testdrv loopback + midi.ListenTo (what a user observes)
//   level "reader": drivers.NewReader + EachMessage (what a driver author observes; exact time stamps)

import (
	"encoding/json"
	"flag"
	"fmt"
	"math/rand"
	"os"
	"sync"
	"sync/atomic"
	"time"

	"gitlab.com/gomidi/midi/v2"
	"gitlab.com/gomidi/midi/v2/drivers"
	"gitlab.com/gomidi/midi/v2/drivers/testdrv"

	"verifharness/internal/hx"
)

type LMsg struct {
	B  hx.B  `json:"b"`  // the slice the listener was handed, NOT a copy: serialised when the session is over, so a delivered
	Ts int32 `json:"ts"` // message that is later overwritten by the library (reused buffer) shows up as changed content
}

type LChunk struct {
	Dt    int32  `json:"dt"`
	Bytes hx.B   `json:"bytes"`
	Out   []LMsg `json:"out"`
}

type LSession struct {
	ID       int      `json:"id"`
	Lvl      string   `json:"lvl"`
	Cap      uint32   `json:"cap"`
	Sysex    bool     `json:"sysex"`
	As       bool     `json:"as"`
	Tc       bool     `json:"tc"`
	Chunks   []LChunk `json:"chunks"`
	Panic    string   `json:"panic"`
	Prev     []bool   `json:"prev"` // listen level: options [sysex, as, tc] of an EARLIER listener on the same port pair that was stopped before this one started ([] = none)
	Twin     [][]LMsg `json:"twin"`
	TwinBase int32    `json:"twinbase"`
	Feat     []string `json:"feat"`
	Exact    bool     `json:"exact"` // listen level: the driver's clock origin was pinned (see runSession), so time stamps are absolute: stamp = sum of dt
	OnErr    bool     `json:"onerr"` // an error handler is installed (midi.HandleError at listen level, ListenConfig.OnErr at reader level)
	Errs     int      `json:"errs"`  // number of times it was called
	Ord      int      `json:"ord"`   // listen level: order of the (independent) options in the ListenTo call: 0 Use.., size; 1 size, Use..; 2 size, Use.. reversed
}

func cp(b []byte) hx.B { return append(hx.B{}, b...) }

// runSession executes the session on the real code and fills Out / Panic.
// runSession runs the session under a watchdog: the calls take microseconds; one that has not come back after 30 s never will
// (recorded as the outcome; the stuck goroutine is left behind and the command stops generating: liveHung).
var liveHung int32

func runSession(s *LSession) {
	done := make(chan struct{})
	work := *s
	work.Chunks = make([]LChunk, len(s.Chunks))
	for i, c := range s.Chunks {
		work.Chunks[i] = LChunk{Dt: c.Dt, Bytes: c.Bytes}
	}
	go func() {
		runSession0(&work)
		close(done)
	}()
	select {
	case <-done:
		*s = work
	case <-time.After(30 * time.Second):
		atomic.AddInt32(&liveHung, 1)
		for i := range s.Chunks {
			s.Chunks[i].Out = []LMsg{}
		}
		s.Panic, s.Exact = "timeout: the session did not finish within 30 s (a call never returned)", true
	}
}

func runSession0(s *LSession) {
	var cur []LMsg
	s.Panic, s.Errs, s.Exact = "", 0, false
	for i := range s.Chunks {
		s.Chunks[i].Out = []LMsg{}
	}
	switch s.Lvl {
	case "listen":
		tNew := time.Now()
		drv := testdrv.New("verif")
		ins, _ := drv.Ins()
		outs, _ := drv.Outs()
		var opts []midi.Option
		if s.Sysex {
			opts = append(opts, midi.UseSysEx())
		}
		if s.As {
			opts = append(opts, midi.UseActiveSense())
		}
		if s.Tc {
			opts = append(opts, midi.UseTimeCode())
		}
		if s.Ord == 2 {
			for i, j := 0, len(opts)-1; i < j; i, j = i+1, j-1 {
				opts[i], opts[j] = opts[j], opts[i]
			}
		}
		if s.Ord == 0 {
			opts = append(opts, midi.SysExBufferSize(s.Cap))
		} else {
			opts = append([]midi.Option{midi.SysExBufferSize(s.Cap)}, opts...)
		}
		var stop func()
		var err error
		if len(s.Prev) == 3 { // an earlier listener with other options, stopped again: the new one must be a fresh receiver
			var po []midi.Option
			if s.Prev[0] {
				po = append(po, midi.UseSysEx())
			}
			if s.Prev[1] {
				po = append(po, midi.UseActiveSense())
			}
			if s.Prev[2] {
				po = append(po, midi.UseTimeCode())
			}
			if pp := hx.Catch(func() {
				ps, perr := midi.ListenTo(ins[0], func(m midi.Message, ts int32) {}, po...)
				if perr == nil {
					outs[0].Open()
					outs[0].Send([]byte{0x90, 0x10})
					ps()
				}
			}); pp != "" {
				s.Panic = "previous listener: " + pp
				return
			}
		}
		if s.OnErr {
			opts = append(opts, midi.HandleError(func(error) { s.Errs++ }))
		}
		p := hx.Catch(func() {
			stop, err = midi.ListenTo(ins[0], func(m midi.Message, ts int32) {
				cur = append(cur, LMsg{B: hx.B(m), Ts: ts})
			}, opts...)
			if err == nil {
				err = outs[0].Open()
			}
		})
		if p != "" || err != nil {
			s.Panic = fmt.Sprintf("setup: %s %v", p, err)
			return
		}
		// testdrv stamps relative to time.Now() inside Listen while its virtual clock starts at New: the first stamp is
		// sum(dt) - (Listen - New), truncated.  Advancing the virtual clock by an upper bound g of that gap puts the first
		// stamp into [sum(dt), sum(dt)+g): exactly sum(dt) ms when g < 1 ms.  Otherwise (loaded machine) the origin is not pinned.
		if g := time.Since(tNew); g < 900*time.Microsecond {
			drv.Sleep(g)
			s.Exact = true
		} else {
			s.Exact = false
		}
		for i := range s.Chunks {
			c := &s.Chunks[i]
			drv.Sleep(time.Duration(c.Dt) * time.Millisecond)
			cur = nil
			p := hx.Catch(func() { err = outs[0].Send(c.Bytes) })
			c.Out = append(c.Out, cur...)
			if p != "" {
				s.Panic = fmt.Sprintf("chunk %d: %s", i+1, p)
				break
			}
			if err != nil {
				s.Panic = fmt.Sprintf("chunk %d: Send error %v", i+1, err)
				break
			}
		}
		if stop != nil {
			stop()
		}
	case "reader":
		var rd *drivers.Reader
		conf := drivers.ListenConfig{SysEx: s.Sysex, SysExBufferSize: s.Cap, ActiveSense: s.As, TimeCode: s.Tc}
		if s.OnErr {
			conf.OnErr = func(error) { s.Errs++ }
		}
		rd = drivers.NewReader(conf, func(m []byte, ts int32) { cur = append(cur, LMsg{B: hx.B(m), Ts: ts}) })
		for i := range s.Chunks {
			c := &s.Chunks[i]
			cur = nil
			p := hx.Catch(func() { rd.EachMessage(c.Bytes, c.Dt) })
			c.Out = append(c.Out, cur...)
			if p != "" {
				s.Panic = fmt.Sprintf("chunk %d: %s", i+1, p)
				break
			}
		}
	default:
		hx.Die("unknown level", s.Lvl)
	}
}

// runWithTwin runs the session and, at listener level with some option off, its all-options-on twin (C14).
func runWithTwin(s *LSession) {
	if s.Prev == nil {
		s.Prev = []bool{}
	}
	runSession(s)
	for try := 0; try < 50 && s.Lvl == "listen" && s.Panic == "" && !s.Exact; try++ {
		runSession(s) // the clock origin could not be pinned (scheduling hiccup): the session is deterministic, run it again
	}
	s.Twin = [][]LMsg{}
	s.TwinBase = 0
	if s.Lvl == "listen" && !(s.Sysex && s.As && s.Tc) && s.Panic == "" {
		t := *s
		t.Sysex, t.As, t.Tc = true, true, true
		t.Prev = []bool{} // the twin is a fresh all-options-on receiver
		t.Chunks = make([]LChunk, len(s.Chunks))
		for i, c := range s.Chunks {
			t.Chunks[i] = LChunk{Dt: c.Dt, Bytes: c.Bytes}
		}
		runSession(&t)
		for try := 0; try < 50 && t.Panic == "" && !t.Exact; try++ {
			runSession(&t)
		}
		if t.Panic != "" {
			return // the all-on run is judged on its own in another session
		}
		for _, c := range t.Chunks {
			s.Twin = append(s.Twin, c.Out)
		}
		if !(s.Exact && t.Exact) {
			// origin not pinned in one of the runs: both are compared relative to their calibration chunk (if there is one)
			s.Exact = false
			if len(t.Chunks) > 0 && len(t.Chunks[0].Out) > 0 {
				s.TwinBase = t.Chunks[0].Out[0].Ts
			}
		}
	}
}

// ---------------------------------------------------------------------------------------------
// generators

var rtBytes = []byte{0xF8, 0xF9, 0xFA, 0xFB, 0xFC, 0xFE, 0xFF}

func d7(r *rand.Rand) byte {
	switch r.Intn(6) {
	case 0:
		return 0
	case 1:
		return 127
	case 2:
		return 64
	}
	return byte(r.Intn(128))
}

type wireMsg struct {
	b []byte
}

func genMessage(r *rand.Rand, cap uint32, prevStatus byte) []byte {
	ecap := int(cap)
	if ecap == 0 {
		ecap = 1024
	}
	switch k := r.Intn(20); {
	case k < 9: // channel message, often repeating the previous status so that running status applies
		st := byte(0x80 + r.Intn(0x70))
		if prevStatus >= 0x80 && prevStatus <= 0xEF && hx.Chance(r, 0.6) {
			st = prevStatus
		}
		if st&0xF0 == 0xC0 || st&0xF0 == 0xD0 {
			return []byte{st, d7(r)}
		}
		return []byte{st, d7(r), d7(r)}
	case k < 11:
		return []byte{0xF1, d7(r)}
	case k < 12:
		return []byte{0xF2, d7(r), d7(r)}
	case k < 13:
		return []byte{0xF3, d7(r)}
	case k < 14:
		return []byte{0xF6}
	case k < 18 && r.Intn(5) == 0: // well-known universal system exclusive messages (their content must not matter to anybody)
		known := [][]byte{
			{0xF0, 0x7F, 0x7F, 0x01, 0x01, 0x21, 0x02, 0x03, 0x04, 0xF7}, // MTC full frame
			{0xF0, 0x7F, 0x7F, 0x06, 0x02, 0xF7},                         // MMC play
			{0xF0, 0x7F, 0x7F, 0x04, 0x01, 0x00, 0x7F, 0xF7},             // master volume
			{0xF0, 0x7E, 0x7F, 0x09, 0x01, 0xF7},                         // GM on
			{0xF0, 0x7E, 0x7F, 0x06, 0x01, 0xF7},                         // identity request
			{0xF0, 0x7F, 0x10, 0x01, 0x01, 0x00, 0x00, 0x00, 0x00, 0xF7},
		}
		return append([]byte{}, known[r.Intn(len(known))]...)
	case k < 18: // sysex, length around the buffer size
		var n int
		switch r.Intn(8) {
		case 0:
			n = 2
		case 1:
			n = ecap - 1
		case 2:
			n = ecap
		case 3:
			n = ecap + 1
		case 4:
			n = ecap + 1 + r.Intn(8)
		default:
			n = 2 + r.Intn(2*minInt(ecap, 40)+1)
		}
		if n < 2 {
			n = 2
		}
		m := make([]byte, n)
		m[0] = 0xF0
		for i := 1; i < n-1; i++ {
			m[i] = d7(r)
		}
		m[n-1] = 0xF7
		return m
	default:
		return []byte{rtBytes[r.Intn(len(rtBytes))]}
	}
}

func minInt(a, b int) int {
	if a < b {
		return a
	}
	return b
}

// genWire builds a stream the way a conforming sender may: running status elision, real-time bytes at
// arbitrary positions (also inside messages and sysex); optionally incomplete messages and stray data.
func genWire(r *rand.Rand, cap uint32, nmsg int, messy bool, feat map[string]bool) []byte {
	var out []byte
	var last byte // last non-real-time status on the wire (0 = none / cleared)
	pRT := []float64{0, 0.05, 0.2, 0.5}[r.Intn(4)]
	for i := 0; i < nmsg; i++ {
		m := genMessage(r, cap, last)
		if messy && hx.Chance(r, 0.15) && len(m) > 1 { // incomplete message: cut its tail
			m = m[:1+r.Intn(len(m)-1)]
			feat["incomplete"] = true
		}
		if messy && hx.Chance(r, 0.1) { // stray data / undefined status
			switch r.Intn(3) {
			case 0:
				m = []byte{d7(r), d7(r)}
			case 1:
				m = []byte{0xF4, d7(r)}
			case 2:
				m = []byte{0xF5}
			}
			feat["stray"] = true
		}
		if messy && hx.Chance(r, 0.05) {
			m = []byte{0xF7}
			feat["bareF7"] = true
		}
		st := m[0]
		body := m
		if st >= 0x80 && st <= 0xEF {
			if st == last && len(m) > 1 && hx.Chance(r, 0.7) {
				body = m[1:]
				feat["elision"] = true
			}
			last = st
		} else if st >= 0xF0 && st <= 0xF7 {
			last = 0
			if st == 0xF0 {
				ecap := int(cap)
				if ecap == 0 {
					ecap = 1024
				}
				if len(m) > ecap {
					feat["sysex_over"] = true
				} else if len(m) >= ecap-1 {
					feat["sysex_at_cap"] = true
				}
			}
		}
		for j, b := range body {
			if j > 0 && hx.Chance(r, pRT) {
				out = append(out, rtBytes[r.Intn(len(rtBytes))])
				feat["rt_inside"] = true
			}
			out = append(out, b)
		}
		if hx.Chance(r, 0.02) {
			out = append(out, 0xFD)
			feat["FD"] = true
		}
	}
	return out
}

func genGarbage(r *rand.Rand, n int) []byte {
	out := make([]byte, n)
	for i := range out {
		switch k := r.Intn(10); {
		case k < 4:
			out[i] = d7(r)
		case k < 7:
			out[i] = byte(0x80 + r.Intn(0x70))
		case k < 9:
			out[i] = byte(0xF0 + r.Intn(8))
		default:
			out[i] = byte(0xF8 + r.Intn(8))
		}
	}
	return out
}

var dts = []int32{0, 0, 0, 0, 1, 1, 1, 2, 3, 5, 10, 100, 1000, 60000, 1001, 1003, 1023, 1118, 1235, 4999} // (milliseconds that are no exact number of float seconds among them)

func chunkUp(r *rand.Rand, stream []byte) []LChunk {
	var cs []LChunk
	mode := r.Intn(4)
	for i := 0; i < len(stream); {
		n := 1
		switch mode {
		case 1:
			n = 1 + r.Intn(3)
		case 2:
			n = 1 + r.Intn(16)
		case 3:
			n = len(stream)
		}
		if i+n > len(stream) {
			n = len(stream) - i
		}
		cs = append(cs, LChunk{Dt: dts[r.Intn(len(dts))], Bytes: cp(stream[i : i+n])})
		i += n
		if r.Intn(25) == 0 { // a delivery without bytes: nothing arrives, but its time passes
			cs = append(cs, LChunk{Dt: dts[r.Intn(len(dts))], Bytes: hx.B{}})
		}
	}
	return cs
}

var caps = []uint32{0, 1, 2, 3, 4, 5, 8, 16, 64, 1024, 1025, 1300} // 0 = the default (1024)

func genSession(r *rand.Rand, id int, lvl string) *LSession {
	s := &LSession{ID: id, Lvl: lvl}
	s.Cap = caps[r.Intn(len(caps))]
	s.Sysex, s.As, s.Tc = r.Intn(4) != 0, r.Intn(2) == 0, r.Intn(2) == 0
	if lvl == "reader" {
		s.As, s.Tc = true, true // the byte reader has no such filter; drivers apply it
	}
	feat := map[string]bool{}
	if lvl == "listen" {
		s.Ord = r.Intn(3)
		if s.Ord != 0 && s.Cap > 1024 {
			feat["size_above_default_before_UseSysEx"] = true
		}
	}
	var stream []byte
	switch k := r.Intn(10); {
	case k < 4:
		stream = genWire(r, s.Cap, 1+r.Intn(30), false, feat)
		feat["wire"] = true
	case k < 7:
		stream = genWire(r, s.Cap, 1+r.Intn(30), true, feat)
		feat["messy"] = true
	case k < 8:
		stream = genGarbage(r, 1+r.Intn(200))
		feat["garbage"] = true
	default:
		stream = append(genGarbage(r, 1+r.Intn(20)), genWire(r, s.Cap, 1+r.Intn(20), false, feat)...)
		feat["garbage_prefix"] = true
	}
	if r.Intn(8) == 0 { // a sysex that is started again before it ended (F0 .. F0 .. F7), somewhere in the stream
		at := r.Intn(len(stream) + 1)
		ins := []byte{0xF0, d7(r), d7(r), 0xF0, d7(r), d7(r), d7(r), 0xF7}
		stream = append(append(append([]byte{}, stream[:at]...), ins...), stream[at:]...)
		feat["sysex_restarted"] = true
		if r.Intn(2) == 0 {
			s.Cap = 0 // the default buffer size
		}
	}
	if s.Prev == nil {
		s.Prev = []bool{}
	}
	if lvl == "listen" && r.Intn(4) == 0 {
		s.Prev = []bool{r.Intn(2) == 0, r.Intn(2) == 0, r.Intn(2) == 0}
		feat["previous_listener"] = true
	}
	s.OnErr = r.Intn(3) == 0
	if s.OnErr {
		feat["error_handler"] = true
	}
	if lvl == "listen" && r.Intn(3) == 0 { // calibration chunk (a real-time Start: touches no decoder state): lets a session whose
		// clock origin could not be pinned (Exact = false) still be judged; most sessions start with arbitrary bytes at an arbitrary time
		s.Chunks = append(s.Chunks, LChunk{Dt: 0, Bytes: hx.B{0xFA}})
	}
	s.Chunks = append(s.Chunks, chunkUp(r, stream)...)
	if r.Intn(10) == 0 && len(s.Chunks) > 0 {
		// days of silence: the time stamps are int32 milliseconds, everything below 2^31 is in the domain (sums stay below 2^31)
		s.Chunks[r.Intn(len(s.Chunks))].Dt = 1<<30 + int32(r.Intn(1<<29))
		feat["huge_dt"] = true
	}
	for f := range feat {
		s.Feat = append(s.Feat, f)
	}
	return s
}

func cmdLiveGen(args []string) {
	fs := flag.NewFlagSet("live-gen", flag.ExitOnError)
	seed := fs.Int64("seed", 1, "")
	n := fs.Int("n", 100, "")
	out := fs.String("out", "", "")
	long := fs.Int("long", 0, "number of extra long garbage sessions")
	fs.Parse(args)
	r := rand.New(rand.NewSource(*seed))
	w := hx.Create(*out)
	for i := 0; i < *n; i++ {
		lvl := "listen"
		if i%3 == 2 {
			lvl = "reader"
		}
		s := genSession(r, i, lvl)
		runWithTwin(s)
		w.Put(s)
		if atomic.LoadInt32(&liveHung) > 0 { // the record just written carries the timeout; a stuck goroutine may spin: stop here
			w.Close()
			os.Exit(0)
		}
	}
	for i := 0; i < *long; i++ {
		s := &LSession{ID: *n + i, Lvl: "reader", Cap: caps[r.Intn(len(caps))], Sysex: true, As: true, Tc: true, Feat: []string{"long_garbage"}}
		s.Chunks = chunkUp(r, genGarbage(r, 20000+r.Intn(80000)))
		if len(s.Chunks) > 3000 {
			// keep the record size reasonable: merge the tail into one chunk
			var tail []byte
			for _, c := range s.Chunks[3000:] {
				tail = append(tail, c.Bytes...)
			}
			s.Chunks = append(s.Chunks[:3000], LChunk{Dt: 1, Bytes: tail})
		}
		runWithTwin(s)
		w.Put(s)
	}
	w.Close()
}

// cmdLiveRerun re-executes recorded sessions (inputs only) and writes fresh records: replay.
func cmdLiveRerun(args []string) {
	fs := flag.NewFlagSet("live-rerun", flag.ExitOnError)
	in := fs.String("in", "", "")
	out := fs.String("out", "", "")
	fs.Parse(args)
	w := hx.Create(*out)
	hx.ReadLines(*in, func(l []byte) {
		var s LSession
		if err := json.Unmarshal(l, &s); err != nil {
			hx.Die(err)
		}
		runWithTwin(&s)
		w.Put(&s)
	})
	w.Close()
}

// ---------------------------------------------------------------------------------------------
// binding G: walk TLC's state graph of MC_LiveG through the real decoder

type gEdge struct {
	in  byte
	to  int
	out [][]byte
}

type gNode struct {
	edges []gEdge
	cfg   map[string]interface{}
}

type Graph struct {
	Inits []string                          `json:"inits"`
	Nodes map[string]map[string]interface{} `json:"nodes"`
	Edges map[string][][]interface{}        `json:"edges"`
}

type walkMismatch struct {
	Session *LSession `json:"session"`
	Step    int       `json:"step"`
	Exp     [][]int   `json:"expected"`
	Got     [][]int   `json:"got"`
}

func toInts(bs [][]byte) [][]int {
	o := make([][]int, len(bs))
	for i, b := range bs {
		o[i] = make([]int, len(b))
		for j, x := range b {
			o[i][j] = int(x)
		}
	}
	return o
}

func nData(s byte) int {
	switch {
	case s >= 0xC0 && s <= 0xDF:
		return 1
	case s >= 0x80 && s <= 0xEF:
		return 2
	case s == 0xF1 || s == 0xF3:
		return 1
	case s == 0xF2:
		return 2
	}
	return 0
}

// stepper feeds one byte at a time to a fresh real decoder and returns what was delivered.
type stepper struct {
	lvl  string
	send func(b byte) [][]byte
}

func newStepper(lvl string, cap uint32, sysex, as, tc bool) *stepper {
	st := &stepper{lvl: lvl}
	var cur [][]byte
	if lvl == "listen" {
		drv := testdrv.New("verif")
		ins, _ := drv.Ins()
		outs, _ := drv.Outs()
		var opts []midi.Option
		if sysex {
			opts = append(opts, midi.UseSysEx())
		}
		if as {
			opts = append(opts, midi.UseActiveSense())
		}
		if tc {
			opts = append(opts, midi.UseTimeCode())
		}
		opts = append(opts, midi.SysExBufferSize(cap))
		_, err := midi.ListenTo(ins[0], func(m midi.Message, ts int32) { cur = append(cur, append([]byte{}, m...)) }, opts...)
		if err != nil {
			hx.Die(err)
		}
		outs[0].Open()
		buf := make([]byte, 1)
		st.send = func(b byte) [][]byte {
			cur = nil
			buf[0] = b
			outs[0].Send(buf)
			return cur
		}
	} else {
		rd := drivers.NewReader(drivers.ListenConfig{SysEx: sysex, SysExBufferSize: cap}, func(m []byte, ts int32) {
			// driver-level view (DESIGN C.4): first 1+NData bytes are the message, lone F7 marker optional
			if len(m) > 0 && m[0] == 0xF7 {
				return
			}
			if len(m) > 0 && m[0] != 0xF0 && len(m) >= 1+nData(m[0]) {
				m = m[:1+nData(m[0])]
			}
			cur = append(cur, append([]byte{}, m...))
		})
		buf := make([]byte, 1)
		st.send = func(b byte) [][]byte {
			cur = nil
			buf[0] = b
			rd.EachMessage(buf, 0)
			return cur
		}
	}
	return st
}

func eqOut(a, b [][]byte) bool {
	if len(a) != len(b) {
		return false
	}
	for i := range a {
		if string(a[i]) != string(b[i]) {
			return false
		}
	}
	return true
}

func cmdLiveWalk(args []string) {
	fs := flag.NewFlagSet("live-walk", flag.ExitOnError)
	gpath := fs.String("graph", "", "")
	depth := fs.Int("depth", 2, "")
	lvl := fs.String("lvl", "listen", "")
	out := fs.String("out", "", "")
	budget := fs.Int64("budget", 0, "max number of leaf sequences per node (0 = all); sampled deterministically beyond")
	seed := fs.Int64("seed", 1, "")
	mode := fs.String("mode", "model", "model: compare with the model's outputs; twin: compare with the projection of an all-options-on real run (C14)")
	fs.Parse(args)
	var g Graph
	d, err := os.ReadFile(*gpath)
	if err != nil {
		hx.Die(err)
	}
	if err := json.Unmarshal(d, &g); err != nil {
		hx.Die(err)
	}
	// index nodes
	idx := map[string]int{}
	var ids []string
	for id := range g.Nodes {
		idx[id] = len(ids)
		ids = append(ids, id)
	}
	nodes := make([]gNode, len(ids))
	nEdges := 0
	for id, i := range idx {
		nodes[i].cfg, _ = g.Nodes[id]["cfg"].(map[string]interface{})
		for _, e := range g.Edges[id] {
			argv := e[1].([]interface{})
			to := idx[e[2].(string)]
			var exp [][]byte
			for _, m := range g.Nodes[e[2].(string)]["out"].([]interface{}) {
				var bs []byte
				for _, x := range m.([]interface{}) {
					bs = append(bs, byte(x.(float64)))
				}
				exp = append(exp, bs)
			}
			nodes[i].edges = append(nodes[i].edges, gEdge{in: byte(argv[0].(float64)), to: to, out: exp})
			nEdges++
		}
	}
	// BFS access paths (as edge index sequences) per init
	type acc struct {
		init int
		path []int // edge indices from init
	}
	access := make([]*acc, len(nodes))
	for _, iid := range g.Inits {
		i0 := idx[iid]
		access[i0] = &acc{init: i0}
		q := []int{i0}
		for len(q) > 0 {
			n := q[0]
			q = q[1:]
			for ei, e := range nodes[n].edges {
				if access[e.to] == nil {
					p := append(append([]int{}, access[n].path...), ei)
					access[e.to] = &acc{init: i0, path: p}
					q = append(q, e.to)
				}
			}
		}
	}
	var mu sync.Mutex
	var mism []walkMismatch
	var seqs, steps int64
	var wg sync.WaitGroup
	sem := make(chan struct{}, 16)
	for ni := range nodes {
		if access[ni] == nil {
			continue
		}
		wg.Add(1)
		sem <- struct{}{}
		go func(ni int) {
			defer wg.Done()
			defer func() { <-sem }()
			a := access[ni]
			cfg := nodes[a.init].cfg
			capv := uint32(cfg["cap"].(float64))
			sysex, as, tc := cfg["sysex"].(bool), cfg["as"].(bool), cfg["tc"].(bool)
			if *lvl == "reader" && (!as || !tc) {
				return // reader level has no as/tc filter: only the option sets with both on apply
			}
			if *mode == "twin" && sysex && as && tc {
				return
			}
			r := rand.New(rand.NewSource(*seed + int64(ni)))
			var lseqs, lsteps int64
			suffix := make([]int, *depth)
			var rec func(n, d int)
			runOne := func() {
				lseqs++
				st := newStepper(*lvl, capv, sysex, as, tc)
				var stAll *stepper
				if *mode == "twin" {
					stAll = newStepper(*lvl, capv, true, true, true)
				}
				var inputs []byte
				n := a.init
				check := func(e gEdge) bool {
					inputs = append(inputs, e.in)
					var got [][]byte
					p := hx.Catch(func() { got = st.send(e.in) })
					lsteps++
					if stAll != nil { // expected = projection of the all-on run (mirrors LiveDecoder!Passes)
						var all [][]byte
						if hx.Catch(func() { all = stAll.send(e.in) }) != "" {
							return false // the all-on run is judged on its own
						}
						e.out = nil
						for _, m := range all {
							if len(m) == 1 && m[0] == 0xFE && !as || len(m) == 1 && m[0] == 0xF8 && !tc || len(m) > 0 && m[0] == 0xF0 && !sysex {
								continue
							}
							e.out = append(e.out, m)
						}
					}
					if p != "" || !eqOut(got, e.out) {
						s := &LSession{ID: ni, Lvl: *lvl, Cap: capv, Sysex: sysex, As: as, Tc: tc, Feat: []string{"walk"}, Prev: []bool{}}
						if *lvl == "listen" {
							s.Chunks = append(s.Chunks, LChunk{Dt: 0, Bytes: hx.B{0xFA}})
						}
						for _, b := range inputs {
							s.Chunks = append(s.Chunks, LChunk{Dt: 0, Bytes: hx.B{b}})
						}
						mu.Lock()
						if len(mism) < 50 {
							mism = append(mism, walkMismatch{Session: s, Step: len(inputs), Exp: toInts(e.out), Got: toInts(got)})
						}
						mu.Unlock()
						return false
					}
					return true
				}
				for _, ei := range a.path {
					e := nodes[n].edges[ei]
					if !check(e) {
						return
					}
					n = e.to
				}
				for _, ei := range suffix {
					e := nodes[n].edges[ei]
					if !check(e) {
						return
					}
					n = e.to
				}
			}
			total := int64(1)
			for i := 0; i < *depth; i++ {
				total *= int64(len(nodes[ni].edges))
			}
			if *budget > 0 && total > *budget {
				// sample `budget` suffixes uniformly (graph is input-complete: every node has the full alphabet)
				for k := int64(0); k < *budget; k++ {
					n := ni
					for d := 0; d < *depth; d++ {
						suffix[d] = r.Intn(len(nodes[n].edges))
						n = nodes[n].edges[suffix[d]].to
					}
					runOne()
				}
			} else {
				rec = func(n, d int) {
					if d == *depth {
						runOne()
						return
					}
					for ei := range nodes[n].edges {
						suffix[d] = ei
						rec(nodes[n].edges[ei].to, d+1)
					}
				}
				rec(ni, 0)
			}
			mu.Lock()
			seqs += lseqs
			steps += lsteps
			mu.Unlock()
		}(ni)
	}
	wg.Wait()
	res := map[string]interface{}{"nodes": len(nodes), "edges": nEdges, "sequences": seqs, "steps": steps,
		"mismatches": mism, "depth": *depth, "lvl": *lvl}
	if mism == nil {
		res["mismatches"] = []walkMismatch{}
	}
	b, _ := json.Marshal(res)
	os.WriteFile(*out, b, 0o644)
}

// cmdLiveClosure (binding G, closure): the product of the REAL byte reader and the model's state graph is explored until no
// new pair (reader snapshot, model state) appears.  After every byte the delivered messages are compared with the model's.
// Since every input of the alphabet is tried from every reachable pair, agreement on the closed set means agreement on byte
// streams of EVERY length over the alphabet (for the option sets the driver level has: as = tc = on).
func cmdLiveClosure(args []string) {
	fs := flag.NewFlagSet("live-closure", flag.ExitOnError)
	gpath := fs.String("graph", "", "")
	out := fs.String("out", "", "")
	maxPairs := fs.Int("max", 2000000, "")
	fs.Parse(args)
	var g Graph
	d, err := os.ReadFile(*gpath)
	if err != nil {
		hx.Die(err)
	}
	if err := json.Unmarshal(d, &g); err != nil {
		hx.Die(err)
	}
	type edge struct {
		in  byte
		to  string
		out [][]byte
	}
	edges := map[string][]edge{}
	for from, es := range g.Edges {
		for _, e := range es {
			to := e[2].(string)
			var exp [][]byte
			for _, m := range g.Nodes[to]["out"].([]interface{}) {
				var bs []byte
				for _, x := range m.([]interface{}) {
					bs = append(bs, byte(x.(float64)))
				}
				exp = append(exp, bs)
			}
			edges[from] = append(edges[from], edge{in: byte(e[1].([]interface{})[0].(float64)), to: to, out: exp})
		}
	}
	type pair struct {
		rd   *drivers.Reader
		node string
		path []byte
	}
	var pairs, steps int64
	var mism []walkMismatch
	closed := true
	for _, iid := range g.Inits {
		cfg := g.Nodes[iid]["cfg"].(map[string]interface{})
		if !cfg["as"].(bool) || !cfg["tc"].(bool) {
			continue
		}
		capv, sysex := uint32(cfg["cap"].(float64)), cfg["sysex"].(bool)
		var cur [][]byte
		sink := func(m []byte, ts int32) {
			if len(m) > 0 && m[0] == 0xF7 {
				return
			}
			if len(m) > 0 && m[0] != 0xF0 && len(m) >= 1+nData(m[0]) {
				m = m[:1+nData(m[0])]
			}
			cur = append(cur, append([]byte{}, m...))
		}
		seen := map[string]bool{}
		r0 := drivers.NewReader(drivers.ListenConfig{SysEx: sysex, SysExBufferSize: capv}, sink)
		queue := []pair{{r0, iid, nil}}
		seen[r0.VerifState()+"@"+iid] = true
		for len(queue) > 0 && len(mism) < 20 {
			p := queue[0]
			queue = queue[1:]
			pairs++
			if pairs > int64(*maxPairs) {
				closed = false
				break
			}
			for _, e := range edges[p.node] {
				c := p.rd.VerifClone(sink)
				cur = nil
				pan := hx.Catch(func() { c.EachMessage([]byte{e.in}, 0) })
				steps++
				if pan != "" || !eqOut(cur, e.out) {
					sess := &LSession{ID: int(pairs), Lvl: "reader", Cap: capv, Sysex: sysex, As: true, Tc: true, Feat: []string{"closure"}, Prev: []bool{}}
					for _, b := range append(append([]byte{}, p.path...), e.in) {
						sess.Chunks = append(sess.Chunks, LChunk{Dt: 0, Bytes: hx.B{b}})
					}
					mism = append(mism, walkMismatch{Session: sess, Step: len(p.path) + 1, Exp: toInts(e.out), Got: toInts(cur)})
					continue
				}
				k := c.VerifState() + "@" + e.to
				if !seen[k] {
					seen[k] = true
					queue = append(queue, pair{c, e.to, append(append([]byte{}, p.path...), e.in)})
				}
			}
		}
	}
	res := map[string]interface{}{"pairs": pairs, "steps": steps, "closed": closed && len(mism) == 0, "mismatches": mism, "model_nodes": len(g.Nodes)}
	if mism == nil {
		res["mismatches"] = []walkMismatch{}
	}
	b, _ := json.Marshal(res)
	os.WriteFile(*out, b, 0o644)
}

func init() {
	register("live-closure", cmdLiveClosure)
	register("live-gen", cmdLiveGen)
	register("live-rerun", cmdLiveRerun)
	register("live-walk", cmdLiveWalk)
}
