package main

// SMF family (C01 C02 C03 C05 C09 C10): shared record types, API-history execution, conversion of what the
// library returned into plain records.  No SMF semantics here: values are copied field by field.

import (
	"bytes"
	"fmt"
	"io"
	"os"
	"path/filepath"
	"reflect"
	"runtime"
	"sync"
	"sync/atomic"
	"testing/iotest"
	"time"

	"gitlab.com/gomidi/midi/v2/smf"

	"verifharness/internal/hx"
)

// Op is one public API call of a file-building history (uniform fields, see spec/SmfWrite.tla BuildStep).
type Op struct {
	Op   string `json:"op"` // new tf nrs track add close smfadd write
	Fmt  int    `json:"fmt"`
	Kind string `json:"kind"` // metric | smpte
	A    int    `json:"a"`
	B    int    `json:"b"`
	V    bool   `json:"v"`
	D    []int  `json:"d"` // delta as canonical base-128 digits
	Msgs []hx.B `json:"msgs"`
}

type REvent struct {
	D []int `json:"d"`
	M hx.B  `json:"m"`
}

type RTF struct {
	Kind string `json:"kind"`
	A    int    `json:"a"`
	B    int    `json:"b"`
}

// R is what a read call returned.
type R struct {
	Kind   string     `json:"kind"` // value | error | panic | timeout | none
	Fmt    int        `json:"fmt"`
	TF     RTF        `json:"tf"`
	Tracks [][]REvent `json:"tracks"`
	Msg    string     `json:"msg"`
}

var hungReads int32

func noneR() R { return R{Kind: "none", Tracks: [][]REvent{}} }

func digits(u uint32) []int {
	if u == 0 {
		return []int{0}
	}
	var d []int
	for u > 0 {
		d = append([]int{int(u & 0x7f)}, d...)
		u >>= 7
	}
	return d
}

func undigits(d []int) uint32 {
	var u uint32
	for _, x := range d {
		u = u<<7 | uint32(x)
	}
	return u
}

func toR(s *smf.SMF, err error, pan string) R {
	r := R{Tracks: [][]REvent{}}
	switch {
	case pan != "":
		r.Kind, r.Msg = "panic", pan
		return r
	case err != nil:
		r.Kind, r.Msg = "error", err.Error()
		return r
	case s == nil:
		r.Kind, r.Msg = "error", "nil SMF without error"
		return r
	}
	r.Kind = "value"
	r.Fmt = int(s.Format())
	switch tf := s.TimeFormat.(type) {
	case smf.MetricTicks:
		r.TF = RTF{"metric", int(uint16(tf)), 0}
	case smf.TimeCode:
		r.TF = RTF{"smpte", int(tf.FramesPerSecond), int(tf.SubFrames)}
	default:
		r.TF = RTF{fmt.Sprintf("%T", tf), 0, 0}
	}
	for _, t := range s.Tracks {
		evs := []REvent{}
		for _, e := range t {
			evs = append(evs, REvent{D: digits(e.Delta), M: cp(e.Message)})
		}
		r.Tracks = append(r.Tracks, evs)
	}
	return r
}

// readFrom calls smf.ReadFrom under recover and a watchdog; returns the result, bytes allocated, milliseconds.
func readFrom(rd io.Reader) (R, uint64, int64) {
	return readWith(func() (*smf.SMF, error) {
		if useLog {
			return smf.ReadFrom(rd, smf.Log(smf.LogTo(io.Discard)))
		}
		return smf.ReadFrom(rd)
	})
}

// readPath reads through the file-level entry point smf.ReadFile.
func readPath(pth string) (R, uint64, int64) {
	return readWith(func() (*smf.SMF, error) {
		if useLog {
			return smf.ReadFile(pth, smf.Log(smf.LogTo(io.Discard)))
		}
		return smf.ReadFile(pth)
	})
}

var prevMu sync.Mutex
var prevSMF *smf.SMF
var prevR R

func readWith(read func() (*smf.SMF, error)) (R, uint64, int64) {
	type res struct {
		r     R
		alloc uint64
	}
	ch := make(chan res, 1)
	t0 := time.Now()
	go func() {
		var s *smf.SMF
		var err error
		var m0, m1 runtime.MemStats
		runtime.ReadMemStats(&m0)
		p := hx.Catch(func() { s, err = read() })
		runtime.ReadMemStats(&m1)
		a := (m1.TotalAlloc - m0.TotalAlloc) / 1024 // KiB, capped so that it stays a TLC integer
		if a > 1<<30 {
			a = 1 << 30
		}
		r := toR(s, err, p)
		// the value the PREVIOUS read returned is retained and looked at again now: reading another file must not change it
		// (a buffer shared between reads); reported in place of this read's outcome, so that every judge rejects it
		prevMu.Lock()
		if prevSMF != nil && !reflect.DeepEqual(toR(prevSMF, nil, ""), prevR) {
			r = R{Kind: "earlier-result-changed", Tracks: [][]REvent{}, Msg: "the SMF value an earlier read returned changed while this one was read"}
		}
		prevSMF = nil
		if r.Kind == "value" {
			n := 0
			for _, t := range s.Tracks {
				n += len(t)
			}
			if n <= 2000 {
				prevSMF, prevR = s, r
			}
		}
		prevMu.Unlock()
		ch <- res{r, a}
	}()
	select {
	case x := <-ch:
		return x.r, x.alloc, time.Since(t0).Milliseconds()
	case <-time.After(30 * time.Second):
		// the call never came back: its goroutine keeps running (possibly spinning); the commands stop generating after
		// recording this outcome (hungReads), one non-terminating read is enough to report
		atomic.AddInt32(&hungReads, 1)
		return R{Kind: "timeout", Tracks: [][]REvent{}}, 0, time.Since(t0).Milliseconds()
	}
}

func readBytes(b []byte) (R, uint64, int64) { return readFrom(bytes.NewReader(b)) }

// execHistory performs the API calls and returns the SMF value built.
// useLog: the case at hand runs with a logger configured (set from the record's Log field before it is executed)
var useLog bool

func execHistory(h []Op) *smf.SMF {
	s := execHistory0(h)
	if s != nil && useLog {
		s.Logger = smf.LogTo(io.Discard)
	}
	return s
}

func execHistory0(h []Op) *smf.SMF {
	var s *smf.SMF
	var tr smf.Track
	for _, o := range h {
		switch o.Op {
		case "new":
			switch o.Fmt {
			case 0:
				s = smf.New()
			case 1:
				s = smf.NewSMF1()
			default:
				s = smf.NewSMF2()
			}
			if useLog {
				s.Logger = smf.LogTo(io.Discard)
			}
		case "tf":
			if o.Kind == "metric" {
				s.TimeFormat = smf.MetricTicks(o.A)
			} else {
				switch o.A {
				case 24:
					s.TimeFormat = smf.SMPTE24(uint8(o.B))
				case 25:
					s.TimeFormat = smf.SMPTE25(uint8(o.B))
				case 29:
					s.TimeFormat = smf.SMPTE30DropFrame(uint8(o.B))
				default:
					s.TimeFormat = smf.SMPTE30(uint8(o.B))
				}
			}
		case "nrs":
			s.NoRunningStatus = o.V
		case "track":
			tr = nil
		case "add":
			ms := make([][]byte, len(o.Msgs))
			for i, m := range o.Msgs {
				ms[i] = append([]byte{}, m...)
			}
			tr.Add(undigits(o.D), ms...)
		case "close":
			tr.Close(undigits(o.D))
		case "smfadd":
			s.Add(tr)
		case "write":
			s.WriteTo(io.Discard)
		default:
			hx.Die("unknown op", o.Op)
		}
	}
	return s
}

// WrRec: a history written by the real writer and read back by the real reader (C01, C03).
type WrRec struct {
	Ev    string `json:"ev"`
	ID    int    `json:"id"`
	Judge string `json:"judge"`
	Log   bool   `json:"log"` // a Logger is configured (SMF.Logger for writes, smf.Log for reads): must not change any result
	Hist  []Op   `json:"hist"`
	Bytes hx.B   `json:"bytes"`
	Size  int64  `json:"size"`
	Werr  string `json:"werr"`
	Again bool   `json:"again"`
	// an EARLIER write of the same history, in the same process, that failed after this many bytes (-1: none): the measured
	// write must not be affected by what an earlier, failed write left behind
	PriorFault int      `json:"priorfault"`
	File       string   `json:"file"` // WriteFile over an existing LONGER file: "same" (file content = WriteTo bytes), "differs", or the error text
	Read       R        `json:"read"`
	Rdr        string   `json:"rdr"` // how the written bytes were read back: memory | onebyte | dataerr
	Feat       []string `json:"feat"`
}

func runWr(rec *WrRec) {
	rec.Ev = "wr"
	var buf, buf2 bytes.Buffer
	var n int64
	var err error
	var s *smf.SMF
	if rec.PriorFault >= 0 {
		hx.Catch(func() { execHistory(rec.Hist).WriteTo(&budgetWriter{budget: rec.PriorFault, mode: "short"}) })
	}
	p := hx.Catch(func() {
		s = execHistory(rec.Hist)
		n, err = s.WriteTo(&buf)
	})
	rec.Bytes, rec.Size, rec.Werr = cp(buf.Bytes()), n, ""
	if p != "" {
		rec.Werr = "panic: " + p
	} else if err != nil {
		rec.Werr = err.Error()
	}
	rec.Again = false
	if rec.Werr == "" {
		var n2 int64
		p2 := hx.Catch(func() { n2, err = s.WriteTo(&buf2) })
		rec.Again = p2 == "" && err == nil && bytes.Equal(buf.Bytes(), buf2.Bytes()) && n2 == n
	}
	rec.File = "same"
	if rec.Werr == "" && rec.ID%5 == 0 { // the file-level entry point, onto a path that already holds a longer file
		dir, derr := os.MkdirTemp("", "verif_wf")
		if derr == nil {
			pth := filepath.Join(dir, "x.mid")
			junk := bytes.Repeat([]byte{0xEE}, buf.Len()+37)
			os.WriteFile(pth, junk, 0o644)
			var ferr error
			pp := hx.Catch(func() { ferr = s.WriteFile(pth) })
			got, _ := os.ReadFile(pth)
			switch {
			case pp != "":
				rec.File = "panic: " + pp
			case ferr != nil:
				rec.File = "error: " + ferr.Error()
			case !bytes.Equal(got, buf.Bytes()):
				rec.File = "differs"
			}
			os.RemoveAll(dir)
		}
	}
	// the read back goes through a reader of the kind the record names: from memory, one byte per call, or the last bytes
	// together with io.EOF (all legal io.Readers; what is read back must not depend on it)
	switch rec.ID % 4 {
	case 1:
		rec.Rdr = "onebyte"
		rec.Read, _, _ = readFrom(iotest.OneByteReader(bytes.NewReader(buf.Bytes())))
	case 2:
		rec.Rdr = "dataerr"
		rec.Read, _, _ = readFrom(iotest.DataErrReader(bytes.NewReader(buf.Bytes())))
	default:
		rec.Rdr = "memory"
		rec.Read, _, _ = readBytes(buf.Bytes())
	}
}

// RdRec: bytes produced at byte level (never by the library's writer) read by the real reader (C02).
type RdRec struct {
	Ev    string   `json:"ev"`
	ID    int      `json:"id"`
	Judge string   `json:"judge"`
	Log   bool     `json:"log"` // a Logger is configured (SMF.Logger for writes, smf.Log for reads): must not change any result
	Bytes hx.B     `json:"bytes"`
	Read  R        `json:"read"`
	Feat  []string `json:"feat"`
}

func runRd(rec *RdRec) {
	rec.Ev = "rd"
	rec.Read, _, _ = readBytes(rec.Bytes)
}

// tracksProbe reads the bytes through the track-level entry points (ReadTracksFrom on memory, ReadTracks on a file), visits
// every event with Do and reports how each ended: "ok", "error", "panic: ..", "timeout".
func tracksProbe(data []byte) (mem, file string) {
	probe := func(open func() *smf.TracksReader) string {
		ch := make(chan string, 1)
		go func() {
			var err error
			p := hx.Catch(func() {
				tr := open()
				tr.Do(func(smf.TrackEvent) {})
				err = tr.Error()
			})
			switch {
			case p != "":
				ch <- "panic: " + p
			case err != nil:
				ch <- "error"
			default:
				ch <- "ok"
			}
		}()
		select {
		case x := <-ch:
			return x
		case <-time.After(30 * time.Second):
			atomic.AddInt32(&hungReads, 1)
			return "timeout"
		}
	}
	mem = probe(func() *smf.TracksReader { return smf.ReadTracksFrom(bytes.NewReader(data)) })
	file = "n/a"
	if dir, derr := os.MkdirTemp("", "verif_tp"); derr == nil {
		pth := filepath.Join(dir, "x.mid")
		if os.WriteFile(pth, data, 0o644) == nil {
			file = probe(func() *smf.TracksReader { return smf.ReadTracks(pth) })
		}
		os.RemoveAll(dir)
	}
	return
}
