// vh is the verification harness: it drives the real gomidi/midi library through its public API and
// records what happened as NDJSON for TLC to judge.  It contains no MIDI/SMF oracle.
package main

import (
	"fmt"
	"os"
)

var cmds = map[string]func([]string){
	"live-gen":   cmdLiveGen,
	"live-rerun": cmdLiveRerun,
	"live-walk":  cmdLiveWalk,
	"smf-gen":    cmdSmfGen,
	"smf-rerun":  cmdSmfRerun,
	"vlq-sweep":  cmdVlqSweep,
}

func main() {
	if len(os.Args) < 2 || cmds[os.Args[1]] == nil {
		fmt.Fprintln(os.Stderr, "usage: vh <command> [flags]; commands:")
		for k := range cmds {
			fmt.Fprintln(os.Stderr, "  ", k)
		}
		os.Exit(3)
	}
	cmds[os.Args[1]](os.Args[2:])
}
