// vh is the verification harness: it drives the real gomidi/midi library through its public API and
// records what happened as NDJSON for TLC to judge.  It contains no MIDI/SMF oracle.
// Each family registers its sub-commands from an init() in its own file (register("name", fn)).
package main

import (
	"fmt"
	"os"
	"sort"
)

var cmds = map[string]func([]string){}

func register(name string, fn func([]string)) { cmds[name] = fn }

func main() {
	if len(os.Args) < 2 || cmds[os.Args[1]] == nil {
		fmt.Fprintln(os.Stderr, "usage: vh <command> [flags]; commands:")
		var ks []string
		for k := range cmds {
			ks = append(ks, k)
		}
		sort.Strings(ks)
		for _, k := range ks {
			fmt.Fprintln(os.Stderr, "  ", k)
		}
		os.Exit(3)
	}
	cmds[os.Args[1]](os.Args[2:])
}
