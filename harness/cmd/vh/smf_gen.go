package main

import (
	"math/rand"

	"verifharness/internal/hx"
)

var deltaBounds = []uint32{0, 0, 0, 1, 127, 128, 16383, 16384, 2097151, 2097152, 268435455}
var deltaBig = []uint32{268435456, 4294967295, 2147483648}
var payLens = []int{0, 1, 2, 126, 127, 128, 129, 300, 16383, 16384, 20000}

func genDelta(r *rand.Rand, full bool) uint32 {
	switch k := r.Intn(10); {
	case k < 5:
		return deltaBounds[r.Intn(len(deltaBounds))]
	case k < 6 && full:
		if r.Intn(2) == 0 {
			return deltaBig[r.Intn(len(deltaBig))]
		}
		return 268435456 + uint32(r.Int63n(4294967296-268435456))
	case k < 8:
		return uint32(r.Intn(1000))
	default:
		return uint32(r.Int63n(268435456))
	}
}

func payload(r *rand.Rand, n int, sevenBit bool) []byte {
	b := make([]byte, n)
	for i := range b {
		if sevenBit {
			b[i] = byte(r.Intn(128))
		} else {
			b[i] = byte(r.Intn(256))
		}
	}
	if n > 0 && r.Intn(6) == 0 { // ... ending (or consisting) of bytes other software strips or stops at: NUL, blank, line end
		end := [][]byte{{0}, {0, 0, 0}, {0x20}, {0x0A}, {0x0D, 0x0A}}[r.Intn(5)]
		if r.Intn(5) == 0 {
			for i := range b {
				b[i] = 0
			}
		} else if len(end) <= n {
			copy(b[n-len(end):], end)
		}
	}
	return b
}

func payLen(r *rand.Rand, small bool) int {
	if small || r.Intn(4) != 0 {
		return r.Intn(6)
	}
	if r.Intn(3) == 0 {
		return r.Intn(400)
	}
	return payLens[r.Intn(len(payLens))]
}

func vlq(n uint32) []byte { // used for message VALUES (meta length field) and by the byte-level generator
	d := digits(n)
	b := make([]byte, len(d))
	for i, x := range d {
		b[i] = byte(x)
		if i < len(d)-1 {
			b[i] |= 0x80
		}
	}
	return b
}

// genMsg returns a message VALUE as the library's API takes it: channel <status,data..>, meta <FF,type,vlq(len),data>,
// sysex <F0,data..[,F7]>, escape <F7,data..>.
func genMsg(r *rand.Rand, prev byte, feat map[string]bool, small bool) []byte {
	switch k := r.Intn(20); {
	case k < 11:
		st := byte(0x80 + r.Intn(0x70))
		if prev >= 0x80 && prev <= 0xEF && hx.Chance(r, 0.55) {
			st = prev
			feat["same_status"] = true
		}
		if st&0xF0 == 0xC0 || st&0xF0 == 0xD0 {
			return []byte{st, d7(r)}
		}
		return []byte{st, d7(r), d7(r)}
	case k < 16:
		typ := byte(r.Intn(128))
		for typ == 0x2F {
			typ = byte(r.Intn(128))
		}
		if r.Intn(2) == 0 {
			typ = []byte{0x01, 0x03, 0x51, 0x58, 0x59, 0x7F, 0x00, 0x20, 0x21, 0x54}[r.Intn(10)]
		}
		n := payLen(r, small)
		if typ == 0x51 {
			n = 3
		}
		if n >= 128 {
			feat["long_payload"] = true
		}
		feat["meta"] = true
		return append(append([]byte{0xFF, typ}, vlq(uint32(n))...), payload(r, n, false)...)
	case k < 18:
		n := payLen(r, small)
		m := append([]byte{0xF0}, payload(r, n, true)...)
		if r.Intn(3) != 0 {
			m = append(m, 0xF7)
		} else {
			feat["sysex_no_f7"] = true
		}
		feat["sysex"] = true
		return m
	default:
		feat["escape"] = true
		n := payLen(r, small)
		return append([]byte{0xF7}, payload(r, n, false)...)
	}
}

var metricBounds = []int{1, 2, 24, 96, 127, 128, 255, 256, 480, 960, 15360, 32766, 32767}

// genHistory builds a random API history (see DESIGN C.1 for the domain).
func genHistory(r *rand.Rand, fullDelta bool, small bool, feat map[string]bool) []Op {
	var h []Op
	h = append(h, Op{Op: "new", Fmt: r.Intn(3)})
	switch r.Intn(4) {
	case 0:
	case 1:
		h = append(h, Op{Op: "tf", Kind: "metric", A: metricBounds[r.Intn(len(metricBounds))]})
	case 2:
		h = append(h, Op{Op: "tf", Kind: "metric", A: 1 + r.Intn(32767)})
	default:
		h = append(h, Op{Op: "tf", Kind: "smpte", A: []int{24, 25, 29, 30}[r.Intn(4)], B: []int{0, 1, 4, 40, 80, 100, 255, r.Intn(256)}[r.Intn(8)]})
		feat["smpte"] = true
	}
	h = append(h, Op{Op: "nrs", V: r.Intn(2) == 0})
	ntr := 1 + r.Intn(3)
	if !small && r.Intn(5) == 0 {
		ntr = 1 + r.Intn(8)
	}
	many := false
	if !small && r.Intn(25) == 0 { // track counts around the one-byte boundary of the 16-bit header field
		ntr = []int{255, 256, 257, 300}[r.Intn(4)]
		many = true
		feat["many_tracks"] = true
	}
	for t := 0; t < ntr; t++ {
		h = append(h, Op{Op: "track"})
		nev := r.Intn(8)
		if !small && r.Intn(3) == 0 {
			nev = r.Intn(60)
		}
		if many {
			nev = r.Intn(2)
		}
		var prev byte
		closed := false
		if !small && !many && t == ntr-1 && r.Intn(6) == 0 {
			// a LAST track whose chunk body passes 32 KiB / 64 KiB (chunk length needs its third byte; writers that
			// block or buffer large chunks differently)
			k := 2 + r.Intn(4)
			for j := 0; j < k; j++ {
				n := 16384 + r.Intn(4000)
				m := append(append([]byte{0xFF, 0x7F}, vlq(uint32(n))...), payload(r, n, false)...)
				if j%2 == 1 {
					m = append([]byte{0xF0}, payload(r, n, true)...)
				}
				h = append(h, Op{Op: "add", D: digits(genDelta(r, fullDelta)), Msgs: []hx.B{m}})
			}
			feat["huge_last_track"] = true
		}
		for e := 0; e < nev; e++ {
			k := 1
			if r.Intn(5) == 0 {
				k = 2 + r.Intn(3)
				feat["multi_add"] = true
			}
			var ms []hx.B
			for i := 0; i < k; i++ {
				m := genMsg(r, prev, feat, small)
				if m[0] >= 0x80 && m[0] <= 0xEF {
					prev = m[0] // last CHANNEL status: a same-status message after a meta/sysex/escape event is the interesting case
				} else if prev != 0 {
					feat["nonchannel_between"] = true
				}
				ms = append(ms, m)
			}
			d := genDelta(r, fullDelta)
			if d >= 128 {
				feat["multibyte_delta"] = true
			}
			h = append(h, Op{Op: "add", D: digits(d), Msgs: ms})
			if r.Intn(25) == 0 { // early close: later adds must be ignored
				h = append(h, Op{Op: "close", D: digits(genDelta(r, fullDelta))})
				closed = true
				feat["early_close"] = true
			}
		}
		switch r.Intn(3) {
		case 0:
			if !closed {
				feat["close_omitted"] = true
			}
		case 1:
			h = append(h, Op{Op: "close", D: digits(0)})
		default:
			h = append(h, Op{Op: "close", D: digits(genDelta(r, fullDelta))})
		}
		h = append(h, Op{Op: "smfadd"})
		if r.Intn(6) == 0 { // an intermediate write (e.g. autosave) before more tracks are added
			h = append(h, Op{Op: "write"})
			feat["intermediate_write"] = true
		}
	}
	for i := range h {
		if h[i].D == nil {
			h[i].D = []int{0}
		}
		if h[i].Msgs == nil {
			h[i].Msgs = []hx.B{}
		}
	}
	return h
}

// ---------------------------------------------------------------------------------------------
// byte-level generator of spec-valid SMF 1.0 files (C02).  It never calls the library's writer.  What it
// believes the content to be is NOT used as an oracle: TLC decodes the bytes with spec/SmfParse.tla.

func vlqPadded(r *rand.Rand, n uint32, feat map[string]bool) []byte {
	b := vlq(n)
	if hx.Chance(r, 0.2) && len(b) < 4 {
		pad := 1 + r.Intn(4-len(b))
		for i := 0; i < pad; i++ {
			b = append([]byte{0x80}, b...)
		}
		feat["nonminimal_vlq"] = true
	}
	return b
}

func be32(n int) []byte { return []byte{byte(n >> 24), byte(n >> 16), byte(n >> 8), byte(n)} }
func be16(n int) []byte { return []byte{byte(n >> 8), byte(n)} }

func alienChunk(r *rand.Rand, feat map[string]bool) []byte {
	typ := []byte{byte('A' + r.Intn(26)), byte('a' + r.Intn(26)), byte('0' + r.Intn(10)), byte(r.Intn(256))}
	if r.Intn(4) == 0 {
		typ = []byte("MTrx")
	}
	if r.Intn(6) == 0 {
		typ = []byte("MThd")[:4]
		typ[3] = 'x'
	}
	if r.Intn(6) == 0 { // the chunk types are case sensitive: these are alien too
		typ = []byte([]string{"MTRK", "mtrk", "Mtrk", "MTrK", "mTrk", "MTHD", "mthd", "MThD"}[r.Intn(8)])
		feat["alien_type_other_case"] = true
	}
	n := []int{0, 1, 4, 7, 8, 9, 64, r.Intn(300)}[r.Intn(8)]
	if r.Intn(60) == 0 { // a chunk length that needs more than 16 bits
		n = 65536 + r.Intn(3000)
		feat["alien_over_64k"] = true
	}
	body := payload(r, n, false)
	if n >= 8 && r.Intn(2) == 0 { // the bytes "MTrk" + a length inside an alien body must not confuse anyone
		copy(body, []byte("MTrk\x00\x00\x00\x04"))
		feat["alien_with_MTrk_inside"] = true
	}
	feat["alien"] = true
	return append(append(typ, be32(n)...), body...)
}

// oddMeta: when set, meta events of the types whose length the format fixes (tempo, time/key signature, SMPTE offset,
// sequence number, channel, port) get OTHER self-consistent lengths.  Such files are only used as "any bytes" for C05.
var oddMeta = false

func genValidFile(r *rand.Rand, big bool, feat map[string]bool) []byte {
	format := r.Intn(3)
	ntr := 1
	if format != 0 {
		ntr = 1 + r.Intn(4)
		if big && r.Intn(4) == 0 {
			ntr = 1 + r.Intn(16)
		}
		if big && r.Intn(30) == 0 {
			ntr = []int{255, 256, 257, 300}[r.Intn(4)]
			feat["many_tracks"] = true
		}
	}
	var div []byte
	if r.Intn(3) == 0 {
		div = []byte{byte(256 - []int{24, 25, 29, 30}[r.Intn(4)]), byte([]int{0, 1, 4, 40, 80, 100, 255, r.Intn(256)}[r.Intn(8)])}
		feat["smpte"] = true
	} else {
		div = be16(metricBounds[r.Intn(len(metricBounds))])
		if r.Intn(2) == 0 {
			div = be16(1 + r.Intn(32767))
		}
	}
	out := append([]byte("MThd"), 0, 0, 0, 6)
	out = append(out, be16(format)...)
	out = append(out, be16(ntr)...)
	out = append(out, div...)
	alienP := []float64{0, 0, 0.3, 0.6}[r.Intn(4)]
	for t := 0; t < ntr; t++ {
		for hx.Chance(r, alienP) {
			out = append(out, alienChunk(r, feat)...)
			if t == 0 {
				feat["alien_before_first_track"] = true
			} else {
				feat["alien_between_tracks"] = true
			}
		}
		var body []byte
		nev := r.Intn(10)
		if big && r.Intn(3) == 0 {
			nev = r.Intn(300)
		}
		if ntr > 100 {
			nev = r.Intn(2)
		}
		var rs byte                                // running status in effect
		tempoHeavy := ntr <= 16 && r.Intn(12) == 0 // a long tempo map: 65..160 well-formed tempo events on rising ticks
		if tempoHeavy {
			nev = 65 + r.Intn(96)
			feat["many_tempo_events"] = true
		}
		for e := 0; e < nev; e++ {
			if tempoHeavy && r.Intn(8) != 0 {
				body = append(body, vlqPadded(r, uint32(r.Intn(200)), feat)...)
				body = append(body, 0xFF, 0x51, 0x03, byte(1+r.Intn(40)), byte(r.Intn(256)), byte(r.Intn(256)))
				rs = 0
				feat["meta"] = true
				continue
			}
			body = append(body, vlqPadded(r, genDelta(r, false), feat)...)
			switch k := r.Intn(20); {
			case k < 12:
				st := byte(0x80 + r.Intn(0x70))
				if rs != 0 && hx.Chance(r, 0.6) {
					st = rs
				}
				nd := 2
				if st&0xF0 == 0xC0 || st&0xF0 == 0xD0 {
					nd = 1
				}
				if st == rs && hx.Chance(r, 0.7) {
					feat["running_status"] = true
					if nd == 1 {
						feat["running_status_1data"] = true
					}
				} else {
					body = append(body, st)
				}
				rs = st
				for i := 0; i < nd; i++ {
					body = append(body, d7(r))
				}
			case k < 16:
				typ := byte(r.Intn(128))
				for typ == 0x2F {
					typ = byte(r.Intn(128))
				}
				n := payLen(r, !big)
				if big && r.Intn(40) == 0 {
					n = 65536 + r.Intn(5000) // three-byte length
					feat["payload_3byte_len"] = true
				}
				if oddMeta && r.Intn(2) == 0 {
					typ = []byte{0x51, 0x58, 0x59, 0x54, 0x00, 0x20, 0x21, 0x7F, 0x01}[r.Intn(9)]
					n = r.Intn(7)
				}
				if n >= 128 {
					feat["long_payload"] = true
				}
				body = append(body, 0xFF, typ)
				body = append(body, vlqPadded(r, uint32(n), feat)...)
				body = append(body, payload(r, n, false)...)
				rs = 0
				feat["meta"] = true
			case k < 18:
				n := payLen(r, !big)
				p := payload(r, n, true)
				if r.Intn(3) != 0 {
					p = append(p, 0xF7)
				} else {
					feat["sysex_no_f7"] = true
				}
				body = append(body, 0xF0)
				body = append(body, vlqPadded(r, uint32(len(p)), feat)...)
				body = append(body, p...)
				rs = 0
				feat["sysex"] = true
			default:
				n := payLen(r, !big)
				body = append(body, 0xF7)
				body = append(body, vlqPadded(r, uint32(n), feat)...)
				body = append(body, payload(r, n, false)...)
				rs = 0
				feat["escape"] = true
			}
		}
		body = append(body, vlqPadded(r, genDelta(r, false), feat)...)
		body = append(body, 0xFF, 0x2F, 0x00)
		out = append(out, []byte("MTrk")...)
		out = append(out, be32(len(body))...)
		out = append(out, body...)
	}
	for hx.Chance(r, alienP) {
		out = append(out, alienChunk(r, feat)...)
		feat["alien_after_last_track"] = true
	}
	return out
}

// oddLayout rewrites a well-formed file into one with an unusual chunk layout (C09 asks nothing of the result but that it
// is the same however the bytes arrive): a header chunk that declares more than its 6 bytes (the format allows later
// versions to extend it), and track chunks that declare more bytes than their events up to end-of-track occupy.
func oddLayout(r *rand.Rand, file []byte, feat map[string]bool) []byte {
	type ck struct {
		typ  string
		body []byte
	}
	var cks []ck
	for p := 0; p+8 <= len(file); {
		n := int(file[p+4])<<24 | int(file[p+5])<<16 | int(file[p+6])<<8 | int(file[p+7])
		if p+8+n > len(file) {
			return file
		}
		cks = append(cks, ck{string(file[p : p+4]), file[p+8 : p+8+n]})
		p += 8 + n
	}
	var out []byte
	mode := r.Intn(3) // 0: long header, 1: padded tracks, 2: both
	for i, c := range cks {
		body := append([]byte{}, c.body...)
		switch {
		case i == 0 && c.typ == "MThd" && mode != 1:
			k := []int{1, 2, 7, 8, 9, 20, 250}[r.Intn(7)]
			body = append(body, payload(r, k, false)...)
			feat["long_header_chunk"] = true
		case c.typ == "MTrk" && mode != 0 && r.Intn(2) == 0:
			k := []int{1, 2, 4, 7, 8, 9, 12, 30}[r.Intn(8)]
			pad := payload(r, k, false)
			if r.Intn(2) == 0 {
				pad = make([]byte, k)
			}
			body = append(body, pad...)
			feat["bytes_after_end_of_track"] = true
		}
		out = append(out, c.typ...)
		out = append(out, be32(len(body))...)
		out = append(out, body...)
	}
	return out
}

// mutate applies one grammar-blind mutation (C05 "any bytes").
func mutate(r *rand.Rand, b []byte) []byte {
	o := append([]byte{}, b...)
	if len(o) == 0 {
		return []byte{byte(r.Intn(256))}
	}
	switch r.Intn(7) {
	case 0:
		o[r.Intn(len(o))] = byte(r.Intn(256))
	case 1:
		i := r.Intn(len(o))
		o = append(o[:i], o[i+1:]...)
	case 2:
		i := r.Intn(len(o) + 1)
		o = append(o[:i], append([]byte{byte(r.Intn(256))}, o[i:]...)...)
	case 3: // length-like field to a boundary value
		i := r.Intn(len(o))
		vals := [][]byte{{0xFF, 0xFF, 0xFF, 0x7F}, {0x8F, 0xFF, 0xFF, 0xFF, 0x7F}, {0xFF, 0x7F}, {0x00}, {0x81, 0x00}, {0xFF, 0xFF, 0xFF, 0xFF}}
		v := vals[r.Intn(len(vals))]
		o = append(o[:i], append(append([]byte{}, v...), o[i:]...)...)
	case 4: // replace by a byte of each class
		o[r.Intn(len(o))] = []byte{0x00, 0x7F, 0x80, 0x9F, 0xC0, 0xEF, 0xF0, 0xF1, 0xF4, 0xF7, 0xF8, 0xFF}[r.Intn(12)]
	case 5: // splice
		i, j := r.Intn(len(o)), r.Intn(len(o))
		if i > j {
			i, j = j, i
		}
		o = append(o[:i], o[j:]...)
	default:
		o[r.Intn(len(o))] ^= 1 << uint(r.Intn(8))
	}
	return o
}

func featList(f map[string]bool) []string {
	l := []string{}
	for k := range f {
		l = append(l, k)
	}
	return l
}
