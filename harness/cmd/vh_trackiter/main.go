// vh_trackiter is the harness of extension X03 (track iteration: selection, type filter, tempo lookups, track /
// file predicates).  It builds files through the public API (smf.New / NewSMF1 / NewSMF2, Track.Add / Close,
// SMF.Add), writes them with WriteTo, reads them back with smf.ReadTracksFrom(selection...), optionally calls
// Only(types...), and records what TracksReader.Do, SMF.TempoChanges, TempoChanges.TempoAt / TempoChangeAt,
// Track.IsClosed / IsEmpty, SMF.NumTracks / Format and Track.SendTo returned -- one NDJSON line per experiment.
// It contains NO oracle: the record carries the API history and the observations; spec/Trace_TrackIter.tla judges.
// The only glue is the table typeByName (filter NAME used by the specification -> the library's exported constant).
package main

import (
	"bytes"
	"encoding/json"
	"flag"
	"fmt"
	"math"
	"math/rand"
	"os"
	"sort"
	"strconv"

	"gitlab.com/gomidi/midi/v2"
	"gitlab.com/gomidi/midi/v2/smf"

	"verifharness/internal/hx"
)

// ---- record ---------------------------------------------------------------------------------------------

type Msg struct {
	M   hx.B  `json:"m"`
	Bpm []int `json:"bpm"` // [] unless Message.GetMetaTempo reports a tempo: then math.Float64bits in four 16-bit words, most significant first
}

type Op struct {
	Op     string `json:"op"` // add | close
	D      []int  `json:"d"`  // delta ticks, decimal digits
	Msgs   []Msg  `json:"msgs"`
	Closed bool   `json:"closed"` // Track.IsClosed() after the call
	Empty  bool   `json:"empty"`  // Track.IsEmpty() after the call
	N      int    `json:"n"`      // len(track) after the call
}

type AddObs struct {
	Err bool `json:"err"` // SMF.Add returned an error
	Num int  `json:"num"` // SMF.NumTracks() after the call
	Fmt int  `json:"fmt"` // SMF.Format() after the call
}

type ReadBack struct {
	Num    int    `json:"num"`
	Fmt    int    `json:"fmt"`
	Closed []bool `json:"closed"`
	Empty  []bool `json:"empty"`
}

type Visit struct {
	Tr  int   `json:"tr"`
	D   []int `json:"d"`
	Abs []int `json:"abs"`
	Neg bool  `json:"neg"` // AbsTicks negative (abs then holds the magnitude)
	M   hx.B  `json:"m"`
}

type TC struct {
	T   []int `json:"t"`
	Neg bool  `json:"neg"`
	Bpm []int `json:"bpm"`
}

type Query struct {
	T   []int `json:"t"`
	Neg bool  `json:"neg"`
	Idx int   `json:"idx"` // position (1-based) in TempoChanges() of the pointer TempoChangeAt returned; 0 = nil; -1 = a pointer that is not in the list
	Bpm []int `json:"bpm"` // TempoAt
}

type Rec struct {
	Ev      string   `json:"ev"`
	ID      int      `json:"id"`
	Ctor    string   `json:"ctor"` // new | smf1 | smf2
	Res     int      `json:"res"`
	Ops     [][]Op   `json:"ops"`  // per track: the calls on the smf.Track value, with the predicates observed after each
	Adds    []AddObs `json:"adds"` // per track: SMF.Add
	Werr    string   `json:"werr"`
	Rerr    string   `json:"rerr"`
	RB      ReadBack `json:"rb"`
	Sel     []int    `json:"sel"`
	Filt    string   `json:"filt"` // none (Only not called) | noargs (Only()) | types
	Only    []string `json:"only"`
	Visits  []Visit  `json:"visits"`
	Panic   string   `json:"panic"`
	List    []TC     `json:"list"`
	Queries []Query  `json:"queries"`
	SendTr  int      `json:"sendtr"` // track handed to Track.SendTo (-1 = none)
	Sent    []hx.B   `json:"sent"`
	SentTs  []int    `json:"sentts"` // the int32 timestamps SendTo passed (recorded, not judged)
	Feat    []string `json:"feat"`
}

// filter names of spec/TrackIter.tla -> exported constants of the library
var typeByName = map[string]midi.Type{
	"NoteOff": midi.NoteOffMsg, "NoteOn": midi.NoteOnMsg, "PolyAfterTouch": midi.PolyAfterTouchMsg, "ControlChange": midi.ControlChangeMsg,
	"ProgramChange": midi.ProgramChangeMsg, "AfterTouch": midi.AfterTouchMsg, "PitchBend": midi.PitchBendMsg,
	"MetaSeqNumber": smf.MetaSeqNumberMsg, "MetaText": smf.MetaTextMsg, "MetaCopyright": smf.MetaCopyrightMsg, "MetaTrackName": smf.MetaTrackNameMsg,
	"MetaInstrument": smf.MetaInstrumentMsg, "MetaLyric": smf.MetaLyricMsg, "MetaMarker": smf.MetaMarkerMsg, "MetaCuepoint": smf.MetaCuepointMsg,
	"MetaProgramName": smf.MetaProgramNameMsg, "MetaDevice": smf.MetaDeviceMsg, "MetaChannel": smf.MetaChannelMsg, "MetaPort": smf.MetaPortMsg,
	"MetaEndOfTrack": smf.MetaEndOfTrackMsg, "MetaTempo": smf.MetaTempoMsg, "MetaSMPTEOffset": smf.MetaSMPTEOffsetMsg, "MetaTimeSig": smf.MetaTimeSigMsg,
	"MetaKeySig": smf.MetaKeySigMsg, "MetaSeqData": smf.MetaSeqDataMsg,
	"Channel": midi.ChannelMsg, "SysEx": midi.SysExMsg, "Meta": smf.MetaMsg, "RealTime": midi.RealTimeMsg, "SysCommon": midi.SysCommonMsg,
	"MetaUndefined": smf.MetaUndefinedMsg, "Unknown": midi.UnknownMsg,
}

// ---- numbers ----------------------------------------------------------------------------------------------

func digits(u uint64) []int {
	d := []int{}
	for _, c := range strconv.FormatUint(u, 10) {
		d = append(d, int(c-'0'))
	}
	return d
}

func sdigits(i int64) ([]int, bool) {
	if i < 0 {
		return digits(uint64(-(i + 1)) + 1), true
	}
	return digits(uint64(i)), false
}

func undigits(d []int) uint64 {
	var u uint64
	for _, x := range d {
		u = u*10 + uint64(x)
	}
	return u
}

func words(f float64) []int {
	b := math.Float64bits(f)
	return []int{int(b >> 48), int(b >> 32 & 0xffff), int(b >> 16 & 0xffff), int(b & 0xffff)}
}

// ---- one experiment -----------------------------------------------------------------------------------------

func runOne(rec *Rec) {
	rec.Ev = "iter"
	rec.Adds, rec.Visits, rec.List, rec.Sent, rec.SentTs = []AddObs{}, []Visit{}, []TC{}, []hx.B{}, []int{}
	rec.RB = ReadBack{Closed: []bool{}, Empty: []bool{}}
	rec.Werr, rec.Rerr, rec.Panic = "", "", ""
	for i := range rec.Queries {
		rec.Queries[i].Idx, rec.Queries[i].Bpm = 0, []int{}
	}
	var s *smf.SMF
	switch rec.Ctor {
	case "new":
		s = smf.New()
	case "smf1":
		s = smf.NewSMF1()
	case "smf2":
		s = smf.NewSMF2()
	default:
		hx.Die("unknown constructor", rec.Ctor)
	}
	s.TimeFormat = smf.MetricTicks(rec.Res)
	for ti := range rec.Ops {
		var tr smf.Track
		for oi := range rec.Ops[ti] {
			o := &rec.Ops[ti][oi]
			d := uint32(undigits(o.D))
			switch o.Op {
			case "add":
				msgs := make([][]byte, len(o.Msgs))
				for k := range o.Msgs {
					msgs[k] = append([]byte{}, o.Msgs[k].M...)
					o.Msgs[k].Bpm = []int{}
					var bpm float64
					if smf.Message(msgs[k]).GetMetaTempo(&bpm) {
						o.Msgs[k].Bpm = words(bpm)
					}
				}
				tr.Add(d, msgs...)
			case "close":
				if o.Msgs == nil {
					o.Msgs = []Msg{}
				}
				tr.Close(d)
			default:
				hx.Die("unknown op", o.Op)
			}
			o.Closed, o.Empty, o.N = tr.IsClosed(), tr.IsEmpty(), len(tr)
		}
		err := s.Add(tr)
		rec.Adds = append(rec.Adds, AddObs{Err: err != nil, Num: int(s.NumTracks()), Fmt: int(s.Format())})
	}
	var buf bytes.Buffer
	if _, err := s.WriteTo(&buf); err != nil {
		rec.Werr = err.Error()
		return
	}
	file := buf.Bytes()

	rd := smf.ReadTracksFrom(bytes.NewReader(file), rec.Sel...)
	if rd.Error() != nil {
		rec.Rerr = rd.Error().Error()
		return
	}
	back := rd.SMF()
	rec.RB.Num, rec.RB.Fmt = int(back.NumTracks()), int(back.Format())
	for _, tr := range back.Tracks {
		rec.RB.Closed = append(rec.RB.Closed, tr.IsClosed())
		rec.RB.Empty = append(rec.RB.Empty, tr.IsEmpty())
	}
	switch rec.Filt {
	case "none":
	case "noargs":
		rd.Only()
	case "types":
		ts := make([]midi.Type, len(rec.Only))
		for i, n := range rec.Only {
			t, ok := typeByName[n]
			if !ok {
				hx.Die("unknown filter name", n)
			}
			ts[i] = t
		}
		rd.Only(ts...)
	default:
		hx.Die("unknown filter mode", rec.Filt)
	}
	rec.Panic = hx.Catch(func() {
		rd.Do(func(te smf.TrackEvent) {
			a, neg := sdigits(te.AbsTicks)
			rec.Visits = append(rec.Visits, Visit{Tr: te.TrackNo, D: digits(uint64(te.Delta)), Abs: a, Neg: neg, M: append(hx.B{}, te.Message...)})
		})
	})
	if rec.Panic != "" {
		return
	}
	if rd.Error() != nil {
		rec.Rerr = "after Do: " + rd.Error().Error()
		return
	}

	// tempo lookups
	list := back.TempoChanges()
	for _, tc := range list {
		a, neg := sdigits(tc.AbsTicks)
		rec.List = append(rec.List, TC{T: a, Neg: neg, Bpm: words(tc.BPM)})
	}
	rec.Panic = hx.Catch(func() {
		for i := range rec.Queries {
			q := &rec.Queries[i]
			t := int64(undigits(q.T))
			if q.Neg {
				t = -t
			}
			p := list.TempoChangeAt(t)
			q.Idx = 0
			if p != nil {
				q.Idx = -1
				for k, tc := range list {
					if tc == p {
						q.Idx = k + 1
						break
					}
				}
			}
			q.Bpm = words(list.TempoAt(t))
		}
	})
	if rec.Panic != "" {
		return
	}

	// Track.SendTo
	if rec.SendTr >= 0 && rec.SendTr < len(back.Tracks) {
		tr := back.Tracks[rec.SendTr]
		rec.Panic = hx.Catch(func() {
			tr.SendTo(smf.MetricTicks(rec.Res), list, func(m midi.Message, ts int32) {
				rec.Sent = append(rec.Sent, append(hx.B{}, m...))
				rec.SentTs = append(rec.SentTs, int(ts))
			})
		})
	}
}

// ---- generator ------------------------------------------------------------------------------------------------

type gen struct {
	r    *rand.Rand
	feat map[string]bool
}

var chanNames = []string{"NoteOff", "NoteOn", "PolyAfterTouch", "ControlChange", "ProgramChange", "AfterTouch", "PitchBend"}
var metaNames = []string{"MetaSeqNumber", "MetaText", "MetaCopyright", "MetaTrackName", "MetaInstrument", "MetaLyric", "MetaMarker", "MetaCuepoint",
	"MetaProgramName", "MetaDevice", "MetaChannel", "MetaPort", "MetaEndOfTrack", "MetaTempo", "MetaSMPTEOffset", "MetaTimeSig", "MetaKeySig", "MetaSeqData"}

func (g *gen) channel() []byte {
	r := g.r
	ch, a, b := uint8(r.Intn(16)), uint8(r.Intn(128)), uint8(r.Intn(128))
	switch r.Intn(8) {
	case 0:
		return midi.NoteOn(ch, a, b) // velocity 0 included: still a Note On by its status byte
	case 1:
		return midi.NoteOn(ch, a, 1+b%127)
	case 2:
		return midi.NoteOffVelocity(ch, a, b)
	case 3:
		return midi.ControlChange(ch, a, b)
	case 4:
		return midi.ProgramChange(ch, a)
	case 5:
		return midi.Pitchbend(ch, int16(r.Intn(16000)-8000))
	case 6:
		return midi.AfterTouch(ch, a)
	default:
		return midi.PolyAfterTouch(ch, a, b)
	}
}

func (g *gen) meta(tempoOK bool) []byte {
	r := g.r
	txt := fmt.Sprintf("x%d", r.Intn(50))
	switch r.Intn(20) {
	case 0:
		return smf.MetaSequenceNo(uint16(r.Intn(1000)))
	case 1:
		return smf.MetaText(txt)
	case 2:
		return smf.MetaCopyright(txt)
	case 3:
		return smf.MetaTrackSequenceName(txt)
	case 4:
		return smf.MetaInstrument(txt)
	case 5:
		return smf.MetaLyric(txt)
	case 6:
		return smf.MetaMarker(txt)
	case 7:
		return smf.MetaCuepoint(txt)
	case 8:
		return smf.MetaProgram(txt)
	case 9:
		return smf.MetaDevice(txt)
	case 10:
		return smf.MetaChannel(uint8(r.Intn(16)))
	case 11:
		return smf.MetaPort(uint8(r.Intn(16)))
	case 12:
		return smf.MetaSMPTE(1, 2, 3, 4, 5)
	case 13:
		return smf.MetaTimeSig(uint8(1+r.Intn(12)), uint8(hx.Pick(r, 2, 4, 8)), 24, 8)
	case 14:
		return smf.MetaKey(uint8(r.Intn(12)), r.Intn(2) == 0, uint8(r.Intn(7)), r.Intn(2) == 0)
	case 15:
		return smf.MetaSequencerData([]byte{1, 2, byte(r.Intn(128))})
	case 16:
		g.feat["meta_undefined"] = true
		return smf.MetaUndefined(byte(hx.Pick(r, 0x0a, 0x10, 0x60, 0x7e)), []byte{byte(r.Intn(256))})
	default:
		if !tempoOK {
			return smf.MetaText(txt)
		}
		g.feat["tempo"] = true
		return smf.MetaTempo(float64(hx.Pick(r, 30, 60, 90, 120, 121, 140, 187, 240, 333, 600)) + float64(r.Intn(4))/4)
	}
}

func (g *gen) delta() uint32 {
	r := g.r
	switch x := r.Intn(40); {
	case x < 16:
		return 0
	case x < 34:
		return uint32(1 + r.Intn(10))
	case x < 38:
		return uint32(r.Intn(2000))
	case x < 39:
		g.feat["delta_big"] = true
		return uint32(0x0FFFFFFF - r.Intn(3))
	default:
		g.feat["delta_big"] = true
		return uint32(r.Intn(0x0FFFFFFF))
	}
}

func (g *gen) record(id int) *Rec {
	r := g.r
	g.feat = map[string]bool{}
	rec := &Rec{ID: id, SendTr: -1}
	rec.Ctor = []string{"new", "new", "smf1", "smf2"}[r.Intn(4)]
	rec.Res = hx.Pick(r, 1, 24, 96, 480, 960, 960, 32767)
	ntr := 1 + r.Intn(5)
	if r.Intn(4) == 0 {
		ntr = 1
	}
	// where tempo events may live: one track (the SMF convention) or anywhere
	tempoTrack := r.Intn(ntr)
	anywhere := r.Intn(5) == 0
	if anywhere && ntr > 1 {
		g.feat["tempo_multi_track"] = true
	}
	sameTickBurst := r.Intn(6) == 0
	var tempoTicks []uint64
	for t := 0; t < ntr; t++ {
		ops := []Op{}
		n := 0
		switch r.Intn(8) {
		case 0:
			n = 0
			g.feat["track_empty"] = true
		case 1, 2:
			n = 1 + r.Intn(4)
		default:
			n = 5 + r.Intn(28)
		}
		tempoOK := anywhere || t == tempoTrack
		var tick uint64
		closed := false
		for i := 0; i < n; i++ {
			d := g.delta()
			k := 1
			switch x := r.Intn(20); {
			case x == 0:
				k = 0
				g.feat["add_nothing"] = true
			case x < 4:
				k = 2 + r.Intn(2)
				g.feat["add_several"] = true
			}
			msgs := []Msg{}
			for j := 0; j < k; j++ {
				var m []byte
				switch y := r.Float64(); {
				case y < 0.55:
					m = g.channel()
				case y < 0.62:
					g.feat["sysex"] = true
					dd := make([]byte, r.Intn(4))
					for q := range dd {
						dd[q] = byte(r.Intn(128))
					}
					m = midi.SysEx(dd)
				default:
					m = g.meta(tempoOK)
				}
				msgs = append(msgs, Msg{M: m, Bpm: []int{}})
			}
			if sameTickBurst && tempoOK && i == n/2 { // several tempo events on ONE tick (more than 12 now and then)
				g.feat["tempo_same_tick"] = true
				nb := 2 + r.Intn(3)
				if r.Intn(3) == 0 {
					nb = 13 + r.Intn(6)
					g.feat["tempo_same_tick_ge13"] = true
				}
				msgs = []Msg{}
				for j := 0; j < nb; j++ {
					msgs = append(msgs, Msg{M: hx.B(smf.MetaTempo(float64(40 + 7*j + r.Intn(5)))), Bpm: []int{}})
				}
				g.feat["tempo"] = true
			}
			ops = append(ops, Op{Op: "add", D: digits(uint64(d)), Msgs: msgs})
			if !closed && len(msgs) > 0 {
				tick += uint64(d)
				for _, m := range msgs {
					if len(m.M) == 6 && m.M[0] == 0xff && m.M[1] == 0x51 {
						tempoTicks = append(tempoTicks, tick)
					}
				}
			}
			if r.Intn(60) == 0 { // an early Close: everything after it is ignored (documented life cycle)
				g.feat["close_early"] = true
				ops = append(ops, Op{Op: "close", D: digits(uint64(r.Intn(5))), Msgs: []Msg{}})
				closed = true
			}
		}
		switch x := r.Intn(20); {
		case x < 16:
			ops = append(ops, Op{Op: "close", D: digits(uint64(g.delta())), Msgs: []Msg{}})
		case x < 18:
			g.feat["close_twice"] = true
			ops = append(ops, Op{Op: "close", D: digits(uint64(r.Intn(3))), Msgs: []Msg{}}, Op{Op: "close", D: digits(7), Msgs: []Msg{}},
				Op{Op: "add", D: digits(5), Msgs: []Msg{{M: hx.B(midi.NoteOn(0, 1, 2)), Bpm: []int{}}}})
		case x < 19:
			g.feat["close_by_add_eot"] = true
			ops = append(ops, Op{Op: "add", D: digits(uint64(r.Intn(3))), Msgs: []Msg{{M: append(hx.B{}, smf.EOT...), Bpm: []int{}}}})
		default:
			g.feat["unclosed"] = true // SMF.Add reports an error, WriteTo closes the track
		}
		rec.Ops = append(rec.Ops, ops)
	}

	// selection
	rec.Sel = []int{}
	switch x := r.Intn(20); {
	case x < 7:
		g.feat["sel_all"] = true
	case x < 12:
		g.feat["sel_subset"] = true
		for t := 0; t < ntr; t++ {
			if r.Intn(2) == 0 {
				rec.Sel = append(rec.Sel, t)
			}
		}
		if len(rec.Sel) == 0 {
			rec.Sel = append(rec.Sel, r.Intn(ntr))
		}
		r.Shuffle(len(rec.Sel), func(i, j int) { rec.Sel[i], rec.Sel[j] = rec.Sel[j], rec.Sel[i] })
	case x < 15:
		g.feat["sel_single"] = true
		rec.Sel = append(rec.Sel, r.Intn(ntr))
	case x < 17:
		g.feat["sel_mixed_out_of_range"] = true
		rec.Sel = append(rec.Sel, ntr+r.Intn(3), r.Intn(ntr))
	case x < 18:
		g.feat["sel_only_out_of_range"] = true
		rec.Sel = append(rec.Sel, ntr+r.Intn(3))
		if r.Intn(2) == 0 {
			rec.Sel = append(rec.Sel, -1-r.Intn(2))
		}
	default:
		g.feat["sel_repeated"] = true
		t := r.Intn(ntr)
		rec.Sel = append(rec.Sel, t, t)
	}

	// filter
	rec.Only = []string{}
	rec.Filt = "types"
	pickConcrete := func() string {
		if r.Intn(2) == 0 {
			return chanNames[r.Intn(len(chanNames))]
		}
		return metaNames[r.Intn(len(metaNames))]
	}
	switch x := r.Intn(24); {
	case x < 5:
		rec.Filt = "none"
		g.feat["filt_none"] = true
	case x < 6:
		rec.Filt = "noargs"
		g.feat["filt_noargs"] = true
	case x < 10:
		g.feat["filt_one_type"] = true
		rec.Only = append(rec.Only, pickConcrete())
	case x < 13:
		g.feat["filt_disjoint_types"] = true
		for len(rec.Only) < 2+r.Intn(3) {
			n := pickConcrete()
			dup := false
			for _, o := range rec.Only {
				dup = dup || o == n
			}
			if !dup {
				rec.Only = append(rec.Only, n)
			}
		}
	case x < 16:
		g.feat["filt_category"] = true
		rec.Only = append(rec.Only, []string{"Channel", "Meta", "SysEx", "Channel", "Meta", "RealTime", "SysCommon"}[r.Intn(7)])
	case x < 19:
		g.feat["filt_overlap"] = true // a category together with one of its own types
		if r.Intn(2) == 0 {
			rec.Only = append(rec.Only, "Channel", chanNames[r.Intn(len(chanNames))])
		} else {
			rec.Only = append(rec.Only, metaNames[r.Intn(len(metaNames))], "Meta")
		}
		if r.Intn(3) == 0 {
			rec.Only = append(rec.Only, "SysEx")
		}
	case x < 21:
		g.feat["filt_repeated_type"] = true
		n := pickConcrete()
		rec.Only = append(rec.Only, n, n)
	case x < 23:
		g.feat["filt_two_categories"] = true
		rec.Only = append(rec.Only, "Channel", "Meta")
		r.Shuffle(2, func(i, j int) { rec.Only[i], rec.Only[j] = rec.Only[j], rec.Only[i] })
	default:
		g.feat["filt_open_type"] = true
		rec.Only = append(rec.Only, []string{"MetaUndefined", "Unknown"}[r.Intn(2)], "NoteOn")
	}

	// query ticks: around every tempo event, the ends, far away, before zero
	qs := map[int64]bool{-1: true, 0: true, 1: true, 2: true, 1 << 40: true, -(1 << 33): true}
	for i, t := range tempoTicks {
		if i > 40 {
			break
		}
		for _, dd := range []int64{-1, 0, 1} {
			qs[int64(t)+dd] = true
		}
	}
	for i := 0; i < 6; i++ {
		qs[int64(r.Intn(3000))] = true
	}
	rec.Queries = []Query{}
	for t := range qs {
		d, neg := sdigits(t)
		rec.Queries = append(rec.Queries, Query{T: d, Neg: neg, Bpm: []int{}})
	}
	// (map order is random but irrelevant: every query is judged on its own; sort for reproducible files)
	sortQueries(rec.Queries)
	if len(tempoTicks) == 0 {
		g.feat["no_tempo"] = true
	}
	if r.Intn(3) > 0 {
		rec.SendTr = r.Intn(ntr)
	}
	rec.Feat = []string{}
	for k := range g.feat {
		rec.Feat = append(rec.Feat, k)
	}
	sort.Strings(rec.Feat)
	return rec
}

func sortQueries(q []Query) {
	key := func(x Query) int64 {
		v := int64(undigits(x.T))
		if x.Neg {
			return -v
		}
		return v
	}
	for i := 1; i < len(q); i++ {
		for j := i; j > 0 && key(q[j]) < key(q[j-1]); j-- {
			q[j], q[j-1] = q[j-1], q[j]
		}
	}
}

// ---- commands ---------------------------------------------------------------------------------------------------

func cmdGen(args []string) {
	fs := flag.NewFlagSet("iter-gen", flag.ExitOnError)
	n := fs.Int("n", 100, "number of experiments")
	seed := fs.Int64("seed", 1, "seed")
	out := fs.String("out", "", "output NDJSON")
	fs.Parse(args)
	g := &gen{r: rand.New(rand.NewSource(*seed))}
	w := hx.Create(*out)
	for i := 0; i < *n; i++ {
		rec := g.record(i)
		runOne(rec)
		w.Put(rec)
	}
	w.Close()
}

func cmdRerun(args []string) {
	fs := flag.NewFlagSet("iter-rerun", flag.ExitOnError)
	in := fs.String("in", "", "input NDJSON (records of iter-gen)")
	out := fs.String("out", "", "output NDJSON")
	fs.Parse(args)
	w := hx.Create(*out)
	hx.ReadLines(*in, func(line []byte) {
		var rec Rec
		if err := json.Unmarshal(line, &rec); err != nil {
			hx.Die("bad record", err)
		}
		runOne(&rec)
		w.Put(&rec)
	})
	w.Close()
}

func main() {
	cmds := map[string]func([]string){"iter-gen": cmdGen, "iter-rerun": cmdRerun}
	if len(os.Args) < 2 || cmds[os.Args[1]] == nil {
		fmt.Fprintln(os.Stderr, "usage: vh_trackiter iter-gen|iter-rerun [flags]")
		os.Exit(3)
	}
	cmds[os.Args[1]](os.Args[2:])
}
