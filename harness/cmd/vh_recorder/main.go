// vh_recorder is the harness of C13: recording sessions on the REAL library.
//
//	testdrv loopback -> Track.RecordFrom(in, MetricTicks(res), bpm) -> out.Send(chunk) with Driver.Sleep between the
//	chunks (virtual clock) -> stop -> Close(0) -> smf.New + Add + WriteTo -> ReadFrom
//
// One NDJSON record per session: inputs and everything the library returned.  No MIDI/SMF oracle here: TLC
// (spec/Trace_Recorder.tla) derives the arrival stamps from the receiver model and judges the record.
// The stream generators are those of the live-decoder family (cmd/vh/live.go), copied.
package main

import (
	"bytes"
	"encoding/json"
	"flag"
	"fmt"
	"io"
	"math/rand"
	"os"
	"path/filepath"
	"strings"
	"sync"
	"time"

	"gitlab.com/gomidi/midi/v2/drivers/testdrv"
	"gitlab.com/gomidi/midi/v2/smf"

	"verifharness/internal/hx"
)

type RChunk struct {
	Dt    int32 `json:"dt"` // virtual milliseconds slept before the chunk is sent
	Bytes hx.B  `json:"bytes"`
}

type REvent struct {
	D []int `json:"d"` // delta as canonical base-128 digits
	M hx.B  `json:"m"`
}

type RTF struct {
	Kind string `json:"kind"`
	A    int    `json:"a"`
	B    int    `json:"b"`
}

// R is what smf.ReadFrom returned (same shape as in the SMF family).
type R struct {
	Kind   string     `json:"kind"` // value | error | panic | timeout
	Fmt    int        `json:"fmt"`
	TF     RTF        `json:"tf"`
	Tracks [][]REvent `json:"tracks"`
	Msg    string     `json:"msg"`
}

type RecRec struct {
	ID     int      `json:"id"`
	Res    int      `json:"res"`    // ticks per quarter note
	Bpm100 int      `json:"bpm100"` // tempo in hundredths of a beat per minute (exact rational bpm100/100)
	Lead   int32    `json:"lead"`   // virtual ms slept between RecordFrom and the first chunk's own dt
	Chunks []RChunk `json:"chunks"`
	Panic  string   `json:"panic"` // panic / error while recording ("" = none)
	Track  []REvent `json:"track"` // the track after stop and Close(0)
	Bytes  hx.B     `json:"bytes"` // what WriteTo wrote
	Size   int64    `json:"size"`
	Werr   string   `json:"werr"`
	Read   R        `json:"read"`
	Feat   []string `json:"feat"`
	// how the recording is made: "track" Track.RecordFrom (+ smf.New, Add, WriteTo); "smf" SMF.RecordFrom (+ WriteTo);
	// "file" smf.RecordTo (stop writes the file; resolution is that of smf.New)
	Via string `json:"via"`
	// what else happens to the same SMF while the recording runs (via smf): "none", "add" (SMF.Add of another track) or
	// "record2" (a second SMF.RecordFrom from another port, stopped after the first); it happens before chunk ExtraAt (0-based)
	Extra   string `json:"extra"`
	ExtraAt int    `json:"extraat"`
	// an EARLIER complete recording [res, bpm100] made in the same process before this one ([] = none): recordings are independent
	Prior  []int      `json:"prior"`
	Tracks [][]REvent `json:"tracks"` // all tracks of the SMF that was written
	Ti     int        `json:"ti"`     // 1-based position of the recorded track in Tracks (0: there is none)
}

func cp(b []byte) hx.B { return append(hx.B{}, b...) }

func digits(u uint32) []int {
	if u == 0 {
		return []int{0}
	}
	var d []int
	for u > 0 {
		d = append([]int{int(u & 0x7f)}, d...)
		u >>= 7
	}
	return d
}

func events(t smf.Track) []REvent {
	evs := []REvent{}
	for _, e := range t {
		evs = append(evs, REvent{D: digits(e.Delta), M: cp(e.Message)})
	}
	return evs
}

func toR(s *smf.SMF, err error, pan string) R {
	r := R{Tracks: [][]REvent{}}
	switch {
	case pan != "":
		r.Kind, r.Msg = "panic", pan
		return r
	case err != nil:
		r.Kind, r.Msg = "error", err.Error()
		return r
	case s == nil:
		r.Kind, r.Msg = "error", "nil SMF without error"
		return r
	}
	r.Kind = "value"
	r.Fmt = int(s.Format())
	switch tf := s.TimeFormat.(type) {
	case smf.MetricTicks:
		r.TF = RTF{"metric", int(uint16(tf)), 0}
	case smf.TimeCode:
		r.TF = RTF{"smpte", int(tf.FramesPerSecond), int(tf.SubFrames)}
	default:
		r.TF = RTF{fmt.Sprintf("%T", tf), 0, 0}
	}
	for _, t := range s.Tracks {
		r.Tracks = append(r.Tracks, events(t))
	}
	return r
}

// priorRecording makes a complete small recording at the given setting (process state a later recording must not see).
func priorRecording(res, bpm100 int) string {
	return hx.Catch(func() {
		var tr smf.Track
		drv := testdrv.New("verif-prior")
		ins, _ := drv.Ins()
		outs, _ := drv.Outs()
		stop, err := tr.RecordFrom(ins[0], smf.MetricTicks(res), float64(bpm100)/100)
		if err != nil {
			panic(err)
		}
		outs[0].Open()
		drv.Sleep(1500 * time.Millisecond)
		outs[0].Send([]byte{0x90, 60, 100})
		drv.Sleep(250 * time.Millisecond)
		outs[0].Send([]byte{0x80, 60, 0})
		stop()
		tr.Close(0)
	})
}

var extraText = smf.MetaText("extra track added while the recording runs")

// isExtra: t is the track the harness itself put into the SMF while the recording ran (extra = "add": the marker text and
// the end of track; "record2": tempo, the one marker note sent to the second port, end of track)
func isExtra(t smf.Track, extra string) bool {
	switch extra {
	case "add", "saved":
		return len(t) == 2 && bytes.Equal(t[0].Message, extraText)
	case "record2":
		return len(t) == 3 && bytes.Equal(t[1].Message, []byte{0x9F, 127, 1})
	}
	return false
}

// record executes one session on the real code and fills everything but the inputs.
func record(rec *RecRec) {
	rec.Panic, rec.Werr, rec.Size = "", "", 0
	rec.Track, rec.Bytes = []REvent{}, hx.B{}
	rec.Tracks, rec.Ti = [][]REvent{}, 0
	rec.Read = R{Kind: "none", Tracks: [][]REvent{}}
	if rec.Prior == nil {
		rec.Prior = []int{}
	}
	if rec.Via == "" {
		rec.Via, rec.Extra = "track", "none"
	}
	if len(rec.Prior) == 2 {
		if p := priorRecording(rec.Prior[0], rec.Prior[1]); p != "" {
			rec.Panic = "previous recording: " + p
			return
		}
	}

	var tr smf.Track
	var file *smf.SMF
	var fname string
	drv := testdrv.New("verif")
	ins, _ := drv.Ins()
	outs, _ := drv.Outs()
	drv2 := testdrv.New("verif2")
	ins2, _ := drv2.Ins()
	outs2, _ := drv2.Outs()
	var stop, stop2 func()
	var stopf func() error
	var err error
	bpm := float64(rec.Bpm100) / 100
	p := hx.Catch(func() {
		switch rec.Via {
		case "track":
			stop, err = tr.RecordFrom(ins[0], smf.MetricTicks(rec.Res), bpm)
		case "smf":
			file = smf.New()
			file.TimeFormat = smf.MetricTicks(rec.Res)
			stop, err = file.RecordFrom(ins[0], bpm)
		case "file":
			d, e := os.MkdirTemp(tmpRoot, "rec")
			if e != nil {
				hx.Die(e)
			}
			fname = d + "/rec.mid"
			if rec.Extra == "retry" { // the target directory does not exist yet: the first save fails, the second (after it was made) must work
				fname = d + "/later/rec.mid"
			}
			stopf, err = smf.RecordTo(ins[0], bpm, fname)
		default:
			hx.Die("unknown via", rec.Via)
		}
		if err == nil {
			err = outs[0].Open()
		}
	})
	if fname != "" {
		defer os.RemoveAll(strings.TrimSuffix(strings.TrimSuffix(fname, "/rec.mid"), "/later"))
	}
	if p != "" || err != nil {
		rec.Panic = fmt.Sprintf("setup: %s %v", p, err)
		return
	}
	extra := func() {
		switch rec.Extra {
		case "add", "saved":
			var t smf.Track
			t.Add(0, extraText)
			t.Close(0)
			file.Add(t)
			if rec.Extra == "saved" { // the SMF is saved while the recording runs (and again at the end)
				if _, err := file.WriteTo(io.Discard); err != nil {
					panic(err)
				}
			}
		case "record2":
			stop2, err = file.RecordFrom(ins2[0], bpm)
			if err == nil {
				outs2[0].Open()
				drv2.Sleep(1200 * time.Millisecond)
				err = outs2[0].Send([]byte{0x9F, 127, 1})
			}
			if err != nil {
				panic(err)
			}
		}
	}
	// the clock of testdrv starts at the wall clock of Listen: the lead keeps the first stamp positive
	drv.Sleep(time.Duration(rec.Lead) * time.Millisecond)
	for i := range rec.Chunks {
		c := &rec.Chunks[i]
		if rec.Via == "smf" && i == rec.ExtraAt {
			if p := hx.Catch(extra); p != "" {
				rec.Panic = "extra: " + p
				break
			}
		}
		drv.Sleep(time.Duration(c.Dt) * time.Millisecond)
		p := hx.Catch(func() { err = outs[0].Send(c.Bytes) })
		if p != "" {
			rec.Panic = fmt.Sprintf("chunk %d: %s", i+1, p)
			break
		}
		if err != nil {
			rec.Panic = fmt.Sprintf("chunk %d: Send error %v", i+1, err)
			break
		}
	}
	if rec.Via == "smf" && rec.ExtraAt >= len(rec.Chunks) && rec.Panic == "" {
		if p := hx.Catch(extra); p != "" {
			rec.Panic = "extra: " + p
		}
	}
	var buf bytes.Buffer
	var n int64
	switch rec.Via {
	case "track":
		if p := hx.Catch(func() {
			stop()
			tr.Close(0)
		}); p != "" && rec.Panic == "" {
			rec.Panic = "stop/close: " + p
		}
		p = hx.Catch(func() {
			file = smf.New()
			file.TimeFormat = smf.MetricTicks(rec.Res)
			file.Add(tr) // reports an unclosed track only; the track is closed
			n, err = file.WriteTo(&buf)
		})
	case "smf":
		if p := hx.Catch(func() {
			stop()
			if stop2 != nil {
				stop2()
			}
		}); p != "" && rec.Panic == "" {
			rec.Panic = "stop: " + p
		}
		p = hx.Catch(func() { n, err = file.WriteTo(&buf) })
	case "file":
		p = hx.Catch(func() { err = stopf() })
		if rec.Extra == "retry" && p == "" {
			if err == nil {
				rec.Panic = "the save into a directory that does not exist reported no error"
			}
			os.MkdirAll(filepath.Dir(fname), 0o755)
			p = hx.Catch(func() { err = stopf() }) // stop again: now the file can be written
		}
		if p == "" && err == nil {
			var bt []byte
			bt, err = os.ReadFile(fname)
			buf.Write(bt)
			n = int64(len(bt))
		}
	}
	rec.Bytes, rec.Size = cp(buf.Bytes()), n
	if p != "" {
		rec.Werr = "panic: " + p
	} else if err != nil {
		rec.Werr = err.Error()
	}
	var rs *smf.SMF
	var rerr error
	p = hx.Catch(func() { rs, rerr = smf.ReadFrom(bytes.NewReader(buf.Bytes())) })
	rec.Read = toR(rs, rerr, p)
	// the tracks of the SMF that was written (via file: the library hands out nothing but the file, so: as read back)
	var all []smf.Track
	if file != nil {
		all = file.Tracks
	} else if rs != nil {
		all = rs.Tracks
	}
	for i, t := range all {
		rec.Tracks = append(rec.Tracks, events(t))
		if rec.Ti == 0 && !isExtra(t, rec.Extra) {
			rec.Ti = i + 1
		}
	}
	if rec.Ti == 0 && len(all) > 0 {
		rec.Ti = 1 // the recorded stream happens to look like the harness's own extra track: the first one is as good as the other
	}
	if rec.Ti > 0 {
		rec.Track = rec.Tracks[rec.Ti-1]
	}
}

// recordWatched runs record under a 30 s watchdog (the calls take microseconds).
func recordWatched(rec *RecRec) {
	done := make(chan struct{})
	go func() {
		record(rec)
		close(done)
	}()
	select {
	case <-done:
	case <-time.After(15 * time.Second): // (the stop functions of SMF.RecordFrom sleep one second each)
		// the goroutine may still be writing into rec: report on a copy of the inputs only
		hung := RecRec{ID: rec.ID, Res: rec.Res, Bpm100: rec.Bpm100, Lead: rec.Lead, Chunks: rec.Chunks, Feat: rec.Feat,
			Via: rec.Via, Extra: rec.Extra, ExtraAt: rec.ExtraAt, Prior: rec.Prior, Tracks: [][]REvent{},
			Panic: "timeout: session did not finish within 15 s", Track: []REvent{}, Bytes: hx.B{},
			Read: R{Kind: "timeout", Tracks: [][]REvent{}}}
		*rec = hung
	}
}

// ---------------------------------------------------------------------------------------------
// stream generators (copied from cmd/vh/live.go)

var rtBytes = []byte{0xF8, 0xF9, 0xFA, 0xFB, 0xFC, 0xFE, 0xFF}

func d7(r *rand.Rand) byte {
	switch r.Intn(6) {
	case 0:
		return 0
	case 1:
		return 127
	case 2:
		return 64
	}
	return byte(r.Intn(128))
}

func minInt(a, b int) int {
	if a < b {
		return a
	}
	return b
}

func genMessage(r *rand.Rand, ecap int, prevStatus byte) []byte {
	switch k := r.Intn(20); {
	case k < 9: // channel message, often repeating the previous status so that running status applies
		st := byte(0x80 + r.Intn(0x70))
		if prevStatus >= 0x80 && prevStatus <= 0xEF && hx.Chance(r, 0.6) {
			st = prevStatus
		}
		if st&0xF0 == 0xC0 || st&0xF0 == 0xD0 {
			return []byte{st, d7(r)}
		}
		return []byte{st, d7(r), d7(r)}
	case k < 11:
		return []byte{0xF1, d7(r)}
	case k < 12:
		return []byte{0xF2, d7(r), d7(r)}
	case k < 13:
		return []byte{0xF3, d7(r)}
	case k < 14:
		return []byte{0xF6}
	case k < 17: // sysex, length around ecap
		var n int
		switch r.Intn(8) {
		case 0:
			n = 2
		case 1:
			n = ecap - 1
		case 2:
			n = ecap
		case 3:
			n = ecap + 1
		case 4:
			n = ecap + 1 + r.Intn(8)
		default:
			n = 2 + r.Intn(2*minInt(ecap, 40)+1)
		}
		if n < 2 {
			n = 2
		}
		m := make([]byte, n)
		m[0] = 0xF0
		for i := 1; i < n-1; i++ {
			m[i] = d7(r)
		}
		m[n-1] = 0xF7
		return m
	default:
		return []byte{rtBytes[r.Intn(len(rtBytes))]}
	}
}

// genWire builds a stream the way a conforming sender may: running status elision, real-time bytes at
// arbitrary positions (also inside messages and sysex); optionally incomplete messages and stray data.
func genWire(r *rand.Rand, ecap int, nmsg int, messy bool, feat map[string]bool) []byte {
	var out []byte
	var last byte // last non-real-time status on the wire (0 = none / cleared)
	pRT := []float64{0, 0.05, 0.2, 0.5}[r.Intn(4)]
	for i := 0; i < nmsg; i++ {
		m := genMessage(r, ecap, last)
		if messy && hx.Chance(r, 0.15) && len(m) > 1 { // incomplete message: cut its tail
			m = m[:1+r.Intn(len(m)-1)]
			feat["incomplete"] = true
		}
		if messy && hx.Chance(r, 0.1) { // stray data / undefined status
			switch r.Intn(3) {
			case 0:
				m = []byte{d7(r), d7(r)}
			case 1:
				m = []byte{0xF4, d7(r)}
			case 2:
				m = []byte{0xF5}
			}
			feat["stray"] = true
		}
		if messy && hx.Chance(r, 0.05) {
			m = []byte{0xF7}
			feat["bareF7"] = true
		}
		st := m[0]
		body := m
		if st >= 0x80 && st <= 0xEF {
			if st == last && len(m) > 1 && hx.Chance(r, 0.7) {
				body = m[1:]
				feat["elision"] = true
			}
			last = st
			feat["channel"] = true
		} else if st >= 0xF0 && st <= 0xF7 {
			last = 0
			if st == 0xF0 {
				feat["sysex"] = true
			} else {
				feat["syscommon"] = true
			}
		} else if st >= 0xF8 {
			feat["realtime"] = true
		}
		for j, b := range body {
			if j > 0 && hx.Chance(r, pRT) {
				out = append(out, rtBytes[r.Intn(len(rtBytes))])
				feat["rt_inside"] = true
				feat["realtime"] = true
			}
			out = append(out, b)
		}
		if hx.Chance(r, 0.02) {
			out = append(out, 0xFD)
			feat["FD"] = true
		}
	}
	return out
}

func genGarbage(r *rand.Rand, n int) []byte {
	out := make([]byte, n)
	for i := range out {
		switch k := r.Intn(10); {
		case k < 4:
			out[i] = d7(r)
		case k < 7:
			out[i] = byte(0x80 + r.Intn(0x70))
		case k < 9:
			out[i] = byte(0xF0 + r.Intn(8))
		default:
			out[i] = byte(0xF8 + r.Intn(8))
		}
	}
	return out
}

var dts = []int32{0, 0, 0, 1, 1, 2, 3, 5, 7, 10, 33, 100, 250, 1000, 1001, 60000}

// chunkUp cuts the stream into chunks with inter-arrival times; the session never lasts longer than budget ms.
func chunkUp(r *rand.Rand, stream []byte, budget int64) []RChunk {
	cs := []RChunk{}
	mode := r.Intn(4)
	var total int64
	for i := 0; i < len(stream); {
		n := 1
		switch mode {
		case 1:
			n = 1 + r.Intn(3)
		case 2:
			n = 1 + r.Intn(16)
		case 3:
			n = len(stream)
		}
		if i+n > len(stream) {
			n = len(stream) - i
		}
		dt := dts[r.Intn(len(dts))]
		if hx.Chance(r, 0.1) {
			dt = int32(r.Intn(5000))
		}
		if total+int64(dt) > budget {
			dt = 0
		}
		total += int64(dt)
		cs = append(cs, RChunk{Dt: dt, Bytes: cp(stream[i : i+n])})
		i += n
		if r.Intn(20) == 0 && total+100 <= budget { // a delivery without bytes: nothing arrives, but its time passes
			cs = append(cs, RChunk{Dt: 100, Bytes: hx.B{}})
			total += 100
		}
	}
	return cs
}

var resList = []int{24, 25, 48, 96, 120, 192, 240, 384, 480, 960, 1000, 1920, 3840, 7680, 15359, 15360}
var bpmList = []int{2000, 2001, 6000, 9999, 12000, 12037, 14285, 20000, 33333, 39999, 40000}

const lead = 1000

// directory for the files smf.RecordTo writes (the scratch directory of the run)
var tmpRoot string

func genSession(r *rand.Rand, id int) *RecRec {
	s := &RecRec{ID: id, Lead: lead}
	s.Res = resList[r.Intn(len(resList))]
	if hx.Chance(r, 0.4) {
		s.Res = 24 + r.Intn(15360-24+1)
	}
	s.Bpm100 = bpmList[r.Intn(len(bpmList))]
	if hx.Chance(r, 0.5) {
		s.Bpm100 = 2000 + r.Intn(40000-2000+1)
	}
	// longest session for which every delta still fits an SMF delta time (0FFFFFFF) and TLC's integers:
	// a bound on the generator's own choice of sleeps, re-checked by Recorder!InDomain
	budget := (int64(1)<<28 - 16) * 6000000 / (int64(s.Res) * int64(s.Bpm100))
	if budget > 1<<24-1 {
		budget = 1<<24 - 1
	}
	budget -= lead + 1
	ecap := []int{1024, 4, 8, 16, 64}[r.Intn(5)] // shapes the sysex lengths only (RecordFrom listens with the default buffer)
	feat := map[string]bool{}
	var stream []byte
	switch k := r.Intn(10); {
	case k < 4:
		stream = genWire(r, ecap, 1+r.Intn(30), false, feat)
		feat["wire"] = true
	case k < 7:
		stream = genWire(r, ecap, 1+r.Intn(30), true, feat)
		feat["messy"] = true
	case k < 8:
		stream = genGarbage(r, 1+r.Intn(200))
		feat["garbage"] = true
	default:
		stream = append(genGarbage(r, 1+r.Intn(20)), genWire(r, ecap, 1+r.Intn(20), false, feat)...)
		feat["garbage_prefix"] = true
	}
	s.Chunks = chunkUp(r, stream, budget)
	s.Via, s.Extra, s.Prior = "track", "none", []int{}
	if hx.Chance(r, 0.4) { // an earlier recording in the same process: same tempo and another resolution, or anything
		s.Prior = []int{resList[r.Intn(len(resList))], s.Bpm100}
		if hx.Chance(r, 0.3) {
			s.Prior = []int{s.Res, bpmList[r.Intn(len(bpmList))]}
		}
		feat["prior_recording"] = true
	}
	s.Feat = []string{}
	for f := range feat {
		s.Feat = append(s.Feat, f)
	}
	return s
}

func cmdGen(args []string) {
	fs := flag.NewFlagSet("rec-gen", flag.ExitOnError)
	seed := fs.Int64("seed", 1, "")
	n := fs.Int("n", 100, "")
	out := fs.String("out", "", "")
	nslow := fs.Int("nslow", 0, "sessions through SMF.RecordFrom / smf.RecordTo")
	fs.Parse(args)
	tmpRoot = filepath.Dir(*out)
	r := rand.New(rand.NewSource(*seed))
	w := hx.Create(*out)
	for i := 0; i < *n; i++ {
		s := genSession(r, i)
		recordWatched(s)
		w.Put(s)
	}
	// recordings through the file-level wrappers: their stop functions sleep a second each, so these sessions run concurrently
	slow := make([]*RecRec, *nslow)
	for i := range slow {
		s := genSession(r, *n+i)
		s.Prior = []int{}
		switch i % 7 {
		case 0:
			s.Via = "smf"
		case 6:
			s.Via, s.Extra, s.ExtraAt = "smf", "saved", r.Intn(len(s.Chunks)+1)
		case 1, 2:
			s.Via, s.Extra, s.ExtraAt = "smf", "add", r.Intn(len(s.Chunks)+1)
		case 3, 4:
			s.Via, s.Extra, s.ExtraAt = "smf", "record2", r.Intn(len(s.Chunks)+1)
		default:
			s.Via, s.Res = "file", 960
			if i%14 == 5 {
				s.Extra = "retry"
			}
			var total int64 // resolution changed: keep the session inside the delta domain
			budget := (int64(1)<<28 - 16) * 6000000 / (int64(s.Res) * int64(s.Bpm100))
			for j := range s.Chunks {
				if total+int64(s.Chunks[j].Dt)+lead+1 > budget {
					s.Chunks[j].Dt = 0
				}
				total += int64(s.Chunks[j].Dt)
			}
		}
		s.Feat = append(s.Feat, "via_"+s.Via, "extra_"+s.Extra)
		slow[i] = s
	}
	var wg sync.WaitGroup
	sem := make(chan struct{}, 64)
	for _, s := range slow {
		wg.Add(1)
		sem <- struct{}{}
		go func(s *RecRec) {
			defer wg.Done()
			recordWatched(s)
			<-sem
		}(s)
	}
	wg.Wait()
	for _, s := range slow {
		w.Put(s)
	}
	w.Close()
}

// cmdRerun re-executes recorded sessions (inputs only) and writes fresh records: replay.
func cmdRerun(args []string) {
	fs := flag.NewFlagSet("rec-rerun", flag.ExitOnError)
	in := fs.String("in", "", "")
	out := fs.String("out", "", "")
	fs.Parse(args)
	tmpRoot = filepath.Dir(*out)
	w := hx.Create(*out)
	hx.ReadLines(*in, func(l []byte) {
		var s RecRec
		if err := json.Unmarshal(l, &s); err != nil {
			hx.Die(err)
		}
		if s.Feat == nil {
			s.Feat = []string{}
		}
		if s.Chunks == nil {
			s.Chunks = []RChunk{}
		}
		recordWatched(&s)
		w.Put(&s)
	})
	w.Close()
}

func main() {
	if len(os.Args) >= 2 {
		switch os.Args[1] {
		case "rec-gen":
			cmdGen(os.Args[2:])
			return
		case "rec-rerun":
			cmdRerun(os.Args[2:])
			return
		}
	}
	fmt.Fprintln(os.Stderr, "usage: vh_recorder rec-gen|rec-rerun [flags]")
	os.Exit(3)
}
