// vh_convert drives SMF.ConvertToSMF1 of the real library (C16): it builds single-track files through the
// public API (smf.New, Track.Add, Track.Close, SMF.Add), converts them and records the source as the library
// holds it and everything the conversion returned.  It contains no oracle: spec/Trace_Convert.tla judges.
package main

import (
	"encoding/json"
	"flag"
	"fmt"
	"math/rand"
	"os"
	"reflect"
	"sort"
	"time"

	"gitlab.com/gomidi/midi/v2/smf"

	"verifharness/internal/hx"
)

// Ev is one track event; the delta travels as 16-bit halves (TLC integers are 32 bit).
type Ev struct {
	Hi int  `json:"hi"`
	Lo int  `json:"lo"`
	M  hx.B `json:"m"`
}

type TF struct {
	Kind string `json:"kind"`
	A    int    `json:"a"`
	B    int    `json:"b"`
}

type Rec struct {
	Ev       string   `json:"ev"`
	ID       int      `json:"id"`
	Src      []Ev     `json:"src"` // the only track of the source, as the library holds it before the call
	Div      TF       `json:"div"`
	Sfmt     int      `json:"sfmt"`
	Sntracks int      `json:"sntracks"`
	Dfmt     int      `json:"dfmt"`
	Ddiv     TF       `json:"ddiv"`
	Dtracks  [][]Ev   `json:"dtracks"`
	Pan      string   `json:"pan"`
	Feat     []string `json:"feat"`
	// the result of the PREVIOUS conversion made in this process, looked at again after this one: still what it was?
	// (true when there was none)
	PrevIntact bool `json:"previntact"`
	// the same source value converted a second time: the same result as the first time?
	Again bool `json:"again"`
}

// the previous conversion's result (the value the library returned, retained) and what it looked like then
var prevDest *smf.SMF
var prevTracks [][]Ev

func ev(d uint32, m []byte) Ev {
	return Ev{Hi: int(d >> 16), Lo: int(d & 0xffff), M: append(hx.B{}, m...)}
}
func (e Ev) delta() uint32 { return uint32(e.Hi)<<16 | uint32(e.Lo) }

func tfOf(t smf.TimeFormat) TF {
	switch tf := t.(type) {
	case smf.MetricTicks:
		return TF{"metric", int(uint16(tf)), 0}
	case smf.TimeCode:
		return TF{"smpte", int(tf.FramesPerSecond), int(tf.SubFrames)}
	case nil:
		return TF{"nil", 0, 0}
	default:
		return TF{fmt.Sprintf("%T", tf), 0, 0}
	}
}

func setTF(s *smf.SMF, d TF) {
	if d.Kind == "metric" {
		s.TimeFormat = smf.MetricTicks(d.A)
		return
	}
	switch d.A {
	case 24:
		s.TimeFormat = smf.SMPTE24(uint8(d.B))
	case 25:
		s.TimeFormat = smf.SMPTE25(uint8(d.B))
	case 29:
		s.TimeFormat = smf.SMPTE30DropFrame(uint8(d.B))
	default:
		s.TimeFormat = smf.SMPTE30(uint8(d.B))
	}
}

func track(t smf.Track) []Ev {
	o := []Ev{}
	for _, e := range t {
		o = append(o, ev(e.Delta, e.Message))
	}
	return o
}

// add is one Track.Add call: a delta and one or more messages (the further ones get delta 0).
type add struct {
	d    uint32
	msgs [][]byte
}

// noClose as closeDelta: the source track is never terminated (Track.Add without Track.Close; SMF.Add reports that but
// keeps the track, and the library terminates such tracks on writing)
const noClose = ^uint32(0)

// run builds the file through the public API, converts it and fills the record.
func run(rec *Rec, adds []add, closeDelta uint32, div TF) {
	rec.Ev = "cv"
	rec.Dtracks = [][]Ev{}
	rec.Src = []Ev{}
	var s *smf.SMF
	p := hx.Catch(func() {
		s = smf.New()
		setTF(s, div)
		// the source track is written down as a value of the exported type (Track is []Event), so that it is exactly the
		// intended one whatever Track.Add / Track.Close do (their behaviour is C01's subject, the conversion is C16's)
		var tr smf.Track
		for _, a := range adds {
			for i, m := range a.msgs {
				d := a.d
				if i > 0 {
					d = 0
				}
				tr = append(tr, smf.Event{Delta: d, Message: append([]byte{}, m...)})
			}
		}
		if closeDelta != noClose {
			tr = append(tr, smf.Event{Delta: closeDelta, Message: append([]byte{}, smf.EOT...)})
		}
		s.Add(tr)
	})
	if p != "" {
		hx.Die("building the source panicked:", p)
	}
	rec.Div, rec.Sfmt, rec.Sntracks = tfOf(s.TimeFormat), int(s.Format()), len(s.Tracks)
	if len(s.Tracks) > 0 {
		rec.Src = track(s.Tracks[0])
	}
	type res struct {
		d     smf.SMF
		pan   string
		again bool
	}
	ch := make(chan res, 1)
	go func() {
		var d, d2 smf.SMF
		pan := hx.Catch(func() { d = s.ConvertToSMF1() })
		again := true
		if pan == "" { // converting must not use up or change its source: the same value converted once more
			pan = hx.Catch(func() { d2 = s.ConvertToSMF1() })
			if pan != "" {
				pan = "second conversion of the same value: " + pan
			}
			var t1, t2 [][]Ev
			for _, t := range d.Tracks {
				t1 = append(t1, track(t))
			}
			for _, t := range d2.Tracks {
				t2 = append(t2, track(t))
			}
			again = reflect.DeepEqual(t1, t2) && d.Format() == d2.Format()
		}
		ch <- res{d, pan, again}
	}()
	select {
	case x := <-ch:
		rec.Pan = x.pan
		rec.Again = x.again
		rec.Ddiv = tfOf(nil)
		rec.PrevIntact = true
		if prevDest != nil { // an earlier result must not change because another file was converted
			var now [][]Ev
			for _, t := range prevDest.Tracks {
				now = append(now, track(t))
			}
			rec.PrevIntact = reflect.DeepEqual(now, prevTracks)
		}
		prevDest, prevTracks = nil, nil
		if x.pan == "" {
			rec.Dfmt, rec.Ddiv = int(x.d.Format()), tfOf(x.d.TimeFormat)
			for _, t := range x.d.Tracks {
				rec.Dtracks = append(rec.Dtracks, track(t))
			}
			d := x.d
			prevDest, prevTracks = &d, rec.Dtracks
		}
	case <-time.After(30 * time.Second):
		rec.Pan, rec.Ddiv, rec.PrevIntact, rec.Again = "timeout: ConvertToSMF1 did not return within 30 s", tfOf(nil), true, true
	}
}

// rerun re-executes a record from its own source description.
func rerun(old Rec) Rec {
	n := Rec{ID: old.ID, Feat: old.Feat}
	if n.Feat == nil {
		n.Feat = []string{}
	}
	var adds []add
	body, cd := old.Src, noClose
	if k := len(old.Src); k > 0 && string(old.Src[k-1].M) == string(smf.EOT) {
		body, cd = old.Src[:k-1], old.Src[k-1].delta()
	}
	for _, e := range body {
		adds = append(adds, add{e.delta(), [][]byte{e.M}})
	}
	run(&n, adds, cd, old.Div)
	return n
}

// ---- generators -------------------------------------------------------------------------------------------

// the alphabet of spec/MC_Convert.tla (AlphaFull); inputs only
var alphabet = [][]byte{{144, 60, 100}, {128, 60, 0}, {145, 61, 1}, {178, 7, 100}, {255, 1, 1, 65}, {255, 81, 3, 7, 161, 32}, {240, 1, 247}}

func genSmall(w *hx.Writer, max, part, parts int) {
	id := 0
	var rec func(adds []add)
	rec = func(adds []add) {
		for _, cd := range []uint32{0, 1, noClose} {
			if id%parts == part {
				r := Rec{ID: id, Feat: []string{"small"}}
				run(&r, adds, cd, TF{"metric", 96, 0})
				w.Put(r)
			}
			id++
		}
		if len(adds) == max {
			return
		}
		for _, m := range alphabet {
			for d := uint32(0); d <= 1; d++ {
				rec(append(adds[:len(adds):len(adds)], add{d, [][]byte{m}}))
			}
		}
	}
	rec(nil)
}

func d7(r *rand.Rand) byte { return byte(r.Intn(128)) }

func chanMsg(r *rand.Rand, ch int, narrow bool) []byte {
	kinds := []byte{0x80, 0x90, 0xA0, 0xB0, 0xC0, 0xD0, 0xE0}
	k := kinds[r.Intn(len(kinds))]
	st := k | byte(ch)
	if narrow { // few distinct values: equal messages on one tick become likely
		if k == 0xC0 || k == 0xD0 {
			return []byte{st, byte(r.Intn(2))}
		}
		return []byte{st, byte(60 + r.Intn(2)), byte(r.Intn(2) * 100)}
	}
	if k == 0xC0 || k == 0xD0 {
		return []byte{st, d7(r)}
	}
	return []byte{st, d7(r), d7(r)}
}

func otherMsg(r *rand.Rand, narrow bool) []byte {
	n := r.Intn(5)
	if narrow {
		n = r.Intn(2)
	}
	switch r.Intn(12) {
	case 10: // meta events that NAME a channel or a port but are no channel messages
		return smf.MetaChannel(uint8(r.Intn(16)))
	case 11:
		return smf.MetaPort(uint8(r.Intn(4)))
	case 0, 1, 2: // sysex
		b := []byte{0xF0}
		for i := 0; i < n; i++ {
			b = append(b, d7(r))
		}
		if r.Intn(4) != 0 {
			b = append(b, 0xF7)
		}
		return b
	case 3: // escape
		b := []byte{0xF7}
		for i := 0; i < n; i++ {
			b = append(b, byte(r.Intn(256)))
		}
		return b
	case 4:
		return smf.MetaTempo(float64(60 + r.Intn(4)*30))
	case 5:
		return smf.MetaText(string(rune('a' + r.Intn(3))))
	case 6:
		return smf.MetaMeter(uint8(2+r.Intn(3)), 4)
	default: // any meta type but end-of-track
		typ := byte(r.Intn(128))
		for typ == 0x2F {
			typ = byte(r.Intn(128))
		}
		if narrow {
			typ = byte(1 + r.Intn(3))
		}
		b := []byte{0xFF, typ, byte(n)}
		for i := 0; i < n; i++ {
			b = append(b, byte(r.Intn(256)))
		}
		return b
	}
}

func genRand(w *hx.Writer, n int, seed int64) {
	r := rand.New(rand.NewSource(seed))
	divs := []TF{{"metric", 96, 0}, {"metric", 960, 0}, {"metric", 1, 0}, {"metric", 32767, 0}, {"smpte", 25, 40}, {"smpte", 29, 80}, {"smpte", 24, 4}, {"smpte", 30, 100}}
	for id := 0; id < n; id++ {
		feat := map[string]bool{}
		if id%25 == 24 { // a file longer than 2^32 ticks (the absolute tick does not fit 32 bits): 17..48 gaps of the largest
			// legal delta; every destination track gets an event at least every 8 gaps, so that its deltas stay below 2^32
			nch := 1 + r.Intn(3)
			chans := r.Perm(16)[:nch]
			var evs []add
			ngap := 17 + r.Intn(32)
			for i := 0; i < ngap; i++ {
				var m []byte
				if k := i % (nch + 1); k == nch {
					m = otherMsg(r, true)
				} else {
					m = chanMsg(r, chans[k], true)
				}
				evs = append(evs, add{0x0FFFFFFF - uint32(r.Intn(3)), [][]byte{m}})
				for j := r.Intn(3); j > 0; j-- { // a few more events close by
					evs = append(evs, add{uint32(r.Intn(3)), [][]byte{chanMsg(r, chans[r.Intn(nch)], true)}})
				}
			}
			feat["beyond_2^32_ticks"] = true
			rec := Rec{ID: id}
			run(&rec, evs, uint32(r.Intn(1000)), divs[r.Intn(len(divs))])
			describe(&rec, feat)
			w.Put(rec)
			continue
		}
		var nev int
		switch k := r.Intn(10); {
		case k < 2:
			nev = r.Intn(13)
		case k < 6:
			nev = 13 + r.Intn(60)
		case k < 9:
			nev = 73 + r.Intn(328)
		default:
			nev = 400
		}
		nch := 1 + r.Intn(16)
		if r.Intn(4) == 0 {
			nch = 16
		}
		chans := r.Perm(16)[:nch]
		pOther := []float64{0, 0.1, 0.3, 0.6, 1}[r.Intn(5)]
		narrow := r.Intn(2) == 0
		// tick pattern: probability of a zero delta, size of the gaps, and one forced burst on a single tick
		pZero := []float64{0, 0.5, 0.9, 0.97, 1}[r.Intn(5)]
		gap := []int{2, 10, 1000, 1000000}[r.Intn(4)]
		burstAt, burstLen := -1, 0
		if nev >= 13 && r.Intn(3) != 0 {
			burstLen = 13 + r.Intn(nev-12)
			burstAt = r.Intn(nev - burstLen + 1)
		}
		// up to three huge gaps (each a legal delta below 2^28, together more than 2^28 but the whole file stays below 2^30
		// ticks): the distance between two events of one destination track may exceed what ONE delta of the source held
		huge := map[int]bool{}
		if nev >= 3 && r.Intn(6) == 0 {
			for j := 0; j < 2+r.Intn(2); j++ {
				huge[r.Intn(nev)] = true
			}
			feat["huge_gap"] = true
			if gap > 1000 {
				gap = 1000 // keep the whole file below 2^30 ticks (the domain of the check)
			}
		}
		var evs []add
		for i := 0; i < nev; i++ {
			var d uint32
			if !(i > burstAt && i < burstAt+burstLen) && !hx.Chance(r, pZero) {
				d = uint32(1 + r.Intn(gap))
				if d > 1000 {
					feat["gap"] = true
				}
			}
			if huge[i] {
				d = uint32(200000000 + r.Intn(60000000))
			}
			var m []byte
			if hx.Chance(r, pOther) {
				m = otherMsg(r, narrow)
			} else {
				m = chanMsg(r, chans[r.Intn(nch)], narrow)
			}
			// sometimes several messages in one Add call (delta, 0, 0, ..)
			if len(evs) > 0 && d == 0 && r.Intn(3) == 0 {
				evs[len(evs)-1].msgs = append(evs[len(evs)-1].msgs, m)
				feat["multi_add"] = true
			} else {
				evs = append(evs, add{d, [][]byte{m}})
			}
		}
		var cd uint32
		switch r.Intn(4) {
		case 0:
			cd = 0
		case 1:
			cd = 1
		case 2:
			cd = uint32(r.Intn(1000))
		default:
			cd = uint32(r.Intn(1000001))
			feat["late_eot"] = true
		}
		if r.Intn(8) == 0 { // a source track that was never closed
			cd = noClose
			delete(feat, "late_eot")
			feat["unclosed"] = true
		}
		rec := Rec{ID: id}
		run(&rec, evs, cd, divs[r.Intn(len(divs))])
		describe(&rec, feat)
		w.Put(rec)
	}
}

// describe records plain counts about the SOURCE (coverage bookkeeping only, no judgement).
func describe(rec *Rec, feat map[string]bool) {
	var run, runOther, maxRun, maxOther, nOther int
	chs := map[byte]bool{}
	seen := map[string]bool{}
	for i, e := range rec.Src {
		if i == len(rec.Src)-1 && string(e.M) == string(smf.EOT) {
			break
		}
		if e.Hi != 0 || e.Lo != 0 {
			run, runOther = 0, 0
			seen = map[string]bool{}
		}
		run++
		isCh := len(e.M) > 0 && e.M[0] >= 0x80 && e.M[0] <= 0xEF
		if isCh {
			chs[e.M[0]&0x0F] = true
		} else {
			runOther++
			nOther++
		}
		if seen[string(e.M)] {
			feat["dup_on_tick"] = true
		}
		seen[string(e.M)] = true
		if run > maxRun {
			maxRun = run
		}
		if runOther > maxOther {
			maxOther = runOther
		}
	}
	if maxRun >= 13 {
		feat["tick13"] = true
	}
	if maxOther >= 13 {
		feat["other13_on_tick"] = true
	}
	if nOther >= 13 {
		feat["other13"] = true
	}
	if len(chs) == 16 {
		feat["ch16"] = true
	}
	if len(rec.Src) > 100 {
		feat["n100"] = true
	}
	if nOther == 0 {
		feat["no_other"] = true
	}
	if len(chs) == 0 {
		feat["no_chan"] = true
	}
	rec.Feat = []string{}
	for k := range feat {
		rec.Feat = append(rec.Feat, k)
	}
	sort.Strings(rec.Feat)
}

func main() {
	if len(os.Args) < 2 {
		hx.Die("usage: vh_convert cv-gen|cv-rerun [flags]")
	}
	fs := flag.NewFlagSet(os.Args[1], flag.ExitOnError)
	switch os.Args[1] {
	case "cv-gen":
		mode := fs.String("mode", "rand", "small | rand")
		max := fs.Int("max", 3, "small: longest source (messages)")
		part := fs.Int("part", 0, "small: emit only the sources with id % parts == part")
		parts := fs.Int("parts", 1, "small: number of parts")
		n := fs.Int("n", 100, "rand: number of files")
		seed := fs.Int64("seed", 1, "rand: seed")
		out := fs.String("out", "", "NDJSON output")
		fs.Parse(os.Args[2:])
		w := hx.Create(*out)
		if *mode == "small" {
			genSmall(w, *max, *part, *parts)
		} else {
			genRand(w, *n, *seed)
		}
		w.Close()
	case "cv-rerun":
		in := fs.String("in", "", "NDJSON records to re-execute")
		out := fs.String("out", "", "NDJSON output")
		fs.Parse(os.Args[2:])
		w := hx.Create(*out)
		hx.ReadLines(*in, func(b []byte) {
			var old Rec
			if err := json.Unmarshal(b, &old); err != nil {
				hx.Die(err)
			}
			w.Put(rerun(old))
		})
		w.Close()
	default:
		hx.Die("unknown command", os.Args[1])
	}
}
