// vh_ports: C17 on the in-memory test driver.  walk: every call history up to a bounded length, taken from the state
// graph TLC dumped for spec/MC_Ports.tla, is executed on a fresh real testdrv port pair (binding G); rerun: replay.
package main

import (
	"encoding/json"
	"errors"
	"flag"
	"fmt"
	"os"
	"strings"
	"sync"

	"gitlab.com/gomidi/midi/v2"
	"gitlab.com/gomidi/midi/v2/drivers"
	"gitlab.com/gomidi/midi/v2/drivers/testdrv"

	"verifharness/internal/hx"
	pr "verifharness/internal/portrec"
)

type tdrv struct {
	in   drivers.In
	out  drivers.Out
	stop func()
	nL   int
	got  []pr.Dlv
	// via = "sendto": the out port is used through the convenience wrapper midi.SendTo (which opens the port if it is not
	// open and hands out a send function) instead of out.Open / out.Send -- the same calls as far as the property goes
	via    string
	sendFn func(midi.Message) error
	sysex  bool
}

const viaSendTo = "via=sendto"

// msgs=sysex: message n travels as the system exclusive message F0 n F7 and the listener asks for sysex (UseSysEx) --
// the same history as far as the property goes, through the decoder's sysex path
const msgsSysex = "msgs=sysex"

func newT(note string) *tdrv {
	d := testdrv.New("verifports")
	ins, _ := d.Ins()
	outs, _ := d.Outs()
	t := &tdrv{in: ins[0], out: outs[0]}
	if strings.Contains(note, viaSendTo) {
		t.via = "sendto"
	}
	t.sysex = strings.Contains(note, msgsSysex)
	return t
}

func (t *tdrv) wire(m int) []byte {
	if t.sysex {
		return []byte{0xF0, byte(m), 0xF7}
	}
	return pr.MsgBytes(m)
}

func errStr(err error) string {
	switch {
	case err == nil:
		return "nil"
	case errors.Is(err, drivers.ErrPortClosed):
		return "closed"
	}
	return "err:" + err.Error()
}

func (t *tdrv) Call(fn string, m int, o pr.Opts) string {
	switch fn {
	case "OpenIn":
		return errStr(t.in.Open())
	case "CloseIn":
		return errStr(t.in.Close())
	case "OpenOut":
		if t.via == "sendto" {
			fn, err := midi.SendTo(t.out)
			if err == nil {
				t.sendFn = fn
			}
			return errStr(err)
		}
		return errStr(t.out.Open())
	case "CloseOut":
		return errStr(t.out.Close())
	case "Listen":
		t.nL++
		id := t.nL
		var opts []midi.Option
		if t.sysex {
			opts = append(opts, midi.UseSysEx())
		}
		stop, err := midi.ListenTo(t.in, func(msg midi.Message, ts int32) {
			mid := pr.MsgID(msg)
			if t.sysex && len(msg) == 3 && msg[0] == 0xF0 && msg[2] == 0xF7 {
				mid = int(msg[1])
			}
			t.got = append(t.got, pr.Dlv{L: id, M: mid})
		}, opts...)
		if err == nil {
			t.stop = stop
		}
		return errStr(err)
	case "Stop":
		if t.stop != nil {
			t.stop()
		}
		return "nil"
	case "Send":
		if t.sendFn != nil {
			return errStr(t.sendFn(midi.Message(t.wire(m))))
		}
		return errStr(t.out.Send(t.wire(m)))
	}
	hx.Die("unknown call", fn)
	return ""
}

func (t *tdrv) Par(msgs [][]int) []string { // the in-memory driver is single-threaded by contract: run the queues in turn
	var r []string
	if len(msgs) == 2 && len(msgs[1]) == 1 && msgs[1][0] == -1 { // BurstStop marker
		ret := "nil"
		for _, m := range msgs[0] {
			ret = t.Call("Send", m, pr.Opts{})
		}
		t.Call("Stop", 0, pr.Opts{})
		return []string{ret}
	}
	for _, q := range msgs {
		for _, m := range q {
			r = append(r, t.Call("Send", m, pr.Opts{}))
		}
	}
	return r
}

func (t *tdrv) Deliveries() []pr.Dlv { g := t.got; t.got = nil; return g }
func (t *tdrv) Teardown() string     { return "" }

type Graph struct {
	Inits []string                          `json:"inits"`
	Nodes map[string]map[string]interface{} `json:"nodes"`
	Edges map[string][][]interface{}        `json:"edges"`
}

func cmdWalk(args []string) {
	fs := flag.NewFlagSet("walk", flag.ExitOnError)
	gp := fs.String("graph", "", "")
	depth := fs.Int("depth", 7, "")
	out := fs.String("out", "", "")
	fs.Parse(args)
	var g Graph
	d, err := os.ReadFile(*gp)
	if err != nil {
		hx.Die(err)
	}
	if err := json.Unmarshal(d, &g); err != nil {
		hx.Die(err)
	}
	type edge struct {
		fn  string
		m   int
		to  string
		ret string
		dlv []pr.Dlv
	}
	edges := map[string][]edge{}
	for from, es := range g.Edges {
		for _, e := range es {
			to := e[2].(string)
			ns := g.Nodes[to]
			ed := edge{to: to, ret: ns["ret"].(string)}
			if e[0].(string) == "Send" {
				ed.fn, ed.m = "Send", int(ns["n"].(float64))
			} else {
				ed.fn = e[1].([]interface{})[0].(string)
			}
			for _, x := range ns["dlv"].([]interface{}) {
				mm := x.(map[string]interface{})
				ed.dlv = append(ed.dlv, pr.Dlv{L: int(mm["l"].(float64)), M: int(mm["m"].(float64))})
			}
			edges[from] = append(edges[from], ed)
		}
	}
	var mu sync.Mutex
	var paths, steps, withDelivery int64
	var bad []pr.History
	var wg sync.WaitGroup
	sem := make(chan struct{}, 16)
	// the first two levels are fanned out over goroutines, the rest is a DFS; every maximal path is executed once
	var rec func(node string, path []edge, d int, run func([]edge))
	rec = func(node string, path []edge, d int, run func([]edge)) {
		if d == *depth {
			run(path)
			return
		}
		for _, e := range edges[node] {
			rec(e.to, append(path, e), d+1, run)
		}
	}
	runPath := func(path []edge) {
		h := pr.History{Kind: "testdrv", Events: []string{}}
		sum := 0
		for _, e := range path {
			h.Steps = append(h.Steps, pr.Step{Fn: e.fn, M: e.m})
			sum = sum*31 + len(e.fn) + e.m
		}
		if sum%2 == 1 { // every other history drives the out port through midi.SendTo
			h.Note = viaSendTo
		}
		if (sum/2)%2 == 1 { // ... and every other one sends its messages as sysex to a listener that asks for sysex
			h.Note += ";" + msgsSysex
		}
		t := newT(h.Note)
		okp := pr.Run(t, &h)
		var lsteps int64
		mism := !okp
		for i, st := range h.Steps {
			lsteps++
			e := path[i]
			if st.Pan != "" || st.Timeout || st.Ret != e.ret || len(st.Dlv) != len(e.dlv) {
				mism = true
			} else {
				for j := range st.Dlv {
					if st.Dlv[j] != e.dlv[j] {
						mism = true
					}
				}
			}
			if mism {
				h.Steps = h.Steps[:i+1]
				break
			}
		}
		dl := false
		for _, st := range h.Steps {
			if len(st.Dlv) > 0 {
				dl = true
			}
		}
		mu.Lock()
		paths++
		if dl {
			withDelivery++
		}
		steps += lsteps
		if mism && len(bad) < 30 {
			h.ID = int(paths)
			bad = append(bad, h)
		}
		mu.Unlock()
	}
	for _, i0 := range g.Inits {
		for _, e1 := range edges[i0] {
			for _, e2 := range edges[e1.to] {
				e1, e2 := e1, e2
				wg.Add(1)
				sem <- struct{}{}
				go func() {
					defer wg.Done()
					defer func() { <-sem }()
					rec(e2.to, []edge{e1, e2}, 2, runPath)
				}()
			}
		}
	}
	wg.Wait()
	// shortest failing histories first
	res := map[string]interface{}{"paths": paths, "with_delivery": withDelivery, "steps": steps, "depth": *depth, "bad": bad, "nodes": len(g.Nodes)}
	if bad == nil {
		res["bad"] = []pr.History{}
	}
	b, _ := json.Marshal(res)
	os.WriteFile(*out, b, 0o644)
}

func cmdRerun(args []string) {
	fs := flag.NewFlagSet("rerun", flag.ExitOnError)
	in := fs.String("in", "", "")
	out := fs.String("out", "", "")
	fs.Parse(args)
	w := hx.Create(*out)
	hx.ReadLines(*in, func(l []byte) {
		var h pr.History
		if err := json.Unmarshal(l, &h); err != nil {
			hx.Die(err)
		}
		pr.Run(newT(h.Note), &h)
		w.Put(&h)
	})
	w.Close()
}

func main() {
	cmds := map[string]func([]string){"walk": cmdWalk, "rerun": cmdRerun}
	if len(os.Args) < 2 || cmds[os.Args[1]] == nil {
		fmt.Fprintln(os.Stderr, "usage: vh_ports walk|rerun [flags]")
		os.Exit(3)
	}
	cmds[os.Args[1]](os.Args[2:])
}
