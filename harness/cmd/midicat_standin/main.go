// midicat_standin: a stand-in for the external `midicat` helper binary that the process-backed driver
// (drivers/midicatdrv) spawns.  `midicat out` forwards every line it reads on stdin as one datagram to the unix
// datagram socket $VERIF_SOCK and appends 'S' (accepted by a bound `midicat in`) or 'F' (nobody there: dropped, like a
// MIDI cable with no listener) to $VERIF_ACK; `midicat in` binds $VERIF_SOCK and prints every datagram as a line.
// Together they are a loopback through two real child processes.
package main

import (
	"bufio"
	"fmt"
	"net"
	"os"
	"strings"
)

func main() {
	args := strings.Join(os.Args[1:], " ")
	sock, ack := os.Getenv("VERIF_SOCK"), os.Getenv("VERIF_ACK")
	switch {
	case strings.HasPrefix(args, "version"):
		fmt.Print("0.6.8")
	case strings.HasPrefix(args, "ins"):
		fmt.Print(`{"0":"verif-in"}`)
	case strings.HasPrefix(args, "outs"):
		fmt.Print(`{"0":"verif-out"}`)
	case strings.HasPrefix(args, "in"):
		os.Remove(sock)
		c, err := net.ListenUnixgram("unixgram", &net.UnixAddr{Name: sock, Net: "unixgram"})
		if err != nil {
			fmt.Fprintln(os.Stderr, "standin in:", err)
			os.Exit(1)
		}
		buf := make([]byte, 65536)
		w := bufio.NewWriter(os.Stdout)
		for {
			n, _, err := c.ReadFromUnix(buf)
			if err != nil {
				os.Exit(0)
			}
			line := string(buf[:n])
			if strings.HasPrefix(line, "PING") {
				continue
			}
			w.WriteString(line)
			w.Flush()
		}
	case strings.HasPrefix(args, "out"):
		f, err := os.OpenFile(ack, os.O_APPEND|os.O_WRONLY|os.O_CREATE, 0o644)
		if err != nil {
			os.Exit(1)
		}
		rd := bufio.NewReaderSize(os.Stdin, 1<<20)
		for {
			line, err := rd.ReadString('\n')
			if err != nil {
				os.Exit(0)
			}
			if lf := os.Getenv("VERIF_LINES"); lf != "" { // what the driver's out port really wrote, verbatim
				if g, err := os.OpenFile(lf, os.O_APPEND|os.O_WRONLY|os.O_CREATE, 0o644); err == nil {
					g.WriteString(line)
					g.Close()
				}
			}
			res := "F"
			if c, err := net.DialUnix("unixgram", nil, &net.UnixAddr{Name: sock, Net: "unixgram"}); err == nil {
				if _, err := c.Write([]byte(line)); err == nil {
					res = "S"
				}
				c.Close()
			}
			f.WriteString(res)
		}
	default:
		os.Exit(2)
	}
}
