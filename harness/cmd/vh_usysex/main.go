// vh_usysex drives the universal system exclusive helpers of the real library (v2/sysex real time and non real time
// helpers, v2/mmc builders, midi.SysEx / GetSysEx, gm.Reset / gm.GMProgram, the gm percussion keys) for extension X04
// and records helper name, arguments and the returned bytes as NDJSON for TLC (spec/Trace_UniversalSysex.tla).
// It contains no oracle: it calls, records (bytes / panic) and writes.
//
//	vh_usysex usysex-gen   -seed S -n N [-full] -out file    boundary products + N seeded random calls per helper
//	vh_usysex usysex-rerun -in file -out file                re-executes the inputs of recorded lines
package main

import (
	"encoding/json"
	"flag"
	"fmt"
	"math/rand"
	"os"

	"gitlab.com/gomidi/midi/v2"
	"gitlab.com/gomidi/midi/v2/gm"
	"gitlab.com/gomidi/midi/v2/mmc"
	"gitlab.com/gomidi/midi/v2/smf"
	"gitlab.com/gomidi/midi/v2/sysex"

	"verifharness/internal/hx"
)

type Rec struct {
	ID int    `json:"id"`
	H  string `json:"h"`
	// inputs
	A    []int `json:"a"`
	Data hx.B  `json:"data"`
	// what the real code did
	Kind   string   `json:"kind"` // "ok" | "panic"
	Msg    string   `json:"msg"`
	Bytes  hx.B     `json:"bytes"`
	Msgs   []hx.B   `json:"msgs"`
	GOk    bool     `json:"gok"`
	GData  hx.B     `json:"gdata"`
	SGOk   bool     `json:"sgok"`
	SGData hx.B     `json:"sgdata"`
	PKind  string   `json:"pkind"`
	PChan  int      `json:"pchan"`
	Names  []string `json:"names"`
	Vals   []int    `json:"vals"`
	Feat   []string `json:"feat"`
	// what the helper returned, as returned: copied into Bytes / Msgs only when the records are written, after ALL calls of the
	// run (a program builds several messages before it sends any of them: an earlier result must survive later calls)
	heldBt   []byte
	heldMsgs []midi.Message
}

func (r *Rec) finish() {
	if r.Kind == "ok" {
		r.Bytes = cp(r.heldBt)
		r.Msgs = []hx.B{}
		for _, m := range r.heldMsgs {
			r.Msgs = append(r.Msgs, cp(m))
		}
	}
	r.heldBt, r.heldMsgs = nil, nil
}

func cp(b []byte) hx.B { return append(hx.B{}, b...) }

// the DrumKey constants of package gm by name (a listing of identifiers, no values)
var drumKeys = []struct {
	name string
	k    gm.DrumKey
}{
	{"AcousticBassDrum", gm.DrumKey_AcousticBassDrum}, {"BassDrum1", gm.DrumKey_BassDrum1}, {"SideStick", gm.DrumKey_SideStick},
	{"AcousticSnare", gm.DrumKey_AcousticSnare}, {"HandClap", gm.DrumKey_HandClap}, {"ElectricSnare", gm.DrumKey_ElectricSnare},
	{"LowFloorTom", gm.DrumKey_LowFloorTom}, {"ClosedHiHat", gm.DrumKey_ClosedHiHat}, {"HighFloorTom", gm.DrumKey_HighFloorTom},
	{"PedalHiHat", gm.DrumKey_PedalHiHat}, {"LowTom", gm.DrumKey_LowTom}, {"OpenHiHat", gm.DrumKey_OpenHiHat},
	{"LowMidTom", gm.DrumKey_LowMidTom}, {"HiMidTom", gm.DrumKey_HiMidTom}, {"CrashCymbal1", gm.DrumKey_CrashCymbal1},
	{"HighTom", gm.DrumKey_HighTom}, {"RideCymbal1", gm.DrumKey_RideCymbal1}, {"ChineseCymbal", gm.DrumKey_ChineseCymbal},
	{"RideBell", gm.DrumKey_RideBell}, {"Tambourine", gm.DrumKey_Tambourine}, {"SplashCymbal", gm.DrumKey_SplashCymbal},
	{"Cowbell", gm.DrumKey_Cowbell}, {"CrashCymbal2", gm.DrumKey_CrashCymbal2}, {"Vibraslap", gm.DrumKey_Vibraslap},
	{"RideCymbal2", gm.DrumKey_RideCymbal2}, {"HiBongo", gm.DrumKey_HiBongo}, {"LowBongo", gm.DrumKey_LowBongo},
	{"MuteHiConga", gm.DrumKey_MuteHiConga}, {"OpenHiConga", gm.DrumKey_OpenHiConga}, {"LowConga", gm.DrumKey_LowConga},
	{"HighTimbale", gm.DrumKey_HighTimbale}, {"LowTimbale", gm.DrumKey_LowTimbale}, {"HighAgogo", gm.DrumKey_HighAgogo},
	{"LowAgogo", gm.DrumKey_LowAgogo}, {"Cabasa", gm.DrumKey_Cabasa}, {"Maracas", gm.DrumKey_Maracas},
	{"ShortWhistle", gm.DrumKey_ShortWhistle}, {"LongWhistle", gm.DrumKey_LongWhistle}, {"ShortGuiro", gm.DrumKey_ShortGuiro},
	{"LongGuiro", gm.DrumKey_LongGuiro}, {"Claves", gm.DrumKey_Claves}, {"HiWoodBlock", gm.DrumKey_HiWoodBlock},
	{"LowWoodBlock", gm.DrumKey_LowWoodBlock}, {"MuteCuica", gm.DrumKey_MuteCuica}, {"OpenCuica", gm.DrumKey_OpenCuica},
	{"MuteTriangle", gm.DrumKey_MuteTriangle}, {"OpenTriangle", gm.DrumKey_OpenTriangle},
}

var arity = map[string]int{"rt.generic": 3, "nrt.generic": 3, "mmc.message": 3, "rt.mastervolume": 2, "nrt.gmsystem": 2,
	"gm.reset": 2, "gm.gmprogram": 2, "nrt.identityrequest": 1, "mmc.identity": 1, "nrt.identityreply": 10, "mmc.goto": 6,
	"midi.sysex": 0, "gm.drumkeys": 0}

// ---- real-library calls --------------------------------------------------------------------------------

func execute(r *Rec) {
	// reset everything that is an output
	r.Kind, r.Msg, r.Bytes, r.Msgs = "ok", "", hx.B{}, []hx.B{}
	r.GOk, r.GData, r.SGOk, r.SGData = false, hx.B{}, false, hx.B{}
	r.PKind, r.PChan, r.Names, r.Vals = "", 0, []string{}, []int{}
	if r.A == nil {
		r.A = []int{}
	}
	if r.Data == nil {
		r.Data = hx.B{}
	}
	if r.Feat == nil {
		r.Feat = []string{}
	}
	n, known := arity[r.H]
	if !known || len(r.A) != n {
		hx.Die("bad record", r.H, r.A)
	}
	a := r.A
	by := func(i int) byte { return byte(a[i]) }
	var bt []byte
	var msgs []midi.Message
	p := hx.Catch(func() {
		switch r.H {
		case "rt.generic":
			bt = sysex.Realtime{Channel: by(0), SubID1: by(1), SubID2: by(2)}.SysEx()
		case "nrt.generic":
			bt = sysex.NonRealtime{Channel: by(0), SubID1: by(1), SubID2: by(2)}.SysEx()
		case "rt.mastervolume":
			bt = sysex.MasterVolume(by(0), uint16(a[1]))
		case "nrt.gmsystem":
			bt = sysex.GMSystem(by(0), a[1] == 1)
		case "nrt.identityrequest":
			bt = sysex.IdentityRequest(by(0))
		case "nrt.identityreply":
			bt = sysex.IdentityReply(by(0), sysex.ManufacturerID(by(1)), [2]byte{by(2), by(3)}, [2]byte{by(4), by(5)},
				[4]byte{by(6), by(7), by(8), by(9)})
		case "mmc.message":
			m := mmc.Message{DeviceID: by(0), Command: mmc.Command(by(1)), IsResponse: a[2] == 1}
			if len(r.Data) > 0 {
				m.Data = append([]byte(nil), r.Data...)
			}
			bt = m.SysEx()
		case "mmc.goto":
			bt = mmc.GoTo{DeviceID: by(0), Hour: by(1), Minute: by(2), Second: by(3), Frame: by(4), SubFrame: by(5)}.SysEx()
		case "mmc.identity":
			bt = mmc.Identity{Channel: by(0)}.SysEx()
		case "midi.sysex":
			m := midi.SysEx(append([]byte(nil), r.Data...))
			bt = append([]byte(nil), m...)
			var g, sg []byte
			r.GOk = m.GetSysEx(&g)
			r.SGOk = smf.Message(m).GetSysEx(&sg)
			r.GData, r.SGData = cp(g), cp(sg)
		case "gm.reset":
			msgs = gm.Reset(by(0), by(1))
		case "gm.gmprogram":
			msgs = gm.GMProgram(by(0), by(1))
		case "gm.drumkeys":
			for _, d := range drumKeys {
				r.Names = append(r.Names, d.name)
				r.Vals = append(r.Vals, int(d.k.Key()))
			}
		}
	})
	if p != "" {
		r.Kind, r.Msg = "panic", p
		return
	}
	r.heldBt, r.heldMsgs = bt, msgs
	if r.H == "mmc.goto" { // a fresh mmc.GoTo parsing the built bytes
		g := mmc.GoTo{DeviceID: by(0) ^ 0x55, Hour: 0x55, Minute: 0x55, Second: 0x55, Frame: 0x55, SubFrame: 0x55}
		var err error
		pp := hx.Catch(func() { err = g.Parse(append([]byte(nil), bt...)) })
		switch {
		case pp != "":
			r.PKind, r.Msg = "panic", pp
		case err != nil:
			r.PKind, r.Msg = "error", err.Error()
		default:
			r.PKind, r.Vals = "ok", []int{int(g.DeviceID), int(g.Hour), int(g.Minute), int(g.Second), int(g.Frame), int(g.SubFrame)}
		}
	}
	if r.H == "mmc.identity" {
		var g mmc.Identity
		g.Channel = by(0) ^ 0x55 // a fresh value that does not already hold the answer
		var err error
		pp := hx.Catch(func() { err = g.Parse(append([]byte(nil), bt...)) })
		switch {
		case pp != "":
			r.PKind, r.Msg = "panic", pp
		case err != nil:
			r.PKind, r.Msg = "error", err.Error()
		default:
			r.PKind, r.PChan = "ok", int(g.Channel)
		}
	}
}

// ---- generator -------------------------------------------------------------------------------------------

var edge8 = []int{0, 1, 2, 63, 64, 126, 127, 128, 129, 200, 254, 255}
var edge16 = []int{0, 1, 127, 128, 129, 255, 256, 8191, 8192, 16383, 16384, 16385, 32767, 32768, 65535}

// b8: a byte argument; one in four outside 0..127, edge-biased
func b8(r *rand.Rand) int {
	switch r.Intn(8) {
	case 0:
		return edge8[r.Intn(len(edge8))]
	case 1, 2:
		return 128 + r.Intn(128)
	}
	return r.Intn(128)
}

func b7(r *rand.Rand) int { return r.Intn(128) }

func feats(h string, a []int, data []byte) []string {
	f := []string{}
	oor := false
	for i, x := range a {
		if x > 127 && !(h == "rt.mastervolume" && i == 1) {
			oor = true
		}
	}
	if h == "rt.mastervolume" && a[1] > 16383 {
		oor = true
	}
	for _, x := range data {
		if x > 127 {
			oor = true
		}
	}
	if oor {
		f = append(f, "out_of_range")
	} else {
		f = append(f, "in_range")
	}
	if len(a) > 0 && a[0] == 127 && h != "midi.sysex" && h[:2] != "gm" {
		f = append(f, "all_devices")
	}
	return f
}

func gen(args []string) {
	fs := flag.NewFlagSet("gen", flag.ExitOnError)
	seed := fs.Int64("seed", 1, "")
	n := fs.Int("n", 300, "random calls per helper (after the boundary products)")
	full := fs.Bool("full", false, "exhaustive tables where feasible (all 256 x 256 device / command pairs, ...)")
	out := fs.String("out", "", "")
	fs.Parse(args)
	r := rand.New(rand.NewSource(*seed))
	var recs []*Rec
	add := func(h string, a []int, data []byte, bound bool) {
		x := &Rec{ID: len(recs), H: h, A: a, Data: cp(data)}
		x.Feat = feats(h, a, data)
		if bound {
			x.Feat = append(x.Feat, "boundary")
		}
		recs = append(recs, x)
	}
	// ---- boundary tables (the same for every seed)
	for _, h := range []string{"rt.generic", "nrt.generic"} {
		for _, c := range edge8 {
			for _, s1 := range edge8 {
				for _, s2 := range edge8 {
					add(h, []int{c, s1, s2}, nil, true)
				}
			}
		}
	}
	for c := 0; c < 256; c++ {
		add("nrt.gmsystem", []int{c, 1}, nil, true)
		add("nrt.gmsystem", []int{c, 0}, nil, true)
		add("nrt.identityrequest", []int{c}, nil, true)
		add("mmc.identity", []int{c}, nil, true)
	}
	for _, c := range edge8 {
		for _, v := range edge16 {
			add("rt.mastervolume", []int{c, v}, nil, true)
		}
	}
	if *full {
		for c := 0; c < 128; c += 9 {
			for v := 0; v < 65536; v += 61 {
				add("rt.mastervolume", []int{c, v}, nil, true)
			}
		}
	}
	for _, c := range edge8 { // identity reply: all nine equal, a ramp, one argument at a time at an edge
		for _, y := range edge8 {
			add("nrt.identityreply", []int{c, y, y, y, y, y, y, y, y, y}, nil, true)
		}
		add("nrt.identityreply", []int{c, 1, 2, 3, 4, 5, 6, 7, 8, 9}, nil, true)
	}
	for j := 1; j <= 9; j++ {
		for _, y := range edge8 {
			a := []int{0x10, 0x41, 11, 12, 13, 14, 15, 16, 17, 18}
			a[j] = y
			add("nrt.identityreply", a, nil, true)
		}
	}
	devs := edge8
	if *full {
		devs = make([]int, 256)
		for i := range devs {
			devs[i] = i
		}
	}
	for _, d := range devs { // mmc.Message: every command byte
		for c := 0; c < 256; c++ {
			add("mmc.message", []int{d, c, 0}, nil, true)
		}
	}
	for _, d := range []int{0, 1, 127, 200} {
		for c := 0; c < 256; c += 5 {
			add("mmc.message", []int{d, c, 1}, nil, true)
			add("mmc.message", []int{d, c, 0}, []byte{6, 1, 0, 59, 59, 29, 0}, true)
			add("mmc.message", []int{d, c, 1}, []byte{1, 200}, true)
		}
	}
	tb := []int{0, 1, 59, 127, 128, 255}
	for _, d := range []int{0, 1, 16, 127, 128, 255} { // locate: devices x boundary time codes
		for i := 0; i < 6*6*6*6*6; i++ {
			if !*full && i%13 != 0 {
				continue
			}
			add("mmc.goto", []int{d, tb[i%6], tb[(i/6)%6], tb[(i/36)%6], tb[(i/216)%6], tb[(i/1296)%6]}, nil, true)
		}
	}
	for _, ln := range []int{0, 1, 2, 3, 4, 127, 128, 129, 255, 256, 257, 1000} { // midi.SysEx payloads
		for _, c := range []byte{0, 1, 0x7E, 0x7F} {
			d := make([]byte, ln)
			for i := range d {
				d[i] = c
			}
			add("midi.sysex", []int{}, d, true)
		}
	}
	for _, d := range [][]byte{{0x80}, {0xF7}, {0xF0}, {0xFF}, {1, 0xF7, 2}, {0xF0, 1, 0xF7}, {0x7E, 0x7F, 0x09, 0x01}, {0x7F, 0x7F, 0x04, 0x01, 0x00, 0x40}} {
		add("midi.sysex", []int{}, d, true)
	}
	for _, h := range []string{"gm.reset", "gm.gmprogram"} {
		for ch := 0; ch < 256; ch++ {
			if ch > 20 && ch < 250 && ch != 127 && ch != 128 && !*full {
				continue
			}
			for _, p := range edge8 {
				add(h, []int{ch, p}, nil, true)
			}
		}
		for ch := 0; ch < 16; ch++ {
			for p := 0; p < 128; p++ {
				if !*full && (p+ch)%4 != 0 {
					continue
				}
				add(h, []int{ch, p}, nil, true)
			}
		}
	}
	add("gm.drumkeys", []int{}, nil, true)
	// ---- seeded random calls
	for i := 0; i < *n; i++ {
		add("rt.generic", []int{b8(r), b8(r), b8(r)}, nil, false)
		add("nrt.generic", []int{b8(r), b8(r), b8(r)}, nil, false)
		v := r.Intn(16384)
		switch r.Intn(6) {
		case 0:
			v = edge16[r.Intn(len(edge16))]
		case 1:
			v = r.Intn(65536)
		}
		add("rt.mastervolume", []int{b8(r), v}, nil, false)
		a := make([]int, 10)
		if r.Intn(2) == 0 { // all arguments legal
			for j := range a {
				a[j] = b7(r)
			}
		} else {
			for j := range a {
				a[j] = b8(r)
			}
		}
		add("nrt.identityreply", a, nil, false)
		var data []byte
		if r.Intn(3) == 0 {
			data = make([]byte, 1+r.Intn(8))
			for j := range data {
				data[j] = byte(b8(r))
			}
		}
		add("mmc.message", []int{b8(r), b8(r), r.Intn(2)}, data, false)
		add("mmc.goto", []int{b8(r), b8(r), b8(r), b8(r), b8(r), b8(r)}, nil, false)
		ln := 1 + r.Intn(40)
		if r.Intn(8) == 0 {
			ln = 1 + r.Intn(1500)
		}
		pay := make([]byte, ln)
		clean := r.Intn(5) != 0
		for j := range pay {
			if clean {
				pay[j] = byte(b7(r))
			} else {
				pay[j] = byte(b8(r))
			}
		}
		add("midi.sysex", []int{}, pay, false)
		add("gm.reset", []int{b8(r) % 32, b8(r)}, nil, false)
		add("gm.gmprogram", []int{b8(r) % 32, b8(r)}, nil, false)
	}
	for _, x := range recs {
		execute(x)
	}
	write(*out, recs)
}

func write(path string, recs []*Rec) {
	w := hx.Create(path)
	for _, r := range recs {
		r.finish()
		w.Put(r)
	}
	w.Close()
}

func rerun(args []string) {
	fs := flag.NewFlagSet("rerun", flag.ExitOnError)
	in := fs.String("in", "", "")
	out := fs.String("out", "", "")
	fs.Parse(args)
	var recs []*Rec
	hx.ReadLines(*in, func(line []byte) {
		var r Rec
		if err := json.Unmarshal(line, &r); err != nil {
			hx.Die(err)
		}
		recs = append(recs, &r)
	})
	for _, x := range recs {
		execute(x)
	}
	write(*out, recs)
}

func main() {
	if len(os.Args) >= 2 {
		switch os.Args[1] {
		case "usysex-gen":
			gen(os.Args[2:])
			return
		case "usysex-rerun":
			rerun(os.Args[2:])
			return
		}
	}
	fmt.Fprintln(os.Stderr, "usage: vh_usysex usysex-gen|usysex-rerun [flags]")
	os.Exit(3)
}
