// vh_player is the harness of C12 (playback): it builds multi-track SMF files through the public API, reads
// them with smf.ReadTracksFrom, plays them with TracksReader.MultiPlay / Play to recording fakes implementing
// drivers.Out, and writes one NDJSON record per play.  It contains NO playback oracle: the record holds what
// the library itself reports about the file (every event of every track with the AbsMicroSeconds that
// TracksReader.Do computes -- that those follow the tempo map is property C11), the selection, the port map
// and the observed sends (port id, bytes, microseconds since just before the call).  Which track a send came
// from is not recorded (it is not observable at the ports); TLC infers it (spec/Trace_Player.tla).
package main

import (
	"bytes"
	"encoding/json"
	"flag"
	"fmt"
	"math/rand"
	"os"
	"sync"
	"time"

	"gitlab.com/gomidi/midi/v2"
	"gitlab.com/gomidi/midi/v2/drivers"
	"gitlab.com/gomidi/midi/v2/smf"

	"verifharness/internal/hx"
)

type Ev struct {
	Us int64 `json:"us"`
	M  hx.B  `json:"m"`
}

type PortKV struct {
	Tr   int `json:"tr"`
	Port int `json:"port"`
}

type Send struct {
	Port int   `json:"port"`
	M    hx.B  `json:"m"`
	At   int64 `json:"at"`
}

type PlayRec struct {
	Ev      string   `json:"ev"`
	ID      int      `json:"id"`
	Mode    string   `json:"mode"` // multi | play
	File    hx.B     `json:"file"` // the SMF bytes (enough to re-execute the play alone)
	Sel     []int    `json:"sel"`
	Ports   []PortKV `json:"ports"`
	Prior   []PortKV `json:"prior"`  // a port map the SAME TracksReader was played with before the judged play ([] = fresh reader)
	Tracks  [][]Ev   `json:"tracks"` // as read back by the library, all tracks
	Sends   []Send   `json:"sends"`
	Rerr    string   `json:"rerr"`    // reader error ("" = none)
	Err     string   `json:"err"`     // error returned by Play/MultiPlay ("" = nil)
	Panic   string   `json:"panic"`   // panic text
	Timeout bool     `json:"timeout"` // watchdog fired
	DurUs   int64    `json:"dur_us"`
	Feat    []string `json:"feat"`
	Big     bool     `json:"big"`    // a large play of a file whose events all carry different bytes: judged with the claims below (spec/Trace_PlayerBig.tla)
	Claims  [][]int  `json:"claims"` // big plays: per send, the event with these bytes [track, index] (1-based; [0, 0] = the file has no such event)
}

// ---- recording fake port -------------------------------------------------------------------------------

type playLog struct {
	mu    sync.Mutex
	t0    time.Time
	sends []Send
}

type fakeOut struct {
	id   int
	log  *playLog
	open bool
	fail bool // every Send fails with drivers.ErrPortClosed (ports 90.. of a PRIOR play)
}

func (f *fakeOut) Open() error             { f.open = true; return nil }
func (f *fakeOut) Close() error            { f.open = false; return nil }
func (f *fakeOut) IsOpen() bool            { return f.open }
func (f *fakeOut) Number() int             { return f.id }
func (f *fakeOut) String() string          { return fmt.Sprintf("fake-%d", f.id) }
func (f *fakeOut) Underlying() interface{} { return nil }
func (f *fakeOut) Send(b []byte) error {
	if f.fail {
		return drivers.ErrPortClosed
	}
	at := time.Since(f.log.t0).Microseconds() // truncated: never later than the real instant
	if at > 1<<30 {
		at = 1 << 30
	}
	f.log.mu.Lock()
	f.log.sends = append(f.log.sends, Send{Port: f.id, M: append(hx.B{}, b...), At: at})
	f.log.mu.Unlock()
	return nil
}

var _ drivers.Out = (*fakeOut)(nil)

// ---- one play -------------------------------------------------------------------------------------------

func runPlay(rec *PlayRec) {
	rec.Ev = "play"
	rec.Tracks, rec.Sends, rec.Claims = [][]Ev{}, []Send{}, [][]int{}
	rec.Rerr, rec.Err, rec.Panic, rec.Timeout = "", "", "", false

	// what the library says the file contains: every track, every event, with its scheduled time
	all := smf.ReadTracksFrom(bytes.NewReader(rec.File))
	if all.Error() != nil {
		rec.Rerr = all.Error().Error()
		return
	}
	n := len(all.SMF().Tracks)
	rec.Tracks = make([][]Ev, n)
	for i := range rec.Tracks {
		rec.Tracks[i] = []Ev{}
	}
	p := hx.Catch(func() {
		// the scheduled time of an event is the time of its tick by the file's tempo map: SMF.TimeAt of a SEPARATE read of the
		// file (C11 is the property that TimeAt is the tempo map's integral); the ticks come from the track iterator
		ref, rerr := smf.ReadFrom(bytes.NewReader(rec.File))
		if rerr != nil {
			hx.Die("second read of the file failed", rerr)
		}
		all.Do(func(te smf.TrackEvent) {
			us := ref.TimeAt(te.AbsTicks)
			if us < 0 || us > 1<<30 {
				// out of range (only a broken tempo lookup gets here): carried as 2^30, later than any send
				us = 1 << 30
			}
			rec.Tracks[te.TrackNo] = append(rec.Tracks[te.TrackNo], Ev{Us: us, M: append(hx.B{}, te.Message...)})
		})
	})
	if p != "" {
		rec.Panic = "Do: " + p
		return
	}

	rd := smf.ReadTracksFrom(bytes.NewReader(rec.File), rec.Sel...)
	if rd.Error() != nil {
		rec.Rerr = rd.Error().Error()
		return
	}
	if rec.Prior == nil {
		rec.Prior = []PortKV{}
	}
	if len(rec.Prior) > 0 { // an earlier play of the same reader with another map: nothing of it may leak into the judged play
		plog := &playLog{t0: time.Now()}
		pouts := map[int]drivers.Out{}
		for _, kv := range rec.Prior {
			pouts[kv.Tr] = &fakeOut{id: kv.Port, log: plog, open: true, fail: kv.Port >= 90} // (an earlier play whose sends FAILED must not matter either)
		}
		if pp := hx.Catch(func() { rd.MultiPlay(pouts) }); pp != "" {
			rec.Panic = "prior play: " + pp
			return
		}
	}
	lg := &playLog{}
	outs := map[int]drivers.Out{}
	var single *fakeOut
	for _, kv := range rec.Ports {
		o := &fakeOut{id: kv.Port, log: lg, open: true}
		outs[kv.Tr] = o
		if single == nil {
			single = o
		}
	}
	done := make(chan struct{})
	go func() {
		defer close(done)
		var err error
		lg.t0 = time.Now() // immediately before the call
		pan := hx.Catch(func() {
			if rec.Mode == "play" {
				err = rd.Play(single)
			} else {
				err = rd.MultiPlay(outs)
			}
		})
		rec.DurUs = time.Since(lg.t0).Microseconds()
		rec.Panic = pan
		if err != nil {
			rec.Err = err.Error()
		}
	}()
	select {
	case <-done:
	case <-time.After(20 * time.Second):
		rec.Timeout = true
	}
	lg.mu.Lock()
	rec.Sends = append([]Send{}, lg.sends...)
	lg.mu.Unlock()
	rec.Claims = [][]int{}
	if rec.Big { // every event of such a file carries its own bytes: a send names its event (TLC checks the bytes, port and time of the named event)
		where := map[string][]int{}
		for k, t := range rec.Tracks {
			for i, e := range t {
				if len(e.M) > 0 && e.M[0] == 0xFF {
					continue
				}
				if _, dup := where[string(e.M)]; dup {
					hx.Die("big play: two events of the file carry the same bytes", e.M)
				}
				where[string(e.M)] = []int{k + 1, i + 1}
			}
		}
		for _, sd := range rec.Sends {
			if c, ok := where[string(sd.M)]; ok {
				rec.Claims = append(rec.Claims, c)
			} else {
				rec.Claims = append(rec.Claims, []int{0, 0})
			}
		}
	}
}

// ---- generator ------------------------------------------------------------------------------------------

type gen struct {
	many bool // many-track file: only distinguishable messages, so that explaining the sends stays linear for TLC
	r    *rand.Rand
	ctr  int
	pool [][]byte // channel messages already used somewhere in this file (for deliberate duplicates)
	feat map[string]bool
}

func (g *gen) freshChan() []byte {
	g.ctr++
	c := g.ctr
	ch := uint8(g.r.Intn(16))
	a, b := uint8(c%128), uint8((c/128)%128)
	var m midi.Message
	switch g.r.Intn(8) {
	case 0, 1:
		m = midi.NoteOn(ch, a, 1+b%127)
	case 2:
		m = midi.NoteOffVelocity(ch, a, b)
	case 3:
		m = midi.ControlChange(ch, a, b)
	case 4:
		m = midi.ProgramChange(ch, a)
	case 5:
		m = midi.Pitchbend(ch, int16(c%8000))
	case 6:
		m = midi.AfterTouch(ch, a)
	default:
		m = midi.PolyAfterTouch(ch, a, b)
	}
	return m
}

func (g *gen) message(track int) []byte {
	x := g.r.Float64()
	switch {
	case x < 0.10:
		g.feat["meta"] = true
		switch g.r.Intn(7) {
		case 0:
			return smf.MetaText(fmt.Sprintf("t%d", g.r.Intn(100)))
		case 1:
			return smf.MetaLyric("la")
		case 2:
			return smf.MetaMarker("m")
		case 3:
			g.feat["tempo_change"] = true
			return smf.MetaTempo(float64(hx.Pick(g.r, 300, 450, 600, 900, 1200)))
		case 4:
			return smf.MetaTimeSig(3, 4, 24, 8)
		default: // a meta type the library has no name for: still a meta event, never to be sent
			g.feat["meta_unknown_type"] = true
			return smf.MetaUndefined([]byte{0x0A, 0x4B, 0x60, 0x7E, 0x10}[g.r.Intn(5)], []byte{byte(g.r.Intn(128))})
		}
	case x < 0.15 && !g.many:
		g.feat["sysex"] = true
		k := g.r.Intn(5)
		d := make([]byte, k)
		for i := range d {
			d[i] = byte(g.r.Intn(128))
		}
		return midi.SysEx(d)
	case x < 0.30 && len(g.pool) > 0 && !g.many:
		g.feat["duplicate_msg"] = true
		return g.pool[g.r.Intn(len(g.pool))]
	}
	m := g.freshChan()
	g.pool = append(g.pool, m)
	return m
}

// deltas for n events following a tick pattern; budget = max total ticks
func (g *gen) deltas(pat string, track, ntr, n, budget int) []uint32 {
	d := make([]uint32, n)
	switch pat {
	case "onetick": // everything on one tick (possibly not tick 0)
		if n > 0 && g.r.Intn(2) == 0 {
			d[0] = uint32(g.r.Intn(4))
		}
	case "heavy": // a few ticks with >= 13 events each
		per := 13 + g.r.Intn(8)
		for i := range d {
			if i%per == 0 && i > 0 {
				d[i] = uint32(1 + g.r.Intn(3))
			}
		}
		if n > 0 {
			d[0] = uint32(g.r.Intn(3))
		}
	case "interleave": // track i owns the ticks = i (mod ntr), groups of events per tick
		tick := 0
		next := track
		for i := range d {
			if i == 0 || g.r.Intn(3) == 0 {
				d[i] = uint32(next - tick)
				tick = next
				next += ntr
			}
		}
	default: // random, mostly zero
		for i := range d {
			if g.r.Intn(4) == 0 {
				d[i] = uint32(1 + g.r.Intn(3))
			}
		}
	}
	// keep inside the budget
	tot := 0
	for i := range d {
		if tot+int(d[i]) > budget {
			d[i] = 0
		}
		tot += int(d[i])
	}
	return d
}

func (g *gen) file(rec *PlayRec) {
	r := g.r
	g.feat = map[string]bool{}
	g.pool = nil
	ntr := 1 + r.Intn(6)
	g.many = false
	if r.Intn(15) == 0 { // more tracks than a machine word has bits
		ntr = 64 + r.Intn(8)
		g.many = true
		g.feat["many_tracks"] = true
	}
	res := hx.Pick(r, 96, 480, 960, 960)
	bpm := float64(hx.Pick(r, 600, 900, 1200))
	noTempo := r.Intn(8) == 0
	// budget in ticks so that a play lasts well below 100 ms (budgeting only, no judgement)
	tickUs := 60e6 / (bpm * float64(res))
	if noTempo {
		tickUs = 60e6 / (120 * float64(res))
		g.feat["default_tempo"] = true
	}
	budget := int(25000 / tickUs)
	if budget < 2 {
		budget = 2
	}
	pat := []string{"onetick", "heavy", "interleave", "random"}[r.Intn(4)]
	g.feat["pat_"+pat] = true
	s := smf.NewSMF1()
	s.TimeFormat = smf.MetricTicks(res)
	total, maxTick := 0, 0
	// "twin" tracks start with the same run of channel messages on tick 0: on a shared port the observer
	// cannot tell which track a send came from, and a wrong guess only fails some sends later
	var twin [][]byte
	if ntr > 1 && !g.many && r.Intn(3) == 0 {
		g.feat["twin_prefix"] = true
		for i := 2 + r.Intn(4); i > 0; i-- {
			twin = append(twin, g.freshChan())
		}
		if r.Intn(2) == 0 {
			twin = append(twin, twin[0], twin[0])
		}
	}
	for t := 0; t < ntr; t++ {
		var tr smf.Track
		if t == 0 && !noTempo {
			tr.Add(0, smf.MetaTempo(bpm))
		}
		if twin != nil && (t < 2 || r.Intn(2) == 0) {
			k := len(twin)
			if r.Intn(4) == 0 {
				k-- // one of the twins is shorter
			}
			for _, m := range twin[:k] {
				tr.Add(0, m)
			}
			total += k
		}
		n := 0
		switch r.Intn(6) {
		case 0:
			n = r.Intn(4)
		case 1, 2:
			n = 13 + r.Intn(12)
		default:
			n = 5 + r.Intn(40)
		}
		if pat == "heavy" && n < 14 {
			n = 14 + r.Intn(20)
		}
		if ntr > 10 {
			n = r.Intn(3)
		}
		d := g.deltas(pat, t, ntr, n, budget)
		run := 0
		for i := 0; i < n; i++ {
			tr.Add(d[i], g.message(t))
			if d[i] == 0 {
				run++
			} else {
				run = 1
			}
			if run > maxTick {
				maxTick = run
			}
		}
		total += n
		tr.Close(uint32(r.Intn(2)))
		s.Add(tr)
	}
	if maxTick >= 13 {
		g.feat["tick_ge13"] = true
	}
	if total >= 13 {
		g.feat["total_ge13"] = true
	}
	g.feat[fmt.Sprintf("tracks_%d", ntr)] = true
	var buf bytes.Buffer
	if _, err := s.WriteTo(&buf); err != nil {
		hx.Die("generator: WriteTo failed", err)
	}
	rec.File = append(hx.B{}, buf.Bytes()...)

	// selection
	rec.Sel = []int{}
	switch x := r.Intn(20); {
	case x < 8:
		g.feat["sel_all"] = true
	case x < 14:
		g.feat["sel_subset"] = true
		for t := 0; t < ntr; t++ {
			if r.Intn(2) == 0 {
				rec.Sel = append(rec.Sel, t)
			}
		}
		if len(rec.Sel) == 0 {
			rec.Sel = append(rec.Sel, r.Intn(ntr))
		}
		r.Shuffle(len(rec.Sel), func(i, j int) { rec.Sel[i], rec.Sel[j] = rec.Sel[j], rec.Sel[i] })
	case x < 16:
		g.feat["sel_single"] = true
		rec.Sel = append(rec.Sel, r.Intn(ntr))
	case x < 18:
		g.feat["sel_out_of_range"] = true
		rec.Sel = append(rec.Sel, r.Intn(ntr), ntr+r.Intn(3))
	default:
		g.feat["sel_repeated"] = true
		t := r.Intn(ntr)
		rec.Sel = append(rec.Sel, t, t)
	}

	// port map
	rec.Ports = []PortKV{}
	rec.Mode = "multi"
	switch x := r.Intn(20); {
	case x < 4:
		g.feat["ports_own"] = true
		for t := 0; t < ntr; t++ {
			rec.Ports = append(rec.Ports, PortKV{t, 10 + t})
		}
	case x < 7:
		g.feat["ports_shared"] = true
		for t := 0; t < ntr; t++ {
			rec.Ports = append(rec.Ports, PortKV{t, 20 + t%2})
		}
	case x < 10:
		g.feat["ports_default_only"] = true
		rec.Ports = append(rec.Ports, PortKV{-1, 99})
	case x < 14:
		g.feat["ports_default_and_some"] = true
		rec.Ports = append(rec.Ports, PortKV{-1, 99})
		for t := 0; t < ntr; t++ {
			if r.Intn(2) == 0 {
				rec.Ports = append(rec.Ports, PortKV{t, 30 + t%3})
			}
		}
	case x < 17:
		g.feat["ports_some_no_default"] = true
		for t := 0; t < ntr; t++ {
			if r.Intn(3) > 0 {
				rec.Ports = append(rec.Ports, PortKV{t, 40 + t})
			}
		}
		rec.Ports = append(rec.Ports, PortKV{ntr + 2, 77}) // a key for a track the file does not have
	case x < 18:
		g.feat["ports_default_same_as_mapped"] = true
		rec.Ports = append(rec.Ports, PortKV{-1, 50}, PortKV{0, 50}, PortKV{ntr - 1, 51})
		if ntr == 1 {
			rec.Ports = rec.Ports[:2]
		}
	default:
		g.feat["mode_play"] = true
		rec.Mode = "play"
		rec.Ports = append(rec.Ports, PortKV{-1, 60})
	}
	rec.Prior = []PortKV{}
	if r.Intn(5) == 0 { // the same reader has been played before, with another map (other tracks mapped, other ports)
		g.feat["prior_play"] = true
		for t := 0; t < ntr; t++ {
			if r.Intn(2) == 0 {
				rec.Prior = append(rec.Prior, PortKV{t, 80 + t%4})
			}
		}
		if r.Intn(2) == 0 || len(rec.Prior) == 0 {
			rec.Prior = append(rec.Prior, PortKV{-1, 88})
		}
		if r.Intn(2) == 0 { // ... and its ports refused every message
			g.feat["prior_play_failed"] = true
			for i := range rec.Prior {
				rec.Prior[i].Port = 90 + i%4
			}
		}
	}
	rec.Feat = []string{}
	for k := range g.feat {
		rec.Feat = append(rec.Feat, k)
	}
}

// ---- commands ---------------------------------------------------------------------------------------------

func runAll(recs []*PlayRec, par int) {
	var wg sync.WaitGroup
	ch := make(chan *PlayRec)
	for w := 0; w < par; w++ {
		wg.Add(1)
		go func() {
			defer wg.Done()
			for r := range ch {
				runPlay(r)
			}
		}()
	}
	for _, r := range recs {
		ch <- r
	}
	close(ch)
	wg.Wait()
}

func cmdGen(args []string) {
	fs := flag.NewFlagSet("player-gen", flag.ExitOnError)
	n := fs.Int("n", 100, "number of plays")
	seed := fs.Int64("seed", 1, "seed")
	out := fs.String("out", "", "output NDJSON")
	par := fs.Int("par", 4, "plays executed concurrently (only a lower bound on instants is ever judged)")
	long := fs.Int("long", 0, "extra plays with one pause of more than five seconds")
	huge := fs.Int("huge", 0, "instead of the random plays: ONE play of a file with this many events in its first track (every event distinguishable)")
	fs.Parse(args)
	if *huge > 0 {
		rec := &PlayRec{ID: 0}
		(&gen{r: rand.New(rand.NewSource(*seed))}).huge(rec, *huge)
		runPlay(rec)
		w := hx.Create(*out)
		w.Put(rec)
		w.Close()
		return
	}
	g := &gen{r: rand.New(rand.NewSource(*seed))}
	recs := make([]*PlayRec, *n)
	for i := range recs {
		recs[i] = &PlayRec{ID: i}
		g.file(recs[i])
	}
	for i := 0; i < *long; i++ { // plays with one long general pause (seconds): what comes after it must not be early either
		rec := &PlayRec{ID: *n + i}
		g.longPause(rec)
		recs = append(recs, rec)
	}
	runAll(recs, *par+*long)
	w := hx.Create(*out)
	for _, r := range recs {
		w.Put(r)
	}
	w.Close()
}

// longPause: two tracks, a few messages, then nothing for 5.1 .. 6.5 s, then a few more.
func (g *gen) longPause(rec *PlayRec) {
	r := g.r
	s := smf.NewSMF1()
	s.TimeFormat = smf.MetricTicks(96) // 120 BPM by default: one tick = 5208.3 us
	gap := uint32(980 + r.Intn(270))
	for t := 0; t < 2; t++ {
		var tr smf.Track
		tr.Add(uint32(t), midi.NoteOn(uint8(t), uint8(60+t), 100))
		tr.Add(2, midi.NoteOff(uint8(t), uint8(60+t)))
		tr.Add(gap, midi.NoteOn(uint8(t), uint8(70+t), 90))
		tr.Add(3, midi.ControlChange(uint8(t), 7, uint8(r.Intn(128))))
		tr.Close(0)
		s.Add(tr)
	}
	var buf bytes.Buffer
	if _, err := s.WriteTo(&buf); err != nil {
		hx.Die("building the long-pause file failed", err)
	}
	rec.File = append(hx.B{}, buf.Bytes()...)
	rec.Sel = []int{}
	rec.Mode = "multi"
	rec.Ports = []PortKV{{0, 10}, {1, 11}}
	rec.Prior = []PortKV{}
	rec.Feat = []string{"long_pause", "ports_own", "sel_all"}
}

// huge: a dense file -- n channel messages in the first track, 1000 per tick, a few hundred more in two other tracks, one tick
// = one microsecond (so that the play takes no time); every event carries its position in its bytes.
func (g *gen) huge(rec *PlayRec, n int) {
	r := g.r
	if n > 1<<18 {
		hx.Die("huge: at most 2^18 distinguishable note-on messages")
	}
	s := smf.NewSMF1()
	s.TimeFormat = smf.MetricTicks(960)
	var t0 smf.Track
	t0.Add(0, smf.MetaTempo(62500)) // 960 us per quarter note
	for i := 0; i < n; i++ {
		d := uint32(0)
		if i > 0 && i%1000 == 0 {
			d = 1
		}
		t0.Add(d, midi.NoteOn(uint8(i>>14)&15, uint8(i>>7)&127, uint8(i)&127))
	}
	t0.Close(0)
	s.Add(t0)
	last := uint32(n / 1000)
	for t := 1; t <= 2; t++ {
		var tr smf.Track
		m := 200 + r.Intn(300)
		at := uint32(0)
		for i := 0; i < m; i++ {
			d := uint32(0)
			if at < last && r.Intn(2) == 0 {
				d = uint32(1 + r.Intn(2))
			}
			at += d
			if t == 1 {
				tr.Add(d, midi.ControlChange(uint8(i>>14)&15, uint8(i>>7)&127, uint8(i)&127))
			} else {
				tr.Add(d, midi.PolyAfterTouch(uint8(i>>14)&15, uint8(i>>7)&127, uint8(i)&127))
			}
		}
		tr.Close(uint32(r.Intn(2)))
		s.Add(tr)
	}
	var buf bytes.Buffer
	if _, err := s.WriteTo(&buf); err != nil {
		hx.Die("building the huge file failed", err)
	}
	rec.File = append(hx.B{}, buf.Bytes()...)
	rec.Sel = []int{}
	rec.Mode = "multi"
	rec.Ports = []PortKV{{0, 10}, {1, 11}, {2, 10}}
	rec.Prior = []PortKV{}
	rec.Big = true
	rec.Feat = []string{"huge", "sel_all"}
}

func cmdRerun(args []string) {
	fs := flag.NewFlagSet("player-rerun", flag.ExitOnError)
	in := fs.String("in", "", "input NDJSON (records of player-gen)")
	out := fs.String("out", "", "output NDJSON")
	fs.Parse(args)
	w := hx.Create(*out)
	hx.ReadLines(*in, func(line []byte) {
		var rec PlayRec
		if err := json.Unmarshal(line, &rec); err != nil {
			hx.Die("bad record", err)
		}
		runPlay(&rec)
		w.Put(&rec)
	})
	w.Close()
}

func main() {
	cmds := map[string]func([]string){"player-gen": cmdGen, "player-rerun": cmdRerun}
	if len(os.Args) < 2 || cmds[os.Args[1]] == nil {
		fmt.Fprintln(os.Stderr, "usage: vh_player player-gen|player-rerun [flags]")
		os.Exit(3)
	}
	cmds[os.Args[1]](os.Args[2:])
}
