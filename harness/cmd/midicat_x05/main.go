// midicat_x05: a stand-in for the external `midicat` helper binary for X05 part M (drivers/midicatdrv as a member of the
// registry).  What it prints is configured by the environment of the process that spawns it:
//
//	midicat version -s     prints $X05_VERSION (default 0.6.9)
//	midicat ins --json     prints $X05_INS and exits with $X05_INS_RC
//	midicat outs --json    prints $X05_OUTS and exits with $X05_OUTS_RC
//	midicat in|out ...     stays alive without output (a port that is open) until it is killed, its stdin ends (out)
//	                       or the process that started it is gone
package main

import (
	"fmt"
	"io"
	"os"
	"strconv"
	"time"
)

func rc(name string) int {
	n, _ := strconv.Atoi(os.Getenv(name))
	return n
}

func main() {
	if len(os.Args) < 2 {
		os.Exit(2)
	}
	switch os.Args[1] {
	case "version":
		v, ok := os.LookupEnv("X05_VERSION")
		if !ok {
			v = "0.6.9"
		}
		fmt.Print(v)
	case "ins":
		fmt.Print(os.Getenv("X05_INS"))
		os.Exit(rc("X05_INS_RC"))
	case "outs":
		fmt.Print(os.Getenv("X05_OUTS"))
		os.Exit(rc("X05_OUTS_RC"))
	case "in", "out":
		parent := os.Getppid()
		if os.Args[1] == "out" {
			go func() {
				io.Copy(io.Discard, os.Stdin)
				os.Exit(0)
			}()
		}
		for os.Getppid() == parent {
			time.Sleep(100 * time.Millisecond)
		}
	default:
		os.Exit(2)
	}
}
