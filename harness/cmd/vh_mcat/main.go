// vh_mcat: C17 on the process-backed driver (drivers/midicatdrv) against the stand-in helper pair; built with -race
// and the verif tag.  Protocol-respecting random histories incl. concurrent senders and start failures; every call
// under a watchdog; the verif hook is used only to wait until the driver is quiescent before the next call.
package main

import (
	"encoding/json"
	"errors"
	"flag"
	"fmt"
	"math/rand"
	"net"
	"os"
	"sync"
	"sync/atomic"
	"time"

	"gitlab.com/gomidi/midi/v2"
	"gitlab.com/gomidi/midi/v2/drivers"
	"gitlab.com/gomidi/midi/v2/drivers/midicatdrv"

	"verifharness/internal/hx"
	pr "verifharness/internal/portrec"
)

var handled int64 // lines the in port's reader goroutine has dealt with (hook)

var (
	evMu  sync.Mutex
	evLog []string // hook events of the current history (emitted under the port mutex: their order is the lock order)
)

// set when the stop function of the listener with that id has RETURNED; a callback that starts afterwards is a violation of
// "after a stop function returns, its listener is never called again"
type mdrv struct {
	stoppedL sync.Map
	drv      *midicatdrv.Driver
	in       drivers.In
	out      drivers.Out
	stop     func()
	nL       int
	mu       sync.Mutex
	got      []pr.Dlv
	sock     string
	ack      string
	slow     bool
	inCb     int64 // listener invocations in progress
	late     string
	curL     int
	sentOK   int64 // sends that returned nil (a line went to the out helper)
	expectS  int64
	goodPath string
}

func errStr(err error) string {
	switch {
	case err == nil:
		return "nil"
	case errors.Is(err, drivers.ErrPortClosed):
		return "closed"
	}
	return "err"
}

func newM() *mdrv {
	drv, err := midicatdrv.New()
	if err != nil {
		hx.Die(err)
	}
	ins, err := drv.Ins()
	if err != nil || len(ins) != 1 {
		hx.Die("ins", err)
	}
	outs, err := drv.Outs()
	if err != nil || len(outs) != 1 {
		hx.Die("outs", err)
	}
	m := &mdrv{drv: drv, in: ins[0], out: outs[0], sock: os.Getenv("VERIF_SOCK"), ack: os.Getenv("VERIF_ACK"), goodPath: os.Getenv("PATH")}
	os.Remove(m.ack)
	os.Remove(m.sock)
	atomic.StoreInt64(&handled, 0)
	return m
}

func ackState(p string) (n, s int64) {
	b, _ := os.ReadFile(p)
	for _, c := range b {
		n++
		if c == 'S' {
			s++
		}
	}
	return
}

func probe(sock string) bool {
	c, err := net.DialUnix("unixgram", nil, &net.UnixAddr{Name: sock, Net: "unixgram"})
	if err != nil {
		return false
	}
	defer c.Close()
	_, err = c.Write([]byte("PING\n"))
	return err == nil
}

func waitFor(what string, cond func() bool) {
	dl := time.Now().Add(8 * time.Second)
	for !cond() {
		if time.Now().After(dl) {
			panic("harness: quiescence not reached: " + what)
		}
		time.Sleep(200 * time.Microsecond)
	}
}

// settle waits until everything sent so far has been processed by the helpers and the driver's reader goroutine.
func (m *mdrv) settle() {
	if m.in.IsOpen() {
		waitFor("in helper bound", func() bool { return probe(m.sock) })
	} else {
		waitFor("in helper gone", func() bool { return !probe(m.sock) })
	}
	waitFor("out helper acks", func() bool { n, _ := ackState(m.ack); return n >= atomic.LoadInt64(&m.sentOK) })
	_, s := ackState(m.ack)
	if nohook {
		time.Sleep(20 * time.Millisecond) // (no hook, no counter: give the reader goroutine time; nothing is judged in this mode)
		return
	}
	waitFor("reader handled lines", func() bool { return atomic.LoadInt64(&handled) >= s })
}

func (m *mdrv) Call(fn string, msg int, o pr.Opts) (ret string) {
	switch fn {
	case "OpenIn":
		ret = errStr(m.in.Open())
	case "OpenInFail", "OpenOutFail": // the helper binary cannot be started
		os.Setenv("PATH", "/nonexistent")
		if fn == "OpenInFail" {
			ret = errStr(m.in.Open())
		} else {
			ret = errStr(m.out.Open())
		}
		os.Setenv("PATH", m.goodPath)
	case "CloseIn":
		ret = errStr(m.in.Close())
	case "OpenBoth": // two goroutines, one port each, at the same time
		var e1, e2 error
		var wg sync.WaitGroup
		wg.Add(2)
		go func() { defer wg.Done(); e1 = m.in.Open() }()
		go func() { defer wg.Done(); e2 = m.out.Open() }()
		wg.Wait()
		ret = errStr(e1)
		if e1 == nil {
			ret = errStr(e2)
		}
	case "OpenOut":
		ret = errStr(m.out.Open())
	case "CloseOut":
		// everything written so far must have left the pipe before the helper is killed
		m.settle()
		ret = errStr(m.out.Close())
	case "Listen", "ListenOpts":
		m.nL++
		id := m.nL
		var lo []midi.Option
		if fn == "Listen" || o.Sysex {
			lo = append(lo, midi.UseSysEx())
		}
		if fn == "Listen" || o.As {
			lo = append(lo, midi.UseActiveSense())
		}
		if fn == "Listen" || o.Tc {
			lo = append(lo, midi.UseTimeCode())
		}
		stop, err := midi.ListenTo(m.in, func(msg midi.Message, ts int32) {
			_, late := m.stoppedL.Load(id)
			atomic.AddInt64(&m.inCb, 1)
			defer atomic.AddInt64(&m.inCb, -1)
			k := pr.MsgID(msg)
			if m.slow {
				time.Sleep(1500 * time.Microsecond) // widen the window in which stop() can race with a callback in flight
			}
			m.mu.Lock()
			if late {
				m.late = fmt.Sprintf("listener %d called with message %d after its stop function had returned", id, k)
			}
			m.got = append(m.got, pr.Dlv{L: id, M: k})
			m.mu.Unlock()
		}, lo...)
		m.curL = id
		if err == nil {
			m.stop = stop
		}
		ret = errStr(err)
	case "Stop":
		if m.stop != nil {
			m.stop()
			m.stoppedL.Store(m.curL, true)
		}
		ret = "nil"
	case "Send":
		err := m.out.Send(pr.MsgBytes(msg))
		if err == nil {
			atomic.AddInt64(&m.sentOK, 1)
		}
		ret = errStr(err)
	default:
		hx.Die("unknown call", fn)
	}
	m.settle()
	return ret
}

// burstStop: sends without waiting, then stop() at once.
func (m *mdrv) burstStop(q []int) string {
	m.slow = true
	ret := "nil"
	for _, x := range q {
		err := m.out.Send(pr.MsgBytes(x))
		if err == nil {
			atomic.AddInt64(&m.sentOK, 1)
		} else {
			ret = errStr(err)
		}
	}
	running := int64(0)
	if m.stop != nil {
		// call stop() while a delivery is in flight if there is going to be one: wait (bounded) for a callback to start
		for dl := time.Now().Add(30 * time.Millisecond); atomic.LoadInt64(&m.inCb) == 0 && time.Now().Before(dl); {
			time.Sleep(20 * time.Microsecond)
		}
		m.stop()
		running = atomic.LoadInt64(&m.inCb) // read immediately after stop() returned
		m.stoppedL.Store(m.curL, true)
	}
	m.settle()
	m.slow = false
	if running > 0 {
		panic("stop function returned while its listener was still executing a callback")
	}
	m.mu.Lock()
	late := m.late
	m.late = ""
	m.mu.Unlock()
	if late != "" {
		panic(late)
	}
	return ret
}

func (m *mdrv) Par(msgs [][]int) []string {
	if len(msgs) == 2 && len(msgs[1]) == 1 && msgs[1][0] == -1 { // marker: BurstStop (see portrec.Run)
		return []string{m.burstStop(msgs[0])}
	}
	res := make([][]string, len(msgs))
	var wg sync.WaitGroup
	for i, q := range msgs {
		wg.Add(1)
		go func(i int, q []int) {
			defer wg.Done()
			for _, x := range q {
				err := m.out.Send(pr.MsgBytes(x))
				if err == nil {
					atomic.AddInt64(&m.sentOK, 1)
				}
				res[i] = append(res[i], errStr(err))
			}
		}(i, q)
	}
	wg.Wait()
	m.settle()
	var flat []string
	for _, r := range res {
		flat = append(flat, r...)
	}
	return flat
}

func (m *mdrv) Deliveries() []pr.Dlv {
	m.mu.Lock()
	defer m.mu.Unlock()
	g := m.got
	m.got = nil
	return g
}

// Teardown closes both ports (two legal calls at the end of every history); a panic in one of them is returned as text.
func (m *mdrv) Teardown() (pan string) {
	done := make(chan string, 1)
	go func() {
		done <- hx.Catch(func() { m.in.Close(); m.out.Close() })
	}()
	select {
	case pan = <-done:
	case <-time.After(5 * time.Second):
	}
	return pan
}

// genHistory: a random protocol-respecting history (mirrors Ports!Enabled for kind "midicat").
func genHistory(r *rand.Rand, id, n int) pr.History {
	h := pr.History{ID: id, Kind: "midicat"}
	inOpen, outOpen, active, lastL := false, false, false, 0
	next := 1
	for len(h.Steps) < n {
		switch k := r.Intn(20); {
		case k < 2:
			if r.Intn(3) == 0 {
				h.Steps = append(h.Steps, pr.Step{Fn: "OpenBoth"})
				inOpen, outOpen = true, true
				break
			}
			h.Steps = append(h.Steps, pr.Step{Fn: "OpenIn"})
			inOpen = true
		case k < 3:
			if !inOpen {
				h.Steps = append(h.Steps, pr.Step{Fn: "OpenInFail"})
			}
		case k < 5:
			h.Steps = append(h.Steps, pr.Step{Fn: "CloseIn"})
			inOpen, active = false, false
		case k < 7:
			h.Steps = append(h.Steps, pr.Step{Fn: "OpenOut"})
			outOpen = true
		case k < 8:
			if !outOpen {
				h.Steps = append(h.Steps, pr.Step{Fn: "OpenOutFail"})
			}
		case k < 9:
			h.Steps = append(h.Steps, pr.Step{Fn: "CloseOut"})
			outOpen = false
		case k < 12:
			if !active {
				if r.Intn(2) == 0 {
					h.Steps = append(h.Steps, pr.Step{Fn: "Listen"})
				} else { // C14: the driver's own copy of the option filter
					h.Steps = append(h.Steps, pr.Step{Fn: "ListenOpts", Opts: pr.Opts{Sysex: r.Intn(2) == 0, As: r.Intn(2) == 0, Tc: r.Intn(2) == 0}})
				}
				active, inOpen = true, true
				lastL++
			}
		case k < 14:
			if lastL > 0 && active && r.Intn(2) == 0 && next <= 110 { // stop racing with deliveries in flight
				var q []int
				for j := 0; j < 3+r.Intn(6); j++ {
					q = append(q, next)
					next++
				}
				h.Steps = append(h.Steps, pr.Step{Fn: "BurstStop", Msgs: [][]int{q}})
				active = false
			} else if lastL > 0 {
				h.Steps = append(h.Steps, pr.Step{Fn: "Stop"})
				active = false
			}
		case k < 18:
			if r.Intn(3) == 0 { // a message of one of the three filterable classes
				h.Steps = append(h.Steps, pr.Step{Fn: "Send", M: []int{240, 248, 254}[r.Intn(3)]})
			} else if next <= 120 {
				h.Steps = append(h.Steps, pr.Step{Fn: "Send", M: next})
				next++
			}
		default:
			if next <= 100 {
				ns := 2 + r.Intn(3)
				var qs [][]int
				for s := 0; s < ns; s++ {
					var q []int
					for j := 0; j < 1+r.Intn(4); j++ {
						q = append(q, next)
						next++
					}
					qs = append(qs, q)
				}
				h.Steps = append(h.Steps, pr.Step{Fn: "SendPar", Msgs: qs})
			}
		}
	}
	return h
}

// genCycles: both ports opened once, then 5..7 cycles of Listen, sends, Stop, a send nobody may get; then both closed.
func genCycles(r *rand.Rand, id int) pr.History {
	h := pr.History{ID: id, Kind: "midicat", Steps: []pr.Step{{Fn: "OpenBoth"}}}
	next := 1
	for c := 5 + r.Intn(3); c > 0; c-- {
		h.Steps = append(h.Steps, pr.Step{Fn: "Listen"})
		for j := r.Intn(3); j > 0; j-- {
			h.Steps = append(h.Steps, pr.Step{Fn: "Send", M: next})
			next++
		}
		h.Steps = append(h.Steps, pr.Step{Fn: "Stop"}, pr.Step{Fn: "Send", M: next})
		next++
	}
	h.Steps = append(h.Steps, pr.Step{Fn: "CloseIn"}, pr.Step{Fn: "CloseOut"})
	return h
}

// genFilterPair: the same sends under an option set with something off and under all options on (C14, the
// driver's own copy of the filter): OpenOut, ListenOpts(o), sends of notes and of the three filterable classes, Stop.
func genFilterPair(r *rand.Rand, id int) (pr.History, pr.History) {
	o := pr.Opts{Sysex: r.Intn(2) == 0, As: r.Intn(2) == 0, Tc: r.Intn(2) == 0}
	if o.Sysex && o.As && o.Tc {
		o = pr.Opts{Sysex: r.Intn(2) == 0, As: false, Tc: r.Intn(2) == 0}
	}
	mk := func(op pr.Opts, id int) pr.History {
		return pr.History{ID: id, Kind: "midicat", Steps: []pr.Step{{Fn: "OpenOut"}, {Fn: "ListenOpts", Opts: op}}}
	}
	a, b := mk(o, 2*id), mk(pr.Opts{Sysex: true, As: true, Tc: true}, 2*id+1)
	next := 1
	for i := 0; i < 6+r.Intn(12); i++ {
		var st pr.Step
		if r.Intn(2) == 0 {
			st = pr.Step{Fn: "Send", M: []int{240, 248, 254}[r.Intn(3)]}
		} else {
			st = pr.Step{Fn: "Send", M: next}
			next++
		}
		a.Steps = append(a.Steps, st)
		b.Steps = append(b.Steps, st)
	}
	a.Steps = append(a.Steps, pr.Step{Fn: "Stop"})
	b.Steps = append(b.Steps, pr.Step{Fn: "Stop"})
	return a, b
}

// DrvRec (C19): messages written by the REAL out port as text lines into the stand-in helper and read back by the REAL
// in port: the lines verbatim, and what the in port's listener received.
type DrvRec struct {
	Ev    string  `json:"ev"`
	ID    int     `json:"id"`
	Msgs  []hx.B  `json:"msgs"`
	Par   int     `json:"par"`   // > 1: the messages are sent by that many goroutines concurrently (round robin): order free, lines must stay whole
	Lines []hx.B  `json:"lines"` // one entry per line, characters incl. the terminator
	Got   []hx.B  `json:"got"`
	GotTs []int32 `json:"gotts"`
	Pan   string  `json:"pan"`
}

func runDrv(rec *DrvRec) {
	rec.Ev, rec.Lines, rec.Got, rec.GotTs = "drv", []hx.B{}, []hx.B{}, []int32{}
	lf := os.Getenv("VERIF_LINES")
	os.Remove(lf)
	m := newM()
	var mu sync.Mutex
	done := make(chan struct{})
	go func() {
		defer close(done)
		rec.Pan = hx.Catch(func() {
			if err := m.out.Open(); err != nil {
				panic(err)
			}
			if err := m.in.Open(); err != nil {
				panic(err)
			}
			stop, err := m.in.Listen(func(b []byte, ts int32) {
				mu.Lock()
				rec.Got = append(rec.Got, append(hx.B{}, b...))
				rec.GotTs = append(rec.GotTs, ts)
				mu.Unlock()
			}, drivers.ListenConfig{SysEx: true, ActiveSense: true, TimeCode: true})
			if err != nil {
				panic(err)
			}
			m.settle()
			if rec.Par > 1 {
				var wg sync.WaitGroup
				var serr atomic.Value
				for g := 0; g < rec.Par; g++ {
					wg.Add(1)
					go func(g int) {
						defer wg.Done()
						for i := g; i < len(rec.Msgs); i += rec.Par {
							if err := m.out.Send(rec.Msgs[i]); err != nil {
								serr.Store(err)
								return
							}
							atomic.AddInt64(&m.sentOK, 1)
						}
					}(g)
				}
				wg.Wait()
				if e := serr.Load(); e != nil {
					panic(e)
				}
			} else {
				for _, b := range rec.Msgs {
					if err := m.out.Send(b); err != nil {
						panic(err)
					}
					atomic.AddInt64(&m.sentOK, 1)
				}
			}
			m.settle()
			stop()
			m.in.Close()
			m.out.Close()
		})
	}()
	select {
	case <-done:
	case <-time.After(30 * time.Second):
		rec.Pan = "timeout"
	}
	if b, err := os.ReadFile(lf); err == nil {
		start := 0
		for i, c := range b {
			if c == '\n' {
				rec.Lines = append(rec.Lines, append(hx.B{}, b[start:i+1]...))
				start = i + 1
			}
		}
		if start < len(b) {
			rec.Lines = append(rec.Lines, append(hx.B{}, b[start:]...))
		}
	}
}

func runOne(h *pr.History, w *hx.Writer) bool {
	m := newM()
	evMu.Lock()
	evLog = nil
	evMu.Unlock()
	ok := pr.Run(m, h)
	if ok {
		// so that the events of closing the port belong to this history; a panic while closing counts against the last step
		if p := m.Teardown(); p != "" && len(h.Steps) > 0 && h.Steps[len(h.Steps)-1].Pan == "" {
			h.Steps[len(h.Steps)-1].Pan = "closing the ports after the history (in.Close, out.Close): " + p
		}
	}
	evMu.Lock()
	h.Events = append([]string{}, evLog...)
	evMu.Unlock()
	for i := range h.Steps {
		if h.Steps[i].Msgs == nil {
			h.Steps[i].Msgs = [][]int{}
		}
	}
	w.Put(h)
	return ok // false: a call hung, this process is not usable any more
}

func main() {
	if len(os.Args) < 2 {
		fmt.Fprintln(os.Stderr, "usage: vh_mcat gen|rerun [flags]")
		os.Exit(3)
	}
	// VERIF_NOHOOK: no tracer is installed.  The tracer's own lock and counter order the reader goroutine and the calling
	// goroutine after every line, which HIDES data races between them from the race detector; hookless batches are run for
	// the race log alone (quiescence is then a matter of waiting, so their call results are not judged)
	nohook = os.Getenv("VERIF_NOHOOK") != ""
	if !nohook {
		installHook()
	}
	mainRest()
}

var nohook bool

func installHook() {
	midicatdrv.VerifSetHook(func(ev string) {
		evMu.Lock()
		evLog = append(evLog, ev)
		evMu.Unlock()
		if ev == "line-delivered" || ev == "line-dropped" {
			atomic.AddInt64(&handled, 1)
		}
	})
}

func mainRest() {
	fs := flag.NewFlagSet(os.Args[1], flag.ExitOnError)
	seed := fs.Int64("seed", 1, "")
	n := fs.Int("n", 20, "")
	steps := fs.Int("steps", 25, "")
	in := fs.String("in", "", "")
	out := fs.String("out", "", "")
	fs.Parse(os.Args[2:])
	w := hx.Create(*out)
	defer w.Close()
	switch os.Args[1] {
	case "gen":
		r := rand.New(rand.NewSource(*seed))
		failed := 0
		for i := 0; i < *n; i++ {
			h := genHistory(r, i, 5+r.Intn(*steps))
			if i == 1 { // one scripted history: many listen / stop cycles on ONE open generation of the in port
				h = genCycles(r, i)
			}
			if !runOne(&h, w) {
				w.Close()
				os.Exit(0)
			}
			for _, st := range h.Steps {
				if st.Pan != "" {
					failed++
				}
			}
			if failed >= 3 { // every failed quiescence wait costs seconds: three failing histories are enough to report
				w.Close()
				os.Exit(0)
			}
		}
	case "lines":
		r := rand.New(rand.NewSource(*seed))
		for i := 0; i < *n; i++ {
			rec := &DrvRec{ID: i}
			for k := 0; k < 1+r.Intn(12); k++ {
				ln := 1 + r.Intn(6)
				if r.Intn(4) == 0 {
					ln = 1 + r.Intn(2000)
				}
				b := make(hx.B, ln)
				for j := range b {
					b[j] = byte(r.Intn(256))
					if r.Intn(5) == 0 {
						b[j] = []byte{0x00, 0x0A, 0x0F, 0x10, 0x7F, 0x80, 0xF0, 0xF7, 0xFF}[r.Intn(9)]
					}
				}
				rec.Msgs = append(rec.Msgs, b)
			}
			if i%3 == 2 {
				rec.Par = 2 + r.Intn(3)
			}
			runDrv(rec)
			w.Put(rec)
			if rec.Pan != "" { // a hung or failed experiment costs seconds of watchdog: one is enough to report
				w.Close()
				os.Exit(0)
			}
		}
	case "lines-rerun":
		hx.ReadLines(*in, func(l []byte) {
			var rec DrvRec
			if err := json.Unmarshal(l, &rec); err != nil {
				hx.Die(err)
			}
			runDrv(&rec)
			w.Put(&rec)
		})
	case "filter":
		r := rand.New(rand.NewSource(*seed))
		for i := 0; i < *n; i++ {
			a, b := genFilterPair(r, i)
			if !runOne(&a, w) || !runOne(&b, w) {
				w.Close()
				os.Exit(0)
			}
		}
	case "rerun":
		hx.ReadLines(*in, func(l []byte) {
			var h pr.History
			if err := json.Unmarshal(l, &h); err != nil {
				hx.Die(err)
			}
			h.Race = ""
			if !runOne(&h, w) {
				w.Close()
				os.Exit(0)
			}
		})
	}
}
