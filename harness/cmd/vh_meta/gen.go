package main

// Generator of C15 experiments: boundary-heavy and seeded, plus exhaustive parts (all 65536 sequence numbers, all
// (tonic argument, accidentals, flat, major) tuples, all 26 named keys, all channel / port values, all
// numerator x denominator pairs).  It only chooses ARGUMENTS; it knows nothing about the bytes to expect.

import (
	"flag"
	"math"
	"math/rand"

	"verifharness/internal/hx"
)

var boundaryLens = []int{0, 1, 2, 126, 127, 128, 129, 255, 256, 16383, 16384, 16385, 20000}

// payload returns n bytes; style 0: any byte, 1: only bytes >= 0x80, 2: printable ASCII, 3: 0xFF fill, 4: UTF-8 text
func payload(r *rand.Rand, n, style int) hx.B {
	b := make(hx.B, n)
	switch style {
	case 1:
		for i := range b {
			b[i] = byte(0x80 + r.Intn(0x80))
		}
	case 2:
		for i := range b {
			b[i] = byte(0x20 + r.Intn(0x5f))
		}
	case 3:
		for i := range b {
			b[i] = 0xFF
		}
	case 4:
		s := []byte("Grüße, 世界! ♪♫ ")
		for i := range b {
			b[i] = s[i%len(s)]
		}
	case 5: // payloads that start with byte sequences other software gives a meaning to (they are just bytes here)
		r.Read(b)
		pre := [][]byte{{0xEF, 0xBB, 0xBF}, {0xFF, 0xFE}, {0xFE, 0xFF}, {0x00}, {0xFF, 0x2F, 0x00}, {0x0D, 0x0A}, {0x7F}, {0xF0}, {0xF7}}[r.Intn(9)]
		copy(b, pre)
	case 6: // payloads that END with bytes other software strips or stops at (NUL, blanks, line ends, all zero)
		r.Read(b)
		suf := [][]byte{{0x00}, {0x00, 0x00, 0x00}, {0x20}, {0x0A}, {0x0D, 0x0A}, {0x09}, {0xFF}, {0x00, 0x41}}[r.Intn(8)]
		if len(suf) <= len(b) {
			copy(b[len(b)-len(suf):], suf)
		}
		if r.Intn(6) == 0 {
			for i := range b {
				b[i] = 0
			}
		}
	default:
		r.Read(b)
	}
	return b
}

func randLen(r *rand.Rand, big bool) int {
	switch x := r.Intn(10); {
	case x < 4:
		return r.Intn(300)
	case x < 7: // around a multiple of 128
		n := 128*(1+r.Intn(6)) + r.Intn(5) - 2
		return n
	case x < 9 || !big:
		return r.Intn(3000)
	default:
		if r.Intn(4) == 0 { // around the third length-field boundary
			return 16384 + r.Intn(5) - 2
		}
		return 3000 + r.Intn(17001)
	}
}

var byteBounds = []int{0, 1, 2, 7, 8, 23, 24, 29, 30, 59, 60, 63, 64, 99, 100, 126, 127, 128, 129, 254, 255}

func bbyte(r *rand.Rand) int {
	if hx.Chance(r, 0.6) {
		return byteBounds[r.Intn(len(byteBounds))]
	}
	return r.Intn(256)
}

func nonzero(r *rand.Rand) int {
	for {
		if v := bbyte(r); v != 0 {
			return v
		}
	}
}

const maxField = 1<<24 - 1 // size of the 24-bit field: the generator's horizon, not an oracle

// tempo domain: bpm between the slowest and fastest value a 24-bit field of microseconds per quarter can denote.
// The float bounds are pushed one ulp inwards so that the exact rational TLC sees is inside the domain.
var (
	bpmLo = math.Nextafter(6e7/float64(maxField), math.Inf(1))
	bpmHi = 6e7
)

func clampBpm(f float64) float64 {
	if !(f >= bpmLo) {
		return bpmLo
	}
	if f > bpmHi {
		return bpmHi
	}
	return f
}

func tempi(r *rand.Rand, nrand int) []float64 {
	var out []float64
	add := func(f float64) { out = append(out, clampBpm(f)) }
	fields := []float64{1, 2, 3, 4, 127, 128, 255, 256, 257, 65535, 65536, 65537, 250000, 500000, 1000000, 8388607, 8388608,
		16777213, 16777214, 16777215}
	for _, f := range fields {
		// the tempo of the field itself, the rounding boundaries on both sides, and points in between
		for _, d := range []float64{0, 0.25, 0.4999999, 0.5, 0.5000001, 0.75, -0.25, -0.4999999, -0.5, -0.5000001} {
			if f+d > 0.5 {
				add(6e7 / (f + d))
			}
		}
		add(math.Nextafter(6e7/f, 0))
		add(math.Nextafter(6e7/f, math.Inf(1)))
	}
	for _, b := range []float64{bpmLo, bpmHi, 3.58, 3.6, 4, 20, 30, 40, 59.94, 60, 90, 100, 119.99, 120, 120.01, 121, 133.33, 140, 180, 200, 240,
		250, 300, 480, 500, 999, 1000, 65535, 1e6, 2e7, 3e7, 4e7, 5.9999999e7} {
		add(b)
	}
	for i := 0; i < nrand; i++ {
		switch i % 5 {
		case 0: // a field chosen on a log scale, the tempo it denotes
			f := math.Floor(math.Exp(r.Float64() * math.Log(maxField)))
			add(6e7 / f)
		case 1: // between two fields, anywhere
			f := math.Floor(math.Exp(r.Float64() * math.Log(maxField)))
			add(6e7 / (f + r.Float64() - 0.5))
		case 2: // near a rounding boundary
			f := math.Floor(math.Exp(r.Float64() * math.Log(maxField)))
			add(6e7 / (f + 0.5 + (r.Float64()-0.5)*1e-6))
		case 3: // musical tempi with few binary digits (dyadic), 1/64 steps
			add(float64(r.Intn(64*1000)+64*4) / 64)
		default: // log-uniform bpm
			add(math.Exp(math.Log(bpmLo) + r.Float64()*(math.Log(bpmHi)-math.Log(bpmLo))))
		}
	}
	return out
}

func cmdGen(args []string) {
	fs := flag.NewFlagSet("meta-gen", flag.ExitOnError)
	seed := fs.Int64("seed", 1, "")
	tier := fs.String("tier", "quick", "")
	out := fs.String("out", "", "")
	fs.Parse(args)
	r := rand.New(rand.NewSource(*seed*7919 + 15))
	thorough := *tier == "thorough"
	w := hx.Create(*out)
	id := 0
	put := func(c Call) {
		id++
		c.ID = id
		run(&c)
		w.Put(c)
	}

	// --- texts and sequencer data at the boundary lengths of the length field
	kinds := append(append([]string{}, textKinds...), "seqdata")
	for li, n := range boundaryLens {
		for ki, k := range kinds {
			if n == 0 && k == "seqdata" {
				continue // sequencer data is non-empty
			}
			// quick: the big lengths for a third of the kinds (rotating with the seed), everything else for all
			if !thorough && n > 1000 && (ki+li+int(*seed))%3 != 0 && k != "seqdata" {
				continue
			}
			put(Call{Ctor: k, Data: payload(r, n, (ki+li+int(*seed))%7)})
		}
	}
	nr := 400
	if thorough {
		nr = 6000
	}
	for i := 0; i < nr; i++ {
		k := kinds[r.Intn(len(kinds))]
		n := randLen(r, thorough || i%8 == 0)
		if k == "seqdata" && n == 0 {
			n = 1
		}
		put(Call{Ctor: k, Data: payload(r, n, r.Intn(7))})
	}

	// --- channel, port: every value
	for v := 0; v < 256; v++ {
		put(Call{Ctor: "channel", A: []int{v}})
		put(Call{Ctor: "port", A: []int{v}})
	}

	// --- sequence numbers: boundaries as single calls, then all 65536 in blocks
	for _, v := range []int{0, 1, 2, 126, 127, 128, 129, 255, 256, 257, 16383, 16384, 32767, 32768, 65534, 65535} {
		put(Call{Ctor: "seqno", A: []int{v}})
	}
	for i := 0; i < 40; i++ {
		put(Call{Ctor: "seqno", A: []int{r.Intn(65536)}})
	}
	const block = 4096
	for from := 0; from < 65536; from += block {
		id++
		w.Put(sweep(id, from, block))
	}

	// --- SMPTE offsets
	for _, v := range []int{0, 1, 127, 128, 255} {
		put(Call{Ctor: "smpte", A: []int{v, v, v, v, v}})
	}
	// structured: the hour byte carries the frame-rate bits (bits 5-6) besides the hour; small sets per field, full product
	// (a third of it in the quick tier, rotating with the seed)
	{
		k := 0
		for rate := 0; rate < 4; rate++ {
			for _, h := range []int{0, 1, 12, 23} {
				for _, mi := range []int{0, 1, 9, 10, 11, 59} {
					for _, se := range []int{0, 1, 59} {
						for _, fr := range []int{0, 1, 2, 23, 24, 28, 29} {
							for _, ff := range []int{0, 1, 99} {
								k++
								if thorough || (k+int(*seed))%3 == 0 {
									put(Call{Ctor: "smpte", A: []int{rate<<5 | h, mi, se, fr, ff}})
								}
							}
						}
					}
				}
			}
		}
	}
	ns := 300
	if thorough {
		ns = 5000
	}
	for i := 0; i < ns; i++ {
		put(Call{Ctor: "smpte", A: []int{bbyte(r), bbyte(r), bbyte(r), bbyte(r), bbyte(r)}})
	}

	// --- time signatures: every numerator x denominator pair (clock bytes generated, non-zero), and the meter shorthand
	denoms := []int{1, 2, 4, 8, 16, 32, 64, 128}
	for num := 0; num < 256; num++ {
		for _, d := range denoms {
			if thorough || (num+d+int(*seed))%4 == 0 || num < 13 {
				put(Call{Ctor: "timesig", A: []int{num, d, nonzero(r), nonzero(r)}})
			}
			if thorough || (num+d+int(*seed))%8 == 1 || num < 13 {
				put(Call{Ctor: "meter", A: []int{num, d}})
			}
		}
	}
	for _, cc := range []int{1, 2, 8, 24, 127, 128, 255} { // clock boundaries on common meters
		for _, bb := range []int{1, 8, 127, 128, 255} {
			put(Call{Ctor: "timesig", A: []int{4, 4, cc, bb}})
			put(Call{Ctor: "timesig", A: []int{6, 8, cc, bb}})
		}
	}

	// --- key signatures: every (tonic argument 0..11, accidentals 0..7, flat, major); TLC decides which are keys
	for n := 0; n <= 7; n++ {
		for _, flat := range []bool{false, true} {
			for _, major := range []bool{true, false} {
				for tonic := 0; tonic < 12; tonic++ {
					put(Call{Ctor: "key", A: []int{tonic, n}, Flat: flat, Major: major})
				}
			}
		}
	}
	for _, name := range namedKeyOrder {
		put(Call{Ctor: "named", Name: name})
	}

	// --- tempo
	nt := 1200
	if thorough {
		nt = 40000
	}
	for _, f := range tempi(r, nt) {
		put(Call{Ctor: "tempo", Bpm: dyOf(f)})
	}

	// --- undefined types and end of track
	nu := 60
	if thorough {
		nu = 1500
	}
	for i := 0; i < nu; i++ {
		n := randLen(r, false)
		if i < len(boundaryLens) {
			n = boundaryLens[i]
		}
		put(Call{Ctor: "undefined", A: []int{r.Intn(128)}, Data: payload(r, n, r.Intn(7))})
	}
	put(Call{Ctor: "eot"})
	w.Close()
}
