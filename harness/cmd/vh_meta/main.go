// vh_meta is the C15 harness: it calls the meta-event constructors of gomidi/midi/v2/smf with generated
// arguments, records the bytes they return and what EVERY GetMeta* accessor answers on those bytes, as NDJSON
// for TLC (spec/Trace_Meta.tla).  It contains no MIDI/SMF oracle: no expected bytes, no key table, no tempo
// arithmetic.  float64 values are recorded exactly as mantissa * 2^exp (mantissa in base-2^15 limbs).
//
//	vh_meta meta-gen   -seed N -tier quick|thorough -out calls.ndjson
//	vh_meta meta-rerun -in rec.ndjson -out rec2.ndjson       re-executes the inputs of each record
package main

import (
	"encoding/json"
	"flag"
	"fmt"
	"math"
	"os"
	"reflect"
	"strconv"
	"time"

	"gitlab.com/gomidi/midi/v2/smf"

	"verifharness/internal/hx"
)

// ---- records -------------------------------------------------------------------------------------------

// Dy is an exact float64: Kind pos|neg|zero|inf|nan; |value| = M (little-endian limbs, base 32768) * 2^E.
type Dy struct {
	Kind string `json:"kind"`
	M    []int  `json:"m"`
	E    int    `json:"e"`
	Dec  string `json:"dec"` // for humans only
}

type AccV struct {
	Ok bool  `json:"ok"`
	V  []int `json:"v"`
}
type AccS struct {
	Ok bool `json:"ok"`
	S  hx.B `json:"s"`
}
type AccK struct {
	Ok    bool `json:"ok"`
	Key   int  `json:"key"`
	Num   int  `json:"num"`
	Major bool `json:"major"`
	Flat  bool `json:"flat"`
}
type AccT struct {
	Ok  bool `json:"ok"`
	Bpm Dy   `json:"bpm"`
}

// Acc: the answer of every GetMeta* accessor on the constructor's bytes.
type Acc struct {
	Text       AccS `json:"text"`
	Copyright  AccS `json:"copyright"`
	Trackname  AccS `json:"trackname"`
	Instrument AccS `json:"instrument"`
	Lyric      AccS `json:"lyric"`
	Marker     AccS `json:"marker"`
	Cuepoint   AccS `json:"cuepoint"`
	Program    AccS `json:"program"`
	Device     AccS `json:"device"`
	Channel    AccV `json:"channel"`
	Port       AccV `json:"port"`
	Seqno      AccV `json:"seqno"`
	Seqdata    AccS `json:"seqdata"`
	Smpte      AccV `json:"smpte"`
	Tempo      AccT `json:"tempo"`
	Timesig    AccV `json:"timesig"`
	Meter      AccV `json:"meter"`
	Keysig     AccK `json:"keysig"`
	Key        AccK `json:"key"`
}

// Call is one experiment: constructor + arguments (inputs), bytes + accessor answers + panic (outputs).
type Call struct {
	Ev    string `json:"ev"`
	ID    int    `json:"id"`
	Ctor  string `json:"ctor"`
	Name  string `json:"name"` // named key constructor
	A     []int  `json:"a"`    // numeric arguments in the constructor's order
	Data  hx.B   `json:"data"` // text / sequencer data / undefined payload
	Major bool   `json:"major"`
	Flat  bool   `json:"flat"`
	Bpm   Dy     `json:"bpm"`
	Bytes hx.B   `json:"bytes"`
	Acc   Acc    `json:"acc"`
	// the accessors were asked a second time with their output variables holding other values beforehand (true, 0xA5, a
	// non-empty string / slice): did every accessor answer the same?  (an output must not depend on what the variable held)
	Stable bool   `json:"stable"`
	Panic  string `json:"panic"`
}

// Sweep is a block of consecutive sequence numbers.
type Sweep struct {
	Ev      string `json:"ev"`
	ID      int    `json:"id"`
	From    int    `json:"from"`
	Bytes   []hx.B `json:"bytes"`
	Oks     []bool `json:"oks"`
	Outs    []int  `json:"outs"`
	Foreign []int  `json:"foreign"` // numbers on whose bytes an accessor other than GetMetaSeqNumber accepted
	Panic   string `json:"panic"`
}

// ---- exact floats --------------------------------------------------------------------------------------

func dyOf(f float64) Dy {
	d := Dy{Kind: "pos", M: []int{}, Dec: strconv.FormatFloat(f, 'g', -1, 64)}
	switch {
	case math.IsNaN(f):
		d.Kind = "nan"
		return d
	case math.IsInf(f, 0):
		d.Kind = "inf"
		return d
	case f == 0:
		d.Kind = "zero"
		return d
	case f < 0:
		d.Kind = "neg"
		f = -f
	}
	fr, exp := math.Frexp(f)       // f = fr * 2^exp, 0.5 <= fr < 1
	mant := uint64(fr * (1 << 53)) // exact: 53 significant bits
	e := exp - 53
	for mant&1 == 0 {
		mant >>= 1
		e++
	}
	for mant > 0 {
		d.M = append(d.M, int(mant&0x7fff))
		mant >>= 15
	}
	d.E = e
	return d
}

func (d Dy) float() float64 {
	var mant uint64
	for i := len(d.M) - 1; i >= 0; i-- {
		mant = mant<<15 | uint64(d.M[i])
	}
	f := math.Ldexp(float64(mant), d.E)
	if d.Kind == "neg" {
		f = -f
	}
	return f
}

// ---- name -> constructor registries (bindings, not knowledge) -------------------------------------------

var textCtors = map[string]func(string) smf.Message{
	"text": smf.MetaText, "copyright": smf.MetaCopyright, "trackname": smf.MetaTrackSequenceName,
	"instrument": smf.MetaInstrument, "lyric": smf.MetaLyric, "marker": smf.MetaMarker,
	"cuepoint": smf.MetaCuepoint, "program": smf.MetaProgram, "device": smf.MetaDevice,
}

var textKinds = []string{"text", "copyright", "trackname", "instrument", "lyric", "marker", "cuepoint", "program", "device"}

var namedKeys = map[string]func() smf.Message{
	"CMaj": smf.CMaj, "DMaj": smf.DMaj, "EMaj": smf.EMaj, "FsharpMaj": smf.FsharpMaj, "GMaj": smf.GMaj, "AMaj": smf.AMaj,
	"BMaj": smf.BMaj, "FMaj": smf.FMaj, "BbMaj": smf.BbMaj, "EbMaj": smf.EbMaj, "AbMaj": smf.AbMaj, "DbMaj": smf.DbMaj,
	"GbMaj": smf.GbMaj, "AMin": smf.AMin, "BMin": smf.BMin, "CsharpMin": smf.CsharpMin, "DsharpMin": smf.DsharpMin,
	"EMin": smf.EMin, "FsharpMin": smf.FsharpMin, "GsharpMin": smf.GsharpMin, "DMin": smf.DMin, "GMin": smf.GMin,
	"CMin": smf.CMin, "FMin": smf.FMin, "BbMin": smf.BbMin, "EbMin": smf.EbMin,
}

var namedKeyOrder = []string{"CMaj", "DMaj", "EMaj", "FsharpMaj", "GMaj", "AMaj", "BMaj", "FMaj", "BbMaj", "EbMaj", "AbMaj",
	"DbMaj", "GbMaj", "AMin", "BMin", "CsharpMin", "DsharpMin", "EMin", "FsharpMin", "GsharpMin", "DMin", "GMin", "CMin",
	"FMin", "BbMin", "EbMin"}

// ---- execution -----------------------------------------------------------------------------------------

func construct(c *Call) smf.Message {
	a := func(i int) uint8 { return uint8(c.A[i]) }
	need := func(n int) {
		if len(c.A) != n {
			hx.Die("record", c.ID, c.Ctor, "needs", n, "arguments")
		}
	}
	if f, ok := textCtors[c.Ctor]; ok {
		return f(string(c.Data))
	}
	switch c.Ctor {
	case "seqdata":
		return smf.MetaSequencerData(append([]byte{}, c.Data...))
	case "channel":
		need(1)
		return smf.MetaChannel(a(0))
	case "port":
		need(1)
		return smf.MetaPort(a(0))
	case "seqno":
		need(1)
		return smf.MetaSequenceNo(uint16(c.A[0]))
	case "smpte":
		need(5)
		return smf.MetaSMPTE(a(0), a(1), a(2), a(3), a(4))
	case "timesig":
		need(4)
		return smf.MetaTimeSig(a(0), a(1), a(2), a(3))
	case "meter":
		need(2)
		return smf.MetaMeter(a(0), a(1))
	case "key":
		need(2)
		return smf.MetaKey(a(0), c.Major, a(1), c.Flat)
	case "named":
		f, ok := namedKeys[c.Name]
		if !ok {
			hx.Die("unknown named key", c.Name)
		}
		return f()
	case "tempo":
		return smf.MetaTempo(c.Bpm.float())
	case "undefined":
		need(1)
		return smf.MetaUndefined(a(0), append([]byte{}, c.Data...))
	case "eot":
		return append(smf.Message{}, smf.EOT...)
	}
	hx.Die("unknown constructor", c.Ctor)
	return nil
}

func b2i(bs ...uint8) []int {
	r := make([]int, len(bs))
	for i, b := range bs {
		r[i] = int(b)
	}
	return r
}

// observe asks every accessor; each call is guarded on its own, the first panic is kept.
func observe(m smf.Message, acc *Acc, poison bool) (pan string) {
	var pb uint8
	var pw uint16
	var ps string
	var pf float64
	var pbytes []byte
	if poison {
		pb, pw, ps, pf, pbytes = 0xA5, 0xA5A5, "poison", 12345.5, []byte{0xA5, 0xA5}
	}
	try := func(name string, fn func()) {
		if p := hx.Catch(fn); p != "" && pan == "" {
			pan = name + ": " + p
		}
	}
	txt := func(name string, get func(*string) bool, dst *AccS) {
		try(name, func() {
			s := ps
			ok := get(&s)
			if !ok {
				s = ""
			}
			*dst = AccS{ok, hx.B(s)}
		})
	}
	txt("GetMetaText", m.GetMetaText, &acc.Text)
	txt("GetMetaCopyright", m.GetMetaCopyright, &acc.Copyright)
	txt("GetMetaTrackName", m.GetMetaTrackName, &acc.Trackname)
	txt("GetMetaInstrument", m.GetMetaInstrument, &acc.Instrument)
	txt("GetMetaLyric", m.GetMetaLyric, &acc.Lyric)
	txt("GetMetaMarker", m.GetMetaMarker, &acc.Marker)
	txt("GetMetaCuepoint", m.GetMetaCuepoint, &acc.Cuepoint)
	txt("GetMetaProgramName", m.GetMetaProgramName, &acc.Program)
	txt("GetMetaDevice", m.GetMetaDevice, &acc.Device)
	try("GetMetaChannel", func() {
		v := pb
		ok := m.GetMetaChannel(&v)
		if !ok {
			v = 0
		}
		acc.Channel = AccV{ok, b2i(v)}
	})
	try("GetMetaPort", func() {
		v := pb
		ok := m.GetMetaPort(&v)
		if !ok {
			v = 0
		}
		acc.Port = AccV{ok, b2i(v)}
	})
	try("GetMetaSeqNumber", func() {
		v := pw
		ok := m.GetMetaSeqNumber(&v)
		if !ok {
			v = 0
		}
		acc.Seqno = AccV{ok, []int{int(v)}}
	})
	try("GetMetaSeqData", func() {
		v := pbytes
		ok := m.GetMetaSeqData(&v)
		if !ok {
			v = nil
		}
		acc.Seqdata = AccS{ok, append(hx.B{}, v...)}
	})
	try("GetMetaSMPTEOffsetMsg", func() {
		h, mi, s, f, ff := pb, pb, pb, pb, pb
		ok := m.GetMetaSMPTEOffsetMsg(&h, &mi, &s, &f, &ff)
		if !ok {
			h, mi, s, f, ff = 0, 0, 0, 0, 0
		}
		acc.Smpte = AccV{ok, b2i(h, mi, s, f, ff)}
	})
	try("GetMetaTempo", func() {
		bpm := pf
		ok := m.GetMetaTempo(&bpm)
		if !ok {
			bpm = 0
		}
		acc.Tempo = AccT{ok, dyOf(bpm)}
	})
	try("GetMetaTimeSig", func() {
		n, d, c, b := pb, pb, pb, pb
		ok := m.GetMetaTimeSig(&n, &d, &c, &b)
		if !ok {
			n, d, c, b = 0, 0, 0, 0
		}
		acc.Timesig = AccV{ok, b2i(n, d, c, b)}
	})
	try("GetMetaMeter", func() {
		n, d := pb, pb
		ok := m.GetMetaMeter(&n, &d)
		if !ok {
			n, d = 0, 0
		}
		acc.Meter = AccV{ok, b2i(n, d)}
	})
	try("GetMetaKeySig", func() {
		k, n := pb, pb
		maj, flat := poison, poison
		ok := m.GetMetaKeySig(&k, &n, &maj, &flat)
		if !ok {
			k, n, maj, flat = 0, 0, false, false
		}
		acc.Keysig = AccK{ok, int(k), int(n), maj, flat}
	})
	try("GetMetaKey", func() {
		k := smf.Key{Key: pb, Num: pb, IsMajor: poison, IsFlat: poison}
		ok := m.GetMetaKey(&k)
		if !ok {
			k = smf.Key{}
		}
		acc.Key = AccK{ok, int(k.Key), int(k.Num), k.IsMajor, k.IsFlat}
	})
	return pan
}

// partial asks the accessors with several outputs again with every subset of the outputs not wanted (nil): the answer
// and every output that is wanted must be what the call with all outputs gave.
func partial(m smf.Message, acc *Acc) bool {
	ptr := func(want bool, p *uint8) *uint8 {
		if want {
			return p
		}
		return nil
	}
	bptr := func(want bool, p *bool) *bool {
		if want {
			return p
		}
		return nil
	}
	same := func(mask int, ok, ok0 bool, got, full []int) bool {
		if ok != ok0 {
			return false
		}
		if !ok {
			return true
		}
		for i := range got {
			if mask&(1<<i) != 0 && got[i] != full[i] {
				return false
			}
		}
		return true
	}
	bi := func(b bool) int {
		if b {
			return 1
		}
		return 0
	}
	for mask := 0; mask < 32; mask++ {
		w := func(i int) bool { return mask&(1<<i) != 0 }
		if mask < 16 {
			var n, d, c, b uint8 = 0x5A, 0x5A, 0x5A, 0x5A
			ok := m.GetMetaTimeSig(ptr(w(0), &n), ptr(w(1), &d), ptr(w(2), &c), ptr(w(3), &b))
			full := acc.Timesig.V
			if len(full) != 4 {
				full = []int{0, 0, 0, 0}
			}
			if !same(mask, ok, acc.Timesig.Ok, b2i(n, d, c, b), full) {
				return false
			}
			var k, num uint8 = 0x5A, 0x5A
			maj, flat := true, true
			ok = m.GetMetaKeySig(ptr(w(0), &k), ptr(w(1), &num), bptr(w(2), &maj), bptr(w(3), &flat))
			if !same(mask, ok, acc.Keysig.Ok, []int{int(k), int(num), bi(maj), bi(flat)}, []int{acc.Keysig.Key, acc.Keysig.Num, bi(acc.Keysig.Major), bi(acc.Keysig.Flat)}) {
				return false
			}
		}
		if mask < 4 {
			var n, d uint8 = 0x5A, 0x5A
			ok := m.GetMetaMeter(ptr(w(0), &n), ptr(w(1), &d))
			full := acc.Meter.V
			if len(full) != 2 {
				full = []int{0, 0}
			}
			if !same(mask, ok, acc.Meter.Ok, b2i(n, d), full) {
				return false
			}
		}
		var h, mi, s, f, ff uint8 = 0x5A, 0x5A, 0x5A, 0x5A, 0x5A
		ok := m.GetMetaSMPTEOffsetMsg(ptr(w(0), &h), ptr(w(1), &mi), ptr(w(2), &s), ptr(w(3), &f), ptr(w(4), &ff))
		full := acc.Smpte.V
		if len(full) != 5 {
			full = []int{0, 0, 0, 0, 0}
		}
		if !same(mask, ok, acc.Smpte.Ok, b2i(h, mi, s, f, ff), full) {
			return false
		}
	}
	return true
}

func emptyAcc() Acc {
	s := AccS{S: hx.B{}}
	v := AccV{V: []int{}}
	return Acc{Text: s, Copyright: s, Trackname: s, Instrument: s, Lyric: s, Marker: s, Cuepoint: s, Program: s, Device: s,
		Channel: v, Port: v, Seqno: v, Seqdata: s, Smpte: v, Tempo: AccT{Bpm: dyOf(0)}, Timesig: v, Meter: v}
}

// run executes one call (constructor, then all accessors) under recover and a 30 s watchdog.
func run(c *Call) {
	c.Ev = "call"
	if c.A == nil {
		c.A = []int{}
	}
	if c.Data == nil {
		c.Data = hx.B{}
	}
	if c.Bpm.M == nil {
		c.Bpm = dyOf(0)
	}
	c.Bytes, c.Acc, c.Panic = hx.B{}, emptyAcc(), ""
	done := make(chan struct{})
	var bytes hx.B
	acc := emptyAcc()
	pan := ""
	stable := true
	go func() {
		defer close(done)
		var m smf.Message
		if p := hx.Catch(func() { m = construct(c) }); p != "" {
			pan = "constructor: " + p
			return
		}
		bytes = append(hx.B{}, m...)
		pan = observe(m, &acc, false)
		acc2 := emptyAcc()
		if pan2 := observe(m, &acc2, true); pan == "" {
			pan = pan2
		}
		stable = reflect.DeepEqual(acc, acc2)
		if pan == "" {
			if p := hx.Catch(func() { stable = stable && partial(m, &acc) }); p != "" {
				pan = "accessor with some outputs nil: " + p
			}
		}
	}()
	select {
	case <-done:
		c.Bytes, c.Acc, c.Panic, c.Stable = bytes, acc, pan, stable
	case <-time.After(30 * time.Second):
		c.Panic, c.Stable = "timeout: no answer within 30 s", true
	}
}

// sweep runs a block of sequence numbers; "foreign" is a structural observation (some other accessor said yes).
func sweep(id, from, n int) Sweep {
	s := Sweep{Ev: "seqsweep", ID: id, From: from, Bytes: []hx.B{}, Oks: []bool{}, Outs: []int{}, Foreign: []int{}}
	for v := from; v < from+n; v++ {
		var m smf.Message
		var acc Acc
		p := hx.Catch(func() { m = smf.MetaSequenceNo(uint16(v)) })
		if p == "" {
			acc = emptyAcc()
			p = observe(m, &acc, false)
		}
		if p != "" && s.Panic == "" {
			s.Panic = fmt.Sprintf("%d: %s", v, p)
		}
		s.Bytes = append(s.Bytes, append(hx.B{}, m...))
		s.Oks = append(s.Oks, acc.Seqno.Ok)
		out := -1
		if len(acc.Seqno.V) == 1 {
			out = acc.Seqno.V[0]
		}
		s.Outs = append(s.Outs, out)
		a := acc
		if a.Text.Ok || a.Copyright.Ok || a.Trackname.Ok || a.Instrument.Ok || a.Lyric.Ok || a.Marker.Ok || a.Cuepoint.Ok ||
			a.Program.Ok || a.Device.Ok || a.Channel.Ok || a.Port.Ok || a.Seqdata.Ok || a.Smpte.Ok || a.Tempo.Ok ||
			a.Timesig.Ok || a.Meter.Ok || a.Keysig.Ok || a.Key.Ok {
			s.Foreign = append(s.Foreign, v)
		}
	}
	return s
}

// ---- commands ------------------------------------------------------------------------------------------

func cmdRerun(args []string) {
	fs := flag.NewFlagSet("meta-rerun", flag.ExitOnError)
	in := fs.String("in", "", "")
	out := fs.String("out", "", "")
	fs.Parse(args)
	w := hx.Create(*out)
	hx.ReadLines(*in, func(line []byte) {
		var head struct {
			Ev string `json:"ev"`
		}
		if err := json.Unmarshal(line, &head); err != nil {
			hx.Die(err)
		}
		switch head.Ev {
		case "call":
			var c Call
			if err := json.Unmarshal(line, &c); err != nil {
				hx.Die(err)
			}
			run(&c)
			w.Put(c)
		case "seqsweep":
			var s Sweep
			if err := json.Unmarshal(line, &s); err != nil {
				hx.Die(err)
			}
			w.Put(sweep(s.ID, s.From, len(s.Bytes)))
		default:
			hx.Die("unknown ev", head.Ev)
		}
	})
	w.Close()
}

func main() {
	if len(os.Args) >= 2 {
		switch os.Args[1] {
		case "meta-gen":
			cmdGen(os.Args[2:])
			return
		case "meta-rerun":
			cmdRerun(os.Args[2:])
			return
		}
	}
	fmt.Fprintln(os.Stderr, "usage: vh_meta meta-gen|meta-rerun [flags]")
	os.Exit(3)
}
