// vh_midicat is the harness of property C19 (the midicat text line protocol).  It generates record sequences, writes
// them as text with the driver's own format verbs ("%d %X\n", see drivers/midicatdrv/out.go), optionally applies one of
// the property's mutation kinds, feeds the text to the REAL midicat.ReadAndConvert through a fragmenting io.Reader and
// records what successive calls returned.  It contains no oracle: TLC (spec/Trace_MidicatLine.tla) checks that the text
// is what the specification's encoder/mutations produce and judges the results.
package main

import (
	"encoding/json"
	"flag"
	"fmt"
	"io"
	"math"
	"math/rand"
	"os"
	"time"

	"gitlab.com/gomidi/midi/v2/drivers/midicat"

	"verifharness/internal/hx"
)

type Rec struct {
	Ts int32 `json:"ts"`
	B  hx.B  `json:"b"`
}

// Seg says how one line of the text was made from record Orig (1-based): Kind ok|oddhex|nonhex|lower|nosep|noterm,
// At = 1-based position in the unmutated line, Ch = replacement character (0 if none).
type Seg struct {
	Kind string `json:"kind"`
	Orig int    `json:"orig"`
	At   int    `json:"at"`
	Ch   int    `json:"ch"`
}

type Res struct {
	Kind string `json:"kind"` // rec | err | panic
	Ts   int32  `json:"ts"`
	B    hx.B   `json:"b"`
	Pos  int    `json:"pos"` // characters handed out by the reader so far
	EOF  bool   `json:"eof"` // err == io.EOF (informational)
	Msg  string `json:"msg"`
}

type Exp struct {
	ID    int      `json:"id"`
	Raw   bool     `json:"raw"`
	Recs  []Rec    `json:"recs"`
	Segs  []Seg    `json:"segs"`
	Text  hx.B     `json:"text"`
	Mode  string   `json:"mode"` // one | whole | rand | dataeof
	Sizes []int    `json:"sizes"`
	Res   []Res    `json:"res"`
	Stuck bool     `json:"stuck"`
	Feat  []string `json:"feat"`
}

// fragReader hands the text out in the given fragments; a Read never crosses a fragment boundary.
// mode dataeof: the last bytes are returned together with io.EOF (allowed by the io.Reader contract).
type fragReader struct {
	data    []byte
	sizes   []int
	ci, off int
	pos     int
	withEOF bool
	eofSeen bool
}

func newFrag(e *Exp) *fragReader {
	r := &fragReader{data: e.Text, withEOF: e.Mode == "dataeof"}
	switch e.Mode {
	case "one":
		r.sizes = make([]int, len(e.Text))
		for i := range r.sizes {
			r.sizes[i] = 1
		}
	case "whole":
		if len(e.Text) > 0 {
			r.sizes = []int{len(e.Text)}
		}
	default:
		r.sizes = e.Sizes
	}
	return r
}

func (r *fragReader) Read(p []byte) (int, error) {
	if len(p) == 0 {
		return 0, nil
	}
	if r.pos >= len(r.data) || r.ci >= len(r.sizes) {
		r.eofSeen = true
		return 0, io.EOF
	}
	n := r.sizes[r.ci] - r.off
	if n > len(p) {
		n = len(p)
	}
	if n > len(r.data)-r.pos {
		n = len(r.data) - r.pos
	}
	copy(p, r.data[r.pos:r.pos+n])
	r.pos += n
	r.off += n
	if r.off >= r.sizes[r.ci] {
		r.ci++
		r.off = 0
	}
	if r.withEOF && r.pos == len(r.data) {
		r.eofSeen = true
		return n, io.EOF
	}
	return n, nil
}

// execute runs successive ReadAndConvert calls until a call fails after the reader has reported EOF.
func execute(e *Exp) {
	type outT struct {
		res   []Res
		stuck bool
	}
	ch := make(chan outT, 1)
	text := append([]byte(nil), e.Text...)
	ec := *e
	ec.Text = text
	go func() {
		rd := newFrag(&ec)
		res := []Res{}
		limit := len(text) + 3
		for calls := 0; calls < limit; calls++ {
			var out []byte
			var ts int32
			var err error
			p := hx.Catch(func() { out, ts, err = midicat.ReadAndConvert(rd) })
			if p != "" {
				res = append(res, Res{Kind: "panic", B: hx.B{}, Pos: rd.pos, Msg: p})
				ch <- outT{res, false}
				return
			}
			if err != nil {
				res = append(res, Res{Kind: "err", B: hx.B{}, Pos: rd.pos, EOF: err == io.EOF, Msg: err.Error()})
				if rd.eofSeen {
					ch <- outT{res, false}
					return
				}
				continue
			}
			// the slice the call returned, NOT a copy: it is serialised when the experiment is over, so a record that a later
			// call overwrites (a reused buffer) shows up as changed content
			res = append(res, Res{Kind: "rec", Ts: ts, B: hx.B(out), Pos: rd.pos})
		}
		ch <- outT{res, true}
	}()
	select {
	case o := <-ch:
		e.Res, e.Stuck = o.res, o.stuck
	case <-time.After(30 * time.Second):
		e.Res, e.Stuck = []Res{{Kind: "panic", B: hx.B{}, Msg: "timeout: ReadAndConvert did not return within 30 s"}}, false
	}
}

// ---------------------------------------------------------------------------------------------- generator

func genTs(r *rand.Rand) int32 {
	switch r.Intn(10) {
	case 0, 1:
		return 0 // what the out port writes
	case 2:
		return int32(r.Intn(1000))
	case 3:
		return -int32(r.Intn(1000)) - 1
	case 4:
		return []int32{math.MinInt32, math.MaxInt32, -1, 1, 10, -10, 999999999, 1000000000, -1000000000, math.MinInt32 + 1}[r.Intn(10)]
	case 5, 6:
		return int32(r.Uint32()) // whole range, both signs
	case 7:
		return int32(r.Intn(1 << 20))
	default:
		return int32(r.Int63n(1<<32) - (1 << 31))
	}
}

func genBytes(r *rand.Rand, maxLen int) []byte {
	var n int
	switch x := r.Intn(20); {
	case x < 4:
		n = 1
	case x < 11:
		n = 2 + r.Intn(2)
	case x < 16:
		n = 4 + r.Intn(37)
	case x < 19:
		n = 41 + r.Intn(maxLen-40)
	default:
		n = maxLen
	}
	if n > maxLen {
		n = maxLen
	}
	b := make([]byte, n)
	special := []byte{0x00, 0x0A, 0x0D, 0x20, 0x09, 0xFF, 0x0F, 0xF0, 0xAA, 0x2D, 0x90, 0x80, 0xF7}
	for i := range b {
		switch r.Intn(4) {
		case 0:
			b[i] = special[r.Intn(len(special))]
		case 1:
			b[i] = byte(r.Intn(16)) // leading zero nibble
		default:
			b[i] = byte(r.Intn(256))
		}
	}
	return b
}

func isHex(c byte) bool {
	return (c >= '0' && c <= '9') || (c >= 'A' && c <= 'F') || (c >= 'a' && c <= 'f')
}

func junk(r *rand.Rand) byte {
	for {
		c := byte(33 + r.Intn(94))
		if !isHex(c) {
			return c
		}
	}
}

func indexByte(s []byte, c byte) int {
	for i, x := range s {
		if x == c {
			return i
		}
	}
	return -1
}

// mutate applies the mutation to the line (mechanically; TLC re-derives the text from recs+segs and compares).
func mutate(line []byte, g *Seg) []byte {
	switch g.Kind {
	case "ok":
		return line
	case "oddhex", "nosep", "noterm":
		return append(append([]byte{}, line[:g.At-1]...), line[g.At:]...)
	case "nonhex2":
		o := append([]byte{}, line...)
		o[g.At-1], o[g.At] = byte(g.Ch), byte(g.Ch)
		return o
	default:
		o := append([]byte{}, line...)
		o[g.At-1] = byte(g.Ch)
		return o
	}
}

func genExp(r *rand.Rand, id, maxLines, maxLen int) *Exp {
	e := &Exp{ID: id, Recs: []Rec{}, Segs: []Seg{}, Sizes: []int{}, Res: []Res{}, Feat: []string{}}
	n := 1 + r.Intn(maxLines)
	if r.Intn(25) == 0 {
		n = 0
	}
	nmut := 0
	if n > 0 && r.Intn(2) == 0 {
		nmut = 1 + r.Intn(2)
	}
	chain := n >= 3 && r.Intn(6) == 0 // several ADJACENT line terminators lost: three or more records glued into one line
	if chain {
		nmut = 0
	}
	lines := make([][]byte, n)
	for i := 0; i < n; i++ {
		rec := Rec{Ts: genTs(r), B: genBytes(r, maxLen)}
		e.Recs = append(e.Recs, rec)
		lines[i] = []byte(fmt.Sprintf("%d %X\n", rec.Ts, []byte(rec.B)))
		e.Segs = append(e.Segs, Seg{Kind: "ok", Orig: i + 1})
		if rec.Ts < 0 {
			e.feat("neg")
		}
		if len(rec.B) > 500 {
			e.feat("long")
		}
	}
	for k := 0; k < nmut; k++ {
		i := r.Intn(n)
		if e.Segs[i].Kind != "ok" || (i > 0 && e.Segs[i-1].Kind == "noterm") {
			continue
		}
		ln := lines[i]
		sep := indexByte(ln, ' ')        // 0-based
		hexLo, hexHi := sep+2, len(ln)-1 // 1-based positions of the hex part
		g := &e.Segs[i]
		switch r.Intn(9) {
		case 0, 1:
			g.Kind, g.At = "oddhex", hexLo+r.Intn(hexHi-hexLo+1)
		case 2, 3, 4:
			if r.Intn(3) == 0 { // a whole byte replaced by two non-hex characters (control characters included)
				c := byte(0)
				for c == 0 || c == '\n' || c == ' ' || isHex(c) {
					c = []byte{'\r', '\t', 0x0B, 0x7F, 0x80, 0xFF, byte(1 + r.Intn(255)), junk(r)}[r.Intn(8)]
				}
				g.Kind, g.At, g.Ch = "nonhex2", hexLo+2*r.Intn((hexHi-hexLo+1)/2), int(c)
				break
			}
			g.Kind, g.At, g.Ch = "nonhex", hexLo+r.Intn(hexHi-hexLo+1), int(junk(r))
			if r.Intn(3) == 0 { // prefer a first-nibble position beyond the first byte
				g.At = hexLo + 2*r.Intn((hexHi-hexLo+1)/2)
			}
		case 5:
			if r.Intn(2) == 0 { // a positive time stamp with any leading digit and 1..9 digits: glued to the data it may look like hex data (both parities occur)
				ts := int64(1 + r.Intn(9))
				for j := r.Intn(9); j > 0; j-- {
					ts = ts*10 + int64(r.Intn(10))
				}
				e.Recs[i].Ts = int32(ts)
				lines[i] = []byte(fmt.Sprintf("%d %X\n", e.Recs[i].Ts, []byte(e.Recs[i].B)))
				ln = lines[i]
				sep = indexByte(ln, ' ')
			}
			g.Kind, g.At = "nosep", sep+1
		case 6, 7:
			if i+1 < n && e.Segs[i+1].Kind != "ok" {
				continue
			}
			g.Kind, g.At = "noterm", len(ln)
		default:
			var cand []int
			for p := hexLo; p <= hexHi; p++ {
				if ln[p-1] >= 'A' && ln[p-1] <= 'F' {
					cand = append(cand, p)
				}
			}
			if len(cand) == 0 {
				continue
			}
			g.Kind, g.At = "lower", cand[r.Intn(len(cand))]
			g.Ch = int(ln[g.At-1]) + 32
		}
		e.feat("mut:" + g.Kind)
	}
	if chain {
		at := r.Intn(n - 2)
		for i := at; i < at+2+r.Intn(3) && i < n-1; i++ {
			e.Segs[i].Kind, e.Segs[i].At = "noterm", len(lines[i])
		}
		e.feat("mut:noterm_chain")
	}
	for i := 0; i < n; i++ {
		e.Text = append(e.Text, mutate(lines[i], &e.Segs[i])...)
	}
	if e.Text == nil {
		e.Text = hx.B{}
		e.feat("empty")
	}
	mutated := false
	for _, g := range e.Segs {
		mutated = mutated || g.Kind != "ok"
	}
	if !mutated {
		e.feat("wellformed")
	}
	e.Mode = []string{"one", "whole", "rand", "rand", "dataeof", "dataeof"}[r.Intn(6)]
	if e.Mode == "rand" || e.Mode == "dataeof" {
		maxf := []int{2, 3, 8, 64, 5000}[r.Intn(5)]
		for left := len(e.Text); left > 0; {
			k := 1 + r.Intn(maxf)
			if k > left {
				k = left
			}
			e.Sizes = append(e.Sizes, k)
			left -= k
		}
	}
	e.feat("mode:" + e.Mode)
	return e
}

func (e *Exp) feat(f string) {
	for _, x := range e.Feat {
		if x == f {
			return
		}
	}
	e.Feat = append(e.Feat, f)
}

func cmdGen(args []string) {
	fs := flag.NewFlagSet("midicat-gen", flag.ExitOnError)
	seed := fs.Int64("seed", 1, "")
	n := fs.Int("n", 100, "")
	maxLines := fs.Int("maxlines", 6, "")
	maxLen := fs.Int("maxbytes", 2000, "")
	out := fs.String("out", "", "")
	fs.Parse(args)
	r := rand.New(rand.NewSource(*seed*7919 + 19))
	w := hx.Create(*out)
	for i := 0; i < *n; i++ {
		ml := *maxLen
		if i%4 != 0 { // most experiments are small so that many fit in a run
			ml = 48
		}
		e := genExp(r, i+1, *maxLines, ml)
		execute(e)
		w.Put(e)
	}
	w.Close()
}

func cmdRerun(args []string) {
	fs := flag.NewFlagSet("midicat-rerun", flag.ExitOnError)
	in := fs.String("in", "", "")
	out := fs.String("out", "", "")
	fs.Parse(args)
	w := hx.Create(*out)
	hx.ReadLines(*in, func(d []byte) {
		var e Exp
		if err := json.Unmarshal(d, &e); err != nil {
			hx.Die(err)
		}
		if e.Recs == nil {
			e.Recs = []Rec{}
		}
		if e.Segs == nil {
			e.Segs = []Seg{}
		}
		if e.Sizes == nil {
			e.Sizes = []int{}
		}
		if e.Feat == nil {
			e.Feat = []string{}
		}
		if e.Text == nil {
			e.Text = hx.B{}
		}
		execute(&e)
		w.Put(&e)
	})
	w.Close()
}

func main() {
	cmds := map[string]func([]string){"midicat-gen": cmdGen, "midicat-rerun": cmdRerun}
	if len(os.Args) < 2 || cmds[os.Args[1]] == nil {
		fmt.Fprintln(os.Stderr, "usage: vh_midicat midicat-gen|midicat-rerun [flags]")
		os.Exit(3)
	}
	cmds[os.Args[1]](os.Args[2:])
}
