// vh_tempo is the harness of property C11 (tick-to-time conversion follows the tempo map).
// It builds files through the public API (tempo events as smf.MetaUndefined(0x51, 3 bytes)), writes them with
// WriteTo, reads them back with ReadFrom / ReadTracksFrom and records what SMF.TimeAt, TracksReader.Do,
// MetricTicks.Duration and MetricTicks.Ticks returned.  It contains no oracle: every number is logged as base-2^15
// limbs plus decimal digits and judged by TLC (spec/Trace_Tempo.tla).  math/big is used only to SELECT query ticks
// below the property's horizon (TLC re-checks the horizon and rejects a wrong selection as a generator bug).
package main

import (
	"bytes"
	"encoding/json"
	"flag"
	"fmt"
	"math"
	"math/big"
	"math/rand"
	"os"
	"sort"
	"strconv"
	"time"

	"gitlab.com/gomidi/midi/v2"
	"gitlab.com/gomidi/midi/v2/smf"

	"verifharness/internal/hx"
)

// ---- numbers ------------------------------------------------------------------------------------------

// Big is a natural number in two independently produced representations.
type Big struct {
	L []int `json:"l"` // little-endian base-2^15 limbs (shift and mask), no trailing zero limb, [] = 0
	D []int `json:"d"` // decimal digits, most significant first (strconv)
}

// SBig is a signed number: sign flag plus magnitude.
type SBig struct {
	Neg bool  `json:"neg"`
	L   []int `json:"l"`
	D   []int `json:"d"`
}

func bigOf(u uint64) Big {
	b := Big{L: []int{}, D: []int{}}
	for x := u; x > 0; x >>= 15 {
		b.L = append(b.L, int(x&0x7fff))
	}
	for _, c := range strconv.FormatUint(u, 10) {
		b.D = append(b.D, int(c-'0'))
	}
	return b
}

func sbigOf(i int64) SBig {
	var m uint64
	if i < 0 {
		m = uint64(-(i + 1)) + 1
	} else {
		m = uint64(i)
	}
	b := bigOf(m)
	return SBig{Neg: i < 0, L: b.L, D: b.D}
}

func (b Big) u64() uint64 {
	var u uint64
	for i := len(b.L) - 1; i >= 0; i-- {
		u = u<<15 | uint64(b.L[i])
	}
	return u
}

// ---- records ------------------------------------------------------------------------------------------

type Ev struct {
	D Big  `json:"d"` // delta ticks (input)
	U int  `json:"u"` // microseconds per quarter when the event is a tempo event, else -1
	M hx.B `json:"m"` // the message put into the track
}

type Trk struct {
	Evs   []Ev `json:"evs"`
	Close Big  `json:"close"` // delta of the end-of-track event
}

type DoEv struct {
	D  Big  `json:"d"`  // TrackEvent.Delta as handed out
	Us SBig `json:"us"` // TrackEvent.AbsMicroSeconds
}

// FiltEv is one event handed out by a TracksReader with a type filter (Only): which filter, which event of the
// unfiltered iteration it is (track k, position i, both 1-based; i = 0: no such event), and its AbsMicroSeconds.
type FiltEv struct {
	F  int  `json:"f"`
	K  int  `json:"k"`
	I  int  `json:"i"`
	Us SBig `json:"us"`
}

type Query struct {
	T Big  `json:"t"`
	R SBig `json:"r"` // SMF.TimeAt(t)
}

type MapRec struct {
	Ev      string   `json:"ev"` // "map"
	ID      int      `json:"id"`
	Res     int      `json:"res"`
	TT      int      `json:"tt"` // 1-based index of the track holding the tempo events
	Fmt     int      `json:"fmt"` // SMF format the file is written with: 0 (one track), 1 or 2 (ticks count per track from 0 in every format)
	Tracks  []Trk    `json:"tracks"`
	Queries []Query  `json:"queries"` // sorted by tick
	Do      [][]DoEv `json:"do"`      // per track, in the order TracksReader.Do handed the events out
	Filt    []FiltEv `json:"filt"`    // the events handed out under type filters
	Err     string   `json:"err"`     // "" or what failed (write/read error, panic, timeout)
	Feat    []string `json:"feat"`
}

type Triple struct {
	Res   int    `json:"res"`
	Mant  Big    `json:"mant"` // bpm = mant * 2^ex exactly (float64 bits)
	Ex    int    `json:"ex"`
	Ticks Big    `json:"ticks"`
	Dur   SBig   `json:"dur"`  // MetricTicks.Duration(bpm, ticks) in ns
	Back  Big    `json:"back"` // MetricTicks.Ticks(bpm, that duration)
	Pan   string `json:"pan"`
}

type InvRec struct {
	Ev      string   `json:"ev"` // "inv"
	ID      int      `json:"id"`
	Triples []Triple `json:"triples"`
}

// ---- execution on the real library ---------------------------------------------------------------------

func tempoMsg(u int) []byte {
	return smf.MetaUndefined(0x51, []byte{byte(u >> 16), byte(u >> 8), byte(u)})
}

func runMap(rec *MapRec) {
	rec.Ev = "map"
	type out struct {
		q    []Query
		do   [][]DoEv
		filt []FiltEv
		err  string
	}
	ch := make(chan out, 1)
	go func() {
		var o out
		o.do = [][]DoEv{}
		o.q = []Query{}
		p := hx.Catch(func() {
			var s *smf.SMF
			switch {
			case rec.Fmt == 2:
				s = smf.NewSMF2()
			case len(rec.Tracks) == 1 && rec.Fmt == 0:
				s = smf.New()
			default:
				s = smf.NewSMF1()
			}
			s.TimeFormat = smf.MetricTicks(rec.Res)
			for _, t := range rec.Tracks {
				var tr smf.Track
				for _, e := range t.Evs {
					tr.Add(uint32(e.D.u64()), append([]byte{}, e.M...))
				}
				tr.Close(uint32(t.Close.u64()))
				s.Add(tr)
			}
			var buf bytes.Buffer
			if _, err := s.WriteTo(&buf); err != nil {
				o.err = "write: " + err.Error()
				return
			}
			file := append([]byte{}, buf.Bytes()...)
			rd, err := smf.ReadFrom(bytes.NewReader(file))
			if err != nil {
				o.err = "read: " + err.Error()
				return
			}
			// queries in a shuffled order (TimeAt must not depend on call history), stored sorted
			idx := rand.New(rand.NewSource(int64(rec.ID))).Perm(len(rec.Queries))
			res := make([]int64, len(rec.Queries))
			for _, i := range idx {
				res[i] = rd.TimeAt(int64(rec.Queries[i].T.u64()))
			}
			for i, q := range rec.Queries {
				o.q = append(o.q, Query{T: q.T, R: sbigOf(res[i])})
			}
			tr := smf.ReadTracksFrom(bytes.NewReader(file))
			if tr.Error() != nil {
				o.err = "readtracks: " + tr.Error().Error()
				return
			}
			n := int(tr.SMF().NumTracks())
			for i := 0; i < n; i++ {
				o.do = append(o.do, []DoEv{})
			}
			type raw struct {
				t int64
				m string
			}
			raws := make([][]raw, n)
			tr.Do(func(te smf.TrackEvent) {
				if te.TrackNo >= 0 && te.TrackNo < n {
					o.do[te.TrackNo] = append(o.do[te.TrackNo], DoEv{D: bigOf(uint64(te.Delta)), Us: sbigOf(te.AbsMicroSeconds)})
					raws[te.TrackNo] = append(raws[te.TrackNo], raw{te.AbsTicks, string(te.Message)})
				}
			})
			// the same file iterated under type filters: a handed-out event is an event of the unfiltered iteration
			filters := [][]midi.Type{{midi.NoteOnMsg}, {midi.ChannelMsg}, {smf.MetaMsg}, {smf.MetaTempoMsg},
				{midi.NoteOffMsg, midi.ProgramChangeMsg, midi.ControlChangeMsg}, {smf.MetaTextMsg, midi.NoteOnMsg}}
			nev := 0
			for _, t := range raws {
				nev += len(t)
			}
			for fi, f := range filters {
				if nev > 300 && fi != rec.ID%len(filters) { // long files: one filter each
					continue
				}
				ft := smf.ReadTracksFrom(bytes.NewReader(file)).Only(f...)
				at := make([]int, n)
				ft.Do(func(te smf.TrackEvent) {
					k, i := te.TrackNo, 0
					if k >= 0 && k < n {
						for j := at[k]; j < len(raws[k]); j++ {
							if raws[k][j].t == te.AbsTicks && raws[k][j].m == string(te.Message) {
								i, at[k] = j+1, j+1
								break
							}
						}
					}
					o.filt = append(o.filt, FiltEv{F: fi, K: k + 1, I: i, Us: sbigOf(te.AbsMicroSeconds)})
				})
			}
		})
		if p != "" {
			o.err = "panic: " + p
		}
		ch <- o
	}()
	select {
	case o := <-ch:
		rec.Err = o.err
		rec.Do = o.do
		rec.Filt = o.filt
		if rec.Filt == nil {
			rec.Filt = []FiltEv{}
		}
		if o.err == "" {
			rec.Queries = o.q
		}
	case <-time.After(30 * time.Second):
		rec.Err = "timeout"
		rec.Do = [][]DoEv{}
		rec.Filt = []FiltEv{}
	}
	if rec.Err != "" { // uniform record: queries keep their ticks, results zero
		for i := range rec.Queries {
			rec.Queries[i].R = sbigOf(0)
		}
	}
}

func bpmOf(t *Triple) float64 { return math.Ldexp(float64(t.Mant.u64()), t.Ex) }

func runInv(rec *InvRec) {
	rec.Ev = "inv"
	for i := range rec.Triples {
		t := &rec.Triples[i]
		bpm := bpmOf(t)
		mt := smf.MetricTicks(uint16(t.Res))
		n := uint32(t.Ticks.u64())
		var d time.Duration
		var back uint32
		t.Pan = hx.Catch(func() {
			d = mt.Duration(bpm, n)
			back = mt.Ticks(bpm, d)
		})
		t.Dur = sbigOf(int64(d))
		t.Back = bigOf(uint64(back))
	}
}

// ---- selection of queries below the horizon (math/big, never used to judge) -------------------------------

type chg struct {
	t uint64
	u int
}

// exact time numerator (time = num/res microseconds) of tick t for changes in file order
func numAt(cs []chg, t uint64) *big.Int {
	sum := new(big.Int)
	prevT, prevU := uint64(0), 500000
	add := func(from, to uint64, u int) {
		if to > from {
			x := new(big.Int).SetUint64(to - from)
			sum.Add(sum, x.Mul(x, big.NewInt(int64(u))))
		}
	}
	for _, c := range cs {
		if c.t >= t {
			break
		}
		add(prevT, c.t, prevU)
		prevT, prevU = c.t, c.u
	}
	add(prevT, t, prevU)
	return sum
}

func below(cs []chg, t uint64, res int, pow uint) bool {
	lim := new(big.Int).Lsh(big.NewInt(int64(res)), pow)
	return numAt(cs, t).Cmp(lim) < 0
}

// largest tick <= cap whose exact time is below 2^41 us
func horizonTick(cs []chg, res int, cap uint64) uint64 {
	if below(cs, cap, res, 41) {
		return cap
	}
	lo, hi := uint64(0), cap // below(lo) true, below(hi) false
	for hi-lo > 1 {
		mid := lo + (hi-lo)/2
		if below(cs, mid, res, 41) {
			lo = mid
		} else {
			hi = mid
		}
	}
	return lo
}

// ---- generators ---------------------------------------------------------------------------------------

var resChoices = []int{1, 1, 2, 3, 24, 48, 96, 96, 120, 192, 384, 480, 480, 960, 960, 1920, 15360, 32767}

func pickRes(r *rand.Rand) int {
	if hx.Chance(r, 0.25) {
		return 1 + r.Intn(32767)
	}
	return resChoices[r.Intn(len(resChoices))]
}

func pickU(r *rand.Rand, class int) int {
	switch class {
	case 0: // edges of the 24-bit range
		return hx.Pick(r, 0, 1, 2, 3, 16777215, 16777214, 500000, 499999, 500001, 8388608)
	case 1: // musical tempi 30..400 BPM
		return 150000 + r.Intn(1850001)
	case 2: // anything
		return r.Intn(1 << 24)
	case 3: // powers of two and neighbours
		return (1<<uint(r.Intn(24)) + r.Intn(3) - 1) & 0xffffff
	case 4: // values whose BPM is not representable / is: 60e6/u with small u
		return 1 + r.Intn(2000)
	default:
		return pickU(r, r.Intn(5))
	}
}

func pickDelta(r *rand.Rand, class int, zero float64) uint32 {
	if hx.Chance(r, zero) {
		return 0
	}
	switch class {
	case 0:
		return uint32(1 + r.Intn(3))
	case 1:
		return uint32(1 + r.Intn(500))
	case 2:
		return uint32(1 + r.Intn(100000))
	case 3:
		return uint32(1 + r.Intn(1<<28-1))
	case 4:
		return uint32(1 + r.Int63n(1<<32-1))
	default:
		return pickDelta(r, r.Intn(4), 0)
	}
}

func otherMsg(r *rand.Rand) []byte {
	switch r.Intn(5) {
	case 0:
		return []byte{0x90 | byte(r.Intn(16)), byte(r.Intn(128)), byte(1 + r.Intn(127))}
	case 1:
		return []byte{0x80 | byte(r.Intn(16)), byte(r.Intn(128)), byte(r.Intn(128))}
	case 2:
		return []byte{0xB0 | byte(r.Intn(16)), byte(r.Intn(120)), byte(r.Intn(128))}
	case 3:
		return smf.MetaText("x")
	default:
		return []byte{0xC0 | byte(r.Intn(16)), byte(r.Intn(128))}
	}
}

// genMap builds one experiment.  wide=false keeps every tick below 2^32; with wide=true about one map in eight
// has absolute ticks / query ticks of 2^32 and more (int64 in the API; uint32 deltas add up).
func genMap(r *rand.Rand, id, nq int, wide bool) *MapRec {
	wide = wide && hx.Chance(r, 0.125)
	rec := &MapRec{ID: id, Res: pickRes(r), Feat: []string{}}
	feat := map[string]bool{}
	ntr := hx.Pick(r, 1, 1, 2, 3)
	rec.TT = 1 + r.Intn(ntr)
	if ntr > 1 {
		rec.Fmt = 1
	}
	if r.Intn(3) == 0 { // independent sequences: every track still counts its ticks from 0
		rec.Fmt = 2
		feat["format2"] = true
	}
	dclass := hx.Pick(r, 0, 1, 1, 2, 2, 3, 4, 5)
	uclass := r.Intn(6)
	zero := []float64{0, 0.1, 0.3, 0.6}[r.Intn(4)]
	var ntempo int
	switch r.Intn(8) {
	case 0:
		ntempo = 0
	case 1, 2, 3:
		ntempo = 1 + r.Intn(5)
	case 4, 5:
		ntempo = 6 + r.Intn(35)
	default:
		ntempo = 1 + r.Intn(12)
	}
	cluster := -1 // position of a burst of >12 changes on one tick
	if ntempo > 0 && hx.Chance(r, 0.2) {
		cluster = r.Intn(ntempo)
	}
	budget := uint64(math.MaxUint64)
	if !wide {
		budget = 1<<32 - 1
	}
	var cs []chg
	var bounds []uint64
	ends := []uint64{}
	for k := 1; k <= ntr; k++ {
		var t Trk
		t.Evs = []Ev{}
		var abs uint64
		left := budget
		delta := func(zero float64) uint32 {
			d := pickDelta(r, dclass, zero)
			if uint64(d) > left {
				d = uint32(left)
			}
			left -= uint64(d)
			abs += uint64(d)
			return d
		}
		if k == rec.TT {
			firstZero := hx.Chance(r, 0.4)
			for i := 0; i < ntempo; i++ {
				for hx.Chance(r, 0.35) { // other events between the tempo events
					t.Evs = append(t.Evs, Ev{D: bigOf(uint64(delta(zero))), U: -1, M: otherMsg(r)})
				}
				z := zero
				if i == 0 {
					if firstZero {
						z = 1
					} else {
						z = 0
					}
				}
				d := delta(z)
				if i == 0 {
					if abs == 0 {
						feat["first_at_0"] = true
					} else {
						feat["first_after_0"] = true
					}
				}
				u := pickU(r, uclass)
				t.Evs = append(t.Evs, Ev{D: bigOf(uint64(d)), U: u, M: tempoMsg(u)})
				cs = append(cs, chg{abs, u})
				bounds = append(bounds, abs)
				if d == 0 && i > 0 {
					feat["repeated_tick"] = true
				}
				if u == 0 {
					feat["uspq_0"] = true
				}
				if u == 1 {
					feat["uspq_1"] = true
				}
				if u == 1<<24-1 {
					feat["uspq_max"] = true
				}
				if i == cluster {
					n := 12 + r.Intn(20)
					for j := 0; j < n; j++ {
						u := pickU(r, uclass)
						if hx.Chance(r, 0.3) {
							t.Evs = append(t.Evs, Ev{D: bigOf(0), U: -1, M: otherMsg(r)})
						}
						t.Evs = append(t.Evs, Ev{D: bigOf(0), U: u, M: tempoMsg(u)})
						cs = append(cs, chg{abs, u})
					}
					feat["gt12_on_one_tick"] = true
				}
			}
			for hx.Chance(r, 0.5) {
				t.Evs = append(t.Evs, Ev{D: bigOf(uint64(delta(zero))), U: -1, M: otherMsg(r)})
			}
		} else {
			n := r.Intn(25)
			for i := 0; i < n; i++ {
				t.Evs = append(t.Evs, Ev{D: bigOf(uint64(delta(zero))), U: -1, M: otherMsg(r)})
			}
		}
		t.Close = bigOf(uint64(delta(0.5)))
		ends = append(ends, abs)
		rec.Tracks = append(rec.Tracks, t)
	}
	if ntempo == 0 {
		feat["no_tempo"] = true
	}
	// ---- query ticks
	var maxEnd uint64
	for _, e := range ends {
		if e > maxEnd {
			maxEnd = e
		}
	}
	cap := uint64(1) << 45
	if !wide {
		cap = 1<<32 - 1
	}
	hz := horizonTick(cs, rec.Res, cap)
	cand := map[uint64]bool{0: true, 1: true, 2: true, hz: true}
	if hz > 0 {
		cand[hz-1] = true
	}
	addc := func(t uint64) {
		if t <= hz {
			cand[t] = true
		}
	}
	perm := r.Perm(len(bounds))
	for i, p := range perm {
		if i >= nq/3 {
			break
		}
		b := bounds[p]
		addc(b)
		addc(b + 1)
		addc(b + 2)
		if b > 0 {
			addc(b - 1)
		}
	}
	for _, e := range ends {
		addc(e)
		addc(e + 1)
	}
	hi := maxEnd + maxEnd/3 + 10
	if hi > hz {
		hi = hz
	}
	for i := 0; len(cand) < nq && i < 4*nq; i++ {
		switch r.Intn(4) {
		case 0: // anywhere below the horizon (log-uniform)
			addc(uint64(math.Exp(r.Float64() * math.Log(float64(hz)+1))))
		case 1:
			addc(uint64(r.Int63n(int64(hz) + 1)))
		default:
			addc(uint64(r.Int63n(int64(hi) + 1)))
		}
	}
	var ts []uint64
	for t := range cand {
		ts = append(ts, t)
	}
	sort.Slice(ts, func(a, b int) bool { return ts[a] < ts[b] })
	for len(ts) > nq { // drop random ones
		i := r.Intn(len(ts))
		ts = append(ts[:i], ts[i+1:]...)
	}
	rec.Queries = []Query{}
	for _, t := range ts {
		if !below(cs, t, rec.Res, 41) {
			continue
		}
		rec.Queries = append(rec.Queries, Query{T: bigOf(t), R: sbigOf(0)})
		if t >= 1<<32 {
			feat["tick_ge_2^32"] = true
		}
	}
	for f := range feat {
		rec.Feat = append(rec.Feat, f)
	}
	sort.Strings(rec.Feat)
	return rec
}

// dyadic form of a positive normal float64
func dyadic(f float64) (mant uint64, ex int, ok bool) {
	b := math.Float64bits(f)
	e := int(b>>52) & 0x7ff
	if f <= 0 || e == 0 || e == 0x7ff {
		return 0, 0, false
	}
	mant = b&(1<<52-1) | 1<<52
	ex = e - 1075
	for mant&1 == 0 {
		mant >>= 1
		ex++
	}
	return mant, ex, true
}

func genTriple(r *rand.Rand) (Triple, bool) {
	res := hx.Pick(r, 0, 1, 2, 24, 96, 120, 480, 960, 960, 1920, 32767, 65535, 1+r.Intn(65535), 1+r.Intn(2000))
	var bpm float64
	switch r.Intn(6) {
	case 0: // what the reader computes for a tempo event
		bpm = float64(60000000) / float64(1+r.Intn(1<<24-1))
	case 1:
		bpm = float64(60000000) / float64(pickU(r, 1))
	case 2:
		bpm = float64(1 + r.Intn(1000))
	case 3:
		bpm = float64(1+r.Intn(2000)) / 2
	case 4:
		bpm = math.Exp(math.Log(0.01) + r.Float64()*math.Log(1e9))
	default:
		bpm = 20 + r.Float64()*480
	}
	mant, ex, ok := dyadic(bpm)
	if !ok {
		return Triple{}, false
	}
	eff := res
	if eff == 0 {
		eff = 960
	}
	rate := new(big.Rat).SetFloat64(bpm) // ticks per minute = bpm * res
	rate.Mul(rate, big.NewRat(int64(eff), 1))
	if rate.Cmp(big.NewRat(600000000, 1)) >= 0 {
		return Triple{}, false
	}
	// ticks with duration below 2^40 us:  n < 2^40 * bpm * res / 60e6
	lim := new(big.Rat).Mul(rate, new(big.Rat).SetFrac(new(big.Int).Lsh(big.NewInt(1), 40), big.NewInt(60000000)))
	maxN := new(big.Int).Quo(lim.Num(), lim.Denom()) // floor
	if new(big.Rat).SetInt(maxN).Cmp(lim) == 0 {
		maxN.Sub(maxN, big.NewInt(1))
	}
	if maxN.Sign() < 0 {
		return Triple{}, false
	}
	top := uint64(math.MaxUint32)
	if maxN.IsUint64() && maxN.Uint64() < top {
		top = maxN.Uint64()
	}
	var n uint64
	switch r.Intn(6) {
	case 0:
		n = top - uint64(r.Intn(3))
		if n > top {
			n = top
		}
	case 1:
		n = uint64(r.Intn(4))
	case 2:
		n = uint64(r.Int63n(int64(top) + 1))
	default:
		n = uint64(math.Exp(r.Float64() * math.Log(float64(top)+1)))
	}
	if n > top {
		n = top
	}
	return Triple{Res: res, Mant: bigOf(mant), Ex: ex, Ticks: bigOf(n), Dur: sbigOf(0), Back: bigOf(0)}, true
}

// ---- commands -----------------------------------------------------------------------------------------

func cmdGen(args []string) {
	fs := flag.NewFlagSet("tempo-gen", flag.ExitOnError)
	n := fs.Int("n", 200, "maps")
	nq := fs.Int("q", 50, "queries per map")
	seed := fs.Int64("seed", 1, "seed")
	wide := fs.Bool("wide", true, "allow ticks of 2^32 and more (int64 tick arguments, uint32 deltas that add up)")
	out := fs.String("out", "", "output ndjson")
	fs.Parse(args)
	r := rand.New(rand.NewSource(*seed*7919 + 11))
	w := hx.Create(*out)
	for i := 0; i < *n; i++ {
		rec := genMap(r, int(*seed)*1000000+i, *nq, *wide)
		runMap(rec)
		w.Put(rec)
	}
	w.Close()
}

func cmdInv(args []string) {
	fs := flag.NewFlagSet("tempo-inv", flag.ExitOnError)
	n := fs.Int("n", 5000, "triples")
	per := fs.Int("per", 50, "triples per record")
	seed := fs.Int64("seed", 1, "seed")
	out := fs.String("out", "", "output ndjson")
	fs.Parse(args)
	r := rand.New(rand.NewSource(*seed*104729 + 5))
	w := hx.Create(*out)
	id := 0
	for made := 0; made < *n; {
		rec := &InvRec{ID: int(*seed)*1000000 + id, Triples: []Triple{}}
		id++
		for len(rec.Triples) < *per && made < *n {
			if t, ok := genTriple(r); ok {
				rec.Triples = append(rec.Triples, t)
				made++
			}
		}
		runInv(rec)
		w.Put(rec)
	}
	w.Close()
}

// tempo-rerun re-executes the inputs of recorded experiments (either kind) on the library and writes fresh records.
func cmdRerun(args []string) {
	fs := flag.NewFlagSet("tempo-rerun", flag.ExitOnError)
	in := fs.String("in", "", "input ndjson")
	out := fs.String("out", "", "output ndjson")
	fs.Parse(args)
	w := hx.Create(*out)
	hx.ReadLines(*in, func(line []byte) {
		var k struct {
			Ev string `json:"ev"`
		}
		if err := json.Unmarshal(line, &k); err != nil {
			hx.Die(err)
		}
		switch k.Ev {
		case "map":
			var rec MapRec
			if err := json.Unmarshal(line, &rec); err != nil {
				hx.Die(err)
			}
			runMap(&rec)
			w.Put(&rec)
		case "inv":
			var rec InvRec
			if err := json.Unmarshal(line, &rec); err != nil {
				hx.Die(err)
			}
			runInv(&rec)
			w.Put(&rec)
		default:
			hx.Die("unknown record kind", k.Ev)
		}
	})
	w.Close()
}

func main() {
	cmds := map[string]func([]string){"tempo-gen": cmdGen, "tempo-inv": cmdInv, "tempo-rerun": cmdRerun}
	if len(os.Args) < 2 || cmds[os.Args[1]] == nil {
		fmt.Fprintln(os.Stderr, "usage: vh_tempo tempo-gen|tempo-inv|tempo-rerun [flags]")
		os.Exit(3)
	}
	cmds[os.Args[1]](os.Args[2:])
}
