// vh_msg: harness for C07 (constructors/accessors/loopback) and C08 (classification).
// Exhaustive sweeps (binding X) look their answers up in tables that TLC exported from spec/MidiMessage.tla; the few
// lines of composition glue are re-validated in every run by TLC judging sampled records (spec/Trace_Msg.tla).
package main

import (
	"encoding/json"
	"flag"
	"fmt"
	"math/rand"
	"os"
	"runtime/debug"
	"strconv"
	"sync"

	"gitlab.com/gomidi/midi/v2"
	"gitlab.com/gomidi/midi/v2/drivers"
	"gitlab.com/gomidi/midi/v2/drivers/testdrv"
	"gitlab.com/gomidi/midi/v2/smf"

	"verifharness/internal/hx"
)

// ---------------------------------------------------------------------------------------------------------
// accessors

type accRes struct {
	Ok  bool  `json:"ok"`
	Out []int `json:"out"`
	// the same values, each fetched by a call that passes ONLY that one pointer (the others nil; "only arguments that are
	// not nil are parsed and filled"); empty for accessors with fewer than two arguments and for rejected messages
	Single []int `json:"single"`
}

// midiAccSingle fetches every value of accessor i with a call of its own, all other pointers nil.
func midiAccSingle(i int, m midi.Message) []int {
	var a, b, c uint8
	var rel int16
	var abs uint16
	switch i {
	case 0:
		m.GetNoteOn(&a, nil, nil)
		m.GetNoteOn(nil, &b, nil)
		m.GetNoteOn(nil, nil, &c)
		return []int{int(a), int(b), int(c)}
	case 1:
		m.GetNoteOff(&a, nil, nil)
		m.GetNoteOff(nil, &b, nil)
		m.GetNoteOff(nil, nil, &c)
		return []int{int(a), int(b), int(c)}
	case 2:
		m.GetPolyAfterTouch(&a, nil, nil)
		m.GetPolyAfterTouch(nil, &b, nil)
		m.GetPolyAfterTouch(nil, nil, &c)
		return []int{int(a), int(b), int(c)}
	case 3:
		m.GetAfterTouch(&a, nil)
		m.GetAfterTouch(nil, &b)
		return []int{int(a), int(b)}
	case 4:
		m.GetProgramChange(&a, nil)
		m.GetProgramChange(nil, &b)
		return []int{int(a), int(b)}
	case 5:
		m.GetPitchBend(&a, nil, nil)
		m.GetPitchBend(nil, &rel, nil)
		m.GetPitchBend(nil, nil, &abs)
		return []int{int(a), int(rel), int(abs)}
	case 6:
		m.GetControlChange(&a, nil, nil)
		m.GetControlChange(nil, &b, nil)
		m.GetControlChange(nil, nil, &c)
		return []int{int(a), int(b), int(c)}
	}
	return []int{}
}

var midiAccNames = []string{"NoteOn", "NoteOff", "PolyAfterTouch", "AfterTouch", "ProgramChange", "PitchBend", "ControlChange", "MTC", "SongSelect", "SPP", "SysEx"}

func bytesToInts(b []byte) []int {
	o := make([]int, len(b))
	for i, x := range b {
		o[i] = int(x)
	}
	return o
}

// midiAcc runs accessor i (index into midiAccNames) on m.
// poison: the output variables hold other values (0xA5..) before the call -- an accessor that accepts must overwrite them all
func midiAcc(i int, m midi.Message, poison bool) (bool, [3]int, []byte) {
	var a, b, c uint8
	var rel int16
	var abs, spp uint16
	var sx []byte
	if poison {
		a, b, c, rel, abs, spp, sx = 0xA5, 0xA5, 0xA5, 0x2A5A, 0xA5A5, 0xA5A5, []byte{0xA5}
	}
	switch i {
	case 0:
		if m.GetNoteOn(&a, &b, &c) {
			return true, [3]int{int(a), int(b), int(c)}, nil
		}
	case 1:
		if m.GetNoteOff(&a, &b, &c) {
			return true, [3]int{int(a), int(b), int(c)}, nil
		}
	case 2:
		if m.GetPolyAfterTouch(&a, &b, &c) {
			return true, [3]int{int(a), int(b), int(c)}, nil
		}
	case 3:
		if m.GetAfterTouch(&a, &b) {
			return true, [3]int{int(a), int(b), -1}, nil
		}
	case 4:
		if m.GetProgramChange(&a, &b) {
			return true, [3]int{int(a), int(b), -1}, nil
		}
	case 5:
		if m.GetPitchBend(&a, &rel, &abs) {
			return true, [3]int{int(a), int(rel), int(abs)}, nil
		}
	case 6:
		if m.GetControlChange(&a, &b, &c) {
			return true, [3]int{int(a), int(b), int(c)}, nil
		}
	case 7:
		if m.GetMTC(&a) {
			return true, [3]int{int(a), -1, -1}, nil
		}
	case 8:
		if m.GetSongSelect(&a) {
			return true, [3]int{int(a), -1, -1}, nil
		}
	case 9:
		if m.GetSPP(&spp) {
			return true, [3]int{int(spp), -1, -1}, nil
		}
	case 10:
		if m.GetSysEx(&sx) {
			return true, [3]int{-1, -1, -1}, sx
		}
	}
	return false, [3]int{}, nil
}

var accArity = []int{3, 3, 3, 2, 2, 3, 3, 1, 1, 1, 0}

func allMidiAcc(m midi.Message) map[string]accRes {
	r := map[string]accRes{}
	for i, n := range midiAccNames {
		ok, v, sx := midiAcc(i, m, false)
		if ok2, v2, sx2 := midiAcc(i, m, true); ok2 != ok || (ok && (v2 != v || string(sx2) != string(sx))) {
			ok, v, sx = ok2, v2, sx2 // the answer depends on what the variables held before: report the other one
		}
		a := accRes{Ok: ok, Out: []int{}, Single: []int{}}
		if ok {
			if i == 10 {
				a.Out = bytesToInts(sx)
			} else {
				a.Out = append(a.Out, v[:accArity[i]]...)
				a.Single = midiAccSingle(i, m)
			}
		}
		r[n] = a
	}
	return r
}

// ---------------------------------------------------------------------------------------------------------
// constructors

var ctorNames = []string{"NoteOn", "NoteOffVelocity", "NoteOff", "PolyAfterTouch", "ControlChange", "ProgramChange", "AfterTouch", "Pitchbend", "SPP", "MTC", "SongSelect", "Tune"}

func construct(fn string, a []int) midi.Message {
	switch fn {
	case "NoteOn":
		return midi.NoteOn(uint8(a[0]), uint8(a[1]), uint8(a[2]))
	case "NoteOffVelocity":
		return midi.NoteOffVelocity(uint8(a[0]), uint8(a[1]), uint8(a[2]))
	case "NoteOff":
		return midi.NoteOff(uint8(a[0]), uint8(a[1]))
	case "PolyAfterTouch":
		return midi.PolyAfterTouch(uint8(a[0]), uint8(a[1]), uint8(a[2]))
	case "ControlChange":
		return midi.ControlChange(uint8(a[0]), uint8(a[1]), uint8(a[2]))
	case "ProgramChange":
		return midi.ProgramChange(uint8(a[0]), uint8(a[1]))
	case "AfterTouch":
		return midi.AfterTouch(uint8(a[0]), uint8(a[1]))
	case "Pitchbend":
		return midi.Pitchbend(uint8(a[0]), int16(a[1]))
	case "SPP":
		return midi.SPP(uint16(a[0]))
	case "MTC":
		return midi.MTC(uint8(a[0]))
	case "SongSelect":
		return midi.SongSelect(uint8(a[0]))
	case "Tune":
		return midi.Tune()
	}
	hx.Die("unknown ctor", fn)
	return nil
}

// loopback: a testdrv port pair with a listener collecting what arrives
type loop struct {
	send func([]byte) error
	got  [][]byte
	out  drivers.Out
}

func newLoop(noOpts ...bool) *loop {
	l := &loop{}
	drv := testdrv.New("verifmsg")
	ins, _ := drv.Ins()
	outs, _ := drv.Outs()
	// channel voice and system common messages belong to none of the three filterable classes: they must arrive
	// whatever the listen options are
	opts := []midi.Option{midi.UseSysEx(), midi.UseTimeCode(), midi.UseActiveSense()}
	if len(noOpts) > 0 && noOpts[0] {
		opts = nil
	}
	_, err := midi.ListenTo(ins[0], func(m midi.Message, ts int32) { l.got = append(l.got, append([]byte{}, m...)) }, opts...)
	if err != nil {
		hx.Die(err)
	}
	outs[0].Open()
	l.send = outs[0].Send
	l.out = outs[0]
	return l
}

// viaSendTo: messages leave through the function midi.SendTo returns instead of the port's own Send
func (l *loop) viaSendTo() {
	send, err := midi.SendTo(l.out)
	if err != nil {
		hx.Die(err)
	}
	l.send = func(b []byte) error { return send(midi.Message(b)) }
}

func (l *loop) roundtrip(m []byte) [][]byte {
	l.got = l.got[:0]
	l.send(m)
	return l.got
}

type CallRec struct {
	Ev    string            `json:"ev"`
	Fn    string            `json:"fn"`
	Args  []int             `json:"args"`
	CtxFn string            `json:"ctxfn"` // a message sent before through the same listener ("" = none): a loopback has state
	CtxA  []int             `json:"ctxargs"`
	Ctx2F string            `json:"ctx2fn"` // a second message sent before, after the first ("" = none)
	Ctx2A []int             `json:"ctx2args"`
	Via   string            `json:"via"` // "" = the out port's Send, "sendto" = the function midi.SendTo returns
	Bytes hx.B              `json:"bytes"`
	Acc   map[string]accRes `json:"acc"`
	Loop  []hx.B            `json:"loop"`
	Panic string            `json:"panic"`
}

func doCall(fn string, args []int, ctx ...interface{}) *CallRec {
	r := &CallRec{Ev: "call", Fn: fn, Args: args, Loop: []hx.B{}, Acc: map[string]accRes{}, CtxA: []int{}, Ctx2A: []int{}}
	if r.Args == nil {
		r.Args = []int{}
	}
	if len(ctx) >= 2 {
		r.CtxFn, r.CtxA = ctx[0].(string), ctx[1].([]int)
	}
	if len(ctx) == 5 {
		r.Ctx2F, r.Ctx2A, r.Via = ctx[2].(string), ctx[3].([]int), ctx[4].(string)
	}
	if r.CtxA == nil {
		r.CtxA = []int{}
	}
	if r.Ctx2A == nil {
		r.Ctx2A = []int{}
	}
	r.Panic = hx.Catch(func() {
		m := construct(fn, args)
		r.Bytes = append(hx.B{}, m...)
		r.Acc = allMidiAcc(m)
		// a fresh loopback per record; an optional context message goes through the same listener first
		lp := newLoop(len(args)%2 == 1 || (len(args) > 0 && args[0]%2 == 1))
		if r.Via == "sendto" {
			lp.viaSendTo()
		}
		if r.CtxFn != "" {
			lp.roundtrip(construct(r.CtxFn, r.CtxA))
		}
		if r.Ctx2F != "" {
			lp.roundtrip(construct(r.Ctx2F, r.Ctx2A))
		}
		for _, g := range lp.roundtrip(m) {
			r.Loop = append(r.Loop, append(hx.B{}, g...))
		}
	})
	if r.Bytes == nil {
		r.Bytes = hx.B{}
	}
	for _, n := range midiAccNames {
		if _, ok := r.Acc[n]; !ok {
			r.Acc[n] = accRes{Out: []int{}, Single: []int{}}
		}
	}
	return r
}

// ---------------------------------------------------------------------------------------------------------
// tables exported by TLC

type Tables struct {
	Chan    map[string]int                 `json:"chan"`
	Data    map[string]int                 `json:"data"`
	Pitch   map[string][]int               `json:"pitch"`
	Spp     map[string][]int               `json:"spp"`
	Status  map[string]int                 `json:"status"`
	Cats    map[string]map[string][]string `json:"cats"`
	AccType map[string]string              `json:"acctype"`
	chanT   [256]int
	dataT   [256]int
	pitchT  [65536][2]byte
	sppT    [16384][2]byte
	catsT   map[string]*[256]map[string]bool
}

func loadTables(p string) *Tables {
	var t Tables
	d, err := os.ReadFile(p)
	if err != nil {
		hx.Die(err)
	}
	if err := json.Unmarshal(d, &t); err != nil {
		hx.Die(err)
	}
	for i := 0; i < 256; i++ {
		t.chanT[i] = t.Chan[strconv.Itoa(i)]
		t.dataT[i] = t.Data[strconv.Itoa(i)]
	}
	for i := 0; i < 65536; i++ {
		v := t.Pitch[strconv.Itoa(i)]
		t.pitchT[i] = [2]byte{byte(v[0]), byte(v[1])}
	}
	for i := 0; i < 16384; i++ {
		v := t.Spp[strconv.Itoa(i)]
		t.sppT[i] = [2]byte{byte(v[0]), byte(v[1])}
	}
	t.catsT = map[string]*[256]map[string]bool{}
	for lvl, m := range t.Cats {
		var arr [256]map[string]bool
		for i := 0; i < 256; i++ {
			arr[i] = map[string]bool{}
			for _, c := range m[strconv.Itoa(i)] {
				arr[i][c] = true
			}
		}
		t.catsT[lvl] = &arr
	}
	return &t
}

// expected bytes + expected accessor answer composed from the per-argument tables (the glue TLC re-validates)
func (t *Tables) expect(fn string, a []int) (exact bool, bytes [3]byte, n int, out [3]int) {
	st := byte(t.Status[fn])
	switch fn {
	case "NoteOn", "NoteOffVelocity", "PolyAfterTouch", "ControlChange":
		c, k, v := t.chanT[a[0]], t.dataT[a[1]], t.dataT[a[2]]
		return true, [3]byte{st + byte(c), byte(k), byte(v)}, 3, [3]int{c, k, v}
	case "NoteOff":
		c, k := t.chanT[a[0]], t.dataT[a[1]]
		return true, [3]byte{st + byte(c), byte(k), 0}, 3, [3]int{c, k, 0}
	case "ProgramChange", "AfterTouch":
		c, k := t.chanT[a[0]], t.dataT[a[1]]
		return true, [3]byte{st + byte(c), byte(k)}, 2, [3]int{c, k, -1}
	case "Pitchbend":
		c := t.chanT[a[0]]
		p := t.pitchT[a[1]+32768]
		abs := int(p[0]) + 128*int(p[1])
		return true, [3]byte{st + byte(c), p[0], p[1]}, 3, [3]int{c, abs - 8192, abs}
	case "SPP":
		if a[0] < 16384 {
			p := t.sppT[a[0]]
			return true, [3]byte{st, p[0], p[1]}, 3, [3]int{a[0], -1, -1}
		}
		return false, [3]byte{st}, 3, [3]int{}
	case "MTC", "SongSelect":
		if a[0] < 128 {
			return true, [3]byte{st, byte(a[0])}, 2, [3]int{a[0], -1, -1}
		}
		return false, [3]byte{st}, 2, [3]int{}
	case "Tune":
		return true, [3]byte{st}, 1, [3]int{-1, -1, -1}
	}
	return false, [3]byte{}, 0, [3]int{}
}

var matchIdx = map[string]int{"NoteOn": 0, "NoteOffVelocity": 1, "NoteOff": 1, "PolyAfterTouch": 2, "AfterTouch": 3, "ProgramChange": 4,
	"Pitchbend": 5, "ControlChange": 6, "MTC": 7, "SongSelect": 8, "SPP": 9, "Tune": -1}

// checkCall is the Go-side evaluation of the C07 clauses for one call; returns "" if fine.
func (t *Tables) checkCall(fn string, a []int, lp *loop) string {
	var why string
	p := hx.Catch(func() {
		m := construct(fn, a)
		exact, eb, n, eout := t.expect(fn, a)
		if len(m) != n || m[0] < 0x80 {
			why = "malformed"
			return
		}
		for i := 1; i < len(m); i++ {
			if m[i] > 127 {
				why = "data byte above 127"
				return
			}
		}
		if !exact {
			if m[0] != eb[0] {
				why = "status"
			}
			return
		}
		for i := 0; i < n; i++ {
			if m[i] != eb[i] {
				why = "bytes"
				return
			}
		}
		mi := matchIdx[fn]
		for i := range midiAccNames {
			ok, v, _ := midiAcc(i, m, false)
			if ok2, v2, _ := midiAcc(i, m, true); ok2 != ok || (ok && v2 != v) {
				why = "accessor answer depends on the previous content of its output variables"
				return
			}
			if i == mi {
				if !ok {
					why = "matching accessor rejects"
					return
				}
				for j := 0; j < accArity[i]; j++ {
					if v[j] != eout[j] {
						why = "matching accessor value"
						return
					}
				}
				for j, x := range midiAccSingle(i, m) { // one pointer at a time
					if x != eout[j] {
						why = "matching accessor value (single pointer)"
						return
					}
				}
			} else if ok {
				why = "foreign accessor accepts"
				return
			}
		}
		if lp != nil {
			if len(a) >= 2 && fn != "SPP" { // context: the same kind of message on the neighbouring channel, same listener
				ca := append([]int{(a[0] + 1) % 16}, a[1:]...)
				lp.roundtrip(construct(fn, ca))
			}
			g := lp.roundtrip(m)
			if len(g) != 1 || string(g[0]) != string(m) {
				why = "loopback"
				return
			}
		}
	})
	if p != "" {
		return "panic: " + p
	}
	return why
}

func cmdCtorSweep(args []string) {
	fs := flag.NewFlagSet("ctor-sweep", flag.ExitOnError)
	tp := fs.String("tables", "", "")
	out := fs.String("out", "", "")
	samples := fs.String("samples", "", "")
	nsamp := fs.Int("nsamples", 20000, "")
	seed := fs.Int64("seed", 1, "")
	full := fs.Bool("full", false, "whole uint8 x uint8 x uint8 domain of the 3-argument constructors (else channels 0..17,127,128,254,255)")
	fs.Parse(args)
	t := loadTables(*tp)
	chans := []int{}
	if *full {
		for c := 0; c < 256; c++ {
			chans = append(chans, c)
		}
	} else {
		for c := 0; c <= 17; c++ {
			chans = append(chans, c)
		}
		chans = append(chans, 127, 128, 254, 255)
	}
	var mu sync.Mutex
	var calls, looped int64
	type badT struct {
		Fn   string `json:"fn"`
		Args []int  `json:"args"`
		Why  string `json:"why"`
	}
	var bads []badT
	perKind := map[string]int{}
	report := func(fn string, a []int, why string) {
		mu.Lock()
		if perKind[fn+why] < 3 && len(bads) < 60 { // a few of every (constructor, reason) class
			perKind[fn+why]++
			bads = append(bads, badT{fn, append([]int{}, a...), why})
		}
		mu.Unlock()
	}
	var wg sync.WaitGroup
	sem := make(chan struct{}, 16)
	jobs := 0
	job := func(f func(lp *loop) (int64, int64)) {
		wg.Add(1)
		sem <- struct{}{}
		go func() {
			defer wg.Done()
			defer func() { <-sem }()
			jobs++
			c, l := f(newLoop(jobs%2 == 0))
			mu.Lock()
			calls += c
			looped += l
			mu.Unlock()
		}()
	}
	for _, fn := range []string{"NoteOn", "NoteOffVelocity", "PolyAfterTouch", "ControlChange"} {
		for _, c := range chans {
			fn, c := fn, c
			job(func(lp *loop) (n, l int64) {
				a := []int{c, 0, 0}
				for k := 0; k < 256; k++ {
					for v := 0; v < 256; v++ {
						a[1], a[2] = k, v
						var use *loop
						if c < 16 && k < 128 && v < 128 { // in range: also through the loopback port
							use = lp
							l++
						}
						if why := t.checkCall(fn, a, use); why != "" {
							report(fn, a, why)
						}
						n++
					}
				}
				return
			})
		}
	}
	for _, fn := range []string{"NoteOff", "ProgramChange", "AfterTouch"} {
		fn := fn
		job(func(lp *loop) (n, l int64) {
			a := []int{0, 0}
			for c := 0; c < 256; c++ {
				for k := 0; k < 256; k++ {
					a[0], a[1] = c, k
					var use *loop
					if c < 16 && k < 128 {
						use = lp
						l++
					}
					if why := t.checkCall(fn, a, use); why != "" {
						report(fn, a, why)
					}
					n++
				}
			}
			return
		})
	}
	for c := 0; c < 256; c++ {
		if c > 16 && c != 255 && !*full {
			continue
		}
		c := c
		job(func(lp *loop) (n, l int64) {
			a := []int{c, 0}
			for v := -32768; v <= 32767; v++ {
				a[1] = v
				var use *loop
				if c < 16 {
					use = lp
					l++
				}
				if why := t.checkCall("Pitchbend", a, use); why != "" {
					report("Pitchbend", a, why)
				}
				n++
			}
			return
		})
	}
	job(func(lp *loop) (n, l int64) {
		a := []int{0}
		for p := 0; p < 65536; p++ {
			a[0] = p
			var use *loop
			if p < 16384 {
				use = lp
				l++
			}
			if why := t.checkCall("SPP", a, use); why != "" {
				report("SPP", a, why)
			}
			n++
		}
		for _, fn := range []string{"MTC", "SongSelect"} {
			for p := 0; p < 256; p++ {
				a[0] = p
				var use *loop
				if p < 128 {
					use = lp
					l++
				}
				if why := t.checkCall(fn, a, use); why != "" {
					report(fn, a, why)
				}
				n++
			}
		}
		if why := t.checkCall("Tune", []int{}, lp); why != "" {
			report("Tune", []int{}, why)
		}
		n++
		l++
		return
	})
	wg.Wait()
	// samples for TLC: everything the sweep flagged, all boundary tuples, random tuples
	w := hx.Create(*samples)
	for _, b := range bads {
		w.Put(doCall(b.Fn, b.Args))
		if len(b.Args) >= 2 {
			w.Put(doCall(b.Fn, b.Args, b.Fn, append([]int{(b.Args[0] + 1) % 16}, b.Args[1:]...)))
		}
	}
	r := rand.New(rand.NewSource(*seed))
	cb := []int{0, 1, 15, 16, 17, 127, 128, 255}
	db := []int{0, 1, 63, 64, 126, 127, 128, 129, 255}
	for _, fn := range []string{"NoteOn", "NoteOffVelocity", "PolyAfterTouch", "ControlChange"} {
		for _, c := range cb {
			for _, k := range db {
				for _, v := range db {
					w.Put(doCall(fn, []int{c, k, v}))
				}
			}
		}
	}
	for _, fn := range []string{"NoteOff", "ProgramChange", "AfterTouch"} {
		for _, c := range cb {
			for _, k := range db {
				w.Put(doCall(fn, []int{c, k}))
			}
		}
	}
	for _, c := range cb {
		for _, v := range []int{-32768, -8194, -8193, -8192, -8191, -129, -128, -127, -1, 0, 1, 127, 128, 8190, 8191, 8192, 32767} {
			w.Put(doCall("Pitchbend", []int{c, v}))
		}
	}
	for _, p := range []int{0, 1, 127, 128, 129, 255, 256, 16383, 16384, 32768, 65535} {
		w.Put(doCall("SPP", []int{p}))
	}
	for _, p := range []int{0, 1, 127, 128, 200, 255} {
		w.Put(doCall("MTC", []int{p}))
		w.Put(doCall("SongSelect", []int{p}))
	}
	w.Put(doCall("Tune", []int{}))
	for w.N < *nsamp {
		fn := ctorNames[r.Intn(len(ctorNames))]
		var a []int
		switch fn {
		case "NoteOn", "NoteOffVelocity", "PolyAfterTouch", "ControlChange":
			a = []int{r.Intn(256), r.Intn(256), r.Intn(256)}
		case "NoteOff", "ProgramChange", "AfterTouch":
			a = []int{r.Intn(256), r.Intn(256)}
		case "Pitchbend":
			a = []int{r.Intn(256), r.Intn(65536) - 32768}
		case "SPP":
			a = []int{r.Intn(65536)}
		case "MTC", "SongSelect":
			a = []int{r.Intn(256)}
		default:
			a = []int{}
		}
		if len(a) >= 2 && a[0] < 16 && w.N%4 == 1 {
			// a quarter: through the sender of midi.SendTo, after a message with the SAME status byte and then a system common /
			// real-time / sysex-free message in between (what a sender that elides status bytes must get right)
			ca := append([]int{a[0]}, a[1:]...)
			if fn != "Pitchbend" {
				for i := 1; i < len(ca); i++ {
					ca[i] = r.Intn(128)
				}
			}
			c2 := [][2]interface{}{{"SongSelect", []int{r.Intn(128)}}, {"SPP", []int{r.Intn(16384)}}, {"MTC", []int{r.Intn(128)}}, {"Tune", []int{}}, {"", []int{}}}[r.Intn(5)]
			via := "sendto"
			if r.Intn(4) == 0 {
				via = ""
			}
			w.Put(doCall(fn, a, fn, ca, c2[0].(string), c2[1].([]int), via))
		} else if len(a) >= 2 && w.N%2 == 0 { // half of the samples with a context message on another channel / of another kind
			cfn := fn
			if r.Intn(4) == 0 {
				cfn = []string{"NoteOn", "NoteOffVelocity", "PolyAfterTouch", "ControlChange"}[r.Intn(4)]
			}
			ca := []int{r.Intn(16), r.Intn(128), r.Intn(128)}
			if cfn == "Pitchbend" {
				ca = []int{r.Intn(16), r.Intn(16384) - 8192}
			} else if cfn == "NoteOff" || cfn == "ProgramChange" || cfn == "AfterTouch" {
				ca = ca[:2]
			}
			w.Put(doCall(fn, a, cfn, ca))
		} else {
			w.Put(doCall(fn, a))
		}
	}
	w.Close()
	res := map[string]interface{}{"calls": calls, "loopbacks": looped, "bad": bads, "full": *full, "samples": w.N}
	if bads == nil {
		res["bad"] = []badT{}
	}
	b, _ := json.Marshal(res)
	os.WriteFile(*out, b, 0o644)
}

// ---------------------------------------------------------------------------------------------------------
// C08 classification

type ClsRec struct {
	Ev    string          `json:"ev"`
	Lvl   string          `json:"lvl"`
	Bytes hx.B            `json:"bytes"`
	Type  string          `json:"type"`
	Cats  map[string]bool `json:"cats"`
	Oneof map[string]bool `json:"oneof"` // IsOneOf(<the category>) for the same six categories: must agree with Is
	Accs  []string        `json:"accs"`
	Play  bool            `json:"playable"`
	Panic string          `json:"panic"`
	Warm  bool            `json:"warm"` // replay only: messages of every kind were classified in this process before this one
}

var smfMetaAcc = []struct {
	name string
	fn   func(m smf.Message) bool
}{
	{"MetaChannel", func(m smf.Message) bool { var a uint8; return m.GetMetaChannel(&a) }},
	{"MetaPort", func(m smf.Message) bool { var a uint8; return m.GetMetaPort(&a) }},
	{"MetaSeqNumber", func(m smf.Message) bool { var a uint16; return m.GetMetaSeqNumber(&a) }},
	{"MetaSeqData", func(m smf.Message) bool { var a []byte; return m.GetMetaSeqData(&a) }},
	{"MetaKeySig", func(m smf.Message) bool { var a, b uint8; var c, d bool; return m.GetMetaKeySig(&a, &b, &c, &d) }},
	{"MetaSMPTEOffset", func(m smf.Message) bool { var a, b, c, d, e uint8; return m.GetMetaSMPTEOffsetMsg(&a, &b, &c, &d, &e) }},
	{"MetaTimeSig", func(m smf.Message) bool { var a, b, c, d uint8; return m.GetMetaTimeSig(&a, &b, &c, &d) }},
	{"MetaTempo", func(m smf.Message) bool { var a float64; return m.GetMetaTempo(&a) }},
	{"MetaLyric", func(m smf.Message) bool { var a string; return m.GetMetaLyric(&a) }},
	{"MetaCopyright", func(m smf.Message) bool { var a string; return m.GetMetaCopyright(&a) }},
	{"MetaCuepoint", func(m smf.Message) bool { var a string; return m.GetMetaCuepoint(&a) }},
	{"MetaDevice", func(m smf.Message) bool { var a string; return m.GetMetaDevice(&a) }},
	{"MetaInstrument", func(m smf.Message) bool { var a string; return m.GetMetaInstrument(&a) }},
	{"MetaMarker", func(m smf.Message) bool { var a string; return m.GetMetaMarker(&a) }},
	{"MetaProgramName", func(m smf.Message) bool { var a string; return m.GetMetaProgramName(&a) }},
	{"MetaText", func(m smf.Message) bool { var a string; return m.GetMetaText(&a) }},
	{"MetaTrackName", func(m smf.Message) bool { var a string; return m.GetMetaTrackName(&a) }},
}

// classify asks the real library everything C08 talks about.  withString: also String() (slow).
func classify(lvl string, b []byte, withString bool, r *ClsRec) {
	r.Ev, r.Lvl, r.Bytes = "cls", lvl, b
	r.Accs = r.Accs[:0]
	if r.Cats == nil {
		r.Cats = map[string]bool{}
	}
	// a panic leaves the record half filled: every field starts from a fixed value so that a replay sees the same record
	if r.Oneof == nil {
		r.Oneof = map[string]bool{}
	}
	for _, k := range []string{"channel", "syscommon", "realtime", "sysex", "unknown", "meta"} {
		r.Cats[k] = false
		r.Oneof[k] = false
	}
	r.Type, r.Play = "", false
	r.Panic = hx.Catch(func() {
		if lvl == "midi" {
			m := midi.Message(b)
			t := m.Type()
			r.Type = t.String()
			r.Cats["channel"], r.Cats["syscommon"], r.Cats["realtime"] = m.Is(midi.ChannelMsg), m.Is(midi.SysCommonMsg), m.Is(midi.RealTimeMsg)
			r.Cats["sysex"], r.Cats["unknown"], r.Cats["meta"] = m.Is(midi.SysExMsg), m.Is(midi.UnknownMsg), m.Is(smf.MetaMsg)
			r.Play = m.IsPlayable()
			r.Oneof["channel"], r.Oneof["syscommon"], r.Oneof["realtime"] = m.IsOneOf(midi.ChannelMsg), m.IsOneOf(midi.SysCommonMsg), m.IsOneOf(midi.RealTimeMsg)
			r.Oneof["sysex"], r.Oneof["unknown"], r.Oneof["meta"] = m.IsOneOf(midi.SysExMsg), m.IsOneOf(midi.UnknownMsg), m.IsOneOf(smf.MetaMsg)
			if withString {
				_ = m.String()
			}
			for i, n := range midiAccNames {
				if ok, _, _ := midiAcc(i, m, false); ok {
					r.Accs = append(r.Accs, n)
				}
			}
			var c, k, v uint8
			m.GetNoteStart(&c, &k, &v)
			m.GetNoteEnd(&c, &k)
			m.GetChannel(&c)
		} else {
			m := smf.Message(b)
			t := m.Type()
			r.Type = t.String()
			r.Cats["channel"], r.Cats["syscommon"], r.Cats["realtime"] = m.Is(midi.ChannelMsg), m.Is(midi.SysCommonMsg), m.Is(midi.RealTimeMsg)
			r.Cats["sysex"], r.Cats["unknown"], r.Cats["meta"] = m.Is(midi.SysExMsg), m.Is(midi.UnknownMsg), m.Is(smf.MetaMsg)
			r.Play = m.IsPlayable()
			_ = m.IsMeta()
			r.Oneof["channel"], r.Oneof["syscommon"], r.Oneof["realtime"] = m.IsOneOf(midi.ChannelMsg), m.IsOneOf(midi.SysCommonMsg), m.IsOneOf(midi.RealTimeMsg)
			r.Oneof["sysex"], r.Oneof["unknown"], r.Oneof["meta"] = m.IsOneOf(midi.SysExMsg), m.IsOneOf(midi.UnknownMsg), m.IsOneOf(smf.MetaMsg)
			if withString {
				_ = m.String()
			}
			var a, bb, c uint8
			var rel int16
			var abs uint16
			var sx []byte
			if m.GetNoteOn(&a, &bb, &c) {
				r.Accs = append(r.Accs, "NoteOn")
			}
			if m.GetNoteOff(&a, &bb, &c) {
				r.Accs = append(r.Accs, "NoteOff")
			}
			if m.GetPolyAfterTouch(&a, &bb, &c) {
				r.Accs = append(r.Accs, "PolyAfterTouch")
			}
			if m.GetAfterTouch(&a, &bb) {
				r.Accs = append(r.Accs, "AfterTouch")
			}
			if m.GetProgramChange(&a, &bb) {
				r.Accs = append(r.Accs, "ProgramChange")
			}
			if m.GetPitchBend(&a, &rel, &abs) {
				r.Accs = append(r.Accs, "PitchBend")
			}
			if m.GetControlChange(&a, &bb, &c) {
				r.Accs = append(r.Accs, "ControlChange")
			}
			if m.GetSysEx(&sx) {
				r.Accs = append(r.Accs, "SysEx")
			}
			for _, ma := range smfMetaAcc {
				if ma.fn(m) {
					r.Accs = append(r.Accs, ma.name)
				}
			}
			m.GetNoteStart(&a, &bb, &c)
			m.GetNoteEnd(&a, &bb)
			m.GetChannel(&a)
			var k smf.Key
			m.GetMetaKey(&k)
			m.GetMetaMeter(&a, &bb)
		}
	})
}

// clsOk is the Go mirror of MidiMessage!ClassOk (re-validated by TLC on samples).
func (t *Tables) clsOk(r *ClsRec) bool {
	if r.Panic != "" {
		return false
	}
	n := 0
	var cat string
	for c, v := range r.Cats {
		if v {
			n++
			cat = c
		}
		if r.Oneof[c] != v { // IsOneOf(category) is Is(category)
			return false
		}
	}
	if n != 1 {
		return false
	}
	if len(r.Bytes) == 0 {
		if cat != "unknown" {
			return false
		}
	} else if !t.catsT[r.Lvl][r.Bytes[0]][cat] {
		return false
	}
	for _, a := range r.Accs {
		if t.AccType[a] != r.Type {
			return false
		}
	}
	return true
}

var t0clsOk func(tail []byte, r *ClsRec) bool

func cloneCls(r *ClsRec) *ClsRec {
	c := *r
	c.Bytes = append(hx.B{}, r.Bytes...)
	c.Accs = append([]string{}, r.Accs...)
	c.Cats = map[string]bool{}
	for k, v := range r.Cats {
		c.Cats[k] = v
	}
	c.Oneof = map[string]bool{}
	for k, v := range r.Oneof {
		c.Oneof[k] = v
	}
	return &c
}

func cmdClsSweep(args []string) {
	fs := flag.NewFlagSet("cls-sweep", flag.ExitOnError)
	tp := fs.String("tables", "", "")
	out := fs.String("out", "", "")
	samples := fs.String("samples", "", "")
	nsamp := fs.Int("nsamples", 20000, "")
	seed := fs.Int64("seed", 1, "")
	full := fs.Bool("full", false, "all 256^3 strings of length 3 (else the second and third byte from a 40-value boundary alphabet)")
	fs.Parse(args)
	t := loadTables(*tp)
	t0clsOk = func(_ []byte, r *ClsRec) bool { return t.clsOk(r) }
	alpha := []int{}
	if *full {
		for i := 0; i < 256; i++ {
			alpha = append(alpha, i)
		}
	} else {
		alpha = []int{0, 1, 2, 3, 4, 5, 6, 7, 8, 9, 0x20, 0x21, 0x2F, 0x3F, 0x40, 0x51, 0x54, 0x58, 0x59, 0x7E, 0x7F, 0x80, 0x81, 0x8F, 0x90, 0xB0, 0xC0, 0xE0, 0xEF, 0xF0, 0xF1, 0xF2, 0xF3, 0xF6, 0xF7, 0xF8, 0xFD, 0xFE, 0xFF, 0x60}
	}
	var mu sync.Mutex
	var total int64
	var bads []*ClsRec
	var keep []*ClsRec
	var wg sync.WaitGroup
	sem := make(chan struct{}, 16)
	for _, lvl := range []string{"midi", "smf"} {
		for b0 := 0; b0 < 256; b0++ {
			lvl, b0 := lvl, b0
			wg.Add(1)
			sem <- struct{}{}
			go func() {
				defer wg.Done()
				defer func() { <-sem }()
				r := rand.New(rand.NewSource(*seed*1000 + int64(b0)))
				var rec ClsRec
				var n int64
				var lbad, lkeep []*ClsRec
				try := func(b []byte, str bool) {
					classify(lvl, b, str, &rec)
					n++
					if !t.clsOk(&rec) {
						if len(lbad) < 5 {
							lbad = append(lbad, cloneCls(&rec))
						}
					} else if r.Intn(40000) == 0 || (len(b) < 2 && r.Intn(4) == 0) {
						lkeep = append(lkeep, cloneCls(&rec))
					}
				}
				if b0 == 0 {
					try([]byte{}, true)
				}
				try([]byte{byte(b0)}, true)
				buf := make([]byte, 3)
				buf[0] = byte(b0)
				for b1 := 0; b1 < 256; b1++ {
					buf[1] = byte(b1)
					try(buf[:2], true)
				}
				for _, b1 := range alpha {
					buf[1] = byte(b1)
					for b2 := 0; b2 < 256; b2++ {
						buf[2] = byte(b2)
						try(buf[:3], b2%16 == 0)
					}
				}
				if !*full { // also every second byte with the boundary third bytes
					for b1 := 0; b1 < 256; b1++ {
						buf[1] = byte(b1)
						for _, b2 := range alpha {
							buf[2] = byte(b2)
							try(buf[:3], false)
						}
					}
				}
				mu.Lock()
				total += n
				bads = append(bads, lbad...)
				keep = append(keep, lkeep...)
				mu.Unlock()
			}()
		}
	}
	wg.Wait()
	// meta-shaped strings FF <type> <length field> ...: every type with every short length-field shape -- unterminated
	// variable-length quantities (all bytes with the high bit), terminated ones with too little / exact / too much payload
	{
		var tails [][]byte
		hi := []byte{0x80, 0x81, 0xFF}
		var gen func(prefix []byte, n int)
		gen = func(prefix []byte, n int) { // unterminated length fields: every byte has the high bit
			if n == 0 {
				return
			}
			for _, h := range hi {
				t := append(append([]byte{}, prefix...), h)
				tails = append(tails, t)
				gen(t, n-1)
			}
		}
		gen(nil, 5)
		// terminated length fields with a tiny declared length (plain, padded, two-byte) and 0..5 payload bytes
		for _, pre := range [][]byte{{}, {0x80}, {0x81}, {0x80, 0x80}, {0x80, 0x80, 0x80}, {0x80, 0x80, 0x80, 0x80}} {
			for _, last := range []byte{0, 1, 2, 3, 5} {
				for pay := 0; pay <= 5; pay++ {
					tails = append(tails, append(append(append([]byte{}, pre...), last), make([]byte, pay)...))
				}
			}
		}
		var rec ClsRec
		for _, lvl := range []string{"midi", "smf"} {
			for typ := 0; typ < 256; typ++ {
				for _, t := range tails {
					b := append([]byte{0xFF, byte(typ)}, t...)
					classify(lvl, b, true, &rec)
					total++
					if !t0clsOk(t, &rec) {
						if len(bads) < 60 {
							bads = append(bads, cloneCls(&rec))
						}
					} else if (typ*7+len(t))%97 == 0 {
						keep = append(keep, cloneCls(&rec))
					}
				}
			}
		}
	}
	w := hx.Create(*samples)
	for i, b := range bads {
		if i < 40 {
			w.Put(b)
		}
	}
	for _, k := range keep {
		if w.N < *nsamp/2 {
			w.Put(k)
		}
	}
	// longer strings: random, sysex-shaped, meta-shaped (incl. everything the meta constructors produce in shape)
	r := rand.New(rand.NewSource(*seed))
	var rec ClsRec
	var longBad int64
	// valid messages of every kind with the FIRST byte replaced by every value: what a message is must be decided by its
	// first byte, not by the look of the rest (a quarter of these observations goes to TLC, and every one the mirror flags)
	for _, msg := range [][]byte{midi.NoteOn(3, 60, 100), midi.NoteOff(3, 60), midi.ControlChange(3, 7, 100), midi.Pitchbend(4, 100), midi.AfterTouch(5, 9),
		midi.PolyAfterTouch(6, 60, 9), midi.ProgramChange(7, 12), midi.SPP(100), midi.MTC(3), midi.SongSelect(4), midi.SysEx([]byte{1, 2, 3}),
		midi.SysEx([]byte{0x51, 3, 0x10, 0}), smf.MetaTempo(120), smf.MetaText("text"), smf.MetaLyric("la"), smf.MetaChannel(3), smf.MetaPort(2),
		smf.MetaSequenceNo(258), smf.MetaSequencerData([]byte{1, 2}), smf.MetaSMPTE(1, 2, 3, 4, 5), smf.MetaTimeSig(3, 4, 24, 8), smf.MetaKey(2, true, 2, false),
		smf.MetaTrackSequenceName("n"), smf.MetaInstrument("i"), smf.MetaMarker("m"), smf.MetaCuepoint("c"), smf.MetaCopyright("c"), smf.MetaDevice("d"),
		smf.MetaProgram("p"), smf.EOT} {
		for _, lvl := range []string{"midi", "smf"} {
			for fb := 0; fb < 256; fb++ {
				b := append([]byte{byte(fb)}, msg[1:]...)
				classify(lvl, b, true, &rec)
				total++
				ok := t.clsOk(&rec)
				if !ok {
					longBad++
				}
				if !ok || fb%4 == int(*seed)%4 {
					w.Put(cloneCls(&rec))
				}
			}
		}
	}
	for i := 0; w.N < *nsamp+3800; i++ {
		n := 4 + r.Intn(61)
		b := make([]byte, n)
		for j := range b {
			b[j] = byte(r.Intn(256))
		}
		lvl := []string{"midi", "smf"}[i%2]
		switch i % 5 {
		case 1:
			b[0], b[n-1] = 0xF0, 0xF7
		case 2:
			b[0] = 0xFF
			b[1] = []byte{0, 1, 2, 3, 4, 5, 6, 7, 8, 9, 0x20, 0x21, 0x2F, 0x51, 0x54, 0x58, 0x59, 0x7F, 0x60}[r.Intn(19)]
			b[2] = byte(n - 3) // a consistent one-byte length
		case 3:
			b[0] = 0xFF
			b[1] = byte(r.Intn(128))
			// inconsistent length field, one or two bytes; kept small: a text accessor allocates the DECLARED
			// length (C08 is about panics and consistency, memory is C05's subject)
			b[2] = byte(r.Intn(128))
			if r.Intn(3) == 0 {
				b[2], b[3] = 0x81, byte(r.Intn(128))
			}
		case 4:
			b[0] = byte(0x80 + r.Intn(0x80))
		}
		classify(lvl, b, true, &rec)
		total++
		if !t.clsOk(&rec) {
			longBad++
		}
		w.Put(cloneCls(&rec))
	}
	w.Close()
	res := map[string]interface{}{"strings": total, "bad": len(bads) + int(longBad), "full": *full, "samples": w.N}
	bb, _ := json.Marshal(res)
	os.WriteFile(*out, bb, 0o644)
}

// warmUp classifies one message of every kind at both levels, as any program does before it meets the message at hand:
// the classification of a message must not depend on what was classified before it.
func warmUp() {
	var scratch ClsRec
	for _, b := range [][]byte{midi.NoteOn(1, 60, 100), midi.NoteOff(2, 60), midi.ControlChange(3, 7, 100), midi.Pitchbend(4, 100), midi.AfterTouch(5, 9),
		midi.PolyAfterTouch(6, 60, 9), midi.ProgramChange(7, 12), midi.SPP(100), midi.MTC(3), midi.SongSelect(4), midi.Tune(), midi.Start(), midi.Activesense(),
		midi.SysEx([]byte{1, 2, 3}), smf.MetaTempo(120), smf.MetaText("warm"), smf.EOT, {0x40, 0x41}, {}, midi.ControlChange(8, 1, 2)} {
		classify("midi", b, true, &scratch)
		classify("smf", b, true, &scratch)
	}
}

func cmdRerun(args []string) {
	fs := flag.NewFlagSet("msg-rerun", flag.ExitOnError)
	in := fs.String("in", "", "")
	out := fs.String("out", "", "")
	fs.Parse(args)
	w := hx.Create(*out)
	hx.ReadLines(*in, func(l []byte) {
		var head struct {
			Ev    string `json:"ev"`
			Fn    string `json:"fn"`
			Args  []int  `json:"args"`
			Lvl   string `json:"lvl"`
			Bytes hx.B   `json:"bytes"`
			Warm  bool   `json:"warm"`
			CtxFn string `json:"ctxfn"`
			CtxA  []int  `json:"ctxargs"`
			Ctx2F string `json:"ctx2fn"`
			Ctx2A []int  `json:"ctx2args"`
			Via   string `json:"via"`
		}
		if err := json.Unmarshal(l, &head); err != nil {
			hx.Die(err)
		}
		if head.Ev == "call" {
			if head.CtxFn != "" {
				w.Put(doCall(head.Fn, head.Args, head.CtxFn, head.CtxA, head.Ctx2F, head.Ctx2A, head.Via))
			} else {
				w.Put(doCall(head.Fn, head.Args))
			}
		} else {
			var rec ClsRec
			if head.Warm {
				warmUp()
			}
			classify(head.Lvl, head.Bytes, true, &rec)
			rec.Warm = head.Warm
			w.Put(cloneCls(&rec))
		}
	})
	w.Close()
}

func main() {
	debug.SetGCPercent(-1) // tiny live heap + 16 workers: collect only when 3 GiB of garbage have piled up
	debug.SetMemoryLimit(3 << 30)
	cmds := map[string]func([]string){"ctor-sweep": cmdCtorSweep, "cls-sweep": cmdClsSweep, "msg-rerun": cmdRerun}
	if len(os.Args) < 2 || cmds[os.Args[1]] == nil {
		fmt.Fprintln(os.Stderr, "usage: vh_msg ctor-sweep|cls-sweep|msg-rerun [flags]")
		os.Exit(3)
	}
	cmds[os.Args[1]](os.Args[2:])
}
