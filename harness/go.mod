module verifharness

go 1.22.2

require gitlab.com/gomidi/midi/v2 v2.0.0

replace gitlab.com/gomidi/midi/v2 => /repo/v2
