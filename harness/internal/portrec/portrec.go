// Package portrec: call histories on a port pair (C17) as records, and the generic runner that executes a history on a
// driver adapter under a watchdog.  Used for testdrv (cmd/vh_ports) and midicatdrv (cmd/vh_mcat).
package portrec

import (
	"fmt"
	"time"

	"verifharness/internal/hx"
)

type Dlv struct {
	L int `json:"l"`
	M int `json:"m"`
}

type Step struct {
	Fn      string   `json:"fn"` // OpenIn CloseIn OpenOut CloseOut Listen Stop Send SendPar
	M       int      `json:"m"`
	Msgs    [][]int  `json:"msgs"` // SendPar: one queue per concurrent sender
	Ret     string   `json:"ret"`  // nil | closed | err:<text>
	Rets    []string `json:"rets"`
	Dlv     []Dlv    `json:"dlv"`
	Pan     string   `json:"pan"`
	Timeout bool     `json:"timeout"`
}

type History struct {
	ID    int    `json:"id"`
	Kind  string `json:"kind"`
	Steps []Step `json:"steps"`
	Race  string `json:"race"`
	Note  string `json:"note"`
}

// Adapter drives one real port pair.
type Adapter interface {
	Call(fn string, m int) string // returns nil|closed|err:..
	Par(msgs [][]int) []string    // concurrent senders, one goroutine per queue; returns in queue order, flattened
	Deliveries() []Dlv            // deliveries since the previous call of Deliveries, after the driver is quiescent
	Teardown()
}

const Watchdog = 10 * time.Second

// Run executes the steps (inputs only) and fills in what happened.  Returns false if a call hung (the caller
// should stop using this process).
func Run(a Adapter, h *History) bool {
	for i := range h.Steps {
		st := &h.Steps[i]
		st.Ret, st.Rets, st.Dlv, st.Pan, st.Timeout = "", []string{}, []Dlv{}, "", false
		if st.Msgs == nil {
			st.Msgs = [][]int{}
		}
		done := make(chan struct{})
		go func() {
			defer close(done)
			st.Pan = hx.Catch(func() {
				if st.Fn == "SendPar" {
					st.Rets = a.Par(st.Msgs)
					st.Ret = "par"
				} else {
					st.Ret = a.Call(st.Fn, st.M)
				}
				st.Dlv = append(st.Dlv, a.Deliveries()...)
			})
		}()
		select {
		case <-done:
		case <-time.After(Watchdog):
			st.Timeout = true
			st.Ret = fmt.Sprintf("timeout after %v", Watchdog)
			h.Steps = h.Steps[:i+1]
			return false
		}
		if st.Pan != "" {
			h.Steps = h.Steps[:i+1]
			return true
		}
	}
	return true
}
