// Package portrec: call histories on a port pair (C17) as records, and the generic runner that executes a history on a
// driver adapter under a watchdog.  Used for testdrv (cmd/vh_ports) and midicatdrv (cmd/vh_mcat).
package portrec

import (
	"fmt"
	"time"

	"verifharness/internal/hx"
)

type Dlv struct {
	L int `json:"l"`
	M int `json:"m"`
}

type Opts struct {
	Sysex bool `json:"sysex"`
	As    bool `json:"as"`
	Tc    bool `json:"tc"`
}

type Step struct {
	Fn      string   `json:"fn"` // OpenIn CloseIn OpenOut CloseOut Listen ListenOpts Stop Send SendPar OpenInFail OpenOutFail
	M       int      `json:"m"`  // 1..127 note-on key; 248 timing clock; 254 active sensing; 240 a short sysex
	Opts    Opts     `json:"opts"`
	Msgs    [][]int  `json:"msgs"` // SendPar: one queue per concurrent sender
	Ret     string   `json:"ret"`  // nil | closed | err:<text>
	Rets    []string `json:"rets"`
	Dlv     []Dlv    `json:"dlv"`
	Pan     string   `json:"pan"`
	Timeout bool     `json:"timeout"`
}

type History struct {
	ID     int      `json:"id"`
	Kind   string   `json:"kind"`
	Steps  []Step   `json:"steps"`
	Race   string   `json:"race"`
	Events []string `json:"events"` // midicatdrv only: the verif hook's events of the in port, in lock order
	Note   string   `json:"note"`
}

// Adapter drives one real port pair.
type Adapter interface {
	Call(fn string, m int, o Opts) string // returns nil, closed, err:..
	Par(msgs [][]int) []string            // concurrent senders, one goroutine per queue; returns in queue order, flattened
	Deliveries() []Dlv                    // deliveries since the previous call of Deliveries, after the driver is quiescent
	Teardown() string
}

const Watchdog = 30 * time.Second

// Run executes the steps (inputs only) and fills in what happened.  Returns false if a call hung (the caller
// should stop using this process).
func Run(a Adapter, h *History) bool {
	for i := range h.Steps {
		st := &h.Steps[i]
		st.Ret, st.Rets, st.Dlv, st.Pan, st.Timeout = "", []string{}, []Dlv{}, "", false
		if st.Msgs == nil {
			st.Msgs = [][]int{}
		}
		done := make(chan struct{})
		go func() {
			defer close(done)
			st.Pan = hx.Catch(func() {
				if st.Fn == "SendPar" {
					st.Rets = a.Par(st.Msgs)
					st.Ret = "par"
				} else if st.Fn == "BurstStop" { // routed through Par with a marker queue
					st.Ret = a.Par([][]int{st.Msgs[0], {-1}})[0]
				} else {
					st.Ret = a.Call(st.Fn, st.M, st.Opts)
				}
				st.Dlv = append(st.Dlv, a.Deliveries()...)
			})
		}()
		select {
		case <-done:
		case <-time.After(Watchdog):
			st.Timeout = true
			st.Ret = fmt.Sprintf("timeout after %v", Watchdog)
			h.Steps = h.Steps[:i+1]
			return false
		}
		if st.Pan != "" {
			h.Steps = h.Steps[:i+1]
			return true
		}
	}
	return true
}

// MsgBytes / MsgID: the harness' own numbering of test messages (no MIDI semantics: a fixed table and its inverse).
func MsgBytes(m int) []byte {
	switch m {
	case 248:
		return []byte{0xF8}
	case 254:
		return []byte{0xFE}
	case 240:
		return []byte{0xF0, 0x01, 0x02, 0xF7}
	}
	return []byte{0x90, byte(m), 64}
}

func MsgID(b []byte) int {
	switch {
	case len(b) == 1 && b[0] == 0xF8:
		return 248
	case len(b) == 1 && b[0] == 0xFE:
		return 254
	case len(b) == 4 && b[0] == 0xF0 && b[1] == 1 && b[2] == 2 && b[3] == 0xF7:
		return 240
	case len(b) == 3 && b[0] == 0x90 && b[2] == 64:
		return int(b[1])
	}
	return -1
}
