// Package hx holds the small shared helpers of the verification harness: NDJSON I/O, seeded RNG
// helpers and panic capture.  The harness never judges MIDI/SMF semantics itself: it generates inputs,
// drives the real library through its public API and records what happened; TLC judges the records.
package hx

import (
	"bufio"
	"encoding/json"
	"fmt"
	"math/rand"
	"os"
	"runtime/debug"
	"strings"
)

// B is a byte slice that marshals as a JSON array of numbers (TLA+ sequences of integers).
type B []byte

func (b B) MarshalJSON() ([]byte, error) {
	var sb strings.Builder
	sb.WriteByte('[')
	for i, x := range b {
		if i > 0 {
			sb.WriteByte(',')
		}
		fmt.Fprintf(&sb, "%d", x)
	}
	sb.WriteByte(']')
	return []byte(sb.String()), nil
}

func (b *B) UnmarshalJSON(d []byte) error {
	var xs []int
	if err := json.Unmarshal(d, &xs); err != nil {
		return err
	}
	*b = make([]byte, len(xs))
	for i, x := range xs {
		(*b)[i] = byte(x)
	}
	return nil
}

type Writer struct {
	f *os.File
	w *bufio.Writer
	N int
}

func Create(path string) *Writer {
	f, err := os.Create(path)
	if err != nil {
		Die(err)
	}
	return &Writer{f: f, w: bufio.NewWriterSize(f, 1<<20)}
}

func (w *Writer) Put(v interface{}) {
	d, err := json.Marshal(v)
	if err != nil {
		Die(err)
	}
	w.w.Write(d)
	w.w.WriteByte('\n')
	w.N++
}

func (w *Writer) Close() {
	w.w.Flush()
	w.f.Close()
}

// ReadLines calls fn with every non-empty line of an NDJSON file.
func ReadLines(path string, fn func([]byte)) {
	f, err := os.Open(path)
	if err != nil {
		Die(err)
	}
	defer f.Close()
	sc := bufio.NewScanner(f)
	sc.Buffer(make([]byte, 1<<20), 1<<30)
	for sc.Scan() {
		if len(sc.Bytes()) > 0 {
			c := append([]byte(nil), sc.Bytes()...)
			fn(c)
		}
	}
	if sc.Err() != nil {
		Die(sc.Err())
	}
}

func Die(v ...interface{}) {
	fmt.Fprintln(os.Stderr, append([]interface{}{"harness:"}, v...)...)
	os.Exit(3)
}

// Catch runs fn and returns the panic text ("" if none) with the top in-repo frame.
func Catch(fn func()) (p string) {
	defer func() {
		if r := recover(); r != nil {
			st := string(debug.Stack())
			frame := ""
			for _, ln := range strings.Split(st, "\n") {
				if strings.Contains(ln, "gomidi/midi/v2") && strings.Contains(ln, "(") && !strings.Contains(ln, "\t") {
					frame = strings.TrimSpace(ln)
					if i := strings.Index(frame, "("); i > 0 {
						frame = frame[:i]
					}
					break
				}
			}
			p = fmt.Sprintf("%v @ %s", r, frame)
		}
	}()
	fn()
	return ""
}

func Pick(r *rand.Rand, xs ...int) int    { return xs[r.Intn(len(xs))] }
func Chance(r *rand.Rand, p float64) bool { return r.Float64() < p }
