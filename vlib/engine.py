"""Common engine for /verif checks: scratch dirs, TLC runner, harness builder, trace validation,
replay confirmation, known-findings matching, evidence writer.

Exit codes of a check: 0 property held on everything explored; 1 VIOLATION (confirmed on real code);
2 machinery failure (TLC crash / timeout / harness build failure / unreproduced alarm) -- never a violation.
"""
import hashlib
import json
import os
import re
import shutil
import subprocess
import sys
import tempfile
import time
import concurrent.futures as cf

VERIF = os.path.dirname(os.path.dirname(os.path.abspath(__file__)))
REPO = os.environ.get("VERIF_REPO", "/repo")
SPEC = os.path.join(VERIF, "spec")
HARNESS = os.path.join(VERIF, "harness")
TLA_CP = "/opt/veriftools/tla/tla2tools.jar:/opt/veriftools/tla/CommunityModules-deps.jar"
NCPU = os.cpu_count() or 4


class Machinery(Exception):
    """Something in the verification machinery failed; exit 2, never a violation."""


def goenv():
    e = dict(os.environ)
    e.update(GOFLAGS="-mod=mod", GOPROXY="off", GOSUMDB="off", GOTOOLCHAIN="local", CGO_ENABLED=e.get("CGO_ENABLED", "0"))
    return e


class TLCResult:
    def __init__(self, rc, out):
        self.rc = rc
        self.out = out
        m = re.search(r"(\d+) states generated, (\d+) distinct states found", out)
        self.generated = int(m.group(1)) if m else 0
        self.distinct = int(m.group(2)) if m else 0
        self.ok = (rc == 0) and ("Model checking completed. No error has been found." in out or "Finished in" in out) \
            and "Error:" not in out
        m = re.search(r"Invariant (\S+) is violated", out)
        self.violated = m.group(1) if m else None
        self.deadlock = "Deadlock reached" in out

    def coverage_zero(self):
        """names of actions/branches never taken (needs -coverage 1)"""
        z = []
        for line in self.out.splitlines():
            m = re.match(r"<(\w+) line .*>: 0:0$", line.strip())
            if m:
                z.append(m.group(1))
        return z


class Failure:
    """One candidate violation: a concrete real-code behaviour the specification rejects."""

    def __init__(self, signature, what, payload):
        self.signature = signature      # class signature used for known-findings matching
        self.what = what                # human readable, one line
        self.payload = payload          # JSON-able: enough to re-execute alone (replay)
        # the cases the same harness process executed BEFORE this one (inputs, in order; not serialised unless needed):
        # lets a rejected case that depends on state the library keeps between calls be reproduced in its context
        self.before = None


class Ctx:
    def __init__(self, pid, tier, seed):
        self.pid, self.tier, self.seed = pid, tier, seed
        self.t0 = time.time()
        base = os.environ.get("VERIF_TMP", "/tmp")
        self._sweep_stale(base)
        self.scratch = tempfile.mkdtemp(prefix="verif_%s_" % pid, dir=base)
        open(os.path.join(self.scratch, "owner.pid"), "w").write(str(os.getpid()))
        self.cov = {"states": 0, "transitions": 0, "traces_validated_against_impl": 0, "evaluations": 0,
                    "distinct_nontrivial": 0, "samples": [], "rule": "", "checker_cmd": "", "trusted_base": [],
                    "model_runs": [], "notes": []}
        self.assumptions = []
        self.violations = 0
        self.known = 0
        self._bins = {}
        self._n = 0
        self._distinct = set()
        self.quick = tier == "quick"

    @staticmethod
    def _sweep_stale(base):
        """remove scratch directories of checks that were killed before they could clean up"""
        try:
            for n in os.listdir(base):
                d = os.path.join(base, n)
                if not n.startswith("verif_C") or not os.path.isdir(d):
                    continue
                try:
                    owner = int(open(os.path.join(d, "owner.pid")).read())
                    os.kill(owner, 0)
                except (ProcessLookupError, ValueError):
                    shutil.rmtree(d, ignore_errors=True)
                except (FileNotFoundError, PermissionError):
                    if time.time() - os.path.getmtime(d) > 6 * 3600:
                        shutil.rmtree(d, ignore_errors=True)
        except OSError:
            pass

    # ---------------------------------------------------------------- utilities
    def log(self, *a):
        print("[%s %6.1fs]" % (self.pid, time.time() - self.t0), *a, flush=True)

    def note(self, s):
        self.cov["notes"].append(s)
        self.log("NOTE", s)

    def sub(self, name):
        self._n += 1
        d = os.path.join(self.scratch, "%02d_%s" % (self._n, name))
        os.makedirs(d)
        return d

    def cleanup(self):
        shutil.rmtree(self.scratch, ignore_errors=True)

    # ---------------------------------------------------------------- harness
    def build(self, pkg="./cmd/vh", race=False, tags="verif"):
        key = (pkg, race, tags)
        if key in self._bins:
            return self._bins[key]
        out = os.path.join(self.scratch, "bin_" + re.sub(r"\W+", "_", pkg) + ("_race" if race else ""))
        env = goenv()
        if race:
            env["CGO_ENABLED"] = "1"
        cmd = ["go", "build", "-tags", tags, "-o", out]
        if race:
            cmd.append("-race")
        hd = self._harness_copy()
        if os.environ.get("VERIF_COVER"):
            # diagnosis only (bin/libcoverage): which lines of the library do the harnesses ever execute?  go only instruments
            # packages of the main module, so the harness is built INSIDE a scratch copy of the library module; the binaries
            # then write their counters to $GOCOVERDIR
            hd = self._cover_copy()
            cmd += ["-cover", "-covermode=atomic", "-coverpkg=./..."]
            pkg = "./verifharness/" + pkg[2:]
        cmd.append(pkg)
        p = subprocess.run(cmd, cwd=hd, env=env, capture_output=True, text=True, timeout=900)
        if p.returncode != 0:
            raise Machinery("harness build failed (does /repo still compile?):\n" + p.stdout + p.stderr)
        self._bins[key] = out
        return out

    def _cover_copy(self):
        ld = os.path.join(self.scratch, "libmod")
        if not os.path.exists(ld):
            shutil.copytree(os.path.join(REPO, "v2"), ld)
            hd = os.path.join(ld, "verifharness")
            shutil.copytree(HARNESS, hd)
            for f in ("go.mod", "go.sum"):
                if os.path.exists(os.path.join(hd, f)):
                    os.remove(os.path.join(hd, f))
            for root, _, files in os.walk(hd):
                for f in files:
                    if f.endswith(".go"):
                        fp = os.path.join(root, f)
                        t = open(fp).read()
                        open(fp, "w").write(t.replace('"verifharness/', '"gitlab.com/gomidi/midi/v2/verifharness/'))
        return ld

    def _harness_copy(self):
        # the harness is built in a scratch copy, always against the current working tree of REPO
        # (VERIF_REPO selects another checkout, e.g. a scratch worktree with a candidate change applied)
        hd = os.path.join(self.scratch, "harness")
        if not os.path.exists(hd):
            shutil.copytree(HARNESS, hd)
            open(os.path.join(hd, "go.mod"), "w").write(
                "module verifharness\n\ngo 1.22.2\n\nrequire gitlab.com/gomidi/midi/v2 v2.0.0\n\n"
                "replace gitlab.com/gomidi/midi/v2 => %s/v2\n" % REPO)
        return hd

    def run(self, cmd, timeout=3600, stdin=None, env=None, cwd=None, ok_codes=(0,)):
        p = subprocess.run(cmd, input=stdin, capture_output=True, text=True, timeout=timeout, env=env, cwd=cwd)
        if p.returncode not in ok_codes:
            raise Machinery("command failed rc=%s: %s\n%s\n%s" % (p.returncode, " ".join(map(str, cmd)), p.stdout[-4000:], p.stderr[-4000:]))
        return p

    # ---------------------------------------------------------------- TLC
    def _spec_dir(self, name):
        d = self.sub(name)
        for f in os.listdir(SPEC):
            if f.endswith((".tla", ".cfg")):
                shutil.copy(os.path.join(SPEC, f), d)
        return d

    def tlc(self, module, cfg=None, workers=None, dump=False, env=None, timeout=1800, coverage=False,
            extra=(), heap=None, dfs=False, must_pass=True, record=True):
        d = self._spec_dir("tlc_" + module)
        cfg = cfg or module + ".cfg"
        workers = workers or min(NCPU, 16)
        jt = os.path.join(d, "jtmp")
        os.makedirs(jt, exist_ok=True)
        java = ["java", "-XX:+UseParallelGC", "-Xss64m", "-Djava.io.tmpdir=" + jt]     # SANY / TLC unpack their modules there
        if heap:
            java.append("-Xmx" + heap)
        if dfs:
            java.append("-Dtlc2.tool.queue.IStateQueue=StateDeque")
        cmd = java + ["-cp", TLA_CP, "tlc2.TLC", "-workers", str(workers), "-metadir", os.path.join(d, "meta"),
                      "-config", cfg]
        dot = None
        if dump:
            dot = os.path.join(d, "graph.dot")
            cmd += ["-dump", "dot,actionlabels", dot]
        if coverage:
            cmd += ["-coverage", "1"]
        cmd += list(extra) + [module + ".tla"]
        e = dict(os.environ)
        e.update(env or {})
        t = time.time()
        try:
            p = subprocess.run(cmd, cwd=d, env=e, capture_output=True, text=True, timeout=timeout)
        except subprocess.TimeoutExpired:
            raise Machinery("TLC timeout on %s/%s after %ss" % (module, cfg, timeout))
        r = TLCResult(p.returncode, p.stdout + p.stderr)
        r.dot = dot
        r.dir = d
        r.wall = time.time() - t
        if must_pass and not r.ok:
            raise Machinery("TLC failed on %s/%s (the SPEC fails its own model check or crashed; says nothing about the code):\n%s"
                            % (module, cfg, r.out[-6000:]))
        if record and r.ok and not env:
            self.cov["states"] += r.distinct
            self.cov["transitions"] += r.generated
            self.cov["model_runs"].append({"module": module, "cfg": cfg, "distinct_states": r.distinct,
                                           "states_generated": r.generated, "wall_s": round(r.wall, 1)})
            self.log("TLC %s/%s: %d distinct states, %d generated, %.1fs" % (module, cfg, r.distinct, r.generated, r.wall))
        return r

    def model_check(self, module, cfg=None, **kw):
        return self.tlc(module, cfg, **kw)

    def apalache(self, module, inv, init="Init", length=0, timeout=900):
        """symbolic check of an (inductive) invariant with Apalache; returns seconds.  Failure = the SPEC lemma fails: Machinery."""
        d = self._spec_dir("apa_" + module)
        t = time.time()
        try:
            p = subprocess.run(["apalache-mc", "check", "--init=" + init, "--inv=" + inv, "--length=%d" % length, module + ".tla"],
                               cwd=d, capture_output=True, text=True, timeout=timeout)
        except subprocess.TimeoutExpired:
            raise Machinery("Apalache timeout on %s/%s" % (module, inv))
        if "EXITCODE: OK" not in p.stdout:
            raise Machinery("Apalache did not discharge %s/%s:\n%s" % (module, inv, (p.stdout + p.stderr)[-3000:]))
        w = time.time() - t
        self.cov["model_runs"].append({"module": module, "tool": "apalache", "invariant": inv, "length": length, "wall_s": round(w, 1)})
        self.log("Apalache %s/%s discharged in %.1fs" % (module, inv, w))
        return w

    # ---------------------------------------------------------------- trace validation (T)
    def validate(self, module, records, shards=None, timeout=1800, cfg=None, heap="3g", dfs=False):
        """Replay implementation records through the trace spec `module`.  Returns list of
        (record_index, info) for records the specification rejects.  Every record is consumed (total trace spec)."""
        if not records:
            return []
        n = len(records)
        lines = [json.dumps(r, separators=(",", ":")) for r in records]
        total = sum(len(x) for x in lines)
        want = shards or NCPU
        if shards is None:
            want = max(want, total // (12 << 20) + 1)       # at most ~12 MB of JSON per TLC process (3 GB heap each)
        shards = max(1, min(want, (n + 49) // 50 if shards is None else want, 256))
        per = (n + shards - 1) // shards
        d = self.sub("trace_" + module)
        jobs = []
        for k in range(shards):
            part = lines[k * per:(k + 1) * per]
            if not part:
                continue
            tp = os.path.join(d, "trace_%d.ndjson" % k)
            with open(tp, "w") as f:
                for r in part:
                    f.write(r + "\n")
            jobs.append((k, tp, os.path.join(d, "out_%d.ndjson" % k), len(part)))

        def one(job):
            k, tp, op, cnt = job
            r = self.tlc(module, cfg or module + ".cfg", workers=1, env={"VERIF_TRACE": tp, "VERIF_OUT": op},
                         timeout=timeout, heap=heap, must_pass=False, record=False, dfs=dfs)
            if not r.ok or not os.path.exists(op):
                err = [x for x in r.out.splitlines() if "rror" in x or "xception" in x or "heap" in x][:8]
                raise Machinery("trace validation %s shard %d did not complete: %s\n%s" % (module, k, err, r.out[-3000:]))
            lines = [json.loads(x) for x in open(op) if x.strip()]
            if not lines or lines[0].get("consumed") != cnt:
                raise Machinery("trace validation %s shard %d consumed %s of %d records" % (module, k, lines[:1], cnt))
            return [(k * per + b["line"] - 1, b.get("info")) for b in lines[1:]]

        bad = []
        t = time.time()
        with cf.ThreadPoolExecutor(max_workers=min(len(jobs), NCPU)) as ex:
            for res in ex.map(one, jobs):
                bad += res
        self.cov["traces_validated_against_impl"] += n
        self.log("trace validation %s: %d records, %d rejected, %d shards, %.1fs" % (module, n, len(bad), len(jobs), time.time() - t))
        return sorted(bad, key=lambda x: x[0])

    # ---------------------------------------------------------------- coverage bookkeeping
    def count(self, n_eval, distinct_keys=(), samples=()):
        self.cov["evaluations"] += n_eval
        for k in distinct_keys:
            self._distinct.add(k)
        for s in samples:
            if len(self.cov["samples"]) < 6:
                self.cov["samples"].append(s)

    # ---------------------------------------------------------------- verdicts
    def load_findings(self):
        p = os.path.join(VERIF, "known_findings.json")
        if not os.path.exists(p):
            return []
        return [f for f in json.load(open(p)).get("findings", []) if f.get("property") == self.pid and f.get("status") == "open"]

    def report(self, failures, confirm=None, max_report=8):
        """failures: list of Failure.  confirm(failure) -> bool re-executes the case alone on the real code and
        re-judges it with the specification; only confirmed failures count."""
        if not failures:
            return
        known = self.load_findings()
        seen = set()
        unconfirmed = 0
        for f in failures:
            if f.signature in seen:
                continue
            if len(seen) >= max_report:
                break
            seen.add(f.signature)
            if confirm is not None:
                try:
                    ok = confirm(f)
                except Machinery as e:
                    self.log("replay machinery failed:", e)
                    ok = False
                in_context = getattr(confirm, "in_context", None)
                if not ok and in_context is not None and f.before:
                    # not reproducible alone: does it reproduce when the cases before it are executed first, in one fresh process
                    # (state the library keeps between calls)?  try a short history first
                    for k in (8, 64, len(f.before)):
                        hist = f.before[-k:]
                        try:
                            ok = in_context(hist, f)
                        except Machinery as e:
                            self.log("replay-in-context machinery failed:", e)
                            ok = False
                        if ok:
                            f.payload["context"] = hist
                            f.what += " ; reproduces only after the %d case(s) executed before it in the same process (state kept between calls)" % len(hist)
                            break
                        if k >= len(f.before):
                            break
                if not ok:
                    unconfirmed += 1
                    self.log("UNREPRODUCED (not reported as violation):", f.what)
                    continue
            k = [x for x in known if re.fullmatch(x["signature"], f.signature)]
            if k:
                self.known += 1
                print("KNOWN-FINDING: property=%s %s [%s]" % (self.pid, k[0].get("what", ""), f.signature), flush=True)
                continue
            h = hashlib.sha1(json.dumps(f.payload, sort_keys=True).encode()).hexdigest()[:12]
            rd = os.path.join(VERIF, "replays", self.pid)
            os.makedirs(rd, exist_ok=True)
            rp = os.path.join(rd, h + ".json")
            json.dump({"property": self.pid, "signature": f.signature, "what": f.what, "payload": f.payload},
                      open(rp, "w"), indent=1)
            self.violations += 1
            print("DETAIL property=%s %s" % (self.pid, f.what[:1500]), flush=True)
            print("VIOLATION property=%s replay=%s" % (self.pid, rp), flush=True)
        if unconfirmed and not self.violations:
            raise Machinery("%d rejected record(s) could not be reproduced on replay" % unconfirmed)

    def write_evidence(self, level="model_checking"):
        c = self.cov
        c["distinct_nontrivial"] = len(self._distinct)
        if not c["samples"]:
            c["samples"] = ["(no sample recorded)"]
        ev = {"property_id": self.pid, "tier": self.tier, "seed": self.seed, "level": level, "coverage": c,
              "assumptions": self.assumptions, "wall_s": round(time.time() - self.t0, 2), "violations": self.violations,
              "known_findings_seen": self.known}
        # X.. ids are extensions of the specification beyond the listed properties: their evidence lives apart
        edir = "evidence_extra" if self.pid.startswith("X") else "evidence"
        if os.path.realpath(REPO) != "/repo":
            # a run against another checkout (a scratch worktree with a seeded change, VERIF_REPO) says nothing about /repo:
            # its evidence goes next to the replays (not committed), never into /verif/evidence
            edir = os.path.join("replays", "evidence_other_checkout")
        os.makedirs(os.path.join(VERIF, edir), exist_ok=True)
        p = os.path.join(VERIF, edir, self.pid + ".json")
        json.dump(ev, open(p + ".tmp", "w"), indent=1)
        os.replace(p + ".tmp", p)


# ---------------------------------------------------------------------- TLA+ value / DOT parsing (binding G)
class _P:
    def __init__(self, s):
        self.s, self.i = s, 0

    def ws(self):
        while self.i < len(self.s) and self.s[self.i] in " \n\t\r":
            self.i += 1

    def val(self):
        self.ws()
        s = self.s
        c = s[self.i]
        if c == '"':
            j = self.i + 1
            o = []
            while s[j] != '"':
                if s[j] == "\\":
                    j += 1
                o.append(s[j])
                j += 1
            self.i = j + 1
            return "".join(o)
        if s.startswith("<<", self.i):
            self.i += 2
            r = []
            self.ws()
            if s.startswith(">>", self.i):
                self.i += 2
                return r
            while True:
                r.append(self.val())
                self.ws()
                if s.startswith(">>", self.i):
                    self.i += 2
                    return r
                assert s[self.i] == ",", s[self.i:self.i + 30]
                self.i += 1
        if c == "[":
            self.i += 1
            r = {}
            while True:
                self.ws()
                m = re.compile(r"(\w+)\s*\|->").match(s, self.i)
                assert m, s[self.i:self.i + 40]
                self.i = m.end()
                r[m.group(1)] = self.val()
                self.ws()
                if s[self.i] == "]":
                    self.i += 1
                    return r
                assert s[self.i] == ",", s[self.i:self.i + 30]
                self.i += 1
        if c == "{":
            self.i += 1
            r = []
            self.ws()
            if s[self.i] == "}":
                self.i += 1
                return {"set": r}
            while True:
                r.append(self.val())
                self.ws()
                if s[self.i] == "}":
                    self.i += 1
                    return {"set": r}
                assert s[self.i] == ","
                self.i += 1
        m = re.compile(r"-?\d+").match(s, self.i)
        if m:
            self.i = m.end()
            return int(m.group(0))
        m = re.compile(r"\w+").match(s, self.i)
        assert m, s[self.i:self.i + 40]
        self.i = m.end()
        w = m.group(0)
        return True if w == "TRUE" else False if w == "FALSE" else w


def parse_tla_value(s):
    return _P(s).val()


def parse_state(label):
    """'/\\ x = 1\n/\\ y = <<>>' -> {x:1, y:[]}"""
    st = {}
    txt = label.replace("\\n", "\n").replace('\\"', '"').replace("\\\\", "\\")
    parts = re.split(r"(?:^|\n)/\\ ", txt)
    for p in parts:
        p = p.strip()
        if not p:
            continue
        name, _, v = p.partition(" = ")
        st[name.strip()] = parse_tla_value(v)
    return st


def parse_dot(path, keep=None):
    """TLC -dump dot,actionlabels -> {'inits':[ids], 'nodes':{id:state}, 'edges':{id:[[action,[args],to],..]}}"""
    nodes, edges, inits = {}, {}, []
    node_re = re.compile(r'^(-?\d+) \[label="(.*?)"(,style = filled)?(?:,tooltip=".*")?\];?$')
    edge_re = re.compile(r'^(-?\d+) -> (-?\d+) \[label="((?:[^"\\]|\\.)*)"')
    with open(path) as f:
        for line in f:
            m = edge_re.match(line)
            if m:
                a, b, lab = m.group(1), m.group(2), m.group(3)
                mm = re.match(r"(\w+)(?:\((.*)\))?$", lab)
                args = []
                if mm and mm.group(2):
                    args = parse_tla_value("<<" + mm.group(2).replace('\\"', '"') + ">>")
                edges.setdefault(a, []).append([mm.group(1) if mm else lab, args, b])
                continue
            m = node_re.match(line.rstrip("\n"))
            if m:
                st = parse_state(m.group(2))
                if keep:
                    st = {k: v for k, v in st.items() if k in keep}
                nodes[m.group(1)] = st
                if m.group(3):
                    inits.append(m.group(1))
    return {"inits": inits, "nodes": nodes, "edges": edges}


# ---------------------------------------------------------------------- main
def main(argv=None):
    import argparse
    import importlib
    ap = argparse.ArgumentParser()
    ap.add_argument("pid")
    ap.add_argument("--tier", default=os.environ.get("VERIF_TIER", "quick"), choices=["quick", "thorough"])
    ap.add_argument("--replay", default=None)
    ap.add_argument("--keep", action="store_true", help="keep scratch directory")
    a = ap.parse_args(argv)
    seed = int(os.environ.get("VERIF_SEED", "1") or "1")
    pid = a.pid.upper()
    ctx = Ctx(pid, a.tier, seed)
    rc = 0
    try:
        mod = importlib.import_module("props." + pid.lower())
        if a.replay:
            payload = json.load(open(a.replay))
            ok = mod.replay(ctx, payload)
            if ok:
                print("VIOLATION property=%s replay=%s" % (pid, os.path.abspath(a.replay)))
                rc = 1
            else:
                print("replay: property holds on this case")
        else:
            mod.run(ctx)
            ctx.write_evidence()
            rc = 1 if ctx.violations else 0
            ctx.log("done: violations=%d known=%d wall=%.1fs" % (ctx.violations, ctx.known, time.time() - ctx.t0))
    except Machinery as e:
        print("MACHINERY-FAILURE property=%s: %s" % (pid, e), file=sys.stderr, flush=True)
        rc = 2
    except subprocess.TimeoutExpired as e:
        print("MACHINERY-FAILURE property=%s: timeout %s" % (pid, e), file=sys.stderr, flush=True)
        rc = 2
    except Exception as e:       # anything else that goes wrong in the machinery (out of processes / memory / disk, a malformed file ..)
        import traceback         # is a failure of the machinery, never a verdict: exit 2, not Python's exit 1
        traceback.print_exc()
        print("MACHINERY-FAILURE property=%s: %s: %s" % (pid, type(e).__name__, e), file=sys.stderr, flush=True)
        rc = 2
    finally:
        if not a.keep:
            ctx.cleanup()
        else:
            print("scratch kept:", ctx.scratch)
    if rc == 2 and not a.replay and not os.environ.get("VERIF_RETRIED"):
        # a failure of the machinery (a killed or starved process, a timeout on a loaded machine ..) is no verdict; many are transient:
        # the whole check is run ONCE more, from scratch, after a pause.  A second failure stands (exit 2).
        print("MACHINERY-FAILURE property=%s: running the check once more in 30 s" % pid, file=sys.stderr, flush=True)
        time.sleep(30)
        os.environ["VERIF_RETRIED"] = "1"
        sys.stdout.flush()
        os.execv(sys.executable, [sys.executable, os.path.join(os.path.dirname(os.path.dirname(os.path.abspath(__file__))), "bin", "check")] + list(argv if argv is not None else sys.argv[1:]))
    sys.exit(rc)
