"""X02 (extension) -- controller protocols (rpn / nrpn), combined helpers, controller constants and note helpers
emit / agree with MIDI 1.0.  Property text: header of spec/Controllers.tla."""
import copy
import json
import os
from vlib.engine import Failure, Machinery

RULE = ("X02 (extension; stated in spec/Controllers.tla from MIDI 1.0 RPN/NRPN + channel mode messages and the package docs): "
        "P1 every rpn/nrpn helper returns only well-formed Control Changes of the protocol (101 100 99 98 6 38 96 97) on the clamped channel which, fed to a "
        "receiver that knows nothing, write exactly the asked value (MSB then LSB / one increment / one decrement) to exactly the asked parameter and leave that "
        "parameter or the null function selected (Reset: null, no write); named helpers = RPN 0,0..0,4.  P2 SilenceChannel: only silencing messages, only on the "
        "channel(s) asked for, CC120 or CC123 on each; > 15 panics; ResetChannel / gm.Reset: exactly the documented list once each on the clamped channel, bank "
        "before program, RPN pitch-bend part optional; gm.GMProgram exact.  P3 every cc.go constant = MIDI 1.0 controller number.  P4 note.go: key = 12*oct+pc "
        "(60 = C5), Name/Base/Octave/Value/String over all 128 keys, key functions over all 256 octaves, Interval / Is over all 128x128 pairs, Transpose over all "
        "128x256 (exact in range, else a valid key not on the opposite side), interval constants and Interval.String for 0<|i|<24.  "
        "Binding T: every record (helper, arguments, returned byte arrays) is judged by TLC with the operators TLC model-checked (MC_Controllers: receiver from any "
        "prior state, mutant-rejection lemmas).  distinct = (ev, fn, args)")


def head(r):
    h = {"ev": r["ev"], "fn": r["fn"], "args": r["args"], "strs": r["strs"]}
    if r["ev"] in ("note", "istr"):
        h["strs"] = []
    return h


def key(r):
    return (r["ev"], r["fn"], tuple(r["args"]), tuple(r["strs"]) if r["ev"] in ("const", "keys") else ())


def signature(r, info):
    if r["ev"] == "seq":
        return "seq:%s:%s" % (r["fn"], "panic" if info.get("why") == "panic" else "sequence")
    return "%s:%s" % (r["ev"], "panic" if info.get("why") == "panic" else "value")


def describe(r, info):
    if r["ev"] == "seq":
        return "%s%s returned %s%s -- %s" % (r["fn"], tuple(r["args"]), r["msgs"][:8], " ..." if len(r["msgs"]) > 8 else "",
                                             (info.get("why") or "") + ((" [panic: %s]" % r["panic"]) if r["panic"] else ""))
    if r["ev"] == "transpose":
        n = r["args"][0]
        wrong = [(i - 128, v) for i, v in enumerate(r["outs"])
                 if not (v == n + i - 128 if 0 <= n + i - 128 <= 127 else (0 <= v <= 127 and (v >= n if i > 128 else v <= n)))]
        wrong.sort(key=lambda x: abs(x[0]))
        return "Note(%d).Transpose(i) -> (i, result) %s%s -- %s" % (n, wrong[:4], " ..." if len(wrong) > 4 else "", info.get("why"))
    return "%s %s%s -> outs %s strs %s panic %r -- %s" % (r["ev"], r["strs"] if r["ev"] in ("const", "keys") else "", tuple(r["args"]),
                                                       r["outs"][:12], r["strs"], r["panic"], info.get("why"))


def canaries(ctx, recs):
    """corrupted copies of accepted records: the trace spec must reject every one of them (self-test of the judge)"""
    def first(pred):
        for r in recs:
            if pred(r):
                return copy.deepcopy(r)
        return None
    cs = []

    def canary(name, pred, corrupt):
        r = first(pred)
        if r is not None:
            corrupt(r)
            cs.append((name, r))

    def setv(path, fn):
        def c(r):
            x = r
            for k in path[:-1]:
                x = x[k]
            x[path[-1]] = fn(x[path[-1]])
        return c
    canary("data value", lambda r: r["fn"] == "rpn.RPN" and r["args"][1] < 127 and len(r["msgs"]) >= 4,
           setv(["msgs", 2, 2], lambda v: (v + 1) % 128))
    canary("channel of one message", lambda r: r["fn"] == "nrpn.NRPN" and r["args"][1] < 127 and len(r["msgs"]) >= 4,
           setv(["msgs", 1, 0], lambda v: 176 + (v + 1) % 16))
    canary("parameter lsb", lambda r: r["fn"] == "rpn.Increment" and r["args"][1] < 127 and r["args"][2] < 126 and len(r["msgs"]) >= 3,
           setv(["msgs", 1, 2], lambda v: v + 1))
    canary("silence all minus one channel", lambda r: r["fn"] == "midi.SilenceChannel" and r["args"] == [-1],
           setv(["msgs"], lambda ms: [m for m in ms if m[0] % 16 != 7]))
    canary("reset value", lambda r: r["fn"] == "midi.ResetChannel" and len(r["msgs"]) >= 4, setv(["msgs", 3, 2], lambda v: (v + 1) % 128))
    canary("constant", lambda r: r["ev"] == "const" and r["strs"] == ["cc.AllSoundOff"], setv(["outs", 0], lambda v: v + 1))
    canary("note name", lambda r: r["ev"] == "note" and r["args"] == [60], setv(["strs", 1], lambda v: "C4"))
    canary("key function", lambda r: r["ev"] == "keys" and r["strs"] == ["Gb"], setv(["outs", 5], lambda v: v - 12))
    canary("interval sign", lambda r: r["ev"] == "interval" and r["args"] == [60], setv(["outs", 67], lambda v: -v))
    if len(cs) < 5:
        ctx.note("only %d canaries could be derived from accepted records" % len(cs))
    if not cs:
        return
    bad = {i for i, _ in ctx.validate("Trace_Controllers", [c for _, c in cs], shards=1)}
    ctx.cov["traces_validated_against_impl"] -= len(cs)              # canaries are not implementation traces
    missed = [cs[i][0] for i in range(len(cs)) if i not in bad]
    if missed:
        raise Machinery("trace spec accepts corrupted records (lost sensitivity): %s" % missed)
    ctx.cov["canaries_rejected"] = [n for n, _ in cs]


def run(ctx):
    q = ctx.quick
    ctx.cov["rule"] = RULE
    ctx.cov["checker_cmd"] = "tlc MC_Controllers ; vh_ctrl gen -> tlc Trace_Controllers (every record) ; corrupted canaries -> tlc Trace_Controllers"
    ctx.cov["trusted_base"] = ["TLC", "spec/Controllers.tla (reading of MIDI 1.0 RPN/NRPN, channel mode messages, controller table; the package's documented note numbering)",
                               "harness/cmd/vh_ctrl (calls the library, records arguments and returned bytes; no oracle)"]
    ctx.assumptions += [
        "order of the two parameter-select messages and the value byte of CC 96 / 97 are free",
        "the trailing null function is optional (undocumented in the helpers); package nrpn may use NRPN 127/127 as null",
        "calls asking for parameter 127/127 itself: only well-formedness, channel, controller set and final selection are demanded",
        "ResetChannel / gm.Reset: the documented RPN pitch-bend-sensitivity part is optional (commented out in the code, absent from the package's test)",
        "SilenceChannel(ch < -1) undocumented: only per-message clauses; Note methods on keys 128..255 and Interval.String for |i| >= 24 or 0: not constrained (no panic)",
    ]
    if q:
        ctx.model_check("MC_Controllers", "MC_Controllers_quick.cfg")
    else:
        ctx.model_check("MC_Controllers", "MC_Controllers.cfg")
        ctx.model_check("MC_Controllers", "MC_Controllers_thorough.cfg")
    vh = ctx.build("./cmd/vh_ctrl")
    d = ctx.sub("ctrl")
    out = os.path.join(d, "recs.ndjson")
    ctx.run([vh, "gen", "-out", out, "-seed", str(ctx.seed), "-nrandom", str(6000 if q else 40000)] + ([] if q else ["-full"]), timeout=1800)
    fails, n, seen_canary = [], 0, False
    per = {}
    chunk = []

    def flush():
        nonlocal seen_canary
        if not chunk:
            return
        bad = ctx.validate("Trace_Controllers", chunk)
        for idx, info in bad:
            r = chunk[idx]
            if info.get("unknown"):
                raise Machinery("generator produced a record outside the trace spec's domain: %s" % json.dumps(head(r)))
            fails.append(Failure(signature(r, info), describe(r, info), {"family": "ctrl", "record": head(r)}))
            # the harness looks at what a call returned only 48 calls later: the calls around it are part of the experiment
            fails[-1].before = [head(x) for x in chunk[max(0, idx - 48):idx]] + [head(x) for x in chunk[idx + 1:idx + 49]]
        if not seen_canary:
            rejected = {i for i, _ in bad}
            canaries(ctx, [r for i, r in enumerate(chunk) if i not in rejected])
            seen_canary = True
        ctx.count(len(chunk), [key(r) for r in chunk],
                  [{"fn": r["fn"], "args": r["args"], "msgs": r["msgs"]} for r in chunk if r["ev"] == "seq" and r["fn"] in ("rpn.RPN", "nrpn.Decrement", "midi.ResetChannel")][-3:])
        del chunk[:]

    with open(out) as f:
        for line in f:
            r = json.loads(line)
            per[r["fn"] or r["ev"]] = per.get(r["fn"] or r["ev"], 0) + 1
            chunk.append(r)
            n += 1
            if len(chunk) >= 120000:
                flush()
    flush()
    ctx.cov["records_per_helper"] = per
    ctx.cov["exhaustive"] = ("constants, key functions x 256 octaves, 128 keys, 128x128 Interval/Is, 128x256 Transpose, 256 Interval.String, Reset x 256 channels, "
                             "SilenceChannel x 256; 128x128 parameter numbers for %s" % ("all six parameter helpers, 128x128 values for the five named RPNs" if not q else
                                                                                         "one 5-argument and one 3-argument helper and 128x128 values of one named RPN (chosen by the seed)"))
    ctx.log("%d records judged by TLC, %d rejected" % (n, len(fails)))
    # of several rejected records of one class the report shows the first: put the most telling one there
    fails.sort(key=lambda f: -f.payload["record"]["args"][0] if f.payload["record"]["ev"] == "transpose" else 0)
    def conf(f):
        return confirm(ctx, f)
    conf.in_context = lambda before, f: rerun(ctx, f.payload["record"], before)[0]
    ctx.report(fails, conf)


def rerun(ctx, rec, before=()):
    """the record is executed FIRST, the calls of its context after it, and all results are looked at only at the end"""
    vh = ctx.build("./cmd/vh_ctrl")
    d = ctx.sub("replay")
    i, o = os.path.join(d, "in.ndjson"), os.path.join(d, "out.ndjson")
    open(i, "w").write("".join(json.dumps(x) + "\n" for x in [rec] + list(before)))
    ctx.run([vh, "rerun", "-in", i, "-out", o])
    new = json.loads(open(o).read().splitlines()[0])
    bad = ctx.validate("Trace_Controllers", [new], shards=1)
    if bad and bad[0][1].get("unknown"):
        raise Machinery("replayed record is outside the trace spec's domain")
    return bool(bad), new


def confirm(ctx, f):
    return rerun(ctx, f.payload["record"])[0]


def replay(ctx, payload):
    ok, new = rerun(ctx, payload["payload"]["record"], payload["payload"].get("context") or ())
    print(json.dumps(new)[:2000])
    return ok
