"""C07 -- message constructors emit the MIDI 1.0 wire encoding and accessors invert them."""
import json
import os
from vlib.engine import Failure, Machinery


def tables(ctx):
    d = ctx.sub("tables")
    tp = os.path.join(d, "tables.json")
    r = ctx.tlc("Export_MidiTables", workers=1, env={"VERIF_OUT": tp}, must_pass=False, record=False)
    if not r.ok or not os.path.exists(tp):
        raise Machinery("table export failed:\n" + r.out[-3000:])
    return tp


def run(ctx):
    q = ctx.quick
    ctx.cov["rule"] = ("X: every constructor over its whole argument domain (NoteOn/NoteOffVelocity/PolyAfterTouch/ControlChange: channel x 256 x 256 "
                       "(quick: channels 0..17,127,128,254,255; thorough: all 256), NoteOff/ProgramChange/AfterTouch: 256 x 256, Pitchbend: channels x all 65536 int16, "
                       "all 65536 SPP, all 256 MTC / SongSelect, Tune) compared with tables TLC exported from MidiMessage.tla (clamp tables, pitch/SPP encodings); "
                       "every accessor on every result; every in-range message through the testdrv loopback.  T: all boundary tuples + random tuples as full records "
                       "(bytes, all accessor answers, loopback -- half after a context message, a quarter through the sender of midi.SendTo after a message with the same status byte and a "
                       "system common message in between) judged by TLC on the concrete arguments.  distinct by (fn,args); non-trivial = some argument out of range or a 14-bit value")
    ctx.cov["checker_cmd"] = "tlc MC_MidiMessage ; tlc Export_MidiTables -> vh_msg ctor-sweep ; tlc Trace_Msg"
    ctx.cov["trusted_base"] = ["TLC", "spec/MidiMessage.tla (MIDI 1.0 status table, clamping rule from the property)",
                               "Go composition of per-argument tables (Tables.expect / checkCall), re-validated by TLC on every boundary tuple and >= 10^4 random tuples per run"]
    ctx.assumptions += ["out-of-range SPP / MTC / SongSelect arguments: only well-formedness is demanded (property text)",
                        "derived views GetNoteStart / GetNoteEnd / GetChannel are not counted as type-specific accessors"]
    ctx.model_check("MC_MidiMessage")
    tp = tables(ctx)
    vh = ctx.build("./cmd/vh_msg")
    d = ctx.sub("ctor")
    out, samples = os.path.join(d, "res.json"), os.path.join(d, "samples.ndjson")
    ctx.run([vh, "ctor-sweep", "-tables", tp, "-out", out, "-samples", samples, "-nsamples", str(15000 if q else 200000), "-seed", str(ctx.seed)]
            + ([] if q else ["-full"]), timeout=3600)
    res = json.load(open(out))
    recs = [json.loads(x) for x in open(samples)]
    bad = ctx.validate("Trace_Msg", recs)
    ctx.log("ctor sweep: %d calls, %d loopbacks, %d flagged by the sweep; %d records to TLC, %d rejected" % (res["calls"], res["loopbacks"], len(res["bad"]), len(recs), len(bad)))
    rejected = {(recs[i]["fn"], tuple(recs[i]["args"])) for i, _ in bad}   # with or without context message
    for b in res["bad"]:
        if (b["fn"], tuple(b["args"])) not in rejected:
            raise Machinery("sweep flagged %s but TLC accepts the record: table composition glue is wrong" % b)
    ctx.cov["sweep"] = {"calls": res["calls"], "loopbacks": res["loopbacks"], "full_domain": res["full"]}
    if res["full"]:
        ctx.cov["exhaustive"] = True
    ctx.count(res["calls"], [(r["fn"], tuple(r["args"])) for r in recs if any(a > 127 or a < 0 for a in r["args"]) or r["fn"] in ("Pitchbend", "SPP")],
              [{"fn": r["fn"], "args": r["args"], "bytes": r["bytes"], "loop": r["loop"], "acc_ok": [k for k, v in r["acc"].items() if v["ok"]]} for r in recs[-3:]])
    fails = []
    for idx, info in bad:
        r = recs[idx]
        why = "bytes" if not info["wellformed"] or (info["expected"] and info["expected"] != r["bytes"]) else ("accessor" if not info["accOk"] else ("loopback" if not info["loopOk"] else "panic"))
        fails.append(Failure("call:%s:%s" % (r["fn"], why), "%s%s -> bytes %s expected %s; accessors ok=%s; loopback %s; panic %r" %
                             (r["fn"] + ("[after %s%s%s%s]" % (r["ctxfn"], tuple(r["ctxargs"]), (" and %s%s" % (r["ctx2fn"], tuple(r["ctx2args"]))) if r.get("ctx2fn") else "", " through midi.SendTo" if r.get("via") else "") if r.get("ctxfn") else ""), tuple(r["args"]), r["bytes"], info["expected"], [k for k, v in r["acc"].items() if v["ok"]], r["loop"], r["panic"]),
                             {"family": "msg", "record": {"ev": "call", "fn": r["fn"], "args": r["args"], "ctxfn": r.get("ctxfn", ""), "ctxargs": r.get("ctxargs", []),
                                                                "ctx2fn": r.get("ctx2fn", ""), "ctx2args": r.get("ctx2args", []), "via": r.get("via", "")}}))
    ctx.report(fails, lambda f: confirm(ctx, f))


def rerun(ctx, rec):
    vh = ctx.build("./cmd/vh_msg")
    d = ctx.sub("replay")
    i, o = os.path.join(d, "in.ndjson"), os.path.join(d, "out.ndjson")
    open(i, "w").write(json.dumps(rec) + "\n")
    ctx.run([vh, "msg-rerun", "-in", i, "-out", o])
    new = json.loads(open(o).read())
    return bool(ctx.validate("Trace_Msg", [new], shards=1)), new


def confirm(ctx, f):
    if rerun(ctx, f.payload["record"])[0]:
        return True
    if f.payload["record"].get("ev") == "cls":
        # not reproducible as the first classification of a process: the same message after messages of every kind have been
        # classified (what a classification answers must not depend on what was classified before)
        warm = dict(f.payload["record"], warm=True)
        if rerun(ctx, warm)[0]:
            f.payload["record"] = warm
            f.what += " ; only after other messages have been classified in the same process (state kept between calls)"
            return True
    return False


def replay(ctx, payload):
    ok, new = rerun(ctx, payload["payload"]["record"])
    print(json.dumps(new)[:2000])
    return ok
