"""Single source for MANIFEST.json (bin/mkmanifest).  CLAIMED maps property id -> manifest fields."""
TITLES = {}
CLAIMED = {
    "C04": dict(
        text=("TLC model-checks a sender/receiver composition (MC_LiveWire: all elisions, real-time placements, chunkings, clocks within small "
              "constants) showing the receiver model LiveDecoder delivers exactly what is sent; the real decoder is bound to that model both ways: "
              "TLC's dumped state graph is walked through the real code (every model state, every input suffix to a fixed depth) and thousands of "
              "recorded real sessions are replayed through the spec's Step operator by TLC (content, order, chunk and time stamp of every delivery)."),
        note="Trusted: TLC, the reading of MIDI 1.0 in spec/LiveDecoder.tla, the recording harness. FD may be surfaced or skipped. Bounded alphabet for the exhaustive part; random sessions for full byte values.",
        technique="TLA+ receiver model; TLC exhaustive model check; state-graph walk into the real decoder; TLC trace validation of recorded sessions",
        ref="DESIGN.md section 4 C04"),
    "C06": dict(
        text=("TLC exhaustively checks the receiver model over all byte-class streams (well-formedness, resynchronisation from every reachable "
              "state, bounded sysex, running status) and the real decoder is shown to conform: graph walk of all 4.5k model states x all suffixes at "
              "listener and driver level, plus trace validation of garbage / messy / garbage-prefixed sessions incl. 100 kB streams; panics are "
              "recorded outcomes and rejected by the trace spec."),
        note="Trusted: TLC, spec/LiveDecoder.tla, harness recording. The walk is exhaustive only to the stated suffix depth; beyond it random sessions.",
        technique="TLA+ receiver model; TLC invariants (OutWellFormed, Resync, ...); state-graph walk; TLC trace validation",
        ref="DESIGN.md section 4 C06"),
    "C14": dict(
        text=("On the model TLC checks the lock-step product of a filtered and an all-on decoder (FilterExact). On the code, every session and every "
              "graph-walk sequence is run twice (option set o / all on) and TLC checks deliveries(o) = Project(o, deliveries(all on)) in content, "
              "order, chunk and time stamp."),
        note="Judges only the relation between the two real runs (what the all-on run must be is C04/C06). midicatdrv's second copy of the filter is covered under C17's harness.",
        technique="TLA+ lock-step product model checked by TLC; twin-run trace validation by TLC; twin graph walk",
        ref="DESIGN.md section 4 C14"),
}
NOT_YET = {}
